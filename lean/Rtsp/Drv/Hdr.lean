import Rtsp.Model.Headers.Transport
import Rtsp.Model.Headers.Session
import Rtsp.Model.Headers.RtpInfo
import Rtsp.Model.Headers.Range
import Rtsp.Model.Headers.Authenticate
import Rtsp.Model.Headers.KeyMgmt
import Rtsp.Drv.Util
/-
Line protocol of domain `hdr` (pkg/headers, pkg/mikey).  Header texts travel as hex byte strings
(`-` = empty); `X.u <hex>*` parses the header value consisting of the given strings and answers
`ok <value>` | `err` | `unm`; `X.m <value>` answers the marshalled text in hex.

Value tokens: strings `s<hex>`, absent optional `-`, pairs `a,b`, numbers decimal.
  T  <profile> <protocol> <delivery> <source> <dest> <interleaved> <ttl> <port> <client_port> <server_port> <ssrc> <mode>
  S  <session> <timeout>
  I  <n> {<url> <seq> <rtptime>}
  R  smpte|npt|clock <start> <stop> <time>      smpte time ns,frame,subframe; npt ns; civil Y,M,D,h,m,s,ns
  A  <method> <realm> <nonce> <opaque> <stale> <algorithm>
  Z  <method> <user> <pass> <realm> <nonce> <uri> <response> <opaque> <algorithm>
  K  <url> M…
  M  <ver> <dt> <v> <prf> <csbid> <maptype> <ncs> {<policy> <ssrc> <roc>} <npayloads> {payload}
     payload: K <encr> <mac> <n> {<type> <kv> <key hex> <spi hex>} | T <type> <value> | S <no> <prot> <n> {<type> <value hex>} | R <hex>
Other ops: kv.u <sep code> <hex> (keyValParseOrdered), b64.d <hex>, b64.e <hex>, lower.eq <hex> <hex>,
float.ns <hex>, utc.p <hex>.
-/
namespace Rtsp.Drv.Hdr
open Rtsp.Hdr Rtsp.Mikey

def strOfBytes (b : List UInt8) : Str := b.map fun x => Char.ofNat x.toNat
def bytesOfStr (s : Str) : List UInt8 := s.map fun c => UInt8.ofNat c.toNat

def hexS (s : Str) : String := hex (bytesOfStr s)
def encS (s : Str) : String := "s" ++ (if s.isEmpty then "" else hexS s)
def encOpt {α} (f : α → String) : Option α → String
  | none => "-"
  | some a => f a
def encPair (p : Nat × Nat) : String := s!"{p.1},{p.2}"
def encB (b : List UInt8) : String := hex b

def decS (t : String) : Option Str :=
  match t.toList with
  | 's' :: rest => if rest.isEmpty then some [] else (unhex (String.ofList rest)).map strOfBytes
  | _ => none
def decOpt {α} (f : String → Option α) (t : String) : Option (Option α) :=
  if t == "-" then some none else (f t).map some
def decPair (t : String) : Option (Nat × Nat) :=
  match t.splitOn "," with
  | [a, b] => do pure ((← a.toNat?), (← b.toNat?))
  | _ => none
def decInts (t : String) : Option (List Int) := (t.splitOn ",").mapM String.toInt?

/-- the header value: the remaining arguments, each a hex string -/
def decValue (args : List String) : Option (List Str) := args.mapM fun a => (unhex a).map strOfBytes

def res {α} (f : α → String) : Res α → String
  | .ok a => "ok " ++ f a
  | .err _ => "err"
  | .unm => "unm"

/-! values -/

def encTransport (h : Transport) : String :=
  " ".intercalate ["T", (match h.profile with | .avp => "0" | .savp => "1"), (match h.protocol with | .udp => "0" | .tcp => "1"),
    encOpt (fun d => match d with | Delivery.unicast => "0" | .multicast => "1") h.delivery,
    encOpt encS h.source, encOpt encS h.destination, encOpt encPair h.interleaved, encOpt toString h.ttl,
    encOpt encPair h.ports, encOpt encPair h.clientPorts, encOpt encPair h.serverPorts, encOpt toString h.ssrc,
    encOpt (fun m => match m with | Mode.play => "0" | .record => "1") h.mode]

def bit {α} (a b : α) (t : String) : Option α := if t == "0" then some a else if t == "1" then some b else none

def decTransport : List String → Option (Transport × List String)
  | "T" :: p :: q :: d :: src :: dst :: il :: ttl :: po :: cp :: sp :: ssrc :: mode :: rest => do
    let h : Transport := {
      profile := ← bit .avp .savp p, protocol := ← bit .udp .tcp q, delivery := ← decOpt (bit .unicast .multicast) d,
      source := ← decOpt decS src, destination := ← decOpt decS dst, interleaved := ← decOpt decPair il,
      ttl := ← decOpt String.toNat? ttl, ports := ← decOpt decPair po, clientPorts := ← decOpt decPair cp,
      serverPorts := ← decOpt decPair sp, ssrc := ← decOpt String.toNat? ssrc, mode := ← decOpt (bit .play .record) mode }
    pure (h, rest)
  | _ => none

def decMany {α} (f : List String → Option (α × List String)) : Nat → List String → Option (List α × List String)
  | 0, ts => some ([], ts)
  | n + 1, ts => do
    let (a, ts) ← f ts
    let (as, ts) ← decMany f n ts
    pure (a :: as, ts)

def encEntry (e : RtpInfoEntry) : String := s!"{encS e.url} {encOpt toString e.seq} {encOpt toString e.ts}"
def decEntry : List String → Option (RtpInfoEntry × List String)
  | u :: s :: t :: rest => do
    pure ({ url := ← decS u, seq := ← decOpt String.toNat? s, ts := ← decOpt String.toNat? t }, rest)
  | _ => none

def encSmpte (t : SmpteTime) : String := s!"{t.time},{t.frame},{t.subframe}"
def decSmpte (t : String) : Option SmpteTime :=
  match decInts t with
  | some [a, b, c] => some { time := a, frame := b.toNat, subframe := c.toNat }
  | _ => none
def encCivil (c : Civil) : String := s!"{c.year},{c.month},{c.day},{c.hour},{c.min},{c.sec},{c.nsec}"
def decCivil (t : String) : Option Civil :=
  match (t.splitOn ",").mapM String.toNat? with
  | some [y, mo, d, h, mi, s, ns] => some { year := y, month := mo, day := d, hour := h, min := mi, sec := s, nsec := ns }
  | _ => none

def encRange (r : Range) : String :=
  (match r.value with
   | .smpte a b => s!"R smpte {encSmpte a} {encOpt encSmpte b}"
   | .npt a b => s!"R npt {a} {encOpt toString b}"
   | .utc a b => s!"R clock {encCivil a} {encOpt encCivil b}") ++ " " ++ encOpt encCivil r.time

def decRange : List String → Option Range
  | ["R", kind, a, b, t] => do
    let time ← decOpt decCivil t
    if kind == "smpte" then pure { value := .smpte (← decSmpte a) (← decOpt decSmpte b), time }
    else if kind == "npt" then pure { value := .npt (← a.toInt?) (← decOpt String.toInt? b), time }
    else if kind == "clock" then pure { value := .utc (← decCivil a) (← decOpt decCivil b), time }
    else none
  | _ => none

def encAlg : AuthAlgorithm → String | .md5 => "0" | .sha256 => "1"
def encMethod : AuthMethod → String | .basic => "0" | .digest => "1"

def encAuthenticate (h : Authenticate) : String :=
  s!"A {encMethod h.method} {encS h.realm} {encS h.nonce} {encOpt encS h.opaq} {encOpt encS h.stale} {encOpt encAlg h.algorithm}"
def decAuthenticate : List String → Option Authenticate
  | ["A", m, r, n, o, st, a] => do
    pure { method := ← bit .basic .digest m, realm := ← decS r, nonce := ← decS n, opaq := ← decOpt decS o,
           stale := ← decOpt decS st, algorithm := ← decOpt (bit .md5 .sha256) a }
  | _ => none

def encAuthorization (h : Authorization) : String :=
  s!"Z {encMethod h.method} {encS h.username} {encS h.basicPass} {encS h.realm} {encS h.nonce} {encS h.uri} {encS h.response} {encOpt encS h.opaq} {encOpt encAlg h.algorithm}"
def decAuthorization : List String → Option Authorization
  | ["Z", m, u, p, r, n, uri, resp, o, a] => do
    pure { method := ← bit .basic .digest m, username := ← decS u, basicPass := ← decS p, realm := ← decS r, nonce := ← decS n,
           uri := ← decS uri, response := ← decS resp, opaq := ← decOpt decS o, algorithm := ← decOpt (bit .md5 .sha256) a }
  | _ => none

/-! MIKEY -/

def encKeyData (k : KeyData) : String := s!"{k.type} {k.kv} {encB k.keyData} {encB k.spi}"
def encParam (p : PolicyParam) : String := s!"{p.type} {encB p.value}"
def encPayload : Payload → String
  | .kemac e subs m => " ".intercalate (["K", toString e, toString m, toString subs.length] ++ subs.map encKeyData)
  | .t tt tv => s!"T {tt} {tv}"
  | .sp no prot ps => " ".intercalate (["S", toString no, toString prot, toString ps.length] ++ ps.map encParam)
  | .rand d => s!"R {encB d}"

def encMessage (m : Message) : String :=
  let h := m.header
  " ".intercalate (["M", toString h.version, toString h.dataType, b2s h.v, toString h.prfFunc, toString h.csbId,
    toString h.csIdMapType, toString h.csIdMapInfo.length] ++ h.csIdMapInfo.map (fun e => s!"{e.policyNo} {e.ssrc} {e.roc}")
    ++ [toString m.payloads.length] ++ m.payloads.map encPayload)

def decEntryCs : List String → Option (SrtpIdEntry × List String)
  | p :: s :: r :: rest => do pure ({ policyNo := ← p.toNat?, ssrc := ← s.toNat?, roc := ← r.toNat? }, rest)
  | _ => none
def decKeyData : List String → Option (KeyData × List String)
  | t :: kv :: k :: spi :: rest => do pure ({ type := ← t.toNat?, kv := ← kv.toNat?, keyData := ← unhex k, spi := ← unhex spi }, rest)
  | _ => none
def decParam : List String → Option (PolicyParam × List String)
  | t :: v :: rest => do pure ({ type := ← t.toNat?, value := ← unhex v }, rest)
  | _ => none
def decPayload : List String → Option (Payload × List String)
  | "K" :: e :: m :: n :: rest => do
    let (subs, rest) ← decMany decKeyData (← n.toNat?) rest
    pure (.kemac (← e.toNat?) subs (← m.toNat?), rest)
  | "T" :: tt :: tv :: rest => do pure (.t (← tt.toNat?) (← tv.toNat?), rest)
  | "S" :: no :: prot :: n :: rest => do
    let (ps, rest) ← decMany decParam (← n.toNat?) rest
    pure (.sp (← no.toNat?) (← prot.toNat?) ps, rest)
  | "R" :: d :: rest => do pure (.rand (← unhex d), rest)
  | _ => none
def decMessage : List String → Option (Message × List String)
  | "M" :: ver :: dt :: v :: prf :: csb :: mt :: ncs :: rest => do
    let (es, rest) ← decMany decEntryCs (← ncs.toNat?) rest
    match rest with
    | np :: rest =>
      let (ps, rest) ← decMany decPayload (← np.toNat?) rest
      pure ({ header := { version := ← ver.toNat?, dataType := ← dt.toNat?, v := v == "1", prfFunc := ← prf.toNat?,
                          csbId := ← csb.toNat?, csIdMapType := ← mt.toNat?, csIdMapInfo := es }, payloads := ps }, rest)
    | [] => none
  | _ => none

def encKeyMgmt (h : KeyMgmt) : String := s!"K {encS h.url} {encMessage h.msg}"

def opt (x : Option String) : String := x.getD "bad-op"

def mk : IO Handler := do
  return fun args => do
    match args with
    | "transport.u" :: v => return opt do pure (res encTransport (Transport.unmarshal (← decValue v)))
    | "transport.m" :: v => return opt do pure (hexS (← decTransport v).1.marshal)
    | "transports.u" :: v => return opt do
        pure (res (fun ts => " ".intercalate (toString ts.length :: ts.map encTransport)) (Transports.unmarshal (← decValue v)))
    | "transports.m" :: n :: v => return opt do pure (hexS (Transports.marshal (← decMany decTransport (← n.toNat?) v).1))
    | "session.u" :: v => return opt do
        pure (res (fun (h : Session) => s!"S {encS h.session} {encOpt toString h.timeout}") (Session.unmarshal (← decValue v)))
    | ["session.m", "S", s, t] => return opt do
        pure (hexS (Session.marshal { session := ← decS s, timeout := ← decOpt String.toNat? t }))
    | "rtpinfo.u" :: v => return opt do
        pure (res (fun es => " ".intercalate ("I" :: toString es.length :: es.map encEntry)) (RtpInfo.unmarshal (← decValue v)))
    | "rtpinfo.m" :: "I" :: n :: v => return opt do pure (hexS (RtpInfo.marshal (← decMany decEntry (← n.toNat?) v).1))
    | "range.u" :: v => return opt do pure (res encRange (Range.unmarshal (← decValue v)))
    | "range.m" :: v => return opt do pure (hexS (← decRange v).marshal)
    | "authenticate.u" :: v => return opt do pure (res encAuthenticate (Authenticate.unmarshal (← decValue v)))
    | "authenticate.m" :: v => return opt do pure (hexS (← decAuthenticate v).marshal)
    | "authorization.u" :: v => return opt do pure (res encAuthorization (Authorization.unmarshal (← decValue v)))
    | "authorization.m" :: v => return opt do pure (hexS (← decAuthorization v).marshal)
    | "keymgmt.u" :: v => return opt do pure (res encKeyMgmt (KeyMgmt.unmarshal (← decValue v)))
    | "keymgmt.m" :: "K" :: u :: v => return opt do pure (hexS (KeyMgmt.marshal { url := ← decS u, msg := (← decMessage v).1 }))
    | ["mikey.u", b] => return opt do
        pure (match Message.unmarshal (← unhex b) with | some m => "ok " ++ encMessage m | none => "err")
    | "mikey.m" :: v => return opt do pure (hex (← decMessage v).1.marshal)
    | ["kv.u", sep, b] => return opt do
        let s ← (unhex b).map strOfBytes
        pure (res (fun ps => " ".intercalate (toString ps.length :: ps.map fun p => s!"{encS p.1} {encS p.2}"))
          (keyValParse (Char.ofNat (← sep.toNat?)) s))
    | ["b64.d", b] => return opt do
        pure (match Rtsp.B64Std.decode (← unhex b) with | some o => "ok " ++ hex o | none => "err")
    | ["b64.e", b] => return opt do pure (hex (Rtsp.B64Std.encode (← unhex b)))
    | ["lower.eq", a, b] => return opt do
        pure (b2s (lowerEq (strOfBytes (← unhex a)) (strOfBytes (← unhex b))))
    | ["float.ns", b] => return opt do pure (res toString (parseFloatNs (strOfBytes (← unhex b))))
    | ["utc.p", b] => return opt do pure (res encCivil (parseUTC (strOfBytes (← unhex b))))
    | _ => return "bad-op"

end Rtsp.Drv.Hdr
