import Rtsp.Model.TimeDec
import Rtsp.Model.Ntp
import Rtsp.Model.SenderReport
import Rtsp.Drv.Util
/-
Line protocol for the timestamp models (domain `time`).
  time dinit                                     → ok                 GlobalDecoder.Initialize
  time dec <track> <rate> <eq 0|1> <ts> <nowNs>  → pts <n> | none     GlobalDecoder.Decode
  time ntpenc <unixNs>                           → <uint64>           ntp.Encode
  time ntpdec <uint64>                           → <unixNs>           ntp.Decode
  time fracfloat <n>                             → <fraction>         Encode's fractional field for ntp%10^9 = n,
                                                                       computed on the binary64 model (float path)
  time fracsweep <start> <count>                 → <checksum>         fold over Encode's fractional field
                                                                       for ntp%10^9 = start … start+count-1
  time sinit <rate>                              → ok                 rtpsender.Sender
  time spkt <ts> <ntpNs> <eq> <nowNs> <ssrc> <len> → ok               Sender.ProcessPacket
  time srep <nowNs>                              → sr <ssrc> <ntp> <rtp> <packets> <octets>   Sender.report
  time rinit <rate>                              → ok                 rtpreceiver.Receiver (NTP part)
  time rsr <ntp> <rtp>                           → ok                 ProcessSenderReport
  time rntp <ts>                                 → ntp <unixNs> | none   PacketNTP
-/
namespace Rtsp.Drv.Time
open Rtsp

/-- checksum step shared (by specification, not by code) with the Go side:
`acc' = (acc*1021 + x) mod (2^40 - 87)` -/
def mixStep (acc x : Nat) : Nat := (acc * 1021 + x) % 1099511627689

def fracSweep : Nat → Nat → Nat → Nat
  | 0, _, acc => acc
  | k + 1, n, acc => fracSweep k (n + 1) (mixStep acc (Ntp.encFrac n))

def mk : IO Handler := do
  let dec ← IO.mkRef TimeDec.init
  let snd ← IO.mkRef (SR.Sender.init 90000)
  let rcv ← IO.mkRef (SR.Recv.init 90000)
  return fun args => do
    match args with
    | ["dinit"] => dec.set TimeDec.init; return "ok"
    | ["dec", id, rate, eq, ts, now] =>
      match id.toNat?, rate.toInt?, ts.toNat?, now.toInt? with
      | some id, some rate, some ts, some now =>
        let (s', r) := TimeDec.decode (← dec.get) { id, rate, eq := eq == "1", ts := UInt32.ofNat ts, now }
        dec.set s'
        match r with
        | some p => return s!"pts {p}"
        | none => return "none"
      | _, _, _, _ => return "bad-op"
    | ["ntpenc", t] =>
      match t.toInt? with
      | some t => return toString (Ntp.encode t)
      | none => return "bad-op"
    | ["ntpdec", v] =>
      match v.toNat? with
      | some v => return toString (Ntp.decode v)
      | none => return "bad-op"
    | ["fracfloat", n] =>
      match n.toNat? with
      | some n => return toString (Ntp.encFracFloat n)
      | none => return "bad-op"
    | ["fracsweep", a, n] =>
      match a.toNat?, n.toNat? with
      | some a, some n => return toString (fracSweep n a 0)
      | _, _ => return "bad-op"
    | ["sinit", rate] =>
      match rate.toInt? with
      | some rate => snd.set (SR.Sender.init rate); return "ok"
      | none => return "bad-op"
    | ["spkt", ts, ntp, eq, now, ssrc, len] =>
      match ts.toNat?, ntp.toInt?, now.toInt?, ssrc.toNat?, len.toNat? with
      | some ts, some ntp, some now, some ssrc, some len =>
        snd.modify fun s => s.processPacket (UInt32.ofNat ts) ntp (eq == "1") now (UInt32.ofNat ssrc) len
        return "ok"
      | _, _, _, _, _ => return "bad-op"
    | ["srep", now] =>
      match now.toInt? with
      | some now =>
        let r := (← snd.get).report now
        return s!"sr {r.ssrc.toNat} {r.ntp} {r.rtp.toNat} {r.packets} {r.octets.toNat}"
      | none => return "bad-op"
    | ["rinit", rate] =>
      match rate.toInt? with
      | some rate => rcv.set (SR.Recv.init rate); return "ok"
      | none => return "bad-op"
    | ["rsr", ntp, rtp] =>
      match ntp.toNat?, rtp.toNat? with
      | some ntp, some rtp => rcv.modify fun r => r.processSR ntp (UInt32.ofNat rtp); return "ok"
      | _, _ => return "bad-op"
    | ["rntp", ts] =>
      match ts.toNat? with
      | some ts =>
        match (← rcv.get).packetNTP (UInt32.ofNat ts) with
        | some t => return s!"ntp {t}"
        | none => return "none"
      | none => return "bad-op"
    | _ => return "bad-op"

end Rtsp.Drv.Time
