import Rtsp.Model.Codec.Lpcm
import Rtsp.Drv.CodecUtil
namespace Rtsp.Drv.Lpcm
open Rtsp.Rtp Rtsp.Codec.Lpcm

/-- `einit <pt> <ssrc> <seq0> <max> <bitDepth> <channelCount>`, `dinit` -/
def mk : IO Handler := do
  let enc ← IO.mkRef (Enc.init { pt := 96, ssrc := 0, max := 1450 } 16 2 0)
  let dec ← IO.mkRef ({} : Dec)
  return fun args => do
    match args with
    | ["einit", pt, ssrc, seq0, mx, bd, cc] =>
      match pt.toNat?, ssrc.toNat?, seq0.toNat?, mx.toNat?, bd.toNat?, cc.toNat? with
      | some a, some b, some c, some d, some e, some f =>
        enc.set (Enc.init { pt := UInt8.ofNat a, ssrc := UInt32.ofNat b, max := d } e f (UInt16.ofNat c))
        return "ok"
      | _, _, _, _, _, _ => return "bad-op"
    | ["enc", us] =>
      match parseUnits us with
      | some [f] =>
        let (e', ps) := encode (← enc.get) f
        enc.set e'
        return showPkts ps
      | _ => return "bad-op"
    | ["dinit"] => dec.set {}; return "ok"
    | "dec" :: rest =>
      match parseDecArgs rest with
      | some p =>
        let (d', r) := decode (← dec.get) p
        dec.set d'
        return showDecRes (fun f => showUnits [f]) r ++ s!" ret {retained d'}"
      | none => return "bad-op"
    | _ => return "bad-op"

end Rtsp.Drv.Lpcm
