import Rtsp.Model.Codec.MpegTs
import Rtsp.Drv.CodecUtil
namespace Rtsp.Drv.MpegTs
open Rtsp.Rtp Rtsp.Codec.MpegTs

def mk : IO Handler := do
  let enc ← IO.mkRef ({ cfg := { pt := 33, ssrc := 0, max := 1316 }, seq := 0 } : Enc)
  return fun args => do
    match args with
    | ["einit", pt, ssrc, seq0, mx] =>
      match pt.toNat?, ssrc.toNat?, seq0.toNat?, mx.toNat? with
      | some a, some b, some c, some d =>
        enc.set { cfg := { pt := UInt8.ofNat a, ssrc := UInt32.ofNat b, max := d }, seq := UInt16.ofNat c }
        return "ok"
      | _, _, _, _ => return "bad-op"
    | ["enc", us] =>
      match parseUnits us with
      | some ts =>
        let (e', ps) := encode (← enc.get) ts
        enc.set e'
        return showPkts ps
      | none => return "bad-op"
    | ["dinit"] => return "ok"
    | "dec" :: rest =>
      match parseDecArgs rest with
      | some p => return showDecRes showUnits (decode p) ++ s!" ret {retained}"
      | none => return "bad-op"
    | _ => return "bad-op"

end Rtsp.Drv.MpegTs
