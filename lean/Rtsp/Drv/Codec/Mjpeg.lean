import Rtsp.Model.Codec.Mjpeg
import Rtsp.Drv.CodecUtil
namespace Rtsp.Drv.Mjpeg
open Rtsp.Rtp Rtsp.Codec.Mjpeg

/-- the parsed image on the op line: units = meta (type, width hi, lo, height hi, lo), the
quantisation tables, the entropy-coded data -/
def parseJpeg : List Bytes → Option Jpeg
  | [t, wh, wl, hh, hl] :: rest =>
    match rest.reverse with
    | data :: tablesRev =>
      some { typ := t, width := wh.toNat * 256 + wl.toNat, height := hh.toNat * 256 + hl.toNat,
             tables := tablesRev.reverse, data := data }
    | [] => none
  | _ => none

def mk : IO Handler := do
  let enc ← IO.mkRef ({ cfg := { pt := 26, ssrc := 0, max := 1450 }, seq := 0 } : Enc)
  let dec ← IO.mkRef ({} : Dec)
  return fun args => do
    match args with
    | ["einit", pt, ssrc, seq0, mx] =>
      match pt.toNat?, ssrc.toNat?, seq0.toNat?, mx.toNat? with
      | some a, some b, some c, some d =>
        enc.set { cfg := { pt := UInt8.ofNat a, ssrc := UInt32.ofNat b, max := d }, seq := UInt16.ofNat c }
        return "ok"
      | _, _, _, _ => return "bad-op"
    | ["enc", us] =>
      match (parseUnits us).bind parseJpeg with
      | some j =>
        let (e', r) := encode (← enc.get) j
        enc.set e'
        match r with
        | some ps => return showPkts ps
        | none => return "err"
      | none => return "bad-op"
    | ["dinit"] => dec.set {}; return "ok"
    | "dec" :: rest =>
      match parseDecArgs rest with
      | some p =>
        let (d', r) := decode (← dec.get) p
        dec.set d'
        return showDecRes (fun f => showUnits [f]) r ++ s!" ret {retained d'}"
      | none => return "bad-op"
    | _ => return "bad-op"

end Rtsp.Drv.Mjpeg
