import Rtsp.Model.Codec.Mpeg1Video
import Rtsp.Drv.CodecUtil
namespace Rtsp.Drv.Mpeg1Video
open Rtsp.Rtp Rtsp.Codec.Mpeg1Video

def mk : IO Handler := do
  let enc ← IO.mkRef ({ cfg := { pt := 32, ssrc := 0, max := 1450 }, seq := 0 } : Enc)
  let dec ← IO.mkRef ({} : Dec)
  return fun args => do
    match args with
    | ["einit", pt, ssrc, seq0, mx] =>
      match pt.toNat?, ssrc.toNat?, seq0.toNat?, mx.toNat? with
      | some a, some b, some c, some d =>
        enc.set { cfg := { pt := UInt8.ofNat a, ssrc := UInt32.ofNat b, max := d }, seq := UInt16.ofNat c }
        return "ok"
      | _, _, _, _ => return "bad-op"
    | ["enc", us] =>
      match parseUnits us with
      | some [f] =>
        let (e', r) := encode (← enc.get) f
        enc.set e'
        match r with
        | some ps => return showPkts ps
        | none => return "err"
      | _ => return "bad-op"
    | ["dinit"] => dec.set {}; return "ok"
    | "dec" :: rest =>
      match parseDecArgs rest with
      | some p =>
        let (d', r) := decode (← dec.get) p
        dec.set d'
        return showDecRes (fun f => showUnits [f]) r ++ s!" ret {retained d'}"
      | none => return "bad-op"
    | _ => return "bad-op"

end Rtsp.Drv.Mpeg1Video
