import Rtsp.Model.Codec.H264
import Rtsp.Drv.CodecUtil
namespace Rtsp.Drv.H264
open Rtsp.Rtp Rtsp.Codec.H264

def mk : IO Handler := do
  let enc ← IO.mkRef ({ cfg := { pt := 96, ssrc := 0, max := 1450 }, seq := 0 } : Enc)
  let dec ← IO.mkRef ({} : Dec)
  return fun args => do
    match args with
    | ["einit", pt, ssrc, seq0, mx] =>
      match pt.toNat?, ssrc.toNat?, seq0.toNat?, mx.toNat? with
      | some a, some b, some c, some d =>
        enc.set { cfg := { pt := UInt8.ofNat a, ssrc := UInt32.ofNat b, max := d }, seq := UInt16.ofNat c }
        return "ok"
      | _, _, _, _ => return "bad-op"
    | ["enc", us] =>
      match parseUnits us with
      | some au =>
        let (e', ps) := encode (← enc.get) au
        enc.set e'
        return showPkts ps
      | none => return "bad-op"
    | ["dinit"] => dec.set {}; return "ok"
    | "dec" :: rest =>
      match parseDecArgs rest with
      | some p =>
        let (d', r) := decode (← dec.get) p
        dec.set d'
        return showDecRes showUnits r ++ s!" ret {retained d'}"
      | none => return "bad-op"
    | ["dstate"] =>           -- the whole decoder state, field by field (lengths for the byte lists)
      let d ← dec.get
      return s!"first={b2s d.firstPacketReceived} nfrag={d.fragments.length} fsize={d.fragmentsSize} next={d.fragmentNextSeqNum.toNat} annexb={b2s d.annexBMode} nfb={d.frameBuffer.length} fblen={d.frameBufferLen} fbsize={d.frameBufferSize} fbts={d.frameBufferTimestamp.toNat}"
    | ["vframe", us] =>       -- the validity predicate of the theorems, evaluated
      match parseUnits us with
      | some au => return b2s (decide (ValidFrame au))
      | none => return "bad-op"
    | ["vcfg", mx] =>
      match mx.toNat? with
      | some m => return b2s (decide (ValidCfg { pt := 0, ssrc := 0, max := m }))
      | none => return "bad-op"
    | ["pts", pl] =>
      match unhex pl with
      | some b =>
        match ptsEqualsDtsC b with     -- the index-checked rendering; `none` = out-of-range access
        | some r => return b2s r
        | none => return "panic"
      | none => return "bad-op"
    | _ => return "bad-op"

end Rtsp.Drv.H264
