import Rtsp.Model.Codec.Mpeg4Audio
import Rtsp.Drv.CodecUtil
namespace Rtsp.Drv.Mpeg4Audio
open Rtsp.Rtp Rtsp.Codec.Mpeg4Audio

/-- `einit <pt> <ssrc> <seq0> <max> <sl> <il> <dl>`, `dinit <sl> <il> <dl>` -/
def mk : IO Handler := do
  let enc ← IO.mkRef ({ cfg := { pt := 96, ssrc := 0, max := 1450 }, par := ⟨13, 3, 3⟩, seq := 0 } : Enc)
  let dec ← IO.mkRef ({ par := ⟨13, 3, 3⟩ } : Dec)
  return fun args => do
    match args with
    | ["einit", pt, ssrc, seq0, mx, sl, il, dl] =>
      match pt.toNat?, ssrc.toNat?, seq0.toNat?, mx.toNat?, sl.toNat?, il.toNat?, dl.toNat? with
      | some a, some b, some c, some d, some s, some i, some l =>
        enc.set { cfg := { pt := UInt8.ofNat a, ssrc := UInt32.ofNat b, max := d }, par := ⟨s, i, l⟩, seq := UInt16.ofNat c }
        return "ok"
      | _, _, _, _, _, _, _ => return "bad-op"
    | ["enc", us] =>
      match parseUnits us with
      | some f =>
        let (e', r) := encode (← enc.get) f
        enc.set e'
        match r with
        | some ps => return showPkts ps
        | none => return "err"
      | none => return "bad-op"
    | ["dinit", sl, il, dl] =>
      match sl.toNat?, il.toNat?, dl.toNat? with
      | some s, some i, some l => dec.set { par := ⟨s, i, l⟩ }; return "ok"
      | _, _, _ => return "bad-op"
    | "dec" :: rest =>
      match parseDecArgs rest with
      | some p =>
        let (d', r) := decode (← dec.get) p
        dec.set d'
        return showDecRes showUnits r ++ s!" ret {retained d'}"
      | none => return "bad-op"
    | _ => return "bad-op"

end Rtsp.Drv.Mpeg4Audio
