import Rtsp.Model.Ring
import Rtsp.Model.Async
import Rtsp.Drv.Util
/-
Line protocol for the outbound write queue models (C16).

  ring new <size>            → ok | err                      (size 0 is accepted by New, as in Go)
  ring push <id>             → push <0|1> <st> | panic       (panic: index out of range on a size-0 ring)
  ring pull                  → item <id> <st> | closed <st> | wait <st> | panic
  ring close | ring reset    → ok <st>
     <st> = <readIndex> <writeIndex> <closed> <occupied> <Σ (slot+1)·id mod 1000003>

  async init <size> <onErrBlocks>   → ok
  async push <id> <fails>           → push <0|1> <ast>
  async start | exec | closebegin | closeend → ok <ast>
     <ast> (ring hash with every callback counted as 1) = cons <ns|pull|hold:id|err:id|exit> run <0|1> ret <0|1> exec <n> <last id|0> err <n> acc <n> ring <st>
-/
namespace Rtsp.Drv.Ring
open Rtsp.Ring

def stStr (r : Ring Nat) : String :=
  let occ := r.buffer.filter Option.isSome |>.length
  let rec go : List (Option Nat) → Nat → Nat → Nat
    | [], _, acc => acc
    | none :: t, i, acc => go t (i + 1) acc
    | some x :: t, i, acc => go t (i + 1) ((acc + (i + 1) * x) % 1000003)
  s!"{r.readIndex} {r.writeIndex} {b2s r.closed} {occ} {go r.buffer 0 0}"

def pullStr (r : Ring Nat) : Ring Nat × String :=
  match pullTry r with
  | (r', .item x) => (r', s!"item {x} {stStr r'}")
  | (r', .closed) => (r', s!"closed {stStr r'}")
  | (r', .wait) => (r', s!"wait {stStr r'}")

def mk : IO Handler := do
  let st ← IO.mkRef (Ring.new (α := Nat) 1)
  return fun args => do
    match args with
    | ["new", n] =>
      match n.toNat? with
      | some k =>
        if sizeRejected k then return "err"
        else
          if k ≤ 1048576 then st.set (Ring.new k)
          return "ok"
      | none => return "bad-op"
    | ["push", id] =>
      match id.toNat? with
      | some x =>
        let r ← st.get
        if r.size == 0 then return "panic"
        let (r', ok) := push r x
        st.set r'
        return s!"push {b2s ok} {stStr r'}"
      | none => return "bad-op"
    | ["pull"] =>
      let r ← st.get
      if r.size == 0 && !r.closed then return "panic"
      let (r', s) := pullStr r
      st.set r'
      return s
    | ["close"] =>
      let r' := close (← st.get)
      st.set r'
      return s!"ok {stStr r'}"
    | ["reset"] =>
      let r' := reset (← st.get)
      st.set r'
      return s!"ok {stStr r'}"
    | _ => return "bad-op"

end Rtsp.Drv.Ring

namespace Rtsp.Drv.Async
open Rtsp.Async Rtsp.Ring

def idRing (r : Ring Cb) : Ring Nat :=
  { size := r.size, buffer := r.buffer.map (·.map (fun _ => 1)), readIndex := r.readIndex,
    writeIndex := r.writeIndex, closed := r.closed }

def pcStr : CPc → String
  | .notStarted => "ns"
  | .pulling => "pull"
  | .holding c => s!"hold:{c.id}"
  | .inError c => s!"err:{c.id}"
  | .exited => "exit"

def astStr (p : Proc) : String :=
  let last := match p.executed.getLast? with | some c => c.id | none => 0
  s!"cons {pcStr p.cons} run {b2s p.running} ret {b2s (p.closer == .returned)} exec {p.executed.length} {last} err {p.errors.length} acc {p.accepted.length} ring {Ring.stStr (idRing p.ring)}"

/-- after every harness operation the real consumer has run until it blocks, and a `Close` that is
waiting on `done` returns as soon as it can -/
def post (p : Proc) : Proc :=
  let p := settle p
  if p.closer == .ringClosed then closeStep p else p

def mk : IO Handler := do
  let st ← IO.mkRef (Async.init 1 false)
  return fun args => do
    match args with
    | ["init", n, b] =>
      match n.toNat? with
      | some k =>
        if k == 0 || sizeRejected k || k > 1048576 then return "bad-op"
        st.set (Async.init k (b == "1")); return "ok"
      | none => return "bad-op"
    | ["push", id, f] =>
      match id.toNat? with
      | some x =>
        let (p, ok) := Async.push (← st.get) { id := x, fails := f == "1" }
        let p := post p
        st.set p
        return s!"push {b2s ok} {astStr p}"
      | none => return "bad-op"
    | ["start"] =>
      let p := post (start (← st.get)); st.set p; return s!"ok {astStr p}"
    | ["exec"] =>
      let p := post (cexec (← st.get)); st.set p; return s!"ok {astStr p}"
    | ["closebegin"] =>
      let p := post (closeStep (closeStep (← st.get)))
      st.set p; return s!"ok {astStr p}"
    | ["closeend"] =>
      let p := joinFuel 4 (← st.get)
      st.set p; return s!"ok {astStr p}"
    | _ => return "bad-op"

end Rtsp.Drv.Async
