import Rtsp.Model.Pipeline
import Rtsp.Drv.Util
/-
Line protocol for the pipeline model (domain `pipe`).  The Go harness prints what it observed of a
real Server + ServerStream + Clients; the driver turns the observations into model events and answers
with what the model computes.  The schedule of the consumer goroutines and the exact moment of
`destroyWriter` inside a PAUSE are not observable; the driver resolves them from the observations
(lazily: a `consume` only when an accepted push needs the room or a delivery needs the frame;
`pclose` as late as the observations allow).  Whatever it chooses is an event sequence of the model, so
the theorems of Props/C01 apply to it.

  pipe init <cap> <medias> <kinds>     medias: `pt:ssrc,pt:ssrc;pt:ssrc`   kinds: one of t|u per reader → ok
  pipe setup <r> <m> <c|->             SETUP of media m; c: first id of an explicit `interleaved=c-(c+1)`,
                                       `-`: the server picks the pair → ch <channel> | no (refused: 400)
  pipe play <r>                        → ok | no
  pipe replay <r>                      a PLAY while the reader is already playing → ok (nothing changed) | changed
  pipe write <m> <pt> <seq> <ts> <mk> <ssrc> <payload> <outs>
        outs: per reader `-` not fanned out, `a` no error, `f` queue-full error   → the model's string
        `?` (both directions): the reader's own PAUSE is being processed on the server — the push goes
        to a closed ring or to no writer at all; its outcome is not compared
  pipe werr                            a WritePacketRTP that returned an error: counted as a write, reaches no reader → err
  pipe pstart <r> <K|->                K = callbacks the reader had when its PAUSE returned (TCP) → ok | bad
  pipe pcl <r>                         the server's OnPause handler returned: `destroyWriter` follows → ok | bad
  pipe pinact <r>                      → ok <number of callbacks so far> | bad
  pipe leave <r> <K|->                 → ok <number of callbacks> | bad
  pipe drain <r>                       → ok <number of callbacks>
  pipe arrive <r> <wid>                UDP datagram arrival → ok | bad
  pipe cbs <r>                         → m.pt.wid.seq.ts.mk.ssrc.payload,… | -
  pipe cbsf <r> <m> <pt>               → the same, callbacks of one media and format only
(for UDP readers `pinact`, `leave`, `drain` answer `ok` without a count: deliveries follow arrivals)
  pipe events                          → number of model events executed so far
-/
namespace Rtsp.Drv.Pipe
open Rtsp.Pipe

structure Aux where
  consumed     : Nat := 0
  budget       : Option Nat := none
  closePending : Bool := false     -- `pcl` seen: `ring.Close()` happens as soon as enough was pushed
deriving Inhabited

structure DS where
  cfg    : Cfg := { cap := 0, medias := [] }
  st     : State := { readers := [] }
  aux    : List Aux := []
  events : Nat := 0
deriving Inhabited

def DS.ev (d : DS) (e : Event) : DS := { d with st := step d.cfg d.st e, events := d.events + 1 }

def DS.rd (d : DS) (r : Nat) : Reader := d.st.rd r

def DS.ax (d : DS) (r : Nat) : Aux := d.aux.getD r {}

def DS.setAx (d : DS) (r : Nat) (a : Aux) : DS := { d with aux := d.aux.set r a }

/-- one `consume` of reader `r` (no-op on an empty queue) -/
def DS.consume (d : DS) (r : Nat) : DS :=
  if (d.rd r).queue.isEmpty then d else
  let a := d.ax r
  (d.ev (.ctl r .consume)).setAx r { a with consumed := a.consumed + 1 }

def DS.consumeN (d : DS) (r : Nat) : Nat → DS
  | 0 => d
  | n + 1 => (d.consume r).consumeN r n

def DS.carryN (d : DS) (r : Nat) : Nat → DS
  | 0 => d
  | n + 1 => (d.ev (.ctl r .carry)).carryN r n

/-- after `pcl`: the ring is closed as soon as the packets that were delivered have all been pushed -/
def DS.tryClose (d : DS) (r : Nat) : DS :=
  let a := d.ax r
  let x := d.rd r
  if !a.closePending || x.status != .playing then d else
  match a.budget with
  | none => d     -- UDP: what was delivered is not known here; the ring is closed at `pinact` (as late as possible)
  | some b =>
    if x.queue.length < b then d else
    let d := d.consumeN r b
    (d.ev (.ctl r .pclose)).setAx r { (d.ax r) with closePending := false, budget := some 0 }

def DS.tryCloseAll (d : DS) : DS := Id.run do
  let mut d := d
  for i in [0:d.aux.length] do
    if (d.ax i).closePending then d := d.tryClose i
  return d

def parseFmt (s : String) : Option Fmt :=
  match s.splitOn ":" with
  | [a, b] => match a.toNat?, b.toNat? with
    | some pt, some ssrc => some ⟨pt, ssrc⟩
    | _, _ => none
  | _ => none

def parseMedias (s : String) : Option (List (List Fmt)) :=
  (s.splitOn ";").mapM fun m => (m.splitOn ",").mapM parseFmt

def closingSt (x : Reader) : Bool := x.status == .ringClosed || x.status == .noWriter

def ochar : Outcome → Char
  | .skip => '-'
  | .accepted => 'a'
  | .dropped => 'a'
  | .refused => 'f'

def showDeliv (d : Deliv) : String :=
  s!"{d.media}.{d.pt}.{d.wid}.{d.pkt.seq}.{d.pkt.ts}.{b2s d.pkt.marker}.{d.pkt.ssrc}.{hex d.pkt.payload}"

/-- before a write: make room in the queues of the readers whose push was observed to succeed -/
def resolveWrite (d : DS) (m : Nat) (outs : List Char) : DS := Id.run do
  let mut d := d
  for i in [0:outs.length] do
    if outs.getD i '-' == '?' then
      -- closed ring: take the push while there is room, then let the writer disappear
      if (d.rd i).status == .ringClosed && outcome d.cfg (d.rd i) m == .refused then d := d.ev (.ctl i .pnil)
      else if (d.rd i).status == .playing && outcome d.cfg (d.rd i) m == .refused then
        match (d.ax i).budget with
        | some (b + 1) =>
          d := d.consume i
          d := d.setAx i { (d.ax i) with budget := some b }
        | none => d := d.consume i      -- UDP: whatever arrives later must have been sent
        | some 0 => pure ()
    else if outs.getD i '-' == 'a' && outcome d.cfg (d.rd i) m == .refused then
      let a := d.ax i
      match a.budget with
      | none => d := d.consume i
      | some 0 => d := d.ev (.ctl i .pclose)
      | some (b + 1) =>
        d := d.consume i
        d := d.setAx i { (d.ax i) with budget := some b }
  return d

def findWid (l : List Frame) (wid : Nat) : Option Nat := l.findIdx? (fun f => f.wid == wid)

/-- consume until the frame with this wid is on the wire (or the queue is empty) -/
def consumeUntil (d : DS) (r wid : Nat) : Nat → DS
  | 0 => d
  | n + 1 =>
    if (findWid (d.rd r).wire wid).isSome || (d.rd r).queue.isEmpty then d
    else consumeUntil (d.consume r) r wid n

def mk : IO Handler := do
  let ref ← IO.mkRef ({} : DS)
  return fun args => do
    let d ← ref.get
    match args with
    | ["init", cap, medias, kinds] =>
      match cap.toNat?, parseMedias medias with
      | some c, some ms =>
        let ks := kinds.toList.map (· == 'u')
        ref.set { cfg := { cap := c, medias := ms }, st := init ks, aux := ks.map fun _ => {}, events := 0 }
        return "ok"
      | _, _ => return "bad-op"
    | ["setup", r, m, c] =>
      match r.toNat?, m.toNat? with
      | some r, some m =>
        let before := (d.rd r).meds.length
        let d' := d.ev (.ctl r (.setup m (if c == "-" then none else c.toNat?)))
        ref.set d'
        if (d'.rd r).meds.length == before then return "no"
        else return s!"ch {chanOf (d'.rd r) m}"
      | _, _ => return "bad-op"
    | ["play", r] =>
      match r.toNat? with
      | some r =>
        let d' := d.ev (.ctl r .play)
        ref.set d'
        return if (d.rd r).status != .playing && (d'.rd r).status == .playing then "ok" else "no"
      | none => return "bad-op"
    | ["replay", r] =>
      match r.toNat? with
      | some r =>
        let x := d.rd r
        let d' := d.ev (.ctl r .play)
        ref.set d'
        let y := d'.rd r
        return if x.status == .playing && y.status == .playing && y.queue.length == x.queue.length
                  && y.wire.length == x.wire.length && y.cbs.length == x.cbs.length then "ok" else "changed"
      | none => return "bad-op"
    | ["werr"] =>
      -- a WritePacketRTP that returned an error (packet too big): it is counted, nobody gets it
      ref.set (d.ev (.write 0 { pt := 1000000, seq := 0, ts := 0, ssrc := 0, marker := false, payload := [] }))
      return "err"
    | ["write", m, pt, sq, ts, mk, ssrc, payload, outs] =>
      match m.toNat?, pt.toNat?, sq.toNat?, ts.toNat?, ssrc.toNat?, unhex payload with
      | some m, some pt, some sq, some ts, some ssrc, some pl =>
        let p : Pkt := { pt, seq := sq, ts, ssrc, marker := mk == "1", payload := pl }
        if (d.cfg.ssrcOf m pt).isNone then return "badfmt"
        let d1 := resolveWrite d m (if outs == "." then [] else outs.toList)
        let os := outcomes d1.cfg d1.st m
        let hint := if outs == "." then [] else outs.toList
        let cs := (List.range os.length).map fun i =>
          if os.getD i .skip != .skip && (closingSt (d1.rd i) || hint.getD i '-' == '?') then '?'
          else ochar (os.getD i .skip)
        ref.set (d1.ev (.write m p)).tryCloseAll
        return if os.isEmpty then "." else String.ofList cs
      | _, _, _, _, _, _ => return "bad-op"
    | ["pstart", r, k] =>
      match r.toNat? with
      | some r =>
        if k == "-" then return "ok"
        match k.toNat? with
        | some k =>
          let a := d.ax r
          if k < a.consumed then return s!"bad consumed {a.consumed} > delivered {k}"
          ref.set (d.setAx r { a with budget := some (k - a.consumed) })
          return "ok"
        | none => return "bad-op"
      | none => return "bad-op"
    | ["pcl", r] =>
      match r.toNat? with
      | some r =>
        let d := d.setAx r { (d.ax r) with closePending := true }
        ref.set (d.tryClose r)
        return "ok"
      | none => return "bad-op"
    | ["pinact", r] =>
      match r.toNat? with
      | some r =>
        let x := d.rd r
        let mut d := d
        if x.status == .playing then
          match (d.ax r).budget with
          | some b =>
            if x.queue.length < b then return s!"bad delivered {b - x.queue.length} more than were pushed"
            d := d.consumeN r b
          | none => if x.udp then d := d.consumeN r x.queue.length
          d := d.ev (.ctl r .pclose)
        if (d.rd r).status == .ringClosed then d := d.ev (.ctl r .pnil)
        d := d.setAx r { (d.ax r) with closePending := false }
        if !x.udp then d := d.carryN r (d.rd r).wire.length
        d := d.ev (.ctl r .pinact)
        d := d.setAx r { (d.ax r) with budget := none }
        ref.set d
        return if (d.rd r).udp then "ok" else s!"ok {(d.rd r).cbs.length}"
      | none => return "bad-op"
    | ["leave", r, k] =>
      match r.toNat? with
      | some r =>
        let x := d.rd r
        let mut d := d
        if !x.udp && k != "-" then
          match k.toNat? with
          | some k =>
            let have_ := x.cbs.length + x.wire.length
            if k < x.cbs.length then return s!"bad model delivered {x.cbs.length} > {k}"
            if have_ < k then
              if x.queue.length < k - have_ then return s!"bad delivered {k - have_ - x.queue.length} more than were pushed"
              d := d.consumeN r (k - have_)
            d := d.carryN r (k - x.cbs.length)
          | none => return "bad-op"
        if x.udp then d := d.consumeN r x.queue.length   -- whatever was accepted may have been sent
        d := d.ev (.ctl r .leave)
        d := d.setAx r { (d.ax r) with budget := none }
        ref.set d
        return if (d.rd r).udp then "ok" else s!"ok {(d.rd r).cbs.length}"
      | none => return "bad-op"
    | ["drain", r] =>
      match r.toNat? with
      | some r =>
        let mut d := d.consumeN r (d.rd r).queue.length
        if !(d.rd r).udp then d := d.carryN r (d.rd r).wire.length
        ref.set d
        return if (d.rd r).udp then "ok" else s!"ok {(d.rd r).cbs.length}"
      | none => return "bad-op"
    | ["arrive", r, wid] =>
      match r.toNat?, wid.toNat? with
      | some r, some wid =>
        let d1 := consumeUntil d r wid ((d.rd r).queue.length + 1)
        match findWid (d1.rd r).wire wid with
        | none => ref.set d1; return "bad never sent"
        | some k =>
          ref.set (d1.ev (.ctl r (.arrive k)))
          return "ok"
      | _, _ => return "bad-op"
    | ["cbs", r] =>
      match r.toNat? with
      | some r =>
        let l := (d.rd r).cbs
        return if l.isEmpty then "-" else ",".intercalate (l.map showDeliv)
      | none => return "bad-op"
    | ["cbsf", r, m, pt] =>
      match r.toNat?, m.toNat?, pt.toNat? with
      | some r, some m, some pt =>
        let l := (d.rd r).cbs.filter fun c => c.media == m && c.pt == pt
        return if l.isEmpty then "-" else ",".intercalate (l.map showDeliv)
      | _, _, _ => return "bad-op"
    | ["events"] => return s!"{d.events}"
    | _ => return "bad-op"

end Rtsp.Drv.Pipe
