import Rtsp.Model.ClientSm
import Rtsp.Drv.Util
/-
Line protocol for the client control model (domain `hclient`).  One conversation = `init`, any number
of `react`, then `call`s, `close`, `log`.

  hclient init <proto 0 auto|1 udp|2 mcast|3 tcp> <creds> <backch> <anyport> <secure> <srvauth>     → ok
  hclient react <METHOD|*> <k> <ev>|<ev>|…   reaction of the server to the k-th request with that method
                                     (`*`: k-th request of any method; k = 0: every request with that method); other requests get the correct response  → ok
  hclient accept <j> <ev>|…          what the server writes as soon as it has accepted the j-th connection   → ok
  hclient call <api> [<mi> <back> <ctlOk>]     api = options describe announce setup play record pause
        → <res> <state> <closed 0|1> <closeRes>
  hclient tick <got> <stale>         the liveness timer of the play state fires (got: a UDP packet has arrived;
                                     stale: nothing arrived for ReadTimeout)      → <state> <closed> <closeRes>
  hclient close                      → <state> <closed> <closeRes>
  hclient log                        → the requests written by the client: <METH>:<cseq>:<sess>:<auth>:<tp> …

events:  r[,k=v…] response = the correct response to the request with fields overridden (st= status, cs=g|w|m|d, se=n|b|g<id>, au=n|v|i, lo=n|g|u|w|x|m, ct=o|m|d|u,
         sdp=0|1, base=0|1, tr=0|1, tt=0|1, dl=n|u|m, sp=n|v|a, il=-|<a>-<b>, pf=0|1)
         q1 / q0 request from the server (OPTIONS / other method),  f<ch> interleaved frame,
         x read error (close / garbage).  End of the list while the client waits = silence (timer).

A `call` feeds the API call, then events in FIFO order: every request the client writes appends the
server's reaction to the inbox, a new connection (dial) or the client closing its connection drops what was queued on the old one; while
the client waits and the inbox is empty the timer fires; once the call has returned the remaining
events are consumed by the idle run loop (the harness waits for that before the next call).
-/
namespace Rtsp.Drv.HClient
open Rtsp.ClientSm

structure D where
  cfg : Cfg := {}
  srvAuth : Bool := false
  st : St := {}
  reacts : List ((String × Nat) × String) := []
  inbox : List Ev := []
  nreq : Nat := 0
  nmeth : List (String × Nat) := []
  accepts : List (Nat × String) := []
  ndial : Nat := 0
  log : List Out := []

/-- the request a reaction answers -/
structure ReqCtx where
  m : Meth
  cseq : Nat
  auth : Bool
  tp : Nat

def kv (fields : List String) : List (String × String) :=
  fields.filterMap fun f =>
    match f.splitOn "=" with
    | [k, v] => some (k, v)
    | _ => none

def parseIl (s : String) : Option (Nat × Nat) :=
  match s.splitOn "-" with
  | [a, b] => match a.toNat?, b.toNat? with
    | some x, some y => some (x, y)
    | _, _ => none
  | _ => none

/-- what the correct scripted server answers to a request (the environment, not the client) -/
def correctResp (srvAuth : Bool) (q : ReqCtx) : Resp :=
  if srvAuth && q.m != .options && !q.auth then
    { cseq := .num q.cseq, status := 401, www := .valid, ct := .missing, sdpOk := false, tr := { present := false } }
  else
    let sess : SessK := match q.m with
      | .setup | .play | .record | .pause | .teardown => .good 1
      | _ => .none
    let tr : TrH :=
      if q.m != .setup then { present := false }
      else if q.tp ≥ 10 then { tcp := true, interleaved := some (q.tp - 10, q.tp - 9), serverPorts := .none }
      else if q.tp == 2 then { delivery := .multicast, serverPorts := .none }
      else {}
    { cseq := .num q.cseq, sess := sess, tr := tr,
      ct := if q.m == .describe then .ok else .missing,
      sdpOk := q.m == .describe }

def parseResp (srvAuth : Bool) (q : ReqCtx) (fields : List String) : Resp :=
  let m := kv fields
  let d := correctResp srvAuth q
  let sess : SessK :=
    match m.lookup "se" with
    | none => d.sess
    | some v =>
      if v == "n" then .none else if v == "b" then .bad
      else .good ((String.ofList (v.toList.drop 1)).toNat?.getD 0)
  let o {α : Type} (k : String) (dflt : α) (f : String → α) : α :=
    match m.lookup k with
    | none => dflt
    | some v => f v
  { cseq := o "cs" d.cseq fun v => match v with | "w" => .garbage | "m" => .missing | "d" => .dup | _ => .num q.cseq
    status := o "st" d.status fun v => v.toNat?.getD 200
    sess := sess
    www := o "au" d.www fun v => match v with | "v" => .valid | "i" => .invalid | _ => .none
    loc := o "lo" d.loc fun v => match v with | "g" => .good | "u" => .unparsable | "w" => .downgrade | "x" => .dead | "m" => .multi | _ => .none
    ct := o "ct" d.ct fun v => match v with | "m" => .missing | "d" => .dup | "u" => .unsupported | _ => .ok
    sdpOk := o "sdp" d.sdpOk fun v => v == "1"
    baseOk := o "base" d.baseOk fun v => v == "1"
    tr := {
      present := o "tr" d.tr.present fun v => v == "1"
      tcp := o "tt" d.tr.tcp fun v => v == "1"
      delivery := o "dl" d.tr.delivery fun v => match v with | "n" => .none | "m" => .multicast | _ => .unicast
      serverPorts := o "sp" d.tr.serverPorts fun v => match v with | "n" => .none | "a" => .anyPort | _ => .valid
      interleaved := o "il" d.tr.interleaved parseIl
      savp := o "pf" d.tr.savp fun v => v == "1" } }

def parseEv (srvAuth : Bool) (q : ReqCtx) (t : String) : Option Ev :=
  match t.toList with
  | 'r' :: _ => some (.resp (parseResp srvAuth q ((t.splitOn ",").drop 1)))
  | ['q', '1'] => some (.sreq true)
  | ['q', '0'] => some (.sreq false)
  | 'f' :: rest => (String.ofList rest).toNat?.map .frame
  | ['x'] => some .readErr
  | _ => none

def parseEvs (srvAuth : Bool) (q : ReqCtx) (s : String) : List Ev :=
  if s == "-" then [] else (s.splitOn "|").filterMap (parseEv srvAuth q)

def errName : Err → String
  | .timeout => "timeout" | .badStatus => "badStatus" | .invalidState => "invalidState"
  | .terminated => "terminated" | .sessionInvalid => "sessionInvalid" | .authSetup => "authSetup"
  | .unhandledMethod => "unhandledMethod" | .unexpectedFrame => "unexpectedFrame"
  | .contentTypeMissing => "contentTypeMissing" | .contentTypeUnsupported => "contentTypeUnsupported"
  | .sdpInvalid => "sdpInvalid" | .transportInvalid => "transportInvalid"
  | .serverRequestedTCP => "serverRequestedTCP" | .serverRequestedUDP => "serverRequestedUDP"
  | .invalidDelivery => "invalidDelivery" | .serverPortsNotProvided => "serverPortsNotProvided"
  | .noInterleavedIDs => "noInterleavedIDs" | .invalidInterleavedIDs => "invalidInterleavedIDs"
  | .interleavedIDsInUse => "interleavedIDsInUse" | .udpTimeout => "udpTimeout" | .tcpTimeout => "tcpTimeout"
  | .other => "other"

def resName : Res → String
  | none => "ok"
  | some e => errName e

def stName : CState → String
  | .initial => "initial" | .prePlay => "prePlay" | .play => "play"
  | .preRecord => "preRecord" | .record => "record"

def methName : Meth → String
  | .options => "OPTIONS" | .describe => "DESCRIBE" | .announce => "ANNOUNCE" | .setup => "SETUP"
  | .play => "PLAY" | .record => "RECORD" | .pause => "PAUSE" | .teardown => "TEARDOWN"

def showState (s : St) : String :=
  s!"{stName s.cst} {b2s s.closed} {if s.closed then resName s.closeRes else "-"}"

/-- move the model's fresh outputs to the log; requests trigger reactions, a dial drops the inbox -/
def drain (d : D) : D := Id.run do
  let mut d := d
  for o in d.st.out do
    match o with
    | .sent m cs _ au tp =>
      let mn := methName m
      let occ := (d.nmeth.lookup mn).getD 0 + 1
      d := { d with nreq := d.nreq + 1, nmeth := (mn, occ) :: d.nmeth }
      let raw := match d.reacts.lookup (mn, occ) with
        | some r => r
        | none => match d.reacts.lookup (mn, 0) with
          | some r => r
          | none => (d.reacts.lookup ("*", d.nreq)).getD "r"
      d := { d with inbox := d.inbox ++ parseEvs d.srvAuth { m := m, cseq := cs, auth := au, tp := tp } raw }
    | .dial =>
      let j := d.ndial + 1
      let raw := (d.accepts.lookup j).getD "-"
      d := { d with ndial := j, inbox := parseEvs d.srvAuth { m := .options, cseq := 0, auth := false, tp := 0 } raw }
    | .hangup => d := { d with inbox := [] }
    | _ => pure ()
  return { d with log := d.log ++ d.st.out, st := { d.st with out := [] } }

/-- feed events until the client neither waits nor has input left -/
def pump (fuel : Nat) (d : D) : D :=
  match fuel with
  | 0 => d
  | fuel + 1 =>
    let d := drain d
    match d.inbox with
    | e :: rest => pump fuel { d with inbox := rest, st := step d.cfg d.st e }
    | [] => if waiting d.st then pump fuel { d with st := step d.cfg d.st .timer } else d

def lastRet (outs : List Out) : String :=
  match outs.reverse.find? (fun o => match o with | .ret .. => true | _ => false) with
  | some (.ret _ r) => resName r
  | _ => "noret"

def logTok : Out → Option String
  | .sent m n se au tp =>
    some s!"{methName m}:{n}:{match se with | some i => toString i | none => "-"}:{b2s au}:{tp}"
  | _ => none

def parseApi (args : List String) : Option Api :=
  match args with
  | ["options"] => some .options
  | ["describe"] => some .describe
  | ["announce"] => some .announce
  | ["setup", mi, back, ctl] => mi.toNat?.map fun i => .setup { mi := i, back := back == "1", ctlOk := ctl == "1" }
  | ["play"] => some .play
  | ["record"] => some .record
  | ["pause"] => some .pause
  | _ => none

def mk : IO Handler := do
  let ref ← IO.mkRef ({} : D)
  return fun args => do
    match args with
    | ["init", p, cr, bc, ap, se, sa] =>
      let proto : Option Proto := match p with | "1" => some .udp | "2" => some .mcast | "3" => some .tcp | _ => none
      ref.set { cfg := { proto := proto, creds := cr == "1", backch := bc == "1", anyPort := ap == "1", secure := se == "1" }, srvAuth := sa == "1" }
      return "ok"
    | ["react", mn, k, evs] =>
      match k.toNat? with
      | some k => ref.modify fun d => { d with reacts := ((mn, k), evs) :: d.reacts }; return "ok"
      | none => return "bad-op"
    | ["accept", j, evs] =>
      match j.toNat? with
      | some j => ref.modify fun d => { d with accepts := (j, evs) :: d.accepts }; return "ok"
      | none => return "bad-op"
    | "call" :: rest =>
      match parseApi rest with
      | none => return "bad-op"
      | some a =>
        let d ← ref.get
        let n0 := d.log.length
        let d1 := pump 100000 { d with st := step d.cfg d.st (.call a) }
        ref.set d1
        return s!"{lastRet (d1.log.drop n0)} {showState d1.st}"
    | ["tick", got, stale] =>
      let d ← ref.get
      let d1 := pump 100000 { d with st := step d.cfg d.st (.liveness (got == "1") (stale == "1")) }
      ref.set d1
      return showState d1.st
    | ["close"] =>
      let d ← ref.get
      let d1 := pump 100000 { d with st := step d.cfg d.st .close }
      ref.set d1
      return showState d1.st
    | ["log"] =>
      let d ← ref.get
      let ts := d.log.filterMap logTok
      return if ts.isEmpty then "-" else " ".intercalate ts
    | _ => return "bad-op"

end Rtsp.Drv.HClient
