import Rtsp.Model.Receiver
import Rtsp.Drv.Util
/-
Line protocol for the receiver model.
  recv init <unreliable 0|1> <size>        → ok
  recv pkt <seq> <id>                      → out <ids> lost <n> st <received> <lost> <last>
  recv report                              → report <extseq> <fraction> <totallost> | none
-/
namespace Rtsp.Drv.Recv
open Rtsp.Recv

def mk : IO Handler := do
  let st ← IO.mkRef (init true 64)
  return fun args => do
    match args with
    | ["init", u, n] =>
      match n.toNat? with
      | some k => st.set (init (u == "1") k); return "ok"
      | none => return "bad-op"
    | ["pkt", sq, id] =>
      match sq.toNat?, id.toNat? with
      | some q, some i =>
        let (s', o) := step (← st.get) { seq := UInt16.ofNat q, id := i }
        st.set s'
        return s!"out {natList (o.pkts.map (·.id))} lost {o.lost} st {s'.received} {s'.lost} {s'.last.toNat}"
      | _, _ => return "bad-op"
    | ["report"] =>
      let (s', r) := report (← st.get)
      st.set s'
      match r with
      | some r => return s!"report {r.extSeq} {r.fractionLost % 256} {r.totalLost}"
      | none => return "none"
    | _ => return "bad-op"

end Rtsp.Drv.Recv
