import Rtsp.Model.Session
import Rtsp.Model.SessionTimer
import Rtsp.Drv.Util
/-
Line protocol for the server session model (domain `sess`).

  sess init <handlers mask> <udp 0|1> <mcast 0|1> <nMedias> <IdleTimeout ms>   → ok
  sess open <conn> <ip>                                          → ok
  sess close <conn>                                              → <summary>
  sess expire <sid>                                              → <summary>
  sess frame <conn>      (the client sends an interleaved frame)  → <summary>
  sess response <conn>   (the client sends an RTSP response)      → <summary>
  sess preq <same arguments as req>    (pipelined: sent without waiting)     → st <status> cs <cseq|-> | noconn
  sess silence   (all peers silent for longer than every timeout)            → <summary>
  sess chanmedia <sid>   (interleaved channel of every setupped media, probed with frames)  → chans <list|->
  sess media <sid>   (does media flow to the reader / from the publisher?)    → flow <0|1|->
  sess sync                                                                    → <summary>
  sess rfc <state> <method>                                      → <allowedStrict> <allowed> <next state>   (Spec/Rfc2326.lean)
  sess req <conn> <method> <cseq|-> <star 0|1> <sid n|w|k> <path> <track k|x> <transports|-> <ct.sdp.n> <hstatus> <herr 0|1>
        → st <status> cs <cseq|-> sh <sid:timeout|-> ch <chan|-> pb <Public methods|-> cl <0|1> <summary>     (or `noconn <summary>`)

  handlers mask bits: 1 describe, 2 announce, 4 setup, 8 play, 16 record, 32 pause, 64 getParameter, 128 setParameter
  transports: comma list of <u|m|t>.<secure>.<mode 0|1|2>.<ports 0 | 1 + port id>.<il 0|1|2>.<ilA>
  summary: conns <open conn ids> sess <id:state:nMedias:proto;…|-> oc <opened> <closed>
-/
namespace Rtsp.Drv.Sess
open Rtsp.Sess Rtsp.Rfc2326

def parseMethod : String → Option Method
  | "options" => some .options | "describe" => some .describe | "announce" => some .announce
  | "setup" => some .setup | "play" => some .play | "record" => some .record | "pause" => some .pause
  | "teardown" => some .teardown | "getparameter" => some .getParameter | "setparameter" => some .setParameter
  | _ => none

def parseAlt (s : String) : Option TrAlt :=
  match s.splitOn "." with
  | [p, sec, mode, ports, il, ilA] =>
    match (match p with | "u" => some Proto.udp | "m" => some Proto.mcast | "t" => some Proto.tcp | _ => none),
          mode.toNat?, il.toNat?, ilA.toNat? with
    | some p, some mode, some il, some ilA =>
      match ports.toNat? with
      | some pn => some { proto := p, secure := sec == "1", mode := mode, ports := pn != 0, port := pn - 1, il := il, ilA := ilA }
      | none => none
    | _, _, _, _ => none
  | _ => none

def parseTrs (s : String) : Option (Option (List TrAlt)) :=
  if s == "-" then some none else (s.splitOn ",").mapM parseAlt |>.map some

def parseSid (s : String) : Option SidRef :=
  if s == "n" then some .none else if s == "w" then some .wrong else s.toNat?.map .id

def stateName : SState → String
  | .initial => "initial" | .prePlay => "prePlay" | .play => "play" | .preRecord => "preRecord" | .record => "record"

def parseState : String → Option SState
  | "initial" => some .initial | "prePlay" => some .prePlay | "play" => some .play
  | "preRecord" => some .preRecord | "record" => some .record | _ => none

def methodName : Method → String
  | .options => "OPTIONS" | .describe => "DESCRIBE" | .announce => "ANNOUNCE" | .setup => "SETUP"
  | .play => "PLAY" | .record => "RECORD" | .pause => "PAUSE" | .teardown => "TEARDOWN"
  | .getParameter => "GET_PARAMETER" | .setParameter => "SET_PARAMETER"

def protoName : Option Proto → String
  | none => "-" | some .udp => "u" | some .mcast => "m" | some .tcp => "t"

def optNat : Option Nat → String
  | none => "-" | some n => toString n

def sortNat (xs : List Nat) : List Nat := (xs.toArray.qsort (· < ·)).toList

def summary (srv : Server) : String :=
  let ss := srv.sessions.map fun s => s!"{s.id}:{stateName s.state}:{s.medias.length}:{protoName s.transport}"
  let sessStr := if ss.isEmpty then "-" else ";".intercalate ss
  s!"conns {natList (sortNat (srv.conns.map (·.id)))} sess {sessStr} oc {opened srv} {closed srv}"

def handlersOfMask (m : Nat) : Handlers :=
  { describe := m % 2 == 1, announce := m / 2 % 2 == 1, setup := m / 4 % 2 == 1, play := m / 8 % 2 == 1,
    record := m / 16 % 2 == 1, pause := m / 32 % 2 == 1, getParameter := m / 64 % 2 == 1,
    setParameter := m / 128 % 2 == 1 }

def parseReq (a : List String) : Option (Nat × Request) :=
  match a with
  | [c, m, cseq, star, sid, path, track, trs, ann, hs, he] =>
    match c.toNat?, parseMethod m, parseSid sid, path.toNat?, parseTrs trs, hs.toNat?, ann.splitOn "." with
    | some c, some m, some sid, some path, some trs, some hs, [ct, sdp, n] =>
      match ct.toNat?, n.toNat? with
      | some ct, some n =>
        let cs := if cseq == "-" then some none else cseq.toNat?.map some
        let tr := if track == "x" then some none else track.toNat?.map some
        match cs, tr with
        | some cs, some tr =>
          some (c, { method := m, cseq := cs, star := star == "1", sid := sid, path := path, track := tr, trs := trs,
                     ct := ct, sdpOk := sdp == "1", nAnn := n, hStatus := hs, hErr := he == "1" })
        | _, _ => none
      | _, _ => none
    | _, _, _, _, _, _, _ => none
  | _ => none

def pubStr : Option (List Method) → String
  | none => "-"
  | some ms => ",".intercalate (ms.map methodName)

def mk : IO Handler := do
  let cfgR ← IO.mkRef ({} : Config)
  let st ← IO.mkRef ({} : Server)
  let idleR ← IO.mkRef (60000 * 1000000 : Nat)
  return fun args => do
    match args with
    | ["init", hm, udp, mc, nm, idle] =>
      match hm.toNat?, nm.toNat?, idle.toNat? with
      | some hm, some nm, some idle =>
        cfgR.set { h := handlersOfMask hm, udp := udp == "1", mcast := mc == "1", nMedias := nm }
        idleR.set (idle * 1000000)
        st.set {}
        return "ok"
      | _, _, _ => return "bad-op"
    | ["open", c, ip] =>
      match c.toNat?, ip.toNat? with
      | some c, some ip =>
        st.set (stepEv (← cfgR.get) (← st.get) (.open c ip)).1
        return "ok"
      | _, _ => return "bad-op"
    | ["close", c] =>
      match c.toNat? with
      | some c =>
        let s := (stepEv (← cfgR.get) (← st.get) (.close c)).1
        st.set s
        return summary s
      | none => return "bad-op"
    | ["frame", c] =>
      match c.toNat? with
      | some c =>
        let s := (stepEv (← cfgR.get) (← st.get) (.frame c)).1
        st.set s
        return summary s
      | none => return "bad-op"
    | ["response", c] =>
      match c.toNat? with
      | some c =>
        let s := (stepEv (← cfgR.get) (← st.get) (.response c)).1
        st.set s
        return summary s
      | none => return "bad-op"
    | ["expire", sid] =>
      match sid.toNat? with
      | some sid =>
        let s := (stepEv (← cfgR.get) (← st.get) (.expire sid)).1
        st.set s
        return summary s
      | none => return "bad-op"
    | ["rfc", stn, m] =>
      match parseState stn, parseMethod m with
      | some s, some m => return s!"{b2s (allowedStrict s m)} {b2s (allowed s m)} {stateName (next s m)}"
      | _, _ => return "bad-op"
    | ["sync"] => return summary (← st.get)
    | ["silence"] =>
      let s := (stepEv (← cfgR.get) (← st.get) .silence).1
      st.set s
      return summary s
    | ["chanmedia", sid] =>
      -- which interleaved channel carries each setupped media, in SETUP order (while streaming over TCP)
      match sid.toNat? with
      | some sid =>
        match findSession (← st.get) sid with
        | some ss =>
          if flows ss && ss.transport == some .tcp then return s!"chans {natList ss.chans}" else return "chans -"
        | none => return "chans -"
      | none => return "bad-op"
    | ["media", sid] =>
      match sid.toNat? with
      | some sid =>
        match findSession (← st.get) sid with
        | some ss => return s!"flow {b2s (flows ss)}"
        | none => return "flow -"
      | none => return "bad-op"
    | "preq" :: rest =>
      -- a pipelined request: same semantics, only status and CSeq are observable per request
      match parseReq rest with
      | some (c, r) =>
        let (s, o) := stepEv (← cfgR.get) (← st.get) (.req c r)
        st.set s
        match o with
        | none => return "noconn"
        | some res => return s!"st {res.status} cs {optNat res.cseq}"
      | none => return "bad-op"
    | "req" :: rest =>
      match parseReq rest with
      | some (c, r) =>
        let (s, o) := stepEv (← cfgR.get) (← st.get) (.req c r)
        st.set s
        match o with
        | none => return s!"noconn {summary s}"
        | some res =>
          let idle ← idleR.get
          let sh := match res.sessHdr with
            | none => "-"
            | some id => s!"{id}:{Rtsp.Sess.Timer.advertised idle}"
          return s!"st {res.status} cs {optNat res.cseq} sh {sh} ch {optNat res.chan} pb {pubStr res.pub} cl {b2s (res.err == .fail)} {summary s}"
      | none => return "bad-op"
    | _ => return "bad-op"

end Rtsp.Drv.Sess
