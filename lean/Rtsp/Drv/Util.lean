/-
Helpers shared by the line-protocol drivers (core Lean only).
-/
namespace Rtsp.Drv

/-- A domain handler: the domain's model state lives in an `IO.Ref` captured by the closure. -/
abbrev Handler := List String → IO String

def hexDigit (c : Char) : Option Nat :=
  if '0' ≤ c ∧ c ≤ '9' then some (c.toNat - '0'.toNat)
  else if 'a' ≤ c ∧ c ≤ 'f' then some (c.toNat - 'a'.toNat + 10)
  else if 'A' ≤ c ∧ c ≤ 'F' then some (c.toNat - 'A'.toNat + 10)
  else none

/-- hex string → bytes; `-` denotes the empty byte string. -/
def unhex (s : String) : Option (List UInt8) :=
  if s == "-" then some [] else
  let rec go : List Char → List UInt8 → Option (List UInt8)
    | [], acc => some acc.reverse
    | [_], _ => none
    | a :: b :: rest, acc =>
      match hexDigit a, hexDigit b with
      | some x, some y => go rest (UInt8.ofNat (x * 16 + y) :: acc)
      | _, _ => none
  go s.toList []

def hexChar (n : Nat) : Char := if n < 10 then Char.ofNat (48 + n) else Char.ofNat (87 + n)

def hex (bs : List UInt8) : String :=
  if bs.isEmpty then "-" else
  String.ofList (bs.flatMap fun b => [hexChar (b.toNat / 16), hexChar (b.toNat % 16)])

def joinWith (sep : String) (xs : List String) : String := sep.intercalate xs

def natList (xs : List Nat) : String := if xs.isEmpty then "-" else ",".intercalate (xs.map toString)

def parseNatList (s : String) : Option (List Nat) :=
  if s == "-" then some [] else (s.splitOn ",").mapM String.toNat?

def b2s (b : Bool) : String := if b then "1" else "0"

end Rtsp.Drv

namespace Rtsp.Drv

partial def loop (hs : List (String × Handler)) (inp out : IO.FS.Stream) : IO Unit := do
  let line ← inp.getLine
  if line.isEmpty then return ()
  let toks := (line.trimAscii.toString.splitOn " ").filter (· ≠ "")
  match toks with
  | [] => out.putStrLn "bad-op"
  | d :: rest =>
    match hs.lookup d with
    | some h => out.putStrLn (← h rest)
    | none => out.putStrLn "bad-domain"
  loop hs inp out

/-- `main` of every per-domain oracle executable: one op per input line `<domain> <op> <args…>`,
one output line per input line. -/
def runMain (mk : IO (List (String × Handler))) : IO Unit := do
  let hs ← mk
  let out ← IO.getStdout
  loop hs (← IO.getStdin) out
  out.flush

end Rtsp.Drv
