import Rtsp.Model.Auth
import Rtsp.Model.Md5
import Rtsp.Model.Sha256
import Rtsp.Drv.Util
/-
Line protocol for the authentication model (domain `auth`).  Byte strings are hex (`-` = empty);
a list of byte strings is `~` (empty list) or its elements joined by `,`; a method list is `nil`,
`~` (empty, non-nil) or decimal integers joined by `,`.

  auth md5 <bytes> | auth sha256 <bytes>                         → <hex text as bytes>
  auth b64e <bytes>                                              → <bytes>
  auth b64d <bytes>                                              → ok <bytes> | err
  auth www <methods> <realm> <nonce>                             → <list>
  auth pwww <list>                                               → err | basic <realm> | digest <realm> <nonce> <alg>
  auth pauthz <list>                                             → err | basic <user> <pass> | digest <user> <realm> <nonce> <uri> <response> <alg>
  auth send <wwwlist> <user> <pass> <method> <url>               → none | hdr <list>
  auth verify <method> <urlStr> <urlReq> <authz list> <user> <pass> <methods> <realm> <nonce> → ok | err
  auth cinit                                                     → ok
  auth creq <methods> <fresh|none> <method> <urlStr> <urlReq> <authz list> <user> <pass>
                                                                 → dead | st <status> www <list|none> closed <0|1>
  auth client <methods> <srvuser> <srvpass> <fresh|none> <method> <urlStr> <urlReq> <cred: none | user,pass>
                                                                 → n <#wire requests> <status | setuperr> closed <0|1>
-/
namespace Rtsp.Drv.Auth
open Rtsp.Auth

def H : Hashes := { md5 := Rtsp.Md5.hex, sha256 := Rtsp.Sha256.hex }

def parseList (s : String) : Option (List Bytes) :=
  if s == "~" then some [] else (s.splitOn ",").mapM unhex

def showList (xs : List Bytes) : String :=
  if xs.isEmpty then "~" else ",".intercalate (xs.map hex)

def parseMethods (s : String) : Option (Option (List Nat)) :=
  if s == "nil" then some none
  else if s == "~" then some (some [])
  else match (s.splitOn ",").mapM String.toNat? with
    | some l => some (some l)
    | none => none

def parseOptBytes (s : String) : Option (Option Bytes) :=
  if s == "none" then some none else (unhex s).map some

def showAlg : Option Alg → String
  | none => "nil"
  | some .md5 => "md5"
  | some .sha256 => "sha256"

def mk : IO Handler := do
  let st ← IO.mkRef ({} : Conn)
  return fun args => do
    match args with
    | ["md5", x] =>
      match unhex x with
      | some b => return hex (H.md5 b)
      | none => return "bad-op"
    | ["sha256", x] =>
      match unhex x with
      | some b => return hex (H.sha256 b)
      | none => return "bad-op"
    | ["b64e", x] =>
      match unhex x with
      | some b => return hex (Rtsp.B64Std.encode b)
      | none => return "bad-op"
    | ["b64d", x] =>
      match unhex x with
      | some b =>
        match Rtsp.B64Std.decode b with
        | some o => return s!"ok {hex o}"
        | none => return "err"
      | none => return "bad-op"
    | ["www", ms, realm, nonce] =>
      match parseMethods ms, unhex realm, unhex nonce with
      | some ms, some r, some n => return showList (generateWWW ms r n)
      | _, _, _ => return "bad-op"
    | ["pwww", l] =>
      match parseList l with
      | some v =>
        match Authenticate.unmarshal v with
        | none => return "err"
        | some a =>
          match a.method with
          | .basic => return s!"basic {hex a.realm}"
          | .digest => return s!"digest {hex a.realm} {hex a.nonce} {showAlg a.algorithm}"
      | none => return "bad-op"
    | ["pauthz", l] =>
      match parseList l with
      | some v =>
        match Authorization.unmarshal v with
        | none => return "err"
        | some a =>
          match a.method with
          | .basic => return s!"basic {hex a.username} {hex a.basicPass}"
          | .digest => return s!"digest {hex a.username} {hex a.realm} {hex a.nonce} {hex a.uri} {hex a.response} {showAlg a.algorithm}"
      | none => return "bad-op"
    | ["send", www, user, pass, method, url] =>
      match parseList www, unhex user, unhex pass, unhex method, unhex url with
      | some www, some u, some p, some m, some url =>
        match senderInit www with
        | none => return "none"
        | some ch => return s!"hdr {showList (addAuthorization H ch u p m url)}"
      | _, _, _, _, _ => return "bad-op"
    | ["verify", method, urlStr, urlReq, authz, user, pass, ms, realm, nonce] =>
      match unhex method, unhex urlStr, unhex urlReq, parseList authz, unhex user, unhex pass,
            parseMethods ms, unhex realm, unhex nonce with
      | some m, some us, some ur, some az, some u, some p, some ms, some r, some n =>
        match verify H { method := m, urlStr := us, urlReq := ur, authz := az } u p ms r n with
        | .ok => return "ok"
        | .error _ => return "err"
      | _, _, _, _, _, _, _, _, _ => return "bad-op"
    | ["cinit"] => st.set {}; return "ok"
    | ["creq", ms, fresh, method, urlStr, urlReq, authz, user, pass] =>
      match parseMethods ms, parseOptBytes fresh, unhex method, unhex urlStr, unhex urlReq,
            parseList authz, unhex user, unhex pass with
      | some ms, some fresh, some m, some us, some ur, some az, some u, some p =>
        let ms := serverMethods (ms.getD [])
        let c ← st.get
        if c.closed then return "dead"
        let (c', o) := serve H ms u p c fresh { method := m, urlStr := us, urlReq := ur, authz := az }
        st.set c'
        let www := match o.www with | none => "none" | some l => showList l
        return s!"st {o.status} www {www} closed {b2s o.closed}"
      | _, _, _, _, _, _, _, _ => return "bad-op"
    | ["client", ms, su, sp, fresh, method, urlStr, urlReq, cred] =>
      let cred? : Option (Option (Bytes × Bytes)) :=
        if cred == "none" then some none
        else match cred.splitOn "," with
          | [a, b] => match unhex a, unhex b with
            | some a, some b => some (some (a, b))
            | _, _ => none
          | _ => none
      match parseMethods ms, unhex su, unhex sp, parseOptBytes fresh, unhex method, unhex urlStr,
            unhex urlReq, cred? with
      | some ms, some su, some sp, some fresh, some m, some us, some ur, some cred =>
        let ms := serverMethods (ms.getD [])
        let (c', _, reqs, res) := clientDo H (serveResp H ms su sp fresh) ({} : Conn) none
          { method := m, urlStr := us, urlReq := ur, cred := cred }
        let r := match res with
          | .resp r => toString r.status
          | .authSetupError => "setuperr"
        return s!"n {reqs.length} {r} closed {b2s c'.closed}"
      | _, _, _, _, _, _, _, _ => return "bad-op"
    | _ => return "bad-op"

end Rtsp.Drv.Auth
