import Rtsp.Props.C09
#print axioms Rtsp.C09.facts_expected
#print axioms Rtsp.C09.keyval_perm_invariant
#print axioms Rtsp.C09.parse_perm_invariant
#print axioms Rtsp.C09.parse_deterministic
#print axioms Rtsp.C09.Transport.unmarshal_marshal
#print axioms Rtsp.C09.Transports.unmarshal_marshal
#print axioms Rtsp.C09.Session.unmarshal_marshal
#print axioms Rtsp.C09.RtpInfo.unmarshal_marshal
#print axioms Rtsp.C09.Range.unmarshal_marshal
#print axioms Rtsp.C09.Range.npt_time_roundtrip
#print axioms Rtsp.C09.Range.smpte_time_roundtrip
#print axioms Rtsp.C09.Range.utc_time_roundtrip
#print axioms Rtsp.C09.Authenticate.unmarshal_marshal
#print axioms Rtsp.C09.Authorization.unmarshal_marshal
#print axioms Rtsp.C09.Mikey.unmarshal_marshal
#print axioms Rtsp.C09.KeyMgmt.unmarshal_marshal
