import Rtsp.Props.C09
#print axioms Rtsp.C09.facts_expected
