import Rtsp.Props.C09
#print axioms Rtsp.C09.facts_expected
#print axioms Rtsp.C09.keyval_perm_invariant
#print axioms Rtsp.C09.parse_perm_invariant
#print axioms Rtsp.C09.parse_deterministic
#print axioms Rtsp.C09.Transport.unmarshal_marshal
#print axioms Rtsp.C09.Transports.unmarshal_marshal
#print axioms Rtsp.C09.Session.unmarshal_marshal
#print axioms Rtsp.C09.RtpInfo.unmarshal_marshal
