import Rtsp.Props.C10
#print axioms Rtsp.Auth.complete
#print axioms Rtsp.Auth.verify_ok_iff
#print axioms Rtsp.Auth.sound_basic
#print axioms Rtsp.Auth.sound_basic_parsed
#print axioms Rtsp.Auth.sound_digest
#print axioms Rtsp.Auth.scheme_gate
#print axioms Rtsp.Auth.no_header_rejected
#print axioms Rtsp.Auth.realHashes_hexLike
#print axioms Rtsp.Auth.keyValParse_joinKv
#print axioms Rtsp.Auth.authenticate_roundtrip
#print axioms Rtsp.Auth.authorization_digest_roundtrip
#print axioms Rtsp.Auth.authorization_basic_roundtrip
#print axioms Rtsp.Auth.senderInit_chosen
#print axioms Rtsp.B64Std.decode_encode
