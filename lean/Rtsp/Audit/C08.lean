import Rtsp.Props.C08
#print axioms Rtsp.Codec.SimpleAudio.c08_inv_init
#print axioms Rtsp.Codec.SimpleAudio.c08_inv_decode
#print axioms Rtsp.Codec.SimpleAudio.c08_retained_le
#print axioms Rtsp.Codec.SimpleAudio.c08_out_le
#print axioms Rtsp.Codec.SimpleAudio.c08_stateless
#print axioms Rtsp.Codec.Lpcm.c08_inv_init
#print axioms Rtsp.Codec.Lpcm.c08_inv_decode
#print axioms Rtsp.Codec.Lpcm.c08_retained_le
#print axioms Rtsp.Codec.Lpcm.c08_out_le
#print axioms Rtsp.Codec.Lpcm.c08_stateless
#print axioms Rtsp.Codec.Fragmented.c08_inv_init
#print axioms Rtsp.Codec.Fragmented.c08_inv_decode
#print axioms Rtsp.Codec.Fragmented.c08_retained_le
#print axioms Rtsp.Codec.Fragmented.c08_out_le
