import Rtsp.Props.C08
