import Rtsp.Props.C11
open Rtsp.Ledger.C11
#print axioms code_shape
#print axioms every_input_answered_or_closed
#print axioms request_answered
#print axioms request_answered_first
#print axioms silence_closes
#print axioms error_iff_400_454
#print axioms error_closes_after_response
#print axioms error_close_emitted
#print axioms no_error_keeps_open
#print axioms invariant_reachable
#print axioms ledger_empty_after_close
#print axioms closed_connection_holds_nothing
#print axioms session_timeout_releases
#print axioms teardown_keeps_invariant
#print axioms other_conns_unaffected
#print axioms udp_port_collision_removes_registration
#print axioms timeout_always_enabled
#print axioms pointers_valid
#print axioms other_conns_tables_unaffected
