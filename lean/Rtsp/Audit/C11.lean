import Rtsp.Props.C11
open Rtsp.Ledger.C11
#print axioms code_shape
#print axioms request_answered_first
