import Rtsp.Props.C13
open Rtsp.Life.C13
#print axioms code_shape
#print axioms code_shape_channels
#print axioms balanced
#print axioms close_returned_after_all_closed
#print axioms no_callback_after_close
#print axioms accepts_prefix_closed
#print axioms invariants_reachable
#print axioms wg_zero_iff_all_done
#print axioms model_traces_accepted
#print axioms model_ordered
#print axioms close_terminates
#print axioms close_terminates_own_paths
#print axioms close_terminates_fair
#print axioms shutdown_steps_persist
#print axioms client_traces_accepted
#print axioms client_close_terminates
#print axioms session_close_terminates
#print axioms client_close_own_paths
#print axioms client_close_terminates_fair
#print axioms fair_execution_exists
