import Rtsp.Props.C13
open Rtsp.Life.C13
#print axioms code_shape
#print axioms balanced
#print axioms close_returned_after_all_closed
#print axioms no_callback_after_close
#print axioms accepts_prefix_closed
