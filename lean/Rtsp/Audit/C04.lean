import Rtsp.Props.C04
#print axioms Rtsp.C04.parse_serialize
#print axioms Rtsp.C04.chunk_independent
#print axioms Rtsp.C04.roundtrip_any_chunking
#print axioms Rtsp.C04.readElem_monotone
#print axioms Rtsp.C04.strict_prefix_needs_more
#print axioms Rtsp.C04.sample_wellFormed
