import Rtsp.Props.C04
#print axioms Rtsp.Frame.sample_roundtrip
