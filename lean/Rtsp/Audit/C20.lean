import Rtsp.Props.C20
#print axioms Rtsp.Url.facts_tie
#print axioms Rtsp.Url.parse_assemble
#print axioms Rtsp.Url.parse_toStr
#print axioms Rtsp.Url.parse_toStr_append
#print axioms Rtsp.Url.request_fidelity
#print axioms Rtsp.Url.setup_roundtrip
#print axioms Rtsp.Url.setup_roundtrip_no_content_base
#print axioms Rtsp.Url.setup_reaches_media
#print axioms Rtsp.Url.play_roundtrip
#print axioms Rtsp.Url.record_media_lookup
#print axioms Rtsp.Url.no_credentials_on_wire
#print axioms Rtsp.Url.playFlow_fidelity
#print axioms Rtsp.Url.recordFlow_fidelity
#print axioms Rtsp.Url.ex1_inScope
#print axioms Rtsp.Url.ex2_inScope
