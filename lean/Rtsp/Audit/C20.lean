import Rtsp.Props.C20
#print axioms Rtsp.Url.facts_tie
