import Rtsp.Props.C19
open Rtsp.Peer.C19
#print axioms facts_hold
#print axioms fill_injective_mod_v4mapped
#print axioms server_delivers_iff_registered
#print axioms server_delivers_iff_registered_cb
#print axioms foreign_source_no_effect
#print axioms negotiated_source_effect
#print axioms client_filter
#print axioms client_strict_history
#print axioms client_foreign_ip_history
#print axioms anyport_latches_first
#print axioms other_ip_rejected_unchanged
#print axioms other_conn_rejected_unchanged
#print axioms linked_only_to_own_address
#print axioms driven_only_from_author_address
#print axioms client_foreign_zone
#print axioms delivered_only_if_negotiated
#print axioms pinned_iff_streaming_interleaved
#print axioms interleaved_session_obeys_only_its_connection
#print axioms client_stopped_no_effect
