import Rtsp.Props.C14
#print axioms Rtsp.Recv.stub
