import Rtsp.Props.C14
open Rtsp.Recv.C14
#print axioms invariant_reachable
#print axioms scan_terminates
#print axioms delivered_increasing_and_lost_eq_skipped
#print axioms from_init
#print axioms fwd_irrefl
#print axioms buffered_distinct
#print axioms arrival_in_window_delivered
#print axioms dropped_only_behind
#print axioms stats_agree
#print axioms fraction_lost_lt_256
#print axioms total_lost_clamped
#print axioms ext_seq
#print axioms restart_followed_within
#print axioms displacement_clause_fails
