import Rtsp.Props.C07
#print axioms Rtsp.Codec.Ac3.c07_flush
#print axioms Rtsp.Codec.Ac3.c07_resync
#print axioms Rtsp.Codec.Mpeg1Audio.c07_flush
#print axioms Rtsp.Codec.Mpeg1Audio.c07_resync
#print axioms Rtsp.Codec.Vp8.c07_flush
#print axioms Rtsp.Codec.Vp8.c07_resync
#print axioms Rtsp.Codec.Vp9.c07_flush
#print axioms Rtsp.Codec.Vp9.c07_resync
#print axioms Rtsp.Codec.Fragmented.c07_marker_cleans
#print axioms Rtsp.Codec.Fragmented.c07_flush
#print axioms Rtsp.Codec.Fragmented.c07_resync
#print axioms Rtsp.Codec.Klv.c07_marker_cleans
#print axioms Rtsp.Codec.Klv.c07_flush
#print axioms Rtsp.Codec.Klv.c07_resync
