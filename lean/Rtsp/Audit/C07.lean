import Rtsp.Props.C07
#print axioms Rtsp.Codec.Fragmented.c07_marker_cleans
#print axioms Rtsp.Codec.Fragmented.c07_flush
#print axioms Rtsp.Codec.Fragmented.c07_resync
