import Rtsp.Props.C07
