import Rtsp.Props.C06
#print axioms Rtsp.Codec.SimpleAudio.c06_one_packet
#print axioms Rtsp.Codec.SimpleAudio.c06_seq_consecutive
#print axioms Rtsp.Codec.SimpleAudio.c06_seq_many
#print axioms Rtsp.Codec.SimpleAudio.c06_pt_ssrc
#print axioms Rtsp.Codec.Lpcm.c06_payload_le
#print axioms Rtsp.Codec.Lpcm.c06_seq_consecutive
#print axioms Rtsp.Codec.Lpcm.c06_seq_many
#print axioms Rtsp.Codec.Lpcm.c06_pt_ssrc
#print axioms Rtsp.Codec.Lpcm.c06_no_marker
#print axioms Rtsp.Codec.Lpcm.c06_sample_aligned
#print axioms Rtsp.Codec.Fragmented.c06_payload_le
#print axioms Rtsp.Codec.Fragmented.c06_seq_consecutive
#print axioms Rtsp.Codec.Fragmented.c06_seq_many
#print axioms Rtsp.Codec.Fragmented.c06_pt_ssrc
#print axioms Rtsp.Codec.Fragmented.c06_marker_only_last
