import Rtsp.Props.C06
