import Rtsp.Props.C05
open Rtsp.Sdp.C05
#print axioms session_roundtrip
#print axioms fmt_roundtrip
#print axioms fmt_roundtrip_static
#print axioms sdp_text_roundtrip
#print axioms marshal_wellformed
#print axioms sample_valid
#print axioms validity_check_sound
#print axioms parsed_wellformed
#print axioms sdp_reparse_idempotent
#print axioms reparse_idempotent_partial
#print axioms reparse_clause_fails
#print axioms marshal_injective
#print axioms media_roundtrip
#print axioms format_lookup_roundtrip
#print axioms mikey_hypothesis
#print axioms accepted_invariants
#print axioms good_of_valid_format
#print axioms reparse_idempotent_valid_formats
