import Rtsp.Props.C05
open Rtsp.Sdp.C05
#print axioms fmt_roundtrip
#print axioms fmt_roundtrip_static
#print axioms sdp_text_roundtrip
