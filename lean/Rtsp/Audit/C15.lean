import Rtsp.Props.C15
import Rtsp.Props.Bridge.Time
import Rtsp.Props.Bridge.Recv
import Rtsp.Props.Bridge.Ntp
#print axioms Rtsp.C15.facts_shape
#print axioms Rtsp.C15.pts_diff_eq_sum_of_signed_deltas
#print axioms Rtsp.C15.pts_step_exact
#print axioms Rtsp.C15.pts_follows_writer_clock
#print axioms Rtsp.C15.pts_congruent_mod_2_32
#print axioms Rtsp.C15.pts_available_iff
#print axioms Rtsp.C15.started_track_keeps_decoding
#print axioms Rtsp.C15.mulDiv_floor
#print axioms Rtsp.C15.mulDiv_trunc
#print axioms Rtsp.C15.mulDiv_error_lt_one
#print axioms Rtsp.C15.mulDiv_no_overflow
#print axioms Rtsp.C15.leader_reference_is_history
#print axioms Rtsp.C15.leader_starts_at_zero
#print axioms Rtsp.C15.late_track_on_leader_timeline
#print axioms Rtsp.C15.ntp_decode_encode
#print axioms Rtsp.C15.ntp_encode_decode
#print axioms Rtsp.C15.ntp_encode_nearest
#print axioms Rtsp.C15.ntp_decode_floor
#print axioms Rtsp.C15.ntp_fraction_no_carry
#print axioms Rtsp.C15.ntp_encode_float_path_exact
#print axioms Rtsp.C15.packet_ntp_exact
#print axioms Rtsp.C15.packet_ntp_within_tick
#print axioms Rtsp.C15.sender_reference_is_last_eq_packet
#print axioms Rtsp.C15.receiver_uses_last_report
#print axioms Rtsp.C15.packet_ntp_history
#print axioms Rtsp.C15.float_rounding_relative_error
#print axioms Rtsp.C15.float_ticks_bounds
#print axioms Rtsp.C15.sender_float_product_within_tick
#print axioms Rtsp.C15.packet_ntp_within_tick_report
#print axioms Rtsp.Bridge.Time.decode_eq
#print axioms Rtsp.Bridge.Time.multiplyAndDivide_eq
#print axioms Rtsp.Bridge.Recv.ntpTimeDiff_eq
#print axioms Rtsp.Bridge.Ntp.decSecs_eq
#print axioms Rtsp.Bridge.Ntp.decNanos_eq
#print axioms Rtsp.Bridge.Ntp.encParts_eq
#print axioms Rtsp.Bridge.Ntp.encPack_eq
#print axioms Rtsp.Bridge.Ntp.ntpTimeDiffGo_eq
#print axioms Rtsp.Bridge.Time.multiplyAndDivide_eq_of_rates
