import Rtsp.Props.C15
#print axioms Rtsp.C15.facts_shape
