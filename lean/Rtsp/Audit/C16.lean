import Rtsp.Props.C16
#print axioms Rtsp.C16.structure_facts
