import Rtsp.Props.C03
#print axioms Rtsp.Codec.SimpleAudio.c03_roundtrip
#print axioms Rtsp.Codec.SimpleAudio.c03_roundtrip_many
#print axioms Rtsp.Codec.Lpcm.c03_roundtrip_grouping
#print axioms Rtsp.Codec.Lpcm.c03_fits_single
#print axioms Rtsp.Codec.Lpcm.c03_timestamps
#print axioms Rtsp.Codec.Lpcm.c03_roundtrip_many
#print axioms Rtsp.Codec.Fragmented.c03_roundtrip
