import Rtsp.Props.C03
#print axioms Rtsp.Codec.Fragmented.c03_roundtrip
