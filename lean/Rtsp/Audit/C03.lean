import Rtsp.Props.C03
