import Rtsp.Props.C01
import Rtsp.Props.Bridge.Chan
#print axioms Rtsp.C01.code_shape
#print axioms Rtsp.C01.reader_isolation
#print axioms Rtsp.C01.invariant_reachable
#print axioms Rtsp.C01.tcp_delivery
#print axioms Rtsp.C01.tcp_delivery_drained
#print axioms Rtsp.C01.no_cross_media
#print axioms Rtsp.C01.delivered_in_write_order_at_most_once
#print axioms Rtsp.C01.loss_only_if_signalled
#print axioms Rtsp.C01.discards_only_by_own_pause
#print axioms Rtsp.C01.ssrc_announced_eq_carried
#print axioms Rtsp.C01.udp_delivery
#print axioms Rtsp.C01.udp_subsequence_partial
#print axioms Rtsp.C01.refused_iff_full
#print axioms Rtsp.C01.relay_end_to_end
#print axioms Rtsp.C01.relay_order
#print axioms Rtsp.C01.udp_subsequence
#print axioms Rtsp.C01.pause_forfeits_at_most_queue
#print axioms Rtsp.C01.not_active_not_delivered
#print axioms Rtsp.C01.second_play_is_noop
#print axioms Rtsp.Bridge.Chan.pairOverlap_eq
#print axioms Rtsp.Bridge.Chan.pairInUse_single
