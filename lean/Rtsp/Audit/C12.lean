import Rtsp.Props.C12
open Rtsp.ClientSm.C12
#print axioms facts_hold
#print axioms wait_has_timer
#print axioms only_wait_blocks
#print axioms cseq_filter
#print axioms cseq_filter_exact
#print axioms after_failure_calls_fail
#print axioms closed_absorbing
#print axioms setup_validation_sound
#print axioms setup_commit_only_if_accepted
#print axioms runExit_closed
#print axioms close_idle
#print axioms close_idempotent
#print axioms reachable_inv
#print axioms reachable_waiting_has_timer
#print axioms wait_failure_returns
#print axioms every_call_returns
#print axioms read_error_returns
#print axioms server_request_returns
#print axioms close_reaches_closed
#print axioms close_reports_error
#print axioms close_then_calls_fail
