import Rtsp.Props.C18
import Rtsp.Props.C18Trace
import Rtsp.Props.Bridge.Size
import Rtsp.Props.Bridge.Ring
#print axioms Rtsp.Size.C18.rtp_wire_le_max
#print axioms Rtsp.Size.C18.rtcp_wire_le_max
#print axioms Rtsp.Size.C18.oversize_rejected_nothing_sent
#print axioms Rtsp.Size.C18.oversize_rtcp_rejected_nothing_sent
#print axioms Rtsp.Size.C18.error_transmits_nothing
#print axioms Rtsp.Size.C18.rtp_sent_size
#print axioms Rtsp.Size.C18.rtcp_sent_size
#print axioms Rtsp.Size.C18.rtp_fitting_accepted
#print axioms Rtsp.Size.C18.rtcp_fitting_accepted
#print axioms Rtsp.Size.C18.no_panic
#print axioms Rtsp.Size.C18.rtpMarshalSize_eq
#print axioms Rtsp.Size.C18.rtcpLen_eq_sum
#print axioms Rtsp.Size.C18.mki_ignored_overflows
#print axioms Rtsp.Size.C18.mki_facts
#print axioms Rtsp.Size.C18.overhead_facts
#print axioms Rtsp.Size.C18.start_rejects_bad_config
#print axioms Rtsp.Size.C18.start_accepts_iff
#print axioms Rtsp.Size.C18.server_start_eq_client_start
#print axioms Rtsp.Size.C18.started_values
#print axioms Rtsp.Size.C18.pow2_iff
#print axioms Rtsp.Size.C18.start_positive_queue_is_pow2
#print axioms Rtsp.Size.C18.start_accepts_minint64
#print axioms Rtsp.Size.C18.start_negative_queue
#print axioms Rtsp.Size.C18.punch_sizes
#print axioms Rtsp.Size.C18.code_shape_facts
#print axioms Rtsp.Size.C18.every_write_within_max
#print axioms Rtsp.Size.C18.total_bytes_le
#print axioms Rtsp.Size.C18.stream_fanout_within_max
#print axioms Rtsp.Size.C18.stream_all_or_nothing
#print axioms Rtsp.Size.C18.frame_length_fits
#print axioms Rtsp.Size.C18.started_writes_within_udp_payload
#print axioms Rtsp.Size.C18.marshal_within_buffer
#print axioms Rtsp.Size.C18.extSize_mod4
#print axioms Rtsp.Bridge.Size.pow2_bits
#print axioms Rtsp.Bridge.Size.client_server_same
#print axioms Rtsp.Bridge.Size.maxReject_eq
#print axioms Rtsp.Bridge.Size.wqDefaulted_eq
#print axioms Rtsp.Bridge.Size.clientStart_rejects_iff
#print axioms Rtsp.Bridge.Size.serverStart_rejects_iff
#print axioms Rtsp.Bridge.Ring.notPowerOfTwo_eq
