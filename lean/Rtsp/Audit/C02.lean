import Rtsp.Props.C02
open Rtsp.Sess.C02
#print axioms facts_shape
#print axioms keepalive_margin
#print axioms keepalive_margin_tight
#print axioms live_never_expired
#print axioms record_margin_needed
#print axioms silent_closed_within
#print axioms deadline_le
