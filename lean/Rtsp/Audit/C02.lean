import Rtsp.Props.C02
open Rtsp.Sess.C02
#print axioms facts_shape
#print axioms one_response_per_request
#print axioms responses_echo_cseq
#print axioms no_response_after_error
#print axioms refines_rfc
#print axioms error_unchanged
#print axioms state_is_rfc_step
#print axioms illegal_is_error_and_unchanged
#print axioms illegal_strict
#print axioms pause_in_ready_accepted
#print axioms stricter_than_rfc_exactly
#print axioms state_guard
#print axioms legal_wellformed_ok
#print axioms teardown_ends
#print axioms session_ends_once
#print axioms keepalive_margin
#print axioms keepalive_margin_tight
#print axioms live_never_expired
#print axioms record_margin_needed
#print axioms silent_closed_within
#print axioms deadline_le
