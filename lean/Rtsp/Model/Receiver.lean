import Rtsp.Generated.Facts.Recv
/-
Model of /repo/pkg/rtpreceiver/receiver.go  (ProcessPacket2, reorder, report, Stats).

Conventions (DESIGN.md §3): Go methods that mutate the receiver become
`step : State → Input → State × Output`; `uint64` counters are `Nat` (overflow needs 2^64
packets, listed in the trusted base); sequence numbers are `UInt16` because the property is
about wrap-around.  Jitter (float64) and wall-clock values are not modelled.

Core Lean only: this file is compiled into the `oracle_recv` driver.  Numeric constants come from
`Generated/Facts/Recv.lean`, regenerated from /repo on every run.
-/
namespace Rtsp.Recv
open Rtsp.Facts

/-- A packet as far as the receiver is concerned: its sequence number and an identity tag that
stands for the Go pointer / payload (the receiver never looks inside). -/
structure Pkt where
  seq : UInt16
  id  : Nat
deriving DecidableEq, Repr, Inhabited

structure State where
  unreliable : Bool                 -- UnrealiableTransport
  first      : Bool                 -- firstRTPPacketReceived
  buf        : List (Option Pkt)    -- buffer (length BufferSize when unreliable, else [])
  absPos     : Nat                  -- uint16 in Go, always < len(buffer)
  negCount   : Nat                  -- negativeCount
  cycles     : UInt16               -- sequenceNumberCycles
  last       : UInt16               -- lastSequenceNumber
  lost       : Nat
  lostSince  : Nat                  -- lostSinceReport
  received   : Nat
  rlSince    : Nat                  -- receivedAndLostSinceReport
deriving Repr

/-- `Initialize` (BufferSize already defaulted by the caller of `init`). -/
def init (unreliable : Bool) (size : Nat) : State :=
  { unreliable, first := false,
    buf := if unreliable then List.replicate size none else [],
    absPos := 0, negCount := 0, cycles := 0, last := 0,
    lost := 0, lostSince := 0, received := 0, rlSince := 0 }

/-- Go: `int16(pkt.SequenceNumber - rr.lastSequenceNumber - 1)`. -/
def relPos (seq last : UInt16) : Int := (seq - last - 1).toInt16.toInt

/-- Go: `(rr.absPos + i) & (uint16(len(rr.buffer)) - 1)`; for `len ≤ 2^15` the `uint16` sum
cannot overflow, so `Nat` arithmetic is exact. -/
def slotIdx (s : State) (i : Nat) : Nat := (s.absPos + i) &&& (s.buf.length - 1)

def slot (s : State) (i : Nat) : Option Pkt := (s.buf.getD (slotIdx s i) none)

structure Out where
  pkts    : List Pkt
  lost    : Nat
  restart : Bool := false     -- model-only flag: the `negativeCount > len(buffer)` branch was taken
deriving Repr, DecidableEq

/-- occupied slots in the order `absPos, absPos+1, …` (the two loops of the flush branch) -/
def occupied (s : State) : List Pkt :=
  (List.range s.buf.length).filterMap (fun i => slot s i)

/-- the `for { … n++ }` scan of the in-order branch, literally: `n` starts at 1 and advances while
slot `absPos+n` is occupied.  The model cuts the loop after `fuel` iterations; `Props/C14` proves
that under the state invariant the cut is never reached (the termination argument of the Go loop). -/
def scanFrom (s : State) : Nat → Nat → Nat
  | 0, n => n
  | fuel + 1, n => if (slot s n).isSome then scanFrom s fuel (n + 1) else n

/-- number of packets drained from the buffer after an in-order packet (`n - 1` in Go) -/
def scanLen (s : State) : Nat := scanFrom s s.buf.length 1 - 1

def clearAll (s : State) : List (Option Pkt) := List.replicate s.buf.length none

/-- packets drained after an in-order packet (`ret[1:]` of the last branch of `reorder`) -/
def drainTail (s : State) : List Pkt := (List.range (scanLen s)).filterMap (fun i => slot s (i + 1))

/-- the buffer with the drained slots cleared -/
def drainBuf (s : State) : List (Option Pkt) :=
  (List.range (scanLen s)).foldl (fun b i => b.set (slotIdx s (i + 1)) none) s.buf

/-- `reorder`.  (`rr.negativeCount = 0` is executed before the last three branches; the helpers
only read `buffer` and `absPos`, so it is applied to the result here.) -/
def reorder (s : State) (p : Pkt) : State × Out :=
  let n := s.buf.length
  let r := relPos p.seq s.last
  if r < 0 then
    if s.negCount + 1 > n then
      ({ s with negCount := 0, buf := clearAll s }, { pkts := [p], lost := 0, restart := true })
    else
      ({ s with negCount := s.negCount + 1 }, { pkts := [], lost := 0 })
  else if r ≥ (n : Int) then
    ({ s with negCount := 0, buf := clearAll s },
     { pkts := occupied s ++ [p], lost := (r - ((occupied s).length + 1 : Nat) + 1).toNat })
  else if r ≠ 0 then
    match s.buf.getD (slotIdx s r.toNat) none with
    | some _ => ({ s with negCount := 0 }, { pkts := [], lost := 0 })
    | none   => ({ s with negCount := 0, buf := s.buf.set (slotIdx s r.toNat) (some p) },
                 { pkts := [], lost := 0 })
  else
    ({ s with negCount := 0, buf := drainBuf s, absPos := slotIdx s (scanLen s + 1) },
     { pkts := p :: drainTail s, lost := 0 })

/-- the per-delivered-packet loop of `ProcessPacket2` (sequence-number cycles) -/
def advance (s : State) (p : Pkt) : State :=
  let diff : Int := (p.seq.toNat : Int) - (s.last.toNat : Int)
  { s with cycles := if diff < Recv.cycleThreshold then s.cycles + 1 else s.cycles, last := p.seq }

/-- `ProcessPacket2` -/
def step (s : State) (p : Pkt) : State × Out :=
  if !s.first then
    ({ s with first := true, received := 1, rlSince := 1, last := p.seq }, { pkts := [p], lost := 0 })
  else
    let (s1, o) :=
      if s.unreliable then reorder s p
      else (s, { pkts := [p], lost := (p.seq - s.last - 1).toNat })
    let s2 := { s1 with lost := s1.lost + o.lost, lostSince := s1.lostSince + o.lost,
                        received := s1.received + o.pkts.length,
                        rlSince := s1.rlSince + o.pkts.length + o.lost }
    (o.pkts.foldl advance s2, o)

structure Report where
  extSeq       : Nat      -- LastSequenceNumber (uint32)
  fractionLost : Nat      -- the value *before* Go's `uint8(…)` conversion
  totalLost    : Nat
deriving Repr, DecidableEq

/-- `report()` restricted to the loss-accounting fields; `none` when no packet was received. -/
def report (s : State) : State × Option Report :=
  if !s.first then (s, none) else
  let fl := if s.rlSince ≠ 0 then (min s.lostSince Recv.fractionClamp * 256) / s.rlSince else 0
  ({ s with lostSince := 0, rlSince := 0 },
   some { extSeq := s.cycles.toNat * 65536 + s.last.toNat, fractionLost := fl,
          totalLost := min s.lost Recv.lostClamp })

/-- run a whole arrival history -/
def run (s : State) : List Pkt → State × List Out
  | [] => (s, [])
  | p :: ps =>
    let (s1, o) := step s p
    let (s2, os) := run s1 ps
    (s2, o :: os)

end Rtsp.Recv
