/-
Model of /repo/pkg/ringbuffer/ringbuffer.go (RingBuffer: New, Close, Reset, Push, Pull).

The Go type is a slot array `buffer []any` (nil = empty slot), two cursors `readIndex`,
`writeIndex` (uint64, always reduced `% size`, so `Nat` arithmetic is exact) and a `closed` flag,
all guarded by one mutex.  Each function below is the body of ONE critical section, exactly as
written in Go; `pullTry` is the body of one iteration of the `for` loop of `Pull` and returns
`wait` where the Go code calls `cond.Wait()`.  The interleaving of critical sections, the mutex and
the condition variable are modelled in `Rtsp.Model.RingConc`.

Items are values of an arbitrary type `α`; a stored item is `some x`, which models a non-nil
interface value (the only caller, `asyncprocessor.Processor.Push`, always stores a func value).

Core Lean only: this file is linked into the `oracle_ring` executable.
-/
namespace Rtsp.Ring

structure Ring (α : Type) where
  size       : Nat
  buffer     : List (Option α)
  readIndex  : Nat
  writeIndex : Nat
  closed     : Bool
deriving Repr

variable {α : Type}

/-- Go: `(size & (size - 1)) != 0` on `uint64` (`0 - 1` wraps to `2^64 - 1`, so size 0 passes). -/
def sizeRejected (size : Nat) : Bool :=
  (size &&& ((size + 2 ^ 64 - 1) % 2 ^ 64)) != 0

/-- `New`: `none` is the error return. -/
def new? (size : Nat) : Option (Ring α) :=
  if sizeRejected size then none
  else some { size, buffer := List.replicate size none, readIndex := 0, writeIndex := 0, closed := false }

/-- what `New` returns for an accepted size -/
def new (size : Nat) : Ring α :=
  { size, buffer := List.replicate size none, readIndex := 0, writeIndex := 0, closed := false }

/-- `r.buffer[i]` (nil when empty) -/
def slot (r : Ring α) (i : Nat) : Option α := (r.buffer[i]?).join

/-- Go: `for i := uint64(0); i < r.size; i++ { r.buffer[i] = nil }` -/
def clearAll (size : Nat) (b : List (Option α)) : List (Option α) :=
  (List.range size).foldl (fun b i => b.set i none) b

/-- `Close` (critical section; the `Broadcast` after it is in `RingConc`). -/
def close (r : Ring α) : Ring α :=
  { r with closed := true, buffer := clearAll r.size r.buffer }

/-- `Reset` (not under the mutex in Go: single-threaded use only). -/
def reset (r : Ring α) : Ring α :=
  { r with buffer := clearAll r.size r.buffer, writeIndex := 0, readIndex := 0, closed := false }

/-- `Push` critical section: `false` = refused. -/
def push (r : Ring α) (x : α) : Ring α × Bool :=
  match slot r r.writeIndex with
  | some _ => (r, false)
  | none =>
    ({ r with buffer := r.buffer.set r.writeIndex (some x),
              writeIndex := (r.writeIndex + 1) % r.size }, true)

inductive PullRes (α : Type) where
  | item (x : α)      -- `return data, true`
  | closed            -- `return nil, false`
  | wait              -- `r.cond.Wait()` (the caller loops)
deriving Repr, DecidableEq

/-- one iteration of the loop of `Pull`, from `Lock` to the `return` / `cond.Wait()` -/
def pullTry (r : Ring α) : Ring α × PullRes α :=
  if r.closed then (r, .closed)
  else
    match slot r r.readIndex with
    | some x =>
      ({ r with buffer := r.buffer.set r.readIndex none,
                readIndex := (r.readIndex + 1) % r.size }, .item x)
    | none => (r, .wait)

/-- the operations of the sequential interface -/
inductive Op (α : Type) where
  | push (x : α) | pull | close | reset
deriving Repr, DecidableEq

inductive Res (α : Type) where
  | pushed (ok : Bool) | pulled (p : PullRes α) | done
deriving Repr, DecidableEq

def step (r : Ring α) : Op α → Ring α × Res α
  | .push x => let (r', ok) := push r x; (r', .pushed ok)
  | .pull   => let (r', p) := pullTry r; (r', .pulled p)
  | .close  => (close r, .done)
  | .reset  => (reset r, .done)

/-- run a sequence of critical sections; results in order -/
def run (r : Ring α) : List (Op α) → Ring α × List (Res α)
  | [] => (r, [])
  | op :: ops =>
    let (r1, o) := step r op
    let (r2, os) := run r1 ops
    (r2, o :: os)

end Rtsp.Ring
