import Rtsp.Generated.Facts.Time
import Rtsp.Model.F64
/-
Model of /repo/pkg/ntp/ntp.go  (Encode, Decode).

A `time.Time` is represented by its Unix time in nanoseconds (`Int`; Go: `t.UnixNano()`, an int64).
An NTP timestamp is the Go `uint64` as a `Nat` below `2^64`.

Encode, as written in Go:

    ntp := uint64(t.UnixNano()) + 2208988800*1000000000          -- uint64 arithmetic, wraps
    secs := ntp / 1000000000
    fractional := uint64(math.Round(float64((ntp%1000000000)*(1<<32)) / 1000000000))
    return secs<<32 | fractional

The float path of `fractional` is modelled by exact integer rounding (`roundDiv`).  Why that is the
same function (the argument below is a Lean theorem for the binary64 model `F64`:
`Ntp.encFracFloat_eq`, Proofs/NtpFloat.lean; for the real code it is validated by the correspondence harness,
which compares all 10^9 possible values of `ntp%1000000000` against this model in the thorough tier
and 2·10^7 of them, plus ~10^6 random and boundary instants, in the quick tier):
  * `n = ntp % 10^9 < 2^30`, so `n·2^32` has at most 30 significant bits: `float64(n·2^32)` is exact.
  * the real quotient `q = n·2^32/10^9 = n·2^23/5^9` is a multiple of `5^-9`; a half-integer is an
    odd multiple of `1/2`, so `|q − h| ≥ 1/(2·5^9) = 2^-21.9` for every half-integer `h`.
  * `q < 2^32`, so the correctly rounded float quotient is within half an ulp `≤ 2^-22 < 1/(2·5^9)` of
    `q`: it lies strictly on the same side of every half-integer as `q`, hence `math.Round` of it is
    the nearest integer of `q` (and ties never occur).
  * `n ≤ 999999999` gives `q ≤ 2^32 − 4.29…`, so `fractional ≤ 4294967292 < 2^32` and the `|` in the
    last line is an addition.

Decode divides integers first (`((v & 0xFFFFFFFF) * 1000000000) / (1 << 32)` is a uint64 floor
division with a result below 10^9); the conversion to float64 and `math.Round` are the identity.

Core Lean only (linked into `oracle_time`).
-/
namespace Rtsp.Ntp
open Rtsp.Facts

def two32 : Nat := 4294967296
def two64 : Nat := 18446744073709551616
def nanos : Nat := Time.nanosPerSecEnc

/-- nearest integer of `a / b`, halves up (Go `math.Round` for non-negative values). -/
def roundDiv (a b : Nat) : Nat := (2 * a + b) / (2 * b)

/-- Go `uint64(x)` of an int64 `x` (two's complement). -/
def toU64 (x : Int) : Nat := (x % (two64 : Int)).toNat

/-- `uint64(t.UnixNano()) + 2208988800*1000000000` (wrapping uint64 addition). -/
def ntpNanos (unixNs : Int) : Nat := (toU64 unixNs + Time.ntpEpochOffsetEnc * nanos) % two64

/-- the fractional field computed by `Encode` for `n = ntp % 10^9`. -/
def encFrac (n : Nat) : Nat := roundDiv (n * two32) nanos

/-- the fractional field exactly as the Go expression computes it, on the binary64 model:
`uint64(math.Round(float64(n*(1<<32)) / 1000000000))`.  `Proofs/NtpFloat.lean` proves
`encFracFloat n = encFrac n` for every `n < 10^9`; the harness compares both with the real code. -/
def encFracFloat (n : Nat) : Nat :=
  F64.roundHalfAway (F64.div (F64.ofNat (n * two32)) (F64.ofNat nanos))

/-- `Encode`: `secs<<32 | fractional` on uint64. -/
def encode (unixNs : Int) : Nat :=
  let ntp := ntpNanos unixNs
  let secs := ntp / nanos
  ((secs * two32) % two64) ||| encFrac (ntp % nanos)

/-- the `secs` of `Decode`: `int64((v >> 32) - 2208988800)`; `v >> 32 < 2^32`, so the wrapped uint64
difference read as int64 is the signed difference. -/
def decSecs (v : Nat) : Int := ((v / two32 : Nat) : Int) - (Time.ntpEpochOffsetDec : Int)

/-- the `nanos` of `Decode`. -/
def decNanos (v : Nat) : Nat := ((v % two32) * nanos) / two32

/-- `Decode(v)` as Unix nanoseconds (`time.Unix(secs, nanos)`). -/
def decode (v : Nat) : Int := decSecs v * (nanos : Int) + (decNanos v : Int)

end Rtsp.Ntp
