import Rtsp.Model.B64Std
import Rtsp.Generated.Facts.Auth
/-
Model of RTSP authentication in /repo:

  pkg/headers/keyval.go          readKey, readValue, keyValParse
  pkg/headers/authenticate.go    Authenticate.Unmarshal / Marshal, parseAuthAlgorithm
  pkg/headers/authorization.go   Authorization.Unmarshal / Marshal
  pkg/auth/www_authenticate.go   GenerateWWWAuthenticate
  pkg/auth/sender.go             Sender.Initialize, Sender.AddAuthorization
  pkg/auth/verify.go             urlMatches (incl. the SETUP base-URL rule), Verify
  server_conn.go                 credentialsProvided, VerifyCredentials, handleAuthError and the
                                 part of handleRequestOuter / the reader loop that decides whether the
                                 connection survives a request
  client.go                      the retry-once-with-Authorization rule of Client.do

Go strings are byte strings: everything is `List UInt8` (`Bytes`).  The two digest functions
(`md5Hex`, `sha256Hex`: byte string ↦ lower-case hex text) are a parameter `Hashes`; the driver
instantiates it with `Md5.hex` / `Sha256.hex`.  A `*base.URL` appears only through three of its
renderings, which the correspondence harness takes from the real `base.URL`:
`String()`, `RequestURI()` and `CloneWithoutCredentials().String()`.

Core Lean only (linked into `oracle_auth`).
-/
namespace Rtsp.Auth

abbrev Bytes := List UInt8

open Lean in
/-- `b!"text"`: the UTF-8 bytes of a string literal as an explicit list literal (so that the
kernel can compute with it). -/
macro:max "b!" s:str : term => do
  let bytes := s.getString.toUTF8.toList
  let elems ← bytes.toArray.mapM fun b => `(($(quote b.toNat) : UInt8))
  `(([$elems,*] : List UInt8))

def cQuote : UInt8 := 34   -- '"'
def cColon : UInt8 := 58   -- ':'
def cComma : UInt8 := 44   -- ','
def cEq    : UInt8 := 61   -- '='
def cSpace : UInt8 := 32   -- ' '
def cSlash : UInt8 := 47   -- '/'
def cLF    : UInt8 := 10   -- '\n'

/-- the two digest functions of verify.go / sender.go (`md5Hex`, `sha256Hex`) -/
structure Hashes where
  md5    : Bytes → Bytes
  sha256 : Bytes → Bytes

/-! ## pkg/headers/keyval.go -/

/-- `readKey`: up to the first `=` or separator -/
def readKey (s : Bytes) (sep : UInt8) : Bytes × Bytes :=
  (s.takeWhile (fun c => c != cEq && c != sep), s.dropWhile (fun c => c != cEq && c != sep))

/-- `readValue` (`none` = "apexes not closed") -/
def readValue (s : Bytes) (sep : UInt8) : Option (Bytes × Bytes) :=
  match s with
  | c :: t =>
    if c = cQuote then
      match t.dropWhile (· != cQuote) with
      | _ :: rest => some (t.takeWhile (· != cQuote), rest)
      | [] => none
    else some (s.takeWhile (· != sep), s.dropWhile (· != sep))
  | [] => some ([], [])

/-- one iteration of the `for len(str) > 0` loop of `keyValParse`: a key, its value (`""` when
there is no `=`), then one separator and any spaces are skipped -/
def kvStep (s : Bytes) (sep : UInt8) : Option ((Bytes × Bytes) × Bytes) :=
  let (k, r) := readKey s sep
  let val : Option (Bytes × Bytes) :=
    match r with
    | c :: r' => if c = cEq then readValue r' sep else some ([], r)
    | [] => some ([], r)
  match val with
  | none => none
  | some (v, r2) =>
    let r3 := match r2 with
      | c :: t => if c = sep then t else r2
      | [] => []
    some ((k, v), r3.dropWhile (· == cSpace))

/-- the loop of `keyValParse` with explicit fuel (every iteration consumes at least one byte, so
`fuel = len(str)` is enough; `Proofs/AuthKv` proves that more fuel changes nothing) -/
def kvParseF : Nat → Bytes → UInt8 → Option (List (Bytes × Bytes))
  | _, [], _ => some []
  | 0, _ :: _, _ => none
  | fuel + 1, s, sep =>
    match kvStep s sep with
    | none => none
    | some (kv, r) =>
      match kvParseF fuel r sep with
      | none => none
      | some kvs => some (kv :: kvs)

/-- `keyValParse`: the key/value pairs in order of appearance; the Go map is recovered by
`kvGet` (a later occurrence of a key overwrites an earlier one) -/
def keyValParse (s : Bytes) (sep : UInt8) : Option (List (Bytes × Bytes)) :=
  kvParseF s.length s sep

/-- map lookup: the last pair with that key -/
def kvGet (kvs : List (Bytes × Bytes)) (k : Bytes) : Option Bytes :=
  match kvs.reverse.find? (fun p => p.1 == k) with
  | some p => some p.2
  | none => none

/-! ## pkg/headers/authenticate.go, authorization.go -/

inductive AuthMethod | basic | digest
deriving DecidableEq, Repr, Inhabited

inductive Alg | md5 | sha256
deriving DecidableEq, Repr, Inhabited

/-- ASCII lower-casing.  Go uses `strings.ToLower`, which agrees with this on the question asked
(`== "md5"`, `== "sha-256"`): the only non-ASCII runes whose lower case is ASCII are U+0130 (`i`)
and U+212A (`k`), and neither letter occurs in the two names. -/
def lowerAscii (s : Bytes) : Bytes := s.map fun c => if 65 ≤ c ∧ c ≤ 90 then c + 32 else c

/-- `parseAuthAlgorithm` (`none` = error) -/
def parseAuthAlgorithm (v : Bytes) : Option Alg :=
  if lowerAscii v = b!"md5" then some .md5
  else if lowerAscii v = b!"sha-256" then some .sha256
  else none

/-- the `algorithm` key of a Digest header: `none` = error, `some none` = key absent -/
def algOf (kvs : List (Bytes × Bytes)) : Option (Option Alg) :=
  match kvGet kvs b!"algorithm" with
  | none => some none
  | some v =>
    match parseAuthAlgorithm v with
    | none => none
    | some a => some (some a)

/-- `strings.Cut(v0, " ")` -/
def cutSpace (s : Bytes) : Option (Bytes × Bytes) :=
  match s.dropWhile (· != cSpace) with
  | _ :: b => some (s.takeWhile (· != cSpace), b)
  | [] => none

/-- `headers.Authenticate` (the `Opaque` and `Stale` fields are parsed by the Go code but are
used neither by `auth.Sender` nor by `GenerateWWWAuthenticate`; they are not modelled) -/
structure Authenticate where
  method    : AuthMethod
  realm     : Bytes
  nonce     : Bytes := []
  algorithm : Option Alg := none
deriving DecidableEq, Repr, Inhabited

/-- `Authenticate.Unmarshal` on a header value (a list of strings) -/
def Authenticate.unmarshal (v : List Bytes) : Option Authenticate :=
  match v with
  | [v0] =>
    match cutSpace v0 with
    | none => none
    | some (m, rest) =>
      if m = b!"Basic" then
        match keyValParse rest cComma with
        | none => none
        | some kvs =>
          match kvGet kvs b!"realm" with
          | none => none
          | some r => some { method := .basic, realm := r }
      else if m = b!"Digest" then
        match keyValParse rest cComma with
        | none => none
        | some kvs =>
          match algOf kvs with
          | none => none
          | some alg =>
            match kvGet kvs b!"realm", kvGet kvs b!"nonce" with
            | some r, some n => some { method := .digest, realm := r, nonce := n, algorithm := alg }
            | _, _ => none
      else none
  | _ => none

/-- `key="value"` -/
def kvQ (kv : Bytes × Bytes) : Bytes := kv.1 ++ cEq :: cQuote :: (kv.2 ++ [cQuote])

/-- `k1="v1", k2="v2", …`: the text the two `Marshal` functions build by string concatenation -/
def joinKv : List (Bytes × Bytes) → Bytes
  | [] => []
  | [kv] => kvQ kv
  | kv :: rest => kvQ kv ++ cComma :: cSpace :: joinKv rest

/-- `, algorithm="MD5"` / `, algorithm="SHA-256"` / nothing -/
def algKv : Option Alg → List (Bytes × Bytes)
  | none => []
  | some .md5 => [(b!"algorithm", b!"MD5")]
  | some .sha256 => [(b!"algorithm", b!"SHA-256")]

/-- `Authenticate.Marshal` (one header value) -/
def Authenticate.marshal (h : Authenticate) : Bytes :=
  match h.method with
  | .basic => b!"Basic " ++ joinKv [(b!"realm", h.realm)]
  | .digest => b!"Digest " ++ joinKv ([(b!"realm", h.realm), (b!"nonce", h.nonce)] ++ algKv h.algorithm)

/-- `headers.Authorization` (`Opaque` is never set by `auth.Sender` and never read by
`auth.Verify`; not modelled) -/
structure Authorization where
  method    : AuthMethod
  username  : Bytes := []
  basicPass : Bytes := []
  realm     : Bytes := []
  nonce     : Bytes := []
  uri       : Bytes := []
  response  : Bytes := []
  algorithm : Option Alg := none
deriving DecidableEq, Repr, Inhabited

/-- Basic credentials: split of the decoded text at the first `:` (error when there is none) -/
def splitUserPass (t : Bytes) : Option (Bytes × Bytes) :=
  match t.dropWhile (· != cColon) with
  | _ :: p => some (t.takeWhile (· != cColon), p)
  | [] => none

/-- `Authorization.Unmarshal` -/
def Authorization.unmarshal (v : List Bytes) : Option Authorization :=
  match v with
  | [v0] =>
    match cutSpace v0 with
    | none => none
    | some (m, rest) =>
      if m = b!"Basic" then
        match B64Std.decode rest with
        | none => none
        | some t =>
          match splitUserPass t with
          | none => none
          | some (u, p) => some { method := .basic, username := u, basicPass := p }
      else if m = b!"Digest" then
        match keyValParse rest cComma with
        | none => none
        | some kvs =>
          match algOf kvs with
          | none => none
          | some alg =>
            match kvGet kvs b!"realm", kvGet kvs b!"username", kvGet kvs b!"nonce",
                  kvGet kvs b!"uri", kvGet kvs b!"response" with
            | some r, some u, some n, some uri, some resp =>
              some { method := .digest, username := u, realm := r, nonce := n, uri := uri,
                     response := resp, algorithm := alg }
            | _, _, _, _, _ => none
      else none
  | _ => none

/-- `Authorization.Marshal` (one header value) -/
def Authorization.marshal (h : Authorization) : Bytes :=
  match h.method with
  | .basic => b!"Basic " ++ B64Std.encode (h.username ++ [cColon] ++ h.basicPass)
  | .digest =>
    b!"Digest " ++ joinKv ([(b!"username", h.username), (b!"realm", h.realm), (b!"nonce", h.nonce),
      (b!"uri", h.uri), (b!"response", h.response)] ++ algKv h.algorithm)

/-! ## pkg/auth/www_authenticate.go -/

/-- `VerifyMethod` is a Go `int`; the three named values come from the regenerated facts -/
abbrev VerifyMethod := Nat
def vmBasic : VerifyMethod := Facts.Auth.verifyMethodBasic
def vmMD5 : VerifyMethod := Facts.Auth.verifyMethodDigestMD5
def vmSHA256 : VerifyMethod := Facts.Auth.verifyMethodDigestSHA256

/-- `if methods == nil { methods = {Basic, DigestMD5} }` -/
def defaultMethods (methods : Option (List VerifyMethod)) : List VerifyMethod :=
  match methods with
  | none => [vmBasic, vmMD5]
  | some ms => ms

/-- the challenge issued for one enabled method (`default:` of the Go switch is SHA-256) -/
def challengeFor (realm nonce : Bytes) (m : VerifyMethod) : Authenticate :=
  if m = vmBasic then { method := .basic, realm := realm }
  else if m = vmMD5 then { method := .digest, realm := realm, nonce := nonce, algorithm := some .md5 }
  else { method := .digest, realm := realm, nonce := nonce, algorithm := some .sha256 }

/-- `GenerateWWWAuthenticate` -/
def generateWWW (methods : Option (List VerifyMethod)) (realm nonce : Bytes) : List Bytes :=
  (defaultMethods methods).map fun m => (challengeFor realm nonce m).marshal

/-! ## pkg/auth/sender.go -/

/-- the replacement rule inside the loop of `Sender.Initialize` -/
def prefer (cur : Option Authenticate) (a : Authenticate) : Option Authenticate :=
  match cur with
  | none => some a
  | some c => if a.algorithm = some .sha256 ∨ c.method = .basic then some a else some c

/-- `Sender.Initialize`: the selected challenge (`none` = "no authentication methods available") -/
def senderInit (www : List Bytes) : Option Authenticate :=
  www.foldl (fun cur v =>
    match Authenticate.unmarshal [v] with
    | none => cur
    | some a => prefer cur a) none

/-- the digest response of sender.go and verify.go -/
def digestResponse (H : Hashes) (alg : Option Alg) (user realm pass nonce method uri : Bytes) : Bytes :=
  match alg with
  | some .sha256 =>
    H.sha256 (H.sha256 (user ++ [cColon] ++ realm ++ [cColon] ++ pass) ++ [cColon] ++ nonce ++ [cColon] ++
      H.sha256 (method ++ [cColon] ++ uri))
  | _ =>
    H.md5 (H.md5 (user ++ [cColon] ++ realm ++ [cColon] ++ pass) ++ [cColon] ++ nonce ++ [cColon] ++
      H.md5 (method ++ [cColon] ++ uri))

/-- the `headers.Authorization` built by `Sender.AddAuthorization`; `url` is
`req.URL.CloneWithoutCredentials().String()` -/
def senderAuthorization (H : Hashes) (ch : Authenticate) (user pass method url : Bytes) : Authorization :=
  match ch.method with
  | .basic => { method := .basic, username := user, basicPass := pass }
  | .digest =>
    { method := .digest, username := user, realm := ch.realm, nonce := ch.nonce, uri := url,
      algorithm := ch.algorithm,
      response := digestResponse H ch.algorithm user ch.realm pass ch.nonce method url }

/-- `Sender.AddAuthorization`: the value of the `Authorization` header -/
def addAuthorization (H : Hashes) (ch : Authenticate) (user pass method url : Bytes) : List Bytes :=
  [(senderAuthorization H ch user pass method url).marshal]

/-! ## pkg/auth/verify.go -/

/-- what `auth.Verify` / `urlMatches` read of a request -/
structure Req where
  method  : Bytes          -- string(req.Method)
  urlStr  : Bytes          -- req.URL.String()
  urlReq  : Bytes          -- req.URL.RequestURI()
  authz   : List Bytes     -- req.Header["Authorization"]
deriving DecidableEq, Repr, Inhabited

def isDigit (c : UInt8) : Bool := 48 ≤ c && c ≤ 57

/-- capture group 1 of `^(.+/)trackID=[0-9]+$` on `s` (`none` = no match).  Scanning from the end:
a non-empty run of digits, `trackID=`, then a prefix that ends in `/`, has at least one more
character before that `/`, and contains no line feed (`.` does not match `\n`). -/
def trackBase (s : Bytes) : Option Bytes :=
  let r := s.reverse
  let ds := r.takeWhile isDigit
  let r1 := r.dropWhile isDigit
  if ds.isEmpty then none
  else if b!"=DIkcart".isPrefixOf r1 then
    let p := r1.drop 8
    match p with
    | c :: q => if c = cSlash ∧ !q.isEmpty ∧ !p.contains cLF then some p.reverse else none
    | [] => none
  else none

/-- `urlMatches(expected, received, isSetup)` -/
def urlMatches (urlStr urlReq received : Bytes) (isSetup : Bool) : Bool :=
  if (b!"/".isPrefixOf received && received == urlReq) || received == urlStr then true
  else if isSetup then
    match trackBase urlStr with
    | some m1 => received == m1 || received ++ [cSlash] == m1
    | none => false
  else false

inductive VerifyErr
  | header        -- Authorization header missing / not parsable
  | noMethod      -- "no supported authentication methods found"
  | nonce | realm | user | url | response | pass
deriving DecidableEq, Repr, Inhabited

inductive VerifyRes
  | ok
  | error (e : VerifyErr)
deriving DecidableEq, Repr, Inhabited

/-- the guard of the Digest case of the `switch` in `Verify` -/
def digestEnabled (ms : List VerifyMethod) (alg : Option Alg) : Bool :=
  (ms.contains vmMD5 && (alg == none || alg == some .md5)) ||
  (ms.contains vmSHA256 && alg == some .sha256)

/-- `auth.Verify` -/
def verify (H : Hashes) (req : Req) (user pass : Bytes) (methods : Option (List VerifyMethod))
    (realm nonce : Bytes) : VerifyRes :=
  let ms := defaultMethods methods
  match Authorization.unmarshal req.authz with
  | none => .error .header
  | some a =>
    if a.method = .digest ∧ digestEnabled ms a.algorithm = true then
      if a.nonce ≠ nonce then .error .nonce
      else if a.realm ≠ realm then .error .realm
      else if a.username ≠ user then .error .user
      else if urlMatches req.urlStr req.urlReq a.uri (req.method == b!"SETUP") = false then .error .url
      else if a.response ≠ digestResponse H a.algorithm user realm pass nonce req.method a.uri then
        .error .response
      else .ok
    else if a.method = .basic ∧ ms.contains vmBasic = true then
      if a.username ≠ user then .error .user
      else if a.basicPass ≠ pass then .error .pass
      else .ok
    else .error .noMethod

/-! ## server_conn.go -/

/-- `serverAuthRealm` (tied to the regenerated fact in `Props/C10`) -/
def serverAuthRealm : Bytes := b!"ipcam"

/-- `Server.Start`: `if len(s.AuthMethods) == 0 { s.AuthMethods = {Basic, DigestMD5} }` -/
def serverMethods (cfg : List VerifyMethod) : List VerifyMethod :=
  if cfg.isEmpty then [vmBasic, vmMD5] else cfg

/-- `credentialsProvided` -/
def credentialsProvided (authz : List Bytes) : Bool :=
  match Authorization.unmarshal authz with
  | some a => a.username != []
  | none => false

/-- the per-connection state that matters: `sc.authNonce` (`""` until the first
`VerifyCredentials`) and whether the connection has been closed by the server -/
structure Conn where
  nonce  : Bytes := []
  closed : Bool := false
deriving DecidableEq, Repr, Inhabited

/-- `ServerConn.VerifyCredentials`; `fresh` is the result of `auth.GenerateNonce()` should it be
called (`none` = it failed).  `methods` is `Server.AuthMethods` after `Server.Start` (non-empty). -/
def verifyCredentials (H : Hashes) (methods : List VerifyMethod) (c : Conn) (fresh : Option Bytes)
    (req : Req) (user pass : Bytes) : Conn × Bool :=
  if user = [] then (c, false)
  else
    let c' : Option Conn :=
      if c.nonce = [] then
        match fresh with
        | none => none
        | some n => some { c with nonce := n }
      else some c
    match c' with
    | none => (c, false)
    | some c' => (c', verify H req user pass (some methods) serverAuthRealm c'.nonce == .ok)

/-- kind of error returned by the application handler together with its response -/
inductive HandlerErr | none | auth | other
deriving DecidableEq, Repr, Inhabited

/-- what goes on the wire and what happens to the connection -/
structure Outcome where
  status : Nat
  www    : Option (List Bytes)     -- WWW-Authenticate header of the response
  closed : Bool                    -- the server closes the connection after writing the response
deriving DecidableEq, Repr, Inhabited

/-- `handleRequestOuter` after the handler returned `(status, err)`: `handleAuthError`, then the
response is written, then a non-nil error ends the reader loop and `run` closes the socket -/
def handleOuter (methods : List VerifyMethod) (c : Conn) (authz : List Bytes) (status : Nat)
    (err : HandlerErr) : Outcome :=
  match err with
  | .none => { status, www := none, closed := false }
  | .other => { status, www := none, closed := true }
  | .auth =>
    if credentialsProvided authz then { status, www := none, closed := true }
    else { status, www := some (generateWWW (some methods) serverAuthRealm c.nonce), closed := false }

/-- the handler of examples/server-auth: `VerifyCredentials` and, when it fails,
`(401, liberrors.ErrServerAuth{})`, else 200 -/
def authHandler (H : Hashes) (methods : List VerifyMethod) (c : Conn) (fresh : Option Bytes)
    (req : Req) (user pass : Bytes) : Conn × Nat × HandlerErr :=
  let (c', ok) := verifyCredentials H methods c fresh req user pass
  if ok then (c', 200, .none) else (c', 401, .auth)

/-- one request on a connection served with `authHandler` -/
def serve (H : Hashes) (methods : List VerifyMethod) (user pass : Bytes) (c : Conn)
    (fresh : Option Bytes) (req : Req) : Conn × Outcome :=
  let (c', status, err) := authHandler H methods c fresh req user pass
  let o := handleOuter methods c' req.authz status err
  ({ c' with closed := c'.closed || o.closed }, o)

/-! ## client.go: `Client.do` -/

/-- what the client knows of a response -/
structure Resp where
  status : Nat
  www    : List Bytes
deriving DecidableEq, Repr, Inhabited

/-- the server of `serve` as a client sees it (status 0 = no response: the connection is gone) -/
def serveResp (H : Hashes) (methods : List VerifyMethod) (user pass : Bytes) (fresh : Option Bytes)
    (c : Conn) (rq : Req) : Conn × Resp :=
  if c.closed then (c, { status := 0, www := [] })
  else
    let (c', o) := serve H methods user pass c fresh rq
    (c', { status := o.status, www := o.www.getD [] })

/-- the request as the client holds it: method, the URL's three renderings and its credentials
(`URL.User`, `none` = nil) -/
structure ClientReq where
  method : Bytes
  urlStr : Bytes                      -- URL without credentials = what goes on the wire
  urlReq : Bytes
  cred   : Option (Bytes × Bytes)
deriving DecidableEq, Repr, Inhabited

inductive DoResult
  | resp (r : Resp)
  | authSetupError                    -- liberrors.ErrClientAuthSetup
deriving DecidableEq, Repr, Inhabited

/-- the wire request for a client request and the client's current sender -/
def wireReq (H : Hashes) (sender : Option (Authenticate × Bytes × Bytes)) (r : ClientReq) : Req :=
  { method := r.method, urlStr := r.urlStr, urlReq := r.urlReq,
    authz := match sender with
      | none => []
      | some (ch, u, p) => addAuthorization H ch u p r.method r.urlStr }

/-- `Client.do` against a server given as a state machine `srv`.  Returns the new server state,
the new sender, the wire requests sent (in order) and the result.  The recursion of the Go code
(`return c.do(req, skipResponse)`) is at most one level deep because the guard requires
`c.sender == nil` and the recursive call is made with `c.sender` set. -/
def clientDo {σ : Type} (H : Hashes) (srv : σ → Req → σ × Resp) (s : σ)
    (sender : Option (Authenticate × Bytes × Bytes)) (r : ClientReq) :
    σ × Option (Authenticate × Bytes × Bytes) × List Req × DoResult :=
  let w1 := wireReq H sender r
  let (s1, res1) := srv s w1
  if res1.status = 401 ∧ r.cred.isSome ∧ sender.isNone then
    match r.cred with
    | none => (s1, sender, [w1], .resp res1)
    | some (u, p) =>
      match senderInit res1.www with
      | none => (s1, sender, [w1], .authSetupError)
      | some ch =>
        let sender' := some (ch, u, p)
        let w2 := wireReq H sender' r
        let (s2, res2) := srv s1 w2
        (s2, sender', [w1, w2], .resp res2)
  else (s1, sender, [w1], .resp res1)

end Rtsp.Auth
