import Rtsp.Model.Chunk
/-
Model of the HTTP-tunnel byte carrier:
* `encode`  = `base64.StdEncoding.EncodeToString` (what `clientTunnelHTTP.Write` sends per write),
* `decodeGo` = `base64.StdEncoding.DecodeString` exactly as `encoding/base64` behaves (non-strict
  padded encoding: `\r` and `\n` are skipped, padding ends the input, trailing garbage is an error),
* `b64run`  = `/repo/internal/base64streamreader/reader.go` (`predec` / `postdec`, truncation to
  whole quanta, cut after the first `=` / `==`), run until the underlying reader is exhausted.

Core Lean only.
-/
namespace Rtsp.Frame

def PAD : UInt8 := 61   -- '='

/-- the standard alphabet, sextet → character -/
def alphabet (s : Nat) : UInt8 :=
  if s < 26 then (65 + s).toUInt8
  else if s < 52 then (97 + (s - 26)).toUInt8
  else if s < 62 then (48 + (s - 52)).toUInt8
  else if s = 62 then 43 else 47

/-- `enc.decodeMap` (`none` = 0xff) -/
def decodeMap (c : UInt8) : Option Nat :=
  if 65 ≤ c ∧ c ≤ 90 then some (c.toNat - 65)
  else if 97 ≤ c ∧ c ≤ 122 then some (c.toNat - 97 + 26)
  else if 48 ≤ c ∧ c ≤ 57 then some (c.toNat - 48 + 52)
  else if c = 43 then some 62
  else if c = 47 then some 63
  else none

/-- `EncodeToString` -/
def encode : Bytes → Bytes
  | [] => []
  | [a] => [alphabet (a.toNat / 4), alphabet (a.toNat % 4 * 16), PAD, PAD]
  | [a, b] => [alphabet (a.toNat / 4), alphabet (a.toNat % 4 * 16 + b.toNat / 16), alphabet (b.toNat % 16 * 4), PAD]
  | a :: b :: c :: r =>
    alphabet (a.toNat / 4) :: alphabet (a.toNat % 4 * 16 + b.toNat / 16) ::
    alphabet (b.toNat % 16 * 4 + c.toNat / 64) :: alphabet (c.toNat % 64) :: encode r

def isNL (c : UInt8) : Bool := c = 10 || c = 13

def skipNL : Bytes → Bytes
  | [] => []
  | c :: r => if isNL c then skipNL r else c :: r

/-- the bytes a quantum with sextets `s0 s1 s2 s3` stands for -/
def quantumBytes (s0 s1 s2 s3 : Nat) : Bytes :=
  [(s0 * 4 + s1 / 16).toUInt8, (s1 % 16 * 16 + s2 / 4).toUInt8, (s2 % 4 * 64 + s3).toUInt8]

/-- `Encoding.Decode` for `StdEncoding` (a sequence of `decodeQuantum` calls); `sx` = sextets of
the current quantum read so far.  `none` = any `CorruptInputError`. -/
def decodeGo : List Nat → Bytes → Option Bytes
  | sx, [] => if sx = [] then some [] else none
  | sx, c :: r =>
    match decodeMap c with
    | some v =>
      match sx with
      | [s0, s1, s2] => (decodeGo [] r).map (quantumBytes s0 s1 s2 v ++ ·)
      | _ => decodeGo (sx ++ [v]) r
    | none =>
      if isNL c then decodeGo sx r
      else if c ≠ PAD then none
      else match sx with
        | [s0, s1] =>
          match skipNL r with
          | [] => none
          | c2 :: r2 =>
            if c2 ≠ PAD then none
            else if skipNL r2 = [] then some ((quantumBytes s0 s1 0 0).take 1) else none
        | [s0, s1, s2] =>
          if skipNL r = [] then some ((quantumBytes s0 s1 s2 0).take 2) else none
        | _ => none

/-- `DecodeString` -/
def decodeString (s : Bytes) : Option Bytes := decodeGo [] s

/-- prefix up to and including the first `=` (and an immediately following `=`) -/
def cutPad : Bytes → Bytes
  | [] => []
  | c :: r =>
    if c = PAD then
      match r with
      | c2 :: _ => if c2 = PAD then [c, c2] else [c]
      | [] => [c]
    else c :: cutPad r

/-- the `todec` of one loop iteration of `reader.Read` -/
def todec (predec : Bytes) : Bytes := cutPad (predec.take (predec.length / 4 * 4))

/-- decode while `predec` yields a non-empty `todec`; result: bytes delivered, and the remaining
`predec` (`none` after a decode error).  `fuel ≥ predec.length`. -/
def b64drain : Nat → Bytes → Bytes × Option Bytes
  | 0, p => ([], some p)
  | f + 1, p =>
    let t := todec p
    if t = [] then ([], some p)
    else match decodeString t with
      | none => ([], none)
      | some o => let r := b64drain f (p.drop t.length); (o ++ r.1, r.2)

/-- the stream the reader delivers when the underlying reader returns `reads` and then EOF -/
def b64run : Bytes → List Bytes → Bytes × End
  | p, [] =>
    let r := b64drain p.length p
    (r.1, if r.2.isSome then .eof else .err)
  | p, c :: cs =>
    let r := b64drain (p ++ c).length (p ++ c)
    match r.2 with
    | none => (r.1, .err)
    | some p' => let t := b64run p' cs; (r.1 ++ t.1, t.2)

/-- the server side of the HTTP tunnel: `conn.Conn` over `bufio.Reader` over the base64 stream reader -/
def tunnelRead (up : Bytes → Option Bytes) (reads : List Bytes) : List Elem × End :=
  let d := b64run [] reads
  let r := parseAll up d.1
  (r.1, if r.2 = .err ∨ d.2 = .err then .err else .eof)

end Rtsp.Frame
