import Rtsp.Model.Hex
/-
SHA-256 (FIPS 180-4) on `UInt32` arithmetic, core Lean only.  Used by the `oracle_auth` driver;
checked differentially against Go's `crypto/sha256` on every correspondence case.
-/
namespace Rtsp.Sha256

def K : Array UInt32 := #[
  0x428a2f98, 0x71374491, 0xb5c0fbcf, 0xe9b5dba5, 0x3956c25b, 0x59f111f1, 0x923f82a4, 0xab1c5ed5,
  0xd807aa98, 0x12835b01, 0x243185be, 0x550c7dc3, 0x72be5d74, 0x80deb1fe, 0x9bdc06a7, 0xc19bf174,
  0xe49b69c1, 0xefbe4786, 0x0fc19dc6, 0x240ca1cc, 0x2de92c6f, 0x4a7484aa, 0x5cb0a9dc, 0x76f988da,
  0x983e5152, 0xa831c66d, 0xb00327c8, 0xbf597fc7, 0xc6e00bf3, 0xd5a79147, 0x06ca6351, 0x14292967,
  0x27b70a85, 0x2e1b2138, 0x4d2c6dfc, 0x53380d13, 0x650a7354, 0x766a0abb, 0x81c2c92e, 0x92722c85,
  0xa2bfe8a1, 0xa81a664b, 0xc24b8b70, 0xc76c51a3, 0xd192e819, 0xd6990624, 0xf40e3585, 0x106aa070,
  0x19a4c116, 0x1e376c08, 0x2748774c, 0x34b0bcb5, 0x391c0cb3, 0x4ed8aa4a, 0x5b9cca4f, 0x682e6ff3,
  0x748f82ee, 0x78a5636f, 0x84c87814, 0x8cc70208, 0x90befffa, 0xa4506ceb, 0xbef9a3f7, 0xc67178f2]

def rotr (x n : UInt32) : UInt32 := (x >>> n) ||| (x <<< (32 - n))

def beWord (a b c d : UInt8) : UInt32 :=
  (a.toUInt32 <<< 24) ||| (b.toUInt32 <<< 16) ||| (c.toUInt32 <<< 8) ||| d.toUInt32

def beBytes (w : UInt32) : List UInt8 :=
  [(w >>> 24).toUInt8, (w >>> 16).toUInt8, (w >>> 8).toUInt8, w.toUInt8]

def words : List UInt8 → List UInt32
  | a :: b :: c :: d :: rest => beWord a b c d :: words rest
  | _ => []

/-- 64-bit big-endian length in bits -/
def lenBytes (n : Nat) : List UInt8 :=
  ((List.range 8).map fun i => UInt8.ofNat ((n * 8 / 256 ^ i) % 256)).reverse

def pad (msg : List UInt8) : List UInt8 :=
  let n := msg.length
  msg ++ [0x80] ++ List.replicate ((119 - n % 64) % 64) 0 ++ lenBytes n

/-- message schedule: extend 16 words to 64 -/
def schedule (w : Array UInt32) : Array UInt32 :=
  (List.range 48).foldl (fun w j =>
    let i := j + 16
    let w15 := w[i - 15]!
    let w2 := w[i - 2]!
    let s0 := rotr w15 7 ^^^ rotr w15 18 ^^^ (w15 >>> 3)
    let s1 := rotr w2 17 ^^^ rotr w2 19 ^^^ (w2 >>> 10)
    w.push (w[i - 16]! + s0 + w[i - 7]! + s1)) w

structure St where
  a : UInt32
  b : UInt32
  c : UInt32
  d : UInt32
  e : UInt32
  f : UInt32
  g : UInt32
  h : UInt32

def round (w : Array UInt32) (s : St) (i : Nat) : St :=
  let s1 := rotr s.e 6 ^^^ rotr s.e 11 ^^^ rotr s.e 25
  let ch := (s.e &&& s.f) ^^^ (~~~s.e &&& s.g)
  let t1 := s.h + s1 + ch + K[i]! + w[i]!
  let s0 := rotr s.a 2 ^^^ rotr s.a 13 ^^^ rotr s.a 22
  let maj := (s.a &&& s.b) ^^^ (s.a &&& s.c) ^^^ (s.b &&& s.c)
  let t2 := s0 + maj
  { h := s.g, g := s.f, f := s.e, e := s.d + t1, d := s.c, c := s.b, b := s.a, a := t1 + t2 }

def block (s : St) (m : Array UInt32) : St :=
  let w := schedule m
  let t := (List.range 64).foldl (round w) s
  { a := s.a + t.a, b := s.b + t.b, c := s.c + t.c, d := s.d + t.d,
    e := s.e + t.e, f := s.f + t.f, g := s.g + t.g, h := s.h + t.h }

def blocks (fuel : Nat) (s : St) (ws : List UInt32) : St :=
  match fuel with
  | 0 => s
  | fuel + 1 =>
    if ws.isEmpty then s
    else blocks fuel (block s (ws.take 16).toArray) (ws.drop 16)

def sum (msg : List UInt8) : List UInt8 :=
  let ws := words (pad msg)
  let s := blocks (ws.length / 16 + 1)
    { a := 0x6a09e667, b := 0xbb67ae85, c := 0x3c6ef372, d := 0xa54ff53a,
      e := 0x510e527f, f := 0x9b05688c, g := 0x1f83d9ab, h := 0x5be0cd19 } ws
  beBytes s.a ++ beBytes s.b ++ beBytes s.c ++ beBytes s.d ++
  beBytes s.e ++ beBytes s.f ++ beBytes s.g ++ beBytes s.h

/-- Go `sha256Hex` -/
def hex (msg : List UInt8) : List UInt8 := Hex.encode (sum msg)

end Rtsp.Sha256
