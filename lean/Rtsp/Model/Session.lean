import Rtsp.Spec.Rfc2326
import Rtsp.Generated.Facts.Sess
/-
Executable model of the control skeleton of gortsplib's server (property C02):

  server_conn.go     handleRequestInner / handleRequestInSession / handleRequestOuter, run()'s tail
  server.go          findOrCreateSession (incl. the author-IP rule), closeSession
  server_session.go  handleRequestInner per method, runInner's request post-processing and
                     chRemoveConn rule, run()'s tail (closing the associated connections)
  server_conn_reader.go  "an error ends the read loop" (the connection is closed after the response)

What is abstracted: URLs are (path id, track id); SDP / Transport / Content-Type parsing is an input
flag (valid / invalid, number of medias); the application handler's answer (status, error or not)
is an input of every request; secure (SAVP) transports are never supported because the modelled
server has no TLS configuration.  Core Lean only.
-/
namespace Rtsp.Sess
open Rtsp.Rfc2326 Rtsp.Facts

abbrev Method := Rfc2326.Meth
abbrev SState := Rfc2326.St

inductive Proto
  | udp | mcast | tcp
  deriving DecidableEq, Repr, Inhabited

/-- One alternative of a Transport header. -/
structure TrAlt where
  proto : Proto
  secure : Bool := false
  /-- 0 = no mode, 1 = play, 2 = record -/
  mode : Nat := 0
  /-- client_port present -/
  ports : Bool := true
  /-- which client port pair (an abstract identifier; only equality matters) -/
  port : Nat := 0
  /-- 0 = no interleaved ids, 1 = (ilA, ilA+1); not a pair of consecutive channels: 2 = (ilA, ilA+2),
  3 = (ilA, ilA), 4 = (ilA+1, ilA) -/
  il : Nat := 0
  ilA : Nat := 0
  deriving Repr, Inhabited, DecidableEq

/-- Which optional handler interfaces the application implements. -/
structure Handlers where
  describe : Bool := true
  announce : Bool := true
  setup : Bool := true
  play : Bool := true
  record : Bool := true
  pause : Bool := true
  getParameter : Bool := true
  setParameter : Bool := true
  deriving Repr, Inhabited, DecidableEq

structure Config where
  h : Handlers := {}
  /-- UDPRTPAddress / UDPRTCPAddress configured -/
  udp : Bool := true
  /-- MulticastIPRange configured -/
  mcast : Bool := false
  /-- medias of the stream the application serves -/
  nMedias : Nat := 2
  deriving Repr, Inhabited

/-- Session header of a request. -/
inductive SidRef
  | none | wrong | id (n : Nat)
  deriving DecidableEq, Repr, Inhabited

structure Request where
  method : Method
  cseq : Option Nat := some 1
  /-- the request URL is `*` -/
  star : Bool := false
  sid : SidRef := .none
  path : Nat := 0
  /-- SETUP: `…/trackID=n`; `none` = neither trackID nor trailing slash -/
  track : Option Nat := some 0
  /-- Transport header; `none` = missing or unparsable -/
  trs : Option (List TrAlt) := some []
  /-- ANNOUNCE: Content-Type 0 = missing, 1 = application/sdp, 2 = something else -/
  ct : Nat := 1
  sdpOk : Bool := true
  nAnn : Nat := 1
  /-- what the application handler answers if it is called -/
  hStatus : Nat := 200
  hErr : Bool := false
  /-- filled in by the connection level (`portBusy`): the chosen UDP client port is already used by
  another reader of the stream coming from the same address (`ServerStream.readerAdd`) -/
  portBusy : Bool := false
  deriving Repr, Inhabited

/-- The `error` a request ends with: none, `switchReadFuncError{tcp}`, or a real error. -/
inductive Err
  | none | sw (tcp : Bool) | fail
  deriving DecidableEq, Repr, Inhabited

structure Resp where
  status : Nat
  err : Err := .none
  /-- id carried by the Session header of the response -/
  sessHdr : Option Nat := none
  /-- interleaved channel in the Transport header of a successful TCP SETUP -/
  chan : Option Nat := none
  cseq : Option Nat := none
  /-- `Public` header of an OPTIONS response -/
  pub : Option (List Method) := none
  deriving Repr, Inhabited, DecidableEq

structure Session where
  id : Nat
  authorIp : Nat
  conns : List Nat
  state : SState := .initial
  transport : Option Proto := none
  /-- setupped medias in order (track index) -/
  medias : List Nat := []
  /-- `tcpChannel` of each setupped media -/
  chans : List Nat := []
  /-- `udpRTPReadPort` of each setupped media (UDP only) -/
  udpPorts : List Nat := []
  path : Nat := 0
  nAnn : Nat := 0
  tcpConn : Option Nat := none
  deriving Repr, Inhabited

structure Conn where
  id : Nat
  ip : Nat
  sess : Option Nat := none
  /-- the reader runs `readFuncTCP` (interleaved frames are accepted) rather than `readFuncStandard` -/
  tcpMode : Bool := false
  /-- a read deadline is pending on the connection (`nconn.SetReadDeadline`): a silent client is
  disconnected when it expires -/
  hasDeadline : Bool := true
  deriving Repr, Inhabited

inductive Ev
  | sessOpen (id : Nat) | sessClose (id : Nat)
  deriving DecidableEq, Repr

structure Server where
  conns : List Conn := []
  sessions : List Session := []
  nextSid : Nat := 0
  log : List Ev := []
  deriving Repr, Inhabited

def ok : Nat := Sess.statusOK
def badRequest : Nat := Sess.statusBadRequest

def hErrOf (r : Request) : Err := if r.hErr then .fail else .none

def bad (ss : Session) : Session × Resp := (ss, { status := badRequest, err := .fail })

/-! ## server_session.go -/

/-- `isTransportSupported` for a plain (non-TLS, non-tunnelled) connection. -/
def trSupported (cfg : Config) (t : TrAlt) : Bool :=
  !t.secure && (match t.proto with
    | .udp => cfg.udp
    | .mcast => cfg.mcast
    | .tcp => true)

/-- `pickFirstSupportedTransport` -/
def pickTransport (cfg : Config) (ts : List TrAlt) : Option TrAlt := ts.find? (trSupported cfg)

/-- `isChannelPairInUse` -/
def chanInUse (chans : List Nat) (ch : Nat) : Bool :=
  chans.any fun t => t + 1 == ch || t == ch || t == ch + 1

/-- `findFreeChannelPair`: even channels 0, 2, …; `fuel` bounds the search (every setupped media
blocks at most two even channels, so `2·n + 1` candidates are enough). -/
def findFreeFrom (chans : List Nat) : Nat → Nat → Nat
  | 0, i => i
  | fuel + 1, i => if chanInUse chans i then findFreeFrom chans fuel (i + 2) else i

def findFreeChan (chans : List Nat) : Nat := findFreeFrom chans (2 * chans.length + 1) 0

def isStreaming (s : SState) : Bool := s == .play || s == .record

/-- the `Public` header: what the application's handler subset lets the server do -/
def publicMethods (h : Handlers) : List Method :=
  (if h.describe then [Meth.describe] else []) ++ (if h.announce then [Meth.announce] else []) ++
  (if h.setup then [Meth.setup] else []) ++ (if h.play then [Meth.play] else []) ++
  (if h.record then [Meth.record] else []) ++ (if h.pause then [Meth.pause] else []) ++
  [Meth.getParameter] ++ (if h.setParameter then [Meth.setParameter] else []) ++ [Meth.teardown]

def doOptions (cfg : Config) (ss : Session) : Session × Resp :=
  (ss, { status := ok, pub := some (publicMethods cfg.h) })

def doAnnounce (ss : Session) (r : Request) : Session × Resp :=
  if ss.state != .initial then bad ss
  else if r.ct != 1 then bad ss
  else if !r.sdpOk || r.nAnn == 0 then bad ss
  else if r.hStatus == ok then
    ({ ss with state := .preRecord, path := r.path, nAnn := r.nAnn }, { status := ok, err := hErrOf r })
  else (ss, { status := r.hStatus, err := hErrOf r })

def badResp : Resp := { status := badRequest, err := .fail }

/-- SETUP: the checks between the choice of the transport and the `OnSetup` call, in the order of
the code; `some res` = refused with that response. -/
def setupChecks (ss : Session) (r : Request) (t : TrAlt) : Option Resp :=
  let isRec := ss.state == .preRecord
  if !isRec && r.track.isNone then some badResp                        -- getPathAndQueryAndTrackID
  else if ss.state == .prePlay && r.path != ss.path then some badResp   -- ErrServerMediasDifferentPaths
  else if ss.transport.isSome && ss.transport != some t.proto then some badResp
  else if t.proto == .udp && !t.ports then some badResp
  else if t.proto == .tcp && decide (2 ≤ t.il) then some badResp   -- ids[0] + 1 ≠ ids[1]
  else if t.proto == .tcp && t.il == 1 && chanInUse ss.chans t.ilA then some badResp
  else if !isRec && t.mode == 2 then some badResp
  else if isRec && t.proto == .mcast then some { status := Sess.statusUnsupportedTransport }
  else if isRec && t.mode != 2 then some badResp
  else none

/-- SETUP: does the request URL name a media?  Readers: `findMediaByTrackID` in the stream's
description; publishers: `findMediaByURL` in the announced description. -/
def mediaFound (cfg : Config) (ss : Session) (r : Request) (i : Nat) : Bool :=
  if ss.state == .preRecord then r.path == ss.path && i < ss.nAnn else i < cfg.nMedias

/-- SETUP: `tcpChannel` of the new media (0 for UDP / multicast) -/
def tcpChan (ss : Session) (t : TrAlt) : Nat :=
  if t.proto == .tcp then (if t.il == 1 then t.ilA else findFreeChan ss.chans) else 0

/-- SETUP after `OnSetup` answered 200: media lookup and bookkeeping. -/
def setupMedia (cfg : Config) (ss : Session) (r : Request) (t : TrAlt) : Session × Resp :=
  match r.track with
  | none => bad ss        -- record: the URL matches no announced media
  | some i =>
    if !mediaFound cfg ss r i then bad ss
    else if ss.medias.contains i then bad ss
    else if ss.state == .initial && t.proto == .udp && r.portBusy then bad ss   -- ErrServerUDPPortsAlreadyInUse
    else
      ({ ss with
          transport := some t.proto
          medias := ss.medias ++ [i]
          chans := ss.chans ++ [tcpChan ss t]
          udpPorts := if t.proto == .udp then ss.udpPorts ++ [t.port] else ss.udpPorts
          state := if ss.state == .initial then .prePlay else ss.state
          path := if ss.state == .initial then r.path else ss.path },
       -- the handler's error survives only in `prePlay`: in the other two states the variable
       -- is overwritten (`err = stream.readerAdd(…)`, `localSSRCs, err = generateLocalSSRCs(…)`)
       { status := ok, err := if ss.state == .prePlay then hErrOf r else .none,
         chan := if t.proto == .tcp then some (tcpChan ss t) else none })

def doSetup (cfg : Config) (ss : Session) (r : Request) : Session × Resp :=
  if !(ss.state == .initial || ss.state == .prePlay || ss.state == .preRecord) then bad ss
  else match r.trs with
  | none => bad ss
  | some ts =>
    match pickTransport cfg ts with
    | none => (ss, { status := Sess.statusUnsupportedTransport })
    | some t =>
      match setupChecks ss r t with
      | some res => (ss, res)
      | none =>
        if r.hStatus != ok then (ss, { status := r.hStatus, err := hErrOf r })
        else setupMedia cfg ss r t

/-- On the transition into play / record the handler's error is overwritten by the result of the
`for _, sm := range ss.setuppedMedias { err = sm.start() … }` loop (nil), if there is a media. -/
def startErr (ss : Session) (r : Request) : Err := if ss.medias.isEmpty then hErrOf r else .none

def doPlay (ss : Session) (c : Nat) (r : Request) : Session × Resp :=
  if !(ss.state == .prePlay || ss.state == .play) then bad ss
  else if ss.state == .prePlay && r.path != ss.path then bad ss
  else if r.hStatus != ok then (ss, { status := r.hStatus, err := hErrOf r })
  else if ss.state == .play then (ss, { status := ok, err := hErrOf r })
  else if ss.transport == some .tcp then
    ({ ss with state := .play, tcpConn := some c }, { status := ok, err := .sw true })
  else ({ ss with state := .play }, { status := ok, err := startErr ss r })

def doRecord (ss : Session) (c : Nat) (r : Request) : Session × Resp :=
  if ss.state != .preRecord then bad ss
  else if ss.medias.length != ss.nAnn then bad ss
  else if r.path != ss.path then bad ss
  else if r.hStatus != ok then (ss, { status := r.hStatus, err := hErrOf r })
  else if ss.transport == some .udp then ({ ss with state := .record }, { status := ok, err := startErr ss r })
  else ({ ss with state := .record, tcpConn := some c }, { status := ok, err := .sw true })

def doPause (ss : Session) (r : Request) : Session × Resp :=
  if ss.state == .initial then bad ss
  else if r.hStatus != ok then (ss, { status := r.hStatus, err := hErrOf r })
  else match ss.state with
    | .play =>
      if ss.transport == some .udp || ss.transport == some .mcast then
        ({ ss with state := .prePlay }, { status := ok, err := hErrOf r })
      else ({ ss with state := .prePlay, tcpConn := none }, { status := ok, err := .sw false })
    | .record =>
      if ss.transport == some .udp then
        ({ ss with state := .preRecord }, { status := ok, err := hErrOf r })
      else ({ ss with state := .preRecord, tcpConn := none }, { status := ok, err := .sw false })
    | _ => (ss, { status := ok, err := hErrOf r })

def doTeardown (ss : Session) : Session × Resp :=
  (ss, { status := ok, err := if isStreaming ss.state && ss.transport == some .tcp then .sw false else .none })

def doGetParameter (cfg : Config) (ss : Session) (r : Request) : Session × Resp :=
  if cfg.h.getParameter then (ss, { status := r.hStatus, err := hErrOf r }) else (ss, { status := ok })

def doSetParameter (cfg : Config) (ss : Session) (r : Request) : Session × Resp :=
  if cfg.h.setParameter then (ss, { status := r.hStatus, err := hErrOf r })
  else (ss, { status := Sess.statusNotImplemented })

/-- `ServerSession.handleRequestInner` -/
def sessInner (cfg : Config) (ss : Session) (c : Nat) (r : Request) : Session × Resp :=
  if ss.tcpConn.isSome && ss.tcpConn != some c then bad ss
  else match r.method with
    | .options => doOptions cfg ss
    | .announce => doAnnounce ss r
    | .setup => doSetup cfg ss r
    | .play => doPlay ss c r
    | .record => doRecord ss c r
    | .pause => doPause ss r
    | .teardown => doTeardown ss
    | .getParameter => doGetParameter cfg ss r
    | .setParameter => doSetParameter cfg ss r
    | .describe => (ss, { status := Sess.statusNotImplemented })

def addConn (conns : List Nat) (c : Nat) : List Nat := if conns.contains c then conns else conns ++ [c]

/-- Result of the `chHandleRequest` case of `ServerSession.runInner`: the session afterwards, the
response, and whether the session ends (successful TEARDOWN). -/
structure SessOut where
  ss : Session
  res : Resp
  ended : Bool
  deriving Repr

def sessHandle (cfg : Config) (ss : Session) (c : Nat) (r : Request) : SessOut :=
  let ss1 := { ss with conns := addConn ss.conns c }
  let (ss2, res) := sessInner cfg ss1 c r
  if res.err != .fail then
    let res' := if r.method != .announce && r.method != .teardown then { res with sessHdr := some ss.id } else res
    if r.method == .teardown then
      { ss := { ss2 with conns := ss2.conns.erase c }, res := res', ended := true }
    else { ss := ss2, res := res', ended := false }
  else { ss := ss2, res := res, ended := false }

/-- the `chRemoveConn` rule of `runInner`: the session ends when it is not streaming, or streams
over TCP, and no connection is left. -/
def endsWhenUnused (ss : Session) : Bool :=
  (!isStreaming ss.state || ss.transport == some .tcp) && ss.conns.isEmpty

/-! ## server.go / server_conn.go -/

def findSession (srv : Server) (id : Nat) : Option Session := srv.sessions.find? (·.id == id)
def findConn (srv : Server) (c : Nat) : Option Conn := srv.conns.find? (·.id == c)

def putSession (srv : Server) (ss : Session) : Server :=
  { srv with sessions := srv.sessions.map fun x => if x.id == ss.id then ss else x }

def setConnSess (srv : Server) (c : Nat) (s : Option Nat) : Server :=
  { srv with conns := srv.conns.map fun x => if x.id == c then { x with sess := s } else x }

/-- `ServerSession.run()` after `runInner` returned: every connection still associated with the
session is closed, the session is removed and `OnSessionClose` is called. -/
def endSession (srv : Server) (sid : Nat) : Server :=
  match findSession srv sid with
  | none => srv
  | some ss =>
    { srv with
        sessions := srv.sessions.filter (·.id != sid)
        conns := srv.conns.filter fun cn => !ss.conns.contains cn.id
        log := srv.log ++ [.sessClose sid] }

/-- `ServerConn.run()` after `runInner` returned (read error, client close, or error response):
the connection is dropped and removed from its session; the session applies its rule. -/
def closeConn (srv : Server) (c : Nat) : Server :=
  match findConn srv c with
  | none => srv
  | some cn =>
    let srv1 := { srv with conns := srv.conns.filter (·.id != c) }
    match cn.sess with
    | none => srv1
    | some sid =>
      match findSession srv1 sid with
      | none => srv1
      | some ss =>
        let ss' := { ss with conns := ss.conns.erase c }
        let srv2 := putSession srv1 ss'
        if endsWhenUnused ss' then endSession srv2 sid else srv2

/-- `ServerStream.readerAdd` (first SETUP of a reader, UDP): is the client's RTP port already used
by another reader of the stream that comes from the same address? -/
def portBusy (cfg : Config) (srv : Server) (ss : Session) (r : Request) : Bool :=
  match r.trs with
  | none => false
  | some ts =>
    match pickTransport cfg ts with
    | none => false
    | some t =>
      t.proto == .udp && srv.sessions.any fun s =>
        s.id != ss.id && (s.state == .prePlay || s.state == .play) && s.transport == some .udp &&
          s.authorIp == ss.authorIp && s.udpPorts.contains t.port

def errResp (status : Nat) : Resp := { status := status, err := .fail }

def runInSessionWith (cfg : Config) (srv : Server) (c : Nat) (ss : Session) (r : Request) : Server × Resp :=
  let o := sessHandle cfg ss c r
  let srv1 := putSession srv o.ss
  if o.ended then (endSession (setConnSess srv1 c none) ss.id, o.res)
  else (setConnSess srv1 c (some ss.id), o.res)

/-- the part of `handleRequestInSession` after the session was determined; what the session needs
to know about the other sessions (`portBusy`) is handed to it with the request -/
def runInSession (cfg : Config) (srv : Server) (c : Nat) (ss : Session) (r : Request) : Server × Resp :=
  runInSessionWith cfg srv c ss { r with portBusy := portBusy cfg srv ss r }

def lookupSid (srv : Server) : SidRef → Option Session
  | .id n => findSession srv n
  | _ => none

/-- `handleRequestInSession` + `findOrCreateSession` -/
def inSession (cfg : Config) (srv : Server) (cn : Conn) (r : Request) (create : Bool) : Server × Resp :=
  match cn.sess with
  | none =>
    match lookupSid srv r.sid with
    | some ss =>
      if ss.authorIp != cn.ip then (srv, errResp badRequest) else runInSession cfg srv cn.id ss r
    | none =>
      if !create then (srv, errResp Sess.statusSessionNotFound)
      else
        let ss : Session := { id := srv.nextSid, authorIp := cn.ip, conns := [cn.id] }
        let srv1 := { srv with sessions := srv.sessions ++ [ss], nextSid := srv.nextSid + 1,
                               log := srv.log ++ [.sessOpen ss.id] }
        runInSession cfg srv1 cn.id ss r
  | some cur =>
    if r.sid != .none && r.sid != .id cur then (srv, errResp badRequest)
    else match findSession srv cur with
      | none => (srv, errResp badRequest)   -- unreachable: a connection never points to a dead session
      | some ss => runInSession cfg srv cn.id ss r

def notImplemented (srv : Server) : Server × Resp := (srv, { status := Sess.statusNotImplemented })

/-- `ServerConn.handleRequestInner` -/
def connInner (cfg : Config) (srv : Server) (cn : Conn) (r : Request) : Server × Resp :=
  if r.cseq.isNone then (srv, errResp badRequest)
  else if r.method != .options && r.star then (srv, errResp badRequest)
  else match r.method with
    | .options =>
      if r.sid != .none then inSession cfg srv cn r false
      else (srv, { status := ok, pub := some (publicMethods cfg.h) })
    | .describe =>
      -- with status 200 the application returns its stream: `desc, err = stream.descForDescribe(…)`
      -- overwrites the handler's error
      if cfg.h.describe then (srv, { status := r.hStatus, err := if r.hStatus == ok then .none else hErrOf r })
      else notImplemented srv
    | .announce => if cfg.h.announce then inSession cfg srv cn r true else notImplemented srv
    | .setup => if cfg.h.setup then inSession cfg srv cn r true else notImplemented srv
    | .play => if r.sid != .none && cfg.h.play then inSession cfg srv cn r false else notImplemented srv
    | .record => if r.sid != .none && cfg.h.record then inSession cfg srv cn r false else notImplemented srv
    | .pause => if r.sid != .none && cfg.h.pause then inSession cfg srv cn r false else notImplemented srv
    | .teardown => if r.sid != .none then inSession cfg srv cn r false else notImplemented srv
    | .getParameter =>
      if r.sid != .none then inSession cfg srv cn r false
      else if cfg.h.getParameter then (srv, { status := r.hStatus, err := hErrOf r })
      else notImplemented srv
    | .setParameter =>
      if r.sid != .none then inSession cfg srv cn r false
      else if cfg.h.setParameter then (srv, { status := r.hStatus, err := hErrOf r })
      else notImplemented srv

/-- `serverConnReader.runInner`: a `switchReadFuncError` selects the read function -/
def setMode (srv : Server) (c : Nat) : Err → Server
  | .sw b => { srv with conns := srv.conns.map fun x => if x.id == c then { x with tcpMode := b } else x }
  | _ => srv

/-- The read deadline a connection gets at the top of its read loop: `readFuncTCP` always sets one;
`readFuncStandard` sets one unless the connection's session is recording over UDP (FFmpeg sends no
keep-alives while it records; that session ends by its stream timeout and takes the connection
with it). -/
def deadlineRule (srv : Server) (x : Conn) : Bool :=
  x.tcpMode || !(match x.sess with
    | none => false
    | some sid =>
      match findSession srv sid with
      | none => false
      | some ss => ss.state == .record && ss.transport == some .udp)

/-- was this session moved from record to pre-record by the request (PAUSE)?  The session then
restores the read deadline of every connection attached to it. -/
def pausedFromRecord (before after : Server) (sid : Option Nat) : Bool :=
  match sid with
  | none => false
  | some id =>
    match findSession before id, findSession after id with
    | some a, some b => a.state == .record && b.state == .preRecord
    | _, _ => false

/-- read deadlines after a request on connection `c` was answered without error -/
def arm (before srv : Server) (c : Nat) : Server :=
  { srv with conns := srv.conns.map fun x =>
      if x.id == c then { x with hasDeadline := deadlineRule srv x }
      else if pausedFromRecord before srv x.sess then { x with hasDeadline := true }
      else x }

/-- `handleRequestOuter` + the reader's reaction to its result: the response carries the request's
CSeq (unless it was missing); a real error closes the connection after the response; a
`switchReadFuncError` switches between the standard and the interleaved read loop; the read loop
goes round and sets the next read deadline. -/
def handleRequest (cfg : Config) (srv : Server) (cn : Conn) (r : Request) : Server × Resp :=
  let (srv1, res) := connInner cfg srv cn r
  let res' := { res with cseq := r.cseq }
  -- (the session restores the deadlines of its connections inside the PAUSE handler, whatever the
  -- handler's error: `arm` comes first in both branches)
  if res.err == .fail then (closeConn (arm srv srv1 cn.id) cn.id, res')
  else (arm srv (setMode srv1 cn.id res.err) cn.id, res')

/-- something that is not a request arrives on a connection: an RTSP response always ends the read
loop (`ErrServerUnexpectedResponse`), an interleaved frame does so in the standard read loop
(`ErrServerUnexpectedFrame`) and is consumed in the interleaved one -/
def nonRequest (srv : Server) (c : Nat) (isFrame : Bool) : Server :=
  match findConn srv c with
  | none => srv
  | some cn => if isFrame && cn.tcpMode then srv else closeConn srv c

/-- Every peer is silent for longer than all timeouts: the connections that have a read deadline
are closed when it expires, and the sessions that stream over UDP / multicast are ended by their
stream check (which closes the connections attached to them).  What is left afterwards would stay
for ever. -/
def silence (srv : Server) : Server :=
  let s1 := (srv.conns.filter (·.hasDeadline)).foldl (fun s cn => closeConn s cn.id) srv
  (s1.sessions.filter fun ss => isStreaming ss.state && ss.transport != some .tcp).foldl
    (fun s ss => endSession s ss.id) s1

/-- media flows to a reader / from a publisher exactly while the session is in play / record -/
def flows (ss : Session) : Bool := isStreaming ss.state

/-! ## events -/

inductive Event
  /-- a client connects from address `ip` -/
  | open (c : Nat) (ip : Nat)
  /-- the client closes connection `c` (or its read deadline expires) -/
  | close (c : Nat)
  | req (c : Nat) (r : Request)
  /-- the session's stream check timer finds the peer silent -/
  | expire (sid : Nat)
  /-- the client sends an interleaved frame -/
  | frame (c : Nat)
  /-- the client sends an RTSP response -/
  | response (c : Nat)
  /-- every peer stays silent for longer than all timeouts -/
  | silence
  deriving Repr, Inhabited

/-- One event; the response (if any) is returned.  A request on a connection that is not open
cannot be delivered: no response. -/
def stepEv (cfg : Config) (srv : Server) : Event → Server × Option Resp
  | .open c ip =>
    if (findConn srv c).isSome then (srv, none)
    else ({ srv with conns := srv.conns ++ [{ id := c, ip := ip }] }, none)
  | .close c => (closeConn srv c, none)
  | .req c r =>
    match findConn srv c with
    | none => (srv, none)
    | some cn => let (s, res) := handleRequest cfg srv cn r; (s, some res)
  | .expire sid => (endSession srv sid, none)
  | .frame c => (nonRequest srv c true, none)
  | .response c => (nonRequest srv c false, none)
  | .silence => (silence srv, none)

def run (cfg : Config) : Server → List Event → Server × List (Option Resp)
  | srv, [] => (srv, [])
  | srv, e :: es =>
    let (s1, o) := stepEv cfg srv e
    let (s2, os) := run cfg s1 es
    (s2, o :: os)

def opened (srv : Server) : Nat := srv.log.countP fun e => match e with | .sessOpen _ => true | _ => false
def closed (srv : Server) : Nat := srv.log.countP fun e => match e with | .sessClose _ => true | _ => false

end Rtsp.Sess
