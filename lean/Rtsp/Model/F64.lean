/-
An exact model of IEEE-754 binary64 arithmetic on non-negative finite values: a double is the rational
`num / den` it denotes; every operation computes the exact rational result and rounds it to the nearest
value with a 53-bit significand, ties to even (`roundQ`).  Exponent range (overflow, subnormals) is not
modelled: all values in the modelled code lie between 2^-31 and 2^64.

Used for the two float computations of the property's code:
  pkg/rtpsender/sender.go   uint32(systemDiff.Seconds()*float64(rs.ClockRate))          (`ticks`)
  pkg/ntp/ntp.go            math.Round(float64((ntp%1000000000)*(1<<32)) / 1000000000)  (`Ntp.encFracFloat`)
The correspondence harness compares both with the real float64 results.  Core Lean only.
-/
namespace Rtsp.F64

/-- a non-negative finite double, as the exact rational `num / den` (`den` a power of two). -/
structure F where
  num : Nat
  den : Nat
deriving Repr, DecidableEq

/-- `2^e ≤ p / q` (for `q > 0`), with the power moved to the side where it is a natural number -/
def geExp (p q : Nat) (e : Int) : Bool :=
  if e ≥ 0 then q * 2 ^ e.toNat ≤ p else q ≤ p * 2 ^ (-e).toNat

/-- the binary exponent of `p / q`: `2^e ≤ p/q < 2^(e+1)`.  `log2 p - log2 q` is right or one too big. -/
def expo (p q : Nat) : Int :=
  let k : Int := (p.log2 : Int) - (q.log2 : Int)
  if geExp p q k then k else k - 1

/-- round `p / q` to a 53-bit significand at binary exponent `e` (`2^e ≤ p/q < 2^(e+1)`), ties to even:
the significand is `p/q · 2^(52-e) ∈ [2^52, 2^53)` rounded to an integer. -/
def roundAt (p q : Nat) (e : Int) : F :=
  let sh : Int := 52 - e
  let P := if sh ≥ 0 then p * 2 ^ sh.toNat else p
  let Q := if sh ≥ 0 then q else q * 2 ^ (-sh).toNat
  let m := P / Q
  let r := P % Q
  let m' := if 2 * r > Q ∨ (2 * r = Q ∧ m % 2 = 1) then m + 1 else m
  if sh ≥ 0 then ⟨m', 2 ^ sh.toNat⟩ else ⟨m' * 2 ^ (-sh).toNat, 1⟩

/-- round the positive rational `p / q` to the nearest binary64 (53-bit significand, ties to even).
Exponent range is not modelled (all values here are between 2^-31 and 2^64). -/
def roundQ (p q : Nat) : F :=
  if p = 0 ∨ q = 0 then ⟨0, 1⟩ else roundAt p q (expo p q)

def ofNat (n : Nat) : F := roundQ n 1
def add (a b : F) : F := roundQ (a.num * b.den + b.num * a.den) (a.den * b.den)
def mul (a b : F) : F := roundQ (a.num * b.num) (a.den * b.den)
def div (a b : F) : F := roundQ (a.num * b.den) (a.den * b.num)
/-- truncation towards zero (`uint32(x)` / `int64(x)` of a non-negative float) -/
def trunc (a : F) : Nat := a.num / a.den

/-- `math.Round` of a non-negative float, as an integer: nearest, halves away from zero -/
def roundHalfAway (a : F) : Nat := (2 * a.num + a.den) / (2 * a.den)

/-- `time.Duration(d).Seconds()` for `d ≥ 0` -/
def seconds (d : Nat) : F := add (ofNat (d / 1000000000)) (div (ofNat (d % 1000000000)) (ofNat 1000000000))

/-- `int64(systemDiff.Seconds()*float64(rate))` for `d ≥ 0`, `rate ≥ 0` -/
def ticks (d rate : Nat) : Nat := trunc (mul (seconds d) (ofNat rate))

end Rtsp.F64
