import Rtsp.Model.Headers.KeyVal
/-
Model of /repo/pkg/headers/rtp_info.go.
-/
namespace Rtsp.Hdr
open Rtsp.Facts

structure RtpInfoEntry where
  url : Str := []
  seq : Option Nat := none      -- uint16
  ts  : Option Nat := none      -- uint32
deriving DecidableEq, Repr, Inhabited

/-- the loop over the keys of one entry; the `Bool` is `urlReceived` -/
def RtpInfoEntry.steps (st : RtpInfoEntry × Bool) : List (Str × Str) → Res (RtpInfoEntry × Bool)
  | [] => .ok st
  | (k, v) :: rest =>
    if k = cs!"url" then RtpInfoEntry.steps ({ st.1 with url := v }, true) rest
    else if k = cs!"seq" then
      match parseUint Hdr.seqBits v with
      | some n => RtpInfoEntry.steps ({ st.1 with seq := some n }, st.2) rest
      | none => .err .number
    else if k = cs!"rtptime" then
      match parseUint Hdr.rtptimeBits v with
      | some n => RtpInfoEntry.steps ({ st.1 with ts := some n }, st.2) rest
      | none => .err .number
    else RtpInfoEntry.steps st rest

def RtpInfoEntry.unmarshalWith (kvp : KvParser) (part : Str) : Res RtpInfoEntry :=
  match kvp ';' (trimLeftSp part) with
  | .ok pairs =>
    match RtpInfoEntry.steps ({}, false) pairs with
    | .ok (e, true) => .ok e
    | .ok (_, false) => .err .missing
    | .err e => .err e
    | .unm => .unm
  | .err e => .err e
  | .unm => .unm

def RtpInfo.unmarshalEach (kvp : KvParser) : List Str → Res (List RtpInfoEntry)
  | [] => .ok []
  | p :: ps =>
    match RtpInfoEntry.unmarshalWith kvp p with
    | .ok e =>
      match RtpInfo.unmarshalEach kvp ps with
      | .ok es => .ok (e :: es)
      | .err x => .err x
      | .unm => .unm
    | .err x => .err x
    | .unm => .unm

def RtpInfo.unmarshalWith (kvp : KvParser) : List Str → Res (List RtpInfoEntry)
  | [] => .err .notProvided
  | [s] => RtpInfo.unmarshalEach kvp (splitOn ',' s)
  | _ => .err .multiple

def RtpInfo.unmarshal : List Str → Res (List RtpInfoEntry) := RtpInfo.unmarshalWith keyValParse

def RtpInfoEntry.marshal (e : RtpInfoEntry) : Str :=
  joinWith ';' ([cs!"url=" ++ e.url] ++ optField cs!"seq=" (e.seq.map dec) ++ optField cs!"rtptime=" (e.ts.map dec))

def RtpInfo.marshal (h : List RtpInfoEntry) : Str := joinWith ',' (h.map RtpInfoEntry.marshal)

end Rtsp.Hdr
