import Rtsp.Model.Headers.Basic
/-
Model of /repo/pkg/headers/keyval.go: `readKey`, `readValue`, `keyValParseOrdered` (and
`keyValParse`, which is `keyValParseOrdered` without the key list).

The Go function returns the keys in order of first appearance and a `map[string]string`.  A Go
map has no observable order; the model keeps it as an association list with distinct keys
(`KV.map`) and the header codecs read it ONLY through `mapGet` (`kvs[k]`), never by iteration —
since commit "fix: parse header key/value pairs in a deterministic order" that is what the Go
code does (`for _, k := range keys { v := kvs[k] … }`).  `keyValParseWith π` applies an arbitrary
rearrangement `π` to the association list before it is read: `Props/C09.parse_perm_invariant`
proves that the result does not depend on `π`.
-/
namespace Rtsp.Hdr

/-- `readKey`: the longest prefix without `=` and without the separator, and the rest. -/
def readKey (sep : Char) : Str → Str × Str
  | [] => ([], [])
  | c :: cs =>
    if c = '=' ∨ c = sep then ([], c :: cs)
    else ((readKey sep cs).1.cons c, (readKey sep cs).2)

/-- the unquoted branch of `readValue`: up to the separator (exclusive), and the rest. -/
def readUntil (sep : Char) : Str → Str × Str
  | [] => ([], [])
  | c :: cs =>
    if c = sep then ([], c :: cs)
    else ((readUntil sep cs).1.cons c, (readUntil sep cs).2)

/-- `readValue` (the argument is the text after `=`). -/
def readValue (sep : Char) (s : Str) : Res (Str × Str) :=
  match s with
  | '"' :: rest =>
    match cut '"' rest with
    | some (v, r) => .ok (v, r)
    | none => .err .apexes
  | _ => .ok (readUntil sep s)

/-- "skip separator" -/
def skipSep (sep : Char) : Str → Str
  | [] => []
  | c :: cs => if c = sep then cs else c :: cs

/-- The loop of `keyValParseOrdered`: the pairs in order of appearance, duplicates included.
Every iteration consumes at least one character (the key, or `=`, or the separator), so
`fuel = len(str)` iterations suffice; `kvRaw` supplies exactly that. -/
def kvLoop (sep : Char) : Nat → Str → Res (List (Str × Str))
  | _, [] => .ok []
  | 0, _ :: _ => .ok []
  | fuel + 1, c :: cs =>
    let k := (readKey sep (c :: cs)).1
    match (readKey sep (c :: cs)).2 with
    | '=' :: r =>
      match readValue sep r with
      | .ok (v, r') =>
        match kvLoop sep fuel (trimLeftSp (skipSep sep r')) with
        | .ok rest => .ok ((k, v) :: rest)
        | .err e => .err e
        | .unm => .unm
      | .err e => .err e
      | .unm => .unm
    | r =>
      match kvLoop sep fuel (trimLeftSp (skipSep sep r)) with
      | .ok rest => .ok ((k, []) :: rest)
      | .err e => .err e
      | .unm => .unm

def kvRaw (sep : Char) (s : Str) : Res (List (Str × Str)) := kvLoop sep s.length s

/-! ### the Go map and the ordered key list -/

/-- `kvs[k]` (the empty string when the key is absent) -/
def mapGet (m : List (Str × Str)) (k : Str) : Str :=
  match m with
  | [] => []
  | p :: ps => if p.1 = k then p.2 else mapGet ps k

def mapHas (m : List (Str × Str)) (k : Str) : Bool :=
  match m with
  | [] => false
  | p :: ps => if p.1 = k then true else mapHas ps k

/-- `ret[k] = v` -/
def mapSet (m : List (Str × Str)) (k v : Str) : List (Str × Str) :=
  match m with
  | [] => [(k, v)]
  | p :: ps => if p.1 = k then (k, v) :: ps else p :: mapSet ps k v

structure KV where
  keys : List Str                 -- order of first appearance
  map  : List (Str × Str)         -- the Go map
deriving Repr

/-- one iteration's effect on `keys` and `ret` -/
def KV.add (kv : KV) (k v : Str) : KV :=
  { keys := if mapHas kv.map k then kv.keys else kv.keys ++ [k], map := mapSet kv.map k v }

def KV.ofPairs (raw : List (Str × Str)) : KV :=
  raw.foldl (fun kv p => kv.add p.1 p.2) { keys := [], map := [] }

/-- what a caller sees: `for _, k := range keys { v := kvs[k] … }` -/
def KV.pairs (kv : KV) : List (Str × Str) := kv.keys.map fun k => (k, mapGet kv.map k)

/-- `keyValParseOrdered` as seen by its callers, with an arbitrary rearrangement `π` of the map's
internal representation made explicit. -/
def keyValParseWith (π : List (Str × Str) → List (Str × Str)) (sep : Char) (s : Str) : Res (List (Str × Str)) :=
  match kvRaw sep s with
  | .ok raw => .ok ({ (KV.ofPairs raw) with map := π (KV.ofPairs raw).map }).pairs
  | .err e => .err e
  | .unm => .unm

/-- `keyValParseOrdered` as seen by its callers. -/
def keyValParse (sep : Char) (s : Str) : Res (List (Str × Str)) := keyValParseWith id sep s

/-- A key/value tokenizer: the header codecs are written against this parameter so that the
permutation theorem is stated once. -/
abbrev KvParser := Char → Str → Res (List (Str × Str))

end Rtsp.Hdr
