import Rtsp.Model.Headers.KeyVal
import Rtsp.Model.B64Std
/-
Model of /repo/pkg/headers/authenticate.go (WWW-Authenticate) and authorization.go
(Authorization).
-/
namespace Rtsp.Hdr

inductive AuthMethod | basic | digest deriving DecidableEq, Repr, Inhabited
inductive AuthAlgorithm | md5 | sha256 deriving DecidableEq, Repr, Inhabited

/-- `parseAuthAlgorithm` -/
def parseAuthAlgorithm (v : Str) : Res AuthAlgorithm :=
  if lowerEq v cs!"md5" then .ok .md5
  else if lowerEq v cs!"sha-256" then .ok .sha256
  else .err .algorithm

/-- the method word and the rest (`strings.Cut(v0, " ")` and the switch) -/
def parseMethod (s : Str) : Res (AuthMethod × Str) :=
  match cut ' ' s with
  | none => .err .split
  | some (m, rest) =>
    if m = cs!"Basic" then .ok (.basic, rest)
    else if m = cs!"Digest" then .ok (.digest, rest)
    else .err .method

def quoted (name v : Str) : Str := name ++ '"' :: v ++ ['"']

def algStr : AuthAlgorithm → Str
  | .md5 => cs!"MD5"
  | .sha256 => cs!"SHA-256"

/-! ### WWW-Authenticate -/

structure Authenticate where
  method    : AuthMethod := .basic
  realm     : Str := []
  nonce     : Str := []
  opaq      : Option Str := none
  stale     : Option Str := none
  algorithm : Option AuthAlgorithm := none
deriving DecidableEq, Repr, Inhabited

/-- Basic: only `realm` is looked at; the `Bool` is `realmReceived` -/
def Authenticate.stepsBasic (st : Authenticate × Bool) : List (Str × Str) → Authenticate × Bool
  | [] => st
  | (k, v) :: rest =>
    if k = cs!"realm" then Authenticate.stepsBasic ({ st.1 with realm := v }, true) rest
    else Authenticate.stepsBasic st rest

/-- Digest: the `Bool`s are `realmReceived`, `nonceReceived` -/
def Authenticate.stepsDigest (st : Authenticate × Bool × Bool) : List (Str × Str) → Res (Authenticate × Bool × Bool)
  | [] => .ok st
  | (k, v) :: rest =>
    if k = cs!"realm" then Authenticate.stepsDigest ({ st.1 with realm := v }, true, st.2.2) rest
    else if k = cs!"nonce" then Authenticate.stepsDigest ({ st.1 with nonce := v }, st.2.1, true) rest
    else if k = cs!"opaque" then Authenticate.stepsDigest ({ st.1 with opaq := some v }, st.2) rest
    else if k = cs!"stale" then Authenticate.stepsDigest ({ st.1 with stale := some v }, st.2) rest
    else if k = cs!"algorithm" then
      match parseAuthAlgorithm v with
      | .ok a => Authenticate.stepsDigest ({ st.1 with algorithm := some a }, st.2) rest
      | .err e => .err e
      | .unm => .unm
    else Authenticate.stepsDigest st rest

def Authenticate.unmarshal1With (kvp : KvParser) (s : Str) : Res Authenticate :=
  match parseMethod s with
  | .ok (.basic, rest) =>
    match kvp ',' rest with
    | .ok pairs =>
      match Authenticate.stepsBasic ({ method := .basic }, false) pairs with
      | (h, true) => .ok h
      | (_, false) => .err .missing
    | .err e => .err e
    | .unm => .unm
  | .ok (.digest, rest) =>
    match kvp ',' rest with
    | .ok pairs =>
      match Authenticate.stepsDigest ({ method := .digest }, false, false) pairs with
      | .ok (h, true, true) => .ok h
      | .ok _ => .err .missing
      | .err e => .err e
      | .unm => .unm
    | .err e => .err e
    | .unm => .unm
  | .err e => .err e
  | .unm => .unm

def Authenticate.unmarshalWith (kvp : KvParser) : List Str → Res Authenticate
  | [] => .err .notProvided
  | [s] => Authenticate.unmarshal1With kvp s
  | _ => .err .multiple

def Authenticate.unmarshal : List Str → Res Authenticate := Authenticate.unmarshalWith keyValParse

def optQuoted (name : Str) : Option Str → Str
  | some v => quoted name v
  | none => []

def Authenticate.marshal (h : Authenticate) : Str :=
  match h.method with
  | .basic => cs!"Basic " ++ quoted cs!"realm=" h.realm
  | .digest =>
    cs!"Digest " ++ quoted cs!"realm=" h.realm ++ quoted cs!", nonce=" h.nonce
      ++ optQuoted cs!", opaque=" h.opaq ++ optQuoted cs!", stale=" h.stale
      ++ optQuoted cs!", algorithm=" (h.algorithm.map algStr)

/-! ### Authorization -/

structure Authorization where
  method    : AuthMethod := .basic
  username  : Str := []
  basicPass : Str := []
  realm     : Str := []
  nonce     : Str := []
  uri       : Str := []
  response  : Str := []
  opaq      : Option Str := none
  algorithm : Option AuthAlgorithm := none
deriving DecidableEq, Repr, Inhabited

def toBytes (s : Str) : List UInt8 := s.map fun c => UInt8.ofNat c.toNat
def ofBytes (b : List UInt8) : Str := b.map fun x => Char.ofNat x.toNat

/-- received flags: realm, username, nonce, uri, response -/
structure AuthzFlags where
  realm : Bool := false
  username : Bool := false
  nonce : Bool := false
  uri : Bool := false
  response : Bool := false
deriving DecidableEq, Repr

def AuthzFlags.all (f : AuthzFlags) : Bool := f.realm && f.username && f.nonce && f.uri && f.response

def Authorization.stepsDigest (st : Authorization × AuthzFlags) : List (Str × Str) → Res (Authorization × AuthzFlags)
  | [] => .ok st
  | (k, v) :: rest =>
    if k = cs!"realm" then Authorization.stepsDigest ({ st.1 with realm := v }, { st.2 with realm := true }) rest
    else if k = cs!"username" then Authorization.stepsDigest ({ st.1 with username := v }, { st.2 with username := true }) rest
    else if k = cs!"nonce" then Authorization.stepsDigest ({ st.1 with nonce := v }, { st.2 with nonce := true }) rest
    else if k = cs!"uri" then Authorization.stepsDigest ({ st.1 with uri := v }, { st.2 with uri := true }) rest
    else if k = cs!"response" then Authorization.stepsDigest ({ st.1 with response := v }, { st.2 with response := true }) rest
    else if k = cs!"opaque" then Authorization.stepsDigest ({ st.1 with opaq := some v }, st.2) rest
    else if k = cs!"algorithm" then
      match parseAuthAlgorithm v with
      | .ok a => Authorization.stepsDigest ({ st.1 with algorithm := some a }, st.2) rest
      | .err e => .err e
      | .unm => .unm
    else Authorization.stepsDigest st rest

def Authorization.unmarshal1With (kvp : KvParser) (s : Str) : Res Authorization :=
  match parseMethod s with
  | .ok (.basic, rest) =>
    match B64Std.decode (toBytes rest) with
    | some bytes =>
      -- since "fix: accept Basic credentials whose password contains a colon": split at the FIRST colon
      match cut ':' (ofBytes bytes) with
      | some (u, p) => .ok { method := .basic, username := u, basicPass := p }
      | none => .err .value
    | none => .err .base64
  | .ok (.digest, rest) =>
    match kvp ',' rest with
    | .ok pairs =>
      match Authorization.stepsDigest ({ method := .digest }, {}) pairs with
      | .ok (h, f) => if f.all then .ok h else .err .missing
      | .err e => .err e
      | .unm => .unm
    | .err e => .err e
    | .unm => .unm
  | .err e => .err e
  | .unm => .unm

def Authorization.unmarshalWith (kvp : KvParser) : List Str → Res Authorization
  | [] => .err .notProvided
  | [s] => Authorization.unmarshal1With kvp s
  | _ => .err .multiple

def Authorization.unmarshal : List Str → Res Authorization := Authorization.unmarshalWith keyValParse

def Authorization.marshal (h : Authorization) : Str :=
  match h.method with
  | .basic => cs!"Basic " ++ ofBytes (B64Std.encode (toBytes (h.username ++ ':' :: h.basicPass)))
  | .digest =>
    cs!"Digest " ++ quoted cs!"username=" h.username ++ quoted cs!", realm=" h.realm
      ++ quoted cs!", nonce=" h.nonce ++ quoted cs!", uri=" h.uri ++ quoted cs!", response=" h.response
      ++ optQuoted cs!", opaque=" h.opaq ++ optQuoted cs!", algorithm=" (h.algorithm.map algStr)

end Rtsp.Hdr
