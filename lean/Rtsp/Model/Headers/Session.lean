import Rtsp.Model.Headers.KeyVal
/-
Model of /repo/pkg/headers/session.go.
-/
namespace Rtsp.Hdr
open Rtsp.Facts

structure Session where
  session : Str := []
  timeout : Option Nat := none
deriving DecidableEq, Repr, Inhabited

/-- the loop over the keys: only `timeout` is looked at -/
def Session.steps (t : Option Nat) : List (Str × Str) → Res (Option Nat)
  | [] => .ok t
  | (k, v) :: rest =>
    if k = cs!"timeout" then
      match parseUint Hdr.timeoutBits v with
      | some n => Session.steps (some n) rest
      | none => .err .number
    else Session.steps t rest

def Session.unmarshal1With (kvp : KvParser) (s : Str) : Res Session :=
  match cut ';' s with
  | none => .ok { session := s }
  | some (id, rest) =>
    match kvp ';' (trimLeftSp rest) with
    | .ok pairs =>
      match Session.steps none pairs with
      | .ok t => .ok { session := id, timeout := t }
      | .err e => .err e
      | .unm => .unm
    | .err e => .err e
    | .unm => .unm

def Session.unmarshalWith (kvp : KvParser) : List Str → Res Session
  | [] => .err .notProvided
  | [s] => Session.unmarshal1With kvp s
  | _ => .err .multiple

def Session.unmarshal : List Str → Res Session := Session.unmarshalWith keyValParse

def Session.marshal (h : Session) : Str :=
  match h.timeout with
  | some t => h.session ++ cs!";timeout=" ++ dec t
  | none => h.session

end Rtsp.Hdr
