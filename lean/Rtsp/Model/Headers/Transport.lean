import Rtsp.Model.Headers.KeyVal
/-
Model of /repo/pkg/headers/transport.go (`parsePorts`, `TransportMode.unmarshal`,
`Transport.Unmarshal`, `Transport.Marshal`) and transports.go (`Transports`).
Numbers are `Nat` (the parsers bound them: ports < 2^31, ttl < 2^32, ssrc < 2^32).
-/
namespace Rtsp.Hdr
open Rtsp.Facts

inductive Profile | avp | savp deriving DecidableEq, Repr, Inhabited
inductive Protocol | udp | tcp deriving DecidableEq, Repr, Inhabited
inductive Delivery | unicast | multicast deriving DecidableEq, Repr, Inhabited
inductive Mode | play | record deriving DecidableEq, Repr, Inhabited

structure Transport where
  profile      : Profile := .avp
  protocol     : Protocol := .udp
  delivery     : Option Delivery := none
  source       : Option Str := none
  destination  : Option Str := none
  interleaved  : Option (Nat × Nat) := none
  ttl          : Option Nat := none
  ports        : Option (Nat × Nat) := none
  clientPorts  : Option (Nat × Nat) := none
  serverPorts  : Option (Nat × Nat) := none
  ssrc         : Option Nat := none
  mode         : Option Mode := none
deriving DecidableEq, Repr, Inhabited

/-- `parsePorts` -/
def parsePorts (v : Str) : Res (Nat × Nat) :=
  match splitOn '-' v with
  | [a, b] =>
    match parseUint Hdr.portBits a, parseUint Hdr.portBits b with
    | some x, some y => .ok (x, y)
    | _, _ => .err .ports
  | [a] =>
    match parseUint Hdr.portBits a with
    | some x => .ok (x, x + 1)
    | none => .err .ports
  | _ => .err .ports

/-- `TransportMode.unmarshal` (`strings.ToLower` then a switch) -/
def parseMode (v : Str) : Res Mode :=
  if lowerEq v cs!"play" then .ok .play
  else if lowerEq v cs!"record" ∨ lowerEq v cs!"receive" then .ok .record
  else .err .mode

/-- the `ssrc` case: trim spaces, left-pad to even length, `hex.DecodeString`, at most 4 bytes;
any failure leaves the field untouched (it is not an error). -/
def parseSsrc (v : Str) : Option Nat :=
  let v := trimLeftSp v
  let v := if v.length % 2 ≠ 0 then '0' :: v else v
  if v.length ≤ 2 * Hdr.ssrcMaxBytes then hexNat v 0 else none

/-- one iteration of the `for _, k := range keys` loop; the `Bool` is `profileFound`. -/
def Transport.step (st : Transport × Bool) (k v : Str) : Res (Transport × Bool) :=
  let (h, pf) := st
  if k = cs!"RTP/AVP" ∨ k = cs!"RTP/AVP/UDP" then .ok ({ h with profile := .avp, protocol := .udp }, true)
  else if k = cs!"RTP/AVP/TCP" then .ok ({ h with profile := .avp, protocol := .tcp }, true)
  else if k = cs!"RTP/SAVP" ∨ k = cs!"RTP/SAVP/UDP" then .ok ({ h with profile := .savp, protocol := .udp }, true)
  else if k = cs!"RTP/SAVP/TCP" then .ok ({ h with profile := .savp, protocol := .tcp }, true)
  else if k = cs!"unicast" then .ok ({ h with delivery := some .unicast }, pf)
  else if k = cs!"multicast" then .ok ({ h with delivery := some .multicast }, pf)
  else if k = cs!"source" then .ok (if v ≠ [] then { h with source := some v } else h, pf)
  else if k = cs!"destination" then .ok (if v ≠ [] then { h with destination := some v } else h, pf)
  else if k = cs!"interleaved" then
    match parsePorts v with
    | .ok p => .ok ({ h with interleaved := some p }, pf)
    | .err e => .err e
    | .unm => .unm
  else if k = cs!"ttl" then
    match parseUint Hdr.ttlBits v with
    | some n => .ok ({ h with ttl := some n }, pf)
    | none => .err .number
  else if k = cs!"port" then
    match parsePorts v with
    | .ok p => .ok ({ h with ports := some p }, pf)
    | .err e => .err e
    | .unm => .unm
  else if k = cs!"client_port" then
    match parsePorts v with
    | .ok p => .ok ({ h with clientPorts := some p }, pf)
    | .err e => .err e
    | .unm => .unm
  else if k = cs!"server_port" then
    match parsePorts v with
    | .ok p => .ok ({ h with serverPorts := some p }, pf)
    | .err e => .err e
    | .unm => .unm
  else if k = cs!"ssrc" then
    match parseSsrc v with
    | some n => .ok ({ h with ssrc := some n }, pf)
    | none => .ok (h, pf)
  else if k = cs!"mode" then
    match parseMode v with
    | .ok m => .ok ({ h with mode := some m }, pf)
    | .err e => .err e
    | .unm => .unm
  else .ok (h, pf)

/-- the whole loop -/
def Transport.steps (st : Transport × Bool) : List (Str × Str) → Res (Transport × Bool)
  | [] => .ok st
  | (k, v) :: rest =>
    match Transport.step st k v with
    | .ok st' => Transport.steps st' rest
    | .err e => .err e
    | .unm => .unm

/-- `Transport.Unmarshal` on a one-element header value, against a key/value tokenizer. -/
def Transport.unmarshal1With (kvp : KvParser) (s : Str) : Res Transport :=
  match kvp ';' s with
  | .ok pairs =>
    match Transport.steps ({}, false) pairs with
    | .ok (h, true) => .ok h
    | .ok (_, false) => .err .missing
    | .err e => .err e
    | .unm => .unm
  | .err e => .err e
  | .unm => .unm

/-- `Transport.Unmarshal` (`base.HeaderValue` is a list of strings). -/
def Transport.unmarshalWith (kvp : KvParser) : List Str → Res Transport
  | [] => .err .notProvided
  | [s] => Transport.unmarshal1With kvp s
  | _ => .err .multiple

def Transport.unmarshal : List Str → Res Transport := Transport.unmarshalWith keyValParse

def portsStr (p : Nat × Nat) : Str := dec p.1 ++ '-' :: dec p.2

def profileStr (h : Transport) : Str :=
  match h.protocol, h.profile with
  | .udp, .avp => cs!"RTP/AVP"
  | .tcp, .avp => cs!"RTP/AVP/TCP"
  | .udp, .savp => cs!"RTP/SAVP"
  | .tcp, .savp => cs!"RTP/SAVP/TCP"

/-- the list `rets` of `Transport.Marshal` -/
def Transport.fields (h : Transport) : List Str :=
  [profileStr h]
  ++ optField [] (h.delivery.map fun d => match d with | .unicast => cs!"unicast" | .multicast => cs!"multicast")
  ++ optField cs!"source=" h.source
  ++ optField cs!"destination=" h.destination
  ++ optField cs!"interleaved=" (h.interleaved.map portsStr)
  ++ optField cs!"port=" (h.ports.map portsStr)
  ++ optField cs!"ttl=" (h.ttl.map dec)
  ++ optField cs!"client_port=" (h.clientPorts.map portsStr)
  ++ optField cs!"server_port=" (h.serverPorts.map portsStr)
  ++ optField cs!"ssrc=" (h.ssrc.map hex8Upper)
  ++ optField cs!"mode=" (h.mode.map fun m => match m with | .play => cs!"play" | .record => cs!"record")

/-- `Transport.Marshal` (the single string of the header value) -/
def Transport.marshal (h : Transport) : Str := joinWith ';' h.fields

/-! ### Transports -/

def Transports.unmarshalEach (kvp : KvParser) : List Str → Res (List Transport)
  | [] => .ok []
  | p :: ps =>
    match Transport.unmarshal1With kvp (trimLeftSp p) with
    | .ok t =>
      match Transports.unmarshalEach kvp ps with
      | .ok ts => .ok (t :: ts)
      | .err e => .err e
      | .unm => .unm
    | .err e => .err e
    | .unm => .unm

/-- `Transports.Unmarshal` -/
def Transports.unmarshalWith (kvp : KvParser) : List Str → Res (List Transport)
  | [] => .err .notProvided
  | [s] => Transports.unmarshalEach kvp (splitOn ',' s)
  | _ => .err .multiple

def Transports.unmarshal : List Str → Res (List Transport) := Transports.unmarshalWith keyValParse

/-- `Transports.Marshal` -/
def Transports.marshal (ts : List Transport) : Str := joinWith ',' (ts.map Transport.marshal)

end Rtsp.Hdr
