import Rtsp.Model.Headers.Authenticate
import Rtsp.Model.Mikey
/-
Model of /repo/pkg/headers/key_mgmt.go.
-/
namespace Rtsp.Hdr

structure KeyMgmt where
  url : Str := []
  msg : Mikey.Message := {}
deriving DecidableEq, Repr, Inhabited

/-- loop state: URL, message (`h.MikeyMessage`, nil at the start), `protocolProvided`, `uriProvided` -/
structure KeyMgmtSt where
  url : Str := []
  msg : Option Mikey.Message := none
  prot : Bool := false
  uri : Bool := false
deriving DecidableEq, Repr

def KeyMgmt.steps (st : KeyMgmtSt) : List (Str × Str) → Res KeyMgmtSt
  | [] => .ok st
  | (k, v) :: rest =>
    if k = cs!"prot" then
      if v ≠ cs!"mikey" then .err .protocol else KeyMgmt.steps { st with prot := true } rest
    else if k = cs!"uri" then KeyMgmt.steps { st with url := v, uri := true } rest
    else if k = cs!"data" then
      match B64Std.decode (toBytes v) with
      | some bytes =>
        match Mikey.Message.unmarshal bytes with
        | some m => KeyMgmt.steps { st with msg := some m } rest
        | none => .err .mikey
      | none => .err .base64
    else KeyMgmt.steps st rest

def KeyMgmt.unmarshal1With (kvp : KvParser) (s : Str) : Res KeyMgmt :=
  match kvp ';' s with
  | .ok pairs =>
    match KeyMgmt.steps {} pairs with
    | .ok st =>
      if !st.prot then .err .missing
      else if !st.uri then .err .missing
      else match st.msg with
        | some m => .ok { url := st.url, msg := m }
        | none => .err .missing
    | .err e => .err e
    | .unm => .unm
  | .err e => .err e
  | .unm => .unm

def KeyMgmt.unmarshalWith (kvp : KvParser) : List Str → Res KeyMgmt
  | [] => .err .notProvided
  | [s] => KeyMgmt.unmarshal1With kvp s
  | _ => .err .multiple

def KeyMgmt.unmarshal : List Str → Res KeyMgmt := KeyMgmt.unmarshalWith keyValParse

def KeyMgmt.marshal (h : KeyMgmt) : Str :=
  cs!"prot=mikey;" ++ quoted cs!"uri=" h.url ++ quoted cs!";data=" (ofBytes (B64Std.encode h.msg.marshal))

end Rtsp.Hdr
