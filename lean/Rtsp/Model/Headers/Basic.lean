import Rtsp.Generated.Facts.Hdr
/-
Shared vocabulary of the RTSP header models (pkg/headers/*.go): strings, results, and the Go
standard-library functions the header codecs call, each modelled on exactly the inputs the codecs
give them.  Core Lean only (linked into `oracle_hdr`).

Strings.  A Go `string` is a byte string.  The model uses `List Char` in which every `Char`
stands for ONE byte (the Latin-1 view: byte `b` is `Char.ofNat b`); the line-protocol driver
converts hex bytes to and from this view, so key literals can be written as ordinary characters
(`cs!"RTP/AVP"`).  All functions are total on every `List Char`; the theorems quantify over all of
them (a superset of the byte strings).
-/
namespace Rtsp.Hdr
open Rtsp.Facts

abbrev Str := List Char

open Lean in
/-- `cs!"abc"` is the character list `['a','b','c']` (a plain list literal, so that `decide`,
`simp` and pattern matching see constructors, never `String` internals). -/
macro:max "cs!" s:str : term => do
  let elems : Array (TSyntax `term) := (s.getString.toList.map fun c => (Syntax.mkCharLit c : TSyntax `term)).toArray
  `([$elems,*])

/-- Failure classes of the parsers.  The Go code returns `error` values with free text; the model
keeps one small class per failing check.  The line protocol prints all of them as `err` (error
strings are never compared), but the determinism theorems are about the class as well. -/
inductive Err
  | notProvided      -- len(v) == 0
  | multiple         -- len(v) > 1
  | apexes           -- keyValParse: quoted value not closed
  | number           -- strconv.ParseUint / ParseFloat failed
  | ports            -- parsePorts
  | mode             -- TransportMode.unmarshal
  | missing          -- a mandatory key is absent
  | split            -- a split did not yield the expected number of parts
  | method           -- unknown authentication method
  | algorithm        -- parseAuthAlgorithm
  | time             -- time.Parse
  | base64           -- base64 decoding failed
  | protocol         -- KeyMgmt: prot is not mikey
  | mikey            -- mikey.Message.Unmarshal failed
  | value            -- Authorization Basic: no colon
deriving DecidableEq, Repr, Inhabited

/-- Result of a parser: a value, a failure class, or `unm`: the input leaves the domain on which
the model claims to reproduce the Go standard library exactly (floating-point syntax beyond plain
decimals; see `parseFloatNs`).  Theorems about `ok` results never rest on `unm`. -/
inductive Res (α : Type)
  | ok (a : α)
  | err (e : Err)
  | unm
deriving DecidableEq, Repr

namespace Res
@[inline] def bind {α β} (x : Res α) (f : α → Res β) : Res β :=
  match x with
  | ok a => f a
  | err e => err e
  | unm => unm
instance : Monad Res where
  pure := ok
  bind := bind
@[simp] theorem ok_bind {α β} (a : α) (f : α → Res β) : (ok a >>= f) = f a := rfl
@[simp] theorem err_bind {α β} (e : Err) (f : α → Res β) : ((err e : Res α) >>= f) = err e := rfl
@[simp] theorem unm_bind {α β} (f : α → Res β) : ((unm : Res α) >>= f) = unm := rfl
@[simp] theorem pure_eq {α} (a : α) : (pure a : Res α) = ok a := rfl
def ofOption {α} (e : Err) : Option α → Res α
  | some a => ok a
  | none => err e
@[simp] theorem ofOption_some {α} (e : Err) (a : α) : ofOption e (some a) = ok a := rfl
@[simp] theorem ofOption_none {α} (e : Err) : ofOption e (none : Option α) = err e := rfl
end Res

/-! ### strings -/

/-- `strings.TrimLeft(s, " ")` -/
def trimLeftSp : Str → Str
  | ' ' :: cs => trimLeftSp cs
  | cs => cs

/-- `strings.Split(s, string(sep))` for a one-byte separator: never empty, `Split("", sep) = [""]`. -/
def splitOn (sep : Char) : Str → List Str
  | [] => [[]]
  | c :: cs =>
    if c = sep then [] :: splitOn sep cs
    else match splitOn sep cs with
      | [] => [[c]]
      | p :: ps => (c :: p) :: ps

/-- `strings.Cut(s, string(sep))`: text before the first `sep` and text after it. -/
def cut (sep : Char) : Str → Option (Str × Str)
  | [] => none
  | c :: cs =>
    if c = sep then some ([], cs)
    else match cut sep cs with
      | some (a, b) => some (c :: a, b)
      | none => none

/-- `strings.Join(parts, string(sep))` -/
def joinWith (sep : Char) : List Str → Str
  | [] => []
  | [p] => p
  | p :: q :: ps => p ++ sep :: joinWith sep (q :: ps)

/-- an optional `name=value` element of a marshalled list -/
def optField (name : Str) : Option Str → List Str
  | some v => [name ++ v]
  | none => []

/-! ### numbers -/

/-- `strconv.FormatUint(n, 10)` / `FormatInt` of a non-negative number -/
def dec (n : Nat) : Str := Nat.toDigits 10 n

/-- `strconv.ParseUint(s, 10, bits)`: non-empty, decimal digits only (no sign, no underscore in
base 10), value below `2^bits` (`ErrRange` is an error like any other). -/
def parseUint (bits : Nat) (s : Str) : Option Nat :=
  if s ≠ [] ∧ s.all Char.isDigit then
    let n := Nat.ofDigitChars 10 s 0
    if n < 2 ^ bits then some n else none
  else none

def hexVal (c : Char) : Option Nat :=
  if '0' ≤ c ∧ c ≤ '9' then some (c.toNat - 48)
  else if 'a' ≤ c ∧ c ≤ 'f' then some (c.toNat - 87)
  else if 'A' ≤ c ∧ c ≤ 'F' then some (c.toNat - 55)
  else none

/-- value of a string of hex digits (`none` if a character is not a hex digit) -/
def hexNat : Str → Nat → Option Nat
  | [], acc => some acc
  | c :: cs, acc => match hexVal c with
    | some d => hexNat cs (acc * 16 + d)
    | none => none

def hexDigitUpper (n : Nat) : Char := if n < 10 then Char.ofNat (48 + n) else Char.ofNat (55 + n)

/-- `strings.ToUpper(hex.EncodeToString(b))` of the 4 big-endian bytes of `n < 2^32` -/
def hex8Upper (n : Nat) : Str :=
  [hexDigitUpper (n / 0x10000000 % 16), hexDigitUpper (n / 0x1000000 % 16), hexDigitUpper (n / 0x100000 % 16),
   hexDigitUpper (n / 0x10000 % 16), hexDigitUpper (n / 0x1000 % 16), hexDigitUpper (n / 0x100 % 16),
   hexDigitUpper (n / 0x10 % 16), hexDigitUpper (n % 16)]

/-! ### `strings.ToLower(v) == target` for an ASCII lower-case target

`strings.ToLower` maps runes.  For a target made of ASCII lower-case letters, digits and `-`,
`ToLower(v) == target` holds iff `v`, read left to right, spells the target where each target
letter may appear as itself, as its ASCII capital, or – only for `i` and `k` – as the UTF-8
encoding of U+0130 (`C4 B0`, LATIN CAPITAL LETTER I WITH DOT ABOVE) resp. U+212A (`E2 84 AA`, KELVIN
SIGN): these are the only non-ASCII runes whose `unicode.ToLower` is ASCII (the Go driver checks
that fact against the running Go's tables on every run); every other byte ≥ 0x80 lower-cases to a
non-ASCII rune or to U+FFFD and so cannot match. -/
def lowerEq : Str → Str → Bool
  | [], [] => true
  | c :: cs, t :: ts =>
    if c = t then lowerEq cs ts
    else if 'A' ≤ c ∧ c ≤ 'Z' ∧ c.toNat + 32 = t.toNat then lowerEq cs ts
    else if t = 'i' ∧ c = Char.ofNat 0xC4 then
      match cs with
      | d :: cs' => if d = Char.ofNat 0xB0 then lowerEq cs' ts else false
      | [] => false
    else if t = 'k' ∧ c = Char.ofNat 0xE2 then
      match cs with
      | d :: e :: cs' => if d = Char.ofNat 0x84 ∧ e = Char.ofNat 0xAA then lowerEq cs' ts else false
      | _ => false
    else false
  | _, _ => false

end Rtsp.Hdr

example : Rtsp.Hdr.lowerEq cs!"PlAy" cs!"play" = true := by decide
example : Rtsp.Hdr.lowerEq ['r','e','c','e',Char.ofNat 0xC4,Char.ofNat 0xB0,'v','e'] cs!"receive" = true := by decide
