import Rtsp.Model.Headers.KeyVal
/-
Model of /repo/pkg/headers/range.go.

`time.Duration` is `Int` nanoseconds with explicit `int64` wrap-around where the Go code computes
in `uint64`/`int64`.  `time.Time` is a civil tuple (UTC); the model of
`time.Parse("20060102T150405Z", s)` accepts exactly the strings Go accepts for this fixed layout
(including the fractional-second special case of `time.Parse`).

NPT seconds go through `strconv.ParseFloat`, `float64` multiplication and `math.Round` in Go.
The model computes with exact decimals and claims agreement only on plain decimals
`digits[.digits]` whose integer part is below 10^6 (so that seconds*10^9 < 10^15 and the two
float roundings stay below 0.25 ns) and whose 10th and later fraction digits are not within
[0.25, 0.75) of a nanosecond; strings that `ParseFloat` certainly rejects are `err`; every other
string (exponents, hex floats, signs, underscores, inf/nan, huge values, rounding-boundary zone)
is `unm` – outside the modelled domain.
-/
namespace Rtsp.Hdr
open Rtsp.Facts

/-- reinterpretation of an integer as `int64` (two's complement wrap-around) -/
def wrap64 (x : Int) : Int := (x + 9223372036854775808) % 18446744073709551616 - 9223372036854775808

/-- `time.Duration(a) * time.Second` for a `uint64` value `a` -/
def secsToDur (a : Nat) : Int := wrap64 (wrap64 (Int.ofNat (a % 18446744073709551616)) * 1000000000)

def pad2 (n : Nat) : Str := if n < 10 then '0' :: dec n else dec n

/-! ### SMPTE -/

structure SmpteTime where
  time     : Int := 0
  frame    : Nat := 0
  subframe : Nat := 0
deriving DecidableEq, Repr, Inhabited

def smpteHms (h m s : Str) : Res Int :=
  match parseUint Hdr.hmsBits h, parseUint Hdr.hmsBits m, parseUint Hdr.hmsBits s with
  | some hh, some mm, some ss => .ok (secsToDur (ss + mm * 60 + hh * 3600))
  | _, _, _ => .err .number

/-- `RangeSMPTETime.unmarshal` -/
def SmpteTime.unmarshal (s : Str) : Res SmpteTime :=
  match splitOn ':' s with
  | [h, m, sec] =>
    match smpteHms h m sec with
    | .ok t => .ok { time := t }
    | .err e => .err e
    | .unm => .unm
  | [h, m, sec, f] =>
    match smpteHms h m sec with
    | .ok t =>
      match splitOn '.' f with
      | [fr, sf] =>
        match parseUint Hdr.frameBits fr, parseUint Hdr.frameBits sf with
        | some a, some b => .ok { time := t, frame := a, subframe := b }
        | _, _ => .err .number
      | fr :: _ =>
        match parseUint Hdr.frameBits fr with
        | some a => .ok { time := t, frame := a }
        | none => .err .number
      | [] => .err .number
    | .err e => .err e
    | .unm => .unm
  | _ => .err .split

/-- `RangeSMPTETime.marshal` (for `0 ≤ Time < 2^53 ns`, where `uint64(t.Time.Seconds())` is the
whole number of seconds) -/
def SmpteTime.marshal (t : SmpteTime) : Str :=
  let d := t.time.toNat / 1000000000
  let base := dec (d / 3600) ++ ':' :: pad2 (d % 3600 / 60) ++ ':' :: pad2 (d % 60)
  if t.frame > 0 ∨ t.subframe > 0 then
    if t.subframe > 0 then base ++ ':' :: pad2 t.frame ++ '.' :: pad2 t.subframe
    else base ++ ':' :: pad2 t.frame
  else base

/-! ### NPT -/

def floatAlphabet (c : Char) : Bool :=
  c.isDigit || c = '+' || c = '-' || c = '.' || c = '_' ||
  cs!"abcdefinptxyABCDEFINPTXY".contains c

/-- the first nine digits of a fraction, right-padded with zeros, as a number -/
def frac9 (f : Str) : Nat := Nat.ofDigitChars 10 ((f ++ List.replicate 9 '0').take 9) 0

/-- the two digits after the ninth (missing digits are zeros) -/
def frac2 (f : Str) : Nat := Nat.ofDigitChars 10 (((f.drop 9) ++ ['0', '0']).take 2) 0

/-- `time.Duration(math.Round(ParseFloat(s) * 1e9))` – see the header comment for the domain. -/
def parseFloatNs (s : Str) : Res Nat :=
  if s.any (fun c => !floatAlphabet c) then .err .number
  else if s.all (fun c => c.isDigit || c = '.') then
    match splitOn '.' s with
    | [i] => if i = [] then .err .number
             else if Nat.ofDigitChars 10 i 0 < 1000000 then .ok (Nat.ofDigitChars 10 i 0 * 1000000000) else .unm
    | [i, f] =>
      if i = [] ∧ f = [] then .err .number
      else if Nat.ofDigitChars 10 i 0 < 1000000 then
        if f.length ≤ 9 then .ok (Nat.ofDigitChars 10 i 0 * 1000000000 + frac9 f)
        else if frac2 f < 25 then .ok (Nat.ofDigitChars 10 i 0 * 1000000000 + frac9 f)
        else if 75 ≤ frac2 f then .ok (Nat.ofDigitChars 10 i 0 * 1000000000 + frac9 f + 1)
        else .unm
      else .unm
    | _ => .err .number
  else .unm

/-- `unmarshalRangeNPTTime` -/
def nptTime (s : Str) : Res Int :=
  match splitOn ':' s with
  | [sec] =>
    match parseFloatNs sec with
    | .ok ns => .ok (wrap64 (Int.ofNat ns + secsToDur 0))
    | .err e => .err e
    | .unm => .unm
  | [m, sec] =>
    match parseUint Hdr.hmsBits m with
    | some mm =>
      match parseFloatNs sec with
      | .ok ns => .ok (wrap64 (Int.ofNat ns + secsToDur (mm * 60)))
      | .err e => .err e
      | .unm => .unm
    | none => .err .number
  | [h, m, sec] =>
    match parseUint Hdr.hmsBits h, parseUint Hdr.hmsBits m with
    | some hh, some mm =>
      match parseFloatNs sec with
      | .ok ns => .ok (wrap64 (Int.ofNat ns + secsToDur (mm * 60 + hh * 3600)))
      | .err e => .err e
      | .unm => .unm
    | _, _ => .err .number
  | _ => .err .split

def dropTrailingZeros (s : Str) : Str := (s.reverse.dropWhile (· = '0')).reverse

/-- the exact decimal of `d` nanoseconds in seconds.  Go prints `strconv.FormatFloat(d.Seconds(),
'f', -1, 64)`, which is this text for all but a few values per million (e.g. 1.118 s prints as
`1.1179999999999999`); the correspondence compares texts only when Go's text is an exact decimal,
and `Props/C09` proves the round trip for EVERY decimal within half a nanosecond of `d`. -/
def nptMarshalTime (d : Int) : Str :=
  let n := d.toNat
  let f := dropTrailingZeros ((List.replicate 9 '0' ++ dec (n % 1000000000)).drop ((dec (n % 1000000000)).length))
  if f = [] then dec (n / 1000000000) else dec (n / 1000000000) ++ '.' :: f

/-! ### UTC -/

structure Civil where
  year : Nat := 1
  month : Nat := 1
  day : Nat := 1
  hour : Nat := 0
  min : Nat := 0
  sec : Nat := 0
  nsec : Nat := 0
deriving DecidableEq, Repr, Inhabited

def isLeap (y : Nat) : Bool := y % 4 = 0 && (y % 100 ≠ 0 || y % 400 = 0)

def daysIn (m y : Nat) : Nat :=
  if m = 2 then (if isLeap y then 29 else 28)
  else if m = 4 ∨ m = 6 ∨ m = 9 ∨ m = 11 then 30 else 31

def d2 (a b : Char) : Nat := (a.toNat - 48) * 10 + (b.toNat - 48)

/-- what may follow the seconds: `Z`, or `[.,]digits+Z` (Go's `time.Parse` accepts a fractional
second that the layout does not mention; only the first nine digits count) -/
def utcTail : Str → Option Nat
  | ['Z'] => some 0
  | p :: f :: rest =>
    if (p = '.' ∨ p = ',') ∧ f.isDigit then
      let digs := (f :: rest).takeWhile Char.isDigit
      if (f :: rest).dropWhile Char.isDigit = ['Z'] then some (frac9 digs) else none
    else none
  | _ => none

/-- `time.Parse("20060102T150405Z", s)` -/
def parseUTC (s : Str) : Res Civil :=
  match s with
  | y1 :: y2 :: y3 :: y4 :: mo1 :: mo2 :: dd1 :: dd2 :: 'T' :: h1 :: h2 :: mi1 :: mi2 :: s1 :: s2 :: tail =>
    if [y1, y2, y3, y4, mo1, mo2, dd1, dd2, h1, h2, mi1, mi2, s1, s2].all Char.isDigit then
      match utcTail tail with
      | some ns =>
        let c : Civil := { year := Nat.ofDigitChars 10 [y1, y2, y3, y4] 0, month := d2 mo1 mo2, day := d2 dd1 dd2,
                           hour := d2 h1 h2, min := d2 mi1 mi2, sec := d2 s1 s2, nsec := ns }
        if 1 ≤ c.month ∧ c.month ≤ 12 ∧ 1 ≤ c.day ∧ c.day ≤ daysIn c.month c.year ∧ c.hour < 24 ∧ c.min < 60 ∧ c.sec < 60
        then .ok c else .err .time
      | none => .err .time
    else .err .time
  | _ => .err .time

def pad4 (n : Nat) : Str := (List.replicate 4 '0' ++ dec n).drop (dec n).length

/-- `t.Format("20060102T150405Z")` for a UTC time with year ≤ 9999 -/
def marshalUTC (c : Civil) : Str :=
  pad4 c.year ++ pad2 c.month ++ pad2 c.day ++ 'T' :: pad2 c.hour ++ pad2 c.min ++ pad2 c.sec ++ ['Z']

/-! ### Range -/

inductive RangeValue
  | smpte (start : SmpteTime) (stop : Option SmpteTime)
  | npt (start : Int) (stop : Option Int)
  | utc (start : Civil) (stop : Option Civil)
deriving DecidableEq, Repr, Inhabited

structure Range where
  value : RangeValue
  time  : Option Civil := none
deriving DecidableEq, Repr, Inhabited

/-- `X.unmarshal(start, end)`: the end is parsed only when it is not empty -/
def startStop {α} (p : Str → Res α) (a b : Str) : Res (α × Option α) :=
  match p a with
  | .ok x =>
    if b = [] then .ok (x, none)
    else match p b with
      | .ok y => .ok (x, some y)
      | .err e => .err e
      | .unm => .unm
  | .err e => .err e
  | .unm => .unm

/-- `rangeValueUnmarshal` -/
def rangeValue {α} (p : Str → Res α) (v : Str) : Res (α × Option α) :=
  match splitOn '-' v with
  | [a, b] => startStop p a b
  | _ => .err .split

def Range.step (st : Option RangeValue × Option Civil) (k v : Str) : Res (Option RangeValue × Option Civil) :=
  if k = cs!"smpte" then
    match rangeValue SmpteTime.unmarshal v with
    | .ok (a, b) => .ok (some (.smpte a b), st.2)
    | .err e => .err e
    | .unm => .unm
  else if k = cs!"npt" then
    match rangeValue nptTime v with
    | .ok (a, b) => .ok (some (.npt a b), st.2)
    | .err e => .err e
    | .unm => .unm
  else if k = cs!"clock" then
    match rangeValue parseUTC v with
    | .ok (a, b) => .ok (some (.utc a b), st.2)
    | .err e => .err e
    | .unm => .unm
  else if k = cs!"time" then
    match parseUTC v with
    | .ok t => .ok (st.1, some t)
    | .err e => .err e
    | .unm => .unm
  else .ok st

def Range.steps (st : Option RangeValue × Option Civil) : List (Str × Str) → Res (Option RangeValue × Option Civil)
  | [] => .ok st
  | (k, v) :: rest =>
    match Range.step st k v with
    | .ok st' => Range.steps st' rest
    | .err e => .err e
    | .unm => .unm

def Range.unmarshal1With (kvp : KvParser) (s : Str) : Res Range :=
  match kvp ';' s with
  | .ok pairs =>
    match Range.steps (none, none) pairs with
    | .ok (some v, t) => .ok { value := v, time := t }
    | .ok (none, _) => .err .missing
    | .err e => .err e
    | .unm => .unm
  | .err e => .err e
  | .unm => .unm

def Range.unmarshalWith (kvp : KvParser) : List Str → Res Range
  | [] => .err .notProvided
  | [s] => Range.unmarshal1With kvp s
  | _ => .err .multiple

def Range.unmarshal : List Str → Res Range := Range.unmarshalWith keyValParse

def RangeValue.marshal : RangeValue → Str
  | .smpte a b => cs!"smpte=" ++ a.marshal ++ '-' :: (match b with | some e => e.marshal | none => [])
  | .npt a b => cs!"npt=" ++ nptMarshalTime a ++ '-' :: (match b with | some e => nptMarshalTime e | none => [])
  | .utc a b => cs!"clock=" ++ marshalUTC a ++ '-' :: (match b with | some e => marshalUTC e | none => [])

def Range.marshal (h : Range) : Str :=
  match h.time with
  | some t => h.value.marshal ++ cs!";time=" ++ marshalUTC t
  | none => h.value.marshal

end Rtsp.Hdr
