/-
Model of /repo/internal/asyncprocessor/async_processor.go (Processor: Initialize, Start, Close,
run/runInner, Push) on top of the ring model.

The processor is a small-step system.  The caller side has `push`, `start` and the three statements
of `Close` (`ctxCancel()`, `buffer.Close()`, `if running { <-done }`), each one step; the consumer
goroutine (`run` → `runInner`) has its own steps (`cpull` = one iteration of `buffer.Pull`,
`cexec` = the callback returns, `cerr` = `OnError` returns).  Any interleaving is a list of
`AOp`s; by `Rtsp.RingConc.conc_linearizable` the ring operations inside are atomic in lock order,
which is what justifies treating `push` / `cpull` / `closeRing` as atomic steps here.

A callback is an identity plus whether it returns an error.  `executed`, `errors`, `accepted` are
history variables (what ran, what `OnError` was called with, which pushes returned true).

Not modelled: a second `Start` (it would launch a second consumer and close `done` twice; no
caller does it — `start` on a started processor is a no-op here), `Initialize` with a size that
`ringbuffer.New` rejects (the error is discarded and `buffer` is nil).

Core Lean only.
-/
import Rtsp.Model.Ring
namespace Rtsp.Async
open Rtsp.Ring

structure Cb where
  id    : Nat
  fails : Bool
deriving DecidableEq, Repr, Inhabited

/-- where the consumer goroutine is -/
inductive CPc where
  | notStarted           -- `Start` not called
  | pulling              -- in `w.buffer.Pull()`
  | holding (c : Cb)     -- `Pull` returned `c`; the callback has not returned yet
  | inError (c : Cb)     -- in `w.OnError(w.ctx, err)`
  | exited               -- `runInner` returned, `done` is closed
deriving DecidableEq, Repr

/-- where the (single) caller of `Close` is -/
inductive ClPc where
  | none | cancelled | ringClosed | returned
deriving DecidableEq, Repr

structure Proc where
  ring        : Ring Cb
  running     : Bool          -- `w.running`
  cancelled   : Bool          -- `w.ctx` is done
  cons        : CPc
  closer      : ClPc
  onErrBlocks : Bool          -- test parameter: `OnError` blocks until `ctx.Done()` (else returns at once)
  executed    : List Cb       -- callbacks that returned, in order
  errors      : List Cb       -- `OnError` invocations, in order
  accepted    : List Cb       -- pushes that returned true, in order
deriving Repr

/-- `Initialize` (with a size accepted by `ringbuffer.New`) -/
def init (size : Nat) (onErrBlocks : Bool) : Proc :=
  { ring := Ring.new size, running := false, cancelled := false, cons := .notStarted, closer := .none,
    onErrBlocks, executed := [], errors := [], accepted := [] }

inductive AOp where
  | push (c : Cb)    -- `Push`
  | start            -- `Start`
  | closeStep        -- the next statement of `Close`
  | cpull            -- consumer: one iteration of `Pull`
  | cexec            -- consumer: the held callback returns (and `OnError` is entered on error)
  | cerr             -- consumer: `OnError` returns
deriving DecidableEq, Repr

/-- `Push`; `false` = refused -/
def push (p : Proc) (c : Cb) : Proc × Bool :=
  let (r, ok) := Ring.push p.ring c
  ({ p with ring := r, accepted := if ok then p.accepted ++ [c] else p.accepted }, ok)

def start (p : Proc) : Proc :=
  match p.cons with
  | .notStarted => { p with running := true, cons := .pulling }
  | _ => p

def closeStep (p : Proc) : Proc :=
  match p.closer with
  | .none | .returned => { p with cancelled := true, closer := .cancelled }      -- `w.ctxCancel()`
  | .cancelled => { p with ring := Ring.close p.ring, closer := .ringClosed }    -- `w.buffer.Close()`
  | .ringClosed =>                                                               -- `if w.running { <-w.done }`
    if !p.running || p.cons == .exited then { p with closer := .returned } else p

def cpull (p : Proc) : Proc :=
  match p.cons with
  | .pulling =>
    match Ring.pullTry p.ring with
    | (r, .item c) => { p with ring := r, cons := .holding c }
    | (_, .closed) => { p with cons := .exited }
    | (_, .wait)   => p
  | _ => p

def cexec (p : Proc) : Proc :=
  match p.cons with
  | .holding c =>
    if c.fails then { p with executed := p.executed ++ [c], errors := p.errors ++ [c], cons := .inError c }
    else { p with executed := p.executed ++ [c], cons := .pulling }
  | _ => p

def cerr (p : Proc) : Proc :=
  match p.cons with
  | .inError _ => if !p.onErrBlocks || p.cancelled then { p with cons := .exited } else p
  | _ => p

def step (p : Proc) : AOp → Proc
  | .push c => (push p c).1
  | .start => start p
  | .closeStep => closeStep p
  | .cpull => cpull p
  | .cexec => cexec p
  | .cerr => cerr p

def run (p : Proc) (ops : List AOp) : Proc := ops.foldl step p

/-! ### deterministic schedule used by the correspondence driver

The harness lets the real consumer run until it blocks (in `Pull`, in a gated callback, or in a
blocking `OnError`) after every operation; `settle` is that schedule. -/

/-- consumer runs as far as it can without the harness releasing a callback gate -/
def settle (p : Proc) : Proc :=
  let p := cerr p
  match p.cons with
  | .pulling => cpull p
  | _ => p

/-- `Close` from `buffer.Close()` on, with the harness releasing the gate of a held callback:
the consumer finishes what it holds and runs until it exits or blocks for good. Fuel bounds the
loop (each round finishes one callback; at most one is held). -/
def joinFuel : Nat → Proc → Proc
  | 0, p => p
  | n + 1, p =>
    if p.closer != .ringClosed then p else
    let p := settle (cexec p)
    let p' := closeStep p
    if p'.closer == .returned then p' else joinFuel n p'

end Rtsp.Async
