/-
Model of the goroutine life cycle of a gortsplib `Server` (server.go `run`/`runInner`, server_tcp_listener.go
`run`, server_conn.go `run`/`runInner`, server_conn_reader.go `run`, server_session.go `run`/`runInner`,
server_udp_listener.go `run`) and of a `Client` (client.go `run`/`runInner`/`doClose`, client_reader.go,
client_udp_listener.go) as a small-step system, abstracted to what matters for property C13:

* which goroutines exist and are registered in `Server.wg`,
* the context tree (`s.ctx` → `sc.ctx`, `ss.ctx`) and who cancels what,
* who waits for whom (`reader.wait()`, `<-sc.done` in `ServerSession.run`, `wg.Wait()` in `Server.Close`,
  `<-c.done` in `Client.Close`),
* at which point of its `run()` each goroutine invokes the user callbacks (`OnConnOpen`, `OnConnClose`,
  `OnSessionOpen`, `OnSessionClose`, `OnRequest`…, `OnPacketRTP`…).

One `Action` = one atomic step of one goroutine (or of the environment: the peer, the API user).  `step`
is the transition function (`none` = the action is not enabled); a visible step carries the `Event` that a
callback recorder sees.  `accepts` is the executable monitor over event traces; `Props/C13.lean` proves that
every trace of the model is accepted and that accepted traces are balanced and ordered.

Over-approximations (the model allows MORE interleavings than the code, never fewer — what is proved of
all model traces therefore covers the code's, as far as the abstraction is right; the abstraction itself is
tested by feeding real callback traces to `accepts`):
* a request may be handled whenever connection and session are in their inner loops (the reader/`cres`
  hand-shake is not modelled), any request kind at any time (protocol state machine not modelled);
* `sessCancelConn` / the wait for `sc.done` happen in any order over `ss.conns` (Go: map iteration order);
* `removeConn` (the `chRemoveConn` message) is optional (Go: `select` with `ss.ctx.Done()`);
* the UDP listener de-registration (`serverSessionMedia.stop`) is merged into the close callback step.

Core Lean only: compiled into `oracle_life`.
-/
namespace Rtsp.Life

/-- What the callback recorder of the harness logs.  Connection / session identities are small numbers
handed out by the recorder (model: index of creation). -/
inductive Event where
  | connOpen (c : Nat)                 -- OnConnOpen
  | connClose (c : Nat)                -- OnConnClose
  | sessionOpen (s : Nat) (c : Nat)    -- OnSessionOpen (c = ctx.Conn, the author)
  | sessionClose (s : Nat)             -- OnSessionClose
  | request (c : Nat)                  -- OnRequest / OnResponse / OnDescribe… (connection-level callback)
  | sreq (s : Nat) (c : Nat)           -- OnAnnounce/OnSetup/OnPlay/OnRecord/OnPause/On{Get,Set}Parameter with a session
  | packet (s : Nat)                   -- OnPacketRTP/RTCP, OnPacketsLost, OnDecodeError, OnStreamWriteError of session s
  | closeCalled                        -- the harness is about to call Close()
  | closeReturned                      -- Close() returned
deriving DecidableEq, Repr, Inhabited

/-! ## Server side -/

/-- where a `ServerConn.run` goroutine is -/
inductive CPhase where
  | absent     -- not accepted yet
  | spawned    -- `sc.initialize()`: registered in `s.wg`, goroutine started, before `OnConnOpen`
  | running    -- after `OnConnOpen`, reader started, inside `runInner`
  | stopping   -- `runInner` returned; `sc.ctxCancel()`, `nconn.Close()`; blocked in `reader.wait()`
  | joined     -- reader joined; `session.removeConn`, `s.closeConn`; before `OnConnClose`
  | closed     -- `OnConnClose` returned, `close(sc.done)`, `wg.Done()`
deriving DecidableEq, Repr, Inhabited

structure Conn where
  phase     : CPhase := .absent
  cancelled : Bool := false        -- `sc.ctxCancel()` was called (by anybody); `s.ctx` is tracked separately
  reader    : Bool := false        -- the `serverConnReader.run` goroutine is alive
  tcp       : Bool := false        -- the reader is in `readFuncTCP` (interleaved frames → packet callbacks)
  session   : Option Nat := none   -- `sc.session`
deriving DecidableEq, Repr, Inhabited

/-- where a `ServerSession.run` goroutine is -/
inductive SPhase where
  | absent
  | spawned    -- `ss.initialize()`: registered in `s.wg`, before `OnSessionOpen`
  | running    -- inside `runInner`
  | stopping   -- `runInner` returned, `ss.ctxCancel()`; closing its connections and waiting for `sc.done`
  | closed     -- `OnSessionClose` returned, `wg.Done()`
deriving DecidableEq, Repr, Inhabited

structure Sess where
  phase     : SPhase := .absent
  cancelled : Bool := false
  author    : Nat := 0
  conns     : List Nat := []       -- `ss.conns`
  udp       : Bool := false        -- registered with the server UDP listeners / active reader of a stream
deriving DecidableEq, Repr, Inhabited

structure State where
  srvRunning    : Bool := true     -- `Server.run` has not returned
  lnRunning     : Bool := true     -- `serverTCPListener.run` has not returned
  cancelled     : Bool := false    -- `s.ctx` is cancelled
  wg            : Nat := 2         -- `s.wg` counter (Start: run + listener)
  closeCalled   : Bool := false
  closeReturned : Bool := false
  nConns        : Nat := 0
  nSess         : Nat := 0
  conn          : Nat → Conn := fun _ => {}
  sess          : Nat → Sess := fun _ => {}

/-- state right after `Server.Start()` returned -/
def init : State := {}

def State.setConn (st : State) (c : Nat) (v : Conn) : State :=
  { st with conn := fun i => if i = c then v else st.conn i }

def State.setSess (st : State) (s : Nat) (v : Sess) : State :=
  { st with sess := fun i => if i = s then v else st.sess i }

/-- `sc.ctx.Done()` is ready: own cancel or the parent `s.ctx` -/
def State.connCancelled (st : State) (c : Nat) : Bool := (st.conn c).cancelled || st.cancelled

def State.sessCancelled (st : State) (s : Nat) : Bool := (st.sess s).cancelled || st.cancelled

/-- outcome of a request handled by a session (`handleRequestInner`) as far as the life cycle goes -/
inductive ReqKind where
  | plain      -- ANNOUNCE / SETUP / GET_PARAMETER / SET_PARAMETER / OPTIONS / failed request
  | playTcp    -- PLAY / RECORD with the TCP transport: `switchReadFuncError{true}`
  | playUdp    -- PLAY / RECORD with UDP: media registered in the UDP listeners
  | pause      -- PAUSE: `switchReadFuncError{false}`, media de-registered
  | teardown   -- TEARDOWN: connection detached, `runInner` returns `ErrServerSessionTornDown`
deriving DecidableEq, Repr, Inhabited

inductive Action where
  -- the API user and the server goroutines
  | closeCall                      -- `Server.Close()`: `s.ctxCancel()` (then blocks in `wg.Wait()`)
  | closeReturn                    -- `wg.Wait()` returns
  | srvExit                        -- `runInner` sees `ctx.Done()`, listeners closed, `wg.Done()`
  | lnExit                         -- `Accept` fails after `ln.Close()`, `wg.Done()`
  | accept                         -- `chNewConn`: `sc.initialize()` (`wg.Add(1)`, `go sc.run()`)
  -- connection c
  | connOpenCb (c : Nat)           -- `OnConnOpen`, `reader.initialize()`
  | request (c : Nat)              -- `handleRequestOuter`: `OnRequest` (and `OnResponse`, `OnDescribe`, …)
  | createSess (c : Nat)           -- `chFindOrCreateSession` (create): `ss.initialize()` (`wg.Add(1)`, `go ss.run()`)
  | connExit (c : Nat)             -- `runInner` returns because `ctx.Done()` or `chReadError`; `ctxCancel`, `nconn.Close()`
  | connFail (c : Nat)             -- `runInner` returns because a request failed / the peer misbehaved
  | readerExit (c : Nat)           -- reader returns because `nconn` was closed / `ctx.Done()`
  | readerFail (c : Nat)           -- reader returns on a read error / EOF / timeout caused by the peer
  | connJoin (c : Nat)             -- `reader.wait()` returns
  | removeConn (c : Nat)           -- `sc.session.removeConn(sc)` accepted by the session's `runInner`
  | connCloseCb (c : Nat)          -- `OnConnClose`, `close(sc.done)`, `wg.Done()`
  | cancelConn (c : Nat)           -- `ServerConn.Close()` by the user / by `Server.runInner` (`chCloseConn`)
  | pktTcp (c : Nat)               -- reader in `readFuncTCP` gets an interleaved frame → packet callback of `sc.session`
  -- session s
  | sessOpenCb (s : Nat)           -- `OnSessionOpen`
  | sreq (s : Nat) (c : Nat) (k : ReqKind)   -- `chHandleRequest` from connection c
  | pktUdp (s : Nat)               -- UDP listener goroutine / stream writer invokes a callback of session s
  | sessExit (s : Nat)             -- `runInner` returns because `ctx.Done()`
  | sessFail (s : Nat)             -- `runInner` returns: timeout, writer error, not in use
  | sessCancelConn (s : Nat) (c : Nat)  -- `sc.Close()` in the loop over `ss.conns`
  | sessCloseCb (s : Nat)          -- all `<-sc.done` passed, medias closed, `OnSessionClose`, `wg.Done()`
  | cancelSess (s : Nat)           -- `ServerSession.Close()` by the user / `ServerStream.Close()` / `chCloseSession`
deriving DecidableEq, Repr, Inhabited

/-- steps a goroutine of the library takes by itself once they are enabled (no peer, no API user needed):
the cancel-driven part of the system.  Fairness is assumed for exactly these. -/
def Action.own : Action → Bool
  | .closeReturn | .srvExit | .lnExit
  | .connOpenCb _ | .connExit _ | .readerExit _ | .connJoin _ | .connCloseCb _
  | .sessOpenCb _ | .sessExit _ | .sessCancelConn _ _ | .sessCloseCb _ => true
  | _ => false

def allConnsClosed (st : State) (cs : List Nat) : Bool :=
  cs.all fun c => (st.conn c).phase == .closed

/-- effect of a request on the connection that carried it -/
def reqConn (k : ReqKind) (s : Nat) (cn : Conn) : Conn :=
  match k with
  | .plain    => { cn with session := some s }
  | .playTcp  => { cn with session := some s, tcp := true }
  | .playUdp  => { cn with session := some s }
  | .pause    => { cn with session := some s, tcp := false }
  | .teardown => { cn with session := none, tcp := false }

/-- effect of a request on the session -/
def reqSess (k : ReqKind) (c : Nat) (ss : Sess) : Sess :=
  match k with
  | .plain    => { ss with conns := c :: ss.conns.erase c }
  | .playTcp  => { ss with conns := c :: ss.conns.erase c }
  | .playUdp  => { ss with conns := c :: ss.conns.erase c, udp := true }
  | .pause    => { ss with conns := c :: ss.conns.erase c, udp := false }
  | .teardown => { ss with conns := ss.conns.erase c, phase := .stopping, cancelled := true }

def reqEvent (k : ReqKind) (s c : Nat) : Option Event :=
  match k with
  | .teardown => none          -- there is no session-level TEARDOWN callback (OnRequest was `request c`)
  | _ => some (.sreq s c)

/-- The transition function.  `none`: not enabled. -/
def step (st : State) : Action → Option (State × Option Event)
  | .closeCall =>
    if !st.closeCalled then some ({ st with closeCalled := true, cancelled := true }, some .closeCalled) else none
  | .closeReturn =>
    if st.closeCalled && !st.closeReturned && st.wg == 0 then
      some ({ st with closeReturned := true }, some .closeReturned) else none
  | .srvExit =>
    if st.srvRunning && st.cancelled then some ({ st with srvRunning := false, wg := st.wg - 1 }, none) else none
  | .lnExit =>
    if st.lnRunning && !st.srvRunning then some ({ st with lnRunning := false, wg := st.wg - 1 }, none) else none
  | .accept =>
    if st.lnRunning && st.srvRunning then
      some ({ (st.setConn st.nConns { phase := .spawned }) with nConns := st.nConns + 1, wg := st.wg + 1 }, none)
    else none
  | .connOpenCb c =>
    let cn := st.conn c
    if cn.phase == .spawned then
      some (st.setConn c { cn with phase := .running, reader := true }, some (.connOpen c)) else none
  | .request c =>
    let cn := st.conn c
    if cn.phase == .running && cn.reader then some (st, some (.request c)) else none
  | .createSess c =>
    let cn := st.conn c
    if cn.phase == .running && cn.reader && cn.session == none && st.srvRunning then
      some ({ (st.setSess st.nSess { phase := .spawned, author := c, conns := [c] }) with
                nSess := st.nSess + 1, wg := st.wg + 1 }, none)
    else none
  | .connExit c =>
    let cn := st.conn c
    if cn.phase == .running && (st.connCancelled c || !cn.reader) then
      some (st.setConn c { cn with phase := .stopping, cancelled := true }, none) else none
  | .connFail c =>
    let cn := st.conn c
    if cn.phase == .running then
      some (st.setConn c { cn with phase := .stopping, cancelled := true }, none) else none
  | .readerExit c =>
    let cn := st.conn c
    if cn.reader && cn.phase == .stopping then
      some (st.setConn c { cn with reader := false, tcp := false }, none) else none
  | .readerFail c =>
    let cn := st.conn c
    if cn.reader then some (st.setConn c { cn with reader := false, tcp := false }, none) else none
  | .connJoin c =>
    let cn := st.conn c
    if cn.phase == .stopping && !cn.reader then some (st.setConn c { cn with phase := .joined }, none) else none
  | .removeConn c =>
    let cn := st.conn c
    match cn.session with
    | some s =>
      let ss := st.sess s
      if cn.phase == .joined && ss.phase == .running then
        some (st.setSess s { ss with conns := ss.conns.erase c }, none) else none
    | none => none
  | .connCloseCb c =>
    let cn := st.conn c
    if cn.phase == .joined then
      some ({ (st.setConn c { cn with phase := .closed }) with wg := st.wg - 1 }, some (.connClose c)) else none
  | .cancelConn c =>
    let cn := st.conn c
    if cn.phase != .absent then some (st.setConn c { cn with cancelled := true }, none) else none
  | .pktTcp c =>
    let cn := st.conn c
    match cn.session with
    | some s => if cn.reader && cn.tcp then some (st, some (.packet s)) else none
    | none => none
  | .sessOpenCb s =>
    let ss := st.sess s
    if ss.phase == .spawned then
      some (st.setSess s { ss with phase := .running }, some (.sessionOpen s ss.author)) else none
  | .sreq s c k =>
    let ss := st.sess s
    let cn := st.conn c
    if ss.phase == .running && cn.phase == .running && cn.reader &&
        (cn.session == none || cn.session == some s) then
      some ((st.setConn c (reqConn k s cn)).setSess s (reqSess k c ss), reqEvent k s c)
    else none
  | .pktUdp s =>
    let ss := st.sess s
    if ss.udp then some (st, some (.packet s)) else none
  | .sessExit s =>
    let ss := st.sess s
    if ss.phase == .running && st.sessCancelled s then
      some (st.setSess s { ss with phase := .stopping, cancelled := true }, none) else none
  | .sessFail s =>
    let ss := st.sess s
    if ss.phase == .running then
      some (st.setSess s { ss with phase := .stopping, cancelled := true }, none) else none
  | .sessCancelConn s c =>
    let ss := st.sess s
    let cn := st.conn c
    if ss.phase == .stopping && ss.conns.contains c && !cn.cancelled then
      some (st.setConn c { cn with cancelled := true }, none) else none
  | .sessCloseCb s =>
    let ss := st.sess s
    if ss.phase == .stopping && allConnsClosed st ss.conns then
      some ({ (st.setSess s { ss with phase := .closed, udp := false }) with wg := st.wg - 1 },
            some (.sessionClose s))
    else none
  | .cancelSess s =>
    let ss := st.sess s
    if ss.phase != .absent then some (st.setSess s { ss with cancelled := true }, none) else none

/-- run a list of actions; `none` if one of them is not enabled.  Returns the final state and the visible
trace. -/
def run (st : State) : List Action → Option (State × List Event)
  | [] => some (st, [])
  | a :: as =>
    match step st a with
    | none => none
    | some (st', e) =>
      match run st' as with
      | none => none
      | some (st'', es) => some (st'', e.toList ++ es)

/-- every registered goroutine has finished -/
def State.allDone (st : State) : Prop :=
  st.srvRunning = false ∧ st.lnRunning = false ∧
  (∀ c, c < st.nConns → (st.conn c).phase = .closed) ∧
  (∀ s, s < st.nSess → (st.sess s).phase = .closed)

/-! ## The monitor -/

/-- what the monitor remembers of a trace -/
structure MState where
  opened        : List Nat := []    -- connections whose OnConnOpen was seen
  closed        : List Nat := []    -- connections whose OnConnClose was seen
  sopened       : List Nat := []
  sclosed       : List Nat := []
  closeCalled   : Bool := false
  closeReturned : Bool := false
deriving DecidableEq, Repr, Inhabited

def MState.connOpen (m : MState) (c : Nat) : Bool := m.opened.contains c && !m.closed.contains c
def MState.sessOpen (m : MState) (s : Nat) : Bool := m.sopened.contains s && !m.sclosed.contains s

def mstep (m : MState) (e : Event) : Option MState :=
  if m.closeReturned then none else
  match e with
  | .connOpen c => if !m.opened.contains c then some { m with opened := c :: m.opened } else none
  | .connClose c => if m.connOpen c then some { m with closed := c :: m.closed } else none
  | .sessionOpen s c =>
    if !m.sopened.contains s && m.opened.contains c then some { m with sopened := s :: m.sopened } else none
  | .sessionClose s => if m.sessOpen s then some { m with sclosed := s :: m.sclosed } else none
  | .request c => if m.connOpen c then some m else none
  | .sreq s c => if m.sessOpen s && m.connOpen c then some m else none
  | .packet s => if m.sessOpen s then some m else none
  | .closeCalled => if !m.closeCalled then some { m with closeCalled := true } else none
  | .closeReturned =>
    if m.closeCalled && m.opened.all (m.closed.contains ·) && m.sopened.all (m.sclosed.contains ·) then
      some { m with closeReturned := true } else none

def mrun (m : MState) : List Event → Option MState
  | [] => some m
  | e :: es => match mstep m e with
    | none => none
    | some m' => mrun m' es

/-- the monitor: is this callback trace one the life-cycle discipline allows? -/
def accepts (tr : List Event) : Bool := (mrun {} tr).isSome

/-! ## Client side

`Client.run`: `runInner` (API requests, keep-alives, reader messages) → `ctxCancel` → `doClose`
(`destroyWriter`, `stopTransportRoutines`, TEARDOWN, `nconn.Close()`, `reader.close()`, `cm.close()`) →
`close(c.done)`; `Client.Close` = `ctxCancel(); <-c.done`.  The recorder logs `request 0` for
OnRequest/OnResponse/OnServerRequest…, `packet 0` for OnPacketRTP/RTCP/OnPacketsLost/OnDecodeError. -/

inductive KPhase where
  | running    -- inside `runInner`
  | closing    -- inside `doClose`
  | done       -- `close(c.done)`
deriving DecidableEq, Repr, Inhabited

structure Client where
  phase         : KPhase := .running
  cancelled     : Bool := false
  connected     : Bool := false    -- `c.nconn != nil`
  reader        : Bool := false    -- `clientReader.run` alive
  tcp           : Bool := false    -- `allowInterleavedFrames`
  udp           : Bool := false    -- `clientUDPListener.run` goroutines alive
  teardownSent  : Bool := false
  closeCalled   : Bool := false
  closeReturned : Bool := false
deriving DecidableEq, Repr, Inhabited

inductive KAction where
  | closeCall | closeReturn
  | connect                 -- `connOpen`: dial, reader started
  | apiRequest              -- an API call handled by `runInner`: OnRequest/OnResponse callbacks
  | playTcp | playUdp | pause
  | pktTcp | pktUdp
  | readerFail              -- peer closed / read error: reader returns, `chReadError`
  | exit                    -- `runInner` returns because `ctx.Done()` / read error
  | fail                    -- `runInner` returns: timeout, request error
  | stopTransports          -- `doClose`: `stopTransportRoutines` (UDP listeners joined, frames disallowed)
  | teardown                -- `doClose`: TEARDOWN written (OnRequest callback)
  | readerClose             -- `doClose`: `nconn.Close(); reader.close()` (joined)
  | finish                  -- `doClose` returns, `close(c.done)`
deriving DecidableEq, Repr, Inhabited

def KAction.own : KAction → Bool
  | .closeReturn | .exit | .stopTransports | .teardown | .readerClose | .finish => true
  | _ => false

def kstep (k : Client) : KAction → Option (Client × Option Event)
  | .closeCall =>
    if !k.closeCalled then some ({ k with closeCalled := true, cancelled := true }, some .closeCalled) else none
  | .closeReturn =>
    if k.closeCalled && !k.closeReturned && k.phase == .done then
      some ({ k with closeReturned := true }, some .closeReturned) else none
  | .connect =>
    if k.phase == .running && !k.connected then some ({ k with connected := true, reader := true }, none) else none
  | .apiRequest =>
    if k.phase == .running && k.connected then some (k, some (.request 0)) else none
  | .playTcp =>
    if k.phase == .running && k.connected && k.reader then some ({ k with tcp := true }, some (.request 0)) else none
  | .playUdp =>
    if k.phase == .running && k.connected then some ({ k with udp := true }, some (.request 0)) else none
  | .pause =>
    if k.phase == .running && k.connected then some ({ k with udp := false, tcp := false }, some (.request 0)) else none
  | .pktTcp => if k.reader && k.tcp then some (k, some (.packet 0)) else none
  | .pktUdp => if k.udp then some (k, some (.packet 0)) else none
  | .readerFail => if k.reader then some ({ k with reader := false, tcp := false }, none) else none
  | .exit =>
    if k.phase == .running && (k.cancelled || (k.connected && !k.reader)) then
      some ({ k with phase := .closing, cancelled := true }, none) else none
  | .fail =>
    if k.phase == .running then some ({ k with phase := .closing, cancelled := true }, none) else none
  | .stopTransports =>
    if k.phase == .closing && (k.udp || k.tcp) then some ({ k with udp := false, tcp := false }, none) else none
  | .teardown =>
    if k.phase == .closing && !k.udp && !k.tcp && k.connected && !k.teardownSent then
      some ({ k with teardownSent := true }, some (.request 0)) else none
  | .readerClose =>
    if k.phase == .closing && !k.udp && !k.tcp && k.reader then
      some ({ k with reader := false, connected := false }, none) else none
  | .finish =>
    if k.phase == .closing && !k.udp && !k.tcp && !k.reader then
      some ({ k with phase := .done }, none) else none

def krun (k : Client) : List KAction → Option (Client × List Event)
  | [] => some (k, [])
  | a :: as =>
    match kstep k a with
    | none => none
    | some (k', e) =>
      match krun k' as with
      | none => none
      | some (k'', es) => some (k'', e.toList ++ es)

/-- client monitor: callbacks only before `Close` returned; `Close` returns once, after it was called -/
def kmstep (m : Bool × Bool) (e : Event) : Option (Bool × Bool) :=
  if m.2 then none else
  match e with
  | .request 0 | .packet 0 => some m
  | .closeCalled => if !m.1 then some (true, false) else none
  | .closeReturned => if m.1 then some (true, true) else none
  | _ => none

def kmrun (m : Bool × Bool) : List Event → Option (Bool × Bool)
  | [] => some m
  | e :: es => match kmstep m e with
    | none => none
    | some m' => kmrun m' es

def acceptsClient (tr : List Event) : Bool := (kmrun (false, false) tr).isSome

end Rtsp.Life
