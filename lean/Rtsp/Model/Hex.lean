/-
Lower-case hexadecimal encoding of a byte string (Go: `encoding/hex.EncodeToString`), as bytes.
Core Lean only (linked into `oracle_auth`).
-/
namespace Rtsp.Hex

/-- the ASCII code of the lower-case hex digit of `n < 16` -/
def digit (n : UInt8) : UInt8 := if n < 10 then 48 + n else 87 + n

/-- `hex.EncodeToString` -/
def encode : List UInt8 → List UInt8
  | [] => []
  | b :: bs => digit (b >>> 4) :: digit (b &&& 15) :: encode bs

theorem length_encode (bs : List UInt8) : (encode bs).length = 2 * bs.length := by
  induction bs with
  | nil => rfl
  | cons b bs ih => simp [encode, ih]; omega

end Rtsp.Hex
