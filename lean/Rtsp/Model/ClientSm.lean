import Rtsp.Generated.Facts.ClientSm
/-
Executable model of the control state machine of gortsplib's client (client.go), core Lean only.

The client has ONE run loop (`Client.run` / `runInner`) that owns all state; API calls are messages
to it.  While it serves a call it may block only in `waitResponse`, where a timer (ReadTimeout) is
armed.  The Go call stack at such a point is represented by an explicit list of frames (`Fr`): the
top frame is `wait m cseq` (inside `do`, waiting for the answer to request `m`), below it the
callers (`doOptions`, `doDescribe`, `doSetup`, `reset`, …); when the stack is unwound control is back
in `runInner`, which hands the result to the caller (`pending`) and leaves when `mustClose` is set.  `step` consumes ONE event (API call, response, request from the server,
interleaved frame, read error, timer, Close) and runs the loop to its next blocking point.

Server behaviour = input events.  Results are small enums (`Err` = names of the liberrors types,
`other` = any other error).  What is modelled function by function:
  runInner / waitResponse / handleServerRequest / run+doClose / reset / connOpen / do (CSeq, Session
  capture, implicit OPTIONS, 401 retry) / doOptions / doDescribe (redirects, Content-Type, SDP, base
  URL) / doAnnounce / doSetup (protocol choice, 461 retry, UDP→TCP switch with re-DESCRIBE, response
  validation) / doPlay / doRecord / doPause / isChannelPairInUse / findFreeChannelPair.
Not modelled: keep-alive and UDP/TCP liveness timers, SRTP/MIKEY, multicast listeners, tunnels,
write errors (a failed write surfaces as the read error that follows it).
-/
namespace Rtsp.ClientSm
open Rtsp.Facts.ClientSm (statusOK statusMovedPermanently statusUseProxy statusUnauthorized statusNotFound statusUnsupportedTransport maxRedirects)

inductive CState | initial | prePlay | play | preRecord | record
  deriving DecidableEq, Repr, Inhabited

inductive Proto | udp | mcast | tcp
  deriving DecidableEq, Repr, Inhabited

inductive Meth | options | describe | announce | setup | play | record | pause | teardown
  deriving DecidableEq, Repr, Inhabited

/-- Result classes: the liberrors client error types that can come out of the control path;
`other` = any error that is not one of them (EOF, parse errors, dial errors, fmt.Errorf …). -/
inductive Err
  | timeout | badStatus | invalidState | terminated | sessionInvalid | authSetup | unhandledMethod
  | unexpectedFrame | contentTypeMissing | contentTypeUnsupported | sdpInvalid | transportInvalid
  | serverRequestedTCP | serverRequestedUDP | invalidDelivery | serverPortsNotProvided
  | noInterleavedIDs | invalidInterleavedIDs | interleavedIDsInUse | udpTimeout | tcpTimeout | other
  deriving DecidableEq, Repr, Inhabited

/-- The CSeq header of a response: one value that is a number, one value that is not the decimal
text of any request number (`garbage`), no header, or more than one header. -/
inductive CSeqH | num (n : Nat) | garbage | missing | dup
  deriving DecidableEq, Repr, Inhabited

inductive SessK | none | good (id : Nat) | bad
  deriving DecidableEq, Repr, Inhabited

/-- WWW-Authenticate of a 401: usable by auth.Sender.Initialize or not. -/
inductive AuthK | none | valid | invalid
  deriving DecidableEq, Repr, Inhabited

/-- Location header of a 3xx. `dead` = parsable, nobody listens there; `multi` = header given twice. -/
inductive LocK | none | good | unparsable | downgrade | dead | multi
  deriving DecidableEq, Repr, Inhabited

inductive CtK | ok | missing | dup | unsupported
  deriving DecidableEq, Repr, Inhabited

inductive DelivK | none | unicast | multicast
  deriving DecidableEq, Repr, Inhabited

inductive PortsK | none | valid | anyPort
  deriving DecidableEq, Repr, Inhabited

/-- Transport header of a SETUP response (after headers.Transport.Unmarshal). -/
structure TrH where
  present : Bool := true          -- header present exactly once and parsable
  tcp : Bool := false             -- protocol RTP/AVP/TCP
  delivery : DelivK := .unicast
  serverPorts : PortsK := .valid
  interleaved : Option (Nat × Nat) := none
  savp : Bool := false            -- profile RTP/SAVP
  deriving DecidableEq, Repr, Inhabited

structure Resp where
  cseq : CSeqH := .missing
  status : Nat := statusOK
  sess : SessK := .none
  www : AuthK := .none
  loc : LocK := .none
  ct : CtK := .ok
  sdpOk : Bool := true
  baseOk : Bool := true           -- findBaseURL succeeds (control attribute / Content-Base parsable)
  tr : TrH := {}
  deriving DecidableEq, Repr, Inhabited

/-- arguments of a Setup call that matter to the control logic -/
structure SetupArgs where
  mi : Nat := 0                   -- index of the media (key of setuppedMedias)
  back : Bool := false            -- media.IsBackChannel
  ctlOk : Bool := true            -- Media.URL(baseURL) succeeds
  deriving DecidableEq, Repr, Inhabited

inductive Api | options | describe | announce | setup (a : SetupArgs) | play | record | pause
  deriving DecidableEq, Repr, Inhabited

inductive Ev
  | call (a : Api)
  | resp (r : Resp)
  | sreq (isOptions : Bool)       -- request from the server (OPTIONS or any other method)
  | frame (ch : Nat)              -- interleaved frame
  | readErr                       -- the reader goroutine failed (EOF, unparsable input, oversized frame)
  | timer                         -- the ReadTimeout timer of waitResponse fires
  | liveness (got stale : Bool)   -- checkTimeoutTimer fires while playing (got: a UDP packet arrived so far;
                                  -- stale: nothing arrived for ReadTimeout)
  | close                         -- Client.Close (context cancelled)
  deriving DecidableEq, Repr, Inhabited

/-- client configuration -/
structure Cfg where
  proto : Option Proto := none    -- Client.Protocol (none = automatic)
  creds : Bool := false           -- the URL carries credentials
  backch : Bool := false          -- RequestBackChannels
  anyPort : Bool := false         -- AnyPortEnable
  secure : Bool := false          -- scheme rtsps
  deriving DecidableEq, Repr, Inhabited

abbrev Res := Option Err          -- none = nil error

/-- value returned by a Go function to its caller -/
inductive Val | resp (r : Resp) | err (e : Err) | nil
  deriving DecidableEq, Repr, Inhabited

inductive AfterReset
  | redirect (loc : LocK) (n : Nat) -- doDescribe: parse Location, doDescribe again (n: redirects followed so far, this one included)
  | switchTcp (a : SetupArgs)     -- doSetup: server answered TCP to a UDP request: DESCRIBE, SETUP again
  | switchAll (ms : List SetupArgs) -- trySwitchingProtocol: DESCRIBE, SETUP of every media over TCP, PLAY
  deriving DecidableEq, Repr, Inhabited

/-- frames of the run loop's call stack at a blocking point (innermost first) -/
inductive Fr
  | wait (m : Meth) (cseq : Nat) (tp : Nat) -- do → waitResponse (tp: transport code of a SETUP)
  | doOpt (m : Meth) (skip : Bool) (tp : Nat) -- do: the implicit doOptions is running, `m` is sent afterwards
  | optionsK                              -- doOptions after do
  | describeK (redirects : Nat)            -- doDescribeRedirect(u, redirects) after do
  | announceK
  | setupK (a : SetupArgs) (p : Proto)
  | playK | recordK | pauseK
  | redescK (a : SetupArgs)               -- doSetup: the re-DESCRIBE of the TCP switch is running
  | swDescK (ms : List SetupArgs)         -- trySwitchingProtocol: its doDescribe is running
  | swSetupK (rest : List SetupArgs)      -- trySwitchingProtocol: one of its doSetup is running
  | swPlayK                               -- trySwitchingProtocol: its doPlay is running
  | resetK (n : AfterReset) (saved : Bool) -- reset → doClose: TEARDOWN's `do` is running (saved: mustClose before it)
  deriving DecidableEq, Repr, Inhabited

inductive Out
  | ret (a : Api) (r : Res)
  | sent (m : Meth) (cseq : Nat) (sess : Option Nat) (auth : Bool) (tp : Nat)
  | replied                               -- answered an OPTIONS of the server
  | dial
  | hangup                                -- the client closed its connection
  deriving DecidableEq, Repr, Inhabited

structure St where
  cst : CState := .initial
  closed : Bool := false          -- run() returned: `done` is closed
  closeRes : Res := none          -- c.closeError
  mustClose : Bool := false
  ctxDone : Bool := false         -- c.ctx is cancelled (Close was called or run() is leaving)
  conn : Bool := false            -- c.nconn != nil
  reader : Bool := false          -- c.reader != nil
  allow : Bool := false           -- reader.allowInterleavedFrames
  writer : Bool := false          -- c.writer != nil
  session : Option Nat := none
  cseq : Nat := 0
  optionsSent : Bool := false
  sender : Bool := false          -- c.sender != nil
  baseUrl : Bool := false         -- c.baseURL != nil
  tr : Option Proto := none       -- c.setuppedTransport
  chans : List (Nat × Nat) := []  -- (media, tcpChannel) of c.setuppedMedias
  backSet : Bool := false
  stdSet : Bool := false
  lastDesc : Bool := false        -- c.lastDescribeURL != nil
  checkInitial : Bool := false    -- c.checkTimeoutInitial
  dialOk : Bool := true           -- a dial to (c.Scheme, c.Host) succeeds
  pending : Option Api := none    -- the API call runInner is serving
  stack : List Fr := []
  out : List Out := []
  deriving DecidableEq, Repr, Inhabited

def emit (s : St) (o : Out) : St := { s with out := s.out ++ [o] }

def stateIn (s : St) (l : List CState) : Bool := l.contains s.cst

def preStates : List CState := [.initial, .prePlay, .preRecord]

/-- `connOpen`: dial when there is no connection. -/
def connOpen (s : St) : Option St :=
  if s.conn then some s
  else if s.dialOk && !s.ctxDone then some (emit { s with conn := true, reader := true, allow := false } .dial)
  else none

def chanInUse (chans : List (Nat × Nat)) (ch : Nat) : Bool :=
  chans.any fun (_, c) => c + 1 == ch || c == ch || c == ch + 1

/-- `findFreeChannelPair`: the smallest even channel whose pair is free (every set-up media blocks at
most two even numbers, so one of the first `2·n+1` candidates is free). -/
def freeChan (chans : List (Nat × Nat)) : Nat :=
  match (List.range (2 * chans.length + 2)).find? (fun i => !chanInUse chans (2 * i)) with
  | some i => 2 * i
  | none => 2 * (2 * chans.length + 2)

/-- protocol doSetup picks -/
def pickProto (c : Cfg) (s : St) : Proto :=
  match s.tr with
  | some p => p
  | none =>
    match c.proto with
    | some p => p
    | none => if c.secure then .tcp else .udp

def tpCode (s : St) (p : Proto) : Nat :=
  match p with
  | .udp => 1
  | .mcast => 2
  | .tcp => 10 + freeChan s.chans

/-- the part of `do` that writes the request -/
def sendReq (s : St) (m : Meth) (tp : Nat := 0) : St :=
  emit { s with cseq := s.cseq + 1 } (.sent m (s.cseq + 1) s.session s.sender tp)

/-- `do` from its first line.  Blocks (result has `wait …` on top of `fs ++ k`) or finishes at once:
`onErr` when the implicit doOptions fails before anything is sent or when the context is already
cancelled (waitResponse returns ErrClientTerminated at once), `onSkip` after the write when no
response is awaited. -/
def startDo (s : St) (m : Meth) (skip : Bool) (tp : Nat) (fs k : List Fr)
    (onErr : St → Err → St) (onSkip : St → St) : St :=
  if !s.optionsSent && m != .options then
    -- doOptions: checkState, connOpen, do(OPTIONS)
    if stateIn s preStates then
      match connOpen s with
      | none => onErr s .other
      | some s1 =>
        let s2 := sendReq s1 .options
        if s2.ctxDone then onErr { s2 with mustClose := true } .terminated
        else { s2 with stack := .wait .options s2.cseq 0 :: .optionsK :: .doOpt m skip tp :: (fs ++ k) }
    else onErr s .invalidState
  else
    let s1 := sendReq s m tp
    if skip then onSkip s1
    else if s1.ctxDone then onErr { s1 with mustClose := true } .terminated
    else { s1 with stack := .wait m s1.cseq tp :: (fs ++ k) }

/-- what `doClose` does to connection, reader and media (not the TEARDOWN) -/
def closeConn (s : St) : St :=
  let s1 : St := { s with conn := false, reader := false, allow := false }
  if s.conn then emit s1 .hangup else s1

/-- `reset` after its doClose: forget the session -/
def clearSession (s : St) : St :=
  let s1 := closeConn s
  { s1 with
      cst := .initial, session := none, sender := false, cseq := 0, optionsSent := false,
      baseUrl := false, tr := none, backSet := false, stdSet := false, chans := [] }

/-- `run`: runInner returned `e`; cancel the context, doClose.  The context is cancelled, so the
TEARDOWN's `do` cannot block: if OPTIONS was never answered with 200 only that OPTIONS is written. -/
def runExit (s : St) (e : Res) : St :=
  let s1 : St := { s with closed := true, closeRes := e, stack := [], ctxDone := true }
  let s2 : St := if s1.cst == .play || s1.cst == .record then { s1 with writer := false, allow := false } else s1
  let s3 : St :=
    if s2.conn && s2.baseUrl then
      if s2.optionsSent then sendReq s2 .teardown
      else if stateIn s2 preStates then sendReq s2 .options else s2
    else s2
  closeConn s3

def describeStart (s : St) (redirects : Nat) (fs k : List Fr) (retK : St → Val → St) : St :=
  if stateIn s preStates then
    match connOpen s with
    | none => retK s (.err .other)
    | some s1 => startDo s1 .describe false 0 (.describeK redirects :: fs) k (fun s e => retK s (.err e)) id
  else retK s (.err .invalidState)

def setupStart (c : Cfg) (s : St) (a : SetupArgs) (fs k : List Fr) (retK : St → Val → St) : St :=
  if stateIn s preStates then
    match connOpen s with
    | none => retK s (.err .other)
    | some s1 =>
      let p := pickProto c s1
      if (p == .udp || p == .mcast) && c.secure then retK s1 (.err .other)
      else if a.back && !c.backch then retK s1 (.err .other)
      else if !a.ctlOk then retK s1 (.err .other)
      else startDo s1 .setup false (tpCode s1 p) (.setupK a p :: fs) k (fun s e => retK s (.err e)) id
  else retK s (.err .invalidState)

/-- trySwitchingProtocol / doCheckTimeout: any error of the switch leaves runInner with that error -/
def swEnd (retK : St → Val → St) (s : St) (v : Val) : St :=
  match v with
  | .err e => runExit s (some e)
  | _ => retK s v

/-- undo of doPlay / doRecord when the request fails -/
def playUndo (s : St) (back : CState) : St := { s with writer := false, allow := false, cst := back }

/-- doPlay from its first line -/
def playStart (s : St) (fs k : List Fr) (retK : St → Val → St) : St :=
  if s.cst == .prePlay then
    let s1 : St := { s with cst := .play, allow := s.tr == some .tcp, writer := true,
                            checkInitial := if s.stdSet && s.tr == some .udp then true else s.checkInitial }
    startDo s1 .play false 0 (.playK :: fs) k (fun s e => retK (playUndo s .prePlay) (.err e)) id
  else retK s (.err .invalidState)

/-- `reset`: doClose (TEARDOWN when there is a connection and a base URL), then `afterReset`. -/
def afterReset (s0 : St) (n : AfterReset) (k : List Fr) (retK : St → Val → St) : St :=
  let s := clearSession s0
  match n with
  | .redirect loc n =>
    match loc with
    | .unparsable => retK s (.err .other)
    | .downgrade => retK s (.err .other)
    | .dead => describeStart { s with dialOk := false } n [] k retK
    | _ => describeStart { s with dialOk := true } n [] k retK
  | .switchTcp a =>
    describeStart { s with tr := some .tcp } 0 [.redescK a] k retK
  | .switchAll ms =>
    describeStart { s with tr := some .tcp } 0 [.swDescK ms] k (swEnd retK)

def resetStart (c : Cfg) (s : St) (n : AfterReset) (k : List Fr) (retK : St → Val → St) : St :=
  if s.conn && s.baseUrl then
    -- the TEARDOWN is a courtesy: whatever happens to it, mustClose is put back
    startDo s .teardown true 0 [.resetK n s.mustClose] k
      (fun s' _ => afterReset { s' with mustClose := s.mustClose } n k retK)
      (fun s' => afterReset { s' with mustClose := s.mustClose } n k retK)
  else afterReset s n k retK

def commitSetup (s : St) (a : SetupArgs) (p : Proto) (ch : Nat) : St :=
  { s with
      chans := (s.chans.filter (fun (m, _) => m != a.mi)) ++ [(a.mi, ch)],
      baseUrl := true, tr := some p,
      backSet := s.backSet || a.back, stdSet := s.stdSet || !a.back,
      cst := if s.cst == .initial then .prePlay else s.cst }

/-- what doSetup decides about a SETUP response -/
inductive SetupVerdict
  | accept (ch : Nat)      -- the media is set up (ch: TCP channel, 0 for UDP)
  | reject (e : Err)
  | retryTcp               -- 461 with automatic protocol: doSetup again over TCP
  | switchTcp              -- TCP transport answered to a UDP request: reset, DESCRIBE, doSetup over TCP
  deriving DecidableEq, Repr, Inhabited

/-- doSetup's validation of the response against the request (protocol `p` was requested) -/
def setupCheck (c : Cfg) (s : St) (p : Proto) (r : Resp) : SetupVerdict :=
  if r.status != statusOK then
    if r.status == statusUnsupportedTransport && s.tr == none && c.proto == none then .retryTcp
    else .reject .badStatus
  else if !r.tr.present then .reject .transportInvalid
  else if (p == .udp || p == .mcast) && r.tr.tcp then
    if s.tr == none && c.proto == none && s.lastDesc then .switchTcp
    else .reject .serverRequestedTCP
  else
    match p with
    | .udp =>
      if r.tr.delivery == .multicast then .reject .invalidDelivery
      else if (s.cst == .preRecord || !c.anyPort) && r.tr.serverPorts != .valid then
        .reject .serverPortsNotProvided
      else if r.tr.savp then .reject .other
      else .accept 0
    | .mcast => .reject .other   -- multicast listeners are outside the model
    | .tcp =>
      if !r.tr.tcp then .reject .serverRequestedUDP
      else if r.tr.delivery == .multicast then .reject .invalidDelivery
      else
        match r.tr.interleaved with
        | none => .reject .noInterleavedIDs
        | some (x, y) =>
          if x + 1 != y then .reject .invalidInterleavedIDs
          else if chanInUse s.chans x then .reject .interleavedIDsInUse
          else if r.tr.savp then .reject .other
          else .accept x

/-- doSetup after `do` returned a response -/
def setupResp (c : Cfg) (s : St) (a : SetupArgs) (p : Proto) (r : Resp) (k : List Fr)
    (retK : St → Val → St) : St :=
  match setupCheck c s p r with
  | .accept ch => retK (commitSetup s a p ch) (.resp r)
  | .reject e => retK s (.err e)
  | .retryTcp => setupStart c { s with tr := some .tcp } a [] k retK
  | .switchTcp => resetStart c { s with baseUrl := true } (.switchTcp a) k retK

/-- doDescribe after `do` returned a response -/
def describeResp (c : Cfg) (s : St) (redirects : Nat) (r : Resp) (k : List Fr) (retK : St → Val → St) : St :=
  if r.status != statusOK then
    if statusMovedPermanently ≤ r.status && r.status ≤ statusUseProxy && r.loc != .none && r.loc != .multi then
      if redirects ≥ maxRedirects then retK s (.err .other)
      else resetStart c s (.redirect (if r.loc == .downgrade && !c.secure then .good else r.loc) (redirects + 1)) k retK
    else retK s (.err .badStatus)
  else if r.ct == .missing || r.ct == .dup then retK s (.err .contentTypeMissing)
  else if r.ct == .unsupported then retK s (.err .contentTypeUnsupported)
  else if !r.sdpOk then retK s (.err .sdpInvalid)
  else if !r.baseOk then retK s (.err .other)
  else retK { s with lastDesc := true } (.resp r)

/-- `do`: "get session from response" -/
def captureSession (s : St) (k : SessK) : St :=
  match k with
  | .good id => { s with session := some id }
  | _ => s

/-- the tail of `do` once waitResponse accepted `r`: Session capture, 401 retry -/
def doTail (c : Cfg) (s : St) (m : Meth) (tp : Nat) (r : Resp) (k : List Fr) (retK : St → Val → St) : St :=
  if r.sess == .bad then retK s (.err .sessionInvalid)
  else
    let s1 := captureSession s r.sess
    if r.status == statusUnauthorized && c.creds && !s1.sender then
      if r.www == .valid then
        startDo { s1 with sender := true } m false tp [] k (fun s e => retK s (.err e)) id
      else retK s1 (.err .authSetup)
    else retK s1 (.resp r)

/-- the error a returned value stands for (none = nil error) -/
def valRes (v : Val) : Res :=
  match v with
  | .err e => some e
  | _ => none

/-- runInner: `req.res <- clientRes{…}` when a call is being served -/
def handOver (s : St) (r : Res) : St :=
  match s.pending with
  | some a => emit { s with stack := [], pending := none } (.ret a r)
  | none => { s with stack := [] }

/-- back in runInner: hand the result to the caller; leave the loop when mustClose is set, or (next
iteration of the select) when the context is cancelled -/
def deliver (s : St) (v : Val) : St :=
  let s1 := handOver s (valRes v)
  if s1.mustClose then runExit s1 (valRes v)
  else if s1.ctxDone then runExit s1 (some .terminated)
  else s1

/-- Return value `v` to the frame `f` whose callers are `k`; `retK` returns to `k`. -/
def frameRet (c : Cfg) (f : Fr) (k : List Fr) (retK : St → Val → St) (s : St) (v : Val) : St :=
  match f with
  | .wait _ _ _ => retK s v              -- never below the top of the stack: nothing to do
  | .optionsK =>
    match v with
    | .resp r =>
      if r.status == statusOK then retK { s with optionsSent := true } v
      else if r.status == statusNotFound then retK s v
      else retK s (.err .badStatus)
    | _ => retK s v
  | .doOpt m skip tp =>
    match v with
    | .err e => retK s (.err e)
    | _ =>
      let s1 := sendReq s m tp
      if skip then retK s1 .nil
      else if s1.ctxDone then retK { s1 with mustClose := true } (.err .terminated)
      else { s1 with stack := .wait m s1.cseq tp :: k }
  | .describeK n =>
    match v with
    | .resp r => describeResp c s n r k retK
    | _ => retK s v
  | .announceK =>
    match v with
    | .resp r =>
      if r.status != statusOK then retK s (.err .badStatus)
      else retK { s with baseUrl := true, cst := .preRecord } v
    | _ => retK s v
  | .setupK a p =>
    match v with
    | .resp r => setupResp c s a p r k retK
    | _ => retK s v
  | .playK =>
    match v with
    | .resp r =>
      if r.status != statusOK then retK (playUndo s .prePlay) (.err .badStatus) else retK { s with writer := true } v
    | _ => retK (playUndo s .prePlay) v
  | .recordK =>
    match v with
    | .resp r =>
      if r.status != statusOK then retK (playUndo s .preRecord) (.err .badStatus) else retK { s with writer := true } .nil
    | _ => retK (playUndo s .preRecord) v
  | .pauseK =>
    match v with
    | .resp r =>
      if r.status != statusOK then retK { s with writer := true } (.err .badStatus)
      else retK { s with allow := false, cst := if s.cst == .play then .prePlay else if s.cst == .record then .preRecord else s.cst } v
    | _ => retK { s with writer := true } v
  | .redescK a =>
    match v with
    | .err e => retK s (.err e)
    | _ => setupStart c s a [] k retK
  | .resetK n saved => afterReset { s with mustClose := saved } n k retK
  | .swDescK ms =>
    match v with
    | .err e => runExit s (some e)
    | _ =>
      match ms with
      | [] => playStart s [.swPlayK] k (swEnd retK)
      | a :: rest => setupStart c s a [.swSetupK rest] k (swEnd retK)
  | .swSetupK rest =>
    match v with
    | .err e => runExit s (some e)
    | _ =>
      match rest with
      | [] => playStart s [.swPlayK] k (swEnd retK)
      | a :: rest' => setupStart c s a [.swSetupK rest'] k (swEnd retK)
  | .swPlayK =>
    match v with
    | .err e => runExit s (some e)
    | _ => retK s .nil

/-- unwind: return `v` into the stack `k` (structural recursion on the stack) -/
def resume (c : Cfg) : List Fr → St → Val → St
  | [], s, v => deliver s v
  | f :: k, s, v => frameRet c f k (resume c k) s v

/-- an API call accepted by runInner -/
def startApi (c : Cfg) (s0 : St) (a : Api) : St :=
  let s : St := { s0 with pending := some a }
  let k : List Fr := []
  let retK := resume c k
  match a with
  | .options =>
    if stateIn s preStates then
      match connOpen s with
      | none => retK s (.err .other)
      | some s1 => startDo s1 .options false 0 [.optionsK] k (fun s e => retK s (.err e)) id
    else retK s (.err .invalidState)
  | .describe => describeStart s 0 [] k retK
  | .announce =>
    if s.cst == .initial then
      if c.proto == some .mcast then retK s (.err .other)
      else
        match connOpen s with
        | none => retK s (.err .other)
        | some s1 => startDo s1 .announce false 0 [.announceK] k (fun s e => retK s (.err e)) id
    else retK s (.err .invalidState)
  | .setup a => setupStart c s a [] k retK
  | .play => playStart s [] k retK
  | .record =>
    if s.cst == .preRecord then
      if s.tr == none then retK s (.err .other) else
      let s1 : St := { s with cst := .record, allow := s.tr == some .tcp, writer := true }
      startDo s1 .record false 0 [.recordK] k (fun s e => retK (playUndo s .preRecord) (.err e)) id
    else retK s (.err .invalidState)
  | .pause =>
    if s.cst == .play || s.cst == .record then
      startDo { s with writer := false } .pause false 0 [.pauseK] k (fun s e => retK { s with writer := true } (.err e)) id
    else retK s (.err .invalidState)

/-- trySwitchingProtocol: reset, then DESCRIBE, SETUP of every media that was set up, PLAY, all over
TCP; any error leaves runInner -/
def switchStart (c : Cfg) (s : St) : St :=
  let ms : List SetupArgs := s.chans.map fun (mi, _) => { mi := mi, back := false, ctlOk := true }
  resetStart c s (.switchAll ms) [] (resume c [])

/-- doCheckTimeout (the timer is armed by doPlay when a standard channel is set up) -/
def checkTimeout (c : Cfg) (s : St) (got stale : Bool) : St :=
  if s.cst != .play || !s.stdSet then s
  else if s.tr == some .udp || s.tr == some .mcast then
    if s.checkInitial && !s.backSet && c.proto == none && s.lastDesc then
      let s1 : St := { s with checkInitial := false }
      if !got then switchStart c s1 else s1
    else if stale then runExit s (some .udpTimeout) else s
  else if stale then runExit s (some .tcpTimeout) else s

/-- waitResponse returns an error: `do` sets mustClose and returns it -/
def waitFail (c : Cfg) (s : St) (e : Err) (k : List Fr) : St :=
  resume c k { s with mustClose := true } (.err e)

/-- waitResponse's CSeq filter: accept when the header is absent or given several times, or when its
single value is the text of the pending request's number -/
def cseqAccept (h : CSeqH) (pending : Nat) : Bool :=
  match h with
  | .num n => n == pending
  | .garbage => false
  | .missing => true
  | .dup => true

/-- One event.  Closed: API calls return closeError.  Idle (empty stack): runInner's select.
Waiting (`wait` on top): waitResponse's select. -/
def step (c : Cfg) (s : St) (e : Ev) : St :=
  if s.closed then
    match e with
    | .call a => emit s (.ret a s.closeRes)
    | _ => s
  else
    match s.stack with
    | [] =>
      match e with
      | .call a => startApi c s a
      | .resp _ => s
      | .sreq true => emit s .replied
      | .sreq false => runExit s (some .unhandledMethod)
      | .frame _ => if s.allow then s else runExit { s with reader := false } (some .unexpectedFrame)
      | .readErr => runExit { s with reader := false } (some .other)
      | .timer => s
      | .liveness got stale => checkTimeout c s got stale
      | .close => runExit s (some .terminated)
    | .wait m n tp :: k =>
      match e with
      | .call _ => s
      | .resp r =>
        if cseqAccept r.cseq n then
          doTail c { s with stack := k } m tp r k (resume c k)
        else s
      | .sreq true => emit s .replied
      | .sreq false => waitFail c s .unhandledMethod k
      | .frame _ => if s.allow then s else waitFail c { s with reader := false } .unexpectedFrame k
      | .readErr => waitFail c { s with reader := false } .other k
      | .timer => waitFail c s .timeout k
      | .liveness _ _ => s               -- waitResponse does not look at that timer
      | .close => waitFail c { s with ctxDone := true } .terminated k
    | _ => s

def init : St := {}

def run (c : Cfg) (s : St) (es : List Ev) : St := es.foldl (step c) s

/-- phase of the run loop -/
def waiting (s : St) : Bool :=
  !s.closed && (match s.stack with | .wait _ _ _ :: _ => true | _ => false)

def idle (s : St) : Bool := !s.closed && s.stack.isEmpty

end Rtsp.ClientSm
