import Rtsp.Generated.Facts.Time
/-
Model of /repo/pkg/rtptime/global_decoder.go  (multiplyAndDivide, globalDecoderTrackData.decode,
GlobalDecoder.Decode).

Conventions: Go `int64` values are `Int` (the no-overflow range is an explicit assumption of the
property, see props/C15.json); Go's `/` and `%` on int64 truncate towards zero: `Int.tdiv` /
`Int.tmod`.  RTP timestamps are `UInt32`; `int32(ts - d.prev)` is the wrapping `UInt32` subtraction
read as a signed 32-bit value.  A `time.Time` is its Unix time in nanoseconds; the package clock
`timeNow` is an input of every `Decode` step (`now`), as are the values the `GlobalDecoderTrack`
interface returns for this call (`ClockRate()`, `PTSEqualsDTS(pkt)`).  Tracks are identified by a
natural number (the Go map is keyed by the interface value).

Core Lean only (linked into `oracle_time`).
-/
namespace Rtsp.TimeDec

/-- `multiplyAndDivide(v, m, d)`:
    secs := v / d;  dec := v % d;  return secs*m + dec*m/d -/
def mulDiv (v m d : Int) : Int := (v.tdiv d) * m + ((v.tmod d) * m).tdiv d

/-- Go: `int64(int32(ts - prev))`. -/
def sdelta (ts prev : UInt32) : Int := (ts - prev).toInt32.toInt

/-- `globalDecoderTrackData` -/
structure Track where
  overall : Int
  prev    : UInt32
deriving Repr, DecidableEq, Inhabited

/-- `globalDecoderTrackData.decode` -/
def Track.decode (t : Track) (ts : UInt32) : Track :=
  { overall := t.overall + sdelta ts t.prev, prev := ts }

/-- `GlobalDecoder` -/
structure State where
  leading     : Option Nat          -- leadingTrack (nil = none)
  startSystem : Int                 -- ns
  startPTS    : Int
  startRate   : Int                 -- startPTSClockRate
  tracks      : Nat → Option Track

/-- `Initialize` -/
def init : State :=
  { leading := none, startSystem := 0, startPTS := 0, startRate := 0, tracks := fun _ => none }

def setTrack (f : Nat → Option Track) (id : Nat) (t : Track) : Nat → Option Track :=
  fun j => if j = id then some t else f j

/-- one `Decode` call and everything it reads from its environment -/
structure Op where
  id   : Nat        -- which track
  rate : Int        -- track.ClockRate()
  eq   : Bool       -- track.PTSEqualsDTS(pkt)
  ts   : UInt32     -- pkt.Timestamp
  now  : Int        -- timeNow(), Unix ns (only read on the branches that call it)
deriving Repr, DecidableEq

def nsPerSec : Int := 1000000000

/-- the state after the `if d.leadingTrack == nil { … }` block of a never-seen track -/
def elect (s : State) (o : Op) : State :=
  match s.leading with
  | none   => { s with leading := some o.id, startSystem := o.now, startPTS := 0, startRate := o.rate }
  | some _ => s

/-- start PTS of a never-seen track (after `elect`) -/
def startOf (s : State) (o : Op) : Int :=
  mulDiv s.startPTS o.rate s.startRate + mulDiv (o.now - s.startSystem) o.rate nsPerSec

/-- `GlobalDecoder.Decode`; `none` is Go's `(0, false)`. -/
def decode (s : State) (o : Op) : State × Option Int :=
  if o.rate = 0 then (s, none) else
  match s.tracks o.id with
  | none =>
    if !o.eq then (s, none) else
    let s1 := elect s o
    let start := startOf s1 o
    ({ s1 with tracks := setTrack s1.tracks o.id { overall := start, prev := o.ts } }, some start)
  | some t =>
    let t' := t.decode o.ts
    let s1 := { s with tracks := setTrack s.tracks o.id t' }
    let s2 := if s1.leading = some o.id ∧ o.eq = true then
                { s1 with startSystem := o.now, startPTS := t'.overall } else s1
    (s2, some t'.overall)

/-- run a history of `Decode` calls, collecting the results -/
def run (s : State) : List Op → State × List (Option Int)
  | [] => (s, [])
  | o :: os =>
    let (s1, r) := decode s o
    let (s2, rs) := run s1 os
    (s2, r :: rs)

end Rtsp.TimeDec
