import Rtsp.Generated.Facts.Url
/-
Model of the URL handling of gortsplib at byte-string level (property C20, URL fidelity).

  /repo/pkg/base/url.go            ParseURL (escapeRegexp rewrite + net/url.Parse + checks), String,
                                   CloneWithoutCredentials
  /repo/pkg/base/request.go        request line written by MarshalTo
  /repo/server_session.go          stringsReverseIndex, getPathAndQuery, getPathAndQueryAndTrackID,
                                   findMediaByURL, findMediaByTrackID
  /repo/server_conn.go             Content-Base = request URL + "/"
  /repo/server_stream.go           control attribute = "trackID=" + index
  /repo/client.go                  findBaseURL, prepareForAnnounce (control = trackID=i), which URL
                                   each request uses
  /repo/pkg/description/media.go   Media.URL

Go strings are byte strings: `Str = List UInt8`.  `net/url` (Go 1.26) is modelled as far as the
code above reaches it: getScheme, the '?' / '#' cuts, parseAuthority, parseHost (IP-literals without
embedded IPv4), setPath / EscapedPath, unescape / escape with the encoding table for the path, host,
zone and user-info modes, URL.String.  A Go `*url.URL` produced by these functions is represented by
its decoded `path` and by `epath`, the text `EscapedPath()` returns for it (`RawPath` itself is never
read by the code; see `escapedPathOf`).

Core Lean only: this file is compiled into the `oracle_url` driver.  The string constants of the
protocol ("/trackID=", "trackID=", "rtsp", "rtsps", "/" after Content-Base, the bit size of the track
id) come from `Generated/Facts/Url.lean`, regenerated from /repo on every run.
-/
namespace Rtsp.Url
open Rtsp.Facts

abbrev Str := List UInt8

/-- ASCII literal → bytes (used for constants and examples only). -/
def ofString (s : String) : Str := s.toList.map (fun c => c.toNat.toUInt8)

/-! ### byte-string helpers (Go: strings.Index, LastIndex, Cut, HasPrefix, HasSuffix) -/

/-- `strings.Cut(s, c)` for a single byte: `(before, after)` of the first occurrence. -/
def splitFirst (c : UInt8) : Str → Option (Str × Str)
  | [] => none
  | x :: xs =>
    if x = c then some ([], xs)
    else match splitFirst c xs with
      | some (a, b) => some (x :: a, b)
      | none => none

/-- split at the last occurrence of a byte (`strings.LastIndex`). -/
def splitLast (c : UInt8) (s : Str) : Option (Str × Str) :=
  match splitFirst c s.reverse with
  | some (a, b) => some (b.reverse, a.reverse)
  | none => none

def hasPrefix (p s : Str) : Bool := p.isPrefixOf s
def hasSuffix (p s : Str) : Bool := p.isSuffixOf s

/-- `strings.Index(s, sub)` -/
def findSub (sub : Str) : Str → Option Nat
  | [] => if sub.isEmpty then some 0 else none
  | x :: xs =>
    if sub.isPrefixOf (x :: xs) then some 0
    else match findSub sub xs with
      | some i => some (i + 1)
      | none => none

def endsWithSlash (s : Str) : Bool := hasSuffix [47] s

/-! ### net/url: encoding table, unescape, escape -/

inductive Mode | path | host | zone | userPassword
deriving DecidableEq, Repr

def isAlnum (c : UInt8) : Bool := (97 ≤ c && c ≤ 122) || (65 ≤ c && c ≤ 90) || (48 ≤ c && c ≤ 57)
def isDigit (c : UInt8) : Bool := 48 ≤ c && c ≤ 57
def isHex (c : UInt8) : Bool := (48 ≤ c && c ≤ 57) || (97 ≤ c && c ≤ 102) || (65 ≤ c && c ≤ 70)

/-- Go `unhex`: `9*(c>>6) + (c&15)` (precondition `isHex c`). -/
def unhex (c : UInt8) : UInt8 := (9 : UInt8) * (c >>> 6) + (c &&& 15)

/-- `! $ & ' ( ) * + , ; = : [ ] < > "` : not escaped in the host / zone modes -/
def hostExtra : List UInt8 := [33, 36, 38, 39, 40, 41, 42, 43, 44, 59, 61, 58, 91, 93, 60, 62, 34]
/-- `- _ . ~` -/
def marks : List UInt8 := [45, 95, 46, 126]
/-- `$ & + , / : ; = ? @` -/
def reserved : List UInt8 := [36, 38, 43, 44, 47, 58, 59, 61, 63, 64]

/-- net/url `shouldEscape` (reference implementation in gen_encoding_table.go). -/
def shouldEscape (c : UInt8) (m : Mode) : Bool :=
  if isAlnum c then false
  else if (m == .host || m == .zone) && hostExtra.contains c then false
  else if marks.contains c then false
  else if reserved.contains c then
    match m with
    | .path => c == 63
    | .userPassword => c == 64 || c == 47 || c == 63 || c == 58
    | _ => true
  else true

/-- the byte a `%ab` triple decodes to in mode `m` (`none` = the validation pass of `unescape` fails) -/
def pctByte (m : Mode) (a b : UInt8) : Option UInt8 :=
  if isHex a && isHex b then
    let v := (unhex a <<< 4) ||| unhex b
    let is25 := a == 50 && b == 53
    if m == .host && unhex a < 8 && !is25 then none
    else if m == .zone && !is25 && v != 32 && shouldEscape v .host then none
    else some v
  else none

/-- whether a byte other than `%` passes the validation pass of `unescape` in mode `m` -/
def plainOK (m : Mode) (c : UInt8) : Bool := !((m == .host || m == .zone) && c < 128 && shouldEscape c m)

/-- net/url `unescape` (validation pass and decoding pass fused; `none` = error). -/
def unescape (m : Mode) : Str → Option Str
  | [] => some []
  | c :: rest =>
    if c = 37 then
      match rest with
      | a :: b :: rest' =>
        match pctByte m a b, unescape m rest' with
        | some v, some r => some (v :: r)
        | _, _ => none
      | _ => none
    else if plainOK m c then
      match unescape m rest with
      | some r => some (c :: r)
      | none => none
    else none

def upperHex (n : UInt8) : UInt8 := if n < 10 then 48 + n else 55 + n

/-- net/url `escape` (no query-component mode here). -/
def escape (m : Mode) (s : Str) : Str :=
  s.flatMap fun c => if shouldEscape c m then [37, upperHex (c >>> 4), upperHex (c &&& 15)] else [c]

/-- `! $ & ' ( ) * + , ; = : @ [ ] %` : accepted by `validEncoded` without asking `shouldEscape` -/
def validExtra : List UInt8 := [33, 36, 38, 39, 40, 41, 42, 43, 44, 59, 61, 58, 64, 91, 93, 37]

/-- net/url `validEncoded(s, encodePath)` -/
def validEncodedPath (s : Str) : Bool := s.all fun c => validExtra.contains c || !shouldEscape c .path

/-- What `EscapedPath()` returns for a URL whose `Path` is `path` and which has no `RawPath`. -/
def escapePathOnly (path : Str) : Str := if path = [42] then [42] else escape .path path

/-- What `EscapedPath()` returns after `setPath(p)` with `unescape p = path`: `p` itself when it is a
valid encoding, otherwise the default encoding of the decoded path. -/
def escapedPathOf (p path : Str) : Str := if validEncodedPath p then p else escapePathOnly path

/-! ### the URL value -/

structure UserInfo where
  username : Str
  password : Option Str
deriving DecidableEq, Repr

structure Url where
  scheme : Str
  user : Option UserInfo := none
  host : Str := []
  path : Str := []       -- decoded (`Path`)
  epath : Str := []      -- `EscapedPath()`
  forceQuery : Bool := false
  rawQuery : Str := []
  omitHost : Bool := false
deriving DecidableEq, Repr

/-- `Userinfo.String` -/
def UserInfo.render (u : UserInfo) : Str :=
  escape .userPassword u.username ++
    (match u.password with
     | some p => 58 :: escape .userPassword p
     | none => [])

/-- `userinfo@` as `URL.String` writes it -/
def userText : Option UserInfo → Str
  | some ui => ui.render ++ [64]
  | none => []

/-- `URL.String` for the URLs that occur here (no Opaque, no Fragment, non-empty scheme). -/
def Url.toStr (u : Url) : Str :=
  u.scheme ++ [58] ++
  (if u.omitHost && u.host.isEmpty && u.user.isNone then []
   else
    (if !u.host.isEmpty || !u.path.isEmpty || u.user.isSome then [47, 47] else []) ++
    userText u.user ++
    escape .host u.host) ++
  (if !u.epath.isEmpty && u.epath.head? != some 47 && !u.host.isEmpty then [47] else []) ++
  u.epath ++
  (if u.forceQuery || !u.rawQuery.isEmpty then 63 :: u.rawQuery else [])

/-- `CloneWithoutCredentials` (copies Scheme, Host, Path, RawPath, ForceQuery, RawQuery: `OmitHost` is lost) -/
def Url.withoutCredentials (u : Url) : Url := { u with user := none, omitHost := false }

/-! ### net/url.Parse as used by base.ParseURL -/

def isCTL (c : UInt8) : Bool := c < 32 || c == 127
def isAlpha (c : UInt8) : Bool := (97 ≤ c && c ≤ 122) || (65 ≤ c && c ≤ 90)
def toLower (c : UInt8) : UInt8 := if 65 ≤ c && c ≤ 90 then c + 32 else c

/-- net/url `getScheme`: `some (scheme, rest)` only when a scheme is present (every other outcome
makes base.ParseURL fail: error, or an empty scheme which is "unsupported"). -/
def getSchemeAux : Bool → Str → Str → Option (Str × Str)
  | _, _, [] => none
  | first, acc, c :: rest =>
    if isAlpha c then getSchemeAux false (c :: acc) rest
    else if isDigit c || c == 43 || c == 45 || c == 46 then
      if first then none else getSchemeAux false (c :: acc) rest
    else if c == 58 then
      if first then none else some (acc.reverse, rest)
    else none

def getScheme (s : Str) : Option (Str × Str) := getSchemeAux true [] s

def validOptionalPort (p : Str) : Bool :=
  match p with
  | [] => true
  | c :: ds => c == 58 && ds.all isDigit

/-- the hex-group loop of netip.parseIPv6 (at most 8 groups); embedded IPv4 is not modelled -/
def v6loop : Nat → Nat → Bool → Str → Option (Nat × Bool × Str)
  | 0, i, e, s => some (i, e, s)
  | f + 1, i, e, s =>
    let run := s.takeWhile isHex
    if run.length = 0 || run.length > 4 then none else
    match s.drop run.length with
    | [] => some (i + 1, e, [])
    | c :: r' =>
      if c != 58 then none
      else match r' with
        | [] => none
        | d :: r'' =>
          if d == 58 then
            if e then none
            else if r''.isEmpty then some (i + 1, true, [])
            else v6loop f (i + 1) true r''
          else v6loop f (i + 1) e r'

/-- `netip.ParseAddr(s)` succeeds with an address that is not `Is4` (IPv6 text without embedded IPv4). -/
def isIPv6 (s : Str) : Bool :=
  -- ParseAddr dispatches on the first of '.', ':', '%'
  match s.find? (fun c => c == 46 || c == 58 || c == 37) with
  | some 58 =>
    let (addr, zoneOK) := match splitFirst 37 s with
      | some (a, z) => (a, !z.isEmpty)
      | none => (s, true)
    if !zoneOK then false else
    let (e0, s1) := match addr with
      | 58 :: 58 :: r => (true, r)
      | _ => (false, addr)
    if e0 && s1.isEmpty then true else
    match v6loop 8 0 e0 s1 with
    | some (i, e, rest) => rest.isEmpty && (if i < 8 then e else !e)
    | none => false
  | _ => false

/-- net/url `parseHost` -/
def parseHost (host : Str) : Option Str :=
  if host.contains 91 then
    match splitLast 93 host with
    | none => none
    | some (pre, colonPort) =>
      if !validOptionalPort colonPort then none else
      match splitLast 91 pre with
      | none => none
      | some (_, hostname) =>
        let unesc : Option Str :=
          match findSub [37, 50, 53] hostname with
          | some z =>
            match unescape .host (hostname.take z), unescape .zone (hostname.drop z) with
            | some a, some b => some (a ++ b)
            | _, _ => none
          | none => unescape .host hostname
        match unesc with
        | none => none
        | some h => if isIPv6 h then some ([91] ++ h ++ [93] ++ colonPort) else none
  else
    let portOK := match splitFirst 58 host with
      | some (_, after) => after.all isDigit
      | none => true
    if !portOK then none else unescape .host host

/-- net/url `validUserinfo` -/
def validUserinfo (s : Str) : Bool :=
  s.all fun c => isAlnum c || [45, 46, 95, 58, 126, 33, 36, 38, 39, 40, 41, 42, 43, 44, 59, 61, 37, 64].contains c

/-- net/url `parseAuthority` -/
def parseAuthority (a : Str) : Option (Option UserInfo × Str) :=
  match splitLast 64 a with
  | none =>
    match parseHost a with
    | some h => some (none, h)
    | none => none
  | some (userinfo, hostText) =>
    match parseHost hostText with
    | none => none
    | some h =>
      if !validUserinfo userinfo then none else
      match splitFirst 58 userinfo with
      | none =>
        match unescape .userPassword userinfo with
        | some u => some (some { username := u, password := none }, h)
        | none => none
      | some (un, pw) =>
        match unescape .userPassword un, unescape .userPassword pw with
        | some u, some p => some (some { username := u, password := some p }, h)
        | _, _ => none

/-- the part of net/url `parse` after the scheme and the query have been split off -/
def parseRest (scheme rest : Str) (forceQuery : Bool) (rawQuery : Str) : Option Url :=
  match rest with
  | [] => some { scheme, forceQuery, rawQuery }          -- "rtsp:" / "rtsp:?q": no opaque data, everything empty
  | 47 :: 47 :: r =>
    let (authority, pathText) := match splitFirst 47 r with
      | some (a, p) => (a, 47 :: p)
      | none => (r, [])
    match parseAuthority authority, unescape .path pathText with
    | some (user, host), some path =>
      some { scheme, user, host, path, epath := escapedPathOf pathText path, forceQuery, rawQuery }
    | _, _ => none
  | 47 :: _ =>
    match unescape .path rest with
    | some path => some { scheme, path, epath := escapedPathOf rest path, forceQuery, rawQuery, omitHost := true }
    | none => none
  | _ => none                                             -- opaque data: rejected by base.ParseURL

def schemeRTSP : Str := ofString Facts.Url.schemeRTSP     -- "rtsp"
def schemeRTSPS : Str := ofString Facts.Url.schemeRTSPS   -- "rtsps"

/-- net/url `parse` (the text before any `#`), with the scheme and opaque checks of base.ParseURL -/
def parseNoFrag (u : Str) : Option Url :=
  match getScheme u with
  | none => none
  | some (sch, rest) =>
    let scheme := sch.map toLower
    if scheme != schemeRTSP && scheme != schemeRTSPS then none else
    if hasSuffix [63] rest && rest.count 63 == 1 then
      parseRest scheme rest.dropLast true []
    else match splitFirst 63 rest with
      | some (r, q) => parseRest scheme r false q
      | none => parseRest scheme rest false []

/-- net/url `Parse` followed by the three checks of base.ParseURL (scheme, opaque, fragment). -/
def parseStd (s : Str) : Option Url :=
  let (u, fragOK) := match splitFirst 35 s with
    | some (a, f) => (a, f.isEmpty)
    | none => (s, true)
  if !fragOK then none else
  if u.any isCTL then none else
  parseNoFrag u

/-! ### base.ParseURL: the IPv6-zone workaround -/

def unpct25 : Str → Str
  | [] => []
  | [c] => [c]
  | [c, d] => [c, d]
  | c :: a :: b :: rest =>
    if c = 37 && a = 50 && b = 53 then 37 :: unpct25 rest else c :: unpct25 (a :: b :: rest)

def pct25 (s : Str) : Str := s.flatMap fun c => if c = 37 then [37, 50, 53] else [c]

/-- `strings.ReplaceAll(strings.ReplaceAll(m, "%25", "%"), "%", "%25")` -/
def fixPct (s : Str) : Str := pct25 (unpct25 s)

def isDelim (c : UInt8) : Bool := c == 47 || c == 63 || c == 35

/-- the rewrite guarded by `escapeRegexp = ^([^/?#]+?)://([^/?#]*?)@([^/?#]*?)/(.*?)$` -/
def rewriteZone (s : Str) : Str :=
  match findSub [58, 47, 47] s with
  | none => s
  | some p0 =>
    let m1 := s.take p0
    if p0 = 0 || m1.any isDelim then s else
    let rest := s.drop (p0 + 3)
    let auth := rest.takeWhile (fun c => !isDelim c)
    match rest.drop auth.length with
    | 47 :: m4 =>
      if m4.contains 10 then s else
      match splitFirst 64 auth with
      | none => s
      | some (m2, m3) => m1 ++ [58, 47, 47] ++ m2 ++ [64] ++ fixPct m3 ++ [47] ++ m4
    | _ => s

/-- `base.ParseURL` -/
def parse (s : Str) : Option Url := parseStd (rewriteZone s)

/-! ### server side (server_session.go, server_conn.go, server_stream.go) -/

/-- "/trackID=" -/
def trackTag : Str := ofString Facts.Url.trackTagQuery
/-- "trackID=" -/
def trackCtl : Str := ofString Facts.Url.serverControlPrefix

/-- the loop of `stringsReverseIndex`: tries `i, i-1, …, 0` -/
def revIndexFrom (s sub : Str) : Nat → Option Nat
  | 0 => if sub.isPrefixOf s then some 0 else none
  | i + 1 => if sub.isPrefixOf (s.drop (i + 1)) then some (i + 1) else revIndexFrom s sub i

/-- `stringsReverseIndex(s, substr)`, including its start offset `len(s) - 1 - len(substr)`:
an occurrence that ends exactly at the end of `s` is not seen. -/
def revIndex (s sub : Str) : Option Nat :=
  if s.length < 1 + sub.length then none else revIndexFrom s sub (s.length - 1 - sub.length)

/-- `getPathAndQuery(u, isAnnounce)` (all methods except SETUP) -/
def getPathAndQuery (u : Url) (isAnnounce : Bool) : Str × Str :=
  if !isAnnounce then
    if endsWithSlash u.rawQuery then (u.path, u.rawQuery.dropLast)
    else if u.path.length > 1 && endsWithSlash u.path then (u.path.dropLast, u.rawQuery)
    else (u.path, u.rawQuery)
  else (u.path, u.rawQuery)

/-- `getPathAndQueryAndTrackID(u)` (SETUP when playing); `none` = ErrServerInvalidSetupPath -/
def getPathAndQueryAndTrackID (u : Url) : Option (Str × Str × Str) :=
  match revIndex u.rawQuery trackTag with
  | some i => some (u.path, u.rawQuery.take i, u.rawQuery.drop (i + trackTag.length))
  | none =>
    match revIndex u.path trackTag with
    | some i => some (u.path.take i, u.rawQuery, u.path.drop (i + trackTag.length))
    | none =>
      if endsWithSlash u.rawQuery then some (u.path, u.rawQuery.dropLast, [48])
      else if u.path.length ≥ 1 && endsWithSlash (u.path.drop 1) then some (u.path.dropLast, u.rawQuery, [48])
      else if u.path = [] || u.path = [47] then some (u.path, u.rawQuery, [48])
      else none

/-- "rtsp://" / "rtsps://" -/
def pfxRTSP : Str := ofString Facts.Url.absControlRTSP
def pfxRTSPS : Str := ofString Facts.Url.absControlRTSPS

def isAbsoluteControl (c : Str) : Bool := hasPrefix pfxRTSP c || hasPrefix pfxRTSPS c

/-- one iteration of `findMediaByURL` -/
def mediaMatches (control path query : Str) (u : Url) : Bool :=
  if isAbsoluteControl control then control == u.toStr
  else
    let (p1, q1) := if query != [] then (path, query ++ [47] ++ control) else (path ++ [47] ++ control, query)
    (p1 == u.path && q1 == u.rawQuery) ||
    (path ++ [47] ++ control == u.path && query == u.rawQuery)

/-- `findMediaByURL(medias, path, query, u)` (SETUP when recording): index of the first match -/
def findMediaByURL (controls : List Str) (path query : Str) (u : Url) : Option Nat :=
  let i := controls.findIdx (fun c => mediaMatches c path query u)
  if i < controls.length then some i else none

def maxTrackID : Nat := 2 ^ Facts.Url.trackIDBits - 1

/-- `strconv.ParseUint(s, 10, 31)` on a non-empty string -/
def parseUintAux : Nat → Str → Option Nat
  | acc, [] => some acc
  | acc, c :: rest =>
    if !isDigit c then none
    else
      let n1 := acc * 10 + (c.toNat - 48)
      if n1 > maxTrackID then none else parseUintAux n1 rest

/-- `findMediaByTrackID(medias, trackID)` with `len(medias) = n ≥ 1` -/
def findMediaByTrackID (n : Nat) (trackID : Str) : Option Nat :=
  if trackID = [] then some 0
  else match parseUintAux 0 trackID with
    | none => none
    | some id => if n ≤ id then none else some id

/-- decimal digits (`strconv.FormatInt(i, 10)` for `i ≥ 0`) -/
def digitsAux : Nat → Nat → Str → Str
  | 0, _, acc => acc
  | fuel + 1, n, acc =>
    if n < 10 then (48 + n).toUInt8 :: acc
    else digitsAux fuel (n / 10) ((48 + n % 10).toUInt8 :: acc)

def digits (n : Nat) : Str := digitsAux (n + 1) n []

/-- control attribute the server (`descForDescribe`) and the publishing client (`prepareForAnnounce`) write -/
def control (i : Nat) : Str := trackCtl ++ digits i

/-- `Content-Base` of a DESCRIBE response: `req.URL.String() + "/"` -/
def contentBase (reqURL : Url) : Str := reqURL.toStr ++ ofString Facts.Url.contentBaseSuffix

/-! ### client side (client.go, pkg/description/media.go, pkg/base/request.go) -/

/-- `findBaseURL(sd, res, u)`: `sdpControl` = session-level control attribute if present,
`cb` = values of the Content-Base header if present. -/
def findBaseURL (sdpControl : Option Str) (cb : Option (List Str)) (u : Url) : Option Url :=
  match sdpControl.filter (fun c => c != [42]) with
  | some c =>
    match parse c with
    | some r => some { r with user := u.user }
    | none => none
  | none =>
    match cb with
    | some [v] =>
      if hasPrefix [47] v then
        match parse (u.scheme ++ [58, 47, 47] ++ u.host ++ v) with
        | some r => some { r with user := u.user }
        | none => none
      else
        match parse v with
        | some r => some { r with user := u.user }
        | none => none
    | some _ => none
    | none => some u

inductive MediaURL
  | err                -- `(nil, err)`
  | url (u : Url)
deriving DecidableEq, Repr

/-- `Media.URL(contentBase)` -/
def mediaURL (ctl : Str) (base : Option Url) : MediaURL :=
  match base with
  | none => .err
  | some b =>
    if ctl = [] then .url b
    else if isAbsoluteControl ctl then
      match parse ctl with
      | some r => .url { r with host := b.host, user := b.user }
      | none => .err
    else
      let s := b.toStr
      let s := if ctl.head? != some 63 && ctl.head? != some 47 && !endsWithSlash s then s ++ [47] else s
      match parse (s ++ ctl) with
      | some r => .url r
      | none => .err

/-- the URL text of the request line `MarshalTo` writes (`*` for a nil URL) -/
def requestTarget (u : Option Url) : Str :=
  match u with
  | some u => u.withoutCredentials.toStr
  | none => [42]

end Rtsp.Url
