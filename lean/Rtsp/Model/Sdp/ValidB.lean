import Rtsp.Model.Sdp.Valid
/-
Executable validity check (linked into `oracle_sdp`): the Go generator's "valid" descriptions are sent
to the model, which must find them inside `ValidSession` — so the population the round-trip theorem
speaks about contains everything the correspondence harness generates as valid.
`validSessionB O s = true → ValidSession O s` is proved in Proofs/Sdp/ValidB.lean.
-/
namespace Rtsp.Sdp

def p31 (n : Nat) : Bool := decide (n < 2 ^ 31)
def optP31 : Option Nat → Bool
  | some n => p31 n
  | none => true
def dyn (pt : Nat) : Bool := decide (96 ≤ pt) && decide (pt ≤ 127)
def pos31 (n : Nat) : Bool := decide (0 < n) && p31 n
def noAnnexB (b : Bytes) : Bool := trimAnnexB b == b
def optB {α} (o : Option α) (p : α → Bool) : Bool := match o with | some a => p a | none => true

def genKeyOkB (k : Str) : Bool :=
  !k.isEmpty && k.all fun c => c != 59 && c != 61 && !isUpper c && isAscii c && !isSpace c
def genValOkB (v : Str) : Bool :=
  (v.all fun c => c != 59 && isAscii c && (!isSpace c || c == 32)) && v.head? != some 32 && v.getLast? != some 32

def keysSortedB : List (Str × Str) → Bool
  | [] => true
  | a :: rest => rest.all (fun b => strLt a.1 b.1) && keysSortedB rest

def validFormatB (O : Oracle) (mt : Str) : Format → Bool
  | .av1 pt l p t => dyn pt && optP31 l && optP31 p && optP31 t
  | .vp9 pt a b c => dyn pt && optP31 a && optP31 b && optP31 c
  | .vp8 pt a b => dyn pt && optP31 a && optP31 b
  | .h265 pt vps sps pps mdd =>
    dyn pt && p31 mdd && optB vps noAnnexB && optB sps (fun b => noAnnexB b && O.h265sps b) && optB pps (fun b => noAnnexB b && O.h265pps b)
  | .h264 pt sps pps pm =>
    (dyn pt || pt == 35) && p31 pm &&
    (match sps, pps with
     | none, none => true
     | some s, some p => noAnnexB s && noAnnexB p && O.h264sps s
     | _, _ => false)
  | .mpeg4video pt plid cfg => dyn pt && p31 plid && optB cfg O.m4v
  | .opus pt ch => dyn pt && decide (1 ≤ ch) && p31 ch
  | .vorbis pt r ch cfg => dyn pt && pos31 r && pos31 ch && cfg.isSome
  | .mpeg4audio pt plid c sl il idl =>
    dyn pt && decide (1 ≤ plid) && p31 plid && (O.asc c.enc == some c) && decide (1 ≤ sl) && decide (sl ≤ 100) && decide (il ≤ 100)
      && decide (idl ≤ 100) && p31 (Format.ascRate c)
  | .latm pt plid br cp smc _ =>
    dyn pt && p31 plid && optP31 br &&
    (if cp then smc.isNone else
      match smc with
      | some s => (O.smc s.enc == some s) && s.same && p31 (Format.ascRate s.first)
      | none => false)
  | .ac3 pt r ch => dyn pt && pos31 r && pos31 ch
  | .speex pt r _ => dyn pt && pos31 r
  | .g726 pt br _ => dyn pt && (br == 16 || br == 24 || br == 32 || br == 40)
  | .g711 pt mu r ch =>
    (pt == 0 && mu && r == 8000 && ch == 1) || (pt == 8 && !mu && r == 8000 && ch == 1) || (dyn pt && pos31 r && pos31 ch)
  | .lpcm pt d r ch =>
    (pt == 10 && d == 16 && r == 44100 && ch == 2) || (pt == 11 && d == 16 && r == 44100 && ch == 1)
      || (dyn pt && (d == 8 || d == 16 || d == 24) && pos31 r && pos31 ch)
  | .klv pt => dyn pt
  | .mpeg1video | .mjpeg | .mpeg1audio | .g722 | .mpegts => true
  | .generic pt rm fm clk =>
    decide (pt < 256)
    && (select (getCodecAndClock rm).1 (getCodecAndClock rm).2 pt == .generic)
    && (findClockRate pt rm (mt == b!"application") == some clk)
    && (rm.all fun c => isAscii c && (!isSpace c || c == 32))
    && (match rm.head? with | some c => !isSpace c | none => true)
    && (match rm.getLast? with | some c => !isSpace c | none => true)
    && (fm.all fun kv => genKeyOkB kv.1 && genValOkB kv.2) && keysSortedB fm

def distinctBy {α β} [BEq β] (f : α → β) : List α → Bool
  | [] => true
  | a :: rest => rest.all (fun b => f a != f b) && distinctBy f rest

def validMediaB (O : Oracle) (m : Media) : Bool :=
  mediaTypeOk m.typ && (m.typ.all fun c => !isSpace c && isAscii c) && m.id.all isAlnum
  && optB m.keyMgmt (fun k => O.mikey k == some k)
  && (m.control.all fun c => c != 10 && c != 13 && isAscii c)
  && !m.formats.isEmpty && m.formats.all (validFormatB O m.typ) && distinctBy Format.pt m.formats

def validSessionB (O : Oracle) (s : Session) : Bool :=
  (s.title.all fun c => c != 10 && c != 13) && s.title != [32]
  && optB s.keyMgmt (fun k => O.mikey k == some k)
  && !s.medias.isEmpty && s.medias.all (validMediaB O)
  && (s.medias.all (·.id.isEmpty) || (s.medias.all (!·.id.isEmpty) && distinctBy Media.id s.medias))
  && s.medias.any (!·.backChannel)
  && s.fecGroups.all fun g => !g.isEmpty && g.all fun id => id.all isAlnum && s.medias.any (·.id == id)

end Rtsp.Sdp
