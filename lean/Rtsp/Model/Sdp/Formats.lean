import Rtsp.Model.Sdp.Doc
import Rtsp.Model.B64Std
import Rtsp.Generated.Facts.Sdp
/-
`pkg/format`: the 22 format types, `format.Unmarshal` (payload-type / rtpmap / fmtp lookup, the
selection table, each format's `unmarshal`) and each format's `RTPMap()` / `FMTP()`.  Core Lean only.

Codec configuration blobs are byte strings.  Whether a blob is acceptable is decided by parsers of
the mediacommon library (`h264.SPS.Unmarshal`, `h265.SPS/PPS.Unmarshal`,
`mpeg4audio.AudioSpecificConfig/StreamMuxConfig.Unmarshal`, `mpeg4video.IsValidConfig`) and by
`mikey.Message.Unmarshal`; these are NOT modelled: the model takes them as an `Oracle` (for the
executable the harness runs the real parsers on every candidate blob of a text and passes the table
on the operation line; the theorems state what they need from the oracle as hypotheses).
-/
namespace Rtsp.Sdp
open Rtsp.Facts.Sdp

abbrev Bytes := List UInt8

/-- What the format code reads from a parsed `AudioSpecificConfig`, plus its `Marshal()` output. -/
structure Asc where
  enc : Bytes            -- Config.Marshal()
  typ : Nat              -- Type
  rate : Nat             -- SampleRate
  extRate : Nat          -- ExtensionSampleRate
  chanCfg : Nat          -- ChannelConfig
  extType : Nat          -- ExtensionType
deriving DecidableEq, Repr

/-- What the format code reads from a parsed `StreamMuxConfig`: `Marshal()`, whether
`allLayersHaveSameTypeRateChannelsExtType` holds, and the first layer's config. -/
structure Smc where
  enc : Bytes
  same : Bool
  first : Asc            -- Programs[0].Layers[0].AudioSpecificConfig (its `enc` is not used)
deriving DecidableEq, Repr

/-- The parsers that are taken as given. -/
structure Oracle where
  mikey : Bytes → Option Bytes       -- Message.Unmarshal accepted; the value is Message.Marshal() of the result
  h264sps : Bytes → Bool
  h265sps : Bytes → Bool
  h265pps : Bytes → Bool
  m4v : Bytes → Bool                 -- mpeg4video.IsValidConfig
  asc : Bytes → Option Asc
  smc : Bytes → Option Smc

/-- `*int`, `*bool` fields are options; `[]byte` fields that may be nil are options. -/
inductive Format
  | av1 (pt : Nat) (levelIdx profile tier : Option Nat)
  | vp9 (pt : Nat) (maxFR maxFS profileID : Option Nat)
  | vp8 (pt : Nat) (maxFR maxFS : Option Nat)
  | h265 (pt : Nat) (vps sps pps : Option Bytes) (maxDonDiff : Nat)
  | h264 (pt : Nat) (sps pps : Option Bytes) (packetizationMode : Nat)
  | mpeg4video (pt : Nat) (profileLevelID : Nat) (config : Option Bytes)
  | opus (pt : Nat) (channels : Nat)
  | vorbis (pt : Nat) (rate channels : Nat) (config : Option Bytes)
  | mpeg4audio (pt : Nat) (profileLevelID : Nat) (config : Asc) (sizeLength indexLength indexDeltaLength : Nat)
  | latm (pt : Nat) (profileLevelID : Nat) (bitrate : Option Nat) (cpresent : Bool) (smc : Option Smc) (sbr : Option Bool)
  | ac3 (pt : Nat) (rate channels : Nat)
  | speex (pt : Nat) (rate : Nat) (vbr : Option Bool)
  | g726 (pt : Nat) (bitRate : Nat) (bigEndian : Bool)
  | g711 (pt : Nat) (mulaw : Bool) (rate channels : Nat)
  | lpcm (pt : Nat) (bitDepth rate channels : Nat)
  | klv (pt : Nat)
  | mpeg1video | mjpeg | mpeg1audio | g722 | mpegts
  | generic (pt : Nat) (rtpmap : Str) (fmtp : List (Str × Str)) (clock : Nat)
deriving DecidableEq, Repr

namespace Format

/-- `PayloadType()` -/
def pt : Format → Nat
  | av1 p .. | vp9 p .. | vp8 p .. | h265 p .. | h264 p .. | mpeg4video p .. | opus p .. | vorbis p ..
  | mpeg4audio p .. | latm p .. | ac3 p .. | speex p .. | g726 p .. | g711 p .. | lpcm p .. | klv p
  | generic p .. => p
  | mpeg1video => mpeg1VideoPT | mjpeg => mjpegPT | mpeg1audio => mpeg1AudioPT | g722 => g722PT | mpegts => mpegtsPT

/-- channel count written in the rtpmap of MPEG-4 audio -/
def ascChannels (c : Asc) : Nat :=
  if c.extType = 29 then 2
  else if c.chanCfg = 7 then 8
  else if 1 ≤ c.chanCfg ∧ c.chanCfg ≤ 6 then c.chanCfg
  else 1

def ascRate (c : Asc) : Nat := if c.extRate ≠ 0 then c.extRate else c.rate

/-- `ClockRate()` -/
def clockRate : Format → Nat
  | av1 .. | vp9 .. | vp8 .. | h265 .. | h264 .. | mpeg4video .. | klv _ | mpeg1video | mjpeg | mpeg1audio | mpegts => 90000
  | opus .. => 48000
  | vorbis _ r _ _ | ac3 _ r _ | speex _ r _ | g711 _ _ r _ | lpcm _ _ r _ => r
  | mpeg4audio _ _ c .. => c.rate
  | latm _ _ _ cp smc _ => if cp then 90000 else match smc with | some s => s.first.rate | none => 0
  | g726 .. | g722 => 8000
  | generic _ _ _ c => c

/-- `RTPMap()` (`[]` = no rtpmap attribute is written) -/
def rtpmap : Format → Str
  | av1 .. => b!"AV1/90000"
  | vp9 .. => b!"VP9/90000"
  | vp8 .. => b!"VP8/90000"
  | h265 .. => b!"H265/90000"
  | h264 .. => b!"H264/90000"
  | mpeg4video .. => b!"MP4V-ES/90000"
  | opus _ ch => if ch ≤ 2 then b!"opus/48000/2" else b!"multiopus/48000/" ++ dec ch
  | vorbis _ r ch _ => b!"VORBIS/" ++ dec r ++ 47 :: dec ch
  | mpeg4audio _ _ c .. => b!"mpeg4-generic/" ++ dec (ascRate c) ++ 47 :: dec (ascChannels c)
  | latm _ _ _ cp smc _ =>
    if cp then b!"MP4A-LATM/90000/1" else
    match smc with
    | some s => b!"MP4A-LATM/" ++ dec (ascRate s.first) ++ 47 :: dec (ascChannels s.first)
    | none => []   -- Go: nil dereference; excluded by validity and never produced by the parser
  | ac3 _ r ch => b!"AC3/" ++ dec r ++ 47 :: dec ch
  | speex _ r _ => b!"speex/" ++ dec r
  | g726 _ br be => (if be then b!"AAL2-" else []) ++ b!"G726-" ++ dec br ++ b!"/8000"
  | g711 _ mu r ch => (if mu then b!"PCMU" else b!"PCMA") ++ 47 :: dec r ++ (if ch ≠ 1 then 47 :: dec ch else [])
  | lpcm _ d r ch => (if d = 8 then b!"L8" else if d = 16 then b!"L16" else if d = 24 then b!"L24" else []) ++ 47 :: dec r ++ 47 :: dec ch
  | klv _ => b!"SMPTE336M/90000"
  | mpeg1video => []
  | mjpeg => b!"JPEG/90000"
  | mpeg1audio => []
  | g722 => b!"G722/8000"
  | mpegts => b!"MP2T/90000"
  | generic _ m _ _ => m

def optKV (k : Str) : Option Nat → List (Str × Str)
  | some v => [(k, dec v)]
  | none => []

def b64 (b : Bytes) : Str := Rtsp.B64Std.encode b

def boolStr (b : Bool) : Str := if b then b!"1" else b!"0"

def fmtpH265 (vps sps pps : Option Bytes) (mdd : Nat) : List (Str × Str) :=
  (if mdd ≠ 0 then [(b!"sprop-max-don-diff", dec mdd)] else [])
  ++ (match pps with | some b => [(b!"sprop-pps", b64 b)] | none => [])
  ++ (match sps with | some b => [(b!"sprop-sps", b64 b)] | none => [])
  ++ (match vps with | some b => [(b!"sprop-vps", b64 b)] | none => [])

def h264ProfileLevelId (sps : Option Bytes) : List (Str × Str) :=
  match sps with
  | some s => if s.length ≥ 4 then [(b!"profile-level-id", hexEncodeUpper ((s.drop 1).take 3))] else []
  | none => []

def h264ParameterSets (sps pps : Option Bytes) : List (Str × Str) :=
  match sps, pps with
  | some s, some p => [(b!"sprop-parameter-sets", b64 s ++ 44 :: b64 p)]
  | some s, none => [(b!"sprop-parameter-sets", b64 s)]
  | none, some p => [(b!"sprop-parameter-sets", b64 p)]
  | none, none => []

def fmtpH264 (sps pps : Option Bytes) (pm : Nat) : List (Str × Str) :=
  (if pm ≠ 0 then [(b!"packetization-mode", dec pm)] else [])
  ++ h264ProfileLevelId sps ++ h264ParameterSets sps pps

def fmtpMpeg4video (plid : Nat) (cfg : Option Bytes) : List (Str × Str) :=
  (match cfg with | some c => [(b!"config", hexEncodeUpper c)] | none => [])
  ++ [(b!"profile-level-id", dec plid)]

def fmtpOpus (ch : Nat) : List (Str × Str) :=
  if ch ≤ 2 then [(b!"sprop-stereo", if ch = 2 then b!"1" else b!"0")]
  else if ch = 3 then [(b!"channel_mapping", b!"0,2,1"), (b!"coupled_streams", b!"1"), (b!"num_streams", b!"2"), (b!"sprop-maxcapturerate", b!"48000")]
  else if ch = 4 then [(b!"channel_mapping", b!"0,1,2,3"), (b!"coupled_streams", b!"2"), (b!"num_streams", b!"2"), (b!"sprop-maxcapturerate", b!"48000")]
  else if ch = 5 then [(b!"channel_mapping", b!"0,4,1,2,3"), (b!"coupled_streams", b!"2"), (b!"num_streams", b!"3"), (b!"sprop-maxcapturerate", b!"48000")]
  else if ch = 6 then [(b!"channel_mapping", b!"0,4,1,2,3,5"), (b!"coupled_streams", b!"2"), (b!"num_streams", b!"4"), (b!"sprop-maxcapturerate", b!"48000")]
  else if ch = 7 then [(b!"channel_mapping", b!"0,4,1,2,3,5,6"), (b!"coupled_streams", b!"3"), (b!"num_streams", b!"4"), (b!"sprop-maxcapturerate", b!"48000")]
  else [(b!"channel_mapping", b!"0,6,1,4,5,2,3,7"), (b!"coupled_streams", b!"3"), (b!"num_streams", b!"5"), (b!"sprop-maxcapturerate", b!"48000")]

def fmtpMpeg4audio (plid : Nat) (c : Asc) (sl il idl : Nat) : List (Str × Str) :=
  [(b!"config", hexEncode c.enc)]
  ++ (if idl > 0 then [(b!"indexdeltalength", dec idl)] else [])
  ++ (if il > 0 then [(b!"indexlength", dec il)] else [])
  ++ [(b!"mode", b!"AAC-hbr"), (b!"profile-level-id", dec (if plid = 0 then 1 else plid))]
  ++ (if sl > 0 then [(b!"sizelength", dec sl)] else [])
  ++ [(b!"streamtype", b!"5")]

def fmtpLatm (plid : Nat) (br : Option Nat) (cp : Bool) (smc : Option Smc) (sbr : Option Bool) : List (Str × Str) :=
  (match sbr with | some b => [(b!"SBR-enabled", boolStr b)] | none => [])
  ++ optKV b!"bitrate" br
  ++ (if cp then [(b!"cpresent", b!"1")] else
      match smc with
      | some s => [(b!"config", hexEncode s.enc), (b!"cpresent", b!"0"), (b!"object", dec s.first.typ)]
      | none => [(b!"cpresent", b!"0")])
  ++ [(b!"profile-level-id", dec plid)]

def fmtpSpeex (vbr : Option Bool) : List (Str × Str) :=
  match vbr with | some b => [(b!"vbr", if b then b!"on" else b!"off")] | none => []

/-- `FMTP()` as the list of its entries sorted by key (the order `Media.Marshal` writes them in;
`Media.Marshal` sorts the keys, see `sortKV` in `Session.lean`). -/
def fmtp : Format → List (Str × Str)
  | av1 _ l p t => optKV b!"level-idx" l ++ optKV b!"profile" p ++ optKV b!"tier" t
  | vp9 _ fr fs pid => optKV b!"max-fr" fr ++ optKV b!"max-fs" fs ++ optKV b!"profile-id" pid
  | vp8 _ fr fs => optKV b!"max-fr" fr ++ optKV b!"max-fs" fs
  | h265 _ vps sps pps mdd => fmtpH265 vps sps pps mdd
  | h264 _ sps pps pm => fmtpH264 sps pps pm
  | mpeg4video _ plid cfg => fmtpMpeg4video plid cfg
  | opus _ ch => fmtpOpus ch
  | vorbis _ _ _ cfg => [(b!"configuration", b64 (cfg.getD []))]
  | mpeg4audio _ plid c sl il idl => fmtpMpeg4audio plid c sl il idl
  | latm _ plid br cp smc sbr => fmtpLatm plid br cp smc sbr
  | speex _ _ vbr => fmtpSpeex vbr
  | generic _ _ f _ => f
  | ac3 .. | g726 .. | g711 .. | lpcm .. | klv _ | mpeg1video | mjpeg | mpeg1audio | g722 | mpegts => []

end Format

/-! ## `format.Unmarshal` -/

/-- `unmarshalContext` -/
structure Ctx where
  mediaType : Str
  pt : Nat
  clock : Str
  codec : Str
  rtpMap : Str
  fmtp : List (Str × Str)     -- decodeFMTP: entries in order of appearance, keys lower-cased

/-- value of a key in the Go map built by `decodeFMTP`: the last occurrence wins -/
def lookupLast (k : Str) : List (Str × Str) → Option Str
  | [] => none
  | (k', v) :: rest =>
    match lookupLast k rest with
    | some w => some w
    | none => if k' = k then some v else none

/-- `getFormatAttribute` -/
def getFormatAttribute (attrs : List Attr) (pt : Nat) (key : Str) : Str :=
  match attrs with
  | [] => []
  | a :: rest =>
    if a.key = key then
      match cut 32 (trimSpace a.val) with
      | some (p0, p1) => if parseUint attrPtBits p0 = some pt then p1 else getFormatAttribute rest pt key
      | none => getFormatAttribute rest pt key
    else getFormatAttribute rest pt key

/-- `decodeFMTP` (all entries in order; the map semantics are in `lookupLast` / `mapOf`) -/
def decodeFMTP (enc : Str) : List (Str × Str) :=
  if enc.isEmpty then [] else
  (splitOn 59 enc).filterMap fun kv =>
    let kv := trimBlank kv
    if kv.isEmpty then none else
    match cut 61 kv with
    | some (k, v) => some (toLower k, v)
    | none => none

/-- `getCodecAndClock` -/
def getCodecAndClock (rtpMap : Str) : Str × Str :=
  match cut 47 rtpMap with
  | some (c, k) => (toLower c, k)
  | none => ([], [])

/-- `smartPayloadTypeRegexp`: `^smart/[0-9]/[0-9]+$` -/
def isSmartPT (s : Str) : Bool :=
  match s with
  | 115 :: 109 :: 97 :: 114 :: 116 :: 47 :: d :: 47 :: rest => isDigit d && !rest.isEmpty && rest.all isDigit
  | _ => false

/-- `smartRtpmapRegexp`: `^([0-9]+) (.+)/[0-9]+$`; the first group -/
def smartRtpmap (v : Str) : Option Str :=
  let d1 := v.takeWhile isDigit
  let rest := v.dropWhile isDigit
  if d1.isEmpty then none else
  match rest with
  | 32 :: r =>
    -- `.` does not match a line feed; there is none inside a line
    match lastIndex 47 r with
    | some (j + 1) =>
      let tail := r.drop (j + 2)
      if !tail.isEmpty && tail.all isDigit then some d1 else none
    | _ => none
  | _ => none

/-- `replaceSmartPayloadType` -/
def replaceSmartPayloadType (payloadType : Str) (attrs : List Attr) : Str :=
  if isSmartPT payloadType then
    match attrs.findSome? (fun a => if a.key = b!"rtpmap" then smartRtpmap a.val else none) with
    | some p => p
    | none => payloadType
  else payloadType

inductive Kind
  | av1 | vp9 | vp8 | h265 | h264 | mpeg4video | opus | vorbis | mpeg4audio | latm | ac3 | speex | g726
  | g711 | lpcm | klv | mpeg1video | mjpeg | mpeg1audio | g722 | mpegts | generic
deriving DecidableEq, Repr

def isG726Codec (c : Str) : Bool :=
  c = b!"g726-16" || c = b!"g726-24" || c = b!"g726-32" || c = b!"g726-40"
    || c = b!"aal2-g726-16" || c = b!"aal2-g726-24" || c = b!"aal2-g726-32" || c = b!"aal2-g726-40"

/-- The selection `switch` of `format.Unmarshal`, in source order (Go's `case a, b && c:` is
`a || (b && c)`). -/
def select (codec clock : Str) (pt : Nat) : Kind :=
  let dyn := dynLo ≤ pt ∧ pt ≤ dynHi
  if codec = b!"av1" ∧ clock = b!"90000" ∧ dyn then .av1
  else if codec = b!"vp9" ∧ clock = b!"90000" ∧ dyn then .vp9
  else if codec = b!"vp8" ∧ clock = b!"90000" ∧ dyn then .vp8
  else if codec = b!"h265" ∧ clock = b!"90000" ∧ dyn then .h265
  else if codec = b!"h264" ∧ clock = b!"90000" ∧ (dyn ∨ pt = h264StaticPT) then .h264
  else if codec = b!"mp4v-es" ∧ clock = b!"90000" ∧ dyn then .mpeg4video
  else if codec = b!"opus" ∨ (codec = b!"multiopus" ∧ dyn) then .opus
  else if codec = b!"vorbis" ∧ dyn then .vorbis
  else if codec = b!"mpeg4-generic" ∧ dyn then .mpeg4audio
  else if codec = b!"mp4a-latm" ∧ dyn then .latm
  else if codec = b!"ac3" ∧ dyn then .ac3
  else if codec = b!"speex" ∧ dyn then .speex
  else if isG726Codec codec ∧ clock = b!"8000" ∧ dyn then .g726
  else if codec = b!"pcma" ∨ (codec = b!"pcmu" ∧ dyn) then .g711
  else if codec = b!"l8" ∨ codec = b!"l16" ∨ (codec = b!"l24" ∧ dyn) then .lpcm
  else if codec = b!"smpte336m" ∧ dyn then .klv
  else if pt = ptMpeg1Video then .mpeg1video
  else if pt = ptMjpeg then .mjpeg
  else if pt = ptMpeg1Audio then .mpeg1audio
  else if pt = ptG722 then .g722
  else if pt = ptPcmu ∨ pt = ptPcma then .g711
  else if pt = ptL16Stereo ∨ pt = ptL16Mono then .lpcm
  else if pt = ptMpegts then .mpegts
  else .generic

/-- an optional `strconv.ParseUint(val, 10, 31)` parameter: absent, a value, or an error -/
def optUint31 (fm : List (Str × Str)) (k : Str) : Option (Option Nat) :=
  match lookupLast k fm with
  | none => some none
  | some v => match parseUint paramBits v with
    | some n => some (some n)
    | none => none

/-- `rate[/channels]` with a default channel count (G711, LPCM, AC-3) -/
def rateChannels (clock : Str) (dflt : Nat) : Option (Nat × Nat) :=
  match cut 47 clock with
  | some (r, c) =>
    match parseUint rateBits r, parseUint rateBits c with
    | some r', some c' => if r' = 0 ∨ c' = 0 then none else some (r', c')
    | _, _ => none
  | none =>
    match parseUint rateBits clock with
    | some r' => if r' = 0 then none else some (r', dflt)
    | none => none

/-- `bytes.TrimPrefix(b, []byte{0, 0, 0, 1})` -/
def trimAnnexB : Bytes → Bytes
  | 0 :: 0 :: 0 :: 1 :: rest => rest
  | b => b

def b64dec (s : Str) : Option Bytes := Rtsp.B64Std.decode s

/-- `findClockRate` -/
def findClockRate (pt : Nat) (rtpMap : Str) (isApplication : Bool) : Option Nat :=
  if pt ∈ [0, 1, 2, 3, 4, 5, 7, 8, 9, 12, 13, 15, 18] then some 8000
  else if pt = 6 then some 16000
  else if pt = 10 ∨ pt = 11 then some 44100
  else if pt ∈ [14, 25, 26, 28, 31, 32, 33, 34] then some 90000
  else if pt = 16 then some 11025
  else if pt = 17 then some 22050
  else
    match (if rtpMap.isEmpty then none else (splitOn 47 rtpMap)[1]?) with
    | some c => parseUint 31 c
    | none => if isApplication || !rtpMap.isEmpty then some 0 else none

/-- canonical form of the Go map built by `decodeFMTP`: one entry per key (the last value), sorted
by key (byte-wise, as `sort.Strings`). -/
def strLt : Str → Str → Bool
  | [], [] => false
  | [], _ :: _ => true
  | _ :: _, [] => false
  | a :: as, b :: bs => a < b || (a == b && strLt as bs)

def insertKV (k v : Str) : List (Str × Str) → List (Str × Str)
  | [] => [(k, v)]
  | (k', v') :: rest =>
    if k = k' then (k, v) :: rest
    else if strLt k k' then (k, v) :: (k', v') :: rest
    else (k', v') :: insertKV k v rest

def mapOf (kvs : List (Str × Str)) : List (Str × Str) := kvs.foldl (fun m kv => insertKV kv.1 kv.2 m) []

open Format in
/-- the `unmarshal` method of each format -/
def unmarshalKind (O : Oracle) (k : Kind) (c : Ctx) : Res Format :=
  let fm := c.fmtp
  match k with
  | .av1 =>
    match optUint31 fm b!"level-idx", optUint31 fm b!"profile", optUint31 fm b!"tier" with
    | some l, some p, some t => .ok (av1 c.pt l p t)
    | _, _, _ => .err
  | .vp9 =>
    match optUint31 fm b!"max-fr", optUint31 fm b!"max-fs", optUint31 fm b!"profile-id" with
    | some a, some b, some p => .ok (vp9 c.pt a b p)
    | _, _, _ => .err
  | .vp8 =>
    match optUint31 fm b!"max-fr", optUint31 fm b!"max-fs" with
    | some a, some b => .ok (vp8 c.pt a b)
    | _, _ => .err
  | .h265 =>
    let blob (k : Str) (check : Bytes → Bool) : Option (Option Bytes) :=
      match lookupLast k fm with
      | none => some none
      | some v => match b64dec v with
        | some b => if check (trimAnnexB b) then some (some (trimAnnexB b)) else none
        | none => none
    match blob b!"sprop-vps" (fun _ => true), blob b!"sprop-sps" O.h265sps, blob b!"sprop-pps" O.h265pps,
        optUint31 fm b!"sprop-max-don-diff" with
    | some v, some s, some p, some d => .ok (h265 c.pt v s p (d.getD 0))
    | _, _, _, _ => .err
  | .h264 =>
    let params : Option (Option (Bytes × Bytes)) :=
      match lookupLast b!"sprop-parameter-sets" fm with
      | none => some none
      | some v =>
        match splitOn 44 v with
        | t0 :: t1 :: _ =>
          match b64dec t0 with
          | none => none
          | some s =>
            match b64dec t1 with
            | none => none
            | some p => if O.h264sps (trimAnnexB s) then some (some (trimAnnexB s, trimAnnexB p)) else some none
        | _ => some none
    match params, optUint31 fm b!"packetization-mode" with
    | some ps, some pm => .ok (h264 c.pt (ps.map (·.1)) (ps.map (·.2)) (pm.getD 0))
    | _, _ => .err
  | .mpeg4video =>
    let cfg : Option (Option Bytes) :=
      match lookupLast b!"config" fm with
      | none => some none
      | some v => match hexDecode v with
        | some b => if O.m4v b then some (some b) else none
        | none => none
    match optUint31 fm b!"profile-level-id", cfg with
    | some p, some cf => .ok (mpeg4video c.pt (p.getD m4vDefaultProfileLevelID) cf)
    | _, _ => .err
  | .opus =>
    match cut 47 c.clock with
    | none => .err
    | some (r, ch) =>
      if c.codec = b!"opus" then
        if parseUint 31 r = some opusClock ∧ parseUint 31 ch = some 2 then
          .ok (opus c.pt (if lookupLast b!"sprop-stereo" fm = some b!"1" then 2 else 1))
        else .err
      else
        match parseUint 31 r, parseUint 31 ch with
        | some r', some ch' => if r' = opusClock ∧ ch' ≠ 0 then .ok (opus c.pt ch') else .err
        | _, _ => .err
  | .vorbis =>
    match cut 47 c.clock with
    | none => .err
    | some (r, ch) =>
      match parseUint 31 r, parseUint 31 ch with
      | some r', some ch' =>
        if r' = 0 ∨ ch' = 0 then .err else
        match lookupLast b!"configuration" fm with
        | none => .err
        | some v => match b64dec v with
          | some conf => .ok (vorbis c.pt r' ch' (some conf))
          | none => .err
      | _, _ => .err
  | .mpeg4audio =>
    let stOk : Bool := match lookupLast b!"streamtype" fm with | some v => v == b!"5" | none => true
    let modeOk : Bool := match lookupLast b!"mode" fm with
      | some v => toLower v == b!"aac-hbr" || toLower v == b!"aac_hbr"
      | none => true
    let len (k : Str) : Option Nat :=
      match lookupLast k fm with
      | none => some 0
      | some v => match parseUint 31 v with
        | some n => if n > aacMaxLength then none else some n
        | none => none
    let cfg : Option (Option Asc) :=
      match lookupLast b!"config" fm with
      | none => some none
      | some v => match hexDecode v with
        | some b => match O.asc b with
          | some a => some (some a)
          | none => none
        | none => none
    if !stOk || !modeOk then .err else
    match optUint31 fm b!"profile-level-id", cfg, len b!"sizelength", len b!"indexlength", len b!"indexdeltalength" with
    | some p, some (some a), some sl, some il, some idl =>
      if sl = 0 then .err else .ok (mpeg4audio c.pt (p.getD 0) a sl il idl)
    | _, _, _, _, _ => .err
  | .latm =>
    let cp : Bool := match lookupLast b!"cpresent" fm with | some v => v == b!"1" | none => true
    let cfg : Option (Option Smc) :=
      match lookupLast b!"config" fm with
      | none => some none
      | some v => match hexDecode v with
        | some b => match O.smc b with
          | some a => some (some a)
          | none => none
        | none => none
    let sbr : Option Bool := (lookupLast b!"sbr-enabled" fm).map (· == b!"1")
    match optUint31 fm b!"profile-level-id", optUint31 fm b!"bitrate", cfg with
    | some p, some br, some cf =>
      if cp then
        if cf.isSome then .err
        else if c.clock ≠ b!"90000/1" then .err
        else .ok (latm c.pt (p.getD latmDefaultProfileLevelID) br true none sbr)
      else
        match cf with
        | none => .err
        | some s => if s.same then .ok (latm c.pt (p.getD latmDefaultProfileLevelID) br false (some s) sbr) else .err
    | _, _, _ => .err
  | .ac3 =>
    match rateChannels c.clock ac3DefaultChannels with
    | some (r, ch) => .ok (ac3 c.pt r ch)
    | none => .err
  | .speex =>
    match parseUint 31 c.clock with
    | some r =>
      if r = 0 then .err else
      match lookupLast b!"vbr" fm with
      | none => .ok (speex c.pt r none)
      | some v => if v = b!"on" then .ok (speex c.pt r (some true))
        else if v = b!"off" then .ok (speex c.pt r (some false)) else .err
    | none => .err
  | .g726 =>
    let br := if hasSuffix b!"-16" c.codec then 16 else if hasSuffix b!"-24" c.codec then 24
      else if hasSuffix b!"-32" c.codec then 32 else 40
    .ok (g726 c.pt br (hasPrefix b!"aal2-" c.codec))
  | .g711 =>
    if c.pt = 0 then .ok (g711 0 true 8000 1)
    else if c.pt = 8 then .ok (g711 8 false 8000 1)
    else match rateChannels c.clock 1 with
      | some (r, ch) => .ok (g711 c.pt (c.codec = b!"pcmu") r ch)
      | none => .err
  | .lpcm =>
    if c.pt = 10 then .ok (lpcm 10 16 44100 2)
    else if c.pt = 11 then .ok (lpcm 11 16 44100 1)
    else
      let depth := if c.codec = b!"l8" then 8 else if c.codec = b!"l16" then 16 else if c.codec = b!"l24" then 24 else 0
      match rateChannels c.clock 1 with
      | some (r, ch) => .ok (lpcm c.pt depth r ch)
      | none => .err
  | .klv => .ok (klv c.pt)
  | .mpeg1video => .ok mpeg1video
  | .mjpeg => .ok mjpeg
  | .mpeg1audio => .ok mpeg1audio
  | .g722 => .ok g722
  | .mpegts => .ok mpegts
  | .generic =>
    match findClockRate c.pt c.rtpMap (c.mediaType = b!"application") with
    | some clk => .ok (generic c.pt c.rtpMap (mapOf fm) clk)
    | none => .err

/-- the selection switch has the shape modelled by `select` (a changed number of cases breaks the build) -/
example : selectionCases = 23 := rfl

/-- `format.Unmarshal(md, payloadTypeStr)` -/
def unmarshalFormat (O : Oracle) (m : MediaD) (payloadTypeStr : Str) : Res Format :=
  match parseUint ptBits (replaceSmartPayloadType payloadTypeStr m.attrs) with
  | none => .err
  | some pt =>
    let rtpMap := getFormatAttribute m.attrs pt b!"rtpmap"
    let fm := decodeFMTP (getFormatAttribute m.attrs pt b!"fmtp")
    let (codec, clock) := getCodecAndClock rtpMap
    unmarshalKind O (select codec clock pt) ⟨m.media, pt, clock, codec, rtpMap, fm⟩

end Rtsp.Sdp
