/-
Byte strings and the Go standard-library functions that the SDP code calls (`strings`, `strconv`),
each modelled on ASCII text (the SDP model declares a line with a byte ≥ 0x80 outside the opaque
`s= i= e= p= k=` values `unmodelled`, so the Unicode behaviour of `strings.TrimSpace`, `strings.Fields`,
`strings.ToLower`, `unicode.IsLetter` never matters).  Core Lean only (linked into `oracle_sdp`).
All functions are structurally recursive so that `decide` evaluates them on literals.
-/
namespace Rtsp.Sdp

/-- A Go `string`: a list of bytes. -/
abbrev Str := List UInt8

open Lean in
/-- `b!"abc"` is the byte list `[97, 98, 99]` (a plain list literal). -/
macro:max "b!" s:str : term => do
  let elems : Array (TSyntax `term) :=
    (s.getString.toUTF8.toList.map fun c => (Syntax.mkNumLit (toString c.toNat) : TSyntax `term)).toArray
  `(([$elems,*] : List UInt8))

/-- Outcome of a parser: a value, an error (Go `error`; the text is never compared), or `unm`: the
input leaves the part of the grammar the model reproduces (see `Doc.lean`). -/
inductive Res (α : Type)
  | ok (a : α)
  | err
  | unm
deriving DecidableEq, Repr

namespace Res
@[inline] def bind {α β} (x : Res α) (f : α → Res β) : Res β :=
  match x with
  | ok a => f a
  | err => err
  | unm => unm
instance : Monad Res where
  pure := ok
  bind := bind
@[simp] theorem ok_bind {α β} (a : α) (f : α → Res β) : (ok a >>= f) = f a := rfl
@[simp] theorem err_bind {α β} (f : α → Res β) : ((err : Res α) >>= f) = err := rfl
@[simp] theorem unm_bind {α β} (f : α → Res β) : ((unm : Res α) >>= f) = unm := rfl
@[simp] theorem pure_eq {α} (a : α) : (pure a : Res α) = ok a := rfl
/-- `some a ↦ ok a`, `none ↦ err` -/
def ofOption {α} : Option α → Res α
  | some a => ok a
  | none => err
@[simp] theorem ofOption_some {α} (a : α) : ofOption (some a) = ok a := rfl
@[simp] theorem ofOption_none {α} : ofOption (none : Option α) = err := rfl
end Res

/-! ### character classes -/

/-- ASCII white space of `strings.TrimSpace` / `strings.Fields`: `\t \n \v \f \r` and blank -/
def isSpace (c : UInt8) : Bool := c == 32 || (9 ≤ c && c ≤ 13)
def isDigit (c : UInt8) : Bool := 48 ≤ c && c ≤ 57
def isUpper (c : UInt8) : Bool := 65 ≤ c && c ≤ 90
def isLower (c : UInt8) : Bool := 97 ≤ c && c ≤ 122
/-- `unicode.IsLetter(r) || unicode.IsNumber(r)` on ASCII -/
def isAlnum (c : UInt8) : Bool := isDigit c || isUpper c || isLower c
def isAscii (c : UInt8) : Bool := c < 128

def lowerB (c : UInt8) : UInt8 := if isUpper c then c + 32 else c
def upperB (c : UInt8) : UInt8 := if isLower c then c - 32 else c
/-- `strings.ToLower` on ASCII text -/
def toLower (s : Str) : Str := s.map lowerB
/-- `strings.ToUpper` on ASCII text -/
def toUpper (s : Str) : Str := s.map upperB

/-! ### trimming, splitting -/

/-- drop the leading bytes that satisfy `p` -/
def trimLeft (p : UInt8 → Bool) : Str → Str
  | [] => []
  | c :: cs => if p c then trimLeft p cs else c :: cs

def trimRight (p : UInt8 → Bool) (s : Str) : Str := (trimLeft p s.reverse).reverse

/-- `strings.TrimSpace` -/
def trimSpace (s : Str) : Str := trimRight isSpace (trimLeft isSpace s)

/-- `strings.Trim(s, " ")` -/
def trimBlank (s : Str) : Str := trimRight (· == 32) (trimLeft (· == 32) s)

/-- `strings.Split(s, string(sep))` for a one-byte separator: never empty, `Split("", sep) = [""]`. -/
def splitOn (sep : UInt8) : Str → List Str
  | [] => [[]]
  | c :: cs =>
    if c = sep then [] :: splitOn sep cs
    else match splitOn sep cs with
      | [] => [[c]]
      | p :: ps => (c :: p) :: ps

/-- `strings.Cut(s, string(sep))` -/
def cut (sep : UInt8) : Str → Option (Str × Str)
  | [] => none
  | c :: cs =>
    if c = sep then some ([], cs)
    else match cut sep cs with
      | some (a, b) => some (c :: a, b)
      | none => none

/-- `strings.Join(parts, sep)` -/
def joinWith (sep : Str) : List Str → Str
  | [] => []
  | [p] => p
  | p :: q :: ps => p ++ sep ++ joinWith sep (q :: ps)

/-- `strings.Fields` -/
def fields : Str → List Str
  | [] => []
  | c :: cs =>
    if isSpace c then fields cs
    else match cs with
      | [] => [[c]]
      | d :: _ =>
        if isSpace d then [c] :: fields cs
        else match fields cs with
          | w :: ws => (c :: w) :: ws
          | [] => [[c]]

/-- `strings.HasPrefix` -/
def hasPrefix (p s : Str) : Bool := p.isPrefixOf s
/-- `strings.HasSuffix` -/
def hasSuffix (p s : Str) : Bool := p.reverse.isPrefixOf s.reverse

/-- `strings.Index(s, sub)` (`none` = -1) -/
def indexOf (sub : Str) : Str → Option Nat
  | [] => if sub.isEmpty then some 0 else none
  | c :: cs => if sub.isPrefixOf (c :: cs) then some 0 else (indexOf sub cs).map (· + 1)

/-- `strings.Replace(s, old, new, 1)` for a non-empty `old` -/
def replace1 (old new : Str) : Str → Str
  | [] => []
  | c :: cs => if old.isPrefixOf (c :: cs) then new ++ (c :: cs).drop old.length else c :: replace1 old new cs

/-- index of the last occurrence of a byte -/
def lastIndex (b : UInt8) : Str → Option Nat
  | [] => none
  | c :: cs =>
    match lastIndex b cs with
    | some i => some (i + 1)
    | none => if c = b then some 0 else none

/-- `strings.TrimPrefix(s, "-")` -/
def trimMinus : Str → Str
  | 45 :: cs => cs
  | s => s

/-! ### numbers -/

/-- `strconv.FormatUint(n, 10)` / `FormatInt` of a non-negative number -/
def dec (n : Nat) : Str := (Nat.toDigits 10 n).map fun c => UInt8.ofNat c.toNat

/-- value of a string of decimal digits (`none` if a byte is not a digit) -/
def decVal : Str → Nat → Option Nat
  | [], acc => some acc
  | c :: cs, acc => if isDigit c then decVal cs (acc * 10 + (c.toNat - 48)) else none

def hexDigitVal (c : UInt8) : Option Nat :=
  if isDigit c then some (c.toNat - 48)
  else if 97 ≤ c ∧ c ≤ 102 then some (c.toNat - 87)
  else if 65 ≤ c ∧ c ≤ 70 then some (c.toNat - 55)
  else none

def hexVal : Str → Nat → Option Nat
  | [], acc => some acc
  | c :: cs, acc => match hexDigitVal c with
    | some d => hexVal cs (acc * 16 + d)
    | none => none

/-- `strconv.ParseUint(s, 10, bits)`: non-empty, decimal digits only (no sign; no underscore in an
explicit base), value below `2^bits` (`ErrRange` is an error like any other). -/
def parseUint (bits : Nat) (s : Str) : Option Nat :=
  if s.isEmpty then none else
  match decVal s 0 with
  | some n => if n < 2 ^ bits then some n else none
  | none => none

/-- `strconv.ParseUint(s, 16, bits)` -/
def parseUintHex (bits : Nat) (s : Str) : Option Nat :=
  if s.isEmpty then none else
  match hexVal s 0 with
  | some n => if n < 2 ^ bits then some n else none
  | none => none

/-- `strconv.ParseInt(s, 10, 64)` / `strconv.Atoi` on a 64-bit platform: optional sign, digits,
`-2^63 ≤ v < 2^63`. -/
def parseInt64 (s : Str) : Option Int :=
  match s with
  | [] => none
  | 45 :: ds =>
    if ds.isEmpty then none else
    match decVal ds 0 with
    | some n => if n ≤ 2 ^ 63 then some (- (n : Int)) else none
    | none => none
  | 43 :: ds =>
    if ds.isEmpty then none else
    match decVal ds 0 with
    | some n => if n < 2 ^ 63 then some (n : Int) else none
    | none => none
  | ds =>
    match decVal ds 0 with
    | some n => if n < 2 ^ 63 then some (n : Int) else none
    | none => none

/-! ### hexadecimal byte strings (`encoding/hex`) -/

def hexLowerDigit (n : Nat) : UInt8 := if n < 10 then UInt8.ofNat (48 + n) else UInt8.ofNat (87 + n)
def hexUpperDigit (n : Nat) : UInt8 := if n < 10 then UInt8.ofNat (48 + n) else UInt8.ofNat (55 + n)

/-- `hex.EncodeToString` -/
def hexEncode : List UInt8 → Str
  | [] => []
  | b :: bs => hexLowerDigit (b.toNat / 16) :: hexLowerDigit (b.toNat % 16) :: hexEncode bs

/-- `strings.ToUpper(hex.EncodeToString(b))` -/
def hexEncodeUpper : List UInt8 → Str
  | [] => []
  | b :: bs => hexUpperDigit (b.toNat / 16) :: hexUpperDigit (b.toNat % 16) :: hexEncodeUpper bs

/-- `hex.DecodeString`: an even number of hex digits of either case -/
def hexDecode : Str → Option (List UInt8)
  | [] => some []
  | [_] => none
  | a :: b :: rest =>
    match hexDigitVal a, hexDigitVal b, hexDecode rest with
    | some x, some y, some out => some (UInt8.ofNat (x * 16 + y) :: out)
    | _, _, _ => none

end Rtsp.Sdp
