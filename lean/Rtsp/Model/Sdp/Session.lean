import Rtsp.Model.Sdp.Formats
/-
`pkg/description`: `Session` / `Media`, `Marshal` (to the pion document) and `Unmarshal2` (from it).
Core Lean only.  A MIKEY message is represented by its encoding (`Message.Marshal()`); accepting a
blob and re-encoding it is `Oracle.mikey`.
-/
namespace Rtsp.Sdp

inductive Profile | avp | savp
deriving DecidableEq, Repr

/-- `description.Media` -/
structure Media where
  typ : Str
  id : Str
  backChannel : Bool
  profile : Profile
  keyMgmt : Option Bytes
  control : Str
  formats : List Format
deriving DecidableEq, Repr

/-- `description.Session` (`BaseURL` is not part of the SDP; `Multicast` is written but never read back) -/
structure Session where
  title : Str
  keyMgmt : Option Bytes
  fecGroups : List (List Str)
  medias : List Media
deriving DecidableEq, Repr

/-! ## Marshal -/

/-- insertion sort by key: `sortedKeys(fmtp)` of `Media.Marshal` (a Go map has distinct keys) -/
def sortKV : List (Str × Str) → List (Str × Str)
  | [] => []
  | (k, v) :: rest => insertKV k v (sortKV rest)

/-- `key=value` entries joined by `"; "` -/
def renderFmtp (kvs : List (Str × Str)) : Str :=
  joinWith b!"; " (kvs.map fun kv => kv.1 ++ 61 :: kv.2)

def keyMgmtAttr (k : Option Bytes) : List Attr :=
  match k with
  | some enc => [⟨b!"key-mgmt", b!"mikey " ++ Format.b64 enc⟩]
  | none => []

def formatAttrs (f : Format) : List Attr :=
  (if f.rtpmap.isEmpty then [] else [⟨b!"rtpmap", dec f.pt ++ 32 :: f.rtpmap⟩])
  ++ (if f.fmtp.isEmpty then [] else [⟨b!"fmtp", dec f.pt ++ 32 :: renderFmtp (sortKV f.fmtp)⟩])

/-- `Media.Marshal` plus the `recvonly` marking that `Session.Marshal` adds -/
def marshalMedia (anyBack : Bool) (m : Media) : MediaD :=
  { media := m.typ
    protos := if m.profile = .savp then [b!"RTP", b!"SAVP"] else [b!"RTP", b!"AVP"]
    fmts := m.formats.map fun f => dec f.pt
    attrs :=
      (if m.id.isEmpty then [] else [⟨b!"mid", m.id⟩])
      ++ (if m.backChannel then [⟨b!"sendonly", []⟩] else [])
      ++ keyMgmtAttr m.keyMgmt
      ++ [⟨b!"control", m.control⟩]
      ++ m.formats.flatMap formatAttrs
      ++ (if !m.backChannel && anyBack then [⟨b!"recvonly", []⟩] else []) }

/-- the document `Session.Marshal` hands to pion -/
def marshalDoc (s : Session) : Doc :=
  { name := if s.title.isEmpty then [32] else s.title
    attrs := s.fecGroups.map (fun g => ⟨b!"group", b!"FEC " ++ joinWith [32] g⟩) ++ keyMgmtAttr s.keyMgmt
    medias := s.medias.map (marshalMedia (s.medias.any (·.backChannel))) }

/-- `Session.Marshal` -/
def marshal (multicast : Bool) (s : Session) : Str := render multicast (marshalDoc s)

/-! ## Unmarshal -/

/-- `getAttribute` -/
def getAttribute (attrs : List Attr) (key : Str) : Str :=
  match attrs.find? (·.key = key) with
  | some a => a.val
  | none => []

/-- the `key-mgmt` attribute of a session or a media -/
def unmarshalKeyMgmt (O : Oracle) (attrs : List Attr) : Res (Option Bytes) :=
  let enc := getAttribute attrs b!"key-mgmt"
  if enc.isEmpty then .ok none
  else if !hasPrefix b!"mikey " enc then .err
  else match b64dec (enc.drop 6) with
    | none => .err
    | some raw => match O.mikey raw with
      | some m => .ok (some m)
      | none => .err

def unmarshalFormats (O : Oracle) (m : MediaD) : List Str → Res (List Format)
  | [] => .ok []
  | p :: ps =>
    match unmarshalFormat O m p with
    | .ok f => (unmarshalFormats O m ps).bind fun fs => .ok (f :: fs)
    | .err => .err
    | .unm => .unm

/-- `Media.Unmarshal` -/
def unmarshalMedia (O : Oracle) (md : MediaD) : Res Media :=
  let id := getAttribute md.attrs b!"mid"
  if !id.isEmpty && !id.all isAlnum then .err else
  (unmarshalKeyMgmt O md.attrs).bind fun km =>
  (unmarshalFormats O md md.fmts).bind fun fs =>
  if fs.isEmpty then .err else
  .ok { typ := md.media, id := id, backChannel := md.attrs.any (·.key = b!"sendonly"),
        profile := if md.protos.contains b!"SAVP" then .savp else .avp,
        keyMgmt := km, control := getAttribute md.attrs b!"control", formats := fs }

/-- medias in order; a media whose non-empty id already occurred is an error -/
def unmarshalMedias (O : Oracle) : List Media → List MediaD → Res (List Media)
  | acc, [] => .ok acc
  | acc, md :: rest =>
    match unmarshalMedia O md with
    | .ok m =>
      if !m.id.isEmpty && acc.any (·.id = m.id) then .err
      else unmarshalMedias O (acc ++ [m]) rest
    | .err => .err
    | .unm => .unm

def fecGroupsOf (ms : List Media) : List Attr → Option (List (List Str))
  | [] => some []
  | a :: rest =>
    if a.key = b!"group" && hasPrefix b!"FEC " a.val then
      let g := splitOn 32 (a.val.drop 4)
      if g.all (fun id => ms.any (·.id = id)) then (fecGroupsOf ms rest).map (g :: ·) else none
    else fecGroupsOf ms rest

/-- `Session.Unmarshal2` -/
def unmarshalDoc (O : Oracle) (d : Doc) : Res Session :=
  (unmarshalKeyMgmt O d.attrs).bind fun km =>
  if d.medias.isEmpty then .err else
  (unmarshalMedias O [] d.medias).bind fun ms =>
  if ms.any (!·.id.isEmpty) && ms.any (·.id.isEmpty) then .err else
  let ms := if ms.all (·.backChannel) then ms.map ({ · with backChannel := false }) else ms
  match fecGroupsOf ms d.attrs with
  | none => .err
  | some gs => .ok { title := if d.name = [32] then [] else d.name, keyMgmt := km, fecGroups := gs, medias := ms }

/-- the library's parser: `sdpunmarshaler.Unmarshal` then `Session.Unmarshal2` -/
def unmarshal (O : Oracle) (text : Str) : Res Session := (parse text).bind (unmarshalDoc O)

end Rtsp.Sdp
