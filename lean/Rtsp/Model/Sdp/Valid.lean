import Rtsp.Model.Sdp.Session
/-
Validity: which descriptions are inside the quantifier of C05 ("supported media and formats with
valid parameters").  Every condition is either a range the Go parser enforces, or one of the
exclusions listed in Props/C05.lean.  Core Lean only (specification, not linked into the oracle).
-/
namespace Rtsp.Sdp
open Rtsp.Facts.Sdp

/-- an `int` parameter that `strconv.ParseUint(_, 10, 31)` reads back -/
abbrev P31 (n : Nat) : Prop := n < 2 ^ 31
def OptP31 : Option Nat → Prop
  | some n => P31 n
  | none => True

/-- a dynamic payload type -/
abbrev Dyn (pt : Nat) : Prop := 96 ≤ pt ∧ pt ≤ 127

/-- a sample rate / channel count: positive and below 2^31 -/
abbrev Pos31 (n : Nat) : Prop := 0 < n ∧ n < 2 ^ 31

/-- a parameter set without Annex-B start code -/
abbrev NoAnnexB (b : Bytes) : Prop := trimAnnexB b = b

/-- an fmtp key of a `Generic` format as the parser returns it: not empty, no upper-case letter, none of
`; =` and no blank at either end; values: no `;`, no blank at either end, ASCII -/
abbrev GenKeyOk (k : Str) : Prop :=
  k ≠ [] ∧ (∀ c ∈ k, c ≠ 59 ∧ c ≠ 61 ∧ isUpper c = false ∧ isAscii c = true ∧ isSpace c = false)
abbrev GenValOk (v : Str) : Prop :=
  (∀ c ∈ v, c ≠ 59 ∧ isAscii c = true ∧ (isSpace c = true → c = 32)) ∧ v.head? ≠ some 32 ∧ v.getLast? ≠ some 32

/-- keys strictly increasing (byte-wise): the canonical form of a Go map -/
abbrev KeysSorted (l : List (Str × Str)) : Prop := l.Pairwise fun a b => strLt a.1 b.1 = true

/-- Valid parameters of each format type.  `mt` is the type of the media that holds the format. -/
def ValidFormat (O : Oracle) (mt : Str) : Format → Prop
  | .av1 pt l p t => Dyn pt ∧ OptP31 l ∧ OptP31 p ∧ OptP31 t
  | .vp9 pt a b c => Dyn pt ∧ OptP31 a ∧ OptP31 b ∧ OptP31 c
  | .vp8 pt a b => Dyn pt ∧ OptP31 a ∧ OptP31 b
  | .h265 pt vps sps pps mdd =>
    Dyn pt ∧ P31 mdd
    ∧ (∀ b, vps = some b → NoAnnexB b)
    ∧ (∀ b, sps = some b → NoAnnexB b ∧ O.h265sps b = true)
    ∧ (∀ b, pps = some b → NoAnnexB b ∧ O.h265pps b = true)
  | .h264 pt sps pps pm =>
    (Dyn pt ∨ pt = 35) ∧ P31 pm
    ∧ ((sps = none ∧ pps = none) ∨ ∃ s p, sps = some s ∧ pps = some p ∧ NoAnnexB s ∧ NoAnnexB p ∧ O.h264sps s = true)
  | .mpeg4video pt plid cfg => Dyn pt ∧ P31 plid ∧ (∀ c, cfg = some c → O.m4v c = true)
  | .opus pt ch => Dyn pt ∧ 1 ≤ ch ∧ P31 ch
  | .vorbis pt r ch cfg => Dyn pt ∧ Pos31 r ∧ Pos31 ch ∧ cfg.isSome
  | .mpeg4audio pt plid c sl il idl =>
    Dyn pt ∧ 1 ≤ plid ∧ P31 plid ∧ O.asc c.enc = some c ∧ 1 ≤ sl ∧ sl ≤ 100 ∧ il ≤ 100 ∧ idl ≤ 100
    ∧ P31 (Format.ascRate c)
  | .latm pt plid br cp smc _ =>
    Dyn pt ∧ P31 plid ∧ OptP31 br
    ∧ (if cp then smc = none else ∃ s, smc = some s ∧ O.smc s.enc = some s ∧ s.same = true ∧ P31 (Format.ascRate s.first))
  | .ac3 pt r ch => Dyn pt ∧ Pos31 r ∧ Pos31 ch
  | .speex pt r _ => Dyn pt ∧ Pos31 r
  | .g726 pt br _ => Dyn pt ∧ (br = 16 ∨ br = 24 ∨ br = 32 ∨ br = 40)
  | .g711 pt mu r ch =>
    (pt = 0 ∧ mu = true ∧ r = 8000 ∧ ch = 1) ∨ (pt = 8 ∧ mu = false ∧ r = 8000 ∧ ch = 1) ∨ (Dyn pt ∧ Pos31 r ∧ Pos31 ch)
  | .lpcm pt d r ch =>
    (pt = 10 ∧ d = 16 ∧ r = 44100 ∧ ch = 2) ∨ (pt = 11 ∧ d = 16 ∧ r = 44100 ∧ ch = 1)
    ∨ (Dyn pt ∧ (d = 8 ∨ d = 16 ∨ d = 24) ∧ Pos31 r ∧ Pos31 ch)
  | .klv pt => Dyn pt
  | .mpeg1video | .mjpeg | .mpeg1audio | .g722 | .mpegts => True
  | .generic pt rm fm clk =>
    pt < 256
    ∧ select (getCodecAndClock rm).1 (getCodecAndClock rm).2 pt = .generic
    ∧ findClockRate pt rm (mt == b!"application") = some clk
    ∧ (∀ c ∈ rm, isAscii c = true ∧ (isSpace c = true → c = 32)) ∧ (∀ c, rm.head? = some c → isSpace c = false) ∧ (∀ c, rm.getLast? = some c → isSpace c = false)
    ∧ (∀ kv ∈ fm, GenKeyOk kv.1 ∧ GenValOk kv.2) ∧ KeysSorted fm

/-- the `unmarshalContext` that `format.Unmarshal` builds from what `Media.Marshal` wrote for `f`
(proved in `Proofs/Sdp/Media.lean`) -/
def ctxOf (mt : Str) (f : Format) : Ctx :=
  ⟨mt, f.pt, (getCodecAndClock f.rtpmap).2, (getCodecAndClock f.rtpmap).1, f.rtpmap,
   f.fmtp.map fun kv => (toLower kv.1, kv.2)⟩

/-- `format.Unmarshal` after the attribute lookup -/
def unmarshalCtx (O : Oracle) (c : Ctx) : Res Format := unmarshalKind O (select c.codec c.clock c.pt) c

end Rtsp.Sdp

namespace Rtsp.Sdp

/-- A media inside the quantifier of C05. -/
structure ValidMedia (O : Oracle) (m : Media) : Prop where
  /-- the media types the `m=` parser accepts; one token -/
  type_ok : mediaTypeOk m.typ = true
  type_chars : ∀ c ∈ m.typ, isSpace c = false ∧ isAscii c = true
  /-- media ids are alphanumeric (the parser rejects others) -/
  id_alnum : ∀ c ∈ m.id, isAlnum c = true
  /-- the MIKEY message is one that `mikey.Message.Unmarshal` accepts and re-encodes identically -/
  keymgmt_ok : ∀ k, m.keyMgmt = some k → O.mikey k = some k
  /-- the control attribute is one line of ASCII -/
  control_ok : ∀ c ∈ m.control, c ≠ 10 ∧ c ≠ 13 ∧ isAscii c = true
  formats_ne : m.formats ≠ []
  formats_ok : ∀ f ∈ m.formats, ValidFormat O m.typ f
  /-- the formats of a media have distinct payload types -/
  pts_distinct : m.formats.Pairwise fun a b => a.pt ≠ b.pt

/-- A session description inside the quantifier of C05. -/
structure ValidSession (O : Oracle) (s : Session) : Prop where
  /-- the title is one line and is not the single blank that encodes "no title" -/
  title_ok : ∀ c ∈ s.title, c ≠ 10 ∧ c ≠ 13
  title_not_blank : s.title ≠ [32]
  keymgmt_ok : ∀ k, s.keyMgmt = some k → O.mikey k = some k
  medias_ne : s.medias ≠ []
  medias_ok : ∀ m ∈ s.medias, ValidMedia O m
  /-- media ids: none, or all present and distinct -/
  ids : (∀ m ∈ s.medias, m.id = []) ∨ ((∀ m ∈ s.medias, m.id ≠ []) ∧ s.medias.Pairwise fun a b => a.id ≠ b.id)
  /-- at least one media is not a back channel -/
  not_all_back : ∃ m ∈ s.medias, m.backChannel = false
  /-- FEC groups are non-empty lists of ids of medias of the session -/
  fec_ok : ∀ g ∈ s.fecGroups, g ≠ [] ∧ ∀ id ∈ g, (∀ c ∈ id, isAlnum c = true) ∧ ∃ m ∈ s.medias, m.id = id

end Rtsp.Sdp
