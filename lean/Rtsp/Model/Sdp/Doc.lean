import Rtsp.Model.Sdp.Str
import Rtsp.Generated.Facts.Sdp
/-
SDP documents: the part of pion's `sdp.SessionDescription` that gortsplib reads and writes, pion's
`Marshal` for exactly the fields `description.Session.Marshal` sets, and the tolerant line machine
of `pkg/sdpunmarshaler` (`Unmarshal`).  Core Lean only.

What is modelled faithfully: line splitting (`\r` removed, split at `\n`, empty lines skipped, the
`x=` shape check), the four states, and the handlers of `v o s i e p c b t r z k a m` in session and
media position.  What is NOT: `u=` (net/url.Parse), a two-field `c=IN <address>` whose address is IPv6
text (net.ParseIP; dotted-decimal IPv4 is modelled), and any line other than `s= i= e= p= k=` that contains a byte ≥ 0x80
(Unicode-aware `strings` functions): the result is `unm`, and such cases are excluded from the
comparison with the implementation (counted in the evidence).  An error found on an earlier line
wins over `unm` on a later line, exactly as the sequential Go loop behaves.
-/
namespace Rtsp.Sdp

/-- `sdp.Attribute` -/
structure Attr where
  key : Str
  val : Str
deriving DecidableEq, Repr

/-- `sdp.MediaDescription` restricted to what gortsplib reads: `MediaName.Media`, `.Protos`,
`.Formats` and `Attributes` (port, title, connection, bandwidth, key are parsed and dropped). -/
structure MediaD where
  media : Str
  protos : List Str
  fmts : List Str
  attrs : List Attr
deriving DecidableEq, Repr

/-- `sdp.SessionDescription` restricted to `SessionName`, `Attributes`, `MediaDescriptions`. -/
structure Doc where
  name : Str
  attrs : List Attr
  medias : List MediaD
deriving DecidableEq, Repr

def Doc.empty : Doc := ⟨[], [], []⟩

/-! ## pion `SessionDescription.Marshal` on what `Session.Marshal` builds -/

def crlf : Str := [13, 10]

/-- `Attribute.marshalInto` -/
def renderAttr (a : Attr) : Str := if a.val.isEmpty then a.key else a.key ++ 58 :: a.val

/-- `MediaName.marshalInto` with port 0 -/
def renderMediaName (m : MediaD) : Str :=
  m.media ++ b!" 0 " ++ joinWith [47] m.protos ++ 32 :: joinWith [32] m.fmts

/-- `a=<attribute>` -/
def attrLine (a : Attr) : Str := 97 :: 61 :: renderAttr a

/-- `m=<media name>` -/
def mediaNameLine (m : MediaD) : Str := 109 :: 61 :: renderMediaName m

def renderMediaLines (m : MediaD) : List Str := mediaNameLine m :: m.attrs.map attrLine

/-- the fixed lines `Session.Marshal` sets: version, origin `- 0 0 IN IP4 127.0.0.1`, session name,
connection (the address depends on `Multicast`), timing `0 0` -/
def headerLines (multicast : Bool) (name : Str) : List Str :=
  [b!"v=0", b!"o=- 0 0 IN IP4 127.0.0.1", 115 :: 61 :: name,
   if multicast then b!"c=IN IP4 224.1.0.0" else b!"c=IN IP4 0.0.0.0", b!"t=0 0"]

/-- The lines of the SDP that `Session.Marshal` produces: header, session attributes, medias. -/
def renderLines (multicast : Bool) (d : Doc) : List Str :=
  headerLines multicast d.name ++ d.attrs.map attrLine ++ d.medias.flatMap renderMediaLines

/-- the marshalled text: every line is terminated by CR LF -/
def render (multicast : Bool) (d : Doc) : Str := (renderLines multicast d).flatMap (· ++ crlf)

/-! ## `sdpunmarshaler` -/

inductive St | initial | session | media | time
deriving DecidableEq, Repr

/-- `stringsReverseIndexByte(s, b)`: the last index `≤ len(s) - 2` that holds `b` -/
def revIndex (s : Str) (b : UInt8) : Option Nat := lastIndex b s.dropLast

/-- `s[:i]`, `s[i+1:]` -/
def cutAt (s : Str) (i : Nat) : Str × Str := (s.take i, s.drop (i + 1))

/-- cut a number at the first `.` and drop one leading `-` (`unmarshalOrigin`) -/
def originNumber (tmp : Str) : Str :=
  trimMinus (match indexOf [46] tmp with | some j => tmp.take j | none => tmp)

/-- `strings.ContainsAny(tmp, "abcdefABCDEF")` -/
def hasHexLetter (s : Str) : Bool := s.any fun c => (97 ≤ c && c ≤ 102) || (65 ≤ c && c ≤ 70)

/-- `unmarshalOrigin`: only success / failure matters (the origin is not read by gortsplib). -/
def originOk (value : Str) : Bool :=
  let value := replace1 b!" IN IPV4 " b!" IN IP4 " value
  let value := replace1 b!" IP IP4 " b!" IN IP4 " value
  let value := replace1 b!" IP IP6 " b!" IN IP6 " value
  let value := if hasSuffix b!" IN" value then value ++ b!" IP4"
    else if hasSuffix b!" IN " value then value ++ b!"IP4" else value
  let value := if hasSuffix b!"IN IP4" value then value ++ [32] else value
  let idx := match indexOf b!" IN IP4 " value with
    | some i => some i
    | none => indexOf b!" IN IP6 " value
  match idx with
  | none => false
  | some i =>
    let value := value.take i
    match revIndex value 32 with
    | none => false
    | some i =>
      let (value, tmp) := cutAt value i
      match parseUint 64 (originNumber tmp) with
      | none => false
      | some _ =>
        let value := if value = b!"-0" then b!"- 0" else value
        match revIndex value 32 with
        | none => true
        | some i =>
          let (_, tmp) := cutAt value i
          if hasPrefix b!"0x" tmp || hasPrefix b!"0X" tmp then (parseUintHex 64 (tmp.drop 2)).isSome
          else if hasHexLetter tmp then (parseUintHex 64 tmp).isSome
          else (parseUint 64 (originNumber tmp)).isSome

/-- one decimal octet of `netip.parseIPv4Fields`: digits only, no leading zero, at most 255 -/
def octetOk (p : Str) : Bool :=
  !p.isEmpty && p.all isDigit && (p.length == 1 || p.head? != some 48) &&
    (match decVal p 0 with | some n => decide (n ≤ 255) | none => false) && decide (p.length ≤ 3)

/-- `net.ParseIP` on a text whose first special character is `.`: dotted-decimal IPv4 -/
def ipv4Ok (a : Str) : Bool :=
  match splitOn 46 a with
  | [p0, p1, p2, p3] => octetOk p0 && octetOk p1 && octetOk p2 && octetOk p3
  | _ => false

/-- the first of `.`, `:`, `%` in an address text (`netip.ParseAddr` dispatches on it) -/
def firstSpecial : Str → Option UInt8
  | [] => none
  | c :: cs => if c = 46 ∨ c = 58 ∨ c = 37 then some c else firstSpecial cs

/-- `unmarshalConnectionInformation`: `ok ()`, `err`, or `unm` (`net.ParseIP` of an IPv6 text is not modelled). -/
def connOk (value : Str) : Res Unit :=
  if trimSpace value = b!"IN" then .ok () else
  let value := replace1 b!"IN IPV4 " b!"IN IP4 " value
  let value := if hasPrefix b!"IN c=IN" value then value.drop 5 else value
  match fields value with
  | [] => .err
  | [_] => .err
  | f0 :: f1 :: rest =>
    if rest.isEmpty && toUpper f0 = b!"IN" && f1 ≠ b!"IP4" && f1 ≠ b!"IP6" then
      -- net.ParseIP(f1): dotted decimal is modelled, IPv6 text is not; nil for anything else.  When the address
      -- parses, the fields become IN IP4|IP6 <address> and the line is accepted.
      match firstSpecial f1 with
      | some 46 => if ipv4Ok f1 then .ok () else .err
      | some 58 => .unm
      | _ => .err
    else if toUpper f0 ≠ b!"IN" then .err
    else if f1 ≠ b!"IP4" ∧ f1 ≠ b!"IP6" then .err
    else .ok ()

/-- `unmarshalTiming` -/
def timingOk (value : Str) : Bool :=
  let value := if value = b!"now-" then b!"0 0" else value
  match fields value with
  | f0 :: f1 :: _ => (parseUint 64 f0).isSome && (parseUint 64 f1).isSome
  | _ => false

/-- `parseTimeUnits` (argument non-empty: it is a field) -/
def timeUnitsOk (v : Str) : Bool :=
  match v.getLast? with
  | some c => if c = 100 ∨ c = 104 ∨ c = 109 then (parseInt64 v.dropLast).isSome else (parseInt64 v).isSome
  | none => false

/-- `unmarshalRepeatTimes` -/
def repeatOk (value : Str) : Bool :=
  match fields value with
  | f0 :: f1 :: rest => (f0 :: f1 :: rest).all timeUnitsOk
  | _ => false

def zonesOkAux : List Str → Bool
  | [] => true
  | [_] => false
  | a :: b :: rest => (parseUint 64 a).isSome && timeUnitsOk b && zonesOkAux rest

/-- `unmarshalTimeZones` -/
def zonesOk (value : Str) : Bool := zonesOkAux (fields value)

/-- `unmarshalBandwidth` -/
def bandwidthOk (value : Str) : Bool :=
  match splitOn 58 value with
  | [t, n] =>
    (hasPrefix b!"X-" t || t = b!"CT" || t = b!"AS" || t = b!"TIAS" || t = b!"RS" || t = b!"RR")
      && (parseUint 64 n).isSome
  | _ => false

/-- `unmarshalSessionAttribute` / `unmarshalMediaAttribute`: `IndexRune(value, ':') > 0` -/
def parseAttr (value : Str) : Attr :=
  match indexOf [58] value with
  | some (i + 1) => ⟨value.take (i + 1), value.drop (i + 2)⟩
  | _ => ⟨value, []⟩

def mediaTypeOk (m : Str) : Bool :=
  m = b!"video" || m = b!"audio" || m = b!"application" || hasPrefix b!"application/" m
    || m = b!"metadata" || m = b!"meta" || m = b!"text"

def protoOk (p : Str) : Bool :=
  p = b!"UDP" || p = b!"RTP" || p = b!"AVP" || p = b!"SAVP" || p = b!"SAVPF" || p = b!"MP2T"
    || p = b!"TLS" || p = b!"DTLS" || p = b!"SCTP" || p = b!"AVPF" || p = b!"TCP"

/-- `parsePort` + the optional `/range` part -/
def portOk (f : Str) : Bool :=
  match splitOn 47 f with
  | p :: rest =>
    (match parseInt64 p with
      | some v => decide (0 ≤ v) && decide (v ≤ (Rtsp.Facts.Sdp.portMax : Int))
      | none => false)
    && (match rest with
      | r :: _ => (parseInt64 r).isSome
      | [] => true)
  | [] => false

/-- `unmarshalMediaDescription` (at least four fields: the pattern below) -/
example : Rtsp.Facts.Sdp.minMediaFields = 4 := rfl

def parseMediaLine (value : Str) : Option MediaD :=
  match fields value with
  | f0 :: f1 :: f2 :: f3 :: rest =>
    if !mediaTypeOk f0 then none
    else if !portOk f1 then none
    else if !(splitOn 47 f2).all protoOk then none
    else some ⟨f0, splitOn 47 f2, f3 :: rest, []⟩
  | _ => none

def addMediaAttr (d : Doc) (a : Attr) : Doc :=
  match d.medias.getLast? with
  | some m => { d with medias := d.medias.dropLast ++ [{ m with attrs := m.attrs ++ [a] }] }
  | none => d

/-- `unmarshalSession` (one line in session position) -/
def sessionLine (d : Doc) (key : UInt8) (val : Str) : Res (St × Doc) :=
  if key = 111 then (if originOk val then .ok (.session, d) else .err)            -- o
  else if key = 115 then .ok (.session, { d with name := val })                   -- s
  else if key = 105 ∨ key = 101 ∨ key = 112 ∨ key = 107 then .ok (.session, d)    -- i e p k
  else if key = 117 then .unm                                                     -- u: net/url.Parse
  else if key = 99 then (connOk val).bind fun _ => .ok (.session, d)              -- c
  else if key = 98 then (if bandwidthOk val then .ok (.session, d) else .err)     -- b
  else if key = 122 then (if zonesOk val then .ok (.session, d) else .err)        -- z
  else if key = 97 then .ok (.session, { d with attrs := d.attrs ++ [parseAttr val] })  -- a
  else if key = 116 then (if timingOk val then .ok (.time, d) else .err)          -- t
  else if key = 109 then                                                          -- m
    match parseMediaLine val with
    | some m => .ok (.media, { d with medias := d.medias ++ [m] })
    | none => .err
  else .err

/-- `unmarshalMedia` (one line in media position) -/
def mediaLine (d : Doc) (key : UInt8) (val : Str) : Res (St × Doc) :=
  if key = 109 then
    match parseMediaLine val with
    | some m => .ok (.media, { d with medias := d.medias ++ [m] })
    | none => .err
  else if key = 105 ∨ key = 107 then .ok (.media, d)
  else if key = 99 then
    if hasPrefix b!"SM " val then .ok (.media, d) else (connOk val).bind fun _ => .ok (.media, d)
  else if key = 98 then (if bandwidthOk val then .ok (.media, d) else .err)
  else if key = 97 then .ok (.media, addMediaAttr d (parseAttr val))
  else .err

/-- keys whose value is stored or dropped without being looked at -/
def opaqueKey (key : UInt8) : Bool := key = 115 || key = 105 || key = 101 || key = 112 || key = 107

/-- a line whose value holds a byte ≥ 0x80 under a key whose handler looks at the value: `unm` if the
key is valid in this state (the handler would run Unicode-aware `strings` functions), `err` if the key
is invalid in this state whatever the value holds -/
def nonAsciiLine (st : St) (key : UInt8) : Res (St × Doc) :=
  match st with
  | .media => if key = 109 ∨ key = 99 ∨ key = 98 ∨ key = 97 then .unm else .err
  | _ =>
    if key = 118 then .err   -- v= needs the value "0", which is ASCII
    else if key = 114 then (if st = .time then .unm else .err)
    else if key = 111 ∨ key = 117 ∨ key = 99 ∨ key = 98 ∨ key = 122 ∨ key = 97 ∨ key = 116 ∨ key = 109 then .unm
    else .err

/-- the line machine proper: one `key=value` line in state `st` -/
def keyLine (st : St) (d : Doc) (key : UInt8) (val : Str) : Res (St × Doc) :=
  match st with
  | .initial =>
    if key = 118 then (if val = b!"0" then .ok (.session, d) else .err)
    else sessionLine d key val
  | .session => sessionLine d key val
  | .media => mediaLine d key val
  | .time =>
    if key = 114 then (if repeatOk val then .ok (.time, d) else .err)
    else sessionLine d key val

/-- one non-empty line -/
def stepLine (st : St) (d : Doc) (line : Str) : Res (St × Doc) :=
  match line with
  | key :: 61 :: val =>
    if !opaqueKey key && !val.all isAscii then nonAsciiLine st key else keyLine st d key val
  | _ => .err

def runLines : St → Doc → List Str → Res Doc
  | _, d, [] => .ok d
  | st, d, l :: ls =>
    match stepLine st d l with
    | .ok (st', d') => runLines st' d' ls
    | .err => .err
    | .unm => .unm

/-- `strings.SplitSeq(strings.ReplaceAll(str, "\r", ""), "\n")` without the empty lines -/
def linesOf (text : Str) : List Str :=
  (splitOn 10 (text.filter (· != 13))).filter (!·.isEmpty)

/-- `sdpunmarshaler.Unmarshal` -/
def parse (text : Str) : Res Doc := runLines .initial Doc.empty (linesOf text)

end Rtsp.Sdp
