import Rtsp.Model.Ring
/-
`Ring.Conc`: the ring under concurrency — a small-step transition system over the critical
sections of /repo/pkg/ringbuffer/ringbuffer.go, the mutex and the condition variable.

Threads: any number of producers `prod i` (each runs `Push` again and again), one consumer
(`Pull` again and again) and a closer (`Close`).  One `Act` is one scheduling step of one thread:

  producer  idle ──prodLock──▶ locked x ──prodBody──▶ bcast (accepted) | idle (refused)
            bcast ──prodBcast──▶ idle                       -- `r.cond.Broadcast()` after `Unlock`
  consumer  idle ──consLock──▶ locked ──consBody──▶ idle (item / closed returned) | waiting
            waiting ──(somebody's Broadcast)──▶ woken ──consReacq──▶ relocked ──consUnlock──▶ idle
  closer    idle ──closerLock──▶ locked ──closerBody──▶ bcast ──closerBcast──▶ idle

`mutex.Lock()` is enabled only when the mutex is free (`owner = none`).  A body step executes the
whole critical section of Model/Ring.lean and ends with `Unlock`.  `cond.Wait()` is Go's:
the waiter is enqueued and the mutex released in one step (`consBody` with result `wait`);
`Broadcast` wakes every enqueued waiter (here: the consumer if it is `waiting`); the woken waiter
must re-acquire the mutex (`consReacq`) before `Wait` returns, after which `Pull` unlocks and loops.

History variables: `log` (critical sections in execution order, with results), `acq` (lock
acquisitions in order, with the operation about to run), `returns` (what `Pull` returned).

`Reset` is not part of the system: the Go code runs it without the mutex (single-threaded use).
Core Lean only.
-/
namespace Rtsp.RingConc
open Rtsp.Ring

inductive Tid where
  | prod (i : Nat) | cons | closer
deriving DecidableEq, Repr

inductive PPc (α : Type) where
  | idle | locked (x : α) | bcast
deriving Repr

inductive CPc where
  | idle | locked | waiting | woken | relocked
deriving DecidableEq, Repr

inductive KPc where
  | idle | locked | bcast
deriving DecidableEq, Repr

structure Ev (α : Type) where
  tid : Tid
  op  : Op α
  res : Res α

structure State (α : Type) where
  ring    : Ring α
  owner   : Option Tid          -- the mutex
  prod    : Nat → PPc α
  cons    : CPc
  closer  : KPc
  log     : List (Ev α)
  acq     : List (Tid × Op α)
  returns : List (PullRes α)

variable {α : Type}

def init (size : Nat) : State α :=
  { ring := Ring.new size, owner := none, prod := fun _ => .idle, cons := .idle, closer := .idle,
    log := [], acq := [], returns := [] }

inductive Act (α : Type) where
  | prodLock (i : Nat) (x : α) | prodBody (i : Nat) | prodBcast (i : Nat)
  | consLock | consBody | consReacq | consUnlock
  | closerLock | closerBody | closerBcast

def setProd (f : Nat → PPc α) (i : Nat) (pc : PPc α) : Nat → PPc α :=
  fun j => if j = i then pc else f j

/-- effect of a `Broadcast` on the consumer -/
def wake : CPc → CPc
  | .waiting => .woken
  | c => c

def consAfter : PullRes α → CPc
  | .wait => .waiting
  | _ => .idle

def returnsAfter (rs : List (PullRes α)) : PullRes α → List (PullRes α)
  | .wait => rs
  | p => rs ++ [p]

/-- one scheduling step; `none` = not enabled -/
def step? (s : State α) : Act α → Option (State α)
  | .prodLock i x =>
    match s.prod i, s.owner with
    | .idle, none =>
      some { s with prod := setProd s.prod i (.locked x), owner := some (.prod i),
                    acq := s.acq ++ [(.prod i, .push x)] }
    | _, _ => none
  | .prodBody i =>
    match s.prod i with
    | .locked x =>
      some { s with ring := (Ring.push s.ring x).1, owner := none,
                    prod := setProd s.prod i (if (Ring.push s.ring x).2 then .bcast else .idle),
                    log := s.log ++ [⟨.prod i, .push x, .pushed (Ring.push s.ring x).2⟩] }
    | _ => none
  | .prodBcast i =>
    match s.prod i with
    | .bcast => some { s with prod := setProd s.prod i .idle, cons := wake s.cons }
    | _ => none
  | .consLock =>
    match s.cons, s.owner with
    | .idle, none => some { s with cons := .locked, owner := some .cons, acq := s.acq ++ [(.cons, .pull)] }
    | _, _ => none
  | .consBody =>
    match s.cons with
    | .locked =>
      some { s with ring := (pullTry s.ring).1, owner := none, cons := consAfter (pullTry s.ring).2,
                    log := s.log ++ [⟨.cons, .pull, .pulled (pullTry s.ring).2⟩],
                    returns := returnsAfter s.returns (pullTry s.ring).2 }
    | _ => none
  | .consReacq =>
    match s.cons, s.owner with
    | .woken, none => some { s with cons := .relocked, owner := some .cons }
    | _, _ => none
  | .consUnlock =>
    match s.cons with
    | .relocked => some { s with cons := .idle, owner := none }
    | _ => none
  | .closerLock =>
    match s.closer, s.owner with
    | .idle, none => some { s with closer := .locked, owner := some .closer, acq := s.acq ++ [(.closer, .close)] }
    | _, _ => none
  | .closerBody =>
    match s.closer with
    | .locked =>
      some { s with ring := Ring.close s.ring, owner := none, closer := .bcast,
                    log := s.log ++ [⟨.closer, .close, .done⟩] }
    | _ => none
  | .closerBcast =>
    match s.closer with
    | .bcast => some { s with closer := .idle, cons := wake s.cons }
    | _ => none

/-- run a schedule -/
def runActs (s : State α) : List (Act α) → Option (State α)
  | [] => some s
  | a :: as => match step? s a with
    | some s' => runActs s' as
    | none => none

/-- states reachable from `New(size)` with all threads idle, under any schedule -/
inductive Reachable (size : Nat) : State α → Prop where
  | init : Reachable size (init size)
  | step {s s' : State α} (a : Act α) : Reachable size s → step? s a = some s' → Reachable size s'

end Rtsp.RingConc
