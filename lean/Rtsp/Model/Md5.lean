import Rtsp.Model.Hex
/-
MD5 (RFC 1321) on `UInt32` arithmetic, core Lean only.  Used by the `oracle_auth` driver to
instantiate the abstract hash of `Model/Auth.lean`; checked differentially against Go's
`crypto/md5` on every correspondence case (and on the RFC test vectors in the driver self-test).
-/
namespace Rtsp.Md5

def K : Array UInt32 := #[
  0xd76aa478, 0xe8c7b756, 0x242070db, 0xc1bdceee, 0xf57c0faf, 0x4787c62a, 0xa8304613, 0xfd469501,
  0x698098d8, 0x8b44f7af, 0xffff5bb1, 0x895cd7be, 0x6b901122, 0xfd987193, 0xa679438e, 0x49b40821,
  0xf61e2562, 0xc040b340, 0x265e5a51, 0xe9b6c7aa, 0xd62f105d, 0x02441453, 0xd8a1e681, 0xe7d3fbc8,
  0x21e1cde6, 0xc33707d6, 0xf4d50d87, 0x455a14ed, 0xa9e3e905, 0xfcefa3f8, 0x676f02d9, 0x8d2a4c8a,
  0xfffa3942, 0x8771f681, 0x6d9d6122, 0xfde5380c, 0xa4beea44, 0x4bdecfa9, 0xf6bb4b60, 0xbebfbc70,
  0x289b7ec6, 0xeaa127fa, 0xd4ef3085, 0x04881d05, 0xd9d4d039, 0xe6db99e5, 0x1fa27cf8, 0xc4ac5665,
  0xf4292244, 0x432aff97, 0xab9423a7, 0xfc93a039, 0x655b59c3, 0x8f0ccc92, 0xffeff47d, 0x85845dd1,
  0x6fa87e4f, 0xfe2ce6e0, 0xa3014314, 0x4e0811a1, 0xf7537e82, 0xbd3af235, 0x2ad7d2bb, 0xeb86d391]

def S : Array UInt32 := #[
  7, 12, 17, 22, 7, 12, 17, 22, 7, 12, 17, 22, 7, 12, 17, 22,
  5, 9, 14, 20, 5, 9, 14, 20, 5, 9, 14, 20, 5, 9, 14, 20,
  4, 11, 16, 23, 4, 11, 16, 23, 4, 11, 16, 23, 4, 11, 16, 23,
  6, 10, 15, 21, 6, 10, 15, 21, 6, 10, 15, 21, 6, 10, 15, 21]

def rotl (x n : UInt32) : UInt32 := (x <<< n) ||| (x >>> (32 - n))

/-- little-endian 32-bit word from four bytes -/
def leWord (a b c d : UInt8) : UInt32 :=
  a.toUInt32 ||| (b.toUInt32 <<< 8) ||| (c.toUInt32 <<< 16) ||| (d.toUInt32 <<< 24)

def leBytes (w : UInt32) : List UInt8 :=
  [w.toUInt8, (w >>> 8).toUInt8, (w >>> 16).toUInt8, (w >>> 24).toUInt8]

def words : List UInt8 → List UInt32
  | a :: b :: c :: d :: rest => leWord a b c d :: words rest
  | _ => []

/-- 64-bit little-endian length in bits -/
def lenBytes (n : Nat) : List UInt8 :=
  (List.range 8).map fun i => UInt8.ofNat ((n * 8 / 256 ^ i) % 256)

/-- message ‖ 0x80 ‖ 0…0 ‖ bit length, a multiple of 64 bytes -/
def pad (msg : List UInt8) : List UInt8 :=
  let n := msg.length
  msg ++ [0x80] ++ List.replicate ((119 - n % 64) % 64) 0 ++ lenBytes n

structure St where
  a : UInt32
  b : UInt32
  c : UInt32
  d : UInt32

def round (m : Array UInt32) (s : St) (i : Nat) : St :=
  let (f, g) :=
    if i < 16 then ((s.b &&& s.c) ||| (~~~s.b &&& s.d), i)
    else if i < 32 then ((s.d &&& s.b) ||| (~~~s.d &&& s.c), (5 * i + 1) % 16)
    else if i < 48 then (s.b ^^^ s.c ^^^ s.d, (3 * i + 5) % 16)
    else (s.c ^^^ (s.b ||| ~~~s.d), (7 * i) % 16)
  let f := f + s.a + K[i]! + m[g]!
  { a := s.d, d := s.c, c := s.b, b := s.b + rotl f S[i]! }

def block (s : St) (m : Array UInt32) : St :=
  let t := (List.range 64).foldl (round m) s
  { a := s.a + t.a, b := s.b + t.b, c := s.c + t.c, d := s.d + t.d }

def blocks (fuel : Nat) (s : St) (ws : List UInt32) : St :=
  match fuel with
  | 0 => s
  | fuel + 1 =>
    if ws.isEmpty then s
    else blocks fuel (block s (ws.take 16).toArray) (ws.drop 16)

/-- the 16-byte digest -/
def sum (msg : List UInt8) : List UInt8 :=
  let ws := words (pad msg)
  let s := blocks (ws.length / 16 + 1) { a := 0x67452301, b := 0xefcdab89, c := 0x98badcfe, d := 0x10325476 } ws
  leBytes s.a ++ leBytes s.b ++ leBytes s.c ++ leBytes s.d

/-- Go `md5Hex`: lower-case hex of the digest -/
def hex (msg : List UInt8) : List UInt8 := Hex.encode (sum msg)

end Rtsp.Md5
