import Rtsp.Generated.Facts.Size
/-
C18 — outbound packets never exceed the configured maximum size.

Executable model (core Lean only) of the size arithmetic of every RTP / RTCP write path of
gortsplib, function by function:

  pion rtp   `Header.MarshalSize`, `Packet.MarshalSize`, `Packet.MarshalTo`      → `headerSize`, `rtpMarshalSize`, `marshalTo`
  pion srtp  `srtpCipherAesCmHmacSha1.encryptRTP / encryptRTCP` (output length)   → `srtpLen`, `srtcpLen`
  client_format.go          `clientFormat.writePacketRTP`                        → `clientWriteRtp`
  client_media.go           `clientMedia.writePacketRTCP`                        → `clientWriteRtcp`
  server_session_format.go  `serverSessionFormat.writePacketRTP`                 → `sessionWriteRtp`
  server_session_media.go   `serverSessionMedia.writePacketRTCP`                 → `sessionWriteRtcp`
  server_stream_format.go   `serverStreamFormat.writePacketRTP`                  → `streamWriteRtp` (one reader / the multicast writer)
  server_stream_media.go    `serverStreamMedia.writePacketRTCP`                  → `streamWriteRtcp`
  server_multicast_writer_media.go `writePacketRTCP`                             → `mcastWriteRtcp`
  pkg/base `InterleavedFrame.MarshalTo` + pkg/conn `WriteInterleavedFrame`       → `onWire` (TCP branch)
  client.go `Client.Start`, server.go `Server.Start` (the two size checks)        → `clientStart`, `serverStart`

Sizes are natural numbers; Go's `int` subtraction `MaxPacketSize - overhead` is done in `Int`
(a negative plain size makes `make([]byte, n)` panic: outcome `panic`).  All constants come from
`Rtsp.Generated.Facts.Size`, regenerated from /repo and the module cache on every run.
-/
namespace Rtsp.Size
open Rtsp.Facts.Size

/-! ### pion rtp: marshalled size of a packet -/

/-- RTP header extension as pion sizes it (`Header.MarshalSize`). -/
inductive Ext where
  | none                            -- Header.Extension = false
  | oneByte (lens : List Nat)       -- profile 0xBEDE: 1 + len per element
  | twoByte (lens : List Nat)       -- profile 0x1000: 2 + len per element
  | rfc3550 (len : Option Nat)      -- any other profile: only Extensions[0].payload (if any)
deriving Repr, DecidableEq, Inhabited

/-- The fields of a `*rtp.Packet` that decide its size. -/
structure RtpShape where
  csrc    : Nat  := 0          -- len(Header.CSRC)
  ext     : Ext  := .none
  payload : Nat  := 0          -- len(Payload)
  padFlag : Bool := false      -- Header.Padding
  hdrPad  : Nat  := 0          -- Header.PaddingSize (a byte)
  pktPad  : Nat  := 0          -- Packet.PaddingSize (a byte, deprecated field)
deriving Repr, DecidableEq, Inhabited

def sumMap (f : Nat → Nat) : List Nat → Nat
  | [] => 0
  | x :: xs => f x + sumMap f xs

def roundUp4 (n : Nat) : Nat := ((n + 3) / 4) * 4

/-- `extSize` of `Header.MarshalSize`, rounded to 4-byte words; 0 when there is no extension. -/
def extSize : Ext → Nat
  | .none => 0
  | .oneByte ls => roundUp4 (4 + sumMap (fun l => 1 + l) ls)
  | .twoByte ls => roundUp4 (4 + sumMap (fun l => 2 + l) ls)
  | .rfc3550 none => roundUp4 4
  | .rfc3550 (some l) => roundUp4 (4 + l)

/-- `Packet.paddingSize()`: the header field wins when non-zero. -/
def paddingSize (p : RtpShape) : Nat := if p.hdrPad > 0 then p.hdrPad else p.pktPad

/-- `Header.MarshalSize` -/
def headerSize (p : RtpShape) : Nat := rtpFixedHeader + p.csrc * rtpCsrcLength + extSize p.ext

/-- `Packet.MarshalSize`: 12 + 4·CSRC + extension + payload + padding -/
def rtpMarshalSize (p : RtpShape) : Nat := headerSize p + p.payload + paddingSize p

/-- the RFC 3550 extension payload must be a whole number of 32-bit words -/
def extWellFormed : Ext → Bool
  | .rfc3550 (some l) => l % 4 == 0
  | _ => true

/-- the structural errors of `Packet.MarshalTo` that do not depend on the buffer -/
def wellFormed (p : RtpShape) : Bool :=
  !(p.padFlag && paddingSize p == 0) && extWellFormed p.ext

/-- `Packet.MarshalTo(buf)` with `len(buf) = buf`: `none` = error, `some n` = bytes written. -/
def marshalTo (p : RtpShape) (buf : Nat) : Option Nat :=
  if p.padFlag && paddingSize p == 0 then none          -- errInvalidRTPPadding
  else if headerSize p > buf then none                  -- Header.MarshalTo: io.ErrShortBuffer
  else if !extWellFormed p.ext then none                -- RFC 3550 extension not in words
  else if rtpMarshalSize p > buf then none              -- marshalPayloadAndPaddingTo: io.ErrShortBuffer
  else some (rtpMarshalSize p)

/-! ### pion srtp (AES_CM_128_HMAC_SHA1_80): output length -/

/-- `encryptRTP`: `dstLen = headerLen + payloadLen + len(mki) + authTagLen` -/
def srtpLen (plain mki : Nat) : Nat := plain + mki + authTagRtpLen

/-- `encryptRTCP`: `decryptedLen + authTagLen + mkiLen + srtcpIndexSize` -/
def srtcpLen (plain mki : Nat) : Nat := plain + authTagRtcpLen + mki + srtcpIndexSize

/-! ### outcomes -/

/-- What a write call does: error to the caller, a Go panic (negative `make`), or one encoded packet
of `n` bytes handed to the transport. -/
inductive Res where
  | err
  | panic
  | sent (n : Nat)
deriving Repr, DecidableEq, Inhabited

inductive Proto where
  | udp | tcp
deriving Repr, DecidableEq, Inhabited

/-- What the operating system is given. -/
inductive Wire where
  | nothing
  | datagram (n : Nat)                 -- one UDP datagram of n bytes
  | frame (declared written : Nat)     -- '$', channel, 16-bit `declared`, then `written` payload bytes
deriving Repr, DecidableEq, Inhabited

/-- `InterleavedFrame.MarshalTo(buf)` with `len(buf) = max + extra`: the length field is
`len(Payload)`, but `copy` stops at the end of the buffer. -/
def frameOf (max extra n : Nat) : Wire := .frame n (min n (max + extra - 4))

/-- the transport step (`write…InQueueUDP` / `write…InQueueTCP`) -/
def onWire (proto : Proto) (max extra : Nat) : Res → Wire
  | .sent n => match proto with
    | .udp => .datagram n
    | .tcp => frameOf max extra n
  | _ => .nothing

/-! ### the write paths

`ctx = none`: no outbound SRTP context; `ctx = some m`: context whose MKI has `m` bytes. -/

/-- `maxPlainPacketSize` as the Go code computes it (an `int`). `countMki` says whether the path
subtracts `len(ctx.mki)` as well. -/
def plainLimit (max overhead : Nat) (countMki : Bool) : Option Nat → Int
  | none => (max : Int)
  | some m => (max : Int) - ((overhead : Int) + (if countMki then (m : Int) else 0))

/-- marshal + encrypt step shared by all write functions: the plain buffer and, when there is an
outbound context, the encrypted buffer -/
inductive Enc where
  | err
  | panic
  | ok (plain : Nat) (encr : Option Nat)
deriving Repr, DecidableEq, Inhabited

/-- first half of the three `writePacketRTP` functions -/
def encodeRtp (max overhead : Nat) (countMki : Bool) (ctx : Option Nat) (p : RtpShape) : Enc :=
  let limit := plainLimit max overhead countMki ctx
  if limit < 0 then .panic                                   -- make([]byte, negative)
  else match marshalTo p limit.toNat with
    | none => .err
    | some n => match ctx with
      | none => .ok n none
      | some m => .ok n (some (srtpLen n m))

/-- first half of the four `writePacketRTCP` functions.  `len` = length of `pkt.Marshal()`
(a compound packet is the concatenation of its parts), `ver2` = the first byte carries version 2. -/
def encodeRtcp (max overhead : Nat) (countMki : Bool) (ctx : Option Nat) (ver2 : Bool) (len : Nat) : Enc :=
  let limit := plainLimit max overhead countMki ctx
  if (len : Int) > limit then .err                            -- "packet is too big"
  else match ctx with
    | none => .ok len none
    | some m =>
      -- srtp.Context.EncryptRTCP: header must parse (4 bytes, version 2) and len ≥ srtcpHeaderSize
      if len < 4 || !ver2 || len < srtcpHeaderSize then .err
      else .ok len (some (srtcpLen len m))

/-- second half when the destination uses the writer's own context (client, session, multicast) -/
def Enc.own : Enc → Res
  | .err => .err
  | .panic => .panic
  | .ok n none => .sent n
  | .ok _ (some e) => .sent e

/-- second half of the stream functions for one unicast reader: a reader with SRTP gets `encr`
(the nil slice when the stream has no context), the others get `plain` -/
def Enc.reader (readerSecure : Bool) : Enc → Res
  | .err => .err
  | .panic => .panic
  | .ok n none => if readerSecure then .sent 0 else .sent n
  | .ok n (some e) => if readerSecure then .sent e else .sent n

def writeRtp (max overhead : Nat) (countMki : Bool) (ctx : Option Nat) (p : RtpShape) : Res :=
  (encodeRtp max overhead countMki ctx p).own

def writeRtcp (max overhead : Nat) (countMki : Bool) (ctx : Option Nat) (ver2 : Bool) (len : Nat) : Res :=
  (encodeRtcp max overhead countMki ctx ver2 len).own

def clientWriteRtp (max : Nat) (ctx : Option Nat) (p : RtpShape) : Res :=
  writeRtp max clientRtpOverhead clientRtpCountsMki ctx p

def clientWriteRtcp (max : Nat) (ctx : Option Nat) (ver2 : Bool) (len : Nat) : Res :=
  writeRtcp max clientRtcpOverhead clientRtcpCountsMki ctx ver2 len

def sessionWriteRtp (max : Nat) (ctx : Option Nat) (p : RtpShape) : Res :=
  writeRtp max sessionRtpOverhead false ctx p

def sessionWriteRtcp (max : Nat) (ctx : Option Nat) (ver2 : Bool) (len : Nat) : Res :=
  writeRtcp max sessionRtcpOverhead false ctx ver2 len

/-- `serverStreamFormat.writePacketRTP` as seen by ONE unicast reader: the limit is decided by the
stream's context (`Server.TLSConfig != nil`); a reader without SRTP receives the plain buffer, a
reader with SRTP the encrypted one. -/
def streamWriteRtp (max : Nat) (ctx : Option Nat) (readerSecure : Bool) (p : RtpShape) : Res :=
  (encodeRtp max streamRtpOverhead false ctx p).reader readerSecure

def streamWriteRtcp (max : Nat) (ctx : Option Nat) (readerSecure : Bool) (ver2 : Bool) (len : Nat) : Res :=
  (encodeRtcp max streamRtcpOverhead false ctx ver2 len).reader readerSecure

/-- the same two functions as seen by the multicast writer (it gets `encr` iff the stream has a context) -/
def streamMcastRtp (max : Nat) (ctx : Option Nat) (p : RtpShape) : Res :=
  (encodeRtp max streamRtpOverhead false ctx p).own

def streamMcastRtcp (max : Nat) (ctx : Option Nat) (ver2 : Bool) (len : Nat) : Res :=
  (encodeRtcp max streamRtcpOverhead false ctx ver2 len).own

/-- `serverMulticastWriterMedia.writePacketRTCP` (automatic sender reports of the multicast writer) -/
def mcastWriteRtcp (max : Nat) (ctx : Option Nat) (ver2 : Bool) (len : Nat) : Res :=
  writeRtcp max mcastRtcpOverhead false ctx ver2 len

/-! ### uniform view of the write entry points (used by the driver and by the theorems) -/

/-- the public write entry points, by destination -/
inductive Path where
  | client                            -- Client.WritePacketRTP / WritePacketRTCP
  | session                           -- ServerSession.WritePacketRTP / WritePacketRTCP
  | stream (readerSecure : Bool)      -- ServerStream.WritePacket… → one unicast reader
  | mcast                             -- ServerStream.WritePacket… → the multicast writer
  | mcastReport                       -- the multicast writer's own sender reports (RTCP only)
deriving Repr, DecidableEq, Inhabited

def Path.rtp : Path → Nat → Option Nat → RtpShape → Res
  | .client, max, ctx, p => clientWriteRtp max ctx p
  | .session, max, ctx, p => sessionWriteRtp max ctx p
  | .stream rs, max, ctx, p => streamWriteRtp max ctx rs p
  | .mcast, max, ctx, p => streamMcastRtp max ctx p
  | .mcastReport, _, _, _ => .err

/-- length of a compound packet = sum of its parts (`CompoundPacket.Marshal` concatenates) -/
def rtcpLen (parts : List Nat) : Nat := parts.foldl (· + ·) 0

def Path.rtcp : Path → Nat → Option Nat → Bool → List Nat → Res
  | .client, max, ctx, v, ps => clientWriteRtcp max ctx v (rtcpLen ps)
  | .session, max, ctx, v, ps => sessionWriteRtcp max ctx v (rtcpLen ps)
  | .stream rs, max, ctx, v, ps => streamWriteRtcp max ctx rs v (rtcpLen ps)
  | .mcast, max, ctx, v, ps => streamMcastRtcp max ctx v (rtcpLen ps)
  | .mcastReport, max, ctx, v, ps => mcastWriteRtcp max ctx v (rtcpLen ps)

/-- bytes the TCP frame buffer has beyond `MaxPacketSize` -/
def Path.extra : Path → Nat
  | .client => clientTcpBufferExtra
  | _ => sessionTcpBufferExtra

/-- what the OS is handed for an RTP write -/
def Path.sendRtp (path : Path) (proto : Proto) (max : Nat) (ctx : Option Nat) (p : RtpShape) : Wire :=
  onWire proto max path.extra (path.rtp max ctx p)

/-- what the OS is handed for an RTCP write -/
def Path.sendRtcp (path : Path) (proto : Proto) (max : Nat) (ctx : Option Nat) (ver2 : Bool) (parts : List Nat) : Wire :=
  onWire proto max path.extra (path.rtcp max ctx ver2 parts)

/-! ### fixed-size packets sent without a write call

Over UDP the client (before PLAY) and a recording server session (at RECORD) open the firewall
with an empty RTP packet (`rtp.Packet{Header{Version: 2}}`, 12 bytes) and an empty receiver report
(8 bytes), encrypted when there is an outbound context (client.go `doPlay`, server_session_media.go
`start`).  They are not checked against `MaxPacketSize`. -/

def punchRtp : Option Nat → Nat
  | none => rtpFixedHeader
  | some m => srtpLen rtpFixedHeader m

def punchRtcp : Option Nat → Nat
  | none => 8
  | some m => srtcpLen 8 m

/-! ### start-time validation (Go `int` is 64 bits: `BitVec 64` for the bit trick) -/

/-- The two checks of `Client.Start` / `Server.Start`; `none` = Start returns an error,
`some (wq, max)` = the values in force afterwards. -/
def start (pow2Check : Bool) (defWq defMax limit : Nat) (wq : BitVec 64) (max : Int) :
    Option (BitVec 64 × Int) :=
  if wq != 0 && pow2Check && (wq &&& (wq - 1)) != 0 then none
  else if max != 0 && max > (limit : Int) then none
  else some (if wq == 0 then BitVec.ofNat 64 defWq else wq, if max == 0 then (defMax : Int) else max)

def clientStart (wq : BitVec 64) (max : Int) : Option (BitVec 64 × Int) :=
  start clientPow2Check clientDefaultWriteQueueSize clientDefaultMaxPacketSize clientMaxPacketSizeLimit wq max

def serverStart (wq : BitVec 64) (max : Int) : Option (BitVec 64 × Int) :=
  start serverPow2Check serverDefaultWriteQueueSize serverDefaultMaxPacketSize serverMaxPacketSizeLimit wq max

end Rtsp.Size
