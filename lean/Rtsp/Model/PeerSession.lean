import Rtsp.Model.UdpDemux
/-
Model of the session-ownership part of property C19:

  /repo/server.go            the `chFindOrCreateSession` branch of Server.runInner (author check)
  /repo/server_conn.go       handleRequestInner (which requests are routed to a session),
                             handleRequestInSession, the connection's end of life in run()
  /repo/server_session.go    runInner (`chHandleRequest`, `chRemoveConn`), handleRequestInner
                             (connection pin, state machine as far as it concerns ownership:
                             OPTIONS, ANNOUNCE, SETUP, PLAY, RECORD, PAUSE, TEARDOWN, GET_PARAMETER),
                             the end of run() (session close)
  /repo/server_session_media.go  start / stop (listener registrations)
  /repo/server_stream.go     readerAdd (UDP ports already in use by a reader of the same address)

The server's two UDP listeners are `Clients` maps of `Model/UdpDemux.lean`; a callback is the pair
(session id, media index).  Session ids are the creation index (the real ids are random strings that
the harness maps to indices); connection ids are chosen by the client of the model.

Only well-formed requests are modelled (CSeq present, URL valid, `Transport` parseable, handlers
answering 200, no multicast, no secure profile, no tunnelling, at most one transport per SETUP);
within that alphabet the status code, the error / no-error distinction (an error closes the
connection) and every state change are transcribed.  Core Lean only.
-/
namespace Rtsp.Peer
open Rtsp.Facts

inductive SState where
  | initial | prePlay | play | preRecord | record
deriving DecidableEq, Repr, Inhabited

inductive Proto where
  | udp | tcp
deriving DecidableEq, Repr, Inhabited

inductive Method where
  | options | announce | setup | play | record | pause | teardown | getParameter
deriving DecidableEq, Repr, Inhabited

structure Req where
  method : Method
  sid    : Option Nat := none   -- Session header (ids that never existed are just absent from the table)
  proto  : Proto := .udp        -- SETUP: Transport protocol
  modeRecord : Bool := false    -- SETUP: `mode=record` present
  media  : Nat := 0             -- SETUP: track id (play) / media index of the URL (record)
  cport  : Int := 0             -- SETUP over UDP: first client port (the second is cport+1)
deriving DecidableEq, Repr, Inhabited

structure SMedia where
  idx      : Nat
  rtpPort  : Int     -- udpRTPReadPort
  rtcpPort : Int     -- udpRTCPReadPort
deriving DecidableEq, Repr, Inhabited

structure Session where
  id         : Nat
  author     : Nat                 -- connection that created the session (kept for reference only)
  authorIP   : IP                  -- ss.author.ip()
  authorZone : String              -- ss.author.zone()
  state      : SState := .initial
  transport  : Option Proto := none      -- setuppedTransport
  medias     : List SMedia := []         -- setuppedMediasOrdered
  announced  : Nat := 0                  -- len(announcedDesc.Medias)
  tcpConn    : Option Nat := none
  conns      : List Nat := []            -- ss.conns (a set; kept duplicate free)
  lastReq    : Int := 0                  -- lastRequestTime
deriving DecidableEq, Repr, Inhabited

structure Conn where
  id      : Nat
  ip      : IP
  zone    : String
  session : Option Nat := none
deriving DecidableEq, Repr, Inhabited

structure Server where
  udp          : Bool := true            -- UDPRTPAddress / UDPRTCPAddress configured
  streamMedias : Nat := 2                -- medias of the stream offered to readers
  announceMedias : Nat := 2              -- medias of the description publishers announce
  sessions     : List Session := []      -- live sessions, in creation order
  conns        : List Conn := []         -- live connections
  nextSid      : Nat := 0
  nextCid      : Nat := 0                -- connection ids are never reused (Go: pointers)
  rtp          : Clients (Nat × Nat) := []   -- udpRTPListener.clients : (session, media)
  rtcp         : Clients (Nat × Nat) := []   -- udpRTCPListener.clients
deriving DecidableEq, Repr, Inhabited

namespace Server

def findSession (sv : Server) (sid : Nat) : Option Session := sv.sessions.find? (fun s => s.id == sid)
def findConn (sv : Server) (cid : Nat) : Option Conn := sv.conns.find? (fun c => c.id == cid)

def setSession (sv : Server) (ss : Session) : Server :=
  { sv with sessions := sv.sessions.map (fun s => if s.id == ss.id then ss else s) }

def setConnSession (sv : Server) (cid : Nat) (sid : Option Nat) : Server :=
  { sv with conns := sv.conns.map (fun c => if c.id == cid then { c with session := sid } else c) }

def dropConn (sv : Server) (cid : Nat) : Server :=
  { sv with conns := sv.conns.filter (fun c => c.id != cid) }

/-- `serverSessionMedia.stop` for every media: `removeClient` on both listeners when the transport is
UDP – whether or not the media had been started. -/
def unregister (sv : Server) (ss : Session) : Server :=
  if ss.transport = some .udp then
    { sv with
      rtp  := ss.medias.foldl (fun m sm => removeClient m ss.authorIP ss.authorZone sm.rtpPort) sv.rtp
      rtcp := ss.medias.foldl (fun m sm => removeClient m ss.authorIP ss.authorZone sm.rtcpPort) sv.rtcp }
  else sv

/-- `serverSessionMedia.start` for every media after PLAY (RTCP only: no back channels) or RECORD. -/
def register (sv : Server) (ss : Session) (recording : Bool) : Server :=
  if ss.transport = some .udp then
    { sv with
      rtp  := if recording then ss.medias.foldl (fun m sm => addClient m ss.authorIP ss.authorZone sm.rtpPort (ss.id, sm.idx)) sv.rtp else sv.rtp
      rtcp := ss.medias.foldl (fun m sm => addClient m ss.authorIP ss.authorZone sm.rtcpPort (ss.id, sm.idx)) sv.rtcp }
  else sv

/-- the end of `ServerSession.run`: associated connections are closed, medias are closed, the session
leaves the table. -/
def closeSession (sv : Server) (ss : Session) : Server :=
  let sv := { sv with conns := sv.conns.filter (fun c => !ss.conns.contains c.id) }
  let sv := unregister sv ss
  { sv with sessions := sv.sessions.filter (fun s => s.id != ss.id) }

/-- `chRemoveConn` in `ServerSession.runInner` -/
def removeConnFromSession (sv : Server) (ss : Session) (cid : Nat) : Server :=
  let ss' := { ss with conns := ss.conns.filter (· != cid) }
  if ((ss.state != .record && ss.state != .play) || ss.transport == some .tcp) && ss'.conns.isEmpty then
    closeSession (sv.setSession ss') ss'
  else sv.setSession ss'

/-- the end of `ServerConn.run` (read error, error returned by a request, client went away) -/
def closeConn (sv : Server) (cid : Nat) : Server :=
  match sv.findConn cid with
  | none => sv
  | some c =>
    let sv := sv.dropConn cid
    match c.session with
    | none => sv
    | some sid =>
      match sv.findSession sid with
      | none => sv
      | some ss => removeConnFromSession sv ss cid

end Server

/-- result of `ServerSession.handleRequestInner` -/
structure SessRes where
  ss     : Session
  status : Nat
  err    : Bool              -- a non-nil error other than switchReadFuncError: the connection is closed
  start  : Option Bool := none   -- medias are started (some recording?)
  stop   : Bool := false         -- medias are stopped
deriving DecidableEq, Repr

def bad (ss : Session) : SessRes := { ss, status := Peer.statusBadRequest, err := true }
def ok (ss : Session) : SessRes := { ss, status := Peer.statusOK, err := false }

/-- `stream.readerAdd`: is the first client port already used by a UDP reader of the same address? -/
def udpPortInUse (sv : Server) (ss : Session) (cport : Int) : Bool :=
  sv.sessions.any fun r =>
    (r.state == .prePlay || r.state == .play) && r.id != ss.id && r.transport == some .udp &&
    ipEqual r.authorIP ss.authorIP && r.authorZone == ss.authorZone &&
    r.medias.any (fun m => m.rtpPort == cport)

/-- `ServerSession.handleRequestInner(sc, req)` -/
def sessionHandle (sv : Server) (ss : Session) (cid : Nat) (r : Req) : SessRes :=
  if ss.tcpConn.isSome && ss.tcpConn != some cid then bad ss
  else
  match r.method with
  | .options => ok ss
  | .getParameter => ok ss
  | .announce =>
    if ss.state != .initial then bad ss
    else ok { ss with state := .preRecord, announced := sv.announceMedias }
  | .setup =>
    if !(ss.state == .initial || ss.state == .prePlay || ss.state == .preRecord) then bad ss
    else if r.proto == .udp && !sv.udp then { ss, status := Peer.statusUnsupportedTransport, err := false }
    else if ss.transport.isSome && ss.transport != some r.proto then bad ss
    else if ss.state == .preRecord then
      -- record
      if !r.modeRecord then bad ss
      else if r.media ≥ ss.announced then bad ss                        -- media not found
      else if ss.medias.any (·.idx == r.media) then bad ss              -- already setup
      else ok { ss with transport := some r.proto,
                        medias := ss.medias ++ [⟨r.media, r.cport, r.cport + 1⟩] }
    else
      -- play
      if r.modeRecord then bad ss
      else if r.media ≥ sv.streamMedias then bad ss                     -- media not found
      else if ss.medias.any (·.idx == r.media) then bad ss              -- already setup
      else if ss.state == .initial && r.proto == .udp && udpPortInUse sv ss r.cport then bad ss
      else ok { ss with transport := some r.proto, state := .prePlay,
                        medias := ss.medias ++ [⟨r.media, r.cport, r.cport + 1⟩] }
  | .play =>
    if !(ss.state == .prePlay || ss.state == .play) then bad ss
    else if ss.state == .play then ok ss
    else
      { ss := { ss with state := .play, tcpConn := if ss.transport == some .tcp then some cid else ss.tcpConn },
        status := Peer.statusOK, err := false, start := some false }
  | .record =>
    if ss.state != .preRecord then bad ss
    else if ss.medias.length != ss.announced then bad ss
    else
      { ss := { ss with state := .record, tcpConn := if ss.transport == some .tcp then some cid else ss.tcpConn },
        status := Peer.statusOK, err := false, start := some true }
  | .pause =>
    if ss.state == .initial then bad ss
    else if ss.state == .play then
      { ss := { ss with state := .prePlay, tcpConn := if ss.transport == some .tcp then none else ss.tcpConn },
        status := Peer.statusOK, err := false, stop := true }
    else if ss.state == .record then
      { ss := { ss with state := .preRecord, tcpConn := if ss.transport == some .tcp then none else ss.tcpConn },
        status := Peer.statusOK, err := false, stop := true }
    else ok ss
  | .teardown => ok ss

namespace Server

/-- the `chHandleRequest` branch of `ServerSession.runInner` followed by the tail of
`ServerConn.handleRequestInSession` (`sc.session = returned session`) -/
def inSessionRun (sv : Server) (ss : Session) (cid : Nat) (r : Req) (now : Int) : Server × Nat × Bool :=
  let ss1 := { ss with lastReq := now, conns := if ss.conns.contains cid then ss.conns else ss.conns ++ [cid] }
  let res := sessionHandle sv ss1 cid r
  let sv1 := sv.setSession res.ss
  let sv2 := if res.stop then unregister sv1 res.ss else sv1
  let sv3 := match res.start with
    | some recording => register sv2 res.ss recording
    | none => sv2
  if !res.err && r.method == .teardown then
    -- the connection is detached, the session ends (ErrServerSessionTornDown)
    let ss2 := { res.ss with conns := res.ss.conns.filter (· != cid) }
    let sv4 := (sv3.setSession ss2).setConnSession cid none
    (closeSession sv4 ss2, res.status, false)
  else
    (sv3.setConnSession cid (some ss.id), res.status, res.err)

/-- `ServerConn.handleRequestInSession(sxID, req, create)` -/
def inSession (sv : Server) (c : Conn) (r : Req) (create : Bool) (now : Int) : Server × Nat × Bool :=
  match c.session with
  | none =>
    match r.sid.bind sv.findSession with
    | some ss =>
      if !ipEqual c.ip ss.authorIP || c.zone != ss.authorZone then
        (sv, Peer.statusBadRequest, true)       -- ErrServerCannotUseSessionCreatedByOtherIP
      else inSessionRun sv ss c.id r now
    | none =>
      if !create then (sv, Peer.statusSessionNotFound, true)
      else
        let ss : Session := { id := sv.nextSid, author := c.id, authorIP := c.ip, authorZone := c.zone,
                              conns := [c.id], lastReq := now }
        let sv := { sv with sessions := sv.sessions ++ [ss], nextSid := sv.nextSid + 1 }
        inSessionRun sv ss c.id r now
  | some own =>
    if r.sid.isSome && r.sid != some own then (sv, Peer.statusBadRequest, true)   -- ErrServerLinkedToOtherSession
    else
      match sv.findSession own with
      | some ss => inSessionRun sv ss c.id r now
      | none => (sv, Peer.statusBadRequest, true)   -- session already terminated (ErrServerTerminated); not reachable in the harness

/-- `ServerConn.handleRequestInner`: routing of a well-formed request -/
def route (sv : Server) (c : Conn) (r : Req) (now : Int) : Server × Nat × Bool :=
  match r.method with
  | .options => if r.sid.isSome then inSession sv c r false now else (sv, Peer.statusOK, false)
  | .announce => inSession sv c r true now
  | .setup => inSession sv c r true now
  | .getParameter => if r.sid.isSome then inSession sv c r false now else (sv, Peer.statusOK, false)
  | _ => if r.sid.isSome then inSession sv c r false now else (sv, Peer.statusNotImplemented, false)

/-- one request on connection `cid`, including the closing of the connection when the request
returned an error.  Requests on connections that do not exist are ignored (status 0). -/
def request (sv : Server) (cid : Nat) (r : Req) (now : Int) : Server × Nat :=
  match sv.findConn cid with
  | none => (sv, 0)
  | some c =>
    let (sv1, status, err) := route sv c r now
    (if err then sv1.closeConn cid else sv1, status)

/-- a new connection is accepted; ids must be fresh (larger than every id used before) -/
def openConn (sv : Server) (cid : Nat) (ip : IP) (zone : String) : Server :=
  if cid < sv.nextCid then sv
  else { sv with conns := sv.conns ++ [⟨cid, ip, zone, none⟩], nextCid := cid + 1 }

/-- a datagram on the RTP (`rtcp = false`) or RTCP listener: who gets it -/
def datagram (sv : Server) (rtcp : Bool) (ip : IP) (zone : String) (port : Int) : Option (Nat × Nat) :=
  dispatch (if rtcp then sv.rtcp else sv.rtp) ip zone port

end Server
end Rtsp.Peer
