import Rtsp.Generated.Facts.Ledger
/-
# Resource ledger of the RTSP server (property C11)

Executable model (core Lean only) of the *request logic* and of the *resource tables* of
gortsplib's server: server.go (`runInner`: conns, sessions, httpReadChannels), server_conn.go
(`handleRequestInner`, `handleRequestOuter`, `handleRequestInSession`, `run` tear-down),
server_conn_reader.go (`handleTunneling`, `readFuncStandard`, `readFuncTCP`, read deadlines),
server_session.go (`handleRequestInner`, `runInner` incl. the `chRemoveConn` rule and the UDP
time-out, `run` tear-down), server_session_media.go (`start` / `stop`: UDP client registrations),
server_stream.go (`readerAdd` / `readerRemove` / `readerSetActive` / `readerSetInactive`).

What is abstracted: bytes are classified by the parsers (C04 / C09 / C05 models; in the harness:
gortsplib's own parsers) into *input classes*; a request is the record `Req` of the classes the
request logic looks at.  Identities (connections, sessions, paths, tunnel cookies) are small
numbers.  One published stream (path class `known`), all peers share one IP address (the harness
runs on loopback), handlers answer 200 (404 for unknown paths).  Time is three events: `idle` (the
read deadline of a connection, or the 5 s wait of a GET channel, expires), `sessTimeout` (the UDP
stream check of a session finds it idle); each connection remembers whether the deadline its
reader set when it last started to wait is armed (`Conn.armed`).  Goroutines, sockets and the Go
runtime are not modelled.

Structure: `decide*` compute the verdict of a request (status, error, action) and change nothing;
`applyAction` performs the state change; `closeConn` / `closeSessSt` / `tornDown` are the
tear-downs; `connInput` / `step` / `run` drive them.  The model follows the code after the
repairs recorded in known-findings.txt (`fixed:` lines of C11): read deadline before the first
bytes, RECORD undone when a media cannot be started, read deadline disabled only while recording
over UDP and restored by PAUSE.
-/
namespace Rtsp.Ledger
open Rtsp.Facts.Ledger

abbrev ConnId := Nat
abbrev SessId := Nat

inductive Method
  | options | describe | announce | setup | play | record | pause | teardown
  | getParameter | setParameter | unknown
  deriving DecidableEq, Repr, Inhabited

/-- `ServerSessionState` -/
inductive SState | initial | prePlay | play | preRecord | record
  deriving DecidableEq, Repr, Inhabited

/-- `Protocol` of `SessionTransport` -/
inductive Proto | udp | mcast | tcp
  deriving DecidableEq, Repr, Inhabited

inductive Tunnel | none | http | ws
  deriving DecidableEq, Repr, Inhabited

/-- what the connection's reader goroutine is doing -/
inductive Phase
  | fresh                    -- `handleTunneling`: the first bytes were not read yet
  | standard                 -- `readFuncStandard`
  | tcp                      -- `readFuncTCP`
  | httpWait (cookie : Nat)  -- HTTP GET channel waiting for its POST (`handleHTTPChannel`)
  deriving DecidableEq, Repr, Inhabited

/-- server configuration: which `ServerHandlerOn*` interfaces the handler implements, listeners, TLS -/
structure Config where
  hDescribe : Bool := true
  hAnnounce : Bool := true
  hSetup : Bool := true
  hPlay : Bool := true
  hRecord : Bool := true
  hPause : Bool := true
  hGetParam : Bool := false
  hSetParam : Bool := false
  udp : Bool := true      -- `udpRTPListener != nil`
  mcast : Bool := false   -- `MulticastIPRange != ""`
  tls : Bool := false     -- `TLSConfig != nil`
  deriving DecidableEq, Repr, Inhabited

/-- one entry of a parsed `Transport` header (`headers.Transport`) -/
structure Tr where
  udp : Bool                    -- `Protocol == TransportProtocolUDP`
  mcast : Bool                  -- `Delivery != nil && *Delivery == multicast`
  secure : Bool                 -- `Profile == SAVP`
  mode : Nat                    -- 0 absent, 1 play, 2 record
  ports : Option (Nat × Nat)    -- `ClientPorts`
  inter : Option (Nat × Nat)    -- `InterleavedIDs`
  deriving DecidableEq, Repr, Inhabited

/-- the `Session` header as `getSessionID` sees it -/
inductive SessRef
  | none                 -- absent, or present several times
  | id (s : SessId)      -- the secret id of a session that was created on this server
  | bogus                -- any other value
  deriving DecidableEq, Repr, Inhabited

/-- `Content-Type` of an ANNOUNCE -/
inductive CType | missing | other | sdp
  deriving DecidableEq, Repr, Inhabited

/-- body of an ANNOUNCE -/
inductive Sdp
  | invalid                      -- `sdpunmarshaler.Unmarshal` / `desc.Unmarshal2` fail
  | backChannel | h264mode0      -- rejected after parsing
  | ok (controls : List Nat)     -- one control code per announced media (`trackID=<n>` ↦ n)
  deriving DecidableEq, Repr, Inhabited

/-- a parsed request, reduced to what the request logic looks at -/
structure Req where
  method : Method
  cseq : Bool := true            -- exactly one `CSeq` header
  url : Bool := true             -- the URL is not `*`
  sess : SessRef := .none
  path : Nat := 0                -- `getPathAndQuery` (ANNOUNCE / PLAY / RECORD / PAUSE / DESCRIBE), interned
  known : Bool := true           -- the handler knows this path (a stream is published there)
  ctype : CType := .sdp
  sdp : Sdp := .invalid
  trs : Option (List Tr) := none -- `Transport` header; `none` = does not parse
  setupPath : Option Nat := none -- SETUP when playing: path of `getPathAndQueryAndTrackID`; `none` = error
  setupKnown : Bool := true      -- `OnSetup` knows that path
  track : Option Nat := none     -- SETUP when playing: `findMediaByTrackID` (index in the stream)
  recPath : Nat := 0             -- SETUP when recording: URL = recPath ++ "/trackID=" ++ recCtl
  recCtl : Option Nat := none    --   (`none`: the URL has no such form)
  keyMgmt : Bool := false        -- `KeyMgmt` header parses and `mikeyToContext` accepts it
  deriving DecidableEq, Repr, Inhabited

/-- `serverSessionMedia` -/
structure Media where
  idx : Nat        -- index of the media in the stream / in the announced description
  rtp : Nat        -- `udpRTPReadPort`  (0 unless UDP)
  rtcp : Nat       -- `udpRTCPReadPort` (0 unless UDP)
  chan : Nat       -- `tcpChannel`
  deriving DecidableEq, Repr, Inhabited

/-- `ServerSession` -/
structure Sess where
  id : SessId
  author : ConnId
  conns : List ConnId := []            -- `ss.conns`
  state : SState := .initial
  proto : Option (Proto × Bool) := none   -- `setuppedTransport` (protocol, secure profile)
  medias : List Media := []            -- `setuppedMediasOrdered`
  path : Nat := 0                      -- `setuppedPath`
  announced : List Nat := []           -- control codes of `announcedDesc.Medias`
  tcpConn : Option ConnId := none
  deriving DecidableEq, Repr, Inhabited

/-- `ServerConn` -/
structure Conn where
  id : ConnId
  session : Option SessId := none
  tunnel : Tunnel := .none
  phase : Phase := .fresh
  armed : Bool := true     -- the read deadline the reader set when it started to wait for the next message
  deriving DecidableEq, Repr, Inhabited

/-- The server's resource tables.  `udpRtp` / `udpRtcp` are the `clients` maps of the two UDP
listeners (key: client port — all peers share one IP; value: the session that registered it),
`readers` / `active` the reader maps of the published `ServerStream`, `writers` the sessions that
own a write queue (`ss.writer != nil`), `mcast` the stream's `multicastReaderCount`. -/
structure State where
  cfg : Config := {}
  conns : List Conn := []
  sessions : List Sess := []
  nextSess : Nat := 0
  httpRead : List (ConnId × Nat) := []
  udpRtp : List (Nat × SessId) := []
  udpRtcp : List (Nat × SessId) := []
  readers : List SessId := []
  active : List SessId := []
  writers : List SessId := []
  mcast : Nat := 0
  deriving DecidableEq, Repr, Inhabited

/-- input classes on one control connection -/
inductive Input
  | req (r : Req)            -- a well-formed RTSP request
  | malformed                -- a request / response / frame that does not parse
  | skipped                  -- bytes `Conn.Read` discards while looking for a message start
  | response                 -- a well-formed RTSP *response*
  | frame (ch : Nat)         -- a well-formed interleaved frame
  | httpGet (cookie : Nat)   -- HTTP tunnel GET handshake
  | httpPost (cookie : Nat) (fresh : ConnId)   -- HTTP tunnel POST; `fresh`: id of the merged connection
  | httpOther                -- any other well-formed HTTP request
  | wsUpgrade (ok : Bool)    -- WebSocket upgrade request; `ok`: gorilla accepts the handshake
  | eof                      -- the peer closed / the socket failed
  | idle                     -- the read deadline of the connection expired
  deriving DecidableEq, Repr, Inhabited

inductive Event
  | accept (c : ConnId)
  | input (c : ConnId) (i : Input)
  | sessTimeout (s : SessId)      -- `udpCheckStreamTimer` found the session idle
  deriving DecidableEq, Repr, Inhabited

/-- what the server emits -/
inductive Out
  | rtsp (c : ConnId) (status : Nat)
  | http (c : ConnId) (status : Nat)
  | ws (c : ConnId)                -- 101 switching protocols
  | consumed (c : ConnId)          -- input taken, nothing to answer (frame in TCP mode, skipped bytes)
  | connOpen (c : ConnId)          -- `OnConnOpen`
  | connClose (c : ConnId)         -- socket closed, `OnConnClose`
  | sessOpen (s : SessId)
  | sessClose (s : SessId)
  deriving DecidableEq, Repr, Inhabited

/-! ## table helpers -/

def findConn (st : State) (c : ConnId) : Option Conn := st.conns.find? (·.id == c)
def findSess (st : State) (s : SessId) : Option Sess := st.sessions.find? (·.id == s)

def setConn (st : State) (c : Conn) : State :=
  { st with conns := st.conns.map fun x => if x.id == c.id then c else x }
def setSess (st : State) (s : Sess) : State :=
  { st with sessions := st.sessions.map fun x => if x.id == s.id then s else x }

/-- `udpListener.addClient`: a map assignment (an existing entry for the port is replaced) -/
def addClient (tbl : List (Nat × SessId)) (port : Nat) (s : SessId) : List (Nat × SessId) :=
  (port, s) :: tbl.filter (·.1 != port)
/-- `udpListener.removeClient`: a map delete by port, whoever registered it -/
def removeClient (tbl : List (Nat × SessId)) (port : Nat) : List (Nat × SessId) :=
  tbl.filter (·.1 != port)

def isUdp (s : Sess) : Bool := match s.proto with | some (.udp, _) => true | _ => false
def isMcast (s : Sess) : Bool := match s.proto with | some (.mcast, _) => true | _ => false
def isTcp (s : Sess) : Bool := match s.proto with | some (.tcp, _) => true | _ => false
def streaming (s : Sess) : Bool := s.state == .play || s.state == .record
def playMode (s : Sess) : Bool := s.state == .prePlay || s.state == .play

/-- a UDP port `WriteTo` accepts -/
def usablePort (p : Nat) : Bool := 0 < p && p ≤ 65535

/-- the `chRemoveConn` rule negated: a session without connections stays alive exactly when it
streams over UDP or multicast (then only `sessTimeout` ends it) -/
def survivesAlone (s : Sess) : Bool := streaming s && !isTcp s

/-! ## tear-down (server_session.go `run`, server_conn.go `run`) -/

/-- `removeClient` for every port of a list (the loop over the medias of a session) -/
def removePorts (tbl : List (Nat × SessId)) (ports : List Nat) : List (Nat × SessId) :=
  tbl.filter fun e => !ports.contains e.1

/-- `serverSessionMedia.stop` for every media of the session -/
def stopMedias (st : State) (s : Sess) : State :=
  if isUdp s then
    { st with udpRtp := removePorts st.udpRtp (s.medias.map (·.rtp)),
              udpRtcp := removePorts st.udpRtcp (s.medias.map (·.rtcp)) }
  else st

/-- Tear-down of a session (`ServerSession.run` after `runInner` returned), the state: every
connection still in `ss.conns` is closed, the stream forgets the reader, the medias unregister
their UDP ports, the write queue is destroyed, the server forgets the session. -/
def closeSessSt (st : State) (s : Sess) : State :=
  { cfg := st.cfg
    conns := st.conns.filter (fun c => !s.conns.contains c.id)
    sessions := st.sessions.filter (·.id != s.id)
    nextSess := st.nextSess
    httpRead := st.httpRead.filter (fun e => !s.conns.contains e.1)
    udpRtp := if isUdp s then removePorts st.udpRtp (s.medias.map (·.rtp)) else st.udpRtp
    udpRtcp := if isUdp s then removePorts st.udpRtcp (s.medias.map (·.rtcp)) else st.udpRtcp
    readers := if playMode s then st.readers.filter (· != s.id) else st.readers
    active := if playMode s then st.active.filter (· != s.id) else st.active
    writers := st.writers.filter (· != s.id)
    mcast := if playMode s && isMcast s then st.mcast - 1 else st.mcast }

def closeSess (st : State) (s : Sess) : State × List Out :=
  (closeSessSt st s, s.conns.map Out.connClose ++ [Out.sessClose s.id])

/-- the connection leaves the server's tables -/
def dropConn (st : State) (c : ConnId) : State :=
  { st with conns := st.conns.filter (·.id != c), httpRead := st.httpRead.filter (·.1 != c) }

/-- the session record after `chRemoveConn` -/
def leaveSess (s : Sess) (c : ConnId) : Sess := { s with conns := s.conns.filter (· != c) }

/-- Tear-down of a connection (`ServerConn.run` after `runInner` returned): `session.removeConn`,
then `Server.closeConn`.  The session reacts with the `chRemoveConn` rule. -/
def closeConn (st : State) (c : Conn) : State × List Out :=
  match c.session.bind (findSess st) with
  | none => (dropConn st c.id, [Out.connClose c.id])
  | some s =>
    if (leaveSess s c.id).conns.isEmpty && !survivesAlone s then
      (dropConn (closeSessSt st (leaveSess s c.id)) c.id,
        Out.connClose c.id :: (closeSess st (leaveSess s c.id)).2)
    else (dropConn (setSess st (leaveSess s c.id)) c.id, [Out.connClose c.id])

/-! ## the request logic -/

/-- `isTransportSupported` -/
def trSupported (cfg : Config) (c : Conn) (t : Tr) : Bool :=
  (if t.udp then
     !((!t.mcast && !cfg.udp) || (t.mcast && !cfg.mcast) || c.tunnel != .none || (!t.secure && cfg.tls))
   else true) && !(t.secure && !cfg.tls)

def trProto (t : Tr) : Proto := if t.udp then (if t.mcast then .mcast else .udp) else .tcp

/-- `isChannelPairInUse` -/
def chanInUse (s : Sess) (ch : Nat) : Bool :=
  s.medias.any fun m => m.chan + 1 == ch || m.chan == ch || m.chan == ch + 1

/-- `findFreeChannelPair`: the first even channel not in use (at most `medias.length` pairs can be busy…
each media blocks at most two even channels) -/
def freeChanFrom (s : Sess) : Nat → Nat → Nat
  | 0, i => i
  | fuel + 1, i => if chanInUse s i then freeChanFrom s fuel (i + 2) else i
def freeChan (s : Sess) : Nat := freeChanFrom s (2 * s.medias.length + 1) 0

/-- `readerAdd`'s check: another UDP reader of the stream already uses this RTP port -/
def portTaken (st : State) (self : SessId) (port : Nat) : Bool :=
  st.sessions.any fun r => r.id != self && st.readers.contains r.id && isUdp r && r.medias.any (·.rtp == port)

/-- what the session-level logic decides for one request -/
inductive Action
  | nothing
  | announce (path : Nat) (controls : List Nat)
  | setup (p : Proto) (secure : Bool) (m : Media) (path : Nat)
  | play
  | record
  | pause
  | teardown
  deriving DecidableEq, Repr, Inhabited

/-- (status, error?, action).  `error = true` ⇒ `handleRequestOuter` returns the error and the
reader closes the connection after the response was written. -/
abbrev Verdict := Nat × Bool × Action

def bad : Verdict := (statusBadRequest, true, .nothing)

/-- SETUP, last part: the media the URL names, `readerAdd`, the new `serverSessionMedia` -/
def setupMedia (st : State) (s : Sess) (r : Req) (t : Tr) (play : Bool) (proto : Proto) : Verdict :=
  match (if play then r.track
         else match r.recCtl with
           | some ctl => if r.recPath == s.path then s.announced.findIdx? (· == ctl) else none
           | none => none) with
  | none => bad
  | some idx =>
    if s.medias.any (·.idx == idx) then bad else
    if s.state == .initial && proto == .udp && portTaken st s.id (t.ports.getD (0, 0)).1 then bad else
    (statusOK, false, .setup proto t.secure
      { idx := idx,
        rtp := if proto == .udp then (t.ports.getD (0, 0)).1 else 0,
        rtcp := if proto == .udp then (t.ports.getD (0, 0)).2 else 0,
        chan := if proto == .tcp then (match t.inter with | some (a, _) => a | none => freeChan s) else 0 }
      (if play then r.setupPath.getD 0 else s.path))

/-- SETUP, middle part: the checks on the chosen transport, in the order of the code -/
def setupChecks (st : State) (s : Sess) (r : Req) (t : Tr) (play : Bool) (proto : Proto) : Verdict :=
  if play && r.setupPath.isNone then bad else
  if s.state == .prePlay && r.setupPath != some s.path then bad else
  if t.secure && !r.keyMgmt then bad else
  if s.proto.isSome && s.proto != some (proto, t.secure) then bad else
  if proto == .udp && t.ports.isNone then bad else
  if proto == .tcp && (match t.inter with
      | some (a, b) => a + 1 != b || chanInUse s a
      | none => false) then bad else
  if play && !(t.mode == 0 || t.mode == 1) then bad else
  if !play && proto == .mcast then (statusUnsupportedTransport, false, .nothing) else
  if !play && t.mode != 2 then bad else
  -- OnSetup
  if play && !r.setupKnown then (statusNotFound, false, .nothing) else
  setupMedia st s r t play proto

/-- SETUP in `ServerSession.handleRequestInner` -/
def decideSetup (st : State) (c : Conn) (s : Sess) (r : Req) : Verdict :=
  if !(s.state == .initial || s.state == .prePlay || s.state == .preRecord) then bad else
  match r.trs with
  | none => bad
  | some trs =>
  match trs.find? (trSupported st.cfg c) with
  | none => (statusUnsupportedTransport, false, .nothing)
  | some t => setupChecks st s r t (s.state == .initial || s.state == .prePlay) (trProto t)

/-- `ServerSession.handleRequestInner` -/
def decideInSession (st : State) (c : Conn) (s : Sess) (r : Req) : Verdict :=
  if s.tcpConn.isSome && s.tcpConn != some c.id then bad else
  match r.method with
  | .options => (statusOK, false, .nothing)
  | .announce =>
    if s.state != .initial then bad else
    if r.ctype != .sdp then bad else
    match r.sdp with
    | .ok controls => (statusOK, false, .announce r.path controls)
    | _ => bad
  | .setup => decideSetup st c s r
  | .play =>
    if !(s.state == .prePlay || s.state == .play) then bad else
    if s.state == .prePlay && r.path != s.path then bad else
    (statusOK, false, if s.state == .play then .nothing else .play)
  | .record =>
    if s.state != .preRecord then bad else
    if s.medias.length != s.announced.length then bad else
    if r.path != s.path then bad else
    -- `sm.start()`: the firewall-opening packets cannot be sent to an unusable port; the request
    -- fails and the state change is undone
    if isUdp s && s.medias.any (fun m => !(usablePort m.rtp && usablePort m.rtcp)) then bad else
    (statusOK, false, .record)
  | .pause =>
    if s.state == .initial then bad else
    (statusOK, false, if streaming s then .pause else .nothing)
  | .teardown => (statusOK, false, .teardown)
  | .getParameter => (statusOK, false, .nothing)
  | .setParameter => if st.cfg.hSetParam then (statusOK, false, .nothing) else (statusNotImplemented, false, .nothing)
  | _ => (statusNotImplemented, false, .nothing)

/-- `sm.start()` of every media after PLAY: the RTCP port of each media is registered -/
def startPlay (st : State) (s : Sess) : State :=
  if isUdp s then
    { st with udpRtcp := s.medias.foldl (fun t m => addClient t m.rtcp s.id) st.udpRtcp }
  else st

/-- `sm.start()` of every media after RECORD: both ports of each media are registered -/
def startRecord (st : State) (s : Sess) : State :=
  if isUdp s then
    { st with udpRtp := s.medias.foldl (fun t m => addClient t m.rtp s.id) st.udpRtp,
              udpRtcp := s.medias.foldl (fun t m => addClient t m.rtcp s.id) st.udpRtcp }
  else st

def setPhase (st : State) (c : ConnId) (p : Phase) : State :=
  { st with conns := st.conns.map fun x => if x.id == c then { x with phase := p } else x }

/-- `SetReadDeadline` on every connection of a session (PAUSE of a recording session) -/
def armConns (st : State) (cs : List ConnId) : State :=
  { st with conns := st.conns.map fun x => if cs.contains x.id then { x with armed := true } else x }

/-- PAUSE of a streaming session: the write queue goes (not for multicast), the stream marks the
reader inactive, the medias unregister their UDP ports, the reader of a TCP connection goes back
to `readFuncStandard`; the connections of a session that recorded get their read deadline back -/
def pauseTo (st : State) (c : ConnId) (s : Sess) (target : SState) : State :=
  let st := { st with writers := if isMcast s then st.writers else st.writers.filter (· != s.id),
                      active := st.active.filter (· != s.id) }
  let st := setSess (stopMedias st s) { s with state := target, tcpConn := if isTcp s then none else s.tcpConn }
  let st := if isTcp s then setPhase st c .standard else st
  if s.state == .record then armConns st s.conns else st

/-- The state change of a successful request (session `s` is the current record of the session).
Every case is guarded by the state the verdict was computed in (`decideInSession` has checked it:
the guards never fail there); a SETUP keeps the transport of the session once it is set
(`decideSetup` has checked that it is the same). -/
def applyAction (st : State) (c : ConnId) (s : Sess) : Action → State
  | .nothing => st
  | .teardown => st
  | .announce path controls =>
    if s.state == .initial then
      setSess st { s with state := .preRecord, path := path, announced := controls }
    else st
  | .setup p secure m path =>
    if !(s.proto.isNone || s.proto == some (p, secure)) then st
    else if s.state == .initial then
      -- first SETUP of a reader: `readerAdd`
      setSess { st with readers := s.id :: st.readers, mcast := if p == .mcast then st.mcast + 1 else st.mcast }
        { s with proto := some (p, secure), medias := s.medias ++ [m], state := .prePlay, path := path }
    else setSess st { s with proto := some (p, secure), medias := s.medias ++ [m] }
  | .play =>
    if s.state == .prePlay then
      let st := if isMcast s then st else { st with writers := s.id :: st.writers, active := s.id :: st.active }
      let st := setSess (startPlay st s) { s with state := .play, tcpConn := if isTcp s then some c else s.tcpConn }
      if isTcp s then setPhase st c .tcp else st
    else st
  | .record =>
    if s.state == .preRecord then
      let st := { st with writers := s.id :: st.writers }
      let st := setSess (startRecord st s) { s with state := .record, tcpConn := if isTcp s then some c else s.tcpConn }
      if isTcp s then setPhase st c .tcp else st
    else st
  | .pause =>
    if s.state == .play then pauseTo st c s .prePlay
    else if s.state == .record then pauseTo st c s .preRecord
    else st

/-- `ServerSession.initialize`: a new session, created by connection `c` -/
def newSess (st : State) (c : ConnId) : Sess := { id := st.nextSess, author := c, conns := [c] }

/-- `s.sessions[ss.secretID] = ss` -/
def addSess (st : State) (s : Sess) : State :=
  { st with sessions := st.sessions ++ [s], nextSess := st.nextSess + 1 }

/-- `handleRequestInSession`, first half: which session does the request go to?  `findOrCreateSession`
when the connection has none; otherwise its own session (a different id is an error). -/
def resolve (st : State) (c : Conn) (r : Req) (create : Bool) : Except Nat (State × Sess × List Out) :=
  match c.session with
  | some cur =>
    match findSess st cur with
    | some s =>
      (match r.sess with
       | .none => .ok (st, s, [])
       | .id x => if x == cur then .ok (st, s, []) else .error statusBadRequest
       | .bogus => .error statusBadRequest)
    | none => .error statusBadRequest      -- unreachable under the invariant
  | none =>
    match (match r.sess with | .id x => findSess st x | _ => none) with
    | some s => .ok (st, s, [])
    | none =>
      if create then .ok (addSess st (newSess st c.id), newSess st c.id, [Out.sessOpen st.nextSess])
      else .error statusSessionNotFound

/-- `ServerSession.runInner`, case `chHandleRequest`: the session adds the connection to `ss.conns` -/
def joinSess (s : Sess) (c : ConnId) : Sess :=
  if s.conns.contains c then s else { s with conns := s.conns ++ [c] }

/-- after a successful TEARDOWN the session ends (`ErrServerSessionTornDown`: every other
connection of the session is closed) and the connection is detached -/
def tornDown (st : State) (c : Conn) (sid : SessId) : State × List Out :=
  match findSess st sid with
  | some s' =>
    (setConn (closeSessSt st (leaveSess s' c.id))
       { c with session := none, phase := if c.phase == .tcp then .standard else c.phase },
     (closeSess st (leaveSess s' c.id)).2)
  | none =>
    (setConn st { c with session := none, phase := if c.phase == .tcp then .standard else c.phase }, [])

/-- `handleRequestInSession` + `ServerSession.runInner` (case `chHandleRequest`).  Returns the new
state, status, error flag and the session open / close outputs. -/
def inSession (st : State) (c : Conn) (r : Req) (create : Bool) : State × Nat × Bool × List Out :=
  match resolve st c r create with
  | .error status => (st, status, true, [])
  | .ok (st, s, opened) =>
    -- the session adds the connection to `ss.conns`; the connection remembers the session
    let st := setConn (setSess st (joinSess s c.id)) { c with session := some s.id }
    let v := decideInSession st { c with session := some s.id } (joinSess s c.id) r
    let st := applyAction st c.id (joinSess s c.id) v.2.2
    if v.2.2 == .teardown then
      ((tornDown st { c with session := some s.id } s.id).1, v.1, v.2.1,
        opened ++ (tornDown st { c with session := some s.id } s.id).2)
    else (st, v.1, v.2.1, opened)

/-- `ServerConn.handleRequestInner`: (state, status, error, extra outputs) -/
def handleRequest (st : State) (c : Conn) (r : Req) : State × Nat × Bool × List Out :=
  if !r.cseq then (st, statusBadRequest, true, []) else
  if r.method != .options && !r.url then (st, statusBadRequest, true, []) else
  let cfg := st.cfg
  let hasSess := r.sess != .none
  match r.method with
  | .options => if hasSess then inSession st c r false else (st, statusOK, false, [])
  | .describe =>
    if cfg.hDescribe then (st, if r.known then statusOK else statusNotFound, false, []) else (st, statusNotImplemented, false, [])
  | .announce => if cfg.hAnnounce then inSession st c r true else (st, statusNotImplemented, false, [])
  | .setup => if cfg.hSetup then inSession st c r true else (st, statusNotImplemented, false, [])
  | .play => if hasSess && cfg.hPlay then inSession st c r false else (st, statusNotImplemented, false, [])
  | .record => if hasSess && cfg.hRecord then inSession st c r false else (st, statusNotImplemented, false, [])
  | .pause => if hasSess && cfg.hPause then inSession st c r false else (st, statusNotImplemented, false, [])
  | .teardown => if hasSess then inSession st c r false else (st, statusNotImplemented, false, [])
  | .getParameter =>
    if hasSess then inSession st c r false
    else if cfg.hGetParam then (st, statusOK, false, []) else (st, statusNotImplemented, false, [])
  | .setParameter =>
    if hasSess then inSession st c r false
    else if cfg.hSetParam then (st, statusOK, false, []) else (st, statusNotImplemented, false, [])
  | .unknown => (st, statusNotImplemented, false, [])

/-- close the connection with id `c` if it is (still) open -/
def closeById (st : State) (c : ConnId) : State × List Out :=
  match findConn st c with
  | some conn => closeConn st conn
  | none => (st, [])

/-- one RTSP-level input on an open connection whose reader is past `handleTunneling` -/
def rtspInput (st : State) (c : Conn) : Input → State × List Out
  | .req r =>
    if (handleRequest st c r).2.2.1 then
      ((closeById (handleRequest st c r).1 c.id).1,
        Out.rtsp c.id (handleRequest st c r).2.1 :: (handleRequest st c r).2.2.2 ++ (closeById (handleRequest st c r).1 c.id).2)
    else ((handleRequest st c r).1, Out.rtsp c.id (handleRequest st c r).2.1 :: (handleRequest st c r).2.2.2)
  | .frame _ =>
    if c.phase == .tcp then (st, [Out.consumed c.id]) else closeConn st c
  | .skipped => (st, [Out.consumed c.id])
  | _ => closeConn st c     -- malformed, response, eof, idle, HTTP after the first message

/-- The deadline a reader sets when it starts to wait for the next message: `readFuncStandard`
sets none while the session records over UDP (the session's own time-out then ends the
connection), `readFuncTCP` and `handleTunneling` always set one. -/
def deadlineFor (st : State) (c : Conn) : Bool :=
  match c.phase with
  | .standard =>
    (match c.session.bind (findSess st) with
     | some s => !(s.state == .record && isUdp s)
     | none => true)
  | _ => true

/-- the read deadline of the connection is armed -/
def deadlineArmed (_st : State) (c : Conn) : Bool := c.armed

/-- the reader of connection `c` goes back to waiting (if the connection is still there) -/
def rearm (st : State) (c : ConnId) : State :=
  match findConn st c with
  | some x => setConn st { x with armed := deadlineFor st x }
  | none => st

/-- `s.conns[sc] = struct{}{}` (a connection id is never reused) -/
def addConn (st : State) (c : Conn) : State :=
  if (findConn st c.id).isSome then st else { st with conns := st.conns ++ [c] }

/-- A POST channel meets its GET channel: both end as connections of their own
(`errHTTPUpgraded`: their `run` still goes through `session.removeConn` / `Server.closeConn` /
`OnConnClose`), the merged connection starts. -/
def mergeTunnel (st : State) (c : Conn) (get : ConnId) (fresh : ConnId) : State × List Out :=
  (addConn (closeById (closeById st get).1 c.id).1 { id := fresh, tunnel := .http, phase := .standard },
   Out.http c.id 200 :: Out.connOpen fresh :: ((closeById st get).2 ++ (closeById (closeById st get).1 c.id).2))

/-- close the connection after an HTTP answer -/
def httpThenClose (st : State) (c : Conn) (status : Nat) : State × List Out :=
  ((closeConn st c).1, Out.http c.id status :: (closeConn st c).2)

/-- the first message of a connection (`handleTunneling`) -/
def freshInput (st : State) (c : Conn) : Input → State × List Out
  | .httpGet cookie =>
    ({ setPhase st c.id (.httpWait cookie) with httpRead := st.httpRead ++ [(c.id, cookie)] }, [Out.http c.id 200])
  | .httpPost cookie fresh =>
    (match st.httpRead.find? (·.2 == cookie) with
     | some e => mergeTunnel st c e.1 fresh
     | none => httpThenClose st c 200)
  | .httpOther => httpThenClose st c 400
  | .wsUpgrade ok =>
    if ok then (setConn st { c with tunnel := .ws, phase := .standard }, [Out.ws c.id])
    else httpThenClose st c 400
  | .skipped => (setConn st { c with phase := .standard }, [Out.consumed c.id])
  | i => rtspInput (setConn st { c with phase := .standard }) { c with phase := .standard } i

/-- a message on a connection whose reader is in `readFuncStandard` / `readFuncTCP` -/
def lateInput (st : State) (c : Conn) : Input → State × List Out
  | .httpGet _ | .httpPost _ _ | .httpOther | .wsUpgrade _ => closeConn st c   -- not RTSP: parse error
  | i => rtspInput st c i

/-- one input on connection `c`, before the reader goes back to waiting -/
def connInput0 (st : State) (c : Conn) (i : Input) : State × List Out :=
  match c.phase with
  | .httpWait _ =>
    -- nothing is read while the GET channel waits for its POST; only the 5 s timer ends the wait
    if i == .idle then closeConn st c else (st, [])
  | .fresh => freshInput st c i
  | _ => lateInput st c i

/-- one input on connection `c`.  Skipped bytes are discarded inside one `Conn.Read`: the deadline
set before is not renewed. -/
def connInput (st : State) (c : Conn) (i : Input) : State × List Out :=
  if i == .idle && !deadlineArmed st c then (st, [])
  else if i == .skipped then connInput0 st c i
  else (rearm (connInput0 st c i).1 c.id, (connInput0 st c i).2)

def step (st : State) : Event → State × List Out
  | .accept c =>
    if (findConn st c).isSome then (st, []) else (addConn st { id := c }, [Out.connOpen c])
  | .input c i =>
    (match findConn st c with
     | some conn => connInput st conn i
     | none => (st, []))
  | .sessTimeout s =>
    (match findSess st s with
     | some ss => if survivesAlone ss then closeSess st ss else (st, [])
     | none => (st, []))

def run (st : State) : List Event → State × List Out
  | [] => (st, [])
  | e :: es =>
    let (st, o) := step st e
    let (st, o') := run st es
    (st, o ++ o')

def init (cfg : Config) : State := { cfg := cfg }

end Rtsp.Ledger
