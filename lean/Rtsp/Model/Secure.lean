import Rtsp.Model.Mikey
import Rtsp.Model.Ntp
import Rtsp.Generated.Facts.Sec
/-
Model of the secure-session logic of gortsplib (property C17):

  A. the part of pion/srtp's `Context` that gortsplib relies on: per-SSRC roll-over-counter
     estimation (`nextRolloverCount` / `updateRolloverCount`, context.go), `SetROC`, `ROC`, the SRTCP
     index, and `EncryptRTP/DecryptRTP/EncryptRTCP/DecryptRTCP` (srtp.go, srtcp.go) with the cipher
     itself as a PARAMETER (`Cipher W WC`): AES-CM / HMAC-SHA1 are not modelled;
  B. `wrapped_srtp_context.go`: `initialize`, `roc`, `mikeyToContext`, `contextToMikey`
     over the parsed MIKEY message (`Rtsp.Mikey.Message`, the byte level belongs to C09);
  C. admission: `isSecure`, `isTransportSupported`, `pickFirstSupportedTransport` and the SETUP
     decisions of `server_session.go` that concern the secure profile; the client's choice of
     protocol/profile, its SETUP response check and the redirect scheme check of `doDescribe`;
  D. the media pipeline: `writePacketRTP` / `writePacketRTCP` (encrypt iff a context is present,
     per reader in `server_stream_format.go`) and `readPacketRTP` / `decodeRTP` / `decodeRTCP`.

Conventions: Go `uint32`/`uint64` values are `Nat`s (wrap-around is written explicitly where the
Go code can reach it); a byte string is `List UInt8`.  Core Lean only (linked into `oracle_sec`).
-/
namespace Rtsp.Sec
open Rtsp.Facts
open Rtsp.Mikey (Bytes Message Payload KeyData PolicyParam SrtpIdEntry)

def two16 : Nat := 65536
def two32 : Nat := 4294967296
def two64 : Nat := 18446744073709551616

/-! ## A. pion/srtp context state -/

/-- `srtpSSRCState`: `index = roc<<16 | seq` (uint64) and `rolloverHasProcessed`. -/
structure SsrcState where
  index : Nat := 0
  processed : Bool := false
deriving DecidableEq, Repr, Inhabited

/-- `uint32(s.index >> 16)` -/
def SsrcState.roc (s : SsrcState) : Nat := s.index / two16 % two32
/-- `int32(s.index & (seqNumMax - 1))` -/
def SsrcState.seq (s : SsrcState) : Nat := s.index % Sec.seqNumMax

/-- `nextRolloverCount`: guessed ROC, difference, overflow flag. -/
def nextRoc (s : SsrcState) (seq : Nat) : Nat × Int × Bool :=
  let localRoc := s.roc
  let localSeq : Int := s.seq
  let sq : Int := seq
  let med : Int := Sec.seqNumMedian
  let mx : Int := Sec.seqNumMax
  let (g, d) : Nat × Int :=
    if s.processed then
      if s.index > Sec.seqNumMedian then
        if localSeq < med then
          if sq - localSeq > med then ((localRoc + two32 - 1) % two32, sq - localSeq - mx)
          else (localRoc, sq - localSeq)
        else
          if localSeq - med > sq then ((localRoc + 1) % two32, sq - localSeq + mx)
          else (localRoc, sq - localSeq)
      else (localRoc, sq - localSeq)
    else (localRoc, 0)
  (g, d, g == 0 && localRoc == Sec.maxROC)

/-- `updateRolloverCount` with `hasRemoteRoc = false` (gortsplib never enables RCC). -/
def updateRoc (s : SsrcState) (seq : Nat) (diff : Int) : SsrcState :=
  if !s.processed then { index := s.index ||| seq, processed := true }
  else if diff > 0 then { s with index := (s.index + diff.toNat) % two64 }
  else s

/-- association list standing for a Go `map[uint32]T` -/
def lookup {α} (m : List (Nat × α)) (k : Nat) : Option α :=
  match m with
  | [] => none
  | (k', v) :: rest => if k' = k then some v else lookup rest k

def insert {α} (m : List (Nat × α)) (k : Nat) (v : α) : List (Nat × α) :=
  match m with
  | [] => [(k, v)]
  | (k', v') :: rest => if k' = k then (k, v) :: rest else (k', v') :: insert rest k v

/-- `wrappedSRTPContext` together with the state of the `srtp.Context` it wraps. -/
structure Ctx where
  key : Bytes                      -- master key ‖ master salt
  mki : Bytes
  ssrcs : List Nat
  startROCs : List Nat
  rtp : List (Nat × SsrcState) := []   -- srtpSSRCStates
  rtcp : List (Nat × Nat) := []        -- srtcpSSRCStates: ssrc ↦ srtcpIndex
deriving DecidableEq, Repr, Inhabited

/-- `Context.SetROC` -/
def Ctx.setROC (c : Ctx) (ssrc roc : Nat) : Ctx :=
  { c with rtp := insert c.rtp ssrc { index := (roc * two16) % two64, processed := false } }

/-- `wrappedSRTPContext.roc` = `Context.ROC` with the `ok` flag dropped (0 for an unknown SSRC). -/
def Ctx.roc (c : Ctx) (ssrc : Nat) : Nat :=
  match lookup c.rtp ssrc with
  | some s => s.roc
  | none => 0

def Ctx.state (c : Ctx) (ssrc : Nat) : SsrcState := (lookup c.rtp ssrc).getD {}

/-- the `for i, roc := range ctx.startROCs { ctx.w.SetROC(ctx.ssrcs[i], roc) }` loop.  `ssrcs[i]`
exists in every caller (both lists come from the same CS-ID map, or `startROCs` is nil). -/
def applyROCs (c : Ctx) : List Nat → List Nat → Ctx
  | s :: ss, r :: rs => applyROCs (c.setROC s r) ss rs
  | _, _ => c

/-- `wrappedSRTPContext.initialize`: `srtp.CreateContext(key[:16], key[16:], AES128_CM_HMAC_SHA1_80)`
fails unless the two parts are 16 and 14 bytes long (`createCipher`); every caller passes
`srtpKeyLength` bytes.  (A key shorter than 16 bytes would panic in Go; no caller can do that.) -/
def initCtx (key mki : Bytes) (ssrcs startROCs : List Nat) : Option Ctx :=
  if (key.take Sec.masterKeySplit).length ≠ 16 then none
  else if (key.drop Sec.masterSaltSplit).length ≠ 14 then none
  else some (applyROCs { key, mki, ssrcs, startROCs } ssrcs startROCs)

/-- The cipher of the protection profile, abstract.  `W` / `WC` are the protected RTP / RTCP
packets as they appear on the wire.  `E key mki ssrc roc seq payload`; the SRTCP index travels
inside the protected packet, the SRTP index does not (the receiver estimates the ROC).
`raw` is what a receiver WITHOUT a context makes of a protected packet. -/
structure Cipher (W WC : Type) where
  E  : Bytes → Bytes → Nat → Nat → Nat → Bytes → W
  D  : Bytes → Bytes → Nat → Nat → Nat → W → Option Bytes
  Ec : Bytes → Bytes → Nat → Nat → Bytes → WC
  Dc : Bytes → Bytes → WC → Option Bytes
  raw  : W → Bytes
  rawc : WC → Bytes

/-- what travels: the clear RTP header fields SRTP needs, and the body. -/
inductive Body (W : Type) where
  | plain (b : Bytes)
  | prot (w : W)
deriving DecidableEq, Repr

structure Frame (W : Type) where
  ssrc : Nat
  seq : Nat
  body : Body W
deriving DecidableEq, Repr

/-- `Context.EncryptRTP` (through `wrappedSRTPContext.encryptRTP`): `none` = error
(`errExceededMaxPackets`). -/
def Ctx.encryptRTP {W WC} (ci : Cipher W WC) (c : Ctx) (ssrc seq : Nat) (payload : Bytes) : Option (Ctx × W) :=
  let s := c.state ssrc
  let (roc, diff, ovf) := nextRoc s seq
  -- `getSRTPSSRCState(ssrc, true)` inserts the fresh state before the overflow check
  if ovf then none
  else some ({ c with rtp := insert c.rtp ssrc (updateRoc s seq diff) }, ci.E c.key c.mki ssrc roc seq payload)

/-- `Context.DecryptRTP`: the state is stored only after the authentication succeeded. -/
def Ctx.decryptRTP {W WC} (ci : Cipher W WC) (c : Ctx) (ssrc seq : Nat) (w : W) : Option (Ctx × Bytes) :=
  let s := c.state ssrc
  let (roc, diff, _) := nextRoc s seq
  match ci.D c.key c.mki ssrc roc seq w with
  | none => none
  | some p => some ({ c with rtp := insert c.rtp ssrc (updateRoc s seq diff) }, p)

/-- `Context.EncryptRTCP`: the SRTCP index is incremented before use. -/
def Ctx.encryptRTCP {W WC} (ci : Cipher W WC) (c : Ctx) (ssrc : Nat) (payload : Bytes) : Option (Ctx × WC) :=
  let idx := (lookup c.rtcp ssrc).getD 0
  if idx ≥ Sec.maxSRTCPIndex then none
  else some ({ c with rtcp := insert c.rtcp ssrc (idx + 1) }, ci.Ec c.key c.mki ssrc (idx + 1) payload)

/-- `Context.DecryptRTCP` (no replay protection: the receiver keeps no index). -/
def Ctx.decryptRTCP {W WC} (ci : Cipher W WC) (c : Ctx) (w : WC) : Option Bytes := ci.Dc c.key c.mki w

/-! ## B. MIKEY ⇄ context -/

inductive Rej where
  | noT | ntp | noSP | encrAlg | encrKeyLen | authAlg | srtpEncr | srtcpEncr | srtpAuth
  | noKemac | keyCount | keySize | createCtx
deriving DecidableEq, Repr

/-- `mikeyGetPayload[*mikey.PayloadT]` etc.: the first payload of the type. -/
def getT : List Payload → Option (Nat × Nat)
  | [] => none
  | .t a b :: _ => some (a, b)
  | _ :: rest => getT rest

def getSP : List Payload → Option (List PolicyParam)
  | [] => none
  | .sp _ _ ps :: _ => some ps
  | _ :: rest => getSP rest

def getKemac : List Payload → Option (List KeyData)
  | [] => none
  | .kemac _ subs _ :: _ => some subs
  | _ :: rest => getKemac rest

/-- `mikeyGetSPPolicy`: value of the first parameter of the type. -/
def getPolicy : List PolicyParam → Nat → Option Bytes
  | [], _ => none
  | p :: rest, typ => if p.type = typ then some p.value else getPolicy rest typ

/-- `!ok || !bytes.Equal(v, []byte{x})` -/
def policyBad (ps : List PolicyParam) (typ x : Nat) : Bool :=
  match getPolicy ps typ with
  | some v => v != [UInt8.ofNat x]
  | none => true

def hourNs : Int := 3600000000000

/-- `mikeyToContext`; `now` is `time.Now()` in Unix nanoseconds. -/
def mikeyToContext (m : Message) (now : Int) : Except Rej Ctx :=
  match getT m.payloads with
  | none => .error .noT
  | some (_, ts) =>
    let diff := now - Rtsp.Ntp.decode ts
    if diff < -hourNs ∨ diff > hourNs then .error .ntp else
    match getSP m.payloads with
    | none => .error .noSP
    | some ps =>
      if policyBad ps Sec.ppEncrAlg Sec.reqEncrAlg then .error .encrAlg
      else if policyBad ps Sec.ppSessionEncrKeyLen Sec.reqSessionEncrKeyLen then .error .encrKeyLen
      else if policyBad ps Sec.ppAuthAlg Sec.reqAuthAlg then .error .authAlg
      else if policyBad ps Sec.ppSRTPEncrOffOn Sec.reqSRTPEncrOffOn then .error .srtpEncr
      else if policyBad ps Sec.ppSRTCPEncrOffOn Sec.reqSRTCPEncrOffOn then .error .srtcpEncr
      else if policyBad ps Sec.ppSRTPAuthOffOn Sec.reqSRTPAuthOffOn then .error .srtpAuth
      else match getKemac m.payloads with
        | none => .error .noKemac
        | some subs =>
          match subs with
          | [kd] =>
            if kd.keyData.length ≠ Sec.srtpKeyLength then .error .keySize
            else
              match initCtx kd.keyData kd.spi (m.header.csIdMapInfo.map (·.ssrc)) (m.header.csIdMapInfo.map (·.roc)) with
              | some c => .ok c
              | none => .error .createCtx
          | _ => .error .keyCount

/-- the security policy `contextToMikey` announces (key length 16, auth key length 20, tag length 10:
`ProtectionProfileAes128CmHmacSha1_80`). -/
def announcedPolicy : List PolicyParam :=
  [ ⟨Sec.ppEncrAlg, [1]⟩, ⟨Sec.ppSessionEncrKeyLen, [16]⟩, ⟨Sec.ppAuthAlg, [1]⟩,
    ⟨Sec.ppSessionAuthKeyLen, [20]⟩, ⟨Sec.ppSRTPEncrOffOn, [1]⟩, ⟨Sec.ppSRTCPEncrOffOn, [1]⟩,
    ⟨Sec.ppSRTPAuthOffOn, [1]⟩, ⟨Sec.ppAuthTagLen, [10]⟩ ]

/-- `contextToMikey`; the random CSB id, the random data and the NTP time stamp are inputs. -/
def contextToMikey (c : Ctx) (csbId : Nat) (rand : Bytes) (ts : Nat) : Message :=
  { header := { version := 1, csbId := csbId,
                csIdMapInfo := c.ssrcs.map fun s => { policyNo := 0, ssrc := s, roc := c.roc s } },
    payloads := [ .t 0 ts, .rand rand, .sp 0 0 announcedPolicy,
      .kemac 0 [{ type := Sec.keyTypeTEK, kv := if c.mki.length ≠ 0 then Sec.kvSPI else Sec.kvNull,
                  keyData := c.key, spi := c.mki }] 0 ] }

/-! ## C. admission -/

inductive Proto where | udp | tcp
deriving DecidableEq, Repr
inductive Profile where | avp | savp
deriving DecidableEq, Repr
inductive Mode where | play | record
deriving DecidableEq, Repr

/-- the fields of a `headers.Transport` that the SETUP logic reads -/
structure Transport where
  protocol : Proto
  multicast : Bool := false          -- Delivery != nil && *Delivery == multicast
  profile : Profile
  clientPorts : Bool := true         -- ClientPorts != nil
  interleaved : Option (Nat × Nat) := none
  mode : Option Mode := none
deriving DecidableEq, Repr

structure ServerCfg where
  tls : Bool                 -- s.TLSConfig != nil
  udp : Bool                 -- s.udpRTPListener != nil
  mcast : Bool               -- s.MulticastIPRange != ""
deriving DecidableEq, Repr

/-- `isSecure` -/
def isSecure (p : Profile) : Bool := if Sec.isSecureIsSAVP then p == .savp else false

/-- `isTransportSupported` (`tunnel`: `sc.tunnel != TunnelNone`).  The two profile rules are tied
to the source by the facts `ruleNoPlainUDPOverTLS` / `ruleNoSecureOverPlain`. -/
def isTransportSupported (cfg : ServerCfg) (tunnel : Bool) (tr : Transport) : Bool :=
  if tr.protocol == .udp &&
     ((!tr.multicast && !cfg.udp) || (tr.multicast && !cfg.mcast) || tunnel ||
      (Sec.ruleNoPlainUDPOverTLS && !isSecure tr.profile && cfg.tls)) then false
  else if Sec.ruleNoSecureOverPlain && isSecure tr.profile && !cfg.tls then false
  else true

/-- `pickFirstSupportedTransport` -/
def pickFirst (cfg : ServerCfg) (tunnel : Bool) : List Transport → Option Transport
  | [] => none
  | tr :: rest => if isTransportSupported cfg tunnel tr then some tr else pickFirst cfg tunnel rest

inductive SessProto where | udp | mcast | tcp
deriving DecidableEq, Repr

inductive SessState where | initial | prePlay | preRecord
deriving DecidableEq, Repr

/-- the KeyMgmt header of a SETUP request as the server sees it -/
inductive KeyMgmtIn where
  | bad                      -- absent or `KeyMgmt.Unmarshal` failed
  | msg (m : Message)
deriving Repr

structure SetupReq where
  transports : Option (List Transport)     -- `none`: the Transport header does not parse
  keyMgmt : KeyMgmtIn
  backChannel : Bool := false              -- the media addressed is a back channel
deriving Repr

/-- what SETUP stores in `serverSessionMedia` as far as C17 is concerned -/
structure SessMedia where
  protocol : SessProto
  profile : Profile
  srtpIn : Option Ctx
  srtpOut : Option Ctx
deriving Repr

inductive SetupRes where
  | status (code : Nat)
  | ok (sm : SessMedia)
deriving Repr

def sessProto (tr : Transport) : SessProto :=
  match tr.protocol with
  | .udp => if tr.multicast then .mcast else .udp
  | .tcp => .tcp

/-- `InterleavedIDs != nil` and (`ids[0]+1 != ids[1]` or the channel pair is in use) -/
def interleavedBad (chanInUse : Nat → Bool) : Option (Nat × Nat) → Bool
  | some (a, b) => a + 1 != b || chanInUse a
  | none => false

/-- The SETUP branch of `ServerSession.handleRequestInner` restricted to the decisions that
involve the transport and the key management (paths, media lookup and the handler are taken to
succeed).  `setupped` is `ss.setuppedTransport`; `streamCtx` is `stream.medias[medi].srtpOutCtx`;
`fresh` is the context built from `rand.Read` for a publisher / back channel. -/
def serverSetup (cfg : ServerCfg) (tunnel : Bool) (st : SessState) (setupped : Option (SessProto × Profile))
    (chanInUse : Nat → Bool) (streamCtx : Option Ctx) (fresh : Ctx) (now : Int) (req : SetupReq) : SetupRes :=
  match req.transports with
  | none => .status Sec.statusBadRequest
  | some ts =>
    match pickFirst cfg tunnel ts with
    | none => .status Sec.statusUnsupportedTransport
    | some tr =>
      let protocol := sessProto tr
      let inCtx : Except Unit (Option Ctx) :=
        if isSecure tr.profile then
          match req.keyMgmt with
          | .bad => .error ()
          | .msg m => match mikeyToContext m now with
            | .ok c => .ok (some c)
            | .error _ => .error ()
        else .ok none
      match inCtx with
      | .error _ => .status Sec.statusBadRequest
      | .ok srtpIn =>
        if setupped.isSome ∧ setupped ≠ some (protocol, tr.profile) then .status Sec.statusBadRequest
        else if protocol = .udp ∧ !tr.clientPorts then .status Sec.statusBadRequest
        else if protocol = .tcp ∧ interleavedBad chanInUse tr.interleaved then .status Sec.statusBadRequest
        else if st ≠ .preRecord ∧ (tr.mode.isSome ∧ tr.mode ≠ some .play) then .status Sec.statusBadRequest
        else if st = .preRecord ∧ protocol = .mcast then .status Sec.statusUnsupportedTransport
        else if st = .preRecord ∧ tr.mode ≠ some .record then .status Sec.statusBadRequest
        else
          let srtpOut : Option Ctx :=
            if isSecure tr.profile then
              (if st = .preRecord ∨ req.backChannel then some fresh else streamCtx)
            else none
          .ok { protocol, profile := tr.profile, srtpIn, srtpOut }

/-- `serverStreamMedia.initialize`: the stream owns an outgoing context iff the server has TLS. -/
def streamCtx (cfg : ServerCfg) (c : Ctx) : Option Ctx :=
  if Sec.streamCtxIffTLS then (if cfg.tls then some c else none) else none

inductive Scheme where | rtsp | rtsps
deriving DecidableEq, Repr

/-- protocol and profile the client puts into its first SETUP (`doSetup`, no previous SETUP):
`cfgProto` is `c.Protocol`, `h264m0` is `hasH264PacketizationMode0 && playing`. -/
def clientPick (scheme : Scheme) (cfgProto : Option SessProto) (mediaProfile : Profile)
    (h264m0 tunnel : Bool) : SessProto × Profile :=
  let protocol : SessProto :=
    match cfgProto with
    | some p => p
    | none =>
      if h264m0 then .tcp
      else if scheme = .rtsps ∧ !isSecure mediaProfile then .tcp
      else if tunnel then .tcp
      else .udp
  (protocol, if scheme = .rtsps ∧ isSecure mediaProfile then .savp else .avp)

inductive ClientSetup where
  | refused                       -- "unable to setup secure UDP" / H264 packetization mode 0 over UDP
  | request (p : SessProto) (pr : Profile) (withKeyMgmt : Bool)
deriving DecidableEq, Repr

/-- the request the client sends: UDP with a non-secure profile is refused on rtsps;
a KeyMgmt header (own key) accompanies exactly the secure profile. -/
def clientSetupRequest (scheme : Scheme) (cfgProto : Option SessProto) (mediaProfile : Profile)
    (h264m0 tunnel : Bool) : ClientSetup :=
  let (p, pr) := clientPick scheme cfgProto mediaProfile h264m0 tunnel
  if (p = .udp ∨ p = .mcast) ∧ Sec.clientNoPlainUDPOverTLS ∧ scheme = .rtsps ∧ !isSecure pr then .refused
  else if h264m0 ∧ p ≠ .tcp then .refused          -- ErrClientH264PacketizationMode0
  else .request p pr (isSecure pr)

/-- why the client abandons UDP for TCP inside a session (`Protocol == nil`): no UDP packet within
`InitialUDPReadTimeout` (`trySwitchingProtocol`), SETUP answered 461, SETUP answered with a TCP
transport. -/
inductive SwitchEv where
  | noUDP | status461 | answeredTCP
deriving DecidableEq, Repr

/-- `c.setuppedTransport` after a switch: TCP, and the PROFILE of the transport that is given up
(`Profile: prevProfile` / `Profile: th.Profile`; tied to the source by the facts
`switchCarriesProfile` = 3 sites and `switchPrevProfileFromTransport`). -/
def clientSwitch (prev : SessProto × Profile) (_ : SwitchEv) : SessProto × Profile :=
  (.tcp, if Sec.switchCarriesProfile = 3 ∧ Sec.switchPrevProfileFromTransport then prev.2 else .avp)

/-- a SETUP issued while `c.setuppedTransport != nil` (second media, or re-SETUP after a switch):
"use protocol and secure flag from previous SETUP calls" -/
def clientResetup (scheme : Scheme) (prev : SessProto × Profile) : ClientSetup :=
  let (p, pr) : SessProto × Profile := if Sec.setupReusesTransport then prev else (prev.1, .avp)
  if (p = .udp ∨ p = .mcast) ∧ Sec.clientNoPlainUDPOverTLS ∧ scheme = .rtsps ∧ !isSecure pr then .refused
  else .request p pr (isSecure pr)

/-- all SETUP requests of one media over the life of a session: the first one, then one per switch -/
def clientSetupsFrom (scheme : Scheme) (cur : SessProto × Profile) : List SwitchEv → List ClientSetup
  | [] => []
  | ev :: rest =>
    let next := clientSwitch cur ev
    clientResetup scheme next :: clientSetupsFrom scheme next rest

def clientSessionSetups (scheme : Scheme) (cfgProto : Option SessProto) (mediaProfile : Profile)
    (h264m0 tunnel : Bool) (evs : List SwitchEv) : List ClientSetup :=
  match clientSetupRequest scheme cfgProto mediaProfile h264m0 tunnel with
  | .refused => [.refused]
  | .request p pr km => .request p pr km :: clientSetupsFrom scheme (p, pr) evs

/-- the client's check of the SETUP response profile (`thRes.Profile != th.Profile`) -/
def clientAcceptsProfile (requested answered : Profile) : Bool :=
  if Sec.clientProfileCheck then requested == answered else true

/-- one redirect step of `doDescribe`: `some newScheme`, or `none` = refused -/
def redirectStep (cur : Scheme) (loc : Scheme) : Option Scheme :=
  if Sec.redirectCheck ∧ cur = .rtsps ∧ loc ≠ .rtsps then none else some loc

/-- a chain of redirects (`doDescribe` calls itself): the scheme reached, and after how many
accepted redirects it stopped (`refusedAt = some k`: the k-th Location was refused). -/
def followRedirects (cur : Scheme) : List Scheme → Scheme × Option Nat
  | [] => (cur, none)
  | loc :: rest =>
    match redirectStep cur loc with
    | none => (cur, some 0)
    | some s =>
      let (f, r) := followRedirects s rest
      (f, r.map (· + 1))

/-- where the client takes the key of its INCOMING context from after a successful secure SETUP
(`doSetup`): its own outgoing key and MKI when the server asked for client-managed keys (463 "Key
Management Failure" on the first attempt), else the first of: KeyMgmt header of the response,
key-mgmt attribute of the media, key-mgmt attribute of the session; none of them: SETUP fails. -/
inductive KeySource where
  | own | response | mediaSdp | sessionSdp | missing
deriving DecidableEq, Repr

def clientInKeySource (clientManaged inResponse inMedia inSession : Bool) : KeySource :=
  if clientManaged then .own
  else if Sec.keySourceResponseFirst then
    -- the KeyMgmt header of the SETUP response carries the ROC of SETUP time; the SDP attributes date
    -- from DESCRIBE and are a fallback only when the header is absent
    (if inResponse then .response
     else if inMedia then .mediaSdp
     else if inSession then .sessionSdp
     else .missing)
  else
    (if inMedia then .mediaSdp
     else if inResponse then .response
     else if inSession then .sessionSdp
     else .missing)

/-- the client's incoming context: `none` = SETUP returns an error -/
def clientInCtx (src : KeySource) (own : Ctx) (resp media sess : Option Message) (now : Int) : Option Ctx :=
  match src with
  | .own => initCtx own.key own.mki [] []
  | .response => resp.bind fun m => (mikeyToContext m now).toOption
  | .mediaSdp => media.bind fun m => (mikeyToContext m now).toOption
  | .sessionSdp => sess.bind fun m => (mikeyToContext m now).toOption
  | .missing => none

/-- `secure` of `doAnnounce` -/
def announceSecure (scheme : Scheme) (cfgProto : Option SessProto) (anyMediaSecure : Bool) : Bool :=
  if cfgProto = some .tcp ∧ scheme = .rtsps then anyMediaSecure else scheme = .rtsps

/-! ## D. media pipeline -/

structure Pkt where
  ssrc : Nat
  seq : Nat
  payload : Bytes
deriving DecidableEq, Repr

/-- `writePacketRTP` of `clientFormat` / `serverSessionFormat`: encrypt iff `srtpOutCtx != nil`.
`none` = the call returns an error and nothing is queued. -/
def writeRTP {W WC} (ci : Cipher W WC) (out : Option Ctx) (p : Pkt) : Option (Option Ctx × Frame W) :=
  match out with
  | none => some (none, { ssrc := p.ssrc, seq := p.seq, body := .plain p.payload })
  | some c =>
    match c.encryptRTP ci p.ssrc p.seq p.payload with
    | none => none
    | some (c', w) => some (some c', { ssrc := p.ssrc, seq := p.seq, body := .prot w })

/-- `serverStreamFormat.writePacketRTP`: one encryption with the stream's context, then each
reader gets `encr` iff ITS media has `srtpOutCtx != nil`, else `plain`. -/
def streamWriteRTP {W WC} (ci : Cipher W WC) (stream : Option Ctx) (readers : List SessMedia) (p : Pkt) :
    Option (Option Ctx × List (Frame W)) :=
  -- the encryption (and with it the sender's roll-over counter) does NOT depend on who is listening:
  -- fact `streamEncryptsEveryRTP`; a stream that encrypted only for an audience would be the `else` branch
  let plain : Frame W := { ssrc := p.ssrc, seq := p.seq, body := .plain p.payload }
  match (if Sec.streamEncryptsEveryRTP || readers.any (·.srtpOut.isSome) then writeRTP ci stream p else some (stream, plain)) with
  | none => none
  | some (stream', encr) =>
    some (stream', readers.map fun r => if r.srtpOut.isSome then encr else plain)

/-- the life of a stream: packets written one after the other, each to whatever reader population
is active at that moment; the result is the stream's outgoing context -/
def streamRun {W WC} (ci : Cipher W WC) (stream : Option Ctx) : List (List SessMedia × Pkt) → Option (Option Ctx)
  | [] => some stream
  | (rs, p) :: rest =>
    match streamWriteRTP ci stream rs p with
    | none => none
    | some (stream', _) => streamRun ci stream' rest

inductive ReadRes where
  | decodeError
  | deliver (payload : Bytes)
deriving DecidableEq, Repr

/-- receiving side of one format: `remoteSSRC` latch + `srtpInCtx` -/
structure RecvFmt where
  inCtx : Option Ctx
  remoteSSRC : Option Nat := none
deriving Repr

/-- the remote SSRC after a packet has been accepted: the first accepted packet decides -/
def latch (r : RecvFmt) (ssrc : Nat) : Option Nat :=
  match r.remoteSSRC with
  | some s => some s
  | none => some ssrc

/-- "received packet with wrong SSRC": only when a context is present and an SSRC is already known -/
def wrongSSRC (r : RecvFmt) (ssrc : Nat) : Bool :=
  match r.remoteSSRC with
  | some s => r.inCtx.isSome && ssrc != s
  | none => false

/-- `readPacketRTP` of `clientFormat` / `serverSessionFormat` with `decodeRTP`.  The remote SSRC is
stored only after the packet has been decoded (and authenticated when a context is present): since
the repair c215d27; before it the SSRC of the very first packet was stored unconditionally, so one
altered first packet made the receiver discard every genuine packet that followed. -/
def readRTP {W WC} (ci : Cipher W WC) (r : RecvFmt) (f : Frame W) : RecvFmt × ReadRes :=
  if wrongSSRC r f.ssrc then (r, .decodeError)
  else
    match r.inCtx, f.body with
    | none, .plain b => ({ r with remoteSSRC := latch r f.ssrc }, .deliver b)
    | none, .prot w => ({ r with remoteSSRC := latch r f.ssrc }, .deliver (ci.raw w))
    | some _, .plain _ => (r, .decodeError)
    | some c, .prot w =>
      match c.decryptRTP ci f.ssrc f.seq w with
      | none => (r, .decodeError)
      | some (c', p) => ({ inCtx := some c', remoteSSRC := latch r f.ssrc }, .deliver p)

inductive BodyC (WC : Type) where
  | plain (b : Bytes)
  | prot (w : WC)
deriving DecidableEq, Repr

/-- `writePacketRTCP` -/
def writeRTCP {W WC} (ci : Cipher W WC) (out : Option Ctx) (ssrc : Nat) (payload : Bytes) : Option (Option Ctx × BodyC WC) :=
  match out with
  | none => some (none, .plain payload)
  | some c =>
    match c.encryptRTCP ci ssrc payload with
    | none => none
    | some (c', w) => some (some c', .prot w)

/-- `serverStreamMedia.writePacketRTCP` (sender reports of the stream): one encryption with the
stream's context, then each reader gets `encr` iff ITS media has `srtpOutCtx != nil`, else `plain`. -/
def streamWriteRTCP {W WC} (ci : Cipher W WC) (stream : Option Ctx) (readers : List SessMedia) (ssrc : Nat) (payload : Bytes) :
    Option (Option Ctx × List (BodyC WC)) :=
  match (if Sec.streamEncryptsEveryRTCP || readers.any (·.srtpOut.isSome) then writeRTCP ci stream ssrc payload
         else some (stream, .plain payload)) with
  | none => none
  | some (stream', encr) =>
    some (stream', readers.map fun r => if r.srtpOut.isSome then encr else .plain payload)

/-- `decodeRTCP` -/
def readRTCP {W WC} (ci : Cipher W WC) (inCtx : Option Ctx) (b : BodyC WC) : ReadRes :=
  match inCtx, b with
  | none, .plain p => .deliver p
  | none, .prot w => .deliver (ci.rawc w)
  | some _, .plain _ => .decodeError
  | some c, .prot w => match c.decryptRTCP ci w with
    | some p => .deliver p
    | none => .decodeError

/-! ## E. one outgoing context shared by several goroutines

The outgoing context of a stream media is shared by all its RTP/SAVP readers (periodic sender reports
of every reader session, `ServerStream.WritePacketRTP/RTCP` from application goroutines).  A call to
`encryptRTCP` / `encryptRTP` touches the shared state of the pion context twice: it READS the counter
(SRTCP index / per-SSRC packet index, and the HMAC state) and later WRITES it back incremented while
emitting the packet built from the value it read.  Under `ctx.mutex.Lock()` the two accesses are one
step; under a read lock, or none, other goroutines can run between them. -/

/-- every call into the pion context that mutates it sits in an exclusive critical section
(facts regenerated from `wrapped_srtp_context.go`: `Lock`, not `RLock`, around `EncryptRTP` and
`EncryptRTCP`; `ROC` under a lock; no other call sites; `SetROC` only in `initialize`) -/
def encryptSerialised : Bool :=
  Sec.encryptRTPLocked && Sec.encryptRTCPLocked && Sec.rocLocked &&
  (Sec.encryptCallSites == 2) && (Sec.contextWriteCallSites == 1)

structure Shared where
  counter : Nat := 0
  pending : List (Nat × Nat) := []   -- goroutine ↦ counter value it has read (call in progress)
  emitted : List Nat := []           -- counter values used for emitted packets, in emission order
deriving Repr, DecidableEq

def erase {α} (m : List (Nat × α)) (k : Nat) : List (Nat × α) := m.filter fun kv => kv.1 != k

/-- one scheduling turn of goroutine `g` -/
def turn (atomic : Bool) (s : Shared) (g : Nat) : Shared :=
  if atomic then { s with counter := s.counter + 1, emitted := s.emitted ++ [s.counter + 1] }
  else
    match lookup s.pending g with
    | none => { s with pending := insert s.pending g s.counter }
    | some v => { counter := v + 1, pending := erase s.pending g, emitted := s.emitted ++ [v + 1] }

/-- a schedule: which goroutine runs at each turn -/
def runSched (atomic : Bool) (sched : List Nat) : Shared := sched.foldl (turn atomic) {}

/-! ## F. size limit of RTCP packets on a secure session -/

inductive RtcpSite where
  | stream | session | multicast | client
deriving DecidableEq, Repr

/-- the overhead each `writePacketRTCP` subtracts from `MaxPacketSize` when a context is present:
`srtcpOverhead` (index word + tag), read from the code site by site -/
def rtcpOverheadAt (site : RtcpSite) : Nat :=
  let ok := match site with
    | .stream => Sec.rtcpLimitStream
    | .session => Sec.rtcpLimitSession
    | .multicast => Sec.rtcpLimitMulticast
    | .client => Sec.rtcpLimitClient
  if ok then Sec.srtcpOverhead else Sec.srtpOverhead

/-- `writePacketRTCP`'s size test: `none` = "packet is too big", else the size of the protected packet
(pion: plain + 4-byte index + MKI + 10-byte tag).  Only the client's context can carry an MKI. -/
def rtcpWireSize (site : RtcpSite) (maxPacketSize mkiLen plainLen : Nat) : Option Nat :=
  let mki := if site = .client then mkiLen else 0
  -- Go: `len(plain) > maxPlainPacketSize` on signed ints
  if plainLen + (rtcpOverheadAt site + mki) > maxPacketSize then none
  else some (plainLen + 4 + mki + 10)

/-! ### the ideal cipher (an instance of the laws; used by the oracle executable) -/

structure IdealW where
  key : Bytes
  mki : Bytes
  ssrc : Nat
  roc : Nat
  seq : Nat
  payload : Bytes
  intact : Bool := true        -- `false`: altered in transit
deriving DecidableEq, Repr

structure IdealWC where
  key : Bytes
  mki : Bytes
  ssrc : Nat
  idx : Nat
  payload : Bytes
  intact : Bool := true
deriving DecidableEq, Repr

def ideal : Cipher IdealW IdealWC where
  E k m s r q p := { key := k, mki := m, ssrc := s, roc := r, seq := q, payload := p }
  D k m s r q w := if w.intact ∧ w.key = k ∧ w.mki = m ∧ w.ssrc = s ∧ w.roc = r ∧ w.seq = q then some w.payload else none
  Ec k m s i p := { key := k, mki := m, ssrc := s, idx := i, payload := p }
  Dc k m w := if w.intact ∧ w.key = k ∧ w.mki = m then some w.payload else none
  raw w := w.payload
  rawc w := w.payload

end Rtsp.Sec
