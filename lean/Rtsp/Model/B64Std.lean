/-
Go `encoding/base64.StdEncoding` (`EncodeToString`, `DecodeString`), core Lean only.

`DecodeString` (non-strict mode, padding required): carriage returns and line feeds are skipped
wherever they occur (between characters, between the two padding characters, after the padding);
what remains must be groups of four alphabet characters, the last group possibly `xx==` or `xxx=`;
anything else is an error.  Unused low bits of a padded group are not checked (Go's
`Encoding.strict` is off for `StdEncoding`).
-/
namespace Rtsp.B64Std

/-- alphabet character of a sextet `n < 64` -/
def encChar (n : Nat) : UInt8 :=
  if n < 26 then UInt8.ofNat (65 + n)
  else if n < 52 then UInt8.ofNat (71 + n)
  else if n < 62 then UInt8.ofNat (n - 4)
  else if n = 62 then 43
  else 47

/-- Go `decodeMap` of the standard alphabet (`none` = 0xff) -/
def decChar (c : UInt8) : Option Nat :=
  if 65 ≤ c ∧ c ≤ 90 then some (c.toNat - 65)
  else if 97 ≤ c ∧ c ≤ 122 then some (c.toNat - 71)
  else if 48 ≤ c ∧ c ≤ 57 then some (c.toNat + 4)
  else if c = 43 then some 62
  else if c = 47 then some 63
  else none

/-- the padding character `=` -/
def padc : UInt8 := 61

/-- `StdEncoding.EncodeToString` -/
def encode : List UInt8 → List UInt8
  | a :: b :: c :: rest =>
    let n := a.toNat * 65536 + b.toNat * 256 + c.toNat
    encChar (n / 262144) :: encChar (n / 4096 % 64) :: encChar (n / 64 % 64) :: encChar (n % 64) :: encode rest
  | [a, b] =>
    let n := a.toNat * 65536 + b.toNat * 256
    [encChar (n / 262144), encChar (n / 4096 % 64), encChar (n / 64 % 64), padc]
  | [a] =>
    let n := a.toNat * 65536
    [encChar (n / 262144), encChar (n / 4096 % 64), padc, padc]
  | [] => []

/-- decoding of the text that remains after CR / LF were dropped -/
def decodeClean : List UInt8 → Option (List UInt8)
  | [] => some []
  | a :: b :: c :: d :: rest =>
    if rest.isEmpty ∧ d = padc then
      if c = padc then
        match decChar a, decChar b with
        | some sa, some sb =>
          let m := sa * 262144 + sb * 4096
          some [UInt8.ofNat (m / 65536)]
        | _, _ => none
      else
        match decChar a, decChar b, decChar c with
        | some sa, some sb, some sc =>
          let m := sa * 262144 + sb * 4096 + sc * 64
          some [UInt8.ofNat (m / 65536), UInt8.ofNat (m / 256 % 256)]
        | _, _, _ => none
    else
      match decChar a, decChar b, decChar c, decChar d with
      | some sa, some sb, some sc, some sd =>
        let m := sa * 262144 + sb * 4096 + sc * 64 + sd
        match decodeClean rest with
        | some out => some (UInt8.ofNat (m / 65536) :: UInt8.ofNat (m / 256 % 256) :: UInt8.ofNat (m % 256) :: out)
        | none => none
      | _, _, _, _ => none
  | _ => none

/-- `StdEncoding.DecodeString` (`none` = error) -/
def decode (s : List UInt8) : Option (List UInt8) :=
  decodeClean (s.filter fun c => c != 10 && c != 13)

end Rtsp.B64Std
