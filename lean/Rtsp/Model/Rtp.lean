/-
RTP packet as the payload codecs see it (pion `rtp.Packet` restricted to the header fields
gortsplib's encoders set and its decoders read).  Core Lean only.
-/
namespace Rtsp.Rtp

abbrev Bytes := List UInt8

structure Pkt where
  pt      : UInt8  := 0
  seq     : UInt16 := 0
  ts      : UInt32 := 0
  ssrc    : UInt32 := 0
  marker  : Bool   := false
  payload : Bytes  := []
deriving DecidableEq, Repr, Inhabited

/-- result of one `Decode` call; `α` is the frame type of the codec -/
inductive DecRes (α : Type) where
  | ok (frame : α)
  | more          -- ErrMorePacketsNeeded
  | nonStart      -- ErrNonStartingPacketAndNoPrevious
  | err           -- any other error
deriving DecidableEq, Repr

/-- Encoder configuration shared by all packetisers. -/
structure EncCfg where
  pt   : UInt8
  ssrc : UInt32
  max  : Nat          -- PayloadMaxSize
deriving Repr, DecidableEq

/-- total payload bytes of a list of byte strings -/
def totalLen (xs : List Bytes) : Nat := (xs.map List.length).sum

end Rtsp.Rtp
