/-
A small model of Go byte slices, for the one decoder (rtpklv) that keeps a `[]byte` across calls
and hands it to its caller.  Core Lean only.

  * a `Store` is a list of backing arrays; an array is never moved or resized once allocated;
  * a `Slice` is (array id, offset, length, capacity) as in the Go runtime;
  * `append` writes in place when the capacity allows and otherwise allocates a new array whose
    capacity is chosen by an arbitrary growth policy (the Go runtime's policy is unspecified; the
    theorems quantify over all policies).
-/
namespace Rtsp.SliceSem

abbrev Bytes := List UInt8

structure Store where
  arrays : List Bytes := []
deriving Repr

structure Slice where
  arr : Nat := 0
  off : Nat := 0
  len : Nat := 0
  cap : Nat := 0      -- counted from `off`
deriving Repr, DecidableEq

/-- the `nil` slice -/
def Slice.nil : Slice := {}

/-- `s[:n]` (Go panics when `n > cap(s)`; callers stay within) -/
def Slice.upTo (s : Slice) (n : Nat) : Slice := { s with len := n }

/-- the bytes a slice denotes in a store -/
def Store.read (st : Store) (s : Slice) : Bytes := ((st.arrays.getD s.arr []).drop s.off).take s.len

/-- array `a` with `xs` written from position `pos` on -/
def writeAt (a : Bytes) (pos : Nat) (xs : Bytes) : Bytes := a.take pos ++ xs ++ a.drop (pos + xs.length)

def Store.write (st : Store) (id pos : Nat) (xs : Bytes) : Store :=
  { arrays := st.arrays.set id (writeAt (st.arrays.getD id []) pos xs) }

/-- Go `append(s, xs...)` under the growth policy `grow oldCap needed` -/
def Store.append (grow : Nat → Nat → Nat) (st : Store) (s : Slice) (xs : Bytes) : Store × Slice :=
  if xs.length = 0 then (st, s)
  else if s.len + xs.length ≤ s.cap then
    (st.write s.arr (s.off + s.len) xs, { s with len := s.len + xs.length })
  else
    let need := s.len + xs.length
    let newcap := max need (grow s.cap need)
    ({ arrays := st.arrays ++ [st.read s ++ xs ++ List.replicate (newcap - need) 0] },
     { arr := st.arrays.length, off := 0, len := need, cap := newcap })

/-- a slice is well formed in a store: its window lies inside an existing array (a slice without
capacity refers to nothing) -/
def Slice.WF (st : Store) (s : Slice) : Prop :=
  s.len ≤ s.cap ∧ (s.cap = 0 ∨ (s.arr < st.arrays.length ∧ s.off + s.cap ≤ (st.arrays.getD s.arr []).length))

end Rtsp.SliceSem
