import Rtsp.Generated.Facts.Hdr
/-
Model of /repo/pkg/mikey: `Message.Unmarshal` / `Message.Marshal` with header (CS-ID map),
payloads T, RAND, SP, KEMAC and the key-data sub-payload, at byte level.  Core Lean only.

Go walks the buffer with an index; the model consumes a `List UInt8` – `buf[n:]` is the remaining
list.  Every length check of the Go code appears as a length check here.  Integer fields are `Nat`
(bounded by their wire width after parsing); `Marshal` truncates like the Go conversions
(`byte(x)`, `uint8(len(..))`).
-/
namespace Rtsp.Mikey
open Rtsp.Facts

abbrev Bytes := List UInt8

def be16 (a b : UInt8) : Nat := a.toNat * 256 + b.toNat
def be32 (a b c d : UInt8) : Nat := a.toNat * 16777216 + b.toNat * 65536 + c.toNat * 256 + d.toNat
def put16 (n : Nat) : Bytes := [UInt8.ofNat (n / 256 % 256), UInt8.ofNat (n % 256)]
def put32 (n : Nat) : Bytes :=
  [UInt8.ofNat (n / 16777216 % 256), UInt8.ofNat (n / 65536 % 256), UInt8.ofNat (n / 256 % 256), UInt8.ofNat (n % 256)]

structure SrtpIdEntry where
  policyNo : Nat   -- uint8
  ssrc : Nat       -- uint32
  roc : Nat        -- uint32
deriving DecidableEq, Repr, Inhabited

structure Header where
  version : Nat := 1
  dataType : Nat := 0
  v : Bool := false
  prfFunc : Nat := 0
  csbId : Nat := 0
  csIdMapType : Nat := 0
  csIdMapInfo : List SrtpIdEntry := []
deriving DecidableEq, Repr, Inhabited

structure KeyData where
  type : Nat := 2     -- 4 bits
  kv : Nat := 0       -- 4 bits
  keyData : Bytes := []
  spi : Bytes := []
deriving DecidableEq, Repr, Inhabited

structure PolicyParam where
  type : Nat
  value : Bytes
deriving DecidableEq, Repr, Inhabited

inductive Payload
  | kemac (encrAlg : Nat) (subs : List KeyData) (macAlg : Nat)
  | t (tsType : Nat) (tsValue : Nat)
  | sp (policyNo : Nat) (protType : Nat) (params : List PolicyParam)
  | rand (data : Bytes)
deriving DecidableEq, Repr, Inhabited

structure Message where
  header : Header := {}
  payloads : List Payload := []
deriving DecidableEq, Repr, Inhabited

/-! ### unmarshal -/

/-- `numCS` entries of 9 bytes -/
def readEntries : Nat → Bytes → Option (List SrtpIdEntry × Bytes)
  | 0, buf => some ([], buf)
  | n + 1, p :: s0 :: s1 :: s2 :: s3 :: r0 :: r1 :: r2 :: r3 :: rest =>
    match readEntries n rest with
    | some (es, rest') => some ({ policyNo := p.toNat, ssrc := be32 s0 s1 s2 s3, roc := be32 r0 r1 r2 r3 } :: es, rest')
    | none => none
  | _ + 1, _ => none

/-- `Header.unmarshal`: the header, the first payload type, and `buf[n:]` -/
def Header.unmarshal (buf : Bytes) : Option (Header × Nat × Bytes) :=
  match buf with
  | ver :: dt :: next :: vprf :: c0 :: c1 :: c2 :: c3 :: numCS :: mapType :: rest =>
    if ver.toNat ≠ Hdr.mikeyVersion then none
    else if dt ≠ 0 then none
    else if vprf.toNat / 128 ≠ 0 then none
    else if vprf.toNat % 128 ≠ 0 then none
    else if mapType ≠ 0 then none
    else if rest.length < numCS.toNat * Hdr.csEntrySize then none
    else match readEntries numCS.toNat rest with
      | some (es, rest') =>
        some ({ version := 1, dataType := 0, v := false, prfFunc := 0, csbId := be32 c0 c1 c2 c3,
                csIdMapType := 0, csIdMapInfo := es }, next.toNat, rest')
      | none => none
  | _ => none

/-- `SubPayloadKeyData.unmarshal`: the sub-payload and the number of bytes it occupies -/
def KeyData.unmarshal (buf : Bytes) : Option (KeyData × Nat) :=
  match buf with
  | _next :: tk :: l0 :: l1 :: rest =>
    let type := tk.toNat / 16
    let kv := tk.toNat % 16
    if type ≠ Hdr.keyDataTypeTEK then none
    else if kv ≠ 0 ∧ kv ≠ Hdr.keyDataKVSPI then none
    else
      let n := be16 l0 l1
      if rest.length < n then none
      else if kv = Hdr.keyDataKVSPI then
        match rest.drop n with
        | sl :: rest' =>
          if rest'.length < sl.toNat then none
          else some ({ type, kv, keyData := rest.take n, spi := rest'.take sl.toNat }, 4 + n + 1 + sl.toNat)
        | [] => none
      else some ({ type, kv, keyData := rest.take n, spi := [] }, 4 + n)
  | _ => none

/-- the `for` loop of `PayloadKEMAC.unmarshal` over `encrData[sn:]`; fuel: every sub-payload
occupies at least 4 bytes. -/
def readSubs : Nat → Bytes → Option (List KeyData)
  | 0, _ => none
  | fuel + 1, data =>
    match KeyData.unmarshal data with
    | some (kd, len) =>
      match data with
      | next :: _ =>
        if next = 0 then (if data.length = len then some [kd] else none)   -- `sn != len(encrData)`
        else if next.toNat ≠ Hdr.payloadTypeKeyData then none
        else match readSubs fuel (data.drop len) with
          | some ks => some (kd :: ks)
          | none => none
      | [] => none
    | none => none

/-- the loop of `PayloadSP.unmarshal`; `left` is `end - n` (an `Int` in spirit: going below zero
is the "policy param overflowed" error). -/
def readParams : Nat → Nat → Bytes → Option (List PolicyParam × Bytes)
  | 0, _, _ => none
  | fuel + 1, left, buf =>
    if left = 0 then some ([], buf)
    else match buf with
      | typ :: vl :: rest =>
        if rest.length < vl.toNat then none
        else if left < 2 + vl.toNat then none      -- next iteration finds n > end
        else match readParams fuel (left - (2 + vl.toNat)) (rest.drop vl.toNat) with
          | some (ps, rest') => some ({ type := typ.toNat, value := rest.take vl.toNat } :: ps, rest')
          | none => none
      | _ => none

/-- `payload.unmarshal(buf[n:])` for the payload type `typ`: payload and remaining buffer -/
def Payload.unmarshal (typ : Nat) (buf : Bytes) : Option (Payload × Bytes) :=
  if typ = Hdr.payloadTypeKEMAC then
    match buf with
    | _next :: encr :: l0 :: l1 :: rest =>
      if encr ≠ 0 then none
      else
        let n := be16 l0 l1
        if rest.length < n + 1 then none
        else match readSubs (n + 1) (rest.take n) with
          | some subs =>
            match rest.drop n with
            | mac :: rest' => if mac ≠ 0 then none else some (.kemac 0 subs 0, rest')
            | [] => none
          | none => none
    | _ => none
  else if typ = Hdr.payloadTypeT then
    match buf with
    | _next :: tt :: b0 :: b1 :: b2 :: b3 :: b4 :: b5 :: b6 :: b7 :: rest =>
      if tt ≠ 0 then none
      else some (.t 0 (be32 b0 b1 b2 b3 * 4294967296 + be32 b4 b5 b6 b7), rest)
    | _ => none
  else if typ = Hdr.payloadTypeSP then
    match buf with
    | _next :: no :: prot :: l0 :: l1 :: rest =>
      if prot ≠ 0 then none
      else match readParams (be16 l0 l1 + 1) (be16 l0 l1) rest with
        | some (ps, rest') => some (.sp no.toNat 0 ps, rest')
        | none => none
    | _ => none
  else if typ = Hdr.payloadTypeRAND then
    match buf with
    | _next :: dl :: rest =>
      if dl.toNat < Hdr.randMinLen then none
      else if rest.length < dl.toNat then none
      else some (.rand (rest.take dl.toNat), rest.drop dl.toNat)
    | _ => none
  else none

/-- the payload loop of `Message.Unmarshal`; fuel: every payload occupies at least 2 bytes -/
def readPayloads : Nat → Nat → Bytes → Option (List Payload × Bytes)
  | _, 0, buf => some ([], buf)
  | 0, _ + 1, _ => none
  | fuel + 1, typ + 1, buf =>
    match Payload.unmarshal (typ + 1) buf with
    | some (p, rest) =>
      match buf with
      | next :: _ =>
        match readPayloads fuel next.toNat rest with
        | some (ps, rest') => some (p :: ps, rest')
        | none => none
      | [] => none
    | none => none

/-- `Message.Unmarshal` (`none` = error) -/
def Message.unmarshal (buf : Bytes) : Option Message :=
  match Header.unmarshal buf with
  | some (h, next, rest) =>
    match readPayloads (rest.length + 1) next rest with
    | some (ps, tail) =>
      -- one byte of padding is tolerated; more only when the first is zero
      match tail with
      | b :: _ :: _ => if b ≠ 0 then none else some { header := h, payloads := ps }
      | _ => some { header := h, payloads := ps }
    | none => none
  | none => none

/-! ### marshal -/

def Header.marshal (h : Header) (next : Nat) : Bytes :=
  [UInt8.ofNat h.version, UInt8.ofNat h.dataType, UInt8.ofNat next,
   UInt8.ofNat ((if h.v then 128 else 0) ||| (h.prfFunc % 256))] ++ put32 h.csbId ++
  [UInt8.ofNat h.csIdMapInfo.length, UInt8.ofNat h.csIdMapType] ++
  h.csIdMapInfo.flatMap fun e => UInt8.ofNat e.policyNo :: (put32 e.ssrc ++ put32 e.roc)

def KeyData.marshalSize (k : KeyData) : Nat := 4 + k.keyData.length + (if k.kv = Hdr.keyDataKVSPI then 1 + k.spi.length else 0)

/-- `SubPayloadKeyData.marshalTo` with the next-payload byte that the caller writes first -/
def KeyData.marshal (k : KeyData) (next : Nat) : Bytes :=
  [UInt8.ofNat next, UInt8.ofNat ((k.type % 256 * 16) % 256 ||| (k.kv % 256))] ++ put16 k.keyData.length ++ k.keyData ++
  (if k.kv = Hdr.keyDataKVSPI then UInt8.ofNat k.spi.length :: k.spi else [])

def marshalSubs : List KeyData → Bytes
  | [] => []
  | [k] => k.marshal 0
  | k :: k' :: ks => k.marshal Hdr.payloadTypeKeyData ++ marshalSubs (k' :: ks)

def Payload.typ : Payload → Nat
  | .kemac .. => Hdr.payloadTypeKEMAC
  | .t .. => Hdr.payloadTypeT
  | .sp .. => Hdr.payloadTypeSP
  | .rand .. => Hdr.payloadTypeRAND

def marshalParams (ps : List PolicyParam) : Bytes :=
  ps.flatMap fun p => UInt8.ofNat p.type :: UInt8.ofNat p.value.length :: p.value

def Payload.marshal (p : Payload) (next : Nat) : Bytes :=
  match p with
  | .kemac encr subs mac =>
    [UInt8.ofNat next, UInt8.ofNat encr] ++ put16 (subs.foldl (fun n k => n + k.marshalSize) 0) ++ marshalSubs subs ++ [UInt8.ofNat mac]
  | .t tt tv => [UInt8.ofNat next, UInt8.ofNat tt] ++ put32 (tv / 4294967296) ++ put32 (tv % 4294967296)
  | .sp no prot ps =>
    [UInt8.ofNat next, UInt8.ofNat no, UInt8.ofNat prot] ++ put16 ((marshalParams ps).length) ++ marshalParams ps
  | .rand d => [UInt8.ofNat next, UInt8.ofNat d.length] ++ d

def marshalPayloads : List Payload → Bytes
  | [] => []
  | [p] => p.marshal 0
  | p :: q :: ps => p.marshal q.typ ++ marshalPayloads (q :: ps)

/-- `Message.Marshal` (the Go function never returns an error) -/
def Message.marshal (m : Message) : Bytes :=
  m.header.marshal (match m.payloads with | p :: _ => p.typ | [] => 0) ++ marshalPayloads m.payloads

end Rtsp.Mikey
