import Rtsp.Generated.Facts.Frame
/-
Model of RTSP framing: /repo/pkg/base/{utils,header,body,request,response,interleaved_frame}.go and
the dispatch of /repo/pkg/conn/conn.go (`Conn.Read`).

Conventions (DESIGN.md §3, §5 C04):
* Go strings / byte slices are `List UInt8` (`Bytes`).
* A Go function that reads from a `*bufio.Reader` becomes a function on the **whole remaining byte
  list** returning `PR α`:
    `ok a rest`   – value and the bytes that follow it,
    `more hard`   – the bytes available so far do not decide the result; the real code is blocked in
                    `Peek` / `ReadByte` / `io.ReadFull` (or, when the stream has ended, returns an
                    error: `io.EOF` / `io.ErrUnexpectedEOF` when `hard = false`, a different error
                    when `hard = true` — `Header.unmarshal` replaces the error of the key read by
                    "value is missing"),
    `err`         – the real code returns a non-EOF error.
* URLs are opaque: `net/url` is a parameter `up : Bytes → Option Bytes` (raw token ↦ `String()` of
  the parsed URL, `none` when `base.ParseURL` fails).  The harness supplies the table from the real
  `base.ParseURL`.
* `map[string]HeaderValue` is an association list in insertion order (keys distinct by
  construction of `hinsert`); `Marshal` sorts the keys like `sort.Strings`.

Core Lean only (linked into `oracle_frame`).  Numeric limits come from `Generated/Facts/Frame.lean`.
-/
namespace Rtsp.Frame
open Rtsp.Facts.Frame

abbrev Bytes := List UInt8

/-- ASCII string literal → bytes (only used with ASCII literals). -/
def str (s : String) : Bytes := s.toList.map (fun c => c.toNat.toUInt8)

def SP : UInt8 := 32
def CR : UInt8 := 13
def LF : UInt8 := 10
def COLON : UInt8 := 58
def MAGIC : UInt8 := 36   -- '$', base.InterleavedFrameMagicByte

/-- Result of reading from the remaining byte list. -/
inductive PR (α : Type) where
  | ok (a : α) (rest : Bytes)
  | more (hard : Bool)
  | err
deriving Repr, DecidableEq

/-- sequencing: continue on the rest after a value, propagate `more` / `err` -/
@[inline] def PR.bind {α β : Type} (x : PR α) (f : α → Bytes → PR β) : PR β :=
  match x with
  | .ok a r => f a r
  | .more h => .more h
  | .err => .err

/-! ## pkg/base/utils.go -/

/-- `bufio.Reader.ReadByte` -/
def readByte : Bytes → PR UInt8
  | [] => .more false
  | b :: r => .ok b r

/-- `readByteEqual` -/
def readByteEqual (c : UInt8) : Bytes → PR Unit
  | [] => .more false
  | b :: r => if b = c then .ok () r else .err

/-- `readBytesLimited(rb, delim, n)`: `for i := 1; i <= n; i++ { Peek(i) … }`.
Returns the token **without** the delimiter (every caller strips it). -/
def readLim (delim : UInt8) : Nat → Bytes → PR Bytes
  | 0, _ => .err
  | _ + 1, [] => .more false
  | n + 1, b :: r =>
    if b = delim then .ok [] r
    else match readLim delim n r with
      | .ok t r' => .ok (b :: t) r'
      | .more h => .more h
      | .err => .err

/-- `readBytesLimitedUntilSpaceOrCarriage`: token without the delimiter, and the delimiter. -/
def readLimSC : Nat → Bytes → PR (Bytes × UInt8)
  | 0, _ => .err
  | _ + 1, [] => .more false
  | n + 1, b :: r =>
    if b = SP ∨ b = CR then .ok ([], b) r
    else match readLimSC n r with
      | .ok (t, d) r' => .ok (b :: t, d) r'
      | .more h => .more h
      | .err => .err

/-- `io.ReadFull(rb, make([]byte, n))` -/
def readFull (n : Nat) (bs : Bytes) : PR Bytes :=
  if n ≤ bs.length then .ok (bs.take n) (bs.drop n) else .more false

/-! ## decimal numbers (`strconv.ParseUint(s, 10, _)`, `strconv.FormatInt(_, 10)`) -/

def isDigit (c : UInt8) : Bool := 48 ≤ c && c ≤ 57

def digitsVal : Nat → Bytes → Nat
  | acc, [] => acc
  | acc, c :: r => digitsVal (acc * 10 + (c.toNat - 48)) r

/-- `strconv.ParseUint(s, 10, bits)`: non-empty, decimal digits only (no sign, no underscore),
value below `2^bits`. -/
def parseUint (bits : Nat) (s : Bytes) : Option Nat :=
  if s = [] ∨ !s.all isDigit then none
  else
    let v := digitsVal 0 s
    if v < 2 ^ bits then some v else none

/-- least significant digit first; `fuel` ≥ number of digits -/
def decRev : Nat → Nat → Bytes
  | 0, _ => []
  | f + 1, n => (48 + n % 10).toUInt8 :: (if n / 10 = 0 then [] else decRev f (n / 10))

/-- `strconv.FormatInt(int64(n), 10)` for `n ≥ 0` -/
def toDec (n : Nat) : Bytes := (decRev (n + 1) n).reverse

/-! ## pkg/base/header.go -/

abbrev Header := List (Bytes × List Bytes)

def isUpper (c : UInt8) : Bool := 65 ≤ c && c ≤ 90
def isLower (c : UInt8) : Bool := 97 ≤ c && c ≤ 122

/-- `textproto.validHeaderFieldByte` (RFC 7230 token characters) -/
def isTokenByte (c : UInt8) : Bool :=
  isDigit c || isLower c || isUpper c ||
  c = 33 || c = 35 || c = 36 || c = 37 || c = 38 || c = 39 || c = 42 || c = 43 || c = 45 ||
  c = 46 || c = 94 || c = 95 || c = 96 || c = 124 || c = 126

/-- the canonicalisation loop of `textproto.canonicalMIMEHeaderKey` -/
def canonLoop : Bool → Bytes → Bytes
  | _, [] => []
  | upper, c :: r =>
    let c' := if upper && isLower c then c - 32 else if !upper && isUpper c then c + 32 else c
    c' :: canonLoop (c' = 45) r

/-- `http.CanonicalHeaderKey`: keys containing a byte that is not a token character (this includes
the space) are returned unchanged. -/
def canonicalHeaderKey (k : Bytes) : Bytes :=
  if k.all isTokenByte then canonLoop true k else k

/-- `strings.ToLower` as far as a comparison with an ASCII literal can tell: ASCII upper case is
lowered; the only two non-ASCII runes whose `unicode.ToLower` is ASCII are U+212A KELVIN SIGN
(`E2 84 AA` → `k`) and U+0130 (`C4 B0` → `i`); every other byte ≥ 0x80 stays ≥ 0x80. -/
def lowerAux : Nat → Bytes → Bytes
  | _, [] => []
  | skip + 1, _ :: r => lowerAux skip r
  | 0, c :: r =>
    if c = 0xE2 ∧ r.take 2 = [0x84, 0xAA] then 107 :: lowerAux 2 r
    else if c = 0xC4 ∧ r.take 1 = [0xB0] then 105 :: lowerAux 1 r
    else (if isUpper c then c + 32 else c) :: lowerAux 0 r

def lowerCmp (k : Bytes) : Bytes := lowerAux 0 k

def kRtpInfo : Bytes := str "RTP-Info"
def kWWWAuth : Bytes := str "WWW-Authenticate"
def kCSeq : Bytes := str "CSeq"
def kKeyMgmt : Bytes := str "KeyMgmt"
def kContentLength : Bytes := str "Content-Length"

/-- `headerKeyNormalize` -/
def headerKeyNormalize (k : Bytes) : Bytes :=
  let l := lowerCmp k
  if l = str "rtp-info" then kRtpInfo
  else if l = str "www-authenticate" then kWWWAuth
  else if l = str "cseq" then kCSeq
  else if l = str "keymgmt" then kKeyMgmt
  else canonicalHeaderKey k

def hlookup : Header → Bytes → Option (List Bytes)
  | [], _ => none
  | (k', vs) :: r, k => if k' = k then some vs else hlookup r k

/-- `(*h)[key] = append((*h)[key], val)` -/
def hinsert : Header → Bytes → Bytes → Header
  | [], k, v => [(k, [v])]
  | (k', vs) :: r, k, v => if k' = k then (k', vs ++ [v]) :: r else (k', vs) :: hinsert r k v

/-- the `for { ReadByte; if byt != ' ' break }; UnreadByte` loop -/
def skipSpaces : Bytes → PR Unit
  | [] => .more false
  | b :: r => if b = SP then skipSpaces r else .ok () (b :: r)

/-- the error of the key read is replaced by "value is missing" (never an EOF error) -/
def hardenKey {α : Type} : PR α → PR α
  | .more _ => .more true
  | x => x

/-- `Header.unmarshal`; `fuel = headerMaxEntryCount - count`. -/
def parseHeaders : Nat → Header → Bytes → PR Header
  | _, _, [] => .more false
  | fuel, acc, b :: bs =>
    if b = CR then
      (readByteEqual LF bs).bind fun _ bs => .ok acc bs
    else match fuel with
      | 0 => .err
      | fuel + 1 =>
        (hardenKey (readLim COLON headerKeyReadLimit bs)).bind fun t bs =>
        let key := headerKeyNormalize (b :: t)
        (skipSpaces bs).bind fun _ bs =>
        (readLim CR headerValueReadLimit bs).bind fun val bs =>
        (readByteEqual LF bs).bind fun _ bs =>
        parseHeaders fuel (hinsert acc key val) bs

/-! ## pkg/base/body.go -/

/-- `body.unmarshal`: nil and empty bodies are identified. -/
def parseBody (h : Header) (bs : Bytes) : PR Bytes :=
  match hlookup h kContentLength with
  | some [v] =>
    match parseUint 64 v with
    | none => .err
    | some cl => if cl > rtspMaxBodySize then .err else readFull cl bs
  | _ => .ok [] bs

/-! ## pkg/base/request.go -/

def rtsp10 : Bytes := str "RTSP/1.0"
def star : Bytes := str "*"

structure Request where
  method : Bytes
  url    : Option Bytes        -- `none` = `*` (Go: `URL == nil`)
  header : Header
  body   : Bytes
deriving Repr, DecidableEq

/-- `Request.Unmarshal` -/
def parseRequest (up : Bytes → Option Bytes) (bs : Bytes) : PR Request :=
  (readLim SP requestMaxMethodLength bs).bind fun method bs =>
  if method = [] then .err else
  (readLim SP requestMaxURLLength bs).bind fun rawURL bs =>
  match (if rawURL = star then some none else (up rawURL).map some) with
  | none => .err
  | some url =>
    (readLim CR requestMaxProtocolLength bs).bind fun proto bs =>
    if proto ≠ rtsp10 then .err else
    (readByteEqual LF bs).bind fun _ bs =>
    (parseHeaders headerMaxEntryCount [] bs).bind fun h bs =>
    (parseBody h bs).bind fun body bs =>
    .ok { method, url, header := h, body } bs

/-! ## pkg/base/response.go -/

structure Response where
  code   : Nat
  msg    : Bytes
  header : Header
  body   : Bytes
deriving Repr, DecidableEq

/-- `Response.Unmarshal` -/
def parseResponse (bs : Bytes) : PR Response :=
  (readLim SP responseMaxProtocolLength bs).bind fun proto bs =>
  if proto ≠ rtsp10 then .err else
  (readLimSC responseMaxStatusCodeLength bs).bind fun (codeStr, delim) bs =>
  match parseUint responseStatusCodeBits codeStr with
  | none => .err
  | some code =>
    (if delim = SP then readLim CR responseMaxStatusMessageLength bs else .ok [] bs).bind fun msg bs =>
    (readByteEqual LF bs).bind fun _ bs =>
    (parseHeaders headerMaxEntryCount [] bs).bind fun h bs =>
    (parseBody h bs).bind fun body bs =>
    .ok { code, msg, header := h, body } bs

/-! ## pkg/base/interleaved_frame.go -/

structure IFrame where
  channel : Nat
  payload : Bytes
deriving Repr, DecidableEq

/-- `InterleavedFrame.Unmarshal` -/
def parseFrame (bs : Bytes) : PR IFrame :=
  (readFull 4 bs).bind fun hd bs =>
  match hd with
  | [m, ch, l1, l0] =>
    if m ≠ MAGIC then .err else
    (readFull (l1.toNat * 256 + l0.toNat) bs).bind fun payload bs =>
    .ok { channel := ch.toNat, payload } bs
  | _ => .err

/-! ## pkg/conn/conn.go -/

inductive Elem where
  | req (r : Request)
  | res (r : Response)
  | frame (f : IFrame)
deriving Repr, DecidableEq

/-- the nine two-letter prefixes that `Conn.Read` routes to `ReadRequest` -/
def isReqPrefix (a b : UInt8) : Bool :=
  (a = 65 && b = 78) ||   -- AN
  (a = 68 && b = 69) ||   -- DE
  (a = 71 && b = 69) ||   -- GE
  (a = 79 && b = 80) ||   -- OP
  (a = 80 && b = 65) ||   -- PA
  (a = 80 && b = 76) ||   -- PL
  (a = 82 && b = 69) ||   -- RE
  (a = 83 && b = 69) ||   -- SE
  (a = 84 && b = 69)      -- TE

/-- `Conn.Read`: `Peek(2)`; `$` → interleaved frame, `RT` → response, a request prefix → request,
anything else: `Discard(1)` and try again. -/
def readElem (up : Bytes → Option Bytes) : Bytes → PR Elem
  | [] => .more false
  | b0 :: t =>
    match t with
    | [] => .more false
    | b1 :: _ =>
      if b0 = MAGIC then (parseFrame (b0 :: t)).bind fun f r => .ok (.frame f) r
      else if b0 = 82 ∧ b1 = 84 then (parseResponse (b0 :: t)).bind fun x r => .ok (.res x) r
      else if isReqPrefix b0 b1 then (parseRequest up (b0 :: t)).bind fun x r => .ok (.req x) r
      else readElem up t

/-! ## serialisers -/

/-- byte-wise lexicographic `<` (Go string comparison, used by `sort.Strings`) -/
def bytesLt : Bytes → Bytes → Bool
  | _, [] => false
  | [], _ :: _ => true
  | a :: r, b :: s => a < b || (a = b && bytesLt r s)

def insertSorted (e : Bytes × List Bytes) : Header → Header
  | [] => [e]
  | x :: r => if bytesLt e.1 x.1 then e :: x :: r else x :: insertSorted e r

/-- `sort.Strings(keys)` (keys of a map are distinct) -/
def sortKeys : Header → Header
  | [] => []
  | e :: r => insertSorted e (sortKeys r)

def crlf : Bytes := [CR, LF]

def marshalEntry (e : Bytes × List Bytes) : Bytes :=
  e.2.flatMap fun v => e.1 ++ [COLON, SP] ++ v ++ crlf

/-- `Header.marshal` -/
def marshalHeader (h : Header) : Bytes :=
  (sortKeys h).flatMap marshalEntry ++ crlf

/-- `h[k] = vs` on a map -/
def hset : Header → Bytes → List Bytes → Header
  | [], k, vs => [(k, vs)]
  | (k', vs') :: r, k, vs => if k' = k then (k, vs) :: r else (k', vs') :: hset r k vs

/-- `if len(Body) != 0 { Header["Content-Length"] = … }` -/
def withContentLength (h : Header) (body : Bytes) : Header :=
  if body = [] then h else hset h kContentLength [toDec body.length]

/-- `Request.Marshal` (the URL is already in `String()` form without credentials) -/
def marshalRequest (r : Request) : Bytes :=
  r.method ++ [SP] ++ r.url.getD star ++ [SP] ++ rtsp10 ++ crlf ++
    marshalHeader (withContentLength r.header r.body) ++ r.body

/-- `statusMessages` -/
def statusMessages : List (Nat × Bytes) := [
  (100, str "Continue"),
  (200, str "OK"),
  (301, str "Moved Permanently"),
  (302, str "Found"),
  (303, str "See Other"),
  (304, str "Not Modified"),
  (305, str "Use Proxy"),
  (400, str "Bad Request"),
  (401, str "Unauthorized"),
  (402, str "Payment Required"),
  (403, str "Forbidden"),
  (404, str "Not Found"),
  (405, str "Method Not Allowed"),
  (406, str "Not Acceptable"),
  (407, str "Proxy Auth Required"),
  (408, str "Request Timeout"),
  (410, str "Gone"),
  (412, str "Precondition Failed"),
  (413, str "Request Entity Too Large"),
  (414, str "Request URI Too Long"),
  (415, str "Unsupported Media Type"),
  (451, str "Parameter Not Understood"),
  (453, str "Not Enough Bandwidth"),
  (454, str "Session Not Found"),
  (455, str "Method Not Valid In This State"),
  (456, str "Header Field Not Valid for Resource"),
  (457, str "Invalid Range"),
  (458, str "Parameter Is Read-Only"),
  (459, str "Aggregate Operation Not Allowed"),
  (460, str "Only Aggregate Operation Allowed"),
  (461, str "Unsupported Transport"),
  (462, str "Destination Unreachable"),
  (463, str "Destination Prohibited"),
  (464, str "Data Transport Not Ready Yet"),
  (465, str "Notification Reason Unknown"),
  (466, str "Key Management Error"),
  (470, str "Connection Authorization Required"),
  (471, str "Connection Credentials Not Accepted"),
  (472, str "Failure to Establish Secure Connection"),
  (500, str "Internal Server Error"),
  (501, str "Not Implemented"),
  (502, str "Bad Gateway"),
  (503, str "Service Unavailable"),
  (504, str "Gateway Timeout"),
  (505, str "RTSP Version Not Supported"),
  (551, str "Option Not Supported"),
  (553, str "Proxy Unavailable")]

def defaultStatusMessage (code : Nat) : Option Bytes :=
  (statusMessages.find? (·.1 = code)).map (·.2)

/-- the message `Response.Marshal` writes -/
def effectiveMessage (r : Response) : Bytes :=
  if r.msg = [] then (defaultStatusMessage r.code).getD [] else r.msg

/-- `Response.Marshal` (status code ≥ 0) -/
def marshalResponse (r : Response) : Bytes :=
  rtsp10 ++ [SP] ++ toDec r.code ++ [SP] ++ effectiveMessage r ++ crlf ++
    marshalHeader (withContentLength r.header r.body) ++ r.body

/-- `InterleavedFrame.Marshal`: `byte(f.Channel)`, `byte(payloadLen >> 8)`, `byte(payloadLen)` -/
def marshalFrame (f : IFrame) : Bytes :=
  [MAGIC, f.channel.toUInt8, (f.payload.length / 256).toUInt8, f.payload.length.toUInt8] ++ f.payload

def marshalElem : Elem → Bytes
  | .req r => marshalRequest r
  | .res r => marshalResponse r
  | .frame f => marshalFrame f

/-- a sequence of `Conn.Write*` calls -/
def serializeAll (es : List Elem) : Bytes := es.flatMap marshalElem

end Rtsp.Frame
