import Rtsp.Generated.Facts.Sess
/-
Timer arithmetic of server sessions (property C02, timing clauses).  Times are nanoseconds (Nat).

  server_session.go runInner   Session header: timeout = max(int(IdleTimeout/time.Second) - 5, 1)
  client.go do()               keepAlivePeriod = max(timeout*Second - 5*Second, 1*Second)   (timeout > 0)
  server_session.go runInner   udpCheckStreamTimer: every checkStreamPeriod
                                 RECORD: now - Unix(udpLastPacketTime) >= ReadTimeout            → timed out
                                 PLAY:   now - lastRequestTime >= IdleTimeout
                                         && now - Unix(udpLastPacketTime) >= IdleTimeout         → timed out
  server_session_media.go      every UDP packet: udpLastPacketTime = now.UnixNano()
  server_session.go            every request: lastRequestTime = now; PLAY/RECORD: udpLastPacketTime = now.UnixNano()
                               (whole seconds before fix a905e5a: a live publisher was timed out with ReadTimeout = 1 s)

Core Lean only.
-/
namespace Rtsp.Sess.Timer
open Rtsp.Facts

def sec : Nat := 1000000000

/-- `timeout=` of the Session header, in seconds (Go: `int` arithmetic, `max(…, 1)` absorbs negatives
exactly like the truncated subtraction here). -/
def advertised (idle : Nat) : Nat := max (idle / sec - Sess.advertisedSub) Sess.advertisedMin

/-- the client's keep-alive period (ns) for an advertised timeout (s); applied when `timeout > 0`. -/
def keepAlive (timeoutSec : Nat) : Nat := max (timeoutSec * sec - Sess.keepAliveSub) Sess.keepAliveMin

/-- keep-alive period of a gortsplib client talking to a gortsplib server with this IdleTimeout. -/
def clientPeriod (idle : Nat) : Nat := keepAlive (advertised idle)

structure Cfg where
  idle : Nat
  read : Nat
  deriving Repr

/-- What the server remembers. -/
structure State where
  lastReq : Nat
  lastPkt : Nat
  expired : Bool := false
  deriving Repr, DecidableEq

inductive Ev
  /-- an RTSP request (keep-alive) handled at time `now` -/
  | request (now : Nat)
  /-- an RTP / RTCP packet read from the UDP listeners at time `now` -/
  | packet (now : Nat)
  /-- the stream check timer fires at time `now` -/
  | tick (now : Nat)
  /-- after a PAUSE the session is resumed (PLAY / RECORD again) at time `now`: both clocks start anew
  (`lastRequestTime = now`, `udpLastPacketTime.Store(now)`; no check runs while the session is paused) -/
  | restart (now : Nat)
  deriving Repr, DecidableEq

/-- state right after PLAY / RECORD succeeded at time `t0` -/
def start (t0 : Nat) : State := { lastReq := t0, lastPkt := t0 }

/-- the test of the `udpCheckStreamTimer` case -/
def expires (cfg : Cfg) (recording : Bool) (s : State) (now : Nat) : Bool :=
  if recording then decide (now - s.lastPkt ≥ cfg.read)
  else decide (now - s.lastReq ≥ cfg.idle) && decide (now - s.lastPkt ≥ cfg.idle)

def step (cfg : Cfg) (recording : Bool) (s : State) : Ev → State
  | .request now => if s.expired then s else { s with lastReq := now }
  | .packet now => if s.expired then s else { s with lastPkt := now }
  | .tick now => if s.expired then s else { s with expired := expires cfg recording s now }
  | .restart now => if s.expired then s else { s with lastReq := now, lastPkt := now }

def run (cfg : Cfg) (recording : Bool) : State → List Ev → State
  | s, [] => s
  | s, e :: es => run cfg recording (step cfg recording s e) es

/-- time of the first tick that finds the session timed out -/
def expiryTime (cfg : Cfg) (recording : Bool) : State → List Ev → Option Nat
  | _, [] => none
  | s, .tick now :: es =>
    if expires cfg recording s now then some now else expiryTime cfg recording s es
  | s, e :: es => expiryTime cfg recording (step cfg recording s e) es

end Rtsp.Sess.Timer
