import Rtsp.Model.Frame
/-
Reading a connection: the element sequence `Conn.Read` returns when it is called until it fails.

`drain` parses as many complete elements as the available bytes decide.  `readAll` is the chunked
reader: the stream arrives as a list of chunks (the results of the successive `Read` calls of the
underlying `io.Reader`); whenever the parser says `more`, the next chunk is appended to the
unconsumed bytes and parsing of the pending element is tried again.

Relation to the real code (trusted base): the real parser runs on a `bufio.Reader` with blocking
reads.  `more` corresponds to a blocked `Peek`/`ReadByte`/`io.ReadFull`; the real code does not
restart the element, it continues where it blocked.  Both views give the same result because the
outcome of every read operation of `bufio.Reader` depends only on the concatenation of the bytes
delivered so far (that is `chunk_independent`, proved from the monotonicity of the parser).
-/
namespace Rtsp.Frame

/-- why reading stopped -/
inductive Stop where
  | more (hard : Bool) (buf : Bytes)   -- the pending bytes do not decide the next element
  | err                                -- `Conn.Read` returned a non-EOF error
deriving Repr, DecidableEq

/-- parse complete elements while the bytes decide them (`fuel` ≥ `bs.length` is enough: every
element consumes at least one byte) -/
def drain (up : Bytes → Option Bytes) : Nat → Bytes → List Elem × Stop
  | 0, bs => ([], .more false bs)
  | f + 1, bs =>
    match readElem up bs with
    | .ok e rest => let r := drain up f rest; (e :: r.1, r.2)
    | .more h => ([], .more h bs)
    | .err => ([], .err)

/-- how a finished stream ends -/
inductive End where
  | eof      -- io.EOF / io.ErrUnexpectedEOF from the underlying reader (clean end or truncated element)
  | err      -- any other error
deriving Repr, DecidableEq

def Stop.atEnd : Stop → End
  | .more false _ => .eof
  | .more true _ => .err
  | .err => .err

/-- the chunked reader: `buf` = bytes received and not yet consumed -/
def readAll (up : Bytes → Option Bytes) : Bytes → List Bytes → List Elem × End
  | buf, [] =>
    let r := drain up buf.length buf
    (r.1, r.2.atEnd)
  | buf, c :: cs =>
    let r := drain up (buf ++ c).length (buf ++ c)
    match r.2 with
    | .more _ buf' => let t := readAll up buf' cs; (r.1 ++ t.1, t.2)
    | .err => (r.1, .err)

/-- reading the whole stream delivered at once -/
def parseAll (up : Bytes → Option Bytes) (bs : Bytes) : List Elem × End :=
  readAll up [] [bs]

/-- split a byte string into chunks of the given sizes (the remainder is the last chunk) -/
def splitSizes : List Nat → Bytes → List Bytes
  | [], bs => if bs = [] then [] else [bs]
  | n :: ns, bs => if bs = [] then [] else bs.take n :: splitSizes ns (bs.drop n)

end Rtsp.Frame
