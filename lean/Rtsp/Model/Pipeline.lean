import Rtsp.Model.Receiver
import Rtsp.Generated.Facts.Pipe
/-
Model of gortsplib's media path from a stream writer to the readers' callbacks (C01):

  ServerStream.WritePacketRTP            server_stream.go, server_stream_format.go (writePacketRTP)
    → SSRC := the format's local SSRC (the one announced in SETUP), one marshal per packet
    → fan-out to every session in `activeUnicastReaders` that set the media up
    → serverSessionFormat.writePacketRTPEncoded: `writer == nil` → swallowed silently (PAUSE in
      progress), else `writer.Push` into the session's bounded FIFO (asyncprocessor + ringbuffer,
      capacity `Server.WriteQueueSize`); a refused push is `ErrServerWriteQueueFull`, handed to
      `ServerHandlerOnStreamWriteError`
    → the session's single consumer goroutine pops in order and writes
        TCP-based transports: one interleaved frame, channel = the media's channel (the pair the SETUP
          response announced: the requested `interleaved=a-(a+1)` if free, else 400; without a request the
          first free even pair; `a+1` is the RTCP channel) on a reliable FIFO byte pipe;
          the client reader demultiplexes channel → media (client_reader.go), payload type → format
          (client_media.go readPacketRTP), the reliable-mode receiver passes every packet through
        UDP: one datagram to the media's client port; the network may lose, duplicate and reorder;
          the client runs the reorder receiver of pkg/rtpreceiver (model: `Rtsp.Recv`, C14) per format
    → callback (media, format, packet).

The system is a product of independent readers: a `write` acts on every reader, every other event on
exactly one.  `rstep` is the one-reader machine; `step` lifts it to the list of readers.

PLAY  = `createWriter` … `readerSetActive`          (one event `play`: nothing can be pushed in between)
PAUSE = `destroyWriter`, which is `writer.Close()` — `ring.Close()` discards the queue (`pclose`), but the
        closed ring still takes pushes (accepted while it has room, refused when full; nobody pulls them)
        until the consumer goroutine has exited and `writer = nil` (`pnil`: the ring and what it holds
        are dropped; pushes are swallowed without error from here on) —
        then `readerSetInactive` (`pinact`)           — three events, writes may fall in between
close = `readerSetInactive`, `readerRemove`, `destroyWriter`; the client stops reading (`leave`)

History (ghost) variables, never read by the transitions: `Frame.media`, `Frame.wid`, `Reader.nw`,
`acc` / `ref` / `drp` / `disc`, `arrived`.  `wid` is the index of the write among all writes of the stream.

Not modelled: RTCP (sender reports share the queue — the harness disables them), multicast, the
cipher (SRTP is a per-packet bijection on the wire bytes), byte-level encodings (C04 / pion RTP).
Core Lean only: linked into `oracle_pipe`.
-/
namespace Rtsp.Pipe

abbrev Bytes := List UInt8

/-- pion `rtp.Packet` restricted to the fields of the property -/
structure Pkt where
  pt      : Nat
  seq     : Nat
  ts      : Nat
  ssrc    : Nat
  marker  : Bool
  payload : Bytes
deriving DecidableEq, Repr, Inhabited

/-- a format of a media: payload type and the local SSRC the stream generated for it -/
structure Fmt where
  pt   : Nat
  ssrc : Nat
deriving DecidableEq, Repr, Inhabited

structure Cfg where
  cap    : Nat                 -- Server.WriteQueueSize
  medias : List (List Fmt)     -- stream description: medias, each with its formats
deriving Repr, Inhabited

def Cfg.fmt? (c : Cfg) (m pt : Nat) : Option Fmt := (c.medias.getD m []).find? (fun f => f.pt == pt)

/-- `stream.medias[medi].formats[pt].localSSRC` -/
def Cfg.ssrcOf (c : Cfg) (m pt : Nat) : Option Nat := (c.fmt? m pt).map (·.ssrc)

/-- `pkt.SSRC = ssf.localSSRC`; every other field is marshalled as it is -/
def rewrite (ssrc : Nat) (p : Pkt) : Pkt := { p with ssrc := ssrc }

inductive Status where
  | setup      -- Initial / PrePlay (also: paused)
  | playing    -- in activeUnicastReaders, writer present
  | ringClosed -- PAUSE in progress: `ring.Close()` done, `writer` still set, still in activeUnicastReaders
  | noWriter   -- PAUSE in progress: `writer == nil`, still in activeUnicastReaders
  | gone       -- session closed
deriving DecidableEq, Repr, Inhabited

/-- a queued closure / an interleaved frame / a datagram -/
structure Frame where
  chan  : Nat      -- interleaved channel (UDP: stands for the media's client port pair)
  pkt   : Pkt      -- the marshalled packet
  media : Nat      -- ghost
  wid   : Nat      -- ghost
deriving DecidableEq, Repr, Inhabited

/-- one callback invocation (or one accepted / refused / … push) -/
structure Deliv where
  media : Nat
  pt    : Nat
  pkt   : Pkt
  wid   : Nat
deriving DecidableEq, Repr, Inhabited

def Frame.deliv (f : Frame) : Deliv := ⟨f.media, f.pkt.pt, f.pkt, f.wid⟩

inductive Outcome where
  | skip        -- not fanned out to this reader
  | accepted    -- pushed
  | refused     -- queue full: ErrServerWriteQueueFull → OnStreamWriteError
  | dropped     -- writer == nil: swallowed without error
deriving DecidableEq, Repr, Inhabited

structure Reader where
  udp     : Bool := false
  status  : Status := .setup
  meds    : List Nat := []                           -- medias set up, in SETUP order
  chs     : List Nat := []                           -- … and the interleaved channel of each (same length)
  queue   : List Frame := []                         -- ring contents, oldest first
  wire    : List Frame := []                         -- TCP: frames in the pipe; UDP: every datagram sent
  rx      : List ((Nat × Nat) × Recv.State) := []    -- UDP: receiver per (media, format)
  arrived : List Frame := []                         -- UDP ghost: arrival history (receiver ids index it)
  cbs     : List Deliv := []                         -- callback history
  nw      : Nat := 0                                 -- ghost: writes seen
  acc     : List Deliv := []                         -- ghost: accepted pushes
  ref     : List Deliv := []                         -- ghost: refused pushes
  drp     : List Deliv := []                         -- ghost: swallowed pushes
  disc    : List Deliv := []                         -- ghost: discarded by the reader's own PAUSE / close
deriving Repr, Inhabited

/-- the interleaved channel of a media that was set up: the one its SETUP response announced -/
def chanOf (x : Reader) (m : Nat) : Nat := x.chs.getD (x.meds.idxOf m) 0

/-- `tcpCallbackByChannel[ch]`: the media whose RTP channel is `c` (`c + 1` is its RTCP channel) -/
def mediaOfChan (x : Reader) (c : Nat) : Option Nat :=
  if x.chs.contains c then x.meds[x.chs.idxOf c]? else none

/-- `ServerSession.isChannelPairInUse` -/
def pairInUse (x : Reader) (c : Nat) : Bool := x.chs.any fun t => t + 1 == c || t == c || t == c + 1

/-- `ServerSession.findFreeChannelPair`: the first even channel whose pair is free (each pair in use
blocks at most two even candidates, so the search among `2·n + 1` candidates finds one) -/
def freePair (x : Reader) : Nat :=
  (((List.range (2 * x.chs.length + 1)).map (2 * ·)).find? (fun c => !pairInUse x c)).getD 0

/-- client side: channel → media, payload type → format -/
def demux (cfg : Cfg) (x : Reader) (f : Frame) : Option (Nat × Nat) :=
  match mediaOfChan x f.chan with
  | none => none
  | some m => if (cfg.fmt? m f.pkt.pt).isSome then some (m, f.pkt.pt) else none

/-- is the write fanned out to this reader? -/
def fanned (x : Reader) (m : Nat) : Bool :=
  (x.status == .playing || x.status == .ringClosed || x.status == .noWriter) && x.meds.contains m

def outcome (cfg : Cfg) (x : Reader) (m : Nat) : Outcome :=
  if !fanned x m then .skip
  else if x.status == .noWriter then .dropped
  else if x.queue.length < cfg.cap then .accepted
  else .refused

/-- `ServerStream.WritePacketRTP(medias[m], p)` as seen by one reader -/
def rwrite (cfg : Cfg) (x : Reader) (m : Nat) (p : Pkt) : Reader :=
  match cfg.ssrcOf m p.pt with
  | none => { x with nw := x.nw + 1 }     -- not a format of the media (Go: nil map entry); outside the property
  | some ssrc =>
    let d : Deliv := ⟨m, p.pt, rewrite ssrc p, x.nw⟩
    match outcome cfg x m with
    | .skip     => { x with nw := x.nw + 1 }
    | .dropped  => { x with nw := x.nw + 1, drp := x.drp ++ [d] }
    | .refused  => { x with nw := x.nw + 1, ref := x.ref ++ [d] }
    | .accepted => { x with nw := x.nw + 1, acc := x.acc ++ [d],
                            queue := x.queue ++ [⟨chanOf x m, d.pkt, m, x.nw⟩] }

inductive Ctl where
  | setup (m : Nat) (req : Option Nat)   -- SETUP of media `m`; `req`: first id of an explicit `interleaved=` pair
  | play
  | pclose
  | pnil
  | pinact
  | leave
  | consume          -- the session's writer goroutine pops one item and sends it
  | carry            -- TCP: the client reads one frame and runs the callback
  | arrive (k : Nat) -- UDP: the k-th datagram ever sent to this reader arrives (again)
deriving DecidableEq, Repr, Inhabited

def rxGet (x : Reader) (key : Nat × Nat) : Recv.State :=
  (x.rx.lookup key).getD (Recv.init true Rtsp.Facts.Recv.defaultBufferSize)

def rxSet (x : Reader) (key : Nat × Nat) (st : Recv.State) : List ((Nat × Nat) × Recv.State) :=
  (key, st) :: x.rx.filter (fun e => e.1 != key)

/-- UDP arrival of frame `f`: demux, run the format's receiver, call back what it releases -/
def rarrive (cfg : Cfg) (x : Reader) (f : Frame) : Reader :=
  match demux cfg x f with
  | none => x
  | some (m, pt) =>
    let arrived := x.arrived ++ [f]
    let (st, o) := Recv.step (rxGet x (m, pt)) { seq := UInt16.ofNat f.pkt.seq, id := x.arrived.length }
    let outs := o.pkts.filterMap (fun q => (arrived[q.id]?).map (fun g => (⟨m, pt, g.pkt, g.wid⟩ : Deliv)))
    { x with arrived := arrived, rx := rxSet x (m, pt) st, cbs := x.cbs ++ outs }

def rctl (cfg : Cfg) (x : Reader) : Ctl → Reader
  | .setup m req =>
    -- an explicit pair that overlaps a pair in use is answered 400; without one the server picks a free pair
    let c := req.getD (freePair x)
    if x.status == .setup && m < cfg.medias.length && !x.meds.contains m && !pairInUse x c then
      { x with meds := x.meds ++ [m], chs := x.chs ++ [c] } else x
  | .play =>
    if x.status == .setup && !x.meds.isEmpty then { x with status := .playing, queue := [] } else x
  | .pclose =>
    if x.status == .playing then
      { x with status := .ringClosed, disc := x.disc ++ x.queue.map Frame.deliv, queue := [] } else x
  | .pnil =>
    if x.status == .ringClosed then
      { x with status := .noWriter, disc := x.disc ++ x.queue.map Frame.deliv, queue := [] } else x
  | .pinact => if x.status == .noWriter then { x with status := .setup } else x
  | .leave =>
    if x.status == .gone then x
    else if x.udp then { x with status := .gone, disc := x.disc ++ x.queue.map Frame.deliv, queue := [] }
    else { x with status := .gone, disc := x.disc ++ (x.wire ++ x.queue).map Frame.deliv, queue := [], wire := [] }
  | .consume =>
    -- (`Pull` returns false once the ring is closed: nothing is popped after `pclose`)
    if x.status != .playing then x else
    match x.queue with
    | [] => x
    | f :: q => { x with queue := q, wire := x.wire ++ [f] }
  | .carry =>
    if x.udp then x else
    match x.wire with
    | [] => x
    | f :: w =>
      match demux cfg x f with
      | none => { x with wire := w }
      | some (m, pt) => { x with wire := w, cbs := x.cbs ++ [⟨m, pt, f.pkt, f.wid⟩] }
  | .arrive k =>
    if !x.udp then x else    -- (a datagram in flight may arrive after the server-side session is gone)
    match x.wire[k]? with
    | none => x
    | some f => rarrive cfg x f

/-- events as one reader sees them -/
inductive REv where
  | write (m : Nat) (p : Pkt)
  | ctl (c : Ctl)
deriving DecidableEq, Repr, Inhabited

def rstep (cfg : Cfg) (x : Reader) : REv → Reader
  | .write m p => rwrite cfg x m p
  | .ctl c => rctl cfg x c

def rrun (cfg : Cfg) (x : Reader) : List REv → Reader
  | [] => x
  | e :: es => rrun cfg (rstep cfg x e) es

/-! ## the whole system -/

structure State where
  readers : List Reader
deriving Repr, Inhabited

inductive Event where
  | write (m : Nat) (p : Pkt)
  | ctl (r : Nat) (c : Ctl)
deriving DecidableEq, Repr, Inhabited

/-- `kinds[i] = true`: reader `i` uses UDP -/
def init (kinds : List Bool) : State := { readers := kinds.map fun u => { udp := u } }

def step (cfg : Cfg) (s : State) : Event → State
  | .write m p => { readers := s.readers.map fun x => rwrite cfg x m p }
  | .ctl r c => { readers := s.readers.modify r fun x => rctl cfg x c }

def run (cfg : Cfg) (s : State) : List Event → State
  | [] => s
  | e :: es => run cfg (step cfg s e) es

/-- what reader `r` sees of an event -/
def proj (r : Nat) : Event → Option REv
  | .write m p => some (.write m p)
  | .ctl r' c => if r' = r then some (.ctl c) else none

def State.rd (s : State) (r : Nat) : Reader := s.readers.getD r {}

/-- the outcomes of a write, one per reader, before it is applied -/
def outcomes (cfg : Cfg) (s : State) (m : Nat) : List Outcome := s.readers.map fun x => outcome cfg x m

end Rtsp.Pipe
