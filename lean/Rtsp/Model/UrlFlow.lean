import Rtsp.Model.Url
/-
Whole-session model for property C20: which request lines the library client writes and what the
library server's handlers observe (ctx.Path, ctx.Query, which media a SETUP configured) when a client
describes / sets up / plays (pauses) or announces / sets up / records (pauses) a URL; and the request
lines the client writes against a foreign ("camera") server that answers with a given Content-Base
and given control attributes.

Composition of the functions of `Model/Url.lean` exactly in the order the Go code calls them:

  client.go        do(): OPTIONS with the URL of the first request; doDescribe / doAnnounce use `u`;
                   doSetup uses `Media.URL(baseURL)`; Play / Pause / Record / TEARDOWN use `c.baseURL`
                   (= the base URL passed to the first SETUP, or the ANNOUNCE URL)
  server_conn.go   every request line is parsed with base.ParseURL; DESCRIBE: getPathAndQuery,
                   Content-Base = URL + "/"
  server_session.go ANNOUNCE / SETUP / PLAY / RECORD / PAUSE as in handleRequestInner
  pkg/auth         digest: the `uri` must equal `req.URL.String()`

Core Lean only (compiled into `oracle_url`).
-/
namespace Rtsp.Url

inductive Ev
  | describe (p q : Str) (authed : Bool)
  | announce (p q : Str) (authed : Bool)
  | setup (p q : Str) (authed : Bool) (before : List Nat)   -- medias already set up when the handler ran
  | play (p q : Str) (medias : List Nat)
  | record (p q : Str) (medias : List Nat)
  | pause (p q : Str) (medias : List Nat)
deriving DecidableEq, Repr

structure Trace where
  lines : List (String × Str) := []      -- (method, request target) in wire order
  events : List Ev := []                  -- handler invocations in order
  failed : Option String := none          -- client call that returned an error
deriving DecidableEq, Repr

def Trace.line (t : Trace) (m : String) (target : Str) : Trace := { t with lines := t.lines ++ [(m, target)] }
def Trace.ev (t : Trace) (e : Ev) : Trace := { t with events := t.events ++ [e] }
def Trace.fail (t : Trace) (step : String) : Trace := { t with failed := some step }

/-- What the server makes of a request line target: `none` = the request is rejected before any
handler runs (`*`, or base.ParseURL fails). -/
def serverURL (target : Str) : Option Url := if target = [42] then none else parse target

/-- digest check of pkg/auth `urlMatches` for the URI the library client sends (= the target) -/
def authURIOK (target : Str) (su : Url) : Bool := su.toStr == target

/-- One request that reaches a handler which checks credentials (DESCRIBE / ANNOUNCE / SETUP of the
test server).  `authed0` = the client already has an `auth.Sender`.  Result: updated trace, whether the
handler finally ran authorised, and whether the client now has a sender. -/
def authRound (t : Trace) (m : String) (target : Str) (su : Url) (auth authed0 : Bool)
    (mkEv : Bool → Ev) : Trace × Bool × Bool :=
  if !auth then (t.ev (mkEv true), true, authed0)
  else if authed0 then
    let ok := authURIOK target su
    (t.ev (mkEv ok), ok, true)
  else
    -- first attempt without Authorization: 401, then the same request again with Authorization
    let t := t.ev (mkEv false)
    let t := t.line m target
    let ok := authURIOK target su
    (t.ev (mkEv ok), ok, true)

structure SetupState where
  t : Trace
  sender : Bool
  medias : List Nat := []
  path : Option Str := none      -- ss.setuppedPath once the first SETUP succeeded

/-- the SETUP requests of a playing client, in the given order -/
def playSetups (base : Url) (n : Nat) (auth : Bool) : List Nat → SetupState → SetupState
  | [], s => s
  | i :: rest, s =>
    if s.t.failed.isSome then s else
    match mediaURL (control i) (some base) with
    | .err => { s with t := s.t.fail "setup" }
    | .url mu =>
      let target := requestTarget (some mu)
      let t := s.t.line "SETUP" target
      match serverURL target with
      | none => { s with t := t.fail "setup" }
      | some su =>
        match getPathAndQueryAndTrackID su with
        | none => { s with t := t.fail "setup" }
        | some (p, q, tid) =>
          if s.path.isSome && s.path != some p then { s with t := t.fail "setup" } else
          let (t, ok, sender) := authRound t "SETUP" target su auth s.sender (fun a => Ev.setup p q a s.medias)
          if !ok then { s with t := t.fail "setup", sender } else
          match findMediaByTrackID n tid with
          | none => { s with t := t.fail "setup", sender }
          | some m =>
            if s.medias.contains m then { s with t := t.fail "setup", sender }
            else playSetups base n auth rest { t, sender, medias := s.medias ++ [m], path := some p }

/-- a request whose handler does not check credentials (PLAY / RECORD / PAUSE) -/
def sessionRequest (t : Trace) (m : String) (url : Url) (setupPath : Option Str) (checkPath : Bool)
    (mkEv : Str → Str → Ev) : Trace :=
  if t.failed.isSome then t else
  let target := requestTarget (some url)
  let t := t.line m target
  match serverURL target with
  | none => t.fail m.toLower
  | some su =>
    let (p, q) := getPathAndQuery su false
    if checkPath && setupPath != some p then t.fail m.toLower else t.ev (mkEv p q)

/-- Client: Describe(u), Setup(desc.BaseURL, medias[i]) for `i` in `order`, Play, [Pause, Play], Close.
Server: one stream with `n` medias. -/
def playFlow (urlText : Str) (n : Nat) (order : List Nat) (auth pause : Bool) : Trace :=
  match parse urlText with
  | none => ({} : Trace).fail "parse"
  | some u =>
    let target := requestTarget (some u)
    let t := (({} : Trace).line "OPTIONS" target).line "DESCRIBE" target
    match serverURL target with
    | none => t.fail "describe"
    | some su =>
      let (p, q) := getPathAndQuery su false
      let (t, ok, sender) := authRound t "DESCRIBE" target su auth false (fun a => Ev.describe p q a)
      if !ok then t.fail "describe" else
      match findBaseURL none (some [contentBase su]) u with
      | none => t.fail "describe"
      | some base =>
        let s := playSetups base n auth order { t, sender }
        let t := s.t
        let t := sessionRequest t "PLAY" base s.path true (fun p q => Ev.play p q s.medias)
        let t := if pause then
            let t := sessionRequest t "PAUSE" base s.path false (fun p q => Ev.pause p q s.medias)
            sessionRequest t "PLAY" base s.path true (fun p q => Ev.play p q s.medias)
          else t
        if t.failed.isSome then t else t.line "TEARDOWN" (requestTarget (some base))

/-- the SETUP requests of a publishing client -/
def recordSetups (u : Url) (controls : List Str) (p q : Str) (auth : Bool) : List Nat → SetupState → SetupState
  | [], s => s
  | i :: rest, s =>
    if s.t.failed.isSome then s else
    match mediaURL (control i) (some u) with
    | .err => { s with t := s.t.fail "setup" }
    | .url mu =>
      let target := requestTarget (some mu)
      let t := s.t.line "SETUP" target
      match serverURL target with
      | none => { s with t := t.fail "setup" }
      | some su =>
        let (t, ok, sender) := authRound t "SETUP" target su auth s.sender (fun a => Ev.setup p q a s.medias)
        if !ok then { s with t := t.fail "setup", sender } else
        match findMediaByURL controls p q su with
        | none => { s with t := t.fail "setup", sender }
        | some m =>
          if s.medias.contains m then { s with t := t.fail "setup", sender }
          else recordSetups u controls p q auth rest { t, sender, medias := s.medias ++ [m], path := some p }

/-- Client: Announce(u, n medias), Setup(u, medias[i]) for `i` in `order`, Record, [Pause, Record], Close. -/
def recordFlow (urlText : Str) (n : Nat) (order : List Nat) (auth pause : Bool) : Trace :=
  match parse urlText with
  | none => ({} : Trace).fail "parse"
  | some u =>
    let target := requestTarget (some u)
    let t := (({} : Trace).line "OPTIONS" target).line "ANNOUNCE" target
    match serverURL target with
    | none => t.fail "announce"
    | some su =>
      let (p, q) := getPathAndQuery su true
      let (t, ok, sender) := authRound t "ANNOUNCE" target su auth false (fun a => Ev.announce p q a)
      if !ok then t.fail "announce" else
      let controls := (List.range n).map control
      let s := recordSetups u controls p q auth order { t, sender }
      let t := s.t
      let t := if !t.failed.isSome && s.medias.length != n then t.fail "record" else t
      let t := sessionRequest t "RECORD" u (some p) true (fun p q => Ev.record p q s.medias)
      let t := if pause then
          let t := sessionRequest t "PAUSE" u (some p) false (fun p q => Ev.pause p q s.medias)
          sessionRequest t "RECORD" u (some p) true (fun p q => Ev.record p q s.medias)
        else t
      if t.failed.isSome then t else t.line "TEARDOWN" (requestTarget (some u))

/-- the SETUP lines against a foreign server that accepts everything -/
def camSetups (base : Url) : List Str → Trace → Trace
  | [], t => t
  | c :: rest, t =>
    if t.failed.isSome then t else
    match mediaURL c (some base) with
    | .err => t.fail "setup"
    | .url mu => camSetups base rest (t.line "SETUP" (requestTarget (some mu)))

/-- Client against a scripted camera: Describe(u) answered with the given Content-Base header values
and session-level / media-level control attributes; Setup of every media in order; Play; Close. -/
def camFlow (urlText : Str) (cb : Option (List Str)) (sessCtl : Option Str) (controls : List Str) : Trace :=
  match parse urlText with
  | none => ({} : Trace).fail "parse"
  | some u =>
    let target := requestTarget (some u)
    let t := (({} : Trace).line "OPTIONS" target).line "DESCRIBE" target
    match findBaseURL sessCtl cb u with
    | none => t.fail "describe"
    | some base =>
      let t := camSetups base controls t
      if t.failed.isSome then t else
      (t.line "PLAY" (requestTarget (some base))).line "TEARDOWN" (requestTarget (some base))

/-! ### redirects and the automatic switch to TCP (client.go: doDescribeRedirect, doSetup, trySwitchingProtocol)

The client remembers the URL of the DESCRIBE that was finally answered (`lastDescribeURL`, the redirect
TARGET) and, when it falls back to TCP — the server answers a UDP SETUP with a TCP transport, or no UDP
packet arrives within InitialUDPReadTimeout — it tears the session down, re-connects, re-DESCRIBEs that
remembered URL and repeats the SETUPs with the base URL it had and PLAY. -/

/-- `strings.ReplaceAll(tmpl, "{T}", target)` (how the scripted server fills its Content-Base templates) -/
def substTarget (target : Str) : Str → Str
  | [] => []
  | [c] => [c]
  | [c, d] => [c, d]
  | c :: a :: b :: rest =>
    if c = 123 && a = 84 && b = 125 then target ++ substTarget target rest
    else c :: substTarget target (a :: b :: rest)

inductive Switch | none | setupTCP | udpTimeout
deriving DecidableEq, Repr

/-- `clientMaxRedirects` -/
def maxRedirects : Nat := 10

/-- `doDescribeRedirect`: OPTIONS + DESCRIBE of `u`; `locs` are the `Location` values the servers answer to the
successive DESCRIBEs (empty = answered 200).  `cs` = `c.Scheme`.  Result: the URL that was answered. -/
def describeChain : List Str → Nat → Str → Url → Trace → Trace × Option Url
  | locs, redirects, cs, u, t =>
    let target := requestTarget (some u)
    let t := (t.line "OPTIONS" target).line "DESCRIBE" target
    match locs with
    | [] => (t, some u)
    | l :: rest =>
      if redirects ≥ maxRedirects then (t.fail "describe", none)
      else match parse l with
        | none => (t.fail "describe", none)
        | some ru =>
          if cs == schemeRTSPS && ru.scheme != schemeRTSPS then (t.fail "describe", none)
          else
            let ru := if u.user.isSome then { ru with user := u.user } else ru
            describeChain rest (redirects + 1) ru.scheme ru t

/-- Client (automatic protocol unless `sw = none`) against scripted servers: DESCRIBE with redirects, SETUP of
every media, PLAY, the automatic switch to TCP, optionally one keep-alive, Close. -/
def switchFlow (urlText : Str) (locs : List Str) (cb : Option (List Str)) (sessCtl : Option Str)
    (controls : List Str) (sw : Switch) (keepAlive : Bool) : Trace :=
  match parse urlText with
  | none => ({} : Trace).fail "parse"
  | some u0 =>
    match describeChain locs 0 u0.scheme u0 {} with
    | (t, none) => t
    | (t, some u) =>
      let target := requestTarget (some u)
      let cbv := cb.map fun vs => vs.map (substTarget target)
      match findBaseURL sessCtl cbv u with
      | none => t.fail "describe"
      | some base =>
        let bt := requestTarget (some base)
        let redescribe := fun (t : Trace) => ((t.line "TEARDOWN" bt).line "OPTIONS" target).line "DESCRIBE" target
        let finish := fun (t : Trace) =>
          if t.failed.isSome then t else
          let t := t.line "PLAY" bt
          let t := if keepAlive then t.line "OPTIONS" bt else t
          t.line "TEARDOWN" bt
        match sw with
        | .none => finish (camSetups base controls t)
        | .setupTCP =>
          match controls with
          | [] => finish t
          | c :: _ =>
            match mediaURL c (some base) with
            | .err => t.fail "setup"
            | .url mu =>
              let t := t.line "SETUP" (requestTarget (some mu))
              finish (camSetups base controls (redescribe t))
        | .udpTimeout =>
          let t := camSetups base controls t
          if t.failed.isSome then t else
          let t := t.line "PLAY" bt
          finish (camSetups base controls (redescribe t))

end Rtsp.Url
