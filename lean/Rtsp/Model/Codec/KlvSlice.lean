import Rtsp.Model.Codec.Klv
import Rtsp.Model.SliceSem
/-
The rtpklv decoder in slice semantics: `buffer` is a Go slice into a store of backing arrays, so
that aliasing between the decoder's buffer and the units it has returned can be expressed.
`handOver = true` is the code as repaired by 2611774 (`d.buffer = nil` when a unit is returned);
`handOver = false` is the original code (the returned unit keeps sharing the backing array that
`reset()` re-uses).  Core Lean only.
-/
namespace Rtsp.Codec.KlvSlice
open Rtsp.Rtp Rtsp.SliceSem Rtsp.Codec.Klv

structure SDec where
  buf       : Slice  := Slice.nil
  expected  : Int    := 0
  curTs     : UInt32 := 0
  assembling : Bool  := false
  lastSeq   : UInt16 := 0
  firstRecv : Bool   := false
deriving Repr

/-- `reset()`: `d.buffer = d.buffer[:0]` keeps the backing array -/
def SDec.reset (d : SDec) : SDec :=
  { d with buf := d.buf.upTo 0, expected := 0, curTs := 0, assembling := false, firstRecv := false }

/-- the tail of `Decode`: the returned slice is the decoder's buffer (or a prefix of it) -/
def sfinish (handOver : Bool) (d : SDec) (marker : Bool) : SDec × DecRes Slice :=
  if marker then
    ((if handOver then { d with buf := Slice.nil } else d).reset, .ok d.buf)
  else if d.expected > 0 ∧ (d.buf.len : Int) ≥ d.expected then
    ((if handOver then { d with buf := Slice.nil } else d).reset, .ok (d.buf.upTo d.expected.toNat))
  else (d, .more)

/-- `Decoder.Decode` over a store -/
def sdecode (grow : Nat → Nat → Nat) (handOver : Bool) (st : Store) (d : SDec) (p : Pkt) :
    Store × SDec × DecRes Slice :=
  if d.firstRecv ∧ p.seq ≠ d.lastSeq + 1 then (st, d.reset, .err)
  else
    let d := { d with lastSeq := p.seq, firstRecv := true }
    if !d.assembling then
      if !isKLVStart p.payload then (st, d, .nonStart)
      else
        -- d.buffer = append(d.buffer[:0], payload...)
        let (st', b) := st.append grow (d.buf.upTo 0) p.payload
        let d := { d with curTs := p.ts, assembling := true, buf := b }
        let d := match declaredSize p.payload with
          | some s => { d with expected := s }
          | none => d
        let (d', r) := sfinish handOver d p.marker
        (st', d', r)
    else if p.ts ≠ d.curTs then (st, d.reset, .err)
    else
      -- d.buffer = append(d.buffer, payload...)
      let (st', b) := st.append grow d.buf p.payload
      let (d', r) := sfinish handOver { d with buf := b } p.marker
      (st', d', r)

def srun (grow : Nat → Nat → Nat) (handOver : Bool) (st : Store) (d : SDec) :
    List Pkt → Store × SDec × List (DecRes Slice)
  | [] => (st, d, [])
  | p :: ps =>
    let (st1, d1, r) := sdecode grow handOver st d p
    let (st2, d2, rs) := srun grow handOver st1 d1 ps
    (st2, d2, r :: rs)

/-- the value-level state a slice-level state denotes -/
def abs (st : Store) (d : SDec) : Dec :=
  { buffer := st.read d.buf, expected := d.expected, curTs := d.curTs, assembling := d.assembling,
    lastSeq := d.lastSeq, firstRecv := d.firstRecv }

def absRes (st : Store) : DecRes Slice → DecRes Rtp.Bytes
  | .ok s => .ok (st.read s)
  | .more => .more
  | .nonStart => .nonStart
  | .err => .err

end Rtsp.Codec.KlvSlice
