import Rtsp.Model.Rtp
import Rtsp.Model.Codec.Av1VpCommon
import Rtsp.Generated.Facts.CodecAv1vp
/-
Model of /repo/pkg/format/rtpav1 (encoder.go, decoder.go) as repaired by the two `fix:` commits
(encoder: Y/Z only when part of the OBU was written in the closed packet; decoder: a packet with
Z = 0 discards stale fragments), together with mediacommon's `av1.LEB128` and `av1.IsRandomAccess2`.
A frame is a temporal unit = list of OBUs.  Core Lean only.
-/
namespace Rtsp.Codec.Av1
open Rtsp.Rtp Rtsp.Facts Rtsp.Codec.Av1Vp

/-! ### mediacommon `av1.LEB128` (a `uint32`) -/

/-- `LEB128.MarshalSize` of `uint32(n)` -/
def lebSize (n : Nat) : Nat :=
  let l := n % 2 ^ 32
  if l < 2 ^ 7 then 1 else if l < 2 ^ 14 then 2 else if l < 2 ^ 21 then 3 else if l < 2 ^ 28 then 4 else 5

/-- the loop of `LEB128.MarshalTo` (at most 5 rounds for a `uint32`) -/
def lebEncF : Nat → Nat → Bytes
  | 0, _ => []
  | fuel + 1, l =>
    if l / 128 = 0 then [UInt8.ofNat (l % 128)]
    else UInt8.ofNat (l % 128 + 128) :: lebEncF fuel (l / 128)

/-- `LEB128(n).MarshalTo` -/
def lebEnc (n : Nat) : Bytes := lebEncF 5 (n % 2 ^ 32)

/-- the loop of `LEB128.Unmarshal`: `i` = round (0..7), `acc` = value so far (`uint32`),
returns (consumed bytes, value); `none` = "not enough bytes".  The bit groups do not overlap, so
Go's `|=` is an addition; the shift is a `uint32` shift (bits above 2^32 are lost, shifts ≥ 32
give 0). -/
def lebDecF : Nat → Nat → Nat → Bytes → Option (Nat × Nat)
  | 0, i, acc, _ => some (i, acc)
  | fuel + 1, i, acc, buf =>
    match buf with
    | [] => none
    | b :: rest =>
      let acc' := acc + ((b.toNat % 128) * 2 ^ (7 * i)) % 2 ^ 32
      if b.toNat / 128 = 0 then some (i + 1, acc') else lebDecF fuel (i + 1) acc' rest

/-- `LEB128.Unmarshal` -/
def lebDec (buf : Bytes) : Option (Nat × Nat) := lebDecF CodecAv1vp.av1LebUnmarshalMaxBytes 0 0 buf

/-- `av1.IsRandomAccess2`: some OBU has type 1 (sequence header) -/
def isRandomAccess (tu : List Bytes) : Bool :=
  tu.any fun obu => match obu with
    | [] => false
    | b :: _ => ((b >>> 3) &&& 15) == 1

/-! ### encoder -/

structure Enc where
  cfg : EncCfg
  seq : UInt16          -- sequenceNumber
deriving Repr

/-- first payload byte: Z (bit 7), Y (bit 6), W (bits 5..4), N (bit 3) -/
def hdrByte (z y : Bool) (w : Nat) (n : Bool) : UInt8 :=
  UInt8.ofNat ((if z then 128 else 0) + (if y then 64 else 0) + (w % 4) * 16 + (if n then 8 else 0))

/-- `curPacket` + `obusInPacket` -/
structure Cur where
  z    : Bool
  w    : Nat := 0        -- W field; 0 until `omitSize` writes it (at most once per packet)
  body : Bytes := []     -- payload after the first byte
  seq  : UInt16
  n    : Nat := 0        -- obusInPacket
deriving Repr

/-- loop state of `Encode`: packets already closed (first payload byte complete except N),
the current packet, the encoder's `sequenceNumber` -/
structure St where
  done    : List Pkt
  cur     : Cur
  nextSeq : UInt16
deriving Repr

def mkPkt (c : EncCfg) (cur : Cur) (y : Bool) : Pkt :=
  { pt := c.pt, seq := cur.seq, ssrc := c.ssrc, marker := false,
    payload := hdrByte cur.z y cur.w false :: cur.body }

/-- `finalizeCurPacket(y); createNewPacket(z)` -/
def St.closeOpen (c : EncCfg) (st : St) (frag : Bool) : St :=
  { done := st.done ++ [mkPkt c st.cur frag],
    cur := { z := frag, seq := st.nextSeq },
    nextSeq := st.nextSeq + 1 }

/-- the inner `for { … }` of `Encode` for one OBU (`last` = `i == len(obus)-1`).  `fuel`: every
round but the first either ends the loop or consumes at least one byte when `max ≥ 3`
(lemma `obuLoop_fuel`); with `max < 3` the Go loop may spin forever. -/
def obuLoop (c : EncCfg) (mfl : Nat) (last : Bool) : Nat → St → Bytes → St
  | 0, st, _ => st
  | fuel + 1, st, obu =>
    let cur := st.cur
    let avail := c.max - (1 + cur.body.length)
    let obuLen := obu.length
    let omitSize := last && decide (cur.n < 3)
    let needed := if omitSize then obuLen else obuLen + lebSize obuLen
    if needed ≤ avail then
      if omitSize then
        { st with cur := { cur with w := cur.n + 1, body := cur.body ++ obu } }
      else
        { st with cur := { cur with body := cur.body ++ lebEnc obuLen ++ obu, n := cur.n + 1 } }
    else if omitSize then
      if avail > 0 then
        let st' : St := { st with cur := { cur with w := cur.n + 1, body := cur.body ++ obu.take avail } }
        obuLoop c mfl last fuel (st'.closeOpen c true) (obu.drop avail)
      else
        obuLoop c mfl last fuel (st.closeOpen c false) obu
    else
      if avail > mfl then
        let fragmentLen := avail - mfl
        let st' : St := { st with cur := { cur with body := cur.body ++ lebEnc fragmentLen ++ obu.take fragmentLen } }
        obuLoop c mfl last fuel (st'.closeOpen c true) (obu.drop fragmentLen)
      else
        obuLoop c mfl last fuel (st.closeOpen c false) obu

/-- `for i, obu := range obus` -/
def encObus (c : EncCfg) (mfl : Nat) : List Bytes → St → St
  | [], st => st
  | [obu], st => obuLoop c mfl true (obu.length + 2) st obu
  | obu :: rest, st => encObus c mfl rest (obuLoop c mfl false (obu.length + 2) st obu)

/-- `packets[0].Payload[0] |= 1 << 3` -/
def setN : List Pkt → List Pkt
  | [] => []
  | p :: ps =>
    (match p.payload with
     | [] => p
     | b :: body => { p with payload := (b ||| 8) :: body }) :: ps

/-- `packets[len(packets)-1].Marker = true` -/
def setMarkerLast : List Pkt → List Pkt
  | [] => []
  | [p] => [{ p with marker := true }]
  | p :: ps => p :: setMarkerLast ps

/-- `Encoder.Encode`.  Documented precondition: at least one OBU, every OBU non-empty. -/
def encode (e : Enc) (obus : List Bytes) : Enc × List Pkt :=
  let c := e.cfg
  let st0 : St := { done := [], cur := { z := false, seq := e.seq }, nextSeq := e.seq + 1 }
  let mfl := lebSize c.max
  let st := encObus c mfl obus st0
  let pkts := st.done ++ [mkPkt c st.cur false]
  let pkts := if isRandomAccess obus then setN pkts else pkts
  ({ e with seq := st.nextSeq }, setMarkerLast pkts)

/-! ### decoder -/

structure Dec where
  firstPacketReceived : Bool := false
  fragments       : List Bytes := []
  fragmentsSize   : Nat := 0
  nextSeq         : UInt16 := 0     -- fragmentNextSeqNum
  frameBuffer     : List Bytes := []
  frameBufferLen  : Nat := 0
  frameBufferSize : Nat := 0
deriving Repr, DecidableEq

def Dec.resetFragments (d : Dec) : Dec := { d with fragments := [], fragmentsSize := 0 }

def Dec.resetFrameBuffer (d : Dec) : Dec :=
  { d with frameBuffer := [], frameBufferLen := 0, frameBufferSize := 0 }

/-- the `for len(payload) > 0` loop of `decodeOBUs`; `none` = one of the errors that reset the
fragments.  `acc` = OBUs so far (in order).  Every round consumes at least one byte, so
`fuel = payload.length` suffices (lemma `parseObus_fuel`).  (`byte(len(obus)) < w-1` is
evaluated only for `w ≠ 0`, where `len(obus) ≤ 2`, so the `byte` conversion is the identity.) -/
def parseObus (w : Nat) : Nat → Bytes → List Bytes → Option (List Bytes)
  | 0, _, acc => some acc
  | fuel + 1, payload, acc =>
    if payload.isEmpty then some acc
    else if w = 0 ∨ acc.length < w - 1 then
      match lebDec payload with
      | none => none
      | some (n, size) =>
        let payload := payload.drop n
        if size = 0 ∨ payload.length < size then none
        else parseObus w fuel (payload.drop size) (acc ++ [payload.take size])
    else some (acc ++ [payload])

inductive Fail where
  | more | nonStart | err
deriving DecidableEq, Repr

def Fail.toRes {α} : Fail → DecRes α
  | .more => .more
  | .nonStart => .nonStart
  | .err => .err

/-- second half of `decodeOBUs`: "last OBU will continue in next packet" -/
def holdLast (d : Dec) (p : Pkt) (y : Bool) (obus : List Bytes) : Dec × Except Fail (List Bytes) :=
  if y then
    let obu := obus.getLastD []
    let obus := obus.dropLast
    let d := { d with fragmentsSize := obu.length, fragments := d.fragments ++ [obu], nextSeq := p.seq + 1 }
    if obus.isEmpty then (d, .error .more) else (d, .ok obus)
  else (d, .ok obus)

/-- `decodeOBUs` after the element loop: "first OBU is continuation of previous one" (with the
repair: a packet with Z = 0 discards stale fragments), then `holdLast` -/
def afterParse (d : Dec) (p : Pkt) (z y : Bool) (obus : List Bytes) : Dec × Except Fail (List Bytes) :=
  if z then
    if d.fragmentsSize = 0 then
      (d, .error (if !d.firstPacketReceived then .nonStart else .err))
    else
      let d := { d with firstPacketReceived := true }
      if p.seq ≠ d.nextSeq then (d.resetFragments, .error .err)
      else
        let obu0 := obus.headD []
        let sz := d.fragmentsSize + obu0.length
        if sz > CodecAv1vp.av1MaxTemporalUnitSize then (d.resetFragments, .error .err)
        else
          let d := { d with fragmentsSize := sz, fragments := d.fragments ++ [obu0], nextSeq := d.nextSeq + 1 }
          if obus.length = 1 ∧ y then (d, .error .more)
          else
            let obus := joinFragments d.fragments d.fragmentsSize :: obus.tail
            holdLast d.resetFragments p y obus
  else
    holdLast ({ d with firstPacketReceived := true }).resetFragments p y obus

/-- `Decoder.decodeOBUs` -/
def decodeOBUs (d : Dec) (p : Pkt) : Dec × Except Fail (List Bytes) :=
  if p.payload.length < 2 then (d, .error .err)
  else
    let b0 := p.payload.headD 0
    let payload := p.payload.tail
    let z := tb b0 0x80
    let y := tb b0 0x40
    let w := ((b0 >>> 4) &&& 3).toNat
    match parseObus w payload.length payload [] with
    | none => (d.resetFragments, .error .err)
    | some obus =>
      if w ≠ 0 ∧ obus.length ≠ w then (d, .error .err)
      else afterParse d p z y obus

/-- `Decode` after `decodeOBUs` succeeded: count / size caps, append to the frame buffer, return it
at the marker -/
def pushFrame (d : Dec) (marker : Bool) (obus : List Bytes) : Dec × DecRes (List Bytes) :=
  let l := obus.length
  if d.frameBufferLen + l > CodecAv1vp.av1MaxOBUsPerTemporalUnit then (d.resetFrameBuffer, .err)
  else
    let addSize := totalLen obus
    if d.frameBufferSize + addSize > CodecAv1vp.av1MaxTemporalUnitSize then (d.resetFrameBuffer, .err)
    else
      let d := { d with frameBuffer := d.frameBuffer ++ obus, frameBufferLen := d.frameBufferLen + l,
                        frameBufferSize := d.frameBufferSize + addSize }
      if !marker then (d, .more)
      else (d.resetFrameBuffer, .ok d.frameBuffer)

/-- `Decoder.Decode` -/
def decode (d : Dec) (p : Pkt) : Dec × DecRes (List Bytes) :=
  match decodeOBUs d p with
  | (d, .error f) => (d, f.toRes)
  | (d, .ok obus) => pushFrame d p.marker obus

/-- payload bytes the decoder state keeps referenced between calls -/
def retained (d : Dec) : Nat := totalLen d.fragments + totalLen d.frameBuffer

def runDec (d : Dec) : List Pkt → Dec × List (DecRes (List Bytes))
  | [] => (d, [])
  | p :: ps =>
    let (d1, r) := decode d p
    let (d2, rs) := runDec d1 ps
    (d2, r :: rs)

end Rtsp.Codec.Av1
