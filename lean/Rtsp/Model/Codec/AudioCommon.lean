import Rtsp.Model.Rtp
/-
Pieces shared by the models of the audio "group" packetisers (rtpmpeg4audio, rtpmpeg1audio, rtpac3):

* `packetCount`, `joinFragments` (identical private helpers in each Go package);
* the batching loop of `Encoder.Encode` (identical control flow in the three packages, the
  per-format parts are the fields of `BatchOps`);
* mediacommon `pkg/bits`: `ReadBits` mirrored on byte values (`readBitsGo`, proved equal to the
  bit-serial value `readBitsVal`), `WriteBitsUnsafe` modelled bit-serially (MSB first).

Core Lean only.
-/
namespace Rtsp.Codec.Audio
open Rtsp.Rtp

/-- Go `packetCount(avail, le)` -/
def packetCount (avail le : Nat) : Nat := le / avail + (if le % avail ≠ 0 then 1 else 0)

/-- Go `joinFragments`: `make([]byte, size)` then `copy` of every fragment (zero padded / cut if
the sizes disagree; under the decoder invariants they never do). -/
def joinFragments (fragments : List Bytes) (size : Nat) : Bytes :=
  let j := fragments.flatten
  j.take size ++ List.replicate (size - j.length) 0

/-- `n / 8` rounded up, written as in the Go code (`n/8`, `+1` if `n%8 != 0`) -/
def ceil8 (n : Nat) : Nat := n / 8 + (if n % 8 ≠ 0 then 1 else 0)

/-! ### the batching loop of `Encode` -/

/-- the format-specific parts of `Encode` -/
structure BatchOps where
  /-- `lenAggregated(batch, unit) <= PayloadMaxSize` -/
  fits  : List Bytes → Bytes → Bool
  /-- `writeBatch(batch, timestamp)` with the encoder's sequence number at entry; every packet
  takes the next sequence number -/
  write : List Bytes → UInt32 → UInt16 → List Pkt
  /-- what is added to `timestamp` after `batch` was written (`none`: Encode returns an error) -/
  tsInc : List Bytes → Option UInt32

/-- `for _, au := range aus { … }` followed by `write last batch`.  Arguments: units still to
process, current `batch` (Go `nil` = `[]`; a batch that was assigned is never empty), `timestamp`,
`e.sequenceNumber`.  Result: the packets (`none` = error return) and the sequence number after. -/
def batchLoop (o : BatchOps) : List Bytes → List Bytes → UInt32 → UInt16 → Option (List Pkt) × UInt16
  | [], batch, ts, sq =>
    let ps := o.write batch ts sq
    (some ps, sq + UInt16.ofNat ps.length)
  | au :: rest, batch, ts, sq =>
    if o.fits batch au then batchLoop o rest (batch ++ [au]) ts sq
    else if batch.isEmpty then batchLoop o rest [au] ts sq
    else
      let ps := o.write batch ts sq
      let sq' := sq + UInt16.ofNat ps.length
      match o.tsInc batch with
      | none => (none, sq')
      | some inc =>
        match batchLoop o rest [au] (ts + inc) sq' with
        | (some qs, s) => (some (ps ++ qs), s)
        | (none, s) => (none, s)

/-! ### mediacommon `pkg/bits` (bit-serial model, MSB first) -/

/-- bit `i` (0 = most significant bit of byte 0) of a buffer; 0 beyond the end -/
def getBit (buf : Bytes) (i : Nat) : Nat := ((buf.getD (i / 8) 0).toNat / 2 ^ (7 - i % 8)) % 2

/-- value of the `n` bits starting at bit `pos`, accumulated onto `acc` -/
def readBitsVal (buf : Bytes) : Nat → Nat → Nat → Nat
  | _, 0, acc => acc
  | pos, n + 1, acc => readBitsVal buf (pos + 1) n (2 * acc + getBit buf pos)

/-- `buf[pos>>3]` -/
def byteAt (buf : Bytes) (pos : Nat) : Nat := (buf.getD (pos / 8) 0).toNat

/-- the `for n >= 8 { … }` loop of `ReadBitsUnsafe` and the `if n > 0 { … }` after it -/
def readWhole (buf : Bytes) : Nat → Nat → Nat → Nat → Nat
  | 0, _, _, v => v
  | f + 1, pos, n, v =>
    if n ≥ 8 then readWhole buf f (pos + 8) (n - 8) (v * 256 + byteAt buf pos)
    else if n > 0 then v * 2 ^ n + byteAt buf pos / 2 ^ (8 - n)
    else v

/-- `bits.ReadBitsUnsafe(buf, &pos, n)`, statement by statement on byte values (without the
`uint64` truncation, applied in `readBits`): the bits left in the current byte, whole bytes, the
leading bits of the last byte.  `AudioBits.readBitsGo_eq` proves that this is the bit-serial value
`readBitsVal`. -/
def readBitsGo (buf : Bytes) (pos n : Nat) : Nat :=
  let res := 8 - pos % 8
  if n < res then byteAt buf pos / 2 ^ (res - n) % 2 ^ n
  else readWhole buf (n + 1) (pos + res) (n - res) (byteAt buf pos % 2 ^ res)

/-- `bits.ReadBits(buf, &pos, n)`: `HasSpace` then `ReadBitsUnsafe`; the Go accumulator is a
`uint64`, hence the reduction modulo 2^64 (only visible for `n > 64`).  Returns value and new `pos`. -/
def readBits (buf : Bytes) (pos n : Nat) : Option (Nat × Nat) :=
  if n > buf.length * 8 - pos then none
  else some (readBitsGo buf pos n % 2 ^ 64, pos + n)

/-- the `n` low bits of `v`, most significant first (what `WriteBitsUnsafe(buf, &pos, v, n)` writes
for `v < 2^n`; the Go function does not mask `v`, larger values are outside the valid frames) -/
def bitsOf (v : Nat) : Nat → List Bool
  | 0 => []
  | n + 1 => v.testBit n :: bitsOf v n

/-- `buf[i] = byte(f(buf[i]))` (no effect outside the buffer; Go would panic there, which cannot
happen after the callers' size computation) -/
def updByte (buf : Bytes) (i : Nat) (f : Nat → Nat) : Bytes :=
  buf.set i (UInt8.ofNat (f (buf.getD i 0).toNat))

/-- the `for n >= 8 { … }` loop of `WriteBitsUnsafe` and the `if n > 0 { … }` after it -/
def writeWhole (v : Nat) : Nat → Bytes → Nat → Nat → Bytes × Nat
  | 0, buf, pos, _ => (buf, pos)
  | f + 1, buf, pos, n =>
    if n ≥ 8 then writeWhole v f (updByte buf (pos / 8) (fun _ => v >>> (n - 8))) (pos + 8) (n - 8)
    else if n > 0 then (updByte buf (pos / 8) (fun _ => (v &&& (1 <<< n - 1)) <<< (8 - n)), pos + n)
    else (buf, pos)

/-- `bits.WriteBitsUnsafe(buf, &pos, v, n)`, statement by statement on byte values: OR into the
current byte, assign whole bytes, assign the leading bits of the last byte.  `v` is not masked
(as in Go).  `AudioBitsWrite.writeBitsGo_spec` proves that, on a buffer that is zero from `pos` on
and for `v < 2^n`, this appends the bit string `bitsOf v n`. -/
def writeBitsGo (buf : Bytes) (pos v n : Nat) : Bytes × Nat :=
  let res := 8 - pos % 8
  if n < res then (updByte buf (pos / 8) (fun b => b ||| (v <<< (res - n))), pos + n)
  else writeWhole v (n + 1) (updByte buf (pos / 8) (fun b => b ||| (v >>> (n - res)))) (pos + res) (n - res)

/-- value of up to 8 bits, MSB first, zero padded on the right to a whole byte -/
def byteOfBits (bs : List Bool) : UInt8 :=
  UInt8.ofNat ((List.range 8).foldl (fun a i => 2 * a + (bs.getD i false).toNat) 0)

/-- a bit string written from bit 0 of a zeroed buffer: whole bytes, the last one zero padded -/
def packBits : Nat → List Bool → Bytes
  | 0, _ => []
  | f + 1, bs => if bs.isEmpty then [] else byteOfBits bs :: packBits f (bs.drop 8)

def pack (bs : List Bool) : Bytes := packBits bs.length bs

/-- big-endian 16-bit field `byte(v >> 8), byte(v)` -/
def be16 (v : Nat) : Bytes := [UInt8.ofNat (v / 256), UInt8.ofNat v]

def runDecGen {δ α : Type} (step : δ → Pkt → δ × DecRes α) (d : δ) : List Pkt → δ × List (DecRes α)
  | [] => (d, [])
  | p :: ps =>
    let (d1, r) := step d p
    let (d2, rs) := runDecGen step d1 ps
    (d2, r :: rs)

end Rtsp.Codec.Audio
