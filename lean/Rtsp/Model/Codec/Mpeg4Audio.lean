import Rtsp.Model.Codec.AudioCommon
import Rtsp.Generated.Facts.CodecAudio
/-
Model of /repo/pkg/format/rtpmpeg4audio (encoder.go, decoder.go): RFC 3640 generic mode.  A frame
is a group of access units; the encoder aggregates AUs into packets, splits a group that does not
fit into several self-contained packets and fragments a single oversize AU.  mediacommon's
`mpeg4audio.ADTSPackets.Unmarshal` (used by the decoder's ADTS sniffing) is modelled in full.
Core Lean only.
-/
namespace Rtsp.Codec.Mpeg4Audio
open Rtsp.Rtp Rtsp.Facts Rtsp.Codec.Audio

/-- `mpeg4audio.MaxAccessUnitSize` -/
abbrev maxAU : Nat := CodecAudio.mpeg4audioMaxAccessUnitSize
/-- `mpeg4audio.SamplesPerAccessUnit` -/
abbrev samplesPerAU : Nat := CodecAudio.mpeg4audioSamplesPerAccessUnit

/-- SizeLength / IndexLength / IndexDeltaLength -/
structure Params where
  sl : Nat
  il : Nat
  dl : Nat
deriving Repr, DecidableEq

/-! ### encoder -/

structure Enc where
  cfg : EncCfg
  par : Params
  seq : UInt16
deriving Repr

/-- number of AU-header bits for `n` access units (first: Size+Index, others: Size+IndexDelta) -/
def hdrBitsLen (p : Params) (n : Nat) : Nat :=
  if n = 0 then 0 else p.sl + p.il + (n - 1) * (p.sl + p.dl)

/-- Go `lenAggregated(aus, addAU)` (`addAU == nil` = `none`) -/
def lenAggregated (p : Params) (aus : List Bytes) (add : Option Bytes) : Nat :=
  2 + ceil8 (hdrBitsLen p (aus.length + (if add.isSome then 1 else 0)))
    + totalLen aus + (match add with | some a => a.length | none => 0)

/-- SPECIFICATION of the AU-headers section as a bit string: per AU its size, then a zero index /
index-delta (`Proofs.Codec.Mpeg4Audio.hdrBytes_eq_pack`: for sizes below `2^SizeLength` the bytes the
Go loop writes are exactly these bits, packed) -/
def auHeaders (p : Params) : Bool → List Bytes → List Bool
  | _, [] => []
  | first, au :: rest =>
    bitsOf au.length p.sl ++ List.replicate (if first then p.il else p.dl) false ++ auHeaders p false rest

/-- the AU-header loop of `writeAggregated` (and the two calls of `writeFragmented`):
`bits.WriteBitsUnsafe(payload[2:], &pos, uint64(len(au)), SizeLength)` then
`bits.WriteBitsUnsafe(payload[2:], &pos, 0, IndexLength | IndexDeltaLength)` -/
def writeHeadersGo (p : Params) : Bool → List Bytes → Bytes → Nat → Bytes × Nat
  | _, [], buf, pos => (buf, pos)
  | first, au :: rest, buf, pos =>
    let r1 := writeBitsGo buf pos au.length p.sl
    let r2 := writeBitsGo r1.1 r1.2 0 (if first then p.il else p.dl)
    writeHeadersGo p false rest r2.1 r2.2

/-- the AU-headers section of a payload: `make([]byte, …)` (zeros), then the header loop.  (Go
writes into `payload[2:]`, which also has room for the AUs; the loop only touches the
`⌈bits/8⌉` header bytes modelled here.) -/
def hdrBytes (p : Params) (aus : List Bytes) : Bytes :=
  (writeHeadersGo p true aus (List.replicate (ceil8 (hdrBitsLen p aus.length)) 0) 0).1

def writeAggregated (c : EncCfg) (p : Params) (aus : List Bytes) (ts : UInt32) (sq : UInt16) : List Pkt :=
  [{ pt := c.pt, seq := sq, ts := ts, ssrc := c.ssrc, marker := true,
     payload := be16 (hdrBitsLen p aus.length) ++ hdrBytes p aus ++ aus.flatten }]

/-- one fragment: AU-headers-length, one AU header declaring `le` bytes, the bytes -/
def fragPayload (p : Params) (chunk : Bytes) : Bytes :=
  be16 (p.sl + p.il) ++ hdrBytes p [chunk] ++ chunk

/-- the `for i := range ret` loop of `writeFragmented`: `n` packets still to emit -/
def emitFrag (c : EncCfg) (p : Params) (ts : UInt32) (avail : Nat) : Nat → UInt16 → Bytes → List Pkt
  | 0, _, _ => []
  | 1, sq, rest =>
    [{ pt := c.pt, seq := sq, ts := ts, ssrc := c.ssrc, marker := true, payload := fragPayload p rest }]
  | n + 2, sq, rest =>
    { pt := c.pt, seq := sq, ts := ts, ssrc := c.ssrc, marker := false, payload := fragPayload p (rest.take avail) }
      :: emitFrag c p ts avail (n + 1) (sq + 1) (rest.drop avail)

def writeFragmented (c : EncCfg) (p : Params) (au : Bytes) (ts : UInt32) (sq : UInt16) : List Pkt :=
  let avail := c.max - 2 - ceil8 (p.sl + p.il)
  emitFrag c p ts avail (packetCount avail au.length) sq au

def writeBatch (c : EncCfg) (p : Params) (aus : List Bytes) (ts : UInt32) (sq : UInt16) : List Pkt :=
  match aus with
  | [au] => if lenAggregated p [au] none < c.max then writeAggregated c p aus ts sq
            else writeFragmented c p au ts sq
  | _ => writeAggregated c p aus ts sq

def ops (c : EncCfg) (p : Params) : BatchOps where
  fits batch au := lenAggregated p batch (some au) ≤ c.max
  write := writeBatch c p
  tsInc batch := some (UInt32.ofNat batch.length * UInt32.ofNat samplesPerAU)

/-- `Encoder.Encode`.  Documented precondition: at least one AU, every AU non-empty. -/
def encode (e : Enc) (aus : List Bytes) : Enc × Option (List Pkt) :=
  let (r, sq) := batchLoop (ops e.cfg e.par) aus [] 0 e.seq
  ({ e with seq := sq }, r)

/-! ### mediacommon `mpeg4audio.ADTSPackets.Unmarshal` (only the AUs matter to the decoder) -/

/-- the body of the `for` loop of `Unmarshal`: one ADTS packet at the head of `r`; result: its AU
and the bytes after it (`pos += 7 + frameLen`) -/
def adtsHead (r : Bytes) : Option (Bytes × Bytes) :=
  if r.length < 8 then none
  else
    let b1 := r.getD 1 0; let b2 := r.getD 2 0; let b3 := r.getD 3 0
    if ¬ (r.getD 0 0 = 0xFF ∧ b1 >>> 4 = 0xF) then none            -- syncword
    else if b1 &&& 0x01 ≠ 1 then none                                -- CRC is not supported
    else if (b2 >>> 2) &&& 0x0F > 12 then none                       -- sample rate index
    else if ((b2 &&& 0x01) <<< 2) ||| ((b3 >>> 6) &&& 0x03) > 7 then none   -- channel configuration
    else
      let raw := (b3 &&& 0x03).toNat * 2048 + (r.getD 4 0).toNat * 8 + ((r.getD 5 0 >>> 5) &&& 0x07).toNat
      if raw ≤ 7 then none                                            -- frameLen <= 0
      else
        let frameLen := raw - 7
        if frameLen > maxAU then none
        else if r.getD 6 0 &&& 0x03 ≠ 0 then none                    -- frame count
        else if r.length - 7 < frameLen then none
        else some ((r.drop 7).take frameLen, r.drop (7 + frameLen))

/-- one iteration per ADTS packet; `fuel` bounds the number of packets (each takes ≥ 8 bytes) -/
def adtsLoop : Nat → Bytes → Option (List Bytes)
  | 0, _ => none
  | f + 1, r =>
    match adtsHead r with
    | none => none
    | some (au, rest) =>
      if rest.length = 0 then some [au]
      else (adtsLoop f rest).map (au :: ·)

def adtsUnmarshal (buf : Bytes) : Option (List Bytes) := adtsLoop (buf.length + 1) buf

/-- the 12-bit test `aus[0][0] == 0xFF && (aus[0][1]&0xF0) == 0xF0` -/
def adtsSync (au : Bytes) : Bool := au.length ≥ 2 && au.getD 0 0 == 0xFF && (au.getD 1 0 &&& 0xF0) == 0xF0

/-! ### decoder -/

structure Dec where
  par           : Params
  firstAUParsed : Bool := false
  adtsMode      : Bool := false
  fragments     : List Bytes := []
  size          : Nat := 0          -- fragmentsSize
  nextSeq       : UInt16 := 0       -- fragmentNextSeqNum
deriving Repr, DecidableEq

def Dec.reset (d : Dec) : Dec := { d with fragments := [], size := 0 }

/-- second loop of `readAUHeaders` (`for headersLen > 0`); the first loop only sizes the result
slice and runs the same number of iterations.  `hl` = bits still to account for (Go `int`, the loop
stops at `<= 0`, hence truncated subtraction), `first` = `!firstRead`.  Fuel: every iteration
takes `sl ≥ 1` bits off `hl`. -/
def readAUHeadersLoop (p : Params) (buf : Bytes) : Nat → Nat → Nat → Bool → Option (List Nat)
  | 0, _, _, _ => none
  | f + 1, hl, pos, first =>
    if hl = 0 then some []
    else
      match readBits buf pos p.sl with
      | none => none
      | some (dataLen, pos1) =>
        if dataLen = 0 then none
        else if dataLen > maxAU then none
        else
          let w := if first then p.il else p.dl
          if w > 0 then
            match readBits buf pos1 w with
            | none => none
            | some (idx, pos2) =>
              if idx ≠ 0 then none
              else (readAUHeadersLoop p buf f (hl - p.sl - w) pos2 false).map (dataLen :: ·)
          else (readAUHeadersLoop p buf f (hl - p.sl) pos1 false).map (dataLen :: ·)

def readAUHeaders (p : Params) (buf : Bytes) (headersLen : Nat) : Option (List Nat) :=
  readAUHeadersLoop p buf (headersLen + 1) headersLen 0 true

/-- the marker branch: `aus[i] = payload[:dataLen]; payload = payload[dataLen:]` -/
def splitAUs : Bytes → List Nat → Option (List Bytes)
  | _, [] => some []
  | payload, dl :: rest =>
    if payload.length < dl then none
    else (splitAUs (payload.drop dl) rest).map (payload.take dl :: ·)

/-- `removeADTS` -/
def removeADTS (d : Dec) (aus : List Bytes) : Dec × DecRes (List Bytes) :=
  if !d.firstAUParsed then
    let d := { d with firstAUParsed := true }
    match aus with
    | [au] =>
      if adtsSync au then
        match adtsUnmarshal au with
        | some [x] => ({ d with adtsMode := true }, .ok [x])
        | _ => (d, .ok aus)
      else (d, .ok aus)
    | _ => (d, .ok aus)
  else if d.adtsMode then
    match aus with
    | [au] =>
      match adtsUnmarshal au with
      | some [x] => (d, .ok [x])
      | _ => (d, .err)
    | _ => (d, .err)
  else (d, .ok aus)

/-- `Decoder.Decode` -/
def decode (d : Dec) (p : Pkt) : Dec × DecRes (List Bytes) :=
  if p.payload.length < 2 then (d.reset, .err)
  else
    let headersLen := (p.payload.getD 0 0).toNat * 256 + (p.payload.getD 1 0).toNat
    if headersLen = 0 then (d.reset, .err)
    else
      let payload := p.payload.drop 2
      match readAUHeaders d.par payload headersLen with
      | none => (d.reset, .err)
      | some dataLens =>
        -- `payload[pos:]`: `pos ≤ len(payload)` because the header bits were read from it
        let payload := payload.drop (ceil8 headersLen)
        if d.size = 0 then
          let d := d.reset
          if p.marker then
            match splitAUs payload dataLens with
            | none => (d, .err)
            | some aus => removeADTS d aus
          else
            match dataLens with
            | [dl] =>
              if payload.length < dl then (d, .err)
              else ({ d with size := dl, fragments := d.fragments ++ [payload.take dl],
                             nextSeq := p.seq + 1 }, .more)
            | _ => (d, .err)
        else
          match dataLens with
          | [dl] =>
            if payload.length < dl then (d.reset, .err)
            else if p.seq ≠ d.nextSeq then (d.reset, .err)
            else
              let sz := d.size + dl
              if sz > maxAU then (d.reset, .err)
              else
                let d' := { d with size := sz, fragments := d.fragments ++ [payload.take dl],
                                   nextSeq := d.nextSeq + 1 }
                if !p.marker then (d', .more)
                else removeADTS d'.reset [joinFragments d'.fragments d'.size]
          | _ => (d.reset, .err)

/-- bytes the decoder state keeps referenced between calls -/
def retained (d : Dec) : Nat := totalLen d.fragments

def runDec : Dec → List Pkt → Dec × List (DecRes (List Bytes)) := runDecGen decode

end Rtsp.Codec.Mpeg4Audio
