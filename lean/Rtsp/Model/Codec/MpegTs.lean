import Rtsp.Model.Rtp
import Rtsp.Generated.Facts.CodecMisc
/-
Model of /repo/pkg/format/rtpmpegts (encoder.go, decoder.go; RFC 2250): a group of 188-byte TS
packets is packed, `PayloadMaxSize / 188` per RTP packet; every RTP packet is self-contained and the
decoder is stateless.  Core Lean only.
-/
namespace Rtsp.Codec.MpegTs
open Rtsp.Rtp Rtsp.Facts

abbrev tsSize : Nat := CodecMisc.mpegtsPacketSize
abbrev syncByte : UInt8 := UInt8.ofNat CodecMisc.mpegtsSyncByte
abbrev payloadType : UInt8 := UInt8.ofNat CodecMisc.mpegtsPayloadType

/-! ### encoder -/

structure Enc where
  cfg : EncCfg          -- cfg.pt is ignored by the Go code (payload type 33 is fixed)
  seq : UInt16
deriving Repr

/-- the inner `for range tsPacketCount { n += copy(payload[n:], tsPackets[0]) … }` into a buffer of
`k·188` zero bytes: the concatenation, cut / zero padded to `k·188` bytes (for 188-byte TS packets
this is exactly the concatenation). -/
def pack (group : List Bytes) : Bytes :=
  let size := group.length * tsSize
  let j := group.flatten
  j.take size ++ List.replicate (size - j.length) 0

/-- the outer loop: `n` RTP packets still to emit, all but the last take `per` TS packets, the last
takes what is left -/
def emit (c : EncCfg) (per : Nat) : Nat → UInt16 → List Bytes → List Pkt
  | 0, _, _ => []
  | 1, sq, rest => [{ pt := payloadType, seq := sq, ssrc := c.ssrc, marker := false, payload := pack rest }]
  | n + 2, sq, rest =>
    { pt := payloadType, seq := sq, ssrc := c.ssrc, marker := false, payload := pack (rest.take per) }
      :: emit c per (n + 1) (sq + 1) (rest.drop per)

/-- `Encoder.Encode`.  Precondition of the Go code: `PayloadMaxSize ≥ 188` (otherwise division by
zero), at least one TS packet. -/
def encode (e : Enc) (ts : List Bytes) : Enc × List Pkt :=
  let per := e.cfg.max / tsSize
  let n := ts.length / per + (if ts.length % per ≠ 0 then 1 else 0)
  ({ e with seq := e.seq + UInt16.ofNat n }, emit e.cfg per n e.seq ts)

/-! ### decoder (stateless) -/

/-- the `for i := range ret` loop over a payload whose length is `n · 188` -/
def splitTs : Nat → Bytes → Option (List Bytes)
  | 0, _ => some []
  | n + 1, b =>
    if b.head? ≠ some syncByte then none
    else (splitTs n (b.drop tsSize)).map (b.take tsSize :: ·)

/-- `Decoder.Decode` -/
def decode (p : Pkt) : DecRes (List Bytes) :=
  if p.payload.length = 0 then .err
  else if p.payload.length % tsSize ≠ 0 then .err
  else match splitTs (p.payload.length / tsSize) p.payload with
    | some ts => .ok ts
    | none => .err

/-- the Go struct has no fields -/
def retained : Nat := 0

def runDec : List Pkt → List (DecRes (List Bytes))
  | [] => []
  | p :: ps => decode p :: runDec ps

end Rtsp.Codec.MpegTs
