import Rtsp.Model.Rtp
import Rtsp.Generated.Facts.CodecMisc
/-
Model of /repo/pkg/format/rtpklv (encoder.go, decoder.go; RFC 6597): a KLV unit is one byte string,
cut into pieces of at most PayloadMaxSize bytes; the marker closes the unit.  The decoder keeps one
growing buffer, tracks sequence numbers and the timestamp of the unit being assembled, and also
returns early when the size declared by the first KLV item is reached.  Core Lean only.

This is the VALUE-level model (buffer : Bytes).  The aliasing behaviour of the Go `[]byte` buffer is
modelled separately in `Model/Codec/KlvSlice.lean` over `Model/SliceSem.lean`.
-/
namespace Rtsp.Codec.Klv
open Rtsp.Rtp

/-! ### encoder -/

structure Enc where
  cfg : EncCfg
  seq : UInt16          -- sequenceNumber
deriving Repr

/-- number of packets of the fragmenting loop: ⌈le / avail⌉ -/
def packetCount (avail le : Nat) : Nat := le / avail + (if le % avail ≠ 0 then 1 else 0)

/-- the `for offset < len(unit)` loop: `n` packets still to emit; all but the last carry
`PayloadMaxSize` bytes and no marker, the last carries the rest and the marker. -/
def emit (c : EncCfg) : Nat → UInt16 → Bytes → List Pkt
  | 0, _, _ => []
  | 1, sq, rest => [{ pt := c.pt, seq := sq, ssrc := c.ssrc, marker := true, payload := rest }]
  | n + 2, sq, rest =>
    { pt := c.pt, seq := sq, ssrc := c.ssrc, marker := false, payload := rest.take c.max }
      :: emit c (n + 1) (sq + 1) (rest.drop c.max)

/-- `Encoder.Encode`.  `PayloadMaxSize ≥ 1` (0 is replaced by the default in `Init`, negative values
panic); the unit is documented to be non-empty (an empty one yields one empty packet). -/
def encode (e : Enc) (unit : Bytes) : Enc × List Pkt :=
  if unit.length ≤ e.cfg.max then
    ({ e with seq := e.seq + 1 },
      [{ pt := e.cfg.pt, seq := e.seq, ssrc := e.cfg.ssrc, marker := true, payload := unit }])
  else
    let n := packetCount e.cfg.max unit.length
    ({ e with seq := e.seq + UInt16.ofNat n }, emit e.cfg n e.seq unit)

/-! ### decoder -/

structure Dec where
  buffer    : Bytes  := []       -- len(d.buffer) bytes
  expected  : Int    := 0        -- expectedSize (Go int, 64 bit)
  curTs     : UInt32 := 0        -- currentTimestamp
  assembling : Bool  := false
  lastSeq   : UInt16 := 0        -- lastSeqNum
  firstRecv : Bool   := false    -- firstPacketReceived
deriving Repr, DecidableEq

/-- `reset()`: the buffer is cut to length 0 (`lastSeqNum` is kept). -/
def Dec.reset (d : Dec) : Dec :=
  { d with buffer := [], expected := 0, curTs := 0, assembling := false, firstRecv := false }

/-- `isKLVStart`: the 4-byte Universal Label prefix 06 0e 2b 34 -/
def isKLVStart (p : Bytes) : Bool :=
  match p with
  | a :: b :: c :: d :: _ => a == 0x06 && b == 0x0e && c == 0x2b && d == 0x34
  | _ => false

/-- big-endian value of a byte string -/
def beValue (bs : Bytes) : Nat := bs.foldl (fun acc b => acc * 256 + b.toNat) 0

/-- `parseKLVLength(data)` (BER length, SMPTE ST 336): `some (value, bytes used)`; `data` is
non-empty at the only call site. -/
def parseKLVLength (data : Bytes) : Option (Nat × Nat) :=
  match data with
  | [] => none
  | b :: rest =>
    if b.toNat < 128 then some (b.toNat, 1)
    else
      let lb := b.toNat - 128
      if lb = 0 ∨ lb > 8 then none
      else if 1 + lb > data.length then none
      else some (beValue (rest.take lb) % 2 ^ 64, 1 + lb)

/-- Go `int(x)` of a 64-bit unsigned quantity / wrapping `int` addition -/
def toInt64 (n : Nat) : Int :=
  let m : Nat := n % 2 ^ 64
  if m < 2 ^ 63 then (m : Int) else (m : Int) - 2 ^ 64

/-- the size declared by the first KLV item of a starting payload (`none` = unknown: payload shorter
than 17 bytes or length field unreadable) -/
def declaredSize (payload : Bytes) : Option Int :=
  if payload.length ≥ 17 then
    match parseKLVLength (payload.drop 16) with
    | some (v, ls) => some (toInt64 (16 + ls + v))
    | none => none
  else none

/-- the tail of `Decode` shared by both branches -/
def finish (d : Dec) (marker : Bool) : Dec × DecRes Bytes :=
  if marker then (d.reset, .ok d.buffer)
  else if d.expected > 0 ∧ (d.buffer.length : Int) ≥ d.expected then
    (d.reset, .ok (d.buffer.take d.expected.toNat))
  else (d, .more)

/-- `Decoder.Decode` -/
def decode (d : Dec) (p : Pkt) : Dec × DecRes Bytes :=
  if d.firstRecv ∧ p.seq ≠ d.lastSeq + 1 then (d.reset, .err)
  else
    let d := { d with lastSeq := p.seq, firstRecv := true }
    if !d.assembling then
      if !isKLVStart p.payload then (d, .nonStart)
      else
        let d := { d with curTs := p.ts, assembling := true, buffer := p.payload }
        let d := match declaredSize p.payload with
          | some s => { d with expected := s }
          | none => d
        finish d p.marker
    else if p.ts ≠ d.curTs then (d.reset, .err)
    else finish { d with buffer := d.buffer ++ p.payload } p.marker

/-- bytes the decoder state keeps referenced between calls (`len(d.buffer)`) -/
def retained (d : Dec) : Nat := d.buffer.length

def runDec (d : Dec) : List Pkt → Dec × List (DecRes Bytes)
  | [] => (d, [])
  | p :: ps =>
    let (d1, r) := decode d p
    let (d2, rs) := runDec d1 ps
    (d2, r :: rs)

end Rtsp.Codec.Klv
