import Rtsp.Model.Rtp
import Rtsp.Model.Codec.MjpegTables
import Rtsp.Generated.Facts.CodecMisc
/-
Model of /repo/pkg/format/rtpmjpeg (encoder.go, decoder.go, header_jpeg.go,
header_quantization_table.go; RFC 2435).  The encoder's input is the *parsed* JPEG (what the
segment walk at the top of `Encode` extracts with mediacommon's jpeg package — that walk is a
parameter, see trusted base): type, width, height, the quantisation tables sorted by id, and the
bytes after the SOS header.  Images with a DRI segment are outside the model (the encoder emits
Type+64, which the decoder documents as unsupported).  The decoder is modelled completely,
including the JPEG headers it rebuilds with mediacommon's `Marshal` functions.  Core Lean only.
-/
namespace Rtsp.Codec.Mjpeg
open Rtsp.Rtp Rtsp.Facts

abbrev payloadType : UInt8 := UInt8.ofNat CodecMisc.mjpegPayloadType

/-- what `Encode` extracts from the image -/
structure Jpeg where
  typ    : UInt8          -- sof.Type (0: 4:2:2, 1: 4:2:0)
  width  : Nat
  height : Nat
  tables : List Bytes     -- quantisation tables in the order of their ids
  data   : Bytes          -- entropy-coded data: everything after the SOS header
deriving Repr, DecidableEq

/-! ### headers -/

/-- `headerJPEG.marshal` with TypeSpecific 0 and Quantization 255 -/
def jhBytes (j : Jpeg) (offset : Nat) : Bytes :=
  [0, UInt8.ofNat (offset / 65536), UInt8.ofNat (offset / 256), UInt8.ofNat offset,
   j.typ, 255, UInt8.ofNat (j.width / 8), UInt8.ofNat (j.height / 8)]

/-- `headerQuantizationTable.marshal` (MBZ 0, Precision 0, length = 64 · number of tables) -/
def qtBytes (tables : List Bytes) : Bytes :=
  let l := tables.length * 64
  [0, 0, UInt8.ofNat (l / 256), UInt8.ofNat l] ++ tables.flatten

/-- `headerQuantizationTable.unmarshal`: tables and bytes consumed -/
def qtParse (b : Bytes) : Option (List Bytes × Nat) :=
  if b.length < 4 then none
  else if b.getD 1 0 ≠ 0 then none
  else
    let length := (b.getD 2 0).toNat * 256 + (b.getD 3 0).toNat
    if length ≠ 64 ∧ length ≠ 128 then none
    else if b.length - 4 < length then none
    else if length = 64 then some ([(b.drop 4).take 64], 68)
    else some ([(b.drop 4).take 64, (b.drop 68).take 64], 132)

/-! ### encoder -/

structure Enc where
  cfg : EncCfg          -- cfg.pt is ignored by the Go code (payload type 26 is fixed)
  seq : UInt16
deriving Repr

/-- the `for { … }` loop of `Encode`; `none` = the Go code panics (header does not fit:
`data[:remaining]` with negative `remaining`) or does not terminate (fuel exhausted: only when
`PayloadMaxSize ≤ 8`; see `Proofs`). -/
def emit (c : EncCfg) (j : Jpeg) : Nat → Bool → Nat → UInt16 → Bytes → Option (List Pkt)
  | 0, _, _, _, _ => none
  | fuel + 1, first, off, sq, data =>
    let hdr := jhBytes j off ++ (if first then qtBytes j.tables else [])
    if c.max < hdr.length then none
    else
      let remaining := min (c.max - hdr.length) data.length
      let rest := data.drop remaining
      let p : Pkt := { pt := payloadType, seq := sq, ssrc := c.ssrc, marker := rest.isEmpty,
                       payload := hdr ++ data.take remaining }
      if rest.isEmpty then some [p]
      else (emit c j fuel false (off + remaining) (sq + 1) rest).map (p :: ·)

/-- `Encoder.Encode` after the segment walk -/
def encode (e : Enc) (j : Jpeg) : Enc × Option (List Pkt) :=
  match emit e.cfg j (j.data.length + 2) true 0 e.seq j.data with
  | some ps => ({ e with seq := e.seq + UInt16.ofNat ps.length }, some ps)
  | none => (e, none)

/-! ### decoder -/

/-- `firstJpegHeader` (the fields used after the first packet) -/
structure JHdr where
  typ    : UInt8
  width  : Nat
  height : Nat
deriving Repr, DecidableEq

structure Dec where
  firstRecv : Bool := false         -- firstPacketReceived
  fragments : List Bytes := []
  fragSize  : Nat := 0              -- fragmentsSize
  hdr       : Option JHdr := none   -- firstJpegHeader (nil until the first start packet)
  tables    : List Bytes := []      -- quantizationTables
deriving Repr, DecidableEq

def Dec.resetFragments (d : Dec) : Dec := { d with fragments := [], fragSize := 0 }

def joinFragments (fragments : List Bytes) (size : Nat) : Bytes :=
  let j := fragments.flatten
  j.take size ++ List.replicate (size - j.length) 0

/-- one entry of `makeQuantizationTables`: Go `int` arithmetic (truncated division), clamped,
then `byte(v)` -/
def quantEntry (scale : Int) (base : Int) : UInt8 :=
  let v := Int.tdiv (base * scale + 50) 100
  let v := if v > 255 then 255 else if v = 0 then 1 else v
  UInt8.ofNat (v % 256).toNat

/-- `makeQuantizationTables(q)` -/
def makeQuantizationTables (q : UInt8) : List Bytes :=
  let scale : Int := if q.toNat < 50 then Int.tdiv 5000 q.toNat else 200 - 2 * (q.toNat : Int)
  [lumaQuantizers.map (quantEntry scale), chromaQuantizers.map (quantEntry scale)]

/-! mediacommon `jpeg.*.Marshal` -/

def be16 (n : Nat) : Bytes := [UInt8.ofNat (n / 256), UInt8.ofNat n]

def soi : Bytes := [0xFF, UInt8.ofNat CodecMisc.markerJpegSOI]
def eoi : Bytes := [0xFF, UInt8.ofNat CodecMisc.markerJpegEOI]

/-- `DefineQuantizationTable.Marshal` with ids 0, 1, … -/
def dqtBody : Nat → List Bytes → Bytes
  | _, [] => []
  | id, t :: ts => UInt8.ofNat id :: t ++ dqtBody (id + 1) ts

def dqt (tables : List Bytes) : Bytes :=
  [0xFF, UInt8.ofNat CodecMisc.markerJpegDQT]
    ++ be16 (2 + (tables.map fun t => 1 + t.length).sum) ++ dqtBody 0 tables

/-- `StartOfFrame1.Marshal` -/
def sof (h : JHdr) (tableCount : Nat) : Bytes :=
  let second : UInt8 := if tableCount % 256 = 2 then 1 else 0
  [0xFF, UInt8.ofNat CodecMisc.markerJpegSOF1, 0, 17, 8]
    ++ be16 h.height ++ be16 h.width ++ [3]
    ++ (if h.typ &&& 0x3f = 0 then [0x00, 0x21, 0] else [0x00, 0x22, 0])
    ++ [1, 0x11, second, 2, 0x11, second]

/-- `DefineHuffmanTable.Marshal` -/
def dht (codes symbols : Bytes) (number cls : Nat) : Bytes :=
  [0xFF, UInt8.ofNat CodecMisc.markerJpegDHT] ++ be16 (3 + codes.length + symbols.length)
    ++ [UInt8.ofNat (cls * 16) ||| UInt8.ofNat number] ++ codes ++ symbols

def dhts : Bytes :=
  dht lumDcCodeLens lumDcSymbols 0 0 ++ dht lumAcCodeLens lumAcSymbols 0 1
    ++ dht chmDcCodeLens chmDcSymbols 1 0 ++ dht chmAcCodeLens chmAcSymbols 1 1

/-- `StartOfScan.Marshal` -/
def sos : Bytes :=
  [0xFF, UInt8.ofNat CodecMisc.markerJpegSOS, 0, 12, 3, 0, 0, 1, 0x11, 2, 0x11, 0, 63, 0]

/-- does `data` (at least 2 bytes) end with FF D9 -/
def endsWithEOI (data : Bytes) : Bool := data.drop (data.length - 2) == eoi

/-- the image the decoder assembles at the marker -/
def buildJpeg (h : JHdr) (tables : List Bytes) (data : Bytes) : Bytes :=
  soi ++ dqt tables ++ sof h tables.length ++ dhts ++ sos ++ data
    ++ (if endsWithEOI data then [] else eoi)

/-- first half of `Decode` (after the JPEG header has been read): store the fragment; `.error` =
early return -/
def store (d : Dec) (q : UInt8) (off : Nat) (jh : JHdr) (body : Bytes) : Except (Dec × DecRes Bytes) Dec :=
  if off = 0 then
    let d1 := { d.resetFragments with firstRecv := true }
    if q.toNat ≥ 128 then
      match qtParse body with
      | none => .error (d1, .err)
      | some (ts, n) =>
        .ok { d1 with tables := ts, fragments := d1.fragments ++ [body.drop n],
                      fragSize := (body.drop n).length, hdr := some jh }
    else
      .ok { d1 with tables := makeQuantizationTables q, fragments := d1.fragments ++ [body],
                    fragSize := body.length, hdr := some jh }
  else if off ≠ d.fragSize then
    if !d.firstRecv then .error (d, .nonStart) else .error (d.resetFragments, .err)
  else if body.length = 0 then .error (d.resetFragments, .err)   -- header-only fragment
  else
    .ok { d with fragSize := d.fragSize + body.length, fragments := d.fragments ++ [body] }

/-- second half of `Decode`: at the marker the image is assembled -/
def finish (d : Dec) (marker : Bool) : Dec × DecRes Bytes :=
  if !marker then (d, .more)
  else if d.fragSize < 2 then (d, .err)
  else
    let data := joinFragments d.fragments d.fragSize
    match d.hdr with
    | none => (d.resetFragments, .err)   -- nil dereference in Go; unreachable (Proofs: Inv)
    | some h => (d.resetFragments, .ok (buildJpeg h d.tables data))

/-- `Decoder.Decode` -/
def decode (d : Dec) (p : Pkt) : Dec × DecRes Bytes :=
  let b := p.payload
  if b.length < 8 then (d, .err)
  else
    let typ := b.getD 4 0
    let q := b.getD 5 0
    if typ.toNat > CodecMisc.mjpegMaxType then (d, .err)
    else if q = 0 ∨ (q.toNat > 99 ∧ q.toNat < 127) then (d, .err)
    else
      let off := (b.getD 1 0).toNat * 65536 + (b.getD 2 0).toNat * 256 + (b.getD 3 0).toNat
      let jh : JHdr := { typ := typ, width := (b.getD 6 0).toNat * 8, height := (b.getD 7 0).toNat * 8 }
      match store d q off jh (b.drop 8) with
      | .error r => r
      | .ok d' => finish d' p.marker

/-- bytes the decoder state keeps referenced between calls -/
def retained (d : Dec) : Nat := totalLen d.fragments + totalLen d.tables

def runDec (d : Dec) : List Pkt → Dec × List (DecRes Bytes)
  | [] => (d, [])
  | p :: ps =>
    let (d1, r) := decode d p
    let (d2, rs) := runDec d1 ps
    (d2, r :: rs)

end Rtsp.Codec.Mjpeg
