import Rtsp.Model.Codec.AudioCommon
import Rtsp.Generated.Facts.CodecAudio
/-
Model of /repo/pkg/format/rtpmpeg1audio (encoder.go, decoder.go): RFC 2250 audio.  4-byte payload
header (MBZ, fragment offset), frames aggregated while they fit, an oversize frame fragmented by
offset.  mediacommon's `mpeg1audio.FrameHeader` (Unmarshal / FrameLen / SampleCount) is modelled in
full.  Core Lean only.
-/
namespace Rtsp.Codec.Mpeg1Audio
open Rtsp.Rtp Rtsp.Facts Rtsp.Codec.Audio

/-! ### mediacommon `mpeg1audio.FrameHeader` -/

/-- `bitrates[mpegIndex][layer-1]` for layer 2 / 3 (layer 1 is rejected before the lookup) -/
def bitrates (mpeg2 : Bool) (layer : Nat) : List Nat :=
  if !mpeg2 then
    if layer = 2 then [32000, 48000, 56000, 64000, 80000, 96000, 112000, 128000, 160000, 192000, 224000, 256000, 320000, 384000]
    else [32000, 40000, 48000, 56000, 64000, 80000, 96000, 112000, 128000, 160000, 192000, 224000, 256000, 320000]
  else [8000, 16000, 24000, 32000, 40000, 48000, 56000, 64000, 80000, 96000, 112000, 128000, 144000, 160000]

def sampleRates (mpeg2 : Bool) : List Nat :=
  if !mpeg2 then [44100, 48000, 32000] else [22050, 24000, 16000]

/-- `samplesPerFrame[mpegIndex][layer-1]` -/
def samplesPerFrame (mpeg2 : Bool) (layer : Nat) : Nat :=
  if layer = 1 then 384 else if layer = 2 then 1152 else if mpeg2 then 576 else 1152

structure Hdr where
  frameLen    : Nat
  sampleCount : Nat
deriving Repr, DecidableEq

/-- `FrameHeader.Unmarshal` followed by `FrameLen()` / `SampleCount()` -/
def parseHeader (buf : Bytes) : Option Hdr :=
  if buf.length < 5 then none
  else
    let b0 := buf.getD 0 0; let b1 := buf.getD 1 0; let b2 := buf.getD 2 0
    if ¬ (b0 = 0xFF ∧ b1 >>> 4 = 0xF) then none                  -- sync word
    else
      let mpeg2 := ((b1 >>> 3) &&& 0x01) == 0
      let layer := 4 - ((b1 >>> 1) &&& 0x03).toNat
      if layer ≤ 1 ∨ layer ≥ 4 then none
      else
        let bi := (b2 >>> 4).toNat
        if bi = 0 ∨ bi ≥ 15 then none
        else
          let bitrate := (bitrates mpeg2 layer).getD (bi - 1) 0
          let si := ((b2 >>> 2) &&& 0x03).toNat
          if si ≥ 3 then none
          else
            let sampleRate := (sampleRates mpeg2).getD si 1
            let padding := ((b2 >>> 1) &&& 0x01) != 0
            some { frameLen := CodecAudio.mpeg1audioFrameLenFactor * bitrate / sampleRate + (if padding then 1 else 0),
                   sampleCount := samplesPerFrame mpeg2 layer }

/-! ### encoder -/

/-- the payload type is the constant `payloadType = 14` of the package (static RTP/AVP assignment
for MPA); `EncCfg.pt` is not used by this format -/
def payloadType : UInt8 := UInt8.ofNat CodecAudio.mpeg1audioPayloadType

structure Enc where
  cfg : EncCfg
  seq : UInt16
deriving Repr

def lenAggregated (frames : List Bytes) (add : Option Bytes) : Nat :=
  4 + totalLen frames + (match add with | some a => a.length | none => 0)

def writeAggregated (c : EncCfg) (frames : List Bytes) (ts : UInt32) (sq : UInt16) : List Pkt :=
  [{ pt := payloadType, seq := sq, ts := ts, ssrc := c.ssrc, marker := true,
     payload := [0, 0, 0, 0] ++ frames.flatten }]

/-- the `for i := range ret` loop of `writeFragmented`: `n` packets still to emit, `pos` bytes
already sent, `rest = frame[pos:]` -/
def emitFrag (c : EncCfg) (ts : UInt32) (avail : Nat) : Nat → UInt16 → Nat → Bytes → List Pkt
  | 0, _, _, _ => []
  | 1, sq, pos, rest =>
    [{ pt := payloadType, seq := sq, ts := ts, ssrc := c.ssrc, marker := true,
       payload := [0, 0] ++ be16 pos ++ rest }]
  | n + 2, sq, pos, rest =>
    { pt := payloadType, seq := sq, ts := ts, ssrc := c.ssrc, marker := true,
      payload := [0, 0] ++ be16 pos ++ rest.take avail }
      :: emitFrag c ts avail (n + 1) (sq + 1) (pos + (rest.take avail).length) (rest.drop avail)

def writeFragmented (c : EncCfg) (frame : Bytes) (ts : UInt32) (sq : UInt16) : List Pkt :=
  let avail := c.max - CodecAudio.mpeg1audioFragHeaderBytes
  emitFrag c ts avail (packetCount avail frame.length) sq 0 frame

def writeBatch (c : EncCfg) (frames : List Bytes) (ts : UInt32) (sq : UInt16) : List Pkt :=
  match frames with
  | [f] => if lenAggregated [f] none < c.max then writeAggregated c frames ts sq
           else writeFragmented c f ts sq
  | _ => writeAggregated c frames ts sq

/-- `for _, frame := range batch { h.Unmarshal(frame) …; timestamp += uint32(h.SampleCount()) }` -/
def sampleSum : List Bytes → Option UInt32
  | [] => some 0
  | f :: rest =>
    match parseHeader f with
    | none => none
    | some h => (sampleSum rest).map (UInt32.ofNat h.sampleCount + ·)

def ops (c : EncCfg) : BatchOps where
  fits batch f := lenAggregated batch (some f) ≤ c.max
  write := writeBatch c
  tsInc := sampleSum

/-- `Encoder.Encode` -/
def encode (e : Enc) (frames : List Bytes) : Enc × Option (List Pkt) :=
  let (r, sq) := batchLoop (ops e.cfg) frames [] 0 e.seq
  ({ e with seq := sq }, r)

/-! ### decoder -/

structure Dec where
  first     : Bool := false        -- firstPacketReceived
  fragments : List Bytes := []
  size      : Nat := 0             -- fragmentsSize
  expected  : Int := 0             -- fragmentsExpected
deriving Repr, DecidableEq

def Dec.reset (d : Dec) : Dec := { d with fragments := [], size := 0 }

/-- the `for {}` loop of the `offset == 0` branch; `frames` = collected so far.  Fuel: every
iteration that continues consumes `FrameLen() ≥ 1` bytes. -/
def splitFrames (d : Dec) : Nat → Bytes → List Bytes → Dec × DecRes (List Bytes)
  | 0, _, _ => (d, .err)
  | f + 1, buf, frames =>
    match parseHeader buf with
    | none => (d, .err)
    | some h =>
      if buf.length ≥ h.frameLen then
        let frames := frames ++ [buf.take h.frameLen]
        let buf := buf.drop h.frameLen
        if buf.length = 0 then (d, .ok frames)
        else splitFrames d f buf frames
      else if frames.length ≠ 0 then (d, .err)
      else ({ d with fragments := d.fragments ++ [buf], size := buf.length,
                     expected := (h.frameLen : Int) - buf.length }, .more)

/-- `Decoder.Decode` -/
def decode (d : Dec) (p : Pkt) : Dec × DecRes (List Bytes) :=
  if p.payload.length < 5 then (d.reset, .err)
  else if (p.payload.getD 0 0).toNat * 256 + (p.payload.getD 1 0).toNat ≠ 0 then (d.reset, .err)
  else
    let offset := (p.payload.getD 2 0).toNat * 256 + (p.payload.getD 3 0).toNat
    let body := p.payload.drop 4
    if offset = 0 then
      let d := { d.reset with first := true }
      splitFrames d (body.length + 1) body []
    else if offset ≠ d.size then
      if !d.first then (d, .nonStart) else (d.reset, .err)
    else
      let d := { d with size := d.size + body.length, expected := d.expected - body.length }
      if d.expected < 0 then (d.reset, .err)
      else
        let d := { d with fragments := d.fragments ++ [body] }
        if d.expected > 0 then (d, .more)
        else (d.reset, .ok [joinFragments d.fragments d.size])

def retained (d : Dec) : Nat := totalLen d.fragments

def runDec : Dec → List Pkt → Dec × List (DecRes (List Bytes)) := runDecGen decode

end Rtsp.Codec.Mpeg1Audio
