import Rtsp.Model.Rtp
import Rtsp.Generated.Facts.CodecMisc
/-
Model of /repo/pkg/format/rtpmpeg1video (encoder.go, decoder.go; RFC 2250 §3.4): a frame is split
into slices at the `00 00 01` start codes; slices are aggregated while they fit, a slice that does
not fit alone is fragmented; every packet starts with the 4-byte MPEG video-specific header
(temporal reference, begin-of-sequence / begin-of-slice / end-of-slice bits, picture type).
Core Lean only.
-/
namespace Rtsp.Codec.Mpeg1Video
open Rtsp.Rtp Rtsp.Facts

abbrev maxFrameSize : Nat := CodecMisc.mpeg1videoMaxFrameSize
abbrev payloadType : UInt8 := UInt8.ofNat CodecMisc.mpeg1videoPayloadType

/-! ### slice splitting (shared by the encoder loop and the decoder's `validateFrame`) -/

/-- `bytes.Index(b, []byte{0, 0, 1})` -/
def index001 : Bytes → Option Nat
  | [] => none
  | a :: t =>
    if a = 0 ∧ t.take 2 = [0, 1] then some 0
    else (index001 t).map (· + 1)

/-- the `for { … bytes.Index(frame[4:], 001) … }` loop of `Encode` / `validateFrame`: the list of
slices, or `none` where the Go code fails (`validateFrame`: "frame is too short"; `Encode`: slice
expression out of range) because a piece has fewer than 4 bytes.  `fuel` bounds the iterations
(every iteration consumes at least 4 bytes; see `Proofs`: never exhausted from `split`). -/
def splitAux : Nat → Bytes → Option (List Bytes)
  | 0, _ => none
  | fuel + 1, frame =>
    if frame.length < 4 then none
    else match index001 (frame.drop 4) with
      | some e => (splitAux fuel (frame.drop (e + 4))).map (frame.take (e + 4) :: ·)
      | none => some [frame]

def split (frame : Bytes) : Option (List Bytes) := splitAux (frame.length + 1) frame

/-! ### encoder -/

structure Enc where
  cfg : EncCfg          -- cfg.pt is ignored by the Go code (payload type 32 is fixed)
  seq : UInt16
deriving Repr

/-- the values that go into the video-specific header -/
structure Hdr where
  tr  : UInt16 := 0     -- temporalReference
  bos : Bool := false   -- beginOfSequence
  ft  : UInt8 := 0      -- frameType
deriving Repr, DecidableEq

def b2u (b : Bool) : UInt8 := if b then 1 else 0

/-- the 4 header bytes: `tr>>8, tr, bos<<5 | start<<4 | end<<3 | frameType, 0` -/
def hdrBytes (h : Hdr) (bos start fin : Bool) : Bytes :=
  [(h.tr >>> 8).toUInt8, h.tr.toUInt8,
   (b2u bos <<< 5) ||| (b2u start <<< 4) ||| (b2u fin <<< 3) ||| h.ft, 0]

/-- `lenAggregated(slices, slice)` -/
def lenAgg (slices : List Bytes) (slice : Bytes) : Nat := 4 + slice.length + totalLen slices

def packetCount (avail le : Nat) : Nat := le / avail + (if le % avail ≠ 0 then 1 else 0)

def mkPkt (c : EncCfg) (sq : UInt16) (payload : Bytes) : Pkt :=
  { pt := payloadType, seq := sq, ssrc := c.ssrc, marker := false, payload := payload }

/-- `writeAggregated`: `make([]byte, lenAggregated(slices, nil))`, header, then the slices -/
def writeAggregated (c : EncCfg) (slices : List Bytes) (h : Hdr) (sq : UInt16) : List Pkt :=
  [mkPkt c sq (hdrBytes h h.bos true true ++ slices.flatten)]

/-- the loop of `writeFragmented`: `n` packets still to emit; all but the last take `avail` bytes;
the begin-of-sequence bit and the begin-of-slice bit only on the first -/
def emitFrag (c : EncCfg) (h : Hdr) : Nat → Bool → Bool → UInt16 → Bytes → List Pkt
  | 0, _, _, _, _ => []
  | 1, first, bos, sq, rest => [mkPkt c sq (hdrBytes h bos first true ++ rest)]
  | n + 2, first, bos, sq, rest =>
    mkPkt c sq (hdrBytes h bos first false ++ rest.take (c.max - 4))
      :: emitFrag c h (n + 1) false false (sq + 1) (rest.drop (c.max - 4))

def writeFragmented (c : EncCfg) (slice : Bytes) (h : Hdr) (sq : UInt16) : List Pkt :=
  emitFrag c h (packetCount (c.max - 4) slice.length) true h.bos sq slice

/-- `writeBatch` -/
def writeBatch (c : EncCfg) (slices : List Bytes) (h : Hdr) (sq : UInt16) : List Pkt :=
  match slices with
  | [s] => if lenAgg [s] [] < c.max then writeAggregated c slices h sq else writeFragmented c s h sq
  | _ => writeAggregated c slices h sq

/-- loop state of `Encode` -/
structure St where
  batch : List Bytes := []     -- nil ⇔ [] (a non-nil batch is never empty)
  h     : Hdr := {}
  seq   : UInt16
  out   : List Pkt := []
  bad   : Bool := false        -- `return nil, fmt.Errorf("invalid slice")`
deriving Repr

/-- one iteration of the `for` loop of `Encode`, for the slice `s` (at least 4 bytes) -/
def step (c : EncCfg) (st : St) (s : Bytes) : St :=
  if st.bad then st else
  let st1 : St :=
    if lenAgg st.batch s ≤ c.max then { st with batch := st.batch ++ [s] }
    else if st.batch ≠ [] then
      let ps := writeBatch c st.batch st.h st.seq
      { st with out := st.out ++ ps, seq := st.seq + UInt16.ofNat ps.length,
                h := { st.h with bos := false }, batch := [s] }
    else { st with batch := [s] }
  let k := s.getD 3 0
  if k = 0 then
    if s.length < 6 then { st1 with bad := true }
    else { st1 with h := { st1.h with
            tr := ((s.getD 4 0).toUInt16 <<< 2) ||| ((s.getD 5 0).toUInt16 >>> 6),
            ft := ((s.getD 5 0) >>> 3) &&& 7 } }
  else if k = 0xB8 then { st1 with h := { st1.h with bos := true } }
  else st1

/-- `rets[len(rets)-1].Marker = true` -/
def markLast : List Pkt → List Pkt
  | [] => []
  | [p] => [{ p with marker := true }]
  | p :: ps => p :: markLast ps

/-- `Encoder.Encode`; `none` = error return ("invalid slice") or the documented panic for a frame
that is not a sequence of slices of at least 4 bytes.  `PayloadMaxSize ≥ 5`. -/
def encode (e : Enc) (frame : Bytes) : Enc × Option (List Pkt) :=
  match split frame with
  | none => (e, none)
  | some slices =>
    let st := slices.foldl (step e.cfg) { seq := e.seq }
    if st.bad then ({ e with seq := st.seq }, none)
    else
      let ps := writeBatch e.cfg st.batch st.h st.seq
      ({ e with seq := st.seq + UInt16.ofNat ps.length }, some (markLast (st.out ++ ps)))

/-! ### decoder -/

structure Dec where
  fragments : List Bytes := []
  fragSize  : Nat := 0           -- fragmentsSize
  nextSeq   : UInt16 := 0        -- fragmentNextSeqNum
  sliceBuf  : List Bytes := []   -- sliceBuffer
  sliceSize : Nat := 0           -- sliceBufferSize
deriving Repr, DecidableEq

def Dec.resetFragments (d : Dec) : Dec := { d with fragments := [], fragSize := 0 }

def joinFragments (fragments : List Bytes) (size : Nat) : Bytes :=
  let j := fragments.flatten
  j.take size ++ List.replicate (size - j.length) 0

inductive SliceErr where | more | nonStart | err
deriving DecidableEq, Repr

def SliceErr.toRes : SliceErr → DecRes Bytes
  | .more => .more | .nonStart => .nonStart | .err => .err

/-- `decodeSlice` -/
def decodeSlice (d : Dec) (p : Pkt) : Dec × Except SliceErr Bytes :=
  if p.payload.length < 4 then (d.resetFragments, .error .err)
  else
    let p0 := p.payload.getD 0 0
    let p2 := p.payload.getD 2 0
    if p0 >>> 3 ≠ 0 then (d.resetFragments, .error .err)              -- MBZ
    else if (p0 >>> 2) &&& 1 ≠ 0 then (d.resetFragments, .error .err)  -- T
    else if p2 >>> 7 ≠ 0 then (d.resetFragments, .error .err)          -- AN
    else if (p2 >>> 6) &&& 1 ≠ 0 then (d.resetFragments, .error .err)  -- N
    else
      let b := (p2 >>> 4) &&& 1
      let e := (p2 >>> 3) &&& 1
      let body := p.payload.drop 4
      if b = 1 ∧ e = 1 then
        if body.length = 0 then (d.resetFragments, .error .err)   -- header-only packet
        else (d.resetFragments, .ok body)
      else if b = 1 then
        ({ d with fragments := [body], fragSize := body.length, nextSeq := p.seq + 1 }, .error .more)
      else if d.fragSize = 0 then (d, .error .nonStart)
      else if p.seq ≠ d.nextSeq then (d.resetFragments, .error .err)
      else if body.length = 0 then (d.resetFragments, .error .err)   -- header-only fragment
      else
        let sz := d.fragSize + body.length
        if d.sliceSize + sz > maxFrameSize then
          ({ d.resetFragments with sliceBuf := [], sliceSize := 0 }, .error .err)
        else
          let d' := { d with fragSize := sz, fragments := d.fragments ++ [body] }
          if e = 1 then (d'.resetFragments, .ok (joinFragments d'.fragments d'.fragSize))
          else ({ d' with nextSeq := d.nextSeq + 1 }, .error .more)

/-- `validateFrame` -/
def validateFrame (frame : Bytes) : Bool := (split frame).isSome

/-- `Decoder.Decode` -/
def decode (d : Dec) (p : Pkt) : Dec × DecRes Bytes :=
  match decodeSlice d p with
  | (d, .error e) => (d, e.toRes)
  | (d, .ok slice) =>
    if d.sliceSize + slice.length > maxFrameSize then
      ({ d with sliceBuf := [], sliceSize := 0 }, .err)
    else
      let d := { d with sliceBuf := d.sliceBuf ++ [slice], sliceSize := d.sliceSize + slice.length }
      if !p.marker then (d, .more)
      else
        let ret := joinFragments d.sliceBuf d.sliceSize
        let d := { d with sliceBuf := [], sliceSize := 0 }
        if validateFrame ret then (d, .ok ret) else (d, .err)

/-- bytes the decoder state keeps referenced between calls -/
def retained (d : Dec) : Nat := totalLen d.fragments + totalLen d.sliceBuf

def runDec (d : Dec) : List Pkt → Dec × List (DecRes Bytes)
  | [] => (d, [])
  | p :: ps =>
    let (d1, r) := decode d p
    let (d2, rs) := runDec d1 ps
    (d2, r :: rs)

end Rtsp.Codec.Mpeg1Video
