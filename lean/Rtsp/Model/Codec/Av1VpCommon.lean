import Rtsp.Model.Rtp
/-
Pieces shared by the AV1 / VP8 / VP9 models (core Lean only).
-/
namespace Rtsp.Codec.Av1Vp
open Rtsp.Rtp

/-- Go `joinFragments(fragments, size)` (identical in rtpav1, rtpvp8, rtpvp9): `make([]byte, size)`
then `copy` of every fragment (cut / zero padded if the sizes disagree; under the decoder
invariants they never do). -/
def joinFragments (fragments : List Bytes) (size : Nat) : Bytes :=
  let j := fragments.flatten
  j.take size ++ List.replicate (size - j.length) 0

/-- the fragmentation loop of the pion payloaders: cut `rest` into pieces of `k` bytes (the last one
shorter).  `fuel` ≥ `rest.length` is enough when `k > 0` (lemma `chunks_fuel`). -/
def chunks (k : Nat) : Nat → Bytes → List Bytes
  | 0, _ => []
  | fuel + 1, rest =>
    if rest.isEmpty then [] else rest.take k :: chunks k fuel (rest.drop k)

/-- the `for i, payload := range payloads` loop of the VP8 / VP9 `Encode` (identical in both):
one packet per payload, consecutive sequence numbers, marker on the last -/
def emit (c : EncCfg) : UInt16 → List Bytes → List Pkt
  | _, [] => []
  | sq, [pl] => [{ pt := c.pt, seq := sq, ssrc := c.ssrc, marker := true, payload := pl }]
  | sq, pl :: rest =>
    { pt := c.pt, seq := sq, ssrc := c.ssrc, marker := false, payload := pl } :: emit c (sq + 1) rest

/-- test of one bit of a byte: Go `b & mask != 0` -/
@[inline] def tb (b : UInt8) (mask : UInt8) : Bool := (b &&& mask) != 0

end Rtsp.Codec.Av1Vp
