import Rtsp.Model.Codec.H26xCommon
import Rtsp.Generated.Facts.CodecH26x
/-
Model of /repo/pkg/format/rtph264 (encoder.go, decoder.go) and of `format.H264.PTSEqualsDTS`
(/repo/pkg/format/h264.go), including mediacommon's `h264.AnnexB.Unmarshal`.  Core Lean only.
An access unit is a `List Bytes` (NALUs).
-/
namespace Rtsp.Codec.H264
open Rtsp.Rtp Rtsp.Codec.H26x Rtsp.Facts

abbrev maxAU : Nat := CodecH26x.h264MaxAccessUnitSize
abbrev maxNALUs : Nat := CodecH26x.h264MaxNALUsPerAccessUnit

/-! ### encoder -/

structure Enc where
  cfg : EncCfg
  seq : UInt16          -- sequenceNumber
deriving Repr

/-- FU indicator + FU header of `writeFragmented` for a NALU whose first byte is `h` -/
def fuHdr (h : UInt8) (st en : Bool) : Bytes :=
  let nri := (h >>> 5) &&& 0x03
  let typ := h &&& 0x1F
  [ (nri <<< 5) ||| UInt8.ofNat CodecH26x.h264TypeFUA,
    ((if st then 1 else 0 : UInt8) <<< 7) ||| ((if en then 1 else 0 : UInt8) <<< 6) ||| typ ]

/-- `writeFragmented` (the NALU is non-empty; Go panics on `nalu[0]` otherwise) -/
def writeFragmented (max : Nat) (nalu : Bytes) (marker : Bool) : List Item :=
  let avail := max - CodecH26x.h264FuHeaderLen
  let le := nalu.length - 1
  emitFU (fuHdr (nalu.headD 0)) avail marker (packetCount avail le) true (nalu.drop 1)

/-- `writeAggregated` -/
def writeAggregated (nalus : List Bytes) (marker : Bool) : List Item :=
  [(marker, UInt8.ofNat CodecH26x.h264TypeSTAPA :: aggBody nalus)]

/-- `writeBatch` -/
def writeBatch (max : Nat) (nalus : List Bytes) (marker : Bool) : List Item :=
  match nalus with
  | [n] => if n.length < max then [(marker, n)] else writeFragmented max n marker
  | _ => writeAggregated nalus marker

/-- all batches of one access unit: every batch but the last with `marker = false` -/
def writeBatches (max : Nat) : List (List Bytes) → List Item
  | [] => []
  | [b] => writeBatch max b true
  | b :: bs => writeBatch max b false ++ writeBatches max bs

def encodeItems (max : Nat) (au : List Bytes) : List Item :=
  writeBatches max (splitBatches 1 max [] au)

/-- `Encoder.Encode`.  Documented precondition: at least one NALU, every NALU non-empty;
`PayloadMaxSize ≥ 3` (2 divides by zero in `packetCount`). -/
def encode (e : Enc) (au : List Bytes) : Enc × List Pkt :=
  let items := encodeItems e.cfg.max au
  ({ e with seq := e.seq + UInt16.ofNat items.length }, number e.cfg e.seq items)

/-! ### validity predicates (the encoder's documented precondition, made exact) -/

/-- `PayloadMaxSize ≥ 3` (2 divides by zero in `packetCount`, below that `avail` is negative) and
at most 65535 (a UDP datagram cannot carry more; keeps the 16-bit STAP-A size prefix exact). -/
def ValidCfg (c : EncCfg) : Prop := 3 ≤ c.max ∧ c.max ≤ 65535

/-- a NALU the codec transports unchanged: non-empty, forbidden_zero_bit clear (the FU indicator
does not carry it), type not one of the RTP aggregation / fragmentation types 24..29, and no
`00 00 01` inside (`splitNALUs` / Annex-B detection would cut it). -/
def ValidNalu (n : Bytes) : Prop :=
  n ≠ [] ∧ n.headD 0 &&& 0x80 = 0 ∧
  ¬ (24 ≤ (n.headD 0 &&& 0x1F).toNat ∧ (n.headD 0 &&& 0x1F).toNat ≤ 29) ∧
  findSC n = none

/-- an access unit: 1..MaxNALUsPerAccessUnit valid NALUs, at most MaxAccessUnitSize bytes -/
def ValidFrame (au : List Bytes) : Prop :=
  au ≠ [] ∧ au.length ≤ maxNALUs ∧ totalLen au ≤ maxAU ∧ ∀ n ∈ au, ValidNalu n

instance (c : EncCfg) : Decidable (ValidCfg c) := by unfold ValidCfg; infer_instance
instance (n : Bytes) : Decidable (ValidNalu n) := by unfold ValidNalu; infer_instance
instance (au : List Bytes) : Decidable (ValidFrame au) := by unfold ValidFrame; infer_instance

/-! ### decoder -/

structure Dec where
  firstPacketReceived  : Bool := false
  fragments            : List Bytes := []
  fragmentsSize        : Nat := 0
  fragmentNextSeqNum   : UInt16 := 0
  annexBMode           : Bool := false
  frameBuffer          : List Bytes := []     -- Go nil ⇔ [] (it is never non-nil and empty)
  frameBufferLen       : Nat := 0
  frameBufferSize      : Nat := 0
  frameBufferTimestamp : UInt32 := 0
deriving Repr, DecidableEq

def Dec.resetFragments (d : Dec) : Dec := { d with fragments := [], fragmentsSize := 0 }

def Dec.resetFrameBuffer (d : Dec) : Dec :=
  { d with frameBuffer := [], frameBufferLen := 0, frameBufferSize := 0 }

/-- the loop of mediacommon `h264.AnnexB.Unmarshal` after the initial delimiter: `rest` is
`buf[pos:]`, `acc` the NALUs found so far, `sz` is `auSize`.  `none` = error. -/
def annexBLoop : Nat → Bytes → List Bytes → Nat → Option (List Bytes)
  | 0, _, acc, _ => some acc
  | fuel + 1, rest, acc, sz =>
    if rest.length = 0 then some acc
    else
      match findSC rest with
      | none =>
        if sz + rest.length > maxAU then none else some (acc ++ [rest])
      | some i =>
        let naluEnd := pieceEnd rest i
        if naluEnd > 0 then
          if sz + naluEnd > maxAU then none
          else annexBLoop fuel (rest.drop (i + 3)) (acc ++ [rest.take naluEnd]) (sz + naluEnd)
        else annexBLoop fuel (rest.drop (i + 3)) acc sz

/-- `AnnexB.Unmarshal` after the initial delimiter of `pos` bytes was recognised -/
def annexBBody (buf : Bytes) (pos : Nat) : Option (List Bytes) :=
  if buf.length = pos then none
  else
    match annexBLoop (buf.length + 1) (buf.drop pos) [] 0 with
    | none => none
    | some ns =>
      if ns.length = 0 then none
      else if ns.length > maxNALUs then none
      else some ns

/-- mediacommon `h264.AnnexB.Unmarshal` (`none` = any error) -/
def annexBUnmarshal (buf : Bytes) : Option (List Bytes) :=
  if startsSC4 buf then annexBBody buf 4
  else if startsSC buf then annexBBody buf 3
  else none

/-- `removeAnnexB`: returns the new `annexBMode` and the NALUs (`none` = error) -/
def removeAnnexB (mode : Bool) (nalus : List Bytes) : Bool × Option (List Bytes) :=
  match nalus with
  | [nalu] =>
    if mode || containsSC4 nalu then
      (true, annexBUnmarshal (if startsSC4 nalu then nalu else [0, 0, 0, 1] ++ nalu))
    else (false, some nalus)
  | _ => (mode, some nalus)

/-- result of `decodeNALUs` -/
inductive NRes where
  | nalus (ns : List Bytes)
  | more | nonStart | err
deriving Repr, DecidableEq

def isAggType (t : Nat) : Bool :=
  t == CodecH26x.h264TypeSTAPB || t == CodecH26x.h264TypeMTAP16 ||
  t == CodecH26x.h264TypeMTAP24 || t == CodecH26x.h264TypeFUB

/-- FU-A with the start bit: any previous partial NALU is dropped -/
def fuaStart (d : Dec) (seq : UInt16) (b0 b1 : UInt8) (data : Bytes) : Dec × NRes :=
  let nri := (b0 >>> 5) &&& 0x03
  let typ := b1 &&& 0x1F
  let d1 : Dec := { d with fragmentsSize := data.length + 1,        -- len(pkt.Payload[1:])
                           fragments := [[(nri <<< 5) ||| typ], data],
                           fragmentNextSeqNum := seq + 1,
                           firstPacketReceived := true }
  if (b1 >>> 6) &&& 0x01 ≠ 0 then
    (d1.resetFragments, .nalus (splitNALUs (joinFragments d1.fragments d1.fragmentsSize)))
  else (d1, .more)

/-- FU-A without the start bit -/
def fuaCont (d : Dec) (seq : UInt16) (b1 : UInt8) (data : Bytes) : Dec × NRes :=
  if d.fragmentsSize = 0 then
    if !d.firstPacketReceived then (d, .nonStart) else (d, .err)
  else if seq ≠ d.fragmentNextSeqNum then (d.resetFragments, .err)
  else
    let sz := d.fragmentsSize + data.length
    if sz > maxAU then (d.resetFragments, .err)
    else
      -- /repo fix f1b05d6: a fragment without data is accepted but not stored
      let d1 : Dec := { d with fragmentsSize := sz,
                               fragments := pushFrag d.fragments data,
                               fragmentNextSeqNum := d.fragmentNextSeqNum + 1 }
      if (b1 >>> 6) &&& 0x01 ≠ 1 then (d1, .more)
      else (d1.resetFragments, .nalus (splitNALUs (joinFragments d1.fragments d1.fragmentsSize)))

/-- `case h264.NALUTypeFUA`; `tl` is `pkt.Payload[1:]` -/
def decodeFUA (d : Dec) (seq : UInt16) (b0 : UInt8) (tl : Bytes) : Dec × NRes :=
  match tl with
  | [] => (d, .err)
  | b1 :: data => if b1 >>> 7 = 1 then fuaStart d seq b0 b1 data else fuaCont d seq b1 data

/-- `case h264.NALUTypeSTAPA`; `tl` is `pkt.Payload[1:]` -/
def decodeSTAPA (d : Dec) (tl : Bytes) : Dec × NRes :=
  let d1 := d.resetFragments
  match aggLoop true (tl.length + 1) tl [] with
  | none => (d1, .err)
  | some ns =>
    if ns.length = 0 then (d1, .err)
    else ({ d1 with firstPacketReceived := true }, .nalus ns)

/-- `decodeNALUs` up to (not including) the final `removeAnnexB` -/
def decodeNALUs0 (d : Dec) (p : Pkt) : Dec × NRes :=
  match p.payload with
  | [] => (d.resetFragments, .err)
  | b0 :: tl =>
    let typ := (b0 &&& 0x1F).toNat
    if typ = CodecH26x.h264TypeFUA then decodeFUA d p.seq b0 tl
    else if typ = CodecH26x.h264TypeSTAPA then decodeSTAPA d tl
    else if isAggType typ then
      ({ d.resetFragments with firstPacketReceived := true }, .err)
    else
      ({ d.resetFragments with firstPacketReceived := true }, .nalus [p.payload])

/-- the tail of `decodeNALUs`: the no-NALU check and `removeAnnexB` -/
def finishNALUs (d1 : Dec) (ns : List Bytes) : Dec × NRes :=
  if ns.length = 0 then (d1, .err)      -- /repo fix a0e65b7: an FU-A that holds only start codes
  else
    match removeAnnexB d1.annexBMode ns with
    | (m, some ns') => ({ d1 with annexBMode := m }, .nalus ns')
    | (m, none) => ({ d1 with annexBMode := m }, .err)

/-- `decodeNALUs` -/
def decodeNALUs (d : Dec) (p : Pkt) : Dec × NRes :=
  match decodeNALUs0 d p with
  | (d1, .nalus ns) => finishNALUs d1 ns
  | r => r

/-- `addToFrameBuffer`; `false` = error -/
def addToFrameBuffer (d : Dec) (nalus : List Bytes) (ts : UInt32) : Dec × Bool :=
  if d.frameBufferLen + nalus.length > maxNALUs then (d.resetFrameBuffer, false)
  else
    let addSize := totalLen nalus
    if d.frameBufferSize + addSize > maxAU then (d.resetFrameBuffer, false)
    else ({ d with frameBuffer := d.frameBuffer ++ nalus,
                   frameBufferLen := d.frameBufferLen + nalus.length,
                   frameBufferSize := d.frameBufferSize + addSize,
                   frameBufferTimestamp := ts }, true)

/-- `Decode` after `decodeNALUs` succeeded with `ns` -/
def addNALUs (d1 : Dec) (ns : List Bytes) (ts : UInt32) (marker : Bool) : Dec × DecRes (List Bytes) :=
  if d1.frameBuffer.length ≠ 0 ∧ ts ≠ d1.frameBufferTimestamp then
    -- timestamp change: the buffered unit is returned, the marker of the packet is not looked at
    let ret := d1.frameBuffer
    match addToFrameBuffer d1.resetFrameBuffer ns ts with
    | (d2, false) => (d2, .err)
    | (d2, true) => (d2, .ok ret)
  else
    match addToFrameBuffer d1 ns ts with
    | (d2, false) => (d2, .err)
    | (d2, true) =>
      if !marker then (d2, .more)
      else (d2.resetFrameBuffer, .ok d2.frameBuffer)

/-- `Decoder.Decode` -/
def decode (d : Dec) (p : Pkt) : Dec × DecRes (List Bytes) :=
  match decodeNALUs d p with
  | (d1, .more) => (d1, .more)
  | (d1, .nonStart) => (d1, .nonStart)
  | (d1, .err) => (d1, .err)
  | (d1, .nalus ns) => addNALUs d1 ns p.ts p.marker

/-- bytes the decoder state keeps referenced between calls (`fragments` + `frameBuffer`) -/
def retained (d : Dec) : Nat := totalLen d.fragments + totalLen d.frameBuffer

def runDec : Dec → List Pkt → Dec × List (DecRes (List Bytes)) := runDecG decode

/-! ### `format.H264.PTSEqualsDTS` -/

def isKeyType (t : Nat) : Bool :=
  t == CodecH26x.h264TypeIDR || t == CodecH26x.h264TypeSPS || t == CodecH26x.h264TypePPS

/-- the STAP-A walk of `PTSEqualsDTS` -/
def ptsLoop : Nat → Bytes → Bool
  | 0, _ => false
  | fuel + 1, payload =>
    match payload with
    | hi :: lo :: rest =>
      let size := hi.toNat * 256 + lo.toNat
      if size = 0 ∨ size > rest.length then false
      else
        let nalu := rest.take size
        let rest' := rest.drop size
        if isKeyType ((nalu.headD 0) &&& 0x1F).toNat then true
        else if rest'.length = 0 then false
        else ptsLoop fuel rest'
    | _ => false

def ptsEqualsDts (payload : Bytes) : Bool :=
  match payload with
  | [] => false
  | b0 :: tl =>
    let typ := (b0 &&& 0x1F).toNat
    if isKeyType typ then true
    else if typ = CodecH26x.h264PtsStapA then ptsLoop (tl.length + 1) tl
    else if typ = CodecH26x.h264PtsFuA then
      match tl with
      | [] => false
      | b1 :: _ =>
        if b1 >>> 7 ≠ 1 then false
        else isKeyType (b1 &&& 0x1F).toNat
    else false

/-! ### `PTSEqualsDTS` once more, statement by statement with every index and slice expression
checked (`none` = out-of-range access, or the loop did not stop within `len+1` iterations).
`Props/Codec/H264Dec.lean` proves that it never is `none` and equals `ptsEqualsDts`. -/

def ptsLoopC : Nat → Bytes → Option Bool
  | 0, _ => none
  | fuel + 1, payload =>
    if payload.length < 2 then some false
    else do
      let hi ← idx? payload 0
      let lo ← idx? payload 1
      let size := hi.toNat * 256 + lo.toNat          -- uint16(payload[0])<<8 | uint16(payload[1])
      let payload ← sliceFrom? payload 2             -- payload = payload[2:]
      if size = 0 ∨ size > payload.length then some false
      else do
        let nalu ← sliceTo? payload size             -- payload[:size]
        let payload ← sliceFrom? payload size        -- payload[size:]
        let h ← idx? nalu 0                          -- nalu[0]
        if isKeyType (h &&& 0x1F).toNat then some true
        else if payload.length = 0 then some false
        else ptsLoopC fuel payload

def ptsEqualsDtsC (payload : Bytes) : Option Bool :=
  if payload.length = 0 then some false
  else do
    let b0 ← idx? payload 0
    let typ := (b0 &&& 0x1F).toNat
    if isKeyType typ then some true
    else if typ = CodecH26x.h264PtsStapA then do
      let rest ← sliceFrom? payload 1
      ptsLoopC (rest.length + 1) rest
    else if typ = CodecH26x.h264PtsFuA then
      if payload.length < 2 then some false
      else do
        let b1 ← idx? payload 1
        if b1 >>> 7 ≠ 1 then some false
        else some (isKeyType (b1 &&& 0x1F).toNat)
    else some false

end Rtsp.Codec.H264
