import Rtsp.Model.Codec.H26xCommon
import Rtsp.Generated.Facts.CodecH26x
/-
Model of /repo/pkg/format/rtph265 (encoder.go, decoder.go) and of `format.H265.PTSEqualsDTS`
(/repo/pkg/format/h265.go).  Core Lean only.  An access unit is a `List Bytes` (NALUs).
-/
namespace Rtsp.Codec.H265
open Rtsp.Rtp Rtsp.Codec.H26x Rtsp.Facts

abbrev maxAU : Nat := CodecH26x.h265MaxAccessUnitSize
abbrev maxNALUs : Nat := CodecH26x.h265MaxNALUsPerAccessUnit

/-! ### encoder -/

structure Enc where
  cfg : EncCfg
  seq : UInt16          -- sequenceNumber
deriving Repr

/-- the 3 header bytes of a fragmentation unit for a NALU with header bytes `h0 h1` -/
def fuHdr (h0 h1 : UInt8) (st en : Bool) : Bytes :=
  [ (h0 &&& (0x81 : UInt8)) ||| (UInt8.ofNat CodecH26x.h265FuTypeInEncoder <<< (1 : UInt8)),
    h1,
    ((if st then 1 else 0 : UInt8) <<< 7) ||| ((if en then 1 else 0 : UInt8) <<< 6) ||| ((h0 >>> 1) &&& 0x3F) ]

/-- `writeFragmentationUnits` (the NALU has at least 2 bytes; Go panics on `nalu[:2]` otherwise) -/
def writeFragmentationUnits (max : Nat) (nalu : Bytes) (marker : Bool) : List Item :=
  let avail := max - CodecH26x.h265FuHeaderLen
  let le := nalu.length - 2
  emitFU (fuHdr (nalu.getD 0 0) (nalu.getD 1 0)) avail marker (packetCount avail le) true (nalu.drop 2)

/-- lowest layer id / temporal id over the NALUs of an aggregation packet (start value `0xFF`) -/
def minIds : List Bytes → UInt8 × UInt8 → UInt8 × UInt8
  | [], acc => acc
  | n :: rest, (layer, tid) =>
    let n0 := n.getD 0 0
    let n1 := n.getD 1 0
    let nl := ((n0 &&& 0x01) <<< 5) ||| ((n1 >>> 3) &&& 0x1F)
    let nt := n1 &&& 0x07
    minIds rest (if nl < layer then nl else layer, if nt < tid then nt else tid)

/-- `writeAggregationUnit`; `none` = error ("invalid NALU": a NALU shorter than 2 bytes) -/
def writeAggregationUnit (nalus : List Bytes) (marker : Bool) : Option (List Item) :=
  if nalus.any (fun n => n.length < 2) then none
  else
    let (layer, tid) := minIds nalus (0xFF, 0xFF)
    let b0 : UInt8 := (UInt8.ofNat CodecH26x.h265ApTypeInEncoder <<< (1 : UInt8)) ||| (layer &&& 0x20)
    let b1 : UInt8 := ((layer &&& 0x1F) <<< 3) ||| (tid &&& 0x07)
    some [(marker, b0 :: b1 :: aggBody nalus)]

/-- `writeBatch` -/
def writeBatch (max : Nat) (nalus : List Bytes) (marker : Bool) : Option (List Item) :=
  match nalus with
  | [n] => if n.length < max then some [(marker, n)] else some (writeFragmentationUnits max n marker)
  | _ => writeAggregationUnit nalus marker

/-- all batches of one access unit; stops at the first failing batch.  Returns the items written
so far (the Go encoder has advanced its sequence number by that many) and whether all succeeded. -/
def writeBatches (max : Nat) : List (List Bytes) → List Item × Bool
  | [] => ([], true)
  | [b] =>
    match writeBatch max b true with
    | some its => (its, true)
    | none => ([], false)
  | b :: bs =>
    match writeBatch max b false with
    | some its =>
      let (r, ok) := writeBatches max bs
      (its ++ r, ok)
    | none => ([], false)

def encodeItems (max : Nat) (au : List Bytes) : List Item × Bool :=
  writeBatches max (splitBatches 2 max [] au)

/-- `Encoder.Encode` (`none` = error; the sequence number has advanced nevertheless).  Documented
precondition: at least one NALU, every NALU non-empty; `PayloadMaxSize ≥ 4`. -/
def encode (e : Enc) (au : List Bytes) : Enc × Option (List Pkt) :=
  let (items, ok) := encodeItems e.cfg.max au
  ({ e with seq := e.seq + UInt16.ofNat items.length },
   if ok then some (number e.cfg e.seq items) else none)

/-! ### validity predicates (the encoder's documented precondition, made exact) -/

/-- `PayloadMaxSize ≥ 4` (3 divides by zero in `packetCount`) and at most 65535. -/
def ValidCfg (c : EncCfg) : Prop := 4 ≤ c.max ∧ c.max ≤ 65535

/-- a NALU the codec transports unchanged: at least the 2-byte header, type not one of the RTP
aggregation / fragmentation / PACI types 48..50, no `00 00 01` inside. -/
def ValidNalu (n : Bytes) : Prop :=
  2 ≤ n.length ∧
  ¬ (48 ≤ ((n.headD 0 >>> 1) &&& 0x3F).toNat ∧ ((n.headD 0 >>> 1) &&& 0x3F).toNat ≤ 50) ∧
  findSC n = none

/-- an access unit: 1..MaxNALUsPerAccessUnit valid NALUs, at most MaxAccessUnitSize bytes -/
def ValidFrame (au : List Bytes) : Prop :=
  au ≠ [] ∧ au.length ≤ maxNALUs ∧ totalLen au ≤ maxAU ∧ ∀ n ∈ au, ValidNalu n

instance (c : EncCfg) : Decidable (ValidCfg c) := by unfold ValidCfg; infer_instance
instance (n : Bytes) : Decidable (ValidNalu n) := by unfold ValidNalu; infer_instance
instance (au : List Bytes) : Decidable (ValidFrame au) := by unfold ValidFrame; infer_instance

/-! ### decoder -/

structure Dec where
  firstPacketReceived : Bool := false
  fragments           : List Bytes := []
  fragmentsSize       : Nat := 0
  fragmentNextSeqNum  : UInt16 := 0
  frameBuffer         : List Bytes := []     -- Go nil ⇔ []
  frameBufferLen      : Nat := 0
  frameBufferSize     : Nat := 0
deriving Repr, DecidableEq

def Dec.resetFragments (d : Dec) : Dec := { d with fragments := [], fragmentsSize := 0 }

def Dec.resetFrameBuffer (d : Dec) : Dec :=
  { d with frameBuffer := [], frameBufferLen := 0, frameBufferSize := 0 }

inductive NRes where
  | nalus (ns : List Bytes)
  | more | nonStart | err
deriving Repr, DecidableEq

/-- FU with the start bit: any previous partial NALU is dropped; start + end is refused -/
def fuStart (d : Dec) (seq : UInt16) (b0 b1 b2 : UInt8) (data : Bytes) : Dec × NRes :=
  let d0 := d.resetFragments
  if (b2 >>> 6) &&& 0x01 ≠ 0 then (d0, .err)
  else
    let typ := b2 &&& 0x3F
    -- head = uint16(b0 & 0x81)<<8 | uint16(typ)<<9 | uint16(b1)
    let hh : UInt8 := (b0 &&& (0x81 : UInt8)) ||| (typ <<< (1 : UInt8))
    ({ d0 with fragmentsSize := data.length + 2,      -- len(pkt.Payload[1:])
               fragments := [[hh, b1], data],
               fragmentNextSeqNum := seq + 1,
               firstPacketReceived := true }, .more)

/-- FU without the start bit -/
def fuCont (d : Dec) (seq : UInt16) (b2 : UInt8) (data : Bytes) : Dec × NRes :=
  if d.fragmentsSize = 0 then
    if !d.firstPacketReceived then (d, .nonStart) else (d, .err)
  else if seq ≠ d.fragmentNextSeqNum then (d.resetFragments, .err)
  else
    let sz := d.fragmentsSize + data.length
    if sz > maxAU then (d.resetFragments, .err)
    else
      -- /repo fix f1b05d6: a fragment without data is accepted but not stored
      let d1 : Dec := { d with fragmentsSize := sz,
                               fragments := pushFrag d.fragments data,
                               fragmentNextSeqNum := d.fragmentNextSeqNum + 1 }
      if (b2 >>> 6) &&& 0x01 ≠ 1 then (d1, .more)
      else
        let ns := splitNALUs (joinFragments d1.fragments d1.fragmentsSize)
        if ns.length = 0 then (d1.resetFragments, .err)   -- /repo fix a0e65b7: only start codes
        else (d1.resetFragments, .nalus ns)

/-- `case h265.NALUType_FragmentationUnit`; `tl` is `pkt.Payload[2:]` -/
def decodeFU (d : Dec) (seq : UInt16) (b0 b1 : UInt8) (tl : Bytes) : Dec × NRes :=
  match tl with
  | [] => (d.resetFragments, .err)
  | b2 :: data => if b2 >>> 7 = 1 then fuStart d seq b0 b1 b2 data else fuCont d seq b2 data

/-- `case h265.NALUType_AggregationUnit`; `tl` is `pkt.Payload[2:]` -/
def decodeAP (d : Dec) (tl : Bytes) : Dec × NRes :=
  let d1 := d.resetFragments
  match aggLoop false (tl.length + 1) tl [] with
  | none => (d1, .err)
  | some ns => ({ d1 with firstPacketReceived := true }, .nalus ns)

/-- `decodeNALUs` -/
def decodeNALUs (d : Dec) (p : Pkt) : Dec × NRes :=
  match p.payload with
  | b0 :: b1 :: tl =>
    let typ := ((b0 >>> 1) &&& 0x3F).toNat
    if typ = CodecH26x.h265TypeAP then decodeAP d tl
    else if typ = CodecH26x.h265TypeFU then decodeFU d p.seq b0 b1 tl
    else if typ = CodecH26x.h265TypePACI then (d.resetFragments, .err)
    else (d.resetFragments, .nalus [p.payload])
  | _ => (d.resetFragments, .err)

/-- `Decode` after `decodeNALUs` succeeded with `ns` -/
def addNALUs (d1 : Dec) (ns : List Bytes) (marker : Bool) : Dec × DecRes (List Bytes) :=
  if d1.frameBufferLen + ns.length > maxNALUs then (d1.resetFrameBuffer, .err)
  else
    let addSize := totalLen ns
    if d1.frameBufferSize + addSize > maxAU then (d1.resetFrameBuffer, .err)
    else
      let d2 : Dec := { d1 with frameBuffer := d1.frameBuffer ++ ns,
                                frameBufferLen := d1.frameBufferLen + ns.length,
                                frameBufferSize := d1.frameBufferSize + addSize }
      if !marker then (d2, .more)
      else (d2.resetFrameBuffer, .ok d2.frameBuffer)

/-- `Decoder.Decode` -/
def decode (d : Dec) (p : Pkt) : Dec × DecRes (List Bytes) :=
  match decodeNALUs d p with
  | (d1, .more) => (d1, .more)
  | (d1, .nonStart) => (d1, .nonStart)
  | (d1, .err) => (d1, .err)
  | (d1, .nalus ns) => addNALUs d1 ns p.marker

/-- bytes the decoder state keeps referenced between calls (`fragments` + `frameBuffer`) -/
def retained (d : Dec) : Nat := totalLen d.fragments + totalLen d.frameBuffer

def runDec : Dec → List Pkt → Dec × List (DecRes (List Bytes)) := runDecG decode

/-! ### `format.H265.PTSEqualsDTS` -/

def isKeyType (t : Nat) : Bool :=
  t == CodecH26x.h265TypeIDRWRADL || t == CodecH26x.h265TypeIDRNLP || t == CodecH26x.h265TypeCRA ||
  t == CodecH26x.h265TypeVPS || t == CodecH26x.h265TypeSPS || t == CodecH26x.h265TypePPS

/-- the AP walk of `PTSEqualsDTS`; entered with at least 2 bytes of `payload` -/
def ptsLoop : Nat → Bytes → Bool
  | 0, _ => false
  | fuel + 1, payload =>
    match payload with
    | hi :: lo :: rest =>
      let size := hi.toNat * 256 + lo.toNat
      if size = 0 ∨ size > rest.length then false
      else
        let nalu := rest.take size
        let rest' := rest.drop size
        if isKeyType (((nalu.headD 0) >>> 1) &&& 0x3F).toNat then true
        else if rest'.length = 0 then false
        else if rest'.length < 2 then false
        else ptsLoop fuel rest'
    | _ => false     -- not reachable: the Go code checks `len(payload) >= 2` before every iteration

def ptsEqualsDts (payload : Bytes) : Bool :=
  match payload with
  | [] => false
  | b0 :: tl =>
    let typ := ((b0 >>> 1) &&& 0x3F).toNat
    if isKeyType typ then true
    else if typ = CodecH26x.h265TypeAP then
      if payload.length < 4 then false
      else ptsLoop (payload.length + 1) (payload.drop 2)
    else if typ = CodecH26x.h265TypeFU then
      if payload.length < 3 then false
      else
        let b2 := tl.getD 1 0
        if b2 >>> 7 ≠ 1 then false
        else isKeyType (b2 &&& 0x3F).toNat
    else false

/-! ### `PTSEqualsDTS` once more with every index and slice expression checked (`none` =
out-of-range access or no termination within `len+1` iterations). -/

def ptsLoopC : Nat → Bytes → Option Bool
  | 0, _ => none
  | fuel + 1, payload => do
    let hi ← idx? payload 0
    let lo ← idx? payload 1
    let size := hi.toNat * 256 + lo.toNat
    let payload ← sliceFrom? payload 2
    if size = 0 ∨ size > payload.length then some false
    else do
      let nalu ← sliceTo? payload size
      let payload ← sliceFrom? payload size
      let h ← idx? nalu 0
      if isKeyType ((h >>> 1) &&& 0x3F).toNat then some true
      else if payload.length = 0 then some false
      else if payload.length < 2 then some false
      else ptsLoopC fuel payload

def ptsEqualsDtsC (payload : Bytes) : Option Bool :=
  if payload.length = 0 then some false
  else do
    let b0 ← idx? payload 0
    let typ := ((b0 >>> 1) &&& 0x3F).toNat
    if isKeyType typ then some true
    else if typ = CodecH26x.h265TypeAP then
      if payload.length < 4 then some false
      else do
        let rest ← sliceFrom? payload 2
        ptsLoopC (payload.length + 1) rest
    else if typ = CodecH26x.h265TypeFU then
      if payload.length < 3 then some false
      else do
        let b2 ← idx? payload 2
        if b2 >>> 7 ≠ 1 then some false
        else some (isKeyType (b2 &&& 0x3F).toNat)
    else some false

end Rtsp.Codec.H265
