import Rtsp.Model.Codec.AudioCommon
import Rtsp.Generated.Facts.CodecAudio
/-
Model of /repo/pkg/format/rtpac3 (encoder.go, decoder.go): RFC 4184.  2-byte payload header
(frame type FT, number of frames / fragments NF); frames aggregated while they fit, an oversize
frame fragmented (FT 1/2 first, FT 3 following).  mediacommon's `ac3.SyncInfo` (Unmarshal /
FrameSize) is modelled in full.  Core Lean only.
-/
namespace Rtsp.Codec.Ac3
open Rtsp.Rtp Rtsp.Facts Rtsp.Codec.Audio

/-- `ac3.SamplesPerFrame` -/
abbrev samplesPerFrame : Nat := CodecAudio.ac3SamplesPerFrame

/-! ### mediacommon `ac3.SyncInfo` -/

/-- ATSC A/52 table 5.18, words per frame for fscod 0 / 1 / 2, by frmsizecod -/
def frameSizes : List (Nat × Nat × Nat) :=
  [(64, 69, 96), (64, 70, 96), (80, 87, 120), (80, 88, 120), (96, 104, 144), (96, 105, 144),
   (112, 121, 168), (112, 122, 168), (128, 139, 192), (128, 140, 192), (160, 174, 240), (160, 175, 240),
   (192, 208, 288), (192, 209, 288), (224, 243, 336), (224, 244, 336), (256, 278, 384), (256, 279, 384),
   (320, 348, 480), (320, 349, 480), (384, 417, 576), (384, 418, 576), (448, 487, 672), (448, 488, 672),
   (512, 557, 768), (512, 558, 768), (640, 696, 960), (640, 697, 960), (768, 835, 1152), (768, 836, 1152),
   (896, 975, 1344), (896, 976, 1344), (1024, 1114, 1536), (1024, 1115, 1536), (1152, 1253, 1728),
   (1152, 1254, 1728), (1280, 1393, 1920), (1280, 1394, 1920)]

/-- `SyncInfo.Unmarshal` followed by `FrameSize()` (bytes) -/
def frameSize (frame : Bytes) : Option Nat :=
  if frame.length < 5 then none
  else if frame.getD 0 0 ≠ 0x0B ∨ frame.getD 1 0 ≠ 0x77 then none
  else
    let b4 := frame.getD 4 0
    let fscod := (b4 >>> 6).toNat
    if fscod ≥ 3 then none
    else
      let code := (b4 &&& 0x3f).toNat
      if code ≥ 38 then none
      else
        let row := frameSizes.getD code (0, 0, 0)
        some ((if fscod = 0 then row.1 else if fscod = 1 then row.2.1 else row.2.2) * 2)

/-! ### encoder -/

structure Enc where
  cfg : EncCfg
  seq : UInt16
deriving Repr

def lenAggregated (frames : List Bytes) (add : Option Bytes) : Nat :=
  2 + (match add with | some a => a.length | none => 0) + totalLen frames

def writeAggregated (c : EncCfg) (frames : List Bytes) (ts : UInt32) (sq : UInt16) : List Pkt :=
  [{ pt := c.pt, seq := sq, ts := ts, ssrc := c.ssrc, marker := true,
     payload := [0, UInt8.ofNat frames.length] ++ frames.flatten }]

/-- the `for i := range ret` loop of `writeFragmented`: `n` packets still to emit, `ft` the frame
type of the next one, `nf = uint8(packetCount)` -/
def emitFrag (c : EncCfg) (ts : UInt32) (avail : Nat) (nf : UInt8) : Nat → UInt16 → UInt8 → Bytes → List Pkt
  | 0, _, _, _ => []
  | 1, sq, ft, rest =>
    [{ pt := c.pt, seq := sq, ts := ts, ssrc := c.ssrc, marker := true, payload := [ft, nf] ++ rest }]
  | n + 2, sq, ft, rest =>
    { pt := c.pt, seq := sq, ts := ts, ssrc := c.ssrc, marker := false, payload := [ft, nf] ++ rest.take avail }
      :: emitFrag c ts avail nf (n + 1) (sq + 1) 3 (rest.drop avail)

def writeFragmented (c : EncCfg) (frame : Bytes) (ts : UInt32) (sq : UInt16) : List Pkt :=
  let avail := c.max - CodecAudio.ac3FragReserveBytes
  let n := packetCount avail frame.length
  let ft : UInt8 := if avail ≥ frame.length * 5 / 8 then 1 else 2
  emitFrag c ts avail (UInt8.ofNat n) n sq ft frame

def writeBatch (c : EncCfg) (frames : List Bytes) (ts : UInt32) (sq : UInt16) : List Pkt :=
  match frames with
  | [f] => if lenAggregated [f] none < c.max then writeAggregated c frames ts sq
           else writeFragmented c f ts sq
  | _ => writeAggregated c frames ts sq

def ops (c : EncCfg) : BatchOps where
  fits batch f := lenAggregated batch (some f) ≤ c.max
  write := writeBatch c
  tsInc batch := some (UInt32.ofNat batch.length * UInt32.ofNat samplesPerFrame)

/-- `Encoder.Encode` -/
def encode (e : Enc) (frames : List Bytes) : Enc × Option (List Pkt) :=
  let (r, sq) := batchLoop (ops e.cfg) frames [] 0 e.seq
  ({ e with seq := sq }, r)

/-! ### decoder -/

structure Dec where
  first     : Bool := false        -- firstPacketReceived
  fragments : List Bytes := []
  size      : Nat := 0             -- fragmentsSize
  expected  : Int := 0             -- fragmentsExpected
  nextSeq   : UInt16 := 0          -- fragmentNextSeqNum
deriving Repr, DecidableEq

def Dec.reset (d : Dec) : Dec := { d with fragments := [], size := 0 }

/-- the `for {}` loop of `case 0`.  Fuel: every iteration consumes `FrameSize() ≥ 128` bytes. -/
def splitFrames (d : Dec) : Nat → Bytes → List Bytes → Dec × DecRes (List Bytes)
  | 0, _, _ => (d, .err)
  | f + 1, buf, frames =>
    match frameSize buf with
    | none => (d, .err)
    | some size =>
      if buf.length < size then (d, .err)
      else
        let frames := frames ++ [buf.take size]
        let buf := buf.drop size
        if buf.length = 0 then (d, .ok frames)
        else splitFrames d f buf frames

/-- `Decoder.Decode` -/
def decode (d : Dec) (p : Pkt) : Dec × DecRes (List Bytes) :=
  if p.payload.length < 2 then (d.reset, .err)
  else
    let b0 := p.payload.getD 0 0
    if b0 >>> 2 ≠ 0 then (d.reset, .err)
    else
      let ft := b0 &&& 0x03
      let body := p.payload.drop 2
      if ft = 0 then
        let d := { d.reset with first := true }
        splitFrames d (body.length + 1) body []
      else if ft = 1 ∨ ft = 2 then
        let d := d.reset
        match frameSize body with
        | none => (d, .err)
        | some size =>
          ({ d with size := body.length, expected := (size : Int) - body.length,
                    fragments := d.fragments ++ [body], nextSeq := p.seq + 1, first := true }, .more)
      else
        if d.size = 0 then
          if !d.first then (d, .nonStart) else (d, .err)
        else if p.seq ≠ d.nextSeq then (d.reset, .err)
        else if body.length = 0 then (d.reset, .err)
        else
          let d := { d with size := d.size + body.length, expected := d.expected - body.length }
          if d.expected < 0 then (d.reset, .err)
          else
            let d := { d with fragments := d.fragments ++ [body], nextSeq := d.nextSeq + 1 }
            if d.expected > 0 then (d, .more)
            else (d.reset, .ok [joinFragments d.fragments d.size])

def retained (d : Dec) : Nat := totalLen d.fragments

def runDec : Dec → List Pkt → Dec × List (DecRes (List Bytes)) := runDecGen decode

end Rtsp.Codec.Ac3
