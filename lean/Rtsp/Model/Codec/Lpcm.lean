import Rtsp.Model.Rtp
/-
Model of /repo/pkg/format/rtplpcm (encoder.go, decoder.go): RFC 3190 linear PCM (also used for
G711).  The encoder cuts a block of samples into packets of whole samples; the decoder is
stateless.  Core Lean only.
-/
namespace Rtsp.Codec.Lpcm
open Rtsp.Rtp

structure Enc where
  cfg        : EncCfg
  sampleSize : Nat        -- BitDepth * ChannelCount / 8
  maxPayload : Nat        -- (PayloadMaxSize / sampleSize) * sampleSize
  seq        : UInt16
deriving Repr

/-- `Encoder.Init` (the part that computes the derived sizes).  Go divides by `sampleSize`:
`sampleSize = 0` panics there and is outside the valid configurations. -/
def Enc.init (cfg : EncCfg) (bitDepth channels : Nat) (seq0 : UInt16) : Enc :=
  let ss := bitDepth * channels / 8
  { cfg := cfg, sampleSize := ss, maxPayload := cfg.max / ss * ss, seq := seq0 }

/-- `Encoder.packetCount` -/
def packetCount (maxPayload slen : Nat) : Nat := slen / maxPayload + (if slen % maxPayload ≠ 0 then 1 else 0)

/-- the `for i := range ret` loop: `n` packets still to emit, `payloadSize` as left by the previous
iteration, `rest = samples[pos:]` -/
def emit (c : EncCfg) (sampleSize : Nat) : Nat → UInt16 → UInt32 → Nat → Bytes → List Pkt
  | 0, _, _, _, _ => []
  | n + 1, sq, ts, payloadSize, rest =>
    let payloadSize := if payloadSize > rest.length then rest.length else payloadSize
    { pt := c.pt, seq := sq, ts := ts, ssrc := c.ssrc, marker := false, payload := rest.take payloadSize }
      :: emit c sampleSize n (sq + 1) (ts + UInt32.ofNat (payloadSize / sampleSize)) payloadSize (rest.drop payloadSize)

/-- `Encoder.Encode` -/
def encode (e : Enc) (samples : Bytes) : Enc × List Pkt :=
  let n := packetCount e.maxPayload samples.length
  ({ e with seq := e.seq + UInt16.ofNat n }, emit e.cfg e.sampleSize n e.seq 0 e.maxPayload samples)

/-- the decoder has no state -/
structure Dec where
deriving Repr, DecidableEq

/-- `Decoder.Decode` -/
def decode (d : Dec) (p : Pkt) : Dec × DecRes Bytes :=
  if p.payload.length = 0 then (d, .err) else (d, .ok p.payload)

def retained (_ : Dec) : Nat := 0

def runDec (d : Dec) : List Pkt → Dec × List (DecRes Bytes)
  | [] => (d, [])
  | p :: ps =>
    let (d1, r) := decode d p
    let (d2, rs) := runDec d1 ps
    (d2, r :: rs)

end Rtsp.Codec.Lpcm
