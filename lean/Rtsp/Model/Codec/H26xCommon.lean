import Rtsp.Model.Rtp
/-
Helpers shared by the H264 and H265 payload-codec models (pkg/format/rtph264, pkg/format/rtph265):
start-code search (`bytes.Index(b, {0,0,1})`), `splitNALUs` (identical in both packages),
`joinFragments`, 16-bit size prefixes, the batching loop of `Encode` and sequence numbering.
Core Lean only.
-/
namespace Rtsp.Codec.H26x
open Rtsp.Rtp

/-- `b` starts with `00 00 01` -/
def startsSC : Bytes → Bool
  | a :: b :: c :: _ => a == 0 && b == 0 && c == 1
  | _ => false

/-- `bytes.Index(b, []byte{0,0,1})` (`none` = -1) -/
def findSC : Bytes → Option Nat
  | [] => none
  | x :: xs => if startsSC (x :: xs) then some 0 else (findSC xs).map (· + 1)

/-- `b` starts with `00 00 00 01` -/
def startsSC4 : Bytes → Bool
  | a :: b :: c :: d :: _ => a == 0 && b == 0 && c == 0 && d == 1
  | _ => false

/-- `bytes.Contains(b, []byte{0,0,0,1})` -/
def containsSC4 : Bytes → Bool
  | [] => false
  | x :: xs => startsSC4 (x :: xs) || containsSC4 xs

/-- end of the piece before a start code found at `idx0`: one zero byte right before `00 00 01`
belongs to the start code (`if idx > 0 && b[idx-1] == 0 { idx--; sz++ }`) -/
def pieceEnd (b : Bytes) (idx0 : Nat) : Nat :=
  if idx0 > 0 && b.getD (idx0 - 1) 1 == 0 then idx0 - 1 else idx0

/-- Go `splitNALUs`; one iteration of `for len(b) > 0` per unit of fuel (every iteration that does
not stop removes at least three bytes, see `splitNALUsF_fuel`).  `idx + sz` of the Go code is
`idx0 + 3` whether or not the zero byte was absorbed. -/
def splitNALUsF : Nat → Bytes → List Bytes
  | 0, _ => []
  | fuel + 1, b =>
    if b.length = 0 then []
    else
      match findSC b with
      | none => [b]
      | some idx0 =>
        let rest := splitNALUsF fuel (b.drop (idx0 + 3))
        if pieceEnd b idx0 = 0 then rest else b.take (pieceEnd b idx0) :: rest

def splitNALUs (b : Bytes) : List Bytes := splitNALUsF (b.length + 1) b

/-- Go `joinFragments`: `make([]byte, size)` then `copy` of every fragment (zero padded / cut if
the sizes disagree; under the decoder invariant they never do). -/
def joinFragments (fragments : List Bytes) (size : Nat) : Bytes :=
  let j := fragments.flatten
  j.take size ++ List.replicate (size - j.length) 0

/-- `d.fragments = append(d.fragments, data)` unless the fragment carries no data (/repo fix
f1b05d6: empty fragments are accepted but not stored) -/
def pushFrag (fs : List Bytes) (data : Bytes) : List Bytes :=
  if data.length = 0 then fs else fs ++ [data]

/-- Go `isAllZero` -/
def isAllZero (b : Bytes) : Bool := b.all (· == 0)

/-- the two size bytes `uint8(naluLen >> 8), uint8(naluLen)` -/
def sizeBytes (n : Nat) : Bytes := [UInt8.ofNat (n / 256), UInt8.ofNat n]

/-- `size, nalu` for every NALU of an aggregation packet -/
def aggBody (nalus : List Bytes) : Bytes := nalus.flatMap fun n => sizeBytes n.length ++ n

/-- Go `lenAggregated(nalus, nil)` / `lenAggregationUnit(nalus, nil)` with a header of `hdr` bytes -/
def lenAgg (hdr : Nat) (nalus : List Bytes) : Nat := hdr + (nalus.map fun n => 2 + n.length).sum

/-- Go `packetCount(avail, le)` -/
def packetCount (avail le : Nat) : Nat := le / avail + (if le % avail ≠ 0 then 1 else 0)

/-- The batching loop of `Encode` (`for _, nalu := range au`): `cur` is `batch` (`[]` = nil; after
the first NALU it is never nil again).  Returns the batches in the order they are written; the last
one is the final batch (written with `marker = true`). -/
def splitBatches (hdr max : Nat) (cur : List Bytes) : List Bytes → List (List Bytes)
  | [] => [cur]
  | n :: rest =>
    if lenAgg hdr (cur ++ [n]) ≤ max then splitBatches hdr max (cur ++ [n]) rest
    else
      match cur with
      | [] => splitBatches hdr max [n] rest
      | _ :: _ => cur :: splitBatches hdr max [n] rest

/-- a packet before numbering: marker and payload -/
abbrev Item := Bool × Bytes

/-- header fields and consecutive sequence numbers (`e.sequenceNumber++` after every packet) -/
def number (c : EncCfg) : UInt16 → List Item → List Pkt
  | _, [] => []
  | sq, (m, pl) :: rest =>
    { pt := c.pt, seq := sq, ssrc := c.ssrc, marker := m, payload := pl } :: number c (sq + 1) rest

/-- The fragment loop of `writeFragmented` / `writeFragmentationUnits`: `n` packets still to emit;
every packet but the last carries `avail` bytes, the last everything that is left.  `hdr st en` is
the FU header for the given start / end flags. -/
def emitFU (hdr : Bool → Bool → Bytes) (avail : Nat) (marker : Bool) : Nat → Bool → Bytes → List Item
  | 0, _, _ => []
  | 1, st, rest => [(marker, hdr st true ++ rest)]
  | n + 2, st, rest =>
    (false, hdr st false ++ rest.take avail) :: emitFU hdr avail marker (n + 1) false (rest.drop avail)

/-- The `size | nalu` walk of an aggregation packet (STAP-A / AP) as the *decoders* do it.
`padding = true` is H264 (`size == 0` followed by zeros only ends the packet).  `none` = error.
One loop iteration per unit of fuel; every iteration consumes at least three bytes. -/
def aggLoop (padding : Bool) : Nat → Bytes → List Bytes → Option (List Bytes)
  | 0, _, _ => none
  | fuel + 1, payload, acc =>
    match payload with
    | hi :: lo :: rest =>
      let size := hi.toNat * 256 + lo.toNat
      if size = 0 then
        if padding && isAllZero rest then some acc else none
      else if size > rest.length then none
      else
        let acc' := acc ++ [rest.take size]
        let rest' := rest.drop size
        if rest'.length = 0 then some acc' else aggLoop padding fuel rest' acc'
    | _ => none

/-! ### checked slice operations (`none` = the Go expression would panic) -/

/-- `b[i]` -/
def idx? (b : Bytes) (i : Nat) : Option UInt8 := b[i]?

/-- `b[lo:]` -/
def sliceFrom? (b : Bytes) (lo : Nat) : Option Bytes := if lo ≤ b.length then some (b.drop lo) else none

/-- `b[:hi]` -/
def sliceTo? (b : Bytes) (hi : Nat) : Option Bytes := if hi ≤ b.length then some (b.take hi) else none

def runDecG {D α : Type} (decode : D → Pkt → D × DecRes α) (d : D) : List Pkt → D × List (DecRes α)
  | [] => (d, [])
  | p :: ps =>
    let (d1, r) := decode d p
    let (d2, rs) := runDecG decode d1 ps
    (d2, r :: rs)

/-- set the RTP timestamp of every packet of a frame (the encoders leave it to the caller) -/
def stamp (ts : UInt32) (ps : List Pkt) : List Pkt := ps.map fun p => { p with ts := ts }

end Rtsp.Codec.H26x
