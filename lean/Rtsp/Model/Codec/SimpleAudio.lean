import Rtsp.Model.Rtp
/-
Model of /repo/pkg/format/rtpsimpleaudio (encoder.go, decoder.go): audio codecs whose frame fits one
packet (Opus, G722, …).  One frame = one packet, no fragmentation, stateless decoder.  Core Lean only.
-/
namespace Rtsp.Codec.SimpleAudio
open Rtsp.Rtp

structure Enc where
  cfg : EncCfg
  seq : UInt16
deriving Repr

/-- `Encoder.Encode` (always one packet, timestamp 0, no marker) -/
def encode (e : Enc) (frame : Bytes) : Enc × List Pkt :=
  ({ e with seq := e.seq + 1 },
   [{ pt := e.cfg.pt, seq := e.seq, ts := 0, ssrc := e.cfg.ssrc, marker := false, payload := frame }])

/-- the decoder has no state -/
structure Dec where
deriving Repr, DecidableEq

/-- `Decoder.Decode` -/
def decode (d : Dec) (p : Pkt) : Dec × DecRes Bytes :=
  if p.payload.length = 0 then (d, .err) else (d, .ok p.payload)

def retained (_ : Dec) : Nat := 0

def runDec (d : Dec) : List Pkt → Dec × List (DecRes Bytes)
  | [] => (d, [])
  | p :: ps =>
    let (d1, r) := decode d p
    let (d2, rs) := runDec d1 ps
    (d2, r :: rs)

end Rtsp.Codec.SimpleAudio
