import Rtsp.Model.Rtp
import Rtsp.Model.Codec.Av1VpCommon
import Rtsp.Generated.Facts.CodecAv1vp
/-
Model of /repo/pkg/format/rtpvp8 (encoder.go, decoder.go) with the parts of pion
`codecs.VP8Payloader` / `codecs.VP8Packet` it uses.  The encoder keeps a zero-valued
`VP8Payloader` (`EnablePictureID = false`, fact `vp8EncoderSetsPictureID = false`): the payload
descriptor is the single required byte and the payloader's picture id counter never reaches the
output, so it is not part of the model.  Core Lean only.
-/
namespace Rtsp.Codec.Vp8
open Rtsp.Rtp Rtsp.Facts Rtsp.Codec.Av1Vp

/-! ### encoder -/

structure Enc where
  cfg : EncCfg
  seq : UInt16
deriving Repr

/-- `VP8Payloader.Payload(mtu, payload)` with `EnablePictureID = false`; `none` = Go returns `nil`
(then `Encode` panics "should not happen"). -/
def payloader (mtu : Nat) (payload : Bytes) : Option (List Bytes) :=
  let maxFragmentSize : Int := (mtu : Int) - CodecAv1vp.vp8HeaderSize
  if min maxFragmentSize payload.length ≤ 0 then none
  else
    let k := maxFragmentSize.toNat
    some (match chunks k payload.length payload with
      | [] => []
      | c :: cs => ((0x10 : UInt8) :: c) :: cs.map fun c => (0 : UInt8) :: c)

/-- `Encoder.Encode`; `none` = panic.  `uint16(e.PayloadMaxSize)` truncates. -/
def encode (e : Enc) (frame : Bytes) : Option (Enc × List Pkt) :=
  match payloader (e.cfg.max % 65536) frame with
  | none => none
  | some pls => some ({ e with seq := e.seq + UInt16.ofNat pls.length }, emit e.cfg e.seq pls)

/-! ### decoder -/

/-- what `Decode` reads of `VP8Packet` after `Unmarshal` -/
structure Desc where
  s       : Bool      -- S == 1
  pid     : Nat       -- PID
  payload : Bytes
deriving Repr, DecidableEq

/-- skip one byte: `if payloadIndex >= payloadLen { return errShortPacket }; payloadIndex++` -/
def skip1 : Bytes → Option Bytes
  | [] => none
  | _ :: r => some r

/-- `VP8Packet.Unmarshal` (`none` = error) -/
def unmarshal (pl : Bytes) : Option Desc :=
  match pl with
  | [] => none
  | b0 :: r1 =>
    let x := tb b0 0x80
    let s := tb b0 0x10
    let pid := (b0 &&& 0x07).toNat
    -- X: extended control bits
    let ext : Option (Bool × Bool × Bool × Bool × Bytes) :=
      if x then
        match r1 with
        | [] => none
        | b1 :: r2 => some (tb b1 0x80, tb b1 0x40, tb b1 0x20, tb b1 0x10, r2)
      else some (false, false, false, false, r1)
    match ext with
    | none => none
    | some (i, l, t, k, r2) =>
      -- I: picture id, 7 or 15 bits
      let r3 : Option Bytes :=
        if i then
          match r2 with
          | [] => none
          | m :: r => if tb m 0x80 then skip1 r else some r
        else some r2
      match r3 with
      | none => none
      | some r3 =>
        let r4 : Option Bytes := if l then skip1 r3 else some r3
        match r4 with
        | none => none
        | some r4 =>
          let r5 : Option Bytes := if t || k then skip1 r4 else some r4
          match r5 with
          | none => none
          | some r5 => some { s := s, pid := pid, payload := r5 }

structure Dec where
  firstPacketReceived : Bool := false
  frameBuffer     : List Bytes := []
  frameBufferSize : Nat := 0
  nextSeq         : UInt16 := 0     -- frameNextSeqNum
deriving Repr, DecidableEq

def Dec.reset (d : Dec) : Dec := { d with frameBuffer := [], frameBufferSize := 0, nextSeq := 0 }

inductive Fail where
  | nonStart | err
deriving DecidableEq, Repr

/-- `Decoder.decodeFrameChunk` -/
def decodeFrameChunk (d : Dec) (p : Pkt) : Dec × Except Fail Bytes :=
  match unmarshal p.payload with
  | none => (d.reset, .error .err)
  | some v =>
    if v.payload.isEmpty then (d.reset, .error .err)
    else if v.s ∧ v.pid = 0 then
      ({ d.reset with firstPacketReceived := true, nextSeq := p.seq + 1 }, .ok v.payload)
    else if d.frameBufferSize = 0 then
      (d, .error (if !d.firstPacketReceived then .nonStart else .err))
    else if p.seq ≠ d.nextSeq then (d.reset, .error .err)
    else ({ d with firstPacketReceived := true, nextSeq := d.nextSeq + 1 }, .ok v.payload)

/-- `Decoder.Decode` -/
def decode (d : Dec) (p : Pkt) : Dec × DecRes Bytes :=
  match decodeFrameChunk d p with
  | (d, .error .nonStart) => (d, .nonStart)
  | (d, .error .err) => (d, .err)
  | (d, .ok chunk) =>
    let newSize := d.frameBufferSize + chunk.length
    if newSize > CodecAv1vp.vp8MaxFrameSize then (d.reset, .err)
    else
      let d := { d with frameBuffer := d.frameBuffer ++ [chunk], frameBufferSize := newSize }
      if !p.marker then (d, .more)
      else (d.reset, .ok (joinFragments d.frameBuffer d.frameBufferSize))

def retained (d : Dec) : Nat := totalLen d.frameBuffer

def runDec (d : Dec) : List Pkt → Dec × List (DecRes Bytes)
  | [] => (d, [])
  | p :: ps =>
    let (d1, r) := decode d p
    let (d2, rs) := runDec d1 ps
    (d2, r :: rs)

end Rtsp.Codec.Vp8
