import Rtsp.Model.Rtp
import Rtsp.Model.Codec.Av1VpCommon
import Rtsp.Generated.Facts.CodecAv1vp
/-
Model of /repo/pkg/format/rtpvp9 (encoder.go, decoder.go) with the parts of pion
`codecs.VP9Payloader` (non-flexible mode: the encoder never sets `FlexibleMode`, fact
`vp9EncoderSetsFlexible = false`), pion `codecs/vp9.Header.Unmarshal` (the VP9 frame header fields
the payloader reads: key frame flag, width, height) and `codecs.VP9Packet.Unmarshal`.
Core Lean only.
-/
namespace Rtsp.Codec.Vp9
open Rtsp.Rtp Rtsp.Facts Rtsp.Codec.Av1Vp

/-! ### pion `codecs/vp9`: bit reader and frame header -/

/-- bit `pos` (MSB first) of `buf`; 0 past the end (never read there: `hasSpace` guards) -/
def bitAt (buf : Bytes) (pos : Nat) : Nat := ((buf.getD (pos / 8) 0).toNat >>> (7 - pos % 8)) % 2

/-- `readBitsUnsafe(buf, &pos, n)`: the `n` bits from `pos`, MSB first -/
def readBits (buf : Bytes) (pos : Nat) : Nat → Nat
  | 0 => 0
  | n + 1 => readBits buf pos n * 2 + bitAt buf (pos + n)

/-- `hasSpace(buf, pos, n) == nil` -/
def hasSpace (buf : Bytes) (pos n : Nat) : Bool := decide ((n : Int) ≤ (buf.length * 8 : Int) - pos)

/-- result of `Header.Unmarshal` as far as the payloader looks at it -/
structure Hdr where
  nonKey : Bool
  width  : Nat     -- Header.Width()  (uint16, 0 when FrameSize is nil)
  height : Nat
deriving Repr, DecidableEq

/-- `HeaderColorConfig.unmarshal`: returns the new bit position -/
def colorConfig (profile : Nat) (buf : Bytes) (pos : Nat) : Option Nat :=
  let p1 : Option Nat :=
    if profile ≥ 2 then (if hasSpace buf pos 1 then some (pos + 1) else none) else some pos
  match p1 with
  | none => none
  | some pos =>
    if !hasSpace buf pos 3 then none
    else
      let colorSpace := readBits buf pos 3
      let pos := pos + 3
      if colorSpace ≠ 7 then
        if !hasSpace buf pos 1 then none
        else
          let pos := pos + 1
          if profile = 1 ∨ profile = 3 then
            if !hasSpace buf pos 3 then none else some (pos + 3)
          else some pos
      else
        if profile = 1 ∨ profile = 3 then
          if !hasSpace buf pos 1 then none else some (pos + 1)
        else some pos

/-- `Header.Unmarshal` (`none` = error) -/
def header (buf : Bytes) : Option Hdr :=
  if !hasSpace buf 0 4 then none
  else if readBits buf 0 2 ≠ 2 then none
  else
    let profile := bitAt buf 3 * 2 + bitAt buf 2
    let p1 : Option Nat :=
      if profile = 3 then (if hasSpace buf 4 1 then some 5 else none) else some 4
    match p1 with
    | none => none
    | some pos =>
      if !hasSpace buf pos 1 then none
      else if bitAt buf pos = 1 then
        -- show_existing_frame: frame_to_show_map_idx, then return with NonKeyFrame = false, FrameSize = nil
        if !hasSpace buf (pos + 1) 3 then none else some { nonKey := false, width := 0, height := 0 }
      else
        let pos := pos + 1
        if !hasSpace buf pos 3 then none
        else
          let nonKey := bitAt buf pos = 1
          let pos := pos + 3
          if nonKey then some { nonKey := true, width := 0, height := 0 }
          else if !hasSpace buf pos 24 then none
          else if readBits buf pos 8 ≠ 0x49 then none
          else if readBits buf (pos + 8) 8 ≠ 0x83 then none
          else if readBits buf (pos + 16) 8 ≠ 0x42 then none
          else
            match colorConfig profile buf (pos + 24) with
            | none => none
            | some pos =>
              if !hasSpace buf pos 32 then none
              else some { nonKey := false,
                          width := (readBits buf pos 16 + 1) % 65536,
                          height := (readBits buf (pos + 16) 16 + 1) % 65536 }

/-! ### encoder -/

structure Enc where
  cfg : EncCfg
  seq : UInt16
  pictureID : Nat        -- VP9Payloader.pictureID (15 bits); initialised from InitialPictureID & 0x7FFF
deriving Repr

/-- the 8 bytes of scalability structure a key frame's first packet carries -/
def ssBytes (h : Hdr) : Bytes :=
  [0x18, UInt8.ofNat (h.width / 256), UInt8.ofNat (h.width % 256),
   UInt8.ofNat (h.height / 256), UInt8.ofNat (h.height % 256), 0x01, 0x14, 0x01]

/-- first byte of the payload descriptor: I=1, P, L=0, F=0, B, E, V, Z=1 -/
def descByte (nonKey b e v : Bool) : UInt8 :=
  UInt8.ofNat (0x81 + (if nonKey then 0x40 else 0) + (if b then 0x08 else 0) + (if e then 0x04 else 0)
    + (if v then 0x02 else 0))

/-- the `for payloadDataRemaining > 0` loop of `payloadNonFlexible`; `none` = the
`currentFragmentSize <= 0` exit (Go returns an empty list).  `first` = `payloadDataIndex == 0`. -/
def fragLoop (mtu : Nat) (h : Hdr) (pid : Nat) : Nat → Bool → Bytes → Option (List Bytes)
  | 0, _, _ => some []
  | fuel + 1, first, rest =>
    if rest.isEmpty then some []
    else
      let ss := !h.nonKey && first
      let headerSize := if ss then 3 + 8 else 3
      -- currentFragmentSize = min(mtu - headerSize, remaining) with remaining > 0 here
      if mtu ≤ headerSize then none
      else
        let k := min (mtu - headerSize) rest.length
        let e := decide (rest.length = k)
        let out := descByte h.nonKey first e ss :: UInt8.ofNat (pid / 256 + 128) :: UInt8.ofNat (pid % 256)
                    :: ((if ss then ssBytes h else []) ++ rest.take k)
        match fragLoop mtu h pid fuel false (rest.drop k) with
        | none => none
        | some outs => some (out :: outs)

/-- `VP9Payloader.payloadNonFlexible` -/
def payloadNonFlexible (mtu : Nat) (pid : Nat) (payload : Bytes) : List Bytes :=
  match header payload with
  | none => []
  | some h => (fragLoop mtu h pid payload.length true payload).getD []

/-- `Encoder.Encode` (never panics: the non-flexible payloader returns an empty, non-nil list on
failure, and `Encode` then returns no packets and no error). -/
def encode (e : Enc) (frame : Bytes) : Enc × List Pkt :=
  let pls := payloadNonFlexible (e.cfg.max % 65536) e.pictureID frame
  let pid := if e.pictureID + 1 ≥ 0x8000 then 0 else e.pictureID + 1
  ({ e with seq := e.seq + UInt16.ofNat pls.length, pictureID := pid }, emit e.cfg e.seq pls)

/-! ### decoder -/

/-- what `Decode` reads of `VP9Packet` after `Unmarshal` -/
structure Desc where
  b : Bool
  e : Bool
  payload : Bytes
deriving Repr, DecidableEq

def skip1 : Bytes → Option Bytes
  | [] => none
  | _ :: r => some r

/-- `parsePictureID` -/
def parsePictureID : Bytes → Option Bytes
  | [] => none
  | m :: r => if tb m 0x80 then skip1 r else some r

/-- `parseLayerInfo` -/
def parseLayerInfo (f : Bool) : Bytes → Option Bytes
  | [] => none
  | b :: r =>
    if ((b >>> 1) &&& 0x7).toNat ≥ CodecAv1vp.vp9MaxSpatialLayers then none
    else if f then some r else skip1 r

/-- `parseRefIndices`: `cnt` = `len(p.PDiff)` before the round (at most 3 rounds) -/
def parseRefIndices (cnt : Nat) : Bytes → Option Bytes
  | [] => none
  | b :: r =>
    if !tb b 0x01 then some r
    else if cnt + 1 ≥ CodecAv1vp.vp9MaxRefPics then none
    else parseRefIndices (cnt + 1) r

/-- the `for i := 0; i < NS; i++` loop reading width / height (4 bytes each; the Go test
`len(packet) <= pos+3` asks for 4 available bytes) -/
def skipWH : Nat → Bytes → Option Bytes
  | 0, r => some r
  | n + 1, r => if r.length < 4 then none else skipWH n (r.drop 4)

/-- the `for i := 0; i < NG; i++` loop: one byte, then `R` reference bytes -/
def skipPG : Nat → Bytes → Option Bytes
  | 0, r => some r
  | _ + 1, [] => none
  | n + 1, b :: r =>
    let reference := ((b >>> 2) &&& 0x3).toNat
    if r.length < reference then none else skipPG n (r.drop reference)

/-- `parseSSData` -/
def parseSSData : Bytes → Option Bytes
  | [] => none
  | b :: r =>
    let ns := (b >>> 5).toNat + 1
    let y := tb b 0x10
    let g := tb b 0x08
    match (if y then skipWH ns r else some r) with
    | none => none
    | some r =>
      if g then
        match r with
        | [] => none
        | ng :: r => skipPG ng.toNat r
      else some r

/-- `VP9Packet.Unmarshal` (`none` = error) -/
def unmarshal (pl : Bytes) : Option Desc :=
  match pl with
  | [] => none
  | b0 :: r =>
    let i := tb b0 0x80
    let p := tb b0 0x40
    let l := tb b0 0x20
    let f := tb b0 0x10
    let b := tb b0 0x08
    let e := tb b0 0x04
    let v := tb b0 0x02
    match (if i then parsePictureID r else some r) with
    | none => none
    | some r =>
      match (if l then parseLayerInfo f r else some r) with
      | none => none
      | some r =>
        match (if f && p then parseRefIndices 0 r else some r) with
        | none => none
        | some r =>
          match (if v then parseSSData r else some r) with
          | none => none
          | some r => some { b := b, e := e, payload := r }

structure Dec where
  firstPacketReceived : Bool := false
  fragmentsSize : Nat := 0
  fragments     : List Bytes := []
  nextSeq       : UInt16 := 0       -- fragmentNextSeqNum
deriving Repr, DecidableEq

def Dec.resetFragments (d : Dec) : Dec := { d with fragments := [], fragmentsSize := 0 }

/-- `Decoder.Decode` -/
def decode (d : Dec) (p : Pkt) : Dec × DecRes Bytes :=
  match unmarshal p.payload with
  | none => (d.resetFragments, .err)
  | some v =>
    if v.payload.isEmpty then (d.resetFragments, .err)
    else if v.b then
      let d := { d.resetFragments with firstPacketReceived := true }
      if !v.e then
        ({ d with fragmentsSize := v.payload.length, fragments := d.fragments ++ [v.payload],
                  nextSeq := p.seq + 1 }, .more)
      else (d, .ok v.payload)
    else if d.fragmentsSize = 0 then
      (d, if !d.firstPacketReceived then .nonStart else .err)
    else if p.seq ≠ d.nextSeq then (d.resetFragments, .err)
    else
      let sz := d.fragmentsSize + v.payload.length
      if sz > CodecAv1vp.vp9MaxFrameSize then (d.resetFragments, .err)
      else
        let d := { d with fragmentsSize := sz, fragments := d.fragments ++ [v.payload], nextSeq := d.nextSeq + 1 }
        if !v.e then (d, .more)
        else (d.resetFragments, .ok (joinFragments d.fragments d.fragmentsSize))

def retained (d : Dec) : Nat := totalLen d.fragments

def runDec (d : Dec) : List Pkt → Dec × List (DecRes Bytes)
  | [] => (d, [])
  | p :: ps =>
    let (d1, r) := decode d p
    let (d2, rs) := runDec d1 ps
    (d2, r :: rs)

end Rtsp.Codec.Vp9
