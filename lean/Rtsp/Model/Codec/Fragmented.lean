import Rtsp.Model.Rtp
import Rtsp.Generated.Facts.Codec
/-
Model of /repo/pkg/format/rtpfragmented (encoder.go, decoder.go): codecs whose frame is one byte
string split into MTU-sized fragments; the marker closes the frame.  Core Lean only.
-/
namespace Rtsp.Codec.Fragmented
open Rtsp.Rtp Rtsp.Facts

/-! ### encoder -/

structure Enc where
  cfg : EncCfg
  seq : UInt16          -- sequenceNumber
deriving Repr

/-- Go `packetCount(avail, le)` -/
def packetCount (avail le : Nat) : Nat := le / avail + (if le % avail ≠ 0 then 1 else 0)

/-- the `for i := range ret` loop of `Encode`: `n` packets still to emit, all but the last of
`avail` bytes, the last takes the rest.  (`frame[pos : pos+le]` panics in Go when the slice is out
of range; that cannot happen for `n = packetCount avail len` and is outside the model.) -/
def emit (c : EncCfg) : Nat → UInt16 → Bytes → List Pkt
  | 0, _, _ => []
  | 1, sq, rest => [{ pt := c.pt, seq := sq, ssrc := c.ssrc, marker := true, payload := rest }]
  | n + 2, sq, rest =>
    { pt := c.pt, seq := sq, ssrc := c.ssrc, marker := false, payload := rest.take c.max }
      :: emit c (n + 1) (sq + 1) (rest.drop c.max)

/-- `Encoder.Encode`.  Precondition of the Go code (documented): `frame` non-empty, `max > 0`
(`max = 0` divides by zero). -/
def encode (e : Enc) (frame : Bytes) : Enc × List Pkt :=
  let n := packetCount e.cfg.max frame.length
  ({ e with seq := e.seq + UInt16.ofNat n }, emit e.cfg n e.seq frame)

/-! ### decoder -/

structure Dec where
  fragments : List Bytes := []    -- in arrival order
  size      : Nat := 0            -- fragmentsSize
  nextSeq   : UInt16 := 0         -- fragmentNextSeqNum
deriving Repr, DecidableEq

def Dec.reset (d : Dec) : Dec := { d with fragments := [], size := 0 }

/-- Go `joinFragments`: `make([]byte, size)` then `copy` of every fragment (zero padded / cut
if the sizes disagree; under the decoder invariant they never do). -/
def joinFragments (fragments : List Bytes) (size : Nat) : Bytes :=
  let j := fragments.flatten
  j.take size ++ List.replicate (size - j.length) 0

/-- `Decoder.Decode` -/
def decode (d : Dec) (p : Pkt) : Dec × DecRes Bytes :=
  if p.payload.length = 0 then (d, .err)
  else if d.size = 0 then
    if p.marker then (d, .ok p.payload)
    else ({ d with size := p.payload.length, fragments := d.fragments ++ [p.payload],
                   nextSeq := p.seq + 1 }, .more)
  else if p.seq ≠ d.nextSeq then (d.reset, .err)
  else
    let sz := d.size + p.payload.length
    if sz > Codec.mpeg4videoMaxFrameSize then (d.reset, .err)
    else
      let d' := { d with size := sz, fragments := d.fragments ++ [p.payload], nextSeq := d.nextSeq + 1 }
      if !p.marker then (d', .more)
      else (d'.reset, .ok (joinFragments d'.fragments d'.size))

/-- bytes the decoder state keeps referenced between calls -/
def retained (d : Dec) : Nat := totalLen d.fragments

def runDec (d : Dec) : List Pkt → Dec × List (DecRes Bytes)
  | [] => (d, [])
  | p :: ps =>
    let (d1, r) := decode d p
    let (d2, rs) := runDec d1 ps
    (d2, r :: rs)

end Rtsp.Codec.Fragmented
