import Rtsp.Model.Ntp
import Rtsp.Model.F64
/-
Model of the NTP/RTP time mapping carried by RTCP sender reports:

  /repo/pkg/rtpsender/sender.go      ProcessPacket (time fields, counters), report
  /repo/pkg/rtpreceiver/receiver.go  ProcessSenderReport, packetNTPUnsafe / PacketNTP

`time.Time` values are Unix nanoseconds (`Int`), `time.Duration` is `Int` nanoseconds (no-overflow
range assumed, see props/C15.json).

`report` contains the only floating-point computation that matters for the property:

    rtpTime := rs.lastRTP + uint32(systemDiff.Seconds()*float64(rs.ClockRate))
    Seconds():  sec := d / Second; nsec := d % Second; return float64(sec) + float64(nsec)/1e9

The central theorem (`packet_ntp_within_tick`, Props/C15) treats the truncated product as an input `e`
constrained by a hypothesis (`reportWith`).  The *executable* model computes it with a small exact model
of IEEE-754 binary64 round-to-nearest-even on non-negative rationals (`F64`), so that the correspondence
harness compares the real float path with the model bit for bit and checks the hypothesis on every
case; for that model the hypothesis is itself a theorem (`Proofs/F64.lean`: every rounding has relative
error ≤ 2^-53, integers below 2^53 convert exactly, hence `ticks d rate` is `⌊d·rate/10^9⌋` up to less than
1 ns of time for `d ≤ 2^51 ns`), which gives the hypothesis-free `packet_ntp_within_tick_report`.

Core Lean only (linked into `oracle_time`).
-/
namespace Rtsp.SR
open Rtsp

/-- the time-related fields of `rtpsender.Sender` and its report counters -/
structure Sender where
  rate       : Int        -- ClockRate
  first      : Bool       -- firstRTPPacketSent
  lastRTP    : UInt32
  lastNTP    : Int        -- Unix ns
  lastSystem : Int        -- Unix ns
  ssrc       : UInt32     -- localSSRC
  sent       : Nat        -- uint64
  octets     : UInt32     -- octetCount (wraps)
deriving Repr, DecidableEq

def Sender.init (rate : Int) : Sender :=
  { rate, first := false, lastRTP := 0, lastNTP := 0, lastSystem := 0, ssrc := 0, sent := 0, octets := 0 }

/-- `Sender.ProcessPacket(pkt, ntp, ptsEqualsDTS)`; `now` is `rs.TimeNow()` -/
def Sender.processPacket (s : Sender) (ts : UInt32) (ntp : Int) (eq : Bool) (now : Int)
    (ssrc : UInt32) (payloadLen : Nat) : Sender :=
  let s := if eq then { s with first := true, lastRTP := ts, lastNTP := ntp, lastSystem := now, ssrc := ssrc } else s
  { s with sent := s.sent + 1, octets := s.octets + UInt32.ofNat payloadLen }

/-- `rtcp.SenderReport` as produced by `report` -/
structure Report where
  ssrc    : UInt32
  ntp     : Nat          -- NTPTime (uint64)
  rtp     : UInt32       -- RTPTime
  packets : Nat          -- PacketCount = uint32(sent)
  octets  : UInt32
deriving Repr, DecidableEq

/-- `report()` with the truncated float product `uint32(systemDiff.Seconds()*float64(ClockRate))`
given as `e` (a uint32 value as `Nat`; only `e % 2^32` matters). -/
def Sender.reportWith (s : Sender) (now : Int) (e : Nat) : Report :=
  let d := now - s.lastSystem
  { ssrc := s.ssrc, ntp := Ntp.encode (s.lastNTP + d), rtp := s.lastRTP + UInt32.ofNat e,
    packets := s.sent % 4294967296, octets := s.octets }

/-- the float product as Go computes it.  For `d < 0` or a product `≥ 2^32` Go's float→uint32
conversion is implementation-defined; this follows amd64 (convert to int64, keep the low 32 bits),
which the harness exercises only on amd64. -/
def floatTicks (d rate : Int) : Nat :=
  if d ≥ 0 then F64.ticks d.toNat rate.toNat
  else ((-(F64.ticks (-d).toNat rate.toNat : Int)) % 4294967296).toNat

/-- `report()` -/
def Sender.report (s : Sender) (now : Int) : Report :=
  s.reportWith now (floatTicks (now - s.lastSystem) s.rate)

/-- the sender-report fields of `rtpreceiver.Receiver` -/
structure Recv where
  rate    : Int          -- ClockRate
  firstSR : Bool         -- firstSenderReportReceived
  srNTP   : Nat          -- lastSenderReportTimeNTP
  srRTP   : UInt32       -- lastSenderReportTimeRTP
deriving Repr, DecidableEq

def Recv.init (rate : Int) : Recv := { rate, firstSR := false, srNTP := 0, srRTP := 0 }

/-- `ProcessSenderReport` -/
def Recv.processSR (r : Recv) (ntp : Nat) (rtp : UInt32) : Recv :=
  { r with firstSR := true, srNTP := ntp, srRTP := rtp }

/-- `int32(ts - rr.lastSenderReportTimeRTP)` -/
def tsDiff (ts sr : UInt32) : Int := (ts - sr).toInt32.toInt

/-- `packetNTPUnsafe`; `none` is Go's `(time.Time{}, false)`; the result is Unix ns. -/
def Recv.packetNTP (r : Recv) (ts : UInt32) : Option Int :=
  if !r.firstSR ∨ r.rate = 0 then none
  else some (Ntp.decode r.srNTP + (tsDiff ts r.srRTP * 1000000000).tdiv r.rate)

end Rtsp.SR
