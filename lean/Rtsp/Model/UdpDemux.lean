import Rtsp.Generated.Facts.Peer
/-
Model of the code that binds media and control to the negotiated peer (property C19):

  /repo/server_udp_listener.go   clientAddr.fill, clients map, addClient / removeClient,
                                 the dispatch in run()
  /repo/client_udp_listener.go   the source filter in run() (readIP.Equal, readZone, readPort, the
                                 AnyPortEnable latch, lastPacketTime)
  Go standard library            net.IP.Equal (4-byte, 16-byte and IPv4-in-IPv6 forms)

The session-control part (server.go findOrCreateSession, server_conn.go handleRequestInSession,
server_session.go handleRequestInner) is in `Model/PeerSession.lean`.

Conventions: an IP address is the byte string Go holds in a `net.IP` (any length; the kernel only
produces 4 and 16); a port is a Go `int`; a callback (`readFunc`) is an opaque tag; times are Unix
seconds.  Core Lean only: this file is linked into `oracle_peer`.
-/
namespace Rtsp.Peer
open Rtsp.Facts

abbrev IP := List UInt8

/-- `v4InV6Prefix`: ten zero bytes, then `0xff 0xff` (built from the regenerated facts). -/
def v4InV6Prefix : List UInt8 :=
  List.replicate (Peer.fillV4Offset - 2) 0 ++ [UInt8.ofNat Peer.fillPrefixFF, UInt8.ofNat Peer.fillPrefixFF]

/-- Go `net.IP.Equal` (net/ip.go), literally. -/
def ipEqual (a b : IP) : Bool :=
  if a.length = b.length then a == b
  else if a.length = 4 ∧ b.length = 16 then b.take 12 == v4InV6Prefix && a == b.drop 12
  else if a.length = 16 ∧ b.length = 4 then a.take 12 == v4InV6Prefix && a.drop 12 == b
  else false

/-- `clientAddr`: a fixed 16-byte array, the IPv6 zone and a port, compared with `==` (it is a Go map
key). -/
structure ClientAddr where
  ip   : List UInt8
  zone : String
  port : Int
deriving DecidableEq, Repr, Inhabited

/-- Go `copy(p.ip[:], ip)` into a zeroed `[16]byte`: the first 16 bytes of `ip`, zero padded. -/
def copy16 (ip : IP) : List UInt8 := ip.take 16 ++ List.replicate (16 - ip.length) 0

/-- `clientAddr.fill`. -/
def fill (ip : IP) (zone : String) (port : Int) : ClientAddr :=
  if ip.length = 4 then ⟨v4InV6Prefix ++ ip, zone, port⟩ else ⟨copy16 ip, zone, port⟩

/-! ## the server listener's `clients` map -/

/-- A Go `map[clientAddr]readFunc` as an association list without duplicate keys (newest first). -/
abbrev Clients (α : Type) := List (ClientAddr × α)

namespace Clients
variable {α : Type}

def get (m : Clients α) (k : ClientAddr) : Option α :=
  match m with
  | [] => none
  | (k', v) :: rest => if k' = k then some v else get rest k

/-- `delete(m, k)` -/
def erase (m : Clients α) (k : ClientAddr) : Clients α := m.filter (fun e => !decide (e.1 = k))

/-- `m[k] = v` -/
def set (m : Clients α) (k : ClientAddr) (v : α) : Clients α := (k, v) :: erase m k

end Clients

/-- `addClient(ip, zone, port, cb)` -/
def addClient {α} (m : Clients α) (ip : IP) (zone : String) (port : Int) (cb : α) : Clients α :=
  m.set (fill ip zone port) cb

/-- `removeClient(ip, zone, port)` -/
def removeClient {α} (m : Clients α) (ip : IP) (zone : String) (port : Int) : Clients α :=
  m.erase (fill ip zone port)

/-- the lookup of the read loop: `ca.fill(addr.IP, addr.Zone, addr.Port); cb, ok := u.clients[ca]` -/
def dispatch {α} (m : Clients α) (ip : IP) (zone : String) (port : Int) : Option α :=
  m.get (fill ip zone port)

/-! ## the server listener with the effects of its callbacks

The callbacks registered by `serverSessionMedia.start` all begin with
`bytesReceived.Add(len(payload)); udpLastPacketTime.Store(now)` before they look at the payload;
the model keeps exactly these effects per callback tag, plus the log of invocations. -/

structure Delivery where
  cb  : Nat
  len : Nat
  now : Int
deriving DecidableEq, Repr

structure CbStat where
  bytes : Nat := 0     -- bytesReceived
  pkts  : Nat := 0     -- number of invocations
  last  : Int := 0     -- udpLastPacketTime as stored by this callback
deriving DecidableEq, Repr, Inhabited

structure Srv where
  clients : Clients Nat := []
  log     : List Delivery := []          -- newest first
  stats   : List (Nat × CbStat) := []    -- callback tag ↦ counters
deriving DecidableEq, Repr, Inhabited

def statOf (st : List (Nat × CbStat)) (cb : Nat) : CbStat := (st.lookup cb).getD {}

def bump (st : List (Nat × CbStat)) (cb len : Nat) (now : Int) : List (Nat × CbStat) :=
  let o := statOf st cb
  (cb, { bytes := o.bytes + len, pkts := o.pkts + 1, last := now }) :: st.filter (fun e => e.1 != cb)

/-- one iteration of `serverUDPListener.run`: a datagram of `len` bytes from `(ip%zone, port)` at time `now` -/
def Srv.recv (s : Srv) (ip : IP) (zone : String) (port : Int) (len : Nat) (now : Int) : Srv × Option Nat :=
  match dispatch s.clients ip zone port with
  | none => (s, none)
  | some cb => ({ s with log := ⟨cb, len, now⟩ :: s.log, stats := bump s.stats cb len now }, some cb)

def Srv.add (s : Srv) (ip : IP) (zone : String) (port : Int) (cb : Nat) : Srv :=
  { s with clients := addClient s.clients ip zone port cb }
def Srv.remove (s : Srv) (ip : IP) (zone : String) (port : Int) : Srv :=
  { s with clients := removeClient s.clients ip zone port }

/-! ## the client listener -/

structure CL where
  anyPort   : Bool          -- Client.AnyPortEnable
  readIP    : IP
  readPort  : Int
  readZone  : String := ""  -- zone of the RTSP connection's remote address
  multicast : Bool := false -- multicast listeners do not look at the zone
  last      : Int := 0      -- lastPacketTime
  delivered : List (Nat × Int) := []   -- (payload length, source port) handed to readFunc, newest first
deriving DecidableEq, Repr, Inhabited

/-- one iteration of `clientUDPListener.run` -/
def CL.recv (s : CL) (ip : IP) (zone : String) (port : Int) (len : Nat) (now : Int) : CL × Bool :=
  if !ipEqual s.readIP ip then (s, false)
  else if !s.multicast && s.readZone != zone then (s, false)
  else if s.anyPort && s.readPort == 0 then
    ({ s with readPort := port, last := now, delivered := (len, port) :: s.delivered }, true)
  else if s.readPort != port then (s, false)
  else ({ s with last := now, delivered := (len, port) :: s.delivered }, true)

/-! ## the client listener between `start()` and `stop()`

PAUSE / TEARDOWN stop the read loop (`stop()`: the read deadline expires, the goroutine ends); the
socket stays bound, so datagrams that arrive meanwhile wait in the socket and are looked at – with the
same filter and the clock of that moment – only after the next `start()`. -/

structure QD where
  ip   : IP
  zone : String
  port : Int
  len  : Nat
deriving DecidableEq, Repr

structure CLQ where
  cl      : CL
  running : Bool := true
  queue   : List QD := []      -- oldest first
deriving DecidableEq, Repr

/-- a datagram reaches the socket -/
def CLQ.deliver (q : CLQ) (ip : IP) (zone : String) (port : Int) (len : Nat) (now : Int) : CLQ × Option Bool :=
  if q.running then
    let (s, acc) := q.cl.recv ip zone port len now
    ({ q with cl := s }, some acc)
  else ({ q with queue := q.queue ++ [⟨ip, zone, port, len⟩] }, none)

def CLQ.stop (q : CLQ) : CLQ := { q with running := false }

/-- `start()`: the new read loop first drains what is waiting -/
def CLQ.start (q : CLQ) (now : Int) : CLQ :=
  { cl := q.queue.foldl (fun s d => (s.recv d.ip d.zone d.port d.len now).1) q.cl, running := true, queue := [] }

end Rtsp.Peer
