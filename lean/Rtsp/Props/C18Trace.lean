import Rtsp.Props.C18
/-
C18, second layer: sequences of writes, several readers, the frame length field, and the
combination with `Start`.
-/
namespace Rtsp.Size.C18
open Rtsp.Size Rtsp.Facts.Size

/-- one call of a public write function -/
inductive Op where
  | rtp (p : RtpShape)
  | rtcp (ver2 : Bool) (parts : List Nat)
deriving Repr

/-- what the call hands to the transport -/
def Path.send (path : Path) (proto : Proto) (max : Nat) (ctx : Option Nat) : Op → Wire
  | .rtp p => path.sendRtp proto max ctx p
  | .rtcp v ps => path.sendRtcp proto max ctx v ps

/-- **Any sequence of writes on any path: everything that reaches the transport respects the
maximum** (the write functions keep no size-relevant state, so the per-call theorems lift). -/
theorem every_write_within_max (path : Path) (proto : Proto) (max : Nat) (ctx : Option Nat)
    (hm : path.mkiOk ctx) (ops : List Op) :
    ∀ w ∈ ops.map (Path.send path proto max ctx), WireOk max w := by
  intro w hw
  obtain ⟨op, _, rfl⟩ := List.mem_map.mp hw
  cases op with
  | rtp p => exact rtp_wire_le_max path proto max ctx p hm
  | rtcp v ps => exact rtcp_wire_le_max path proto max ctx v ps hm

/-- total bytes handed to the transport by a sequence of writes are bounded by `max` per accepted write -/
def wireBytes : Wire → Nat
  | .nothing => 0
  | .datagram n => n
  | .frame _ w => w

theorem bytes_le_of_ok {max : Nat} {w : Wire} (h : WireOk max w) : wireBytes w ≤ max := by
  cases w with
  | nothing => simp [wireBytes]
  | datagram n => simpa [wireBytes, WireOk] using h
  | frame d k => simp [WireOk] at h; simp [wireBytes]; omega

theorem total_bytes_le (path : Path) (proto : Proto) (max : Nat) (ctx : Option Nat)
    (hm : path.mkiOk ctx) (ops : List Op) :
    ((ops.map (Path.send path proto max ctx)).map wireBytes).sum ≤ ops.length * max := by
  induction ops with
  | nil => simp
  | cons op rest ih =>
    have h1 : wireBytes (Path.send path proto max ctx op) ≤ max :=
      bytes_le_of_ok (every_write_within_max path proto max ctx hm [op] _ (by simp))
    simp only [List.map_cons, List.sum_cons, List.length_cons]
    have : (rest.length + 1) * max = rest.length * max + max := by rw [Nat.add_mul]; omega
    omega

/-- **A stream write reaches every unicast reader and the multicast writer within the maximum**,
whatever mix of SRTP and plain readers is attached. -/
theorem stream_fanout_within_max (proto : Proto) (max : Nat) (ctx : Option Nat) (hm : ctxMki ctx = 0)
    (readers : List Bool) (op : Op) :
    (∀ rs ∈ readers, WireOk max (Path.send (.stream rs) proto max ctx op)) ∧
    WireOk max (Path.send .mcast .udp max ctx op) := by
  refine ⟨fun rs _ => ?_, ?_⟩
  · exact every_write_within_max (.stream rs) proto max ctx hm [op] _ (by simp)
  · exact every_write_within_max .mcast .udp max ctx hm [op] _ (by simp)

/-- all readers of one stream write agree on acceptance: the packet is refused for all or sent to all -/
theorem stream_all_or_nothing (max : Nat) (ctx : Option Nat) (p : RtpShape) (r1 r2 : Bool) :
    ((Path.stream r1).rtp max ctx p = .err ↔ (Path.stream r2).rtp max ctx p = .err) ∧
    ((Path.stream r1).rtp max ctx p = .err ↔ Path.mcast.rtp max ctx p = .err) := by
  simp only [Path.rtp, streamWriteRtp, streamMcastRtp]
  cases encodeRtp max streamRtpOverhead false ctx p with
  | err => simp [Enc.reader, Enc.own]
  | panic => simp [Enc.reader, Enc.own]
  | ok n x => cases x <;> cases r1 <;> cases r2 <;> simp [Enc.reader, Enc.own]

/-- the 16-bit length field of an interleaved frame never wraps for a started client or server -/
theorem frame_length_fits (max : Nat) (hmax : max ≤ 1472) (d w : Nat) (h : WireOk max (.frame d w)) :
    d < 65536 ∧ w = d := by
  simp [WireOk] at h
  omega

/-- **From `Start` to the wire**: once `Start` has accepted a configuration (and the maximum in
force is not negative), no write of any kind puts more than 1472 bytes — the payload of a UDP
datagram on an Ethernet path — into a datagram or a frame. -/
theorem started_writes_within_udp_payload (wq : BitVec 64) (cfgMax : Int) (wq' : BitVec 64) (max' : Int)
    (hs : clientStart wq cfgMax = some (wq', max')) (hpos : 0 ≤ max')
    (path : Path) (proto : Proto) (ctx : Option Nat) (hm : path.mkiOk ctx) (op : Op) :
    WireOk 1472 (Path.send path proto max'.toNat ctx op) := by
  have hle : max'.toNat ≤ 1472 := by
    have := (started_values wq cfgMax wq' max' hs).1
    omega
  have h : WireOk max'.toNat (Path.send path proto max'.toNat ctx op) :=
    every_write_within_max path proto max'.toNat ctx hm [op] _ (by simp)
  cases hw : Path.send path proto max'.toNat ctx op with
  | nothing => simp [WireOk]
  | datagram n => rw [hw] at h; simp [WireOk] at h ⊢; omega
  | frame d k => rw [hw] at h; simp [WireOk] at h ⊢; omega

/-- `MarshalTo` never writes past the buffer it is given -/
theorem marshal_within_buffer (p : RtpShape) (buf n : Nat) (h : marshalTo p buf = some n) :
    n ≤ buf ∧ n = rtpMarshalSize p ∧ 12 ≤ n := by
  obtain ⟨_, h2, h3⟩ := marshalTo_eq_some.mp h
  have := rtpMarshalSize_eq p
  omega

/-- extension blocks are whole 32-bit words -/
theorem extSize_mod4 (e : Ext) : extSize e % 4 = 0 := by
  cases e with
  | none => rfl
  | oneByte ls => simp [extSize, roundUp4]
  | twoByte ls => simp [extSize, roundUp4]
  | rfc3550 l => cases l <;> simp [extSize, roundUp4]

-- non-vacuity
example : Path.send .client .tcp 200 (some 4) (.rtp { payload := 174 }) = .frame 200 200 := by decide
example : clientStart 0#64 0 = some (256#64, 1472) ∧ (0 : Int) ≤ 1472 := by decide
example : marshalTo { payload := 100 } 112 = some 112 := by decide

end Rtsp.Size.C18
