import Rtsp.Model.Receiver
namespace Rtsp.Recv
theorem stub : (init true 4).buf.length = 4 := by simp [init]
end Rtsp.Recv
