import Rtsp.Proofs.Receiver.Run
/-
# C14 — RTP receiver: ordered, de-duplicated delivery and exact loss accounting

Property theorems about `Model/Receiver.lean` (the model of pkg/rtpreceiver/receiver.go that the
correspondence harness runs against the real `Receiver`).  Statements only; the proofs are in
`Rtsp/Proofs/Receiver/*.lean`.  Everything is quantified over **all** arrival histories, **all**
starting sequence numbers (`UInt16`, so every wrap position), **all** power-of-two buffer sizes
`2^k`, `k ≤ 14`, and both transports — by invariant + induction, no bound on the history.

Hypothesis `Pow2` (buffer size `2^k`, `k ≤ 14`): `Receiver.Initialize` does not validate
`BufferSize`; the property quantifies over powers of two, and above `2^14` the Go code's
`int16(len(rr.buffer))` / `uint16(len(rr.buffer))` conversions stop being exact.

Definitions used in the statements (all in `Proofs/Receiver`):
`Fwd a b`  : `b` is ahead of `a` as the receiver itself decides it, `int16(b − a − 1) ≥ 0`;
`IncFrom l seqs` : every element of `seqs` is `Fwd` of its predecessor, starting from `l`;
`skipped l seqs` : Σ of the sequence numbers skipped between consecutive elements (mod 2^16);
`Accounted unrel l outs` : per step, a detected restart delivers exactly the arriving packet with
  `lost = 0`; any other step has `lost = skipped` and (unreliable mode) `IncFrom`; the chain continues
  from the last delivered packet.
-/
namespace Rtsp.Recv.C14
open Rtsp.Recv Rtsp.Facts

/-- **The state invariant holds in every reachable state**, for any interleaving of packets and
receiver reports.  (Window invariant: slot `absPos` empty; slot `absPos + r` holds, if anything, the
packet numbered `last + 1 + r` — hence no sequence number is buffered twice.) -/
theorem invariant_reachable (u : Bool) (size : Nat) (hs : u = true → Pow2 size) (ops : List Op) :
    Inv (exec (Recv.init u size) ops).1 :=
  inv_exec _ ops (inv_init u size hs)

/-- **Go's `for { … }` scan in `reorder` terminates**: under the invariant it stops within
`len(buffer) − 1` iterations (slot `absPos` is always empty). -/
theorem scan_terminates (s : State) (h : WInv s) : scanLen s < s.buf.length := (scan_spec s h).1

/-- **Ordered, de-duplicated delivery and exact loss accounting, along every history.**  From any
reachable state that has seen its first packet, for every arrival history `ps`:
delivered sequence numbers strictly increase (unreliable mode) except across a detected restart, and
the number reported lost at each step equals the number of sequence numbers skipped between
consecutively delivered packets (both modes). -/
theorem delivered_increasing_and_lost_eq_skipped (s : State) (ps : List Pkt) (h : Inv s)
    (hf : s.first = true) : Accounted s.unreliable s.last (run s ps).2 :=
  run_accounted s ps h hf

/-- the same from power-on: the first packet is delivered as it is, then the chain starts -/
theorem from_init (u : Bool) (size : Nat) (hs : u = true → Pow2 size) (p : Pkt) (ps : List Pkt) :
    (run (Recv.init u size) (p :: ps)).2.head? = some { pkts := [p], lost := 0 } ∧
    Accounted u p.seq (run (Recv.init u size) (p :: ps)).2.tail := by
  have h0 := inv_init u size hs
  have hst : step (Recv.init u size) p
      = ({ (Recv.init u size) with first := true, received := 1, rlSince := 1, last := p.seq },
         { pkts := [p], lost := 0 }) := step_first _ p rfl
  have hi := inv_step _ p h0
  rw [hst] at hi
  have := run_accounted _ ps hi rfl
  simp only [run, hst, List.head?_cons, List.tail_cons, true_and]
  simpa [Recv.init] using this

/-- **No duplicate is buffered, none delivered twice in a row**: consecutive delivered packets
differ (`Fwd` is irreflexive), and two packets waiting in the buffer have different numbers. -/
theorem fwd_irrefl (a : UInt16) : ¬ Fwd a a := by
  unfold Fwd; rw [relPos_eq]
  have : (a - a - 1).toNat = 65535 := by
    simp [UInt16.toNat_sub]
  rw [this]; decide

theorem buffered_distinct (s : State) (h : WInv s) (r₁ r₂ : Nat) (q₁ q₂ : Pkt)
    (h₁ : r₁ < s.buf.length) (h₂ : r₂ < s.buf.length)
    (e₁ : slot s r₁ = some q₁) (e₂ : slot s r₂ = some q₂) (hne : r₁ ≠ r₂) : q₁.seq ≠ q₂.seq := by
  rw [h.seqs r₁ q₁ h₁ e₁, h.seqs r₂ q₂ h₂ e₂]
  have hle := h.pow2.le
  intro heq
  have := congrArg UInt16.toNat heq
  simp [UInt16.toNat_add, UInt16.toNat_ofNat'] at this
  omega

/-- **A packet that arrives inside the reorder window is delivered, not dropped** (see
`window_conserved`): every packet at or ahead of the origin that is not a copy of a packet already
waiting in its slot is — together with everything already waiting — delivered by the step or still
waiting after it. -/
theorem arrival_in_window_delivered (s : State) (p : Pkt) (h : WInv s)
    (hr : 0 ≤ relPos p.seq s.last)
    (hnd : relPos p.seq s.last < s.buf.length →
      s.buf.getD (slotIdx s (relPos p.seq s.last).toNat) none = none ∨ relPos p.seq s.last = 0)
    (q : Pkt) (hq : q = p ∨ q ∈ occupied s) :
    q ∈ (reorder s p).2.pkts ∨ q ∈ occupied (reorder s p).1 :=
  window_conserved s p h hr hnd q hq

/-- **The only way a non-duplicate packet is dropped**: it is behind the origin
(`relPos < 0`) and the restart threshold is not reached; then nothing else changes. -/
theorem dropped_only_behind (s : State) (p : Pkt) (hr : relPos p.seq s.last < 0)
    (hn : ¬ s.negCount + 1 > s.buf.length) :
    (reorder s p).2.pkts = [] ∧ (reorder s p).1.buf = s.buf ∧ (reorder s p).1.absPos = s.absPos :=
  behind_dropped s p hr hn

/-- **Statistics agree with the history** (`Stats().Received`, `.Lost`, `.LastSequenceNumber`). -/
theorem stats_agree (s : State) (ps : List Pkt) (hf : s.first = true) :
    (run s ps).1.received = s.received + deliveredCount (run s ps).2 ∧
    (run s ps).1.lost = s.lost + lostTotal (run s ps).2 ∧
    (run s ps).1.last = (run s ps).2.foldl (fun l o => lastSeq l o.pkts) s.last :=
  run_stats s ps hf

/-- **Receiver reports**: the fraction-lost value computed in `report()` is below 256 in every
reachable state, so Go's `uint8(…)` conversion never wraps; cumulative loss is clamped to 24 bits. -/
theorem fraction_lost_lt_256 (s : State) (h : Inv s) (r : Report) (hr : (report s).2 = some r) :
    r.fractionLost < 256 := fraction_lt_256 s h r hr

theorem total_lost_clamped (s : State) (r : Report) (hr : (report s).2 = some r) :
    r.totalLost ≤ Recv.lostClamp ∧ r.totalLost ≤ s.lost := by
  unfold report at hr
  cases hf : s.first with
  | false => simp [hf] at hr
  | true =>
    simp only [hf, Bool.not_true, Bool.false_eq_true, if_false, Option.some.injEq] at hr
    subst hr
    exact ⟨Nat.min_le_right _ _, Nat.min_le_left _ _⟩

/-- **Extended highest sequence number**: every delivered packet `d` positions ahead
(`1 ≤ d < 65536 − 4095`; in unreliable mode `d ≤ 2^15` always) advances it by exactly `d`. -/
theorem ext_seq (s : State) (p : Pkt) (d : Nat) (hd1 : 1 ≤ d)
    (hd2 : (d : Int) < 65536 + Recv.cycleThreshold) (hp : p.seq = s.last + UInt16.ofNat d)
    (hc : s.cycles.toNat < 65535) : extSeq (advance s p) = extSeq s + d :=
  ext_seq_exact s p d hd1 hd2 (by decide) hp hc

/-- **A restarted sender is followed again after at most `BufferSize + 1` packets.** -/
theorem restart_followed_within (s : State) (ps : List Pkt) (h : WInv s) (hf : s.first = true)
    (hu : s.unreliable = true) (hneg : ∀ p ∈ ps, relPos p.seq s.last < 0)
    (hlen : ps.length = s.buf.length + 1) : ∃ o ∈ (run s ps).2, o.restart = true :=
  restart_within s ps h hf hu hneg (by omega)

/-! ## The displacement clause in the property's own wording — false of the code as it stands

"a packet that arrives displaced by fewer positions than the reorder buffer size is delivered":
with a loss before it, the whole-buffer flush moves the origin past a packet that is merely one
position late.  Witness (N = 4, arrivals 1 2 4 5 7 6 8): `6` is never delivered and is counted lost.
This is recorded in known-findings.txt (key `recv-late-after-loss-flush`); what *is* true of the code
is `arrival_in_window_delivered` + `dropped_only_behind` above. -/

def witness : List Pkt := [1, 2, 4, 5, 7, 6, 8].map fun n => { seq := UInt16.ofNat n, id := n }

theorem displacement_clause_fails :
    ((run (Recv.init true 4) witness).2.flatMap (·.pkts)).map (·.id) = [1, 2, 4, 5, 7, 8] ∧
    lostTotal (run (Recv.init true 4) witness).2 = 2 := by decide

/-! ## non-vacuity -/

/-- a reachable mid-history state (one packet waiting two positions ahead, across the 65535 → 0
wrap) satisfies the invariant's hypotheses used above -/
def exState : State := (run (Recv.init true 4) [⟨65534, 0⟩, ⟨1, 1⟩]).1

example : exState.first = true ∧ exState.unreliable = true ∧ exState.last = 65534 ∧
    occupied exState = [⟨1, 1⟩] := by decide
example : Pow2 4 := ⟨2, by decide, by decide⟩
example : Inv exState := inv_exec _ [.pkt ⟨65534, 0⟩, .pkt ⟨1, 1⟩] (inv_init true 4 (fun _ => ⟨2, by decide, by decide⟩))
/-- the restart hypothesis is satisfiable: five packets behind the origin with N = 4 -/
example : ∃ o ∈ (run exState [⟨60000, 2⟩, ⟨60001, 3⟩, ⟨60002, 4⟩, ⟨60003, 5⟩, ⟨60004, 6⟩]).2, o.restart = true := by decide

end Rtsp.Recv.C14
