import Rtsp.Proofs.Receiver.Run
import Rtsp.Proofs.Receiver.Displace
import Rtsp.Proofs.Receiver.Reports
/-
# C14 — RTP receiver: ordered, de-duplicated delivery and exact loss accounting

Property theorems about `Model/Receiver.lean` (the model of pkg/rtpreceiver/receiver.go that the
correspondence harness runs against the real `Receiver`).  Statements only; the proofs are in
`Rtsp/Proofs/Receiver/*.lean`.  Everything is quantified over **all** arrival histories, **all**
starting sequence numbers (`UInt16`, so every wrap position), **all** power-of-two buffer sizes
`2^k`, `k ≤ 14`, and both transports — by invariant + induction, no bound on the history.

Hypothesis `Pow2` (buffer size `2^k`, `k ≤ 14`): `Receiver.Initialize` does not validate
`BufferSize`; the property quantifies over powers of two, and above `2^14` the Go code's
`int16(len(rr.buffer))` / `uint16(len(rr.buffer))` conversions stop being exact.

Definitions used in the statements (all in `Proofs/Receiver`):
`Fwd a b`  : `b` is ahead of `a` as the receiver itself decides it, `int16(b − a − 1) ≥ 0`;
`IncFrom l seqs` : every element of `seqs` is `Fwd` of its predecessor, starting from `l`;
`skipped l seqs` : Σ of the sequence numbers skipped between consecutive elements (mod 2^16);
`Accounted unrel l outs` : per step, a detected restart delivers exactly the arriving packet with
  `lost = 0`; any other step has `lost = skipped` and (unreliable mode) `IncFrom`; the chain continues
  from the last delivered packet.
-/
namespace Rtsp.Recv.C14
open Rtsp.Recv Rtsp.Facts

/-- **The state invariant holds in every reachable state**, for any interleaving of packets and
receiver reports.  (Window invariant: slot `absPos` empty; slot `absPos + r` holds, if anything, the
packet numbered `last + 1 + r` — hence no sequence number is buffered twice.) -/
theorem invariant_reachable (u : Bool) (size : Nat) (hs : u = true → Pow2 size) (ops : List Op) :
    Inv (exec (Recv.init u size) ops).1 :=
  inv_exec _ ops (inv_init u size hs)

/-- **Go's `for { … }` scan in `reorder` terminates**: under the invariant it stops within
`len(buffer) − 1` iterations (slot `absPos` is always empty). -/
theorem scan_terminates (s : State) (h : WInv s) : scanLen s < s.buf.length := (scan_spec s h).1

/-- **Ordered, de-duplicated delivery and exact loss accounting, along every history.**  From any
reachable state that has seen its first packet, for every arrival history `ps`:
delivered sequence numbers strictly increase (unreliable mode) except across a detected restart, and
the number reported lost at each step equals the number of sequence numbers skipped between
consecutively delivered packets (both modes). -/
theorem delivered_increasing_and_lost_eq_skipped (s : State) (ps : List Pkt) (h : Inv s)
    (hf : s.first = true) : Accounted s.unreliable s.last (run s ps).2 :=
  run_accounted s ps h hf

/-- the same from power-on: the first packet is delivered as it is, then the chain starts -/
theorem from_init (u : Bool) (size : Nat) (hs : u = true → Pow2 size) (p : Pkt) (ps : List Pkt) :
    (run (Recv.init u size) (p :: ps)).2.head? = some { pkts := [p], lost := 0 } ∧
    Accounted u p.seq (run (Recv.init u size) (p :: ps)).2.tail := by
  have h0 := inv_init u size hs
  have hst : step (Recv.init u size) p
      = ({ (Recv.init u size) with first := true, received := 1, rlSince := 1, last := p.seq },
         { pkts := [p], lost := 0 }) := step_first _ p rfl
  have hi := inv_step _ p h0
  rw [hst] at hi
  have := run_accounted _ ps hi rfl
  simp only [run, hst, List.head?_cons, List.tail_cons, true_and]
  simpa [Recv.init] using this

/-- **No duplicate is buffered, none delivered twice in a row**: consecutive delivered packets
differ (`Fwd` is irreflexive), and two packets waiting in the buffer have different numbers. -/
theorem fwd_irrefl (a : UInt16) : ¬ Fwd a a := by
  unfold Fwd; rw [relPos_eq]
  have : (a - a - 1).toNat = 65535 := by
    simp [UInt16.toNat_sub]
  rw [this]; decide

theorem buffered_distinct (s : State) (h : WInv s) (r₁ r₂ : Nat) (q₁ q₂ : Pkt)
    (h₁ : r₁ < s.buf.length) (h₂ : r₂ < s.buf.length)
    (e₁ : slot s r₁ = some q₁) (e₂ : slot s r₂ = some q₂) (hne : r₁ ≠ r₂) : q₁.seq ≠ q₂.seq := by
  rw [h.seqs r₁ q₁ h₁ e₁, h.seqs r₂ q₂ h₂ e₂]
  have hle := h.pow2.le
  intro heq
  have := congrArg UInt16.toNat heq
  simp [UInt16.toNat_add, UInt16.toNat_ofNat'] at this
  omega

/-- **A packet that arrives inside the reorder window is delivered, not dropped** (see
`window_conserved`): every packet at or ahead of the origin that is not a copy of a packet already
waiting in its slot is — together with everything already waiting — delivered by the step or still
waiting after it. -/
theorem arrival_in_window_delivered (s : State) (p : Pkt) (h : WInv s)
    (hr : 0 ≤ relPos p.seq s.last)
    (hnd : relPos p.seq s.last < s.buf.length →
      s.buf.getD (slotIdx s (relPos p.seq s.last).toNat) none = none ∨ relPos p.seq s.last = 0)
    (q : Pkt) (hq : q = p ∨ q ∈ occupied s) :
    q ∈ (reorder s p).2.pkts ∨ q ∈ occupied (reorder s p).1 :=
  window_conserved s p h hr hnd q hq

/-- **The only way a non-duplicate packet is dropped**: it is behind the origin
(`relPos < 0`) and the restart threshold is not reached; then nothing else changes. -/
theorem dropped_only_behind (s : State) (p : Pkt) (hr : relPos p.seq s.last < 0)
    (hn : ¬ s.negCount + 1 > s.buf.length) :
    (reorder s p).2.pkts = [] ∧ (reorder s p).1.buf = s.buf ∧ (reorder s p).1.absPos = s.absPos :=
  behind_dropped s p hr hn

/-- **Statistics agree with the history** (`Stats().Received`, `.Lost`, `.LastSequenceNumber`). -/
theorem stats_agree (s : State) (ps : List Pkt) (hf : s.first = true) :
    (run s ps).1.received = s.received + deliveredCount (run s ps).2 ∧
    (run s ps).1.lost = s.lost + lostTotal (run s ps).2 ∧
    (run s ps).1.last = (run s ps).2.foldl (fun l o => lastSeq l o.pkts) s.last :=
  run_stats s ps hf

/-- **Receiver reports**: the fraction-lost value computed in `report()` is below 256 in every
reachable state, so Go's `uint8(…)` conversion never wraps; cumulative loss is clamped to 24 bits. -/
theorem fraction_lost_lt_256 (s : State) (h : Inv s) (r : Report) (hr : (report s).2 = some r) :
    r.fractionLost < 256 := fraction_lt_256 s h r hr

theorem total_lost_clamped (s : State) (r : Report) (hr : (report s).2 = some r) :
    r.totalLost ≤ Recv.lostClamp ∧ r.totalLost ≤ s.lost := by
  unfold report at hr
  cases hf : s.first with
  | false => simp [hf] at hr
  | true =>
    simp only [hf, Bool.not_true, Bool.false_eq_true, if_false, Option.some.injEq] at hr
    subst hr
    exact ⟨Nat.min_le_right _ _, Nat.min_le_left _ _⟩

/-- **Extended highest sequence number**: every delivered packet `d` positions ahead
(`1 ≤ d < 65536 − 4095`; in unreliable mode `d ≤ 2^15` always) advances it by exactly `d`. -/
theorem ext_seq (s : State) (p : Pkt) (d : Nat) (hd1 : 1 ≤ d)
    (hd2 : (d : Int) < 65536 + Recv.cycleThreshold) (hp : p.seq = s.last + UInt16.ofNat d)
    (hc : s.cycles.toNat < 65535) : extSeq (advance s p) = extSeq s + d :=
  ext_seq_exact s p d hd1 hd2 (by decide) hp hc

/-- **A restarted sender is followed again after at most `BufferSize + 1` packets.** -/
theorem restart_followed_within (s : State) (ps : List Pkt) (h : WInv s) (hf : s.first = true)
    (hu : s.unreliable = true) (hneg : ∀ p ∈ ps, relPos p.seq s.last < 0)
    (hlen : ps.length = s.buf.length + 1) : ∃ o ∈ (run s ps).2, o.restart = true :=
  restart_within s ps h hf hu hneg (by omega)

/-! ## The displacement clause in the property's own wording — false of the code as it stands

"a packet that arrives displaced by fewer positions than the reorder buffer size is delivered":
with a loss before it, the whole-buffer flush moves the origin past a packet that is merely one
position late.  Witness (N = 4, arrivals 1 2 4 5 7 6 8): `6` is never delivered and is counted lost.
This is recorded in known-findings.txt (key `recv-late-after-loss-flush`); what *is* true of the code
is `arrival_in_window_delivered` + `dropped_only_behind` above. -/

def witness : List Pkt := [1, 2, 4, 5, 7, 6, 8].map fun n => { seq := UInt16.ofNat n, id := n }

theorem displacement_clause_fails :
    ((run (Recv.init true 4) witness).2.flatMap (·.pkts)).map (·.id) = [1, 2, 4, 5, 7, 8] ∧
    lostTotal (run (Recv.init true 4) witness).2 = 2 := by decide

/-! ## non-vacuity -/

/-- a reachable mid-history state (one packet waiting two positions ahead, across the 65535 → 0
wrap) satisfies the invariant's hypotheses used above -/
def exState : State := (run (Recv.init true 4) [⟨65534, 0⟩, ⟨1, 1⟩]).1

example : exState.first = true ∧ exState.unreliable = true ∧ exState.last = 65534 ∧
    occupied exState = [⟨1, 1⟩] := by decide
example : Pow2 4 := ⟨2, by decide, by decide⟩
example : Inv exState := inv_exec _ [.pkt ⟨65534, 0⟩, .pkt ⟨1, 1⟩] (inv_init true 4 (fun _ => ⟨2, by decide, by decide⟩))
/-- the restart hypothesis is satisfiable: five packets behind the origin with N = 4 -/
example : ∃ o ∈ (run exState [⟨60000, 2⟩, ⟨60001, 3⟩, ⟨60002, 4⟩, ⟨60003, 5⟩, ⟨60004, 6⟩]).2, o.restart = true := by decide

/-! ## The displacement clause where it IS true of the code: no loss, bounded displacement

Additional definitions (in `Proofs/Receiver/{Conserve,Displace,Reports}`):
`delivered outs` : all packets delivered along a history, in delivery order;
`seqAt l i`      : the sequence number `l + 1 + i` (mod 2^16), the `i`-th packet of the stream after `l`;
`InWindow s ps`  : every arrival of `ps` meets a state in which `0 ≤ relPos < len(buffer)` and its slot
  is free — `reorder` takes neither the negative (drop / restart) branch, nor the whole-buffer flush
  branch, nor the duplicate branch;
`SubMs a b`      : multiset inclusion, `∀ q, count q a ≤ count q b`.

"Displaced by fewer positions than the buffer size" is formalised on sequence numbers: the arrival
order `idx` (stream indices) is a permutation of `0 … n-1` (nothing lost, nothing duplicated) such
that an earlier arrival `a` and a later arrival `c` always satisfy `a < c + N` — no packet arrives
before a packet whose sequence number is `N` or more lower.  This implies that every packet is
preceded by fewer than `N` packets with a higher sequence number (they are among `c+1 … c+N-1`) and
arrives at most `N−1` positions late.  The weaker count-of-positions reading is NOT enough for the
code: see `early_arrival_flushes` below (one packet 4 positions early, everybody else ≤ 1 late,
N = 2: the early packet triggers the whole-buffer flush). -/

/-- **Displacement clause, loss-free case.**  From any reachable state with an empty reorder buffer,
if the arrivals are a permutation of the consecutive stream `last+1 … last+n` (any `n`, so across
any number of wraps) in which no packet arrives before a packet `N = len(buffer)` or more positions
behind it, then: every arrival falls inside the window (no flush, no drop, no restart, no duplicate
branch), no step reports a loss, the delivered packets are exactly the stream in order, they are
the arrivals themselves (a permutation: each delivered exactly once), `Lost` is unchanged and the
buffer is empty again after the last arrival. -/
theorem displacement_without_loss_delivered (s : State) (h : Inv s) (hf : s.first = true)
    (hu : s.unreliable = true) (hempty : occupied s = []) (ps : List Pkt) (idx : List Nat) (n : Nat)
    (hperm : idx.Perm (List.range n))
    (hseq : ps.map (·.seq) = idx.map (seqAt s.last))
    (hdisp : idx.Pairwise (fun a c => a < c + s.buf.length)) :
    InWindow s ps ∧
    (∀ o ∈ (run s ps).2, o.restart = false ∧ o.lost = 0) ∧
    (delivered (run s ps).2).map (·.seq) = (List.range n).map (seqAt s.last) ∧
    (delivered (run s ps).2).Perm ps ∧
    (run s ps).1.lost = s.lost ∧
    occupied (run s ps).1 = [] := by
  obtain ⟨h1, h2, h3, h4⟩ :=
    disp_run s.last n s 0 idx ps h hf hu (disp_start s hempty idx n hperm hdisp) hseq
  have hp := inwindow_perm s ps h hf hu h1
  rw [h4, hempty] at hp
  refine ⟨h1, h2, ?_, by simpa using hp, ?_, h4⟩
  · rw [h3, List.range_eq_range']; rfl
  · rw [(run_stats s ps hf).2.1, lostTotal_zero _ (fun o ho => (h2 o ho).2)]; rfl

/-- the same from power-on: the first packet `p0` defines the origin, the rest of the history is a
boundedly displaced permutation of the `n` packets that follow it -/
theorem displacement_without_loss_from_init (size : Nat) (hs : Pow2 size) (p0 : Pkt) (ps : List Pkt)
    (idx : List Nat) (n : Nat) (hperm : idx.Perm (List.range n))
    (hseq : ps.map (·.seq) = idx.map (seqAt p0.seq))
    (hdisp : idx.Pairwise (fun a c => a < c + size)) :
    (delivered (run (Recv.init true size) (p0 :: ps)).2).map (·.seq)
      = p0.seq :: (List.range n).map (seqAt p0.seq) ∧
    (delivered (run (Recv.init true size) (p0 :: ps)).2).Perm (p0 :: ps) ∧
    lostTotal (run (Recv.init true size) (p0 :: ps)).2 = 0 ∧
    (run (Recv.init true size) (p0 :: ps)).1.lost = 0 ∧
    (run (Recv.init true size) (p0 :: ps)).1.received = n + 1 ∧
    occupied (run (Recv.init true size) (p0 :: ps)).1 = [] := by
  have hlen : (started true size p0).buf.length = size := by simp [started, Recv.init]
  obtain ⟨_, h2, h3, h4, h5, h6⟩ := displacement_without_loss_delivered (started true size p0)
    (inv_started true size (fun _ => hs) p0) rfl rfl (occupied_started true size p0) ps idx n hperm
    hseq (by rw [hlen]; exact hdisp)
  have hl0 := lostTotal_zero _ (fun o ho => (h2 o ho).2)
  have hrecv := (run_stats (started true size p0) ps rfl).1
  have hcnt : deliveredCount (run (started true size p0) ps).2 = n := by
    have e1 := congrArg List.length h3
    simp only [List.length_map, List.length_range] at e1
    rw [← e1]
    simp [deliveredCount, delivered, List.length_flatMap]
  rw [run_cons, step_init]
  refine ⟨?_, ?_, ?_, ?_, ?_, h6⟩
  · simp only [delivered, List.flatMap_cons, List.map_append, List.map_cons, List.map_nil] at h3 ⊢
    rw [h3]; rfl
  · simp only [delivered, List.flatMap_cons] at h4 ⊢
    exact List.Perm.cons p0 h4
  · simp only [lostTotal, List.map_cons, List.sum_cons] at hl0 ⊢
    omega
  · rw [h5]; rfl
  · rw [hrecv, hcnt]; simp [started]; omega

/-- non-vacuity: N = 4, first packet 65533, then the 8 packets 65534 … 5 (across the wrap) in the
order 2 0 1 3 6 4 5 7 (packets arrive up to 2 positions late, never 4 or more ahead) -/
def exIdx : List Nat := [2, 0, 1, 3, 6, 4, 5, 7]
def exPs : List Pkt := exIdx.map fun i => { seq := seqAt 65533 i, id := i }
example : exIdx.Perm (List.range 8) ∧ exPs.map (·.seq) = exIdx.map (seqAt 65533) ∧
    exIdx.Pairwise (fun a c => a < c + 4) := by decide
example : (delivered (run (Recv.init true 4) (⟨65533, 100⟩ :: exPs)).2).map (·.id)
    = [100, 0, 1, 2, 3, 4, 5, 6, 7] := by decide

/-- **Promptness in the loss-free case**: after every prefix `ps1` of such a history the delivered
packets are exactly the longest initial segment of the stream that has completely arrived — the
first `b` packets in order, where every index below `b` is among the arrivals so far and index `b`
itself is not.  Reordering never holds a packet back longer than necessary. -/
theorem displacement_without_loss_prompt (s : State) (h : Inv s) (hf : s.first = true)
    (hu : s.unreliable = true) (hempty : occupied s = []) (ps1 : List Pkt) (idx1 idx2 : List Nat)
    (n : Nat) (hperm : (idx1 ++ idx2).Perm (List.range n))
    (hseq : ps1.map (·.seq) = idx1.map (seqAt s.last))
    (hdisp : (idx1 ++ idx2).Pairwise (fun a c => a < c + s.buf.length)) :
    ∃ b, (delivered (run s ps1).2).map (·.seq) = (List.range b).map (seqAt s.last) ∧
      (∀ i, i < b → i ∈ idx1) ∧ (b < n → b ∉ idx1) ∧ b ≤ n := by
  obtain ⟨b, _, hd, hdel, hw⟩ := disp_prefix s.last n s 0 idx1 idx2 ps1 h hf hu
    (disp_start s hempty (idx1 ++ idx2) n hperm hdisp) hseq
  have hmem : ∀ i, i ∈ idx1 ++ idx2 ↔ i < n := by
    intro i; rw [hperm.mem_iff]; simp
  have hnd : (idx1 ++ idx2).Nodup := hperm.nodup_iff.mpr (range_nodup' n)
  refine ⟨b, by rw [hdel, List.range_eq_range']; rfl, ?_, ?_, hd.le⟩
  · intro i hi
    have hin : i ∈ idx1 ++ idx2 := (hmem i).mpr (by have := hd.le; omega)
    rcases List.mem_append.mp hin with e | e
    · exact e
    · have := (hd.range i e).1; omega
  · intro hb hmem1
    have h2 := disp_next_pending s.last n _ b idx2 hw hd hb
    exact (List.nodup_append.mp hnd).2.2 b hmem1 b h2 rfl

/-- non-vacuity: the example history above after its first five arrivals 2 0 1 3 6: packets
0 … 3 delivered, 4 not yet arrived, 6 waiting -/
example : (exIdx.take 5 ++ exIdx.drop 5).Perm (List.range 8) ∧
    (exPs.take 5).map (·.seq) = (exIdx.take 5).map (seqAt 65533) ∧
    (delivered (run (started true 4 ⟨65533, 100⟩) (exPs.take 5)).2).map (·.id) = [0, 1, 2, 3] := by decide

/-- TEST (`decide` on one sample, not a theorem over all inputs): counting positions is not enough.
N = 2, stream 1 … 4 after first packet 0, arrival order 3 1 2 4 — packet 3 is two positions early,
packets 1 and 2 are one position late and preceded by fewer than N higher-numbered packets; the
early packet is ≥ N ahead of the origin and triggers the whole-buffer flush (1 and 2 counted lost),
after which 1 and 2 are behind the origin and dropped. -/
theorem early_arrival_flushes :
    ((run (Recv.init true 2) ([0, 3, 1, 2, 4].map fun n => { seq := UInt16.ofNat n, id := n })).2.flatMap
      (·.pkts)).map (·.id) = [0, 3, 4] ∧
    lostTotal (run (Recv.init true 2) ([0, 3, 1, 2, 4].map fun n => { seq := UInt16.ofNat n, id := n })).2 = 2 := by
  decide

/-! ## Extended highest sequence number along a history

`dist a b` : forward distance `(b − a) mod 2^16`; `travel l seqs` : Σ of the forward distances
between consecutive elements of `seqs`, starting from `l`. -/

/-- **Extended highest sequence number, lifted to histories.**  If every delivered packet is ahead
of the previously delivered one in the receiver's own sense (`Fwd`: 1 … 2^15 positions), the
extended highest sequence number `cycles·2^16 + last` — the `LastSequenceNumber` field of the next
receiver report — equals its starting value plus the sum of the forward distances of all delivered
packets, as long as that still fits the 32-bit field (i.e. the 16-bit cycle counter does not
overflow). -/
theorem ext_seq_history (s : State) (ps : List Pkt) (hf : s.first = true)
    (hinc : IncFrom s.last ((delivered (run s ps).2).map (·.seq)))
    (hb : extSeq s + travel s.last ((delivered (run s ps).2).map (·.seq)) < 2 ^ 32) :
    extSeq (run s ps).1 = extSeq s + travel s.last ((delivered (run s ps).2).map (·.seq)) ∧
    ∀ r, (report (run s ps).1).2 = some r →
      r.extSeq = extSeq s + travel s.last ((delivered (run s ps).2).map (·.seq)) := by
  have := ext_seq_run s ps hf (steps_mono _ _ (by decide) _ _ (incFrom_steps _ _ hinc)) hb
  refine ⟨this, ?_⟩
  intro r hr
  rw [(report_floor _ r hr).2.1, this]

/-- in unreliable mode the hypothesis of `ext_seq_history` holds by itself for every history without
a detected restart (by `delivered_increasing_and_lost_eq_skipped`) -/
theorem ext_seq_history_no_restart (s : State) (ps : List Pkt) (h : Inv s) (hf : s.first = true)
    (hu : s.unreliable = true) (hnr : ∀ o ∈ (run s ps).2, o.restart = false)
    (hb : extSeq s + travel s.last ((delivered (run s ps).2).map (·.seq)) < 2 ^ 32) :
    extSeq (run s ps).1 = extSeq s + travel s.last ((delivered (run s ps).2).map (·.seq)) := by
  have hacc := run_accounted s ps h hf
  rw [hu] at hacc
  exact (ext_seq_history s ps hf (accounted_incFrom _ _ hacc hnr) hb).1

/-- from power-on: the extended highest sequence number is the first sequence number plus the sum of
the forward distances of all packets delivered after the first -/
theorem ext_seq_history_from_init (u : Bool) (size : Nat) (p : Pkt) (ps : List Pkt)
    (hinc : IncFrom p.seq ((delivered (run (Recv.init u size) (p :: ps)).2.tail).map (·.seq)))
    (hb : p.seq.toNat + travel p.seq ((delivered (run (Recv.init u size) (p :: ps)).2.tail).map (·.seq)) < 2 ^ 32) :
    extSeq (run (Recv.init u size) (p :: ps)).1
      = p.seq.toNat + travel p.seq ((delivered (run (Recv.init u size) (p :: ps)).2.tail).map (·.seq)) := by
  rw [run_cons, step_init] at hinc hb ⊢
  simp only [List.tail_cons] at hinc hb ⊢
  have he : extSeq (started u size p) = p.seq.toNat := by simp [extSeq, started, Recv.init]
  have := (ext_seq_history (started u size p) ps rfl hinc (by rw [he]; exact hb)).1
  rw [this, he]; rfl

/-- non-vacuity: a history across the 65535 → 0 wrap with a loss and a reordering -/
example : IncFrom 65533 ((delivered (run (Recv.init true 4)
      [⟨65533, 0⟩, ⟨65535, 1⟩, ⟨65534, 2⟩, ⟨1, 3⟩, ⟨0, 4⟩, ⟨9, 5⟩]).2.tail).map (·.seq)) ∧
    extSeq (run (Recv.init true 4)
      [⟨65533, 0⟩, ⟨65535, 1⟩, ⟨65534, 2⟩, ⟨1, 3⟩, ⟨0, 4⟩, ⟨9, 5⟩]).1 = 65533 + 12 := by decide

/-- non-vacuity for `ext_seq_history_no_restart`: the same history has no detected restart -/
example : ∀ o ∈ (run (started true 4 ⟨65533, 0⟩) [⟨65535, 1⟩, ⟨65534, 2⟩, ⟨1, 3⟩, ⟨0, 4⟩, ⟨9, 5⟩]).2,
    o.restart = false := by decide

/-- the same for both transports under the weaker hypothesis that is what the cycle counter really
needs: every delivery is 1 … 61440 (= 2^16 − 4096, from the `diff < -0x0FFF` test) positions ahead
of the previous one — in reliable mode a forward jump of up to 61440 is still followed exactly -/
theorem ext_seq_history_wide (s : State) (ps : List Pkt) (hf : s.first = true)
    (hst : Steps 61440 s.last ((delivered (run s ps).2).map (·.seq)))
    (hb : extSeq s + travel s.last ((delivered (run s ps).2).map (·.seq)) < 2 ^ 32) :
    extSeq (run s ps).1 = extSeq s + travel s.last ((delivered (run s ps).2).map (·.seq)) :=
  ext_seq_run s ps hf hst hb

/-- non-vacuity: reliable mode, two jumps of 40000 (the second across the wrap) -/
example : Steps 61440 0 ((delivered (run (started false 0 ⟨0, 0⟩) [⟨40000, 1⟩, ⟨14464, 2⟩, ⟨14465, 3⟩]).2).map (·.seq)) ∧
    extSeq (run (started false 0 ⟨0, 0⟩) [⟨40000, 1⟩, ⟨14464, 2⟩, ⟨14465, 3⟩]).1 = 80001 := by decide

/-! ## Packet identity -/

/-- **Every delivered packet is one of the arrivals** (by identity, with multiplicity): along every
history, in both modes, the delivered packets together with those still waiting in the buffer form a
sub-multiset of the arrivals together with those waiting at the start. -/
theorem delivered_subperm_arrivals (s : State) (ps : List Pkt) (h : Inv s) :
    SubMs (delivered (run s ps).2 ++ occupied (run s ps).1) (ps ++ occupied s) :=
  run_subms s ps h

/-- hence, when the arrivals (and initially waiting packets) carry pairwise distinct identities, no
identity is delivered twice — within an epoch or across detected restarts — and none is both
delivered and still waiting -/
theorem delivered_ids_distinct (s : State) (ps : List Pkt) (h : Inv s)
    (hid : ((ps ++ occupied s).map (·.id)).Nodup) :
    ((delivered (run s ps).2 ++ occupied (run s ps).1).map (·.id)).Nodup :=
  (run_subms s ps h).ids_nodup hid

/-- from power-on -/
theorem delivered_subperm_from_init (u : Bool) (size : Nat) (hs : u = true → Pow2 size) (ps : List Pkt) :
    SubMs (delivered (run (Recv.init u size) ps).2) ps ∧
    ((ps.map (·.id)).Nodup → ((delivered (run (Recv.init u size) ps).2).map (·.id)).Nodup) := by
  have hocc := occupied_init u size
  have h := run_subms _ ps (inv_init u size hs)
  rw [hocc, List.append_nil] at h
  have h' : SubMs (delivered (run (Recv.init u size) ps).2) ps := by
    intro q; have := h q; simp only [List.count_append] at this; omega
  exact ⟨h', fun hid => h'.ids_nodup hid⟩

/-- for an arrival that is inside the window (or ahead of it) and not a copy of a waiting packet the
inclusion is an equality: `reorder` neither drops nor invents a packet -/
theorem arrival_conserved_exactly (s : State) (p : Pkt) (h : WInv s) (hr : 0 ≤ relPos p.seq s.last)
    (hnd : relPos p.seq s.last < s.buf.length →
      s.buf.getD (slotIdx s (relPos p.seq s.last).toNat) none = none ∨ relPos p.seq s.last = 0) :
    ((reorder s p).2.pkts ++ occupied (reorder s p).1).Perm (p :: occupied s) :=
  reorder_perm s p h hr hnd

/-- non-vacuity for `arrival_conserved_exactly`: `exState` (packet 1 waiting, origin 65534) meets the
in-order packet 65535: it is delivered at once, packet 1 keeps waiting (0 is still missing) -/
example : 0 ≤ relPos 65535 exState.last ∧ relPos 65535 exState.last = 0 ∧
    ((reorder exState ⟨65535, 7⟩).2.pkts ++ occupied (reorder exState ⟨65535, 7⟩).1) = [⟨65535, 7⟩, ⟨1, 1⟩] := by
  decide

/-- non-vacuity (distinct ids incl. a duplicate sequence number carried by a different packet) -/
example : (([⟨10, 0⟩, ⟨12, 1⟩, ⟨12, 2⟩, ⟨11, 3⟩] : List Pkt).map (·.id)).Nodup ∧
    (delivered (run (Recv.init true 4) [⟨10, 0⟩, ⟨12, 1⟩, ⟨12, 2⟩, ⟨11, 3⟩]).2).map (·.id) = [0, 3, 1] := by
  decide

/-! ## Receiver-report fields after any interleaving of packets and reports

`outsOf evs` : the outputs of all `ProcessPacket2` steps of an event history;
`sinceReport evs` : the outputs of the steps since the last report that was actually produced. -/

/-- **The loss counters agree with the history**: after any sequence of packets and reports from
power-on, `lost` is the sum of the losses reported by all steps, `lostSinceReport` the sum over the
steps since the previous report, and `receivedAndLostSinceReport` the number of packets delivered
plus lost over the same steps. -/
theorem loss_counters_history (u : Bool) (size : Nat) (hs : u = true → Pow2 size) (ops : List Op) :
    (exec (Recv.init u size) ops).1.lost = lostTotal (outsOf (exec (Recv.init u size) ops).2) ∧
    (exec (Recv.init u size) ops).1.lostSince = lostTotal (sinceReport (exec (Recv.init u size) ops).2) ∧
    (exec (Recv.init u size) ops).1.rlSince
      = deliveredCount (sinceReport (exec (Recv.init u size) ops).2)
        + lostTotal (sinceReport (exec (Recv.init u size) ops).2) := by
  have := exec_acct _ ops [] [] (inv_init u size hs) (acct_init u size)
  simp only [List.nil_append] at this
  exact ⟨this.lost, this.since, this.rl⟩

/-- **Report fields along a history.**  A report produced after any sequence of packets and reports
has `totalLost = min(Σ lost, 2^24−1)` and `fractionLost = ⌊256·m / rl⌋` where `m = min(lostSince,
2^24−1)`, `lostSince` / `rl` being the lost / delivered+lost totals of the steps since the previous
report (exact floor characterisation: `f·rl ≤ 256·m < (f+1)·rl`; `f = 0` when `rl = 0`). -/
theorem report_fields_history (u : Bool) (size : Nat) (hs : u = true → Pow2 size) (ops : List Op)
    (r : Report) (hr : (report (exec (Recv.init u size) ops).1).2 = some r) :
    r.totalLost = min (lostTotal (outsOf (exec (Recv.init u size) ops).2)) (2 ^ 24 - 1) ∧
    (∀ ls rl, ls = lostTotal (sinceReport (exec (Recv.init u size) ops).2) →
      rl = deliveredCount (sinceReport (exec (Recv.init u size) ops).2) + ls →
      (rl = 0 → r.fractionLost = 0) ∧
      r.fractionLost * rl ≤ 256 * min ls (2 ^ 24 - 1) ∧
      (rl ≠ 0 → 256 * min ls (2 ^ 24 - 1) < (r.fractionLost + 1) * rl) ∧
      (ls ≤ 2 ^ 24 - 1 → r.fractionLost * rl ≤ 256 * ls ∧ (rl ≠ 0 → 256 * ls < (r.fractionLost + 1) * rl))) := by
  obtain ⟨c1, c2, c3⟩ := loss_counters_history u size hs ops
  obtain ⟨f1, _, f3, f4, f5⟩ := report_floor _ r hr
  have hl : Recv.lostClamp = 2 ^ 24 - 1 := by decide
  have hc : Recv.fractionClamp = 2 ^ 24 - 1 := by decide
  rw [c1, hl] at f1
  rw [c2, c3, hc] at f4 f5
  rw [c3] at f3
  refine ⟨f1, ?_⟩
  intro ls rl hls hrl
  subst hls; subst hrl
  refine ⟨f3, f4, f5, ?_⟩
  intro hle
  rw [Nat.min_eq_left hle] at f4 f5
  exact ⟨f4, f5⟩

/-- non-vacuity: packets, a report, more packets with a loss, then the report in question:
4 lost + 2 delivered since the previous report → fraction ⌊256·4/6⌋ = 170 -/
example : (report (exec (Recv.init true 4)
      [.pkt ⟨1, 0⟩, .pkt ⟨2, 1⟩, .report, .pkt ⟨3, 2⟩, .pkt ⟨8, 3⟩]).1).2
    = some { extSeq := 8, fractionLost := 170, totalLost := 4 } := by decide

/-! ## Atomicity of `report()` and `ProcessPacket2` — the structural fact behind the step semantics

`exec` treats every `ProcessPacket2` call and every `report()` call as one indivisible step.  For
the Go code this is true because each of them is ONE exclusive critical section of the receiver's
mutex.  The facts are regenerated from /repo on every run (facts/recv.json):
`reportExclusiveSection` — `report()` starts with `rr.mutex.Lock(); defer rr.mutex.Unlock()` and,
before the closing brace of the function, contains the snapshot of both loss counters and both
interval resets; `processPacketExclusive` — the same shape for `ProcessPacket2`; and every mention
of the mutex in receiver.go belongs to such a whole-function `Lock`/`RLock` + deferred unlock pair,
so no function releases and re-acquires the lock in its body ("lock narrowing").  A report that
snapshots under one critical section and resets under another loses the losses accounted in
between from every report's fraction — `report_fields_history` would no longer describe the code. -/
theorem report_is_one_exclusive_section :
    Recv.reportExclusiveSection = true ∧ Recv.processPacketExclusive = true ∧
    Recv.mutexMentions = 2 * (Recv.exclusiveFunctionSections + Recv.sharedFunctionSections) := by
  decide

end Rtsp.Recv.C14
