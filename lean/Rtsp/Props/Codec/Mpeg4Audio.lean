import Rtsp.Model.Codec.Mpeg4Audio
import Rtsp.Proofs.Codec.Mpeg4Audio
/-
Property theorems for pkg/format/rtpmpeg4audio (RFC 3640 generic mode), about the model in
`Model/Codec/Mpeg4Audio.lean`, for ALL bit-length configurations (SizeLength ≥ 1, any IndexLength /
IndexDeltaLength).  A frame is a group of access units; the encoder aggregates AUs while they fit,
splits a group that does not fit into several self-contained packets and fragments a single
oversize AU.

  C06  c06_payload_le, c06_seq_consecutive, c06_seq_many, c06_pt_ssrc, c06_marker_last
  C08  c08_inv_init, c08_inv_decode, c08_retained_le, c08_out_le, c08_headers_total,
       c08_header_in_bounds, c08_adts_total
  C03  c03_roundtrip_grouping, c03_fits_single, c03_timestamps, c03_roundtrip_many
  C07  c07_marker_cleans, c07_synced_stays, c07_flush, c07_resync   (for decoders whose ADTS sniffing
       is over — `Synced`; see the file comment at C07 for what is not covered)
-/
namespace Rtsp.Codec.Mpeg4Audio
open Rtsp.Rtp Rtsp.Facts Rtsp.Codec.Audio

/-! ## validity -/

/-- a usable configuration: the AU size field exists, and a fragment has room for at least one
byte of data after the 2-byte AU-headers-length and one AU header -/
structure ValidCfg (c : EncCfg) (p : Params) : Prop where
  sl_pos : 1 ≤ p.sl
  max_ok : 3 + ceil8 (p.sl + p.il) ≤ c.max

/-- a valid access unit: non-empty, its size fits the AU-size field and `MaxAccessUnitSize`, and it
does not start with the ADTS sync word (the decoder would take the stream for ADTS-wrapped) -/
def ValidUnit (p : Params) (au : Bytes) : Prop := SizeOk p au.length ∧ adtsSync au = false

/-- "AUs must contain at least 1 element"; the AU headers of the group fit the 16-bit
AU-headers-length field -/
def ValidFrame (p : Params) (aus : List Bytes) : Prop :=
  aus ≠ [] ∧ (∀ au ∈ aus, ValidUnit p au) ∧ hdrBitsLen p aus.length < 65536

instance (p : Params) (n : Nat) : Decidable (SizeOk p n) := by unfold SizeOk; infer_instance
instance (p : Params) (au : Bytes) : Decidable (ValidUnit p au) := by unfold ValidUnit; infer_instance
instance (p : Params) (aus : List Bytes) : Decidable (ValidFrame p aus) := by unfold ValidFrame; infer_instance

/-! ## the encoder as "partition, then write" -/

/-- sample count of a batch -/
def inc (b : List Bytes) : UInt32 := UInt32.ofNat b.length * UInt32.ofNat samplesPerAU

def parts (c : EncCfg) (p : Params) (aus : List Bytes) : List (List Bytes) := batches (ops c p).fits aus []

/-- the packets of one `Encode` call -/
def pkts (e : Enc) (aus : List Bytes) : List Pkt :=
  writeAllOk (writeBatch e.cfg e.par) inc (parts e.cfg e.par aus) 0 e.seq

/-- `Encode` never fails; it returns `pkts` and advances the sequence number by their count -/
theorem encode_eq (e : Enc) (aus : List Bytes) :
    encode e aus = ({ e with seq := e.seq + UInt16.ofNat (pkts e aus).length }, some (pkts e aus)) := by
  unfold encode
  rw [batchLoop_eq, writeAll_ok (ops e.cfg e.par) inc _ _ _ (fun b _ => rfl)]
  rfl

/-- what is known of every batch: a single AU, or an aggregate within the limit -/
def BatchOk (c : EncCfg) (p : Params) (b : List Bytes) : Prop := b.length = 1 ∨ lenAggregated p b none ≤ c.max

theorem lenAggregated_snoc (p : Params) (b : List Bytes) (f : Bytes) :
    lenAggregated p (b ++ [f]) none = lenAggregated p b (some f) := by
  simp [lenAggregated]; omega

theorem parts_ok (c : EncCfg) (p : Params) (hc : ValidCfg c p) (aus : List Bytes) :
    ∀ b ∈ parts c p aus, BatchOk c p b := by
  unfold parts
  cases aus with
  | nil =>
    intro b hb; simp [batches] at hb; subst hb
    right; have := hc.max_ok; simp [lenAggregated, hdrBitsLen, ceil8]; omega
  | cons f rest =>
    rw [batches_cons_nil]
    intro b hb
    exact (batches_forall (ops c p).fits (BatchOk c p) rest [f] (Or.inl rfl) (fun _ _ => Or.inl rfl)
      (fun b au _ _ hfit => by
        right; rw [lenAggregated_snoc]; simpa [ops] using hfit) (by simp) b hb).1

theorem parts_ne_nil (c : EncCfg) (p : Params) (aus : List Bytes) (hne : aus ≠ []) :
    ∀ b ∈ parts c p aus, b ≠ [] := by
  unfold parts
  cases aus with
  | nil => exact absurd rfl hne
  | cons f rest =>
    rw [batches_cons_nil]
    intro b hb
    exact (batches_forall (ops c p).fits (fun _ => True) rest [f] trivial (fun _ _ => trivial)
      (fun _ _ _ _ _ => trivial) (by simp) b hb).2

theorem parts_flatten (c : EncCfg) (p : Params) (aus : List Bytes) : (parts c p aus).flatten = aus := by
  simp [parts, batches_flatten]

theorem parts_units (c : EncCfg) (p : Params) (aus : List Bytes) : ∀ b ∈ parts c p aus, ∀ f ∈ b, f ∈ aus := by
  intro b hb f hf
  rw [← parts_flatten c p aus]
  exact List.mem_flatten.mpr ⟨b, hb, hf⟩

/-! ## C06 — packetiser: size limit, numbering, payload type / SSRC, marker -/

theorem packetCount_eq (avail le : Nat) : packetCount avail le = ceilDiv le avail := rfl

theorem writeBatch_payload_le (c : EncCfg) (p : Params) (hc : ValidCfg c p) (b : List Bytes)
    (hb : BatchOk c p b) (ts : UInt32) (sq : UInt16) : ∀ q ∈ writeBatch c p b ts sq, q.payload.length ≤ c.max := by
  have hmax := hc.max_ok
  have agg : b.length ≠ 1 → ∀ q ∈ writeAggregated c p b ts sq, q.payload.length ≤ c.max := by
    intro h1 q hq
    rcases hb with hb | hb
    · exact absurd hb h1
    · rw [writeAggregated_payload_length c p b ts sq q hq]; exact hb
  match b, agg with
  | [], agg => exact agg (by simp)
  | _ :: _ :: _, agg => exact agg (by simp)
  | [f], _ =>
    simp only [writeBatch]
    split
    · rename_i hlt
      intro q hq
      rw [writeAggregated_payload_length c p [f] ts sq q hq]; omega
    · intro q hq
      have := emitFrag_payload_le c p ts (c.max - 2 - ceil8 (p.sl + p.il)) _ sq f
        (by rw [packetCount_eq]; exact ceilDiv_upper _ _ (by omega)) q hq
      omega

/-- **C06 size clause**: every payload is at most `PayloadMaxSize`, for every group of AUs of any
sizes (below, at or above the limit) and every bit-length configuration. -/
theorem c06_payload_le (e : Enc) (aus : List Bytes) (hc : ValidCfg e.cfg e.par) :
    ∀ ps, (encode e aus).2 = some ps → ∀ q ∈ ps, q.payload.length ≤ e.cfg.max := by
  intro ps h
  rw [encode_eq] at h
  simp only [Option.some.injEq] at h
  subst h
  exact writeAllOk_forall _ _ _ _ _ _
    (fun b hb ts sq => writeBatch_payload_le e.cfg e.par hc b (parts_ok e.cfg e.par hc aus b hb) ts sq)

theorem writeBatch_seq (c : EncCfg) (p : Params) (b : List Bytes) (ts : UInt32) (sq : UInt16) :
    (writeBatch c p b ts sq).map (·.seq) = seqFrom sq (writeBatch c p b ts sq).length := by
  unfold writeBatch
  split
  · split
    · simp [writeAggregated, seqFrom]
    · simp [writeFragmented, emitFrag_seq, emitFrag_length]
  · simp [writeAggregated, seqFrom]

/-- **C06 numbering, one call**: the packets of one `Encode` carry `seq, seq+1, …` (mod 2^16) and
the encoder continues after them. -/
theorem c06_seq_consecutive (e : Enc) (aus : List Bytes) :
    (pkts e aus).map (·.seq) = seqFrom e.seq (pkts e aus).length ∧
    (encode e aus).1.seq = e.seq + UInt16.ofNat (pkts e aus).length ∧ (encode e aus).2 = some (pkts e aus) := by
  refine ⟨writeAllOk_seq _ _ _ _ _ (fun b _ ts sq => writeBatch_seq e.cfg e.par b ts sq), ?_, ?_⟩ <;>
    rw [encode_eq]

/-- a series of `Encode` calls through the same encoder -/
def encodeMany (e : Enc) : List (List Bytes) → Enc × List Pkt
  | [] => (e, [])
  | f :: fs =>
    let (e2, qs) := encodeMany (encode e f).1 fs
    (e2, pkts e f ++ qs)

/-- **C06 numbering, any series of calls, any initial value (incl. wrap inside the run)**. -/
theorem c06_seq_many (e : Enc) (fs : List (List Bytes)) :
    (encodeMany e fs).2.map (·.seq) = seqFrom e.seq (encodeMany e fs).2.length ∧
    (encodeMany e fs).1.seq = e.seq + UInt16.ofNat (encodeMany e fs).2.length := by
  induction fs generalizing e with
  | nil => simp [encodeMany, seqFrom]
  | cons f fs ih =>
    obtain ⟨h1, h2, _⟩ := c06_seq_consecutive e f
    obtain ⟨h3, h4⟩ := ih (encode e f).1
    simp only [encodeMany, List.map_append, List.length_append]
    refine ⟨?_, ?_⟩
    · rw [seqFrom_append, h1, h3, h2]
    · rw [h4, h2]
      apply UInt16.toNat_inj.mp
      simp [UInt16.toNat_add, UInt16.toNat_ofNat']
      omega

theorem writeBatch_hdr (c : EncCfg) (p : Params) (b : List Bytes) (ts : UInt32) (sq : UInt16) :
    ∀ q ∈ writeBatch c p b ts sq, q.pt = c.pt ∧ q.ssrc = c.ssrc ∧ q.ts = ts := by
  have agg : ∀ q ∈ writeAggregated c p b ts sq, q.pt = c.pt ∧ q.ssrc = c.ssrc ∧ q.ts = ts := by
    intro q hq; simp [writeAggregated] at hq; subst hq; simp
  unfold writeBatch
  split
  · split
    · exact agg
    · exact emitFrag_hdr _ _ _ _ _ _ _
  · exact agg

/-- **C06 payload type and SSRC** are the configured ones on every packet. -/
theorem c06_pt_ssrc (e : Enc) (aus : List Bytes) :
    ∀ q ∈ pkts e aus, q.pt = e.cfg.pt ∧ q.ssrc = e.cfg.ssrc := by
  intro q hq
  have := writeAllOk_forall (writeBatch e.cfg e.par) inc (fun q => q.pt = e.cfg.pt ∧ q.ssrc = e.cfg.ssrc ∧ True)
    (parts e.cfg e.par aus) 0 e.seq (fun b _ ts sq q hq => by
      have := writeBatch_hdr e.cfg e.par b ts sq q hq; exact ⟨this.1, this.2.1, trivial⟩) q hq
  exact ⟨this.1, this.2.1⟩

/-- a batch is written as packets without marker followed by one packet with the marker -/
theorem writeBatch_markers (c : EncCfg) (p : Params) (hc : ValidCfg c p) (b : List Bytes) (ts : UInt32)
    (sq : UInt16) : ∃ n, (writeBatch c p b ts sq).map (·.marker) = List.replicate n false ++ [true] := by
  have hmax := hc.max_ok
  have agg : ∃ n, (writeAggregated c p b ts sq).map (·.marker) = List.replicate n false ++ [true] :=
    ⟨0, by simp [writeAggregated]⟩
  unfold writeBatch
  split
  · rename_i f
    split
    · exact agg
    · rename_i hge
      simp only [writeFragmented]
      have hpos : 0 < packetCount (c.max - 2 - ceil8 (p.sl + p.il)) f.length := by
        rw [packetCount_eq]
        apply ceilDiv_pos _ _ (by omega)
        simp [lenAggregated, hdrBitsLen] at hge; omega
      obtain ⟨k, hk⟩ := Nat.exists_eq_succ_of_ne_zero (Nat.pos_iff_ne_zero.mp hpos)
      rw [hk]
      exact ⟨k, emitFrag_markers _ _ _ _ _ _ _⟩
  · exact agg

/-- the packets of one call, piece by piece (one piece per batch) -/
def pieces (e : Enc) (aus : List Bytes) : List (List Pkt) :=
  piecePkts (writeBatch e.cfg e.par) inc (parts e.cfg e.par aus) 0 e.seq

theorem pieces_flatten (e : Enc) (aus : List Bytes) : (pieces e aus).flatten = pkts e aus :=
  piecePkts_flatten _ _ _ _ _

theorem pieces_forall (e : Enc) (aus : List Bytes) (Q : List Pkt → Prop)
    (h : ∀ b ∈ parts e.cfg e.par aus, ∀ ts sq, Q (writeBatch e.cfg e.par b ts sq)) :
    ∀ ps ∈ pieces e aus, Q ps := by
  unfold pieces
  generalize parts e.cfg e.par aus = bs at h
  generalize (0 : UInt32) = ts
  generalize e.seq = sq
  induction bs generalizing ts sq with
  | nil => simp [piecePkts]
  | cons b bs ih =>
    intro ps hps
    simp only [piecePkts, List.mem_cons] at hps
    rcases hps with hps | hps
    · subst hps; exact h b (by simp) ts sq
    · exact ih (fun x hx => h x (by simp [hx])) _ _ ps hps

/-- **C06 marker**: within every piece (the packets that carry one batch, i.e. one unit the
decoder completes) the marker is set on the last packet and on no other. -/
theorem c06_marker_last (e : Enc) (aus : List Bytes) (hc : ValidCfg e.cfg e.par) :
    (pieces e aus).flatten = pkts e aus ∧
    ∀ ps ∈ pieces e aus, ∃ n, ps.map (·.marker) = List.replicate n false ++ [true] :=
  ⟨pieces_flatten e aus, pieces_forall e aus _ (fun b _ ts sq => writeBatch_markers e.cfg e.par hc b ts sq)⟩

/-! ## C08 — hostile packets: invariant, bounded retention, bounded output -/

/-- state invariant: the fragments held are at most `MaxAccessUnitSize` bytes (every AU size is
checked against it when the AU header is read, so no bound on the packet size is needed) -/
structure Inv (d : Dec) : Prop where
  size_eq : d.size = totalLen d.fragments
  empty   : d.size = 0 → d.fragments = []
  size_le : d.size ≤ maxAU
  nonempty : ∀ f ∈ d.fragments, 0 < f.length

theorem c08_inv_init (p : Params) : Inv { par := p } := ⟨rfl, fun _ => rfl, by simp, by simp⟩

theorem inv_of_clean (d : Dec) (h1 : d.size = 0) (h2 : d.fragments = []) : Inv d :=
  ⟨by simp [h1, h2], fun _ => h2, by omega, by simp [h2]⟩

theorem removeADTS_state (d : Dec) (aus : List Bytes) :
    (removeADTS d aus).1.fragments = d.fragments ∧ (removeADTS d aus).1.size = d.size ∧
    (removeADTS d aus).1.par = d.par := by
  unfold removeADTS
  split
  · split
    · split
      · split <;> simp
      · simp
    · simp
  · split
    · split
      · split <;> simp
      · simp
    · simp

theorem readAUHeaders_bounds (p : Params) (buf : Bytes) (hl : Nat) (l : List Nat)
    (h : readAUHeaders p buf hl = some l) : ∀ x ∈ l, 0 < x ∧ x ≤ maxAU :=
  readLoop_bounds p buf _ _ _ _ l h

/-- **C08**: the invariant is preserved by `Decode` on EVERY packet. -/
theorem c08_inv_decode (d : Dec) (q : Pkt) (hi : Inv d) : Inv (decode d q).1 := by
  obtain ⟨h1, h2, h3, h5⟩ := hi
  have hreset : ∀ d' : Dec, Inv d'.reset := fun d' => inv_of_clean _ rfl rfl
  have hrm : ∀ (d' : Dec) (aus : List Bytes), d'.size = 0 → d'.fragments = [] → Inv (removeADTS d' aus).1 := by
    intro d' aus hs hf
    obtain ⟨e1, e2, _⟩ := removeADTS_state d' aus
    exact inv_of_clean _ (by rw [e2, hs]) (by rw [e1, hf])
  unfold decode
  split
  · exact hreset d
  simp only []
  split
  · exact hreset d
  cases hr : readAUHeaders d.par (q.payload.drop 2)
      ((q.payload.getD 0 0).toNat * 256 + (q.payload.getD 1 0).toNat) with
  | none => exact hreset d
  | some dataLens =>
    have hb := readAUHeaders_bounds _ _ _ _ hr
    simp only
    split
    · split
      · split
        · exact hreset d
        · exact hrm _ _ rfl rfl
      · match dataLens, hb with
        | [dl], hb =>
          simp only
          split
          · exact hreset d
          · rename_i hlen
            have := (hb dl (by simp)).2
            have hpos := (hb dl (by simp)).1
            refine ⟨?_, ?_, by simpa using this, ?_⟩
            · simp only [Dec.reset, List.nil_append, totalLen_singleton, List.length_take]; omega
            · intro hz
              simp only at hz; omega
            · intro f hf
              simp only [Dec.reset, List.nil_append, List.mem_singleton] at hf
              subst hf; simp only [List.length_take]; omega
        | [], _ => exact hreset d
        | _ :: _ :: _, _ => exact hreset d
    · match dataLens, hb with
      | [dl], hb =>
        simp only
        split
        · exact hreset d
        split
        · exact hreset d
        split
        · exact hreset d
        rename_i hlen _ hle
        split
        · have hpos := (hb dl (by simp)).1
          refine ⟨?_, ?_, by simp only; omega, ?_⟩
          · simp only [totalLen_append, totalLen_singleton, List.length_take, h1]; omega
          · intro hz
            simp only at hz; omega
          · intro f hf
            simp only [List.mem_append, List.mem_singleton] at hf
            rcases hf with hf | hf
            · exact h5 f hf
            · subst hf; simp only [List.length_take]; omega
        · exact hrm _ _ rfl rfl
      | [], _ => exact hreset d
      | _ :: _ :: _, _ => exact hreset d

/-- **C08 bounded memory**: retained bytes never exceed `MaxAccessUnitSize` (5 KiB). -/
theorem c08_retained_le (d : Dec) (hi : Inv d) : retained d ≤ maxAU := by
  unfold retained; rw [← hi.size_eq]; exact hi.size_le

/-- **C08 bounded memory, number of retained slices**: every retained fragment is non-empty, so the
decoder never holds more slices than retained bytes. -/
theorem c08_fragment_count_le (d : Dec) (hi : Inv d) : d.fragments.length ≤ retained d := by
  unfold retained
  have h := hi.nonempty
  generalize d.fragments = fs at h
  induction fs with
  | nil => simp
  | cons f rest ih =>
    have := h f (by simp)
    have := ih (fun x hx => h x (by simp [hx]))
    simp only [List.length_cons, totalLen, List.map_cons, List.sum_cons] at this ⊢
    omega

theorem removeADTS_out (d : Dec) (aus out : List Bytes) (h : (removeADTS d aus).2 = .ok out)
    (hb : ∀ au ∈ aus, au.length ≤ maxAU) : ∀ au ∈ out, au.length ≤ maxAU := by
  have single : ∀ (au x : Bytes), adtsUnmarshal au = some [x] → x.length ≤ maxAU := by
    intro au x hx
    exact adtsLoop_bounds _ _ _ hx x (by simp)
  unfold removeADTS at h
  split at h
  · split at h
    · rename_i au
      split at h
      · split at h
        · rename_i x hx
          simp only [DecRes.ok.injEq] at h; subst h
          intro a ha; simp only [List.mem_singleton] at ha; subst ha; exact single _ _ hx
        · simp only [DecRes.ok.injEq] at h; subst h; exact hb
      · simp only [DecRes.ok.injEq] at h; subst h; exact hb
    · simp only [DecRes.ok.injEq] at h; subst h; exact hb
  · split at h
    · split at h
      · rename_i au
        split at h
        · rename_i x hx
          simp only [DecRes.ok.injEq] at h; subst h
          intro a ha; simp only [List.mem_singleton] at ha; subst ha; exact single _ _ hx
        · simp at h
      · simp at h
    · simp only [DecRes.ok.injEq] at h; subst h; exact hb

/-- **C08 output bound**: every returned access unit is at most `MaxAccessUnitSize` long. -/
theorem c08_out_le (d : Dec) (q : Pkt) (aus : List Bytes) (hi : Inv d)
    (h : (decode d q).2 = .ok aus) : ∀ au ∈ aus, au.length ≤ maxAU := by
  obtain ⟨h1, h2, h3, _⟩ := hi
  unfold decode at h
  split at h
  · simp at h
  simp only [] at h
  split at h
  · simp at h
  cases hr : readAUHeaders d.par (q.payload.drop 2)
      ((q.payload.getD 0 0).toNat * 256 + (q.payload.getD 1 0).toNat) with
  | none => simp only [hr] at h; exact absurd h (by simp)
  | some dataLens =>
    have hb := readAUHeaders_bounds _ _ _ _ hr
    simp only [hr] at h
    split at h
    · split at h
      · split at h
        · simp at h
        · rename_i aus0 hs
          exact removeADTS_out _ _ _ h (splitAUs_bounds _ _ _ hs (fun x hx => (hb x hx).2))
      · split at h
        · split at h <;> simp at h
        · simp at h
    · split at h
      · split at h
        · simp at h
        split at h
        · simp at h
        split at h
        · simp at h
        split at h
        · simp at h
        · refine removeADTS_out _ _ _ h ?_
          intro au hau
          simp only [List.mem_singleton] at hau
          subst hau
          rw [joinFragments_length]
          omega
      · simp at h

/-- **C08 totality (AU headers)**: the header loop never runs out of fuel — with any fuel above
the number of header bits the result is the same (every iteration takes `SizeLength ≥ 1` bits). -/
theorem c08_headers_total (p : Params) (hsl : 1 ≤ p.sl) (buf : Bytes) (f1 f2 hl pos : Nat) (first : Bool)
    (h1 : hl < f1) (h2 : hl < f2) :
    readAUHeadersLoop p buf f1 hl pos first = readAUHeadersLoop p buf f2 hl pos first :=
  readLoop_fuel p hsl buf f1 f2 hl pos first h1 h2

/-- **C08 no out-of-range slice**: whenever the AU headers parse, `payload[pos:]` with
`pos = ⌈headersLen/8⌉` is inside the payload (Go would panic otherwise). -/
theorem c08_header_in_bounds (p : Params) (buf : Bytes) (hl : Nat) (l : List Nat)
    (h : readAUHeaders p buf hl = some l) : ceil8 hl ≤ buf.length := by
  have := readLoop_in_bounds p buf _ _ _ _ l h (by omega)
  unfold ceil8; split <;> omega

/-- **C08 totality (ADTS)**: the ADTS loop never runs out of fuel. -/
theorem c08_adts_total (f1 f2 : Nat) (r : Bytes) (h1 : r.length < f1) (h2 : r.length < f2) :
    adtsLoop f1 r = adtsLoop f2 r := adtsLoop_fuel f1 f2 r h1 h2

/-! ## C03 — decoding the encoder's packets returns the group (grouping form) -/

/-- clean decoder: nothing held, not in ADTS mode -/
def Clean (d : Dec) : Prop := d.size = 0 ∧ d.fragments = [] ∧ d.adtsMode = false

instance (d : Dec) : Decidable (Clean d) := by unfold Clean; infer_instance

theorem be16_read (v : Nat) (h : v < 65536) (rest : Bytes) :
    ((be16 v ++ rest).getD 0 0).toNat * 256 + ((be16 v ++ rest).getD 1 0).toNat = v := by
  simp only [be16, List.cons_append, List.nil_append, List.getD_cons_zero, List.getD_cons_succ,
    UInt8.toNat_ofNat']
  omega

/-- what `Decode` sees at the front of a packet the encoder wrote for `units` -/
theorem front (p : Params) (hsl : 1 ≤ p.sl) (units : List Bytes) (hne : units ≠ [])
    (hv : ∀ u ∈ units, SizeOk p u.length) (h16 : hdrLen p true units.length < 65536) (payload : Bytes)
    (hq : payload = be16 (auHeaders p true units).length ++ pack (auHeaders p true units) ++ units.flatten) :
    ¬ payload.length < 2 ∧
    (payload.getD 0 0).toNat * 256 + (payload.getD 1 0).toNat = (auHeaders p true units).length ∧
    (auHeaders p true units).length ≠ 0 ∧
    readAUHeaders p (payload.drop 2) (auHeaders p true units).length = some (units.map (·.length)) ∧
    (payload.drop 2).drop (ceil8 (auHeaders p true units).length) = units.flatten := by
  have hl := auHeaders_length p true units
  have hd2 : payload.drop 2 = pack (auHeaders p true units) ++ units.flatten := by
    rw [hq]; simp [be16]
  refine ⟨?_, ?_, ?_, ?_, ?_⟩
  · rw [hq]; simp [be16]
  · rw [hq, List.append_assoc]; exact be16_read _ (by rw [hl]; exact h16) _
  · rw [hl]; unfold hdrLen
    cases units with
    | nil => exact absurd rfl hne
    | cons u rest => simp; omega
  · rw [hd2]; exact readAUHeaders_written p hsl units _ hv
  · rw [hd2]; exact List.drop_left' (pack_length _)

/-- `Decode` of a complete packet (marker) for `units`, nothing held -/
theorem decode_agg (d : Dec) (q : Pkt) (units : List Bytes) (hsl : 1 ≤ d.par.sl) (hne : units ≠ [])
    (hv : ∀ u ∈ units, SizeOk d.par u.length) (h16 : hdrLen d.par true units.length < 65536)
    (hq : q.payload = be16 (auHeaders d.par true units).length ++ pack (auHeaders d.par true units) ++ units.flatten)
    (hz : d.size = 0) (hm : q.marker = true) : decode d q = removeADTS d.reset units := by
  obtain ⟨f1, f2, f3, f4, f5⟩ := front d.par hsl units hne hv h16 q.payload hq
  unfold decode
  simp only [f1, ↓reduceIte, f2, f3, f4, f5, hz, hm, splitAUs_flatten]

/-- `Decode` of a first fragment (no marker), nothing held -/
theorem decode_first (d : Dec) (q : Pkt) (u : Bytes) (hsl : 1 ≤ d.par.sl)
    (hv : SizeOk d.par u.length) (h16 : hdrLen d.par true 1 < 65536)
    (hq : q.payload = be16 (auHeaders d.par true [u]).length ++ pack (auHeaders d.par true [u]) ++ [u].flatten)
    (hz : d.size = 0) (hm : q.marker = false) :
    decode d q = ({ d.reset with size := u.length, fragments := [u], nextSeq := q.seq + 1 }, .more) := by
  obtain ⟨f1, f2, f3, f4, f5⟩ := front d.par hsl [u] (by simp) (by simpa using hv) h16 q.payload hq
  unfold decode
  simp only [f1, ↓reduceIte, f2, f3, f4, f5, hz, hm, List.map_cons, List.map_nil, List.flatten_cons,
    List.flatten_nil, List.append_nil, Nat.lt_irrefl, List.take_length, Dec.reset, List.nil_append,
    Bool.false_eq_true]

/-- `Decode` of a following fragment that is expected -/
theorem decode_cont (d : Dec) (q : Pkt) (u : Bytes) (hsl : 1 ≤ d.par.sl)
    (hv : SizeOk d.par u.length) (h16 : hdrLen d.par true 1 < 65536)
    (hq : q.payload = be16 (auHeaders d.par true [u]).length ++ pack (auHeaders d.par true [u]) ++ [u].flatten)
    (hz : d.size ≠ 0) (hs : q.seq = d.nextSeq) (hle : ¬ d.size + u.length > maxAU) :
    decode d q =
      if !q.marker then
        ({ d with size := d.size + u.length, fragments := d.fragments ++ [u], nextSeq := d.nextSeq + 1 }, .more)
      else removeADTS { d with size := 0, fragments := [], nextSeq := d.nextSeq + 1 }
             [joinFragments (d.fragments ++ [u]) (d.size + u.length)] := by
  obtain ⟨f1, f2, f3, f4, f5⟩ := front d.par hsl [u] (by simp) (by simpa using hv) h16 q.payload hq
  unfold decode
  simp only [f1, ↓reduceIte, f2, f3, f4, f5, hz, hs, hle, List.map_cons, List.map_nil, List.flatten_cons,
    List.flatten_nil, List.append_nil, Nat.lt_irrefl, List.take_length, Dec.reset, ne_eq, not_true_eq_false]

theorem fragPayload_eq (p : Params) (chunk : Bytes) (hs : chunk.length < 2 ^ p.sl) :
    fragPayload p chunk =
      be16 (auHeaders p true [chunk]).length ++ pack (auHeaders p true [chunk]) ++ [chunk].flatten := by
  have hl : (auHeaders p true [chunk]).length = p.sl + p.il := by
    simp [auHeaders, bitsOf_length]
  rw [fragPayload, hdrBytes_eq_pack p [chunk] (by simpa using hs), hl]
  simp

/-- for AU sizes the size field can hold, the aggregated packet carries the specified header bits -/
theorem writeAggregated_pack (c : EncCfg) (p : Params) (b : List Bytes) (ts : UInt32) (sq : UInt16)
    (hs : ∀ au ∈ b, au.length < 2 ^ p.sl) :
    writeAggregated c p b ts sq =
      [{ pt := c.pt, seq := sq, ts := ts, ssrc := c.ssrc, marker := true,
         payload := be16 (auHeaders p true b).length ++ pack (auHeaders p true b) ++ b.flatten }] := by
  rw [writeAggregated, hdrBytes_eq_pack p b hs, auHeaders_length, hdrBitsLen_eq]

/-- valid AUs pass `removeADTS` unchanged when the decoder is not in ADTS mode -/
theorem removeADTS_valid (d : Dec) (b : List Bytes) (hm : d.adtsMode = false)
    (hb : ∀ au ∈ b, adtsSync au = false) :
    removeADTS d b = ({ d with firstAUParsed := true }, .ok b) := by
  unfold removeADTS
  cases hf : d.firstAUParsed
  · simp only [Bool.not_false, ↓reduceIte]
    match b, hb with
    | [au], hb => simp [hb au (by simp)]
    | [], _ => rfl
    | _ :: _ :: _, _ => rfl
  · simp only [Bool.not_true, Bool.false_eq_true, ↓reduceIte, hm]
    cases d
    simp_all

/-- the following fragments of an AU, fed to a decoder that holds the earlier ones -/
theorem run_rest (c : EncCfg) (ts : UInt32) (avail : Nat) (hav : 0 < avail) (k : Nat) (sq : UInt16)
    (rest : Bytes) (d : Dec) (hsl : 1 ≤ d.par.sl) (h16 : hdrLen d.par true 1 < 65536)
    (hsz : d.size = totalLen d.fragments) (hpos : d.size ≠ 0) (hseq : d.nextSeq = sq)
    (hlo : k * avail < rest.length) (htot : d.size + rest.length ≤ maxAU)
    (hfit : d.size + rest.length < 2 ^ d.par.sl) (hadts : d.adtsMode = false)
    (hsync : adtsSync (d.fragments.flatten ++ rest) = false) :
    ∃ d', runDec d (emitFrag c d.par ts avail (k + 1) sq rest)
        = (d', List.replicate k .more ++ [.ok [d.fragments.flatten ++ rest]]) ∧ Clean d' ∧ d'.par = d.par ∧
          d'.firstAUParsed = true := by
  induction k generalizing sq rest d with
  | zero =>
    have hr : 0 < rest.length := by omega
    have hd := decode_cont d { pt := c.pt, seq := sq, ts := ts, ssrc := c.ssrc, marker := true,
                               payload := fragPayload d.par rest } rest hsl ⟨hr, by omega, by omega⟩ h16
      (fragPayload_eq _ _ (by omega)) hpos hseq.symm (by omega)
    simp only [Bool.not_true, Bool.false_eq_true, ↓reduceIte] at hd
    have e : d.size + rest.length = totalLen (d.fragments ++ [rest]) := by simp [hsz]
    rw [e, joinFragments_exact] at hd
    rw [removeADTS_valid { d with size := 0, fragments := [], nextSeq := d.nextSeq + 1 } _ hadts (by
      intro au hau; simp only [List.mem_singleton] at hau; subst hau; simpa using hsync)] at hd
    refine ⟨{ d with size := 0, fragments := [], nextSeq := d.nextSeq + 1, firstAUParsed := true }, ?_,
      ⟨rfl, rfl, hadts⟩, rfl, rfl⟩
    simp only [emitFrag, runDec, runDecGen, hd, List.replicate_zero, List.nil_append]
    simp
  | succ k ih =>
    have hmul : (k + 1) * avail = k * avail + avail := Nat.succ_mul k avail
    have hlen : avail < rest.length := by
      have : 0 ≤ k * avail := Nat.zero_le _
      omega
    have htake : (rest.take avail).length = avail := by simp [List.length_take]; omega
    have hd := decode_cont d { pt := c.pt, seq := sq, ts := ts, ssrc := c.ssrc, marker := false,
                               payload := fragPayload d.par (rest.take avail) } (rest.take avail) hsl
      ⟨by omega, by omega, by omega⟩ h16 (fragPayload_eq _ _ (by omega)) hpos hseq.symm (by omega)
    simp only [Bool.not_false, ↓reduceIte] at hd
    obtain ⟨d', hrun, hclean, hpar, hfp⟩ := ih (sq + 1) (rest.drop avail)
      { d with size := d.size + (rest.take avail).length, fragments := d.fragments ++ [rest.take avail],
               nextSeq := d.nextSeq + 1 }
      hsl h16 (by simp [hsz]) (by simp only; omega) (by simp [hseq])
      (by simp only [List.length_drop]; omega) (by simp only [htake, List.length_drop]; omega)
      (by simp only [htake, List.length_drop]; omega) hadts
      (by simpa [List.append_assoc] using hsync)
    refine ⟨d', ?_, hclean, hpar, hfp⟩
    simp only [emitFrag, runDec, runDecGen, hd] at hrun ⊢
    rw [hrun]
    simp [List.replicate_succ, List.append_assoc]

/-- what makes a batch decodable: units valid, headers fit the 16-bit length field -/
structure BatchValid (p : Params) (b : List Bytes) : Prop where
  ne    : b ≠ []
  units : ∀ au ∈ b, ValidUnit p au
  h16   : hdrLen p true b.length < 65536

/-- one batch, from a clean decoder: "more" for every fragment but the last, then the batch -/
theorem run_batch (c : EncCfg) (p : Params) (hc : ValidCfg c p) (b : List Bytes) (hb : BatchValid p b)
    (ts : UInt32) (sq : UInt16) (d : Dec) (hd : Clean d) (hpar : d.par = p) :
    ∃ d' n, runDec d (writeBatch c p b ts sq) = (d', List.replicate n .more ++ [.ok b]) ∧ Clean d' ∧ d'.par = p ∧
      d'.firstAUParsed = true := by
  subst hpar
  obtain ⟨hz, hfr, hadts⟩ := hd
  have hmax := hc.max_ok
  have hsl : 1 ≤ d.par.sl := hc.sl_pos
  have agg : ∃ d' n, runDec d (writeAggregated c d.par b ts sq) = (d', List.replicate n .more ++ [.ok b]) ∧
      Clean d' ∧ d'.par = d.par ∧ d'.firstAUParsed = true := by
    have hd := decode_agg d { pt := c.pt, seq := sq, ts := ts, ssrc := c.ssrc, marker := true,
                              payload := be16 (auHeaders d.par true b).length ++ pack (auHeaders d.par true b) ++ b.flatten }
      b hsl hb.ne (fun u hu => (hb.units u hu).1) hb.h16 rfl hz rfl
    rw [removeADTS_valid d.reset _ hadts (fun au hau => (hb.units au hau).2)] at hd
    refine ⟨{ d.reset with firstAUParsed := true }, 0, ?_, ⟨rfl, rfl, hadts⟩, rfl, rfl⟩
    rw [writeAggregated_pack c d.par b ts sq (fun u hu => (hb.units u hu).1.2.1)]
    simp only [runDec, runDecGen, hd]
    simp
  unfold writeBatch
  split
  · rename_i au
    split
    · exact agg
    · rename_i hge
      obtain ⟨⟨hau0, hau1, hau2⟩, hausync⟩ := hb.units au (by simp)
      have h16 : hdrLen d.par true 1 < 65536 := by simpa using hb.h16
      simp only [lenAggregated, hdrBitsLen, List.length_cons, List.length_nil, Nat.zero_add,
        Option.isSome_none, Bool.false_eq_true, ↓reduceIte, Nat.add_zero, Nat.sub_self, Nat.zero_mul,
        totalLen_singleton, Nat.one_ne_zero] at hge
      simp only [writeFragmented]
      generalize hav : c.max - 2 - ceil8 (d.par.sl + d.par.il) = avail at hge ⊢
      have hpos : 0 < avail := by omega
      have hlow := ceilDiv_lower au.length avail hpos hau0
      have hcp := ceilDiv_pos au.length avail hpos hau0
      rw [← packetCount_eq] at hlow hcp
      obtain ⟨k, hk⟩ := Nat.exists_eq_succ_of_ne_zero (Nat.pos_iff_ne_zero.mp hcp)
      rw [hk] at hlow ⊢
      have hlow : k * avail < au.length := hlow
      cases k with
      | zero =>
        -- the AU is exactly as long as one fragment: a single packet with the marker
        have hd := decode_agg d { pt := c.pt, seq := sq, ts := ts, ssrc := c.ssrc, marker := true,
                                  payload := fragPayload d.par au }
          [au] hsl (by simp) (by intro u hu; simp at hu; subst hu; exact ⟨hau0, hau1, hau2⟩) h16
          (fragPayload_eq _ _ hau1) hz rfl
        rw [removeADTS_valid d.reset _ hadts (by intro x hx; simp at hx; subst hx; exact hausync)] at hd
        refine ⟨{ d.reset with firstAUParsed := true }, 0, ?_, ⟨rfl, rfl, hadts⟩, rfl, rfl⟩
        simp only [emitFrag, runDec, runDecGen, hd]
        simp
      | succ k =>
        have hmul : (k + 1) * avail = k * avail + avail := Nat.succ_mul k avail
        have hlen : avail < au.length := by
          have : 0 ≤ k * avail := Nat.zero_le _
          omega
        have htake : (au.take avail).length = avail := by simp [List.length_take]; omega
        have hd := decode_first d { pt := c.pt, seq := sq, ts := ts, ssrc := c.ssrc, marker := false,
                                    payload := fragPayload d.par (au.take avail) }
          (au.take avail) hsl ⟨by omega, by omega, by omega⟩ h16 (fragPayload_eq _ _ (by omega)) hz rfl
        obtain ⟨d', hrun, hclean, hpar', hfp⟩ := run_rest c ts avail hpos k (sq + 1) (au.drop avail)
          { d.reset with size := (au.take avail).length, fragments := [au.take avail], nextSeq := sq + 1 }
          hsl h16 (by simp) (by simp only [htake]; omega) rfl
          (by simp only [List.length_drop]; omega) (by simp only [htake, List.length_drop]; omega)
          (by simp only [htake, List.length_drop, Dec.reset]; omega)
          hadts (by simpa using hausync)
        refine ⟨d', k + 1, ?_, hclean, hpar', hfp⟩
        simp only [emitFrag, runDec, runDecGen, hd, Dec.reset] at hrun ⊢
        rw [hrun]
        simp [List.replicate_succ]
  · exact agg

theorem parts_valid (c : EncCfg) (p : Params) (aus : List Bytes) (hf : ValidFrame p aus) :
    ∀ b ∈ parts c p aus, BatchValid p b := by
  intro b hb
  refine ⟨parts_ne_nil c p aus hf.1 b hb, fun f hfb => hf.2.1 f (parts_units c p aus b hb f hfb), ?_⟩
  have hle : b.length ≤ aus.length := by
    have := length_le_flatten_length (parts c p aus) b hb
    rw [parts_flatten] at this
    have h2 : aus.flatten.length = totalLen aus := flatten_length aus
    -- every AU is non-empty, so a batch has at most as many AUs as the group
    have hb2 := length_le_flatten_length _ b hb
    rw [parts_flatten] at hb2
    exact this
  have := hdrLen_mono p true _ _ hle
  have h2 := hf.2.2
  rw [hdrBitsLen_eq] at h2
  omega

/-- **C03 round trip, grouping form**: for every valid configuration (any bit lengths), every valid
group and every clean decoder with the same bit lengths, `Encode` succeeds; the decoder answers
every packet with a frame or "more packets needed"; the returned frames are exactly the batches of
the group (the pieces the encoder split it into), so their concatenation is the group — same AUs,
same bytes, same order; and the decoder is clean afterwards. -/
theorem c03_roundtrip_grouping (e : Enc) (aus : List Bytes) (d : Dec)
    (hc : ValidCfg e.cfg e.par) (hf : ValidFrame e.par aus) (hd : Clean d) (hpar : d.par = e.par) :
    (encode e aus).2 = some (pkts e aus) ∧
    ∃ d' outs, runDec d (pkts e aus) = (d', outs) ∧ Clean d' ∧ d'.par = e.par ∧ OnlyOkMore outs ∧
      okFrames outs = parts e.cfg e.par aus ∧ (okFrames outs).flatten = aus := by
  refine ⟨by rw [encode_eq], ?_⟩
  obtain ⟨d', outs, h1, ⟨hcl, hp⟩, h3, h4⟩ := run_writeAllOk decode (fun d0 => Clean d0 ∧ d0.par = e.par)
    (writeBatch e.cfg e.par) inc (parts e.cfg e.par aus) 0 e.seq d ⟨hd, hpar⟩ (fun b hb ts sq d0 hd0 => by
      obtain ⟨d1, n, hr, hc1, hp1, _⟩ := run_batch e.cfg e.par hc b (parts_valid e.cfg e.par aus hf b hb) ts sq d0 hd0.1 hd0.2
      exact ⟨d1, n, hr, hc1, hp1⟩)
  exact ⟨d', outs, h1, hcl, hp, h4, h3, by rw [h3, parts_flatten]⟩

/-- the group fits one packet: AU-headers-length, AU headers and AUs within the limit -/
def Fits (c : EncCfg) (p : Params) (aus : List Bytes) : Prop := lenAggregated p aus none ≤ c.max

theorem ceil8_mono (a b : Nat) (h : a ≤ b) : ceil8 a ≤ ceil8 b := by
  unfold ceil8; split <;> split <;> omega

theorem totalLen_prefix (pre : List Bytes) (au : Bytes) (post : List Bytes) :
    totalLen (pre ++ au :: post) = totalLen pre + au.length + totalLen post := by
  simp [totalLen]; omega

/-- a group that fits is sent as ONE packet, and that packet returns the whole group -/
theorem c03_fits_single (e : Enc) (aus : List Bytes) (d : Dec) (hc : ValidCfg e.cfg e.par)
    (hf : ValidFrame e.par aus) (hd : Clean d) (hpar : d.par = e.par) (hfit : Fits e.cfg e.par aus) :
    ∃ q d', pkts e aus = [q] ∧ q.ts = 0 ∧ q.marker = true ∧ runDec d [q] = (d', [.ok aus]) ∧ Clean d' := by
  unfold Fits at hfit
  have hparts : parts e.cfg e.par aus = [aus] := by
    unfold parts
    have := batches_all_fit (ops e.cfg e.par).fits aus [] (by
      intro pre au post hfs
      show decide (lenAggregated e.par ([] ++ pre) (some au) ≤ e.cfg.max) = true
      rw [decide_eq_true_eq]
      have h1 : hdrBitsLen e.par (pre.length + 1) ≤ hdrBitsLen e.par aus.length := by
        rw [hdrBitsLen_eq, hdrBitsLen_eq]; apply hdrLen_mono; rw [hfs]; simp
      have h2 := ceil8_mono _ _ h1
      have h3 : totalLen aus = totalLen pre + au.length + totalLen post := by rw [hfs]; exact totalLen_prefix _ _ _
      simp only [lenAggregated, List.nil_append, Option.isSome_some, ↓reduceIte, Option.isSome_none,
        Bool.false_eq_true, Nat.add_zero] at hfit ⊢
      omega)
    simpa using this
  have hbv := parts_valid e.cfg e.par aus hf aus (by rw [hparts]; simp)
  obtain ⟨d', n, hr, hcl, _, _⟩ := run_batch e.cfg e.par hc aus hbv 0 e.seq d hd hpar
  have hp : pkts e aus = writeBatch e.cfg e.par aus 0 e.seq := by
    unfold pkts; rw [hparts]; simp [writeAllOk]
  have hone : ∃ q, writeBatch e.cfg e.par aus 0 e.seq = [q] ∧ q.ts = 0 ∧ q.marker = true := by
    unfold writeBatch
    split
    · rename_i au
      split
      · exact ⟨_, rfl, rfl, rfl⟩
      · rename_i hge
        have hmax := hc.max_ok
        have hau := (hf.2.1 au (by simp)).1.1
        simp only [lenAggregated, hdrBitsLen, List.length_cons, List.length_nil, Nat.zero_add,
          Option.isSome_none, Bool.false_eq_true, ↓reduceIte, Nat.add_zero, Nat.sub_self, Nat.zero_mul,
          totalLen_singleton, Nat.one_ne_zero] at hge hfit
        have hav : e.cfg.max - 2 - ceil8 (e.par.sl + e.par.il) = au.length := by omega
        have hpc : packetCount au.length au.length = 1 := by
          unfold packetCount; rw [Nat.div_self hau, Nat.mod_self]; simp
        simp only [writeFragmented, hav, hpc]
        exact ⟨_, rfl, rfl, rfl⟩
    · exact ⟨_, rfl, rfl, rfl⟩
  obtain ⟨q, hq1, hq2, hq3⟩ := hone
  refine ⟨q, d', by rw [hp, hq1], hq2, hq3, ?_, hcl⟩
  rw [hq1] at hr
  have hlen := congrArg (fun x => x.2.length) hr
  simp [runDec, runDecGen] at hlen
  subst hlen
  simpa using hr

/-- **timestamps**: the packets of piece `i` (batch `i`) all carry the relative timestamp
`1024 · (number of AUs in the batches before it)`: the first piece 0, every following piece its
predecessor's timestamp plus `1024 ·` the predecessor's AU count; the fragments of one AU share it. -/
theorem c03_timestamps (e : Enc) (aus : List Bytes) :
    (pieces e aus).flatten = pkts e aus ∧ AllTs (pieces e aus) (pieceTs inc (parts e.cfg e.par aus) 0) :=
  ⟨pieces_flatten e aus,
   piecePkts_ts _ _ _ _ _ (fun b _ ts sq q hq => (writeBatch_hdr e.cfg e.par b ts sq q hq).2.2)⟩

def encodeEach (e : Enc) : List (List Bytes) → List (List Pkt)
  | [] => []
  | f :: fs => pkts e f :: encodeEach (encode e f).1 fs

def runFrames (d : Dec) : List (List Pkt) → List (List (DecRes (List Bytes)))
  | [] => []
  | ps :: rest => (runDec d ps).2 :: runFrames (runDec d ps).1 rest

theorem encode_cfg (e : Enc) (aus : List Bytes) : (encode e aus).1.cfg = e.cfg ∧ (encode e aus).1.par = e.par := by
  rw [encode_eq]; exact ⟨rfl, rfl⟩

/-- **C03, consecutive groups** through the same encoder / decoder pair: for every call the
returned frames concatenate to the group of that call, and nothing else but "more packets needed"
is answered. -/
theorem c03_roundtrip_many (e : Enc) (gs : List (List Bytes)) (d : Dec) (hc : ValidCfg e.cfg e.par)
    (hf : ∀ g ∈ gs, ValidFrame e.par g) (hd : Clean d) (hpar : d.par = e.par) :
    (runFrames d (encodeEach e gs)).map (fun outs => (okFrames outs).flatten) = gs ∧
    ∀ outs ∈ runFrames d (encodeEach e gs), OnlyOkMore outs := by
  induction gs generalizing e d with
  | nil => exact ⟨rfl, by simp [runFrames, encodeEach]⟩
  | cons g gs ih =>
    obtain ⟨_, d', outs, h1, h2, hp, h3, _, h5⟩ := c03_roundtrip_grouping e g d hc (hf g (by simp)) hd hpar
    obtain ⟨hc1, hc2⟩ := encode_cfg e g
    obtain ⟨ih1, ih2⟩ := ih (encode e g).1 d' (by rw [hc1, hc2]; exact hc)
      (fun x hx => by rw [hc2]; exact hf x (by simp [hx])) h2 (by rw [hc2]; exact hp)
    simp only [encodeEach, runFrames, h1, List.map_cons]
    refine ⟨by rw [h5, ih1], ?_⟩
    intro o ho
    simp only [List.mem_cons] at ho
    rcases ho with ho | ho
    · subst ho; exact h3
    · exact ih2 o ho

/-! ## C07 — resynchronisation

The decoder sniffs the first access unit it ever returns for an ADTS header and then stays in
"ADTS mode" or "raw mode" for ever (`firstAUParsed`, `adtsMode`).  The statements below are for a
decoder whose sniffing is over and ended in raw mode (`Synced`).  They are false without that
hypothesis: a decoder that has not returned anything yet sniffs whatever comes first — also the
tail of an AU whose first fragment was lost — and a decoder in ADTS mode refuses every raw AU
(see `partial` in props/codec/audio.json and known-findings.txt, key `mpeg4audio-resync`). -/

/-- the ADTS sniffing is over and the decoder is in raw mode -/
def Synced (d : Dec) : Prop := d.firstAUParsed = true ∧ d.adtsMode = false

instance (d : Dec) : Decidable (Synced d) := by unfold Synced; infer_instance

theorem removeADTS_synced (d : Dec) (aus : List Bytes) (hs : Synced d) : removeADTS d aus = (d, .ok aus) := by
  unfold removeADTS; simp [hs.1, hs.2]

/-- **C07**: after ANY packet that carries the marker — whatever its payload and whatever the
decoder held — nothing is held any more. -/
theorem c07_marker_cleans (d : Dec) (q : Pkt) (hm : q.marker = true) :
    (decode d q).1.size = 0 ∧ (decode d q).1.fragments = [] := by
  have hrm : ∀ (d' : Dec) (aus : List Bytes), d'.size = 0 → d'.fragments = [] →
      (removeADTS d' aus).1.size = 0 ∧ (removeADTS d' aus).1.fragments = [] := by
    intro d' aus hs hf
    obtain ⟨e1, e2, _⟩ := removeADTS_state d' aus
    exact ⟨by rw [e2, hs], by rw [e1, hf]⟩
  unfold decode
  split
  · exact ⟨rfl, rfl⟩
  simp only []
  split
  · exact ⟨rfl, rfl⟩
  split
  · exact ⟨rfl, rfl⟩
  · simp only [hm, ↓reduceIte, Bool.not_true, Bool.false_eq_true]
    split
    · split
      · exact ⟨rfl, rfl⟩
      · exact hrm _ _ rfl rfl
    · split
      · split
        · exact ⟨rfl, rfl⟩
        split
        · exact ⟨rfl, rfl⟩
        split
        · exact ⟨rfl, rfl⟩
        · exact hrm _ _ rfl rfl
      · exact ⟨rfl, rfl⟩

/-- **C07 at most once**: access units are only ever returned at a packet that carries the marker,
and at that step the fragment buffer is emptied — nothing can be returned twice. -/
theorem c07_ok_needs_marker (d : Dec) (q : Pkt) (aus : List Bytes) (h : (decode d q).2 = .ok aus) :
    q.marker = true ∧ (decode d q).1.size = 0 ∧ (decode d q).1.fragments = [] := by
  cases hm : q.marker with
  | true => exact ⟨rfl, c07_marker_cleans d q hm⟩
  | false =>
    exfalso
    unfold decode at h
    split at h
    · simp at h
    simp only [] at h
    split at h
    · simp at h
    split at h
    · simp at h
    · simp only [hm, Bool.false_eq_true, ↓reduceIte, Bool.not_false] at h
      split at h
      · split at h
        · split at h <;> simp at h
        · simp at h
      · split at h
        · split at h
          · simp at h
          split at h
          · simp at h
          split at h
          · simp at h
          · simp at h
        · simp at h

/-- **C07**: once the sniffing is over in raw mode it stays so, on EVERY packet; the bit lengths
never change. -/
theorem c07_synced_stays (d : Dec) (q : Pkt) (hs : Synced d) :
    Synced (decode d q).1 ∧ (decode d q).1.par = d.par := by
  have hrm : ∀ (d' : Dec) (aus : List Bytes), Synced d' → d'.par = d.par →
      Synced (removeADTS d' aus).1 ∧ (removeADTS d' aus).1.par = d.par := by
    intro d' aus hs' hp; rw [removeADTS_synced d' aus hs']; exact ⟨hs', hp⟩
  have hk : Synced d.reset ∧ d.reset.par = d.par := ⟨hs, rfl⟩
  unfold decode
  split
  · exact hk
  simp only []
  split
  · exact hk
  split
  · exact hk
  · split
    · split
      · split
        · exact hk
        · exact hrm _ _ hs rfl
      · split
        · split
          · exact hk
          · exact ⟨hs, rfl⟩
        · exact hk
    · split
      · split
        · exact hk
        split
        · exact hk
        split
        · exact hk
        split
        · exact ⟨hs, rfl⟩
        · exact hrm _ _ hs rfl
      · exact hk

theorem synced_run (d : Dec) (ps : List Pkt) (hs : Synced d) :
    Synced (runDec d ps).1 ∧ (runDec d ps).1.par = d.par := by
  induction ps generalizing d with
  | nil => exact ⟨hs, rfl⟩
  | cons q ps ih =>
    obtain ⟨h1, h2⟩ := c07_synced_stays d q hs
    obtain ⟨h3, h4⟩ := ih (decode d q).1 h1
    simp only [runDec, runDecGen]
    exact ⟨h3, by rw [← h2]; exact h4⟩

/-- **C07**: a clean decoder — in particular a new one — is `Synced` for ever once it has decoded
ONE intact valid group: the sniffing sees a raw AU and settles on raw mode.  (The only way into
the sticky ADTS mode with a raw stream is damage before the very first returned AU.) -/
theorem c07_first_group_syncs (e : Enc) (aus : List Bytes) (d : Dec) (hc : ValidCfg e.cfg e.par)
    (hf : ValidFrame e.par aus) (hd : Clean d) (hpar : d.par = e.par) :
    Synced (runDec d (pkts e aus)).1 ∧ Clean (runDec d (pkts e aus)).1 := by
  obtain ⟨d', outs, h1, ⟨hcl, hfp⟩, _, _⟩ := run_writeAllOk decode
    (fun d0 => (Clean d0 ∧ d0.par = e.par) ∧ (d0 = d ∨ d0.firstAUParsed = true))
    (writeBatch e.cfg e.par) inc (parts e.cfg e.par aus) 0 e.seq d ⟨⟨hd, hpar⟩, Or.inl rfl⟩
    (fun b hb ts sq d0 hd0 => by
      obtain ⟨d1, n, hr, hc1, hp1, hf1⟩ := run_batch e.cfg e.par hc b (parts_valid e.cfg e.par aus hf b hb)
        ts sq d0 hd0.1.1 hd0.1.2
      exact ⟨d1, n, hr, ⟨hc1, hp1⟩, Or.inr hf1⟩)
  have hrun : runDec d (pkts e aus) = (d', outs) := h1
  rw [hrun]
  refine ⟨⟨?_, hcl.1.2.2⟩, hcl.1⟩
  rcases hfp with h | h
  · -- at least one batch was decoded, so the flag was set
    subst h
    have hne := batches_ne_nil (ops e.cfg e.par).fits aus []
    cases hp : parts e.cfg e.par aus with
    | nil => exact absurd hp hne
    | cons b bs =>
      obtain ⟨d1, n, hr, hc1, hp1, hf1⟩ := run_batch e.cfg e.par hc b
        (parts_valid e.cfg e.par aus hf b (by rw [hp]; simp)) 0 e.seq d' hd hpar
      have hs1 : Synced d1 := ⟨hf1, hc1.2.2⟩
      unfold pkts at hrun
      rw [hp, writeAllOk, runDec, runDecGen_append] at hrun
      rw [show runDecGen decode = runDec from rfl, hr] at hrun
      have := congrArg Prod.fst hrun
      simp only at this
      rw [← this]
      exact (synced_run d1 _ hs1).1.1
  · exact h

/-- **C07 flush**: from ANY state whose sniffing is over (whatever fragments it holds, whatever
sequence number it expects), the packets of one intact valid group, in order, leave the decoder
clean: the group's last packet carries the marker. -/
theorem c07_flush (e : Enc) (aus : List Bytes) (d : Dec) (hc : ValidCfg e.cfg e.par)
    (hf : ValidFrame e.par aus) (hs : Synced d) :
    Clean (runDec d (pkts e aus)).1 ∧ Synced (runDec d (pkts e aus)).1 ∧ (runDec d (pkts e aus)).1.par = d.par := by
  obtain ⟨hs', hp'⟩ := synced_run d (pkts e aus) hs
  refine ⟨?_, hs', hp'⟩
  obtain ⟨ini, lst, hsplit, hm⟩ := writeAllOk_last (writeBatch e.cfg e.par) inc (parts e.cfg e.par aus) 0 e.seq
    (batches_ne_nil _ _ _) (fun b _ ts sq => writeBatch_markers e.cfg e.par hc b ts sq)
  have hpk : pkts e aus = ini ++ [lst] := hsplit
  have hfin : (runDec d (pkts e aus)).1 = (decode (runDec d ini).1 lst).1 := by
    rw [hpk, runDec, runDecGen_append]; rfl
  obtain ⟨h1, h2⟩ := c07_marker_cleans (runDec d ini).1 lst hm
  rw [hfin] at hs' ⊢
  exact ⟨h1, h2, hs'.2⟩

/-- **C07 resynchronisation**: from ANY state whose sniffing is over — in particular after any
packet history (arbitrary packets: every loss / duplication / reordering pattern) applied to such a
state — an intact valid group `f` followed by an intact valid group `g` ends with exactly `g`:
nothing but "more packets needed" and the AUs of `g`, once, in order. -/
theorem c07_resync (d : Dec) (e : Enc) (f g : List Bytes) (hc : ValidCfg e.cfg e.par)
    (hs : Synced d) (hpar : d.par = e.par) (hf : ValidFrame e.par f) (hg : ValidFrame e.par g) :
    let e1 := (encode e f).1
    ∃ d' outs, runDec (runDec d (pkts e f)).1 (pkts e1 g) = (d', outs) ∧ Clean d' ∧ OnlyOkMore outs ∧
      (okFrames outs).flatten = g := by
  intro e1
  obtain ⟨hcl, _, hp⟩ := c07_flush e f d hc hf hs
  obtain ⟨hc1, hc2⟩ := encode_cfg e f
  obtain ⟨_, d', outs, h1, h2, _, h3, _, h5⟩ := c03_roundtrip_grouping e1 g (runDec d (pkts e f)).1
    (by rw [hc1, hc2]; exact hc) (by rw [hc2]; exact hg) hcl (by rw [hp, hc2]; exact hpar)
  exact ⟨d', outs, h1, h2, h3, h5⟩

/-! ### decoders whose sniffing is NOT over

What remains true without `Synced`: if the group starts with a whole packet (its first batch is not
a fragmented AU) and the first packet does not happen to carry the sequence number a stale fragment
run is waiting for, a decoder holding stale fragments answers that first packet with an error,
drops the stale fragments, and decodes the rest of the group exactly — damage stays local, the
sniffing then sees only raw AUs.  Not covered (and false on the real code, see the known finding):
a stale or new decoder that has returned nothing yet and meets the TAIL of a fragmented AU first. -/

/-- `Decode` of a complete packet for `units` while stale fragments are held: refused, fragments dropped -/
theorem decode_agg_dirty (d : Dec) (q : Pkt) (units : List Bytes) (hsl : 1 ≤ d.par.sl) (hne : units ≠ [])
    (hv : ∀ u ∈ units, SizeOk d.par u.length) (h16 : hdrLen d.par true units.length < 65536)
    (hq : q.payload = be16 (auHeaders d.par true units).length ++ pack (auHeaders d.par true units) ++ units.flatten)
    (hz : d.size ≠ 0) (hna : units.length ≠ 1 ∨ q.seq ≠ d.nextSeq) : decode d q = (d.reset, .err) := by
  obtain ⟨f1, f2, f3, f4, f5⟩ := front d.par hsl units hne hv h16 q.payload hq
  unfold decode
  simp only [f1, ↓reduceIte, f2, f3, f4, f5, hz]
  match units, hna with
  | [], _ => rfl
  | [u], hna =>
    have hs : q.seq ≠ d.nextSeq := by rcases hna with h | h; exact absurd rfl h; exact h
    simp only [List.map_cons, List.map_nil, List.flatten_cons, List.flatten_nil, List.append_nil,
      Nat.lt_irrefl, ↓reduceIte, hs, ne_eq, not_false_eq_true]
  | _ :: _ :: _, _ => rfl

/-- **C07, sniffing not over**: a decoder holding stale fragments (any, with any expected sequence
number, whether or not it has ever returned an AU) that is not in ADTS mode, fed the packets of a
valid group whose first batch goes into one whole packet, refuses that packet, and then returns
exactly the remaining batches; it is clean afterwards.  `hna` excludes the 1-in-65536 coincidence
that a single-AU first packet carries exactly the sequence number the stale run expects. -/
theorem c07_flush_unsniffed (e : Enc) (aus : List Bytes) (d : Dec) (hc : ValidCfg e.cfg e.par)
    (hf : ValidFrame e.par aus) (hpar : d.par = e.par) (hm : d.adtsMode = false) (hz : d.size ≠ 0)
    (b1 : List Bytes) (rest : List (List Bytes)) (hparts : parts e.cfg e.par aus = b1 :: rest)
    (hwhole : b1.length ≠ 1 ∨ lenAggregated e.par b1 none < e.cfg.max)
    (hna : b1.length ≠ 1 ∨ e.seq ≠ d.nextSeq) :
    ∃ d' outs, runDec d (pkts e aus) = (d', .err :: outs) ∧ Clean d' ∧ OnlyOkMore outs ∧ okFrames outs = rest := by
  have hbv := parts_valid e.cfg e.par aus hf
  have hb1 := hbv b1 (by rw [hparts]; simp)
  have hagg : writeBatch e.cfg e.par b1 0 e.seq = writeAggregated e.cfg e.par b1 0 e.seq := by
    unfold writeBatch
    split
    · rcases hwhole with h | h
      · simp at h
      · simp [h]
    · rfl
  have hsl : 1 ≤ d.par.sl := by rw [hpar]; exact hc.sl_pos
  have hd := decode_agg_dirty d { pt := e.cfg.pt, seq := e.seq, ts := 0, ssrc := e.cfg.ssrc, marker := true,
                                  payload := be16 (auHeaders e.par true b1).length ++ pack (auHeaders e.par true b1) ++ b1.flatten }
    b1 hsl hb1.ne (fun u hu => by rw [hpar]; exact (hb1.units u hu).1) (by rw [hpar]; exact hb1.h16)
    (by rw [hpar]) hz hna
  obtain ⟨d', outs, h1, ⟨hcl, _⟩, h3, h4⟩ := run_writeAllOk decode (fun d0 => Clean d0 ∧ d0.par = e.par)
    (writeBatch e.cfg e.par) inc rest (0 + inc b1) (e.seq + UInt16.ofNat (writeBatch e.cfg e.par b1 0 e.seq).length)
    d.reset ⟨⟨rfl, rfl, hm⟩, hpar⟩ (fun b hb ts sq d0 hd0 => by
      obtain ⟨d1, n, hr, hc1, hp1, _⟩ := run_batch e.cfg e.par hc b (hbv b (by rw [hparts]; simp [hb])) ts sq d0 hd0.1 hd0.2
      exact ⟨d1, n, hr, hc1, hp1⟩)
  refine ⟨d', outs, ?_, hcl, h4, h3⟩
  have hpk := writeAggregated_pack e.cfg e.par b1 0 e.seq (fun u hu => (hb1.units u hu).1.2.1)
  unfold pkts
  rw [hparts, writeAllOk, runDec, runDecGen_append, hagg, hpk]
  simp only [runDecGen, hd]
  rw [hagg, hpk] at h1
  rw [h1]
  rfl

/-- the bit lengths never change -/
theorem decode_par (d : Dec) (q : Pkt) : (decode d q).1.par = d.par := by
  have hrm : ∀ (d' : Dec) (aus : List Bytes), (removeADTS d' aus).1.par = d'.par :=
    fun d' aus => (removeADTS_state d' aus).2.2
  unfold decode
  split
  · rfl
  simp only []
  split
  · rfl
  split
  · rfl
  · split
    · split
      · split
        · rfl
        · rw [hrm]; rfl
      · split
        · split <;> rfl
        · rfl
    · split
      · split
        · rfl
        split
        · rfl
        split
        · rfl
        split
        · rfl
        · rw [hrm]; rfl
      · rfl

theorem runDec_par (d : Dec) (ps : List Pkt) : (runDec d ps).1.par = d.par := by
  induction ps generalizing d with
  | nil => rfl
  | cons q ps ih =>
    simp only [runDec, runDecGen]
    have := ih (decode d q).1
    simp only [runDec] at this
    rw [this, decode_par]

/-- **C07 resynchronisation, sniffing not over**: under the hypotheses of `c07_flush_unsniffed` for
the intact group `f`, the intact group `g` after it is returned exactly. -/
theorem c07_resync_unsniffed (e : Enc) (f g : List Bytes) (d : Dec) (hc : ValidCfg e.cfg e.par)
    (hf : ValidFrame e.par f) (hg : ValidFrame e.par g) (hpar : d.par = e.par) (hm : d.adtsMode = false)
    (hz : d.size ≠ 0) (b1 : List Bytes) (rest : List (List Bytes)) (hparts : parts e.cfg e.par f = b1 :: rest)
    (hwhole : b1.length ≠ 1 ∨ lenAggregated e.par b1 none < e.cfg.max)
    (hna : b1.length ≠ 1 ∨ e.seq ≠ d.nextSeq) :
    let e1 := (encode e f).1
    ∃ d' outs, runDec (runDec d (pkts e f)).1 (pkts e1 g) = (d', outs) ∧ Clean d' ∧ OnlyOkMore outs ∧
      (okFrames outs).flatten = g := by
  intro e1
  obtain ⟨d1, outs1, h1, hcl, _, _⟩ := c07_flush_unsniffed e f d hc hf hpar hm hz b1 rest hparts hwhole hna
  have hp1 : (runDec d (pkts e f)).1.par = e.par := by rw [runDec_par, hpar]
  obtain ⟨hc1, hc2⟩ := encode_cfg e f
  rw [h1] at hp1 ⊢
  obtain ⟨_, d', outs, h2, h3, _, h4, _, h5⟩ := c03_roundtrip_grouping e1 g d1
    (by rw [hc1, hc2]; exact hc) (by rw [hc2]; exact hg) hcl (by rw [hc2]; exact hp1)
  exact ⟨d', outs, h2, h3, h4, h5⟩

/-! ## facts the model depends on (regenerated from /repo on every run) -/

/-- the decoder checks every AU size read from an AU header against `MaxAccessUnitSize`
(fix cbafb20 is in the tree); the fragment header takes 2 bytes + the AU header -/
example : CodecAudio.mpeg4audioAuSizeChecked = true ∧ CodecAudio.mpeg4audioFragHeaderBytes = 2 := ⟨rfl, rfl⟩

/-! ## non-vacuity: the hypotheses are satisfiable by non-trivial values -/

/-- AAC-hbr (13/3/3) at limit 20 across a sequence-number wrap -/
def exEnc : Enc := { cfg := { pt := 96, ssrc := 7, max := 20 }, par := ⟨13, 3, 3⟩, seq := 65535 }
/-- two small AUs (aggregated), a 30-byte AU (fragmented 16 + 14), a 1-byte AU (single) -/
def exGroup : List Bytes := [[1, 2, 3], [4, 5, 6, 7], List.replicate 30 9, [8]]

example : ValidCfg exEnc.cfg exEnc.par := ⟨by decide, by decide⟩
set_option maxRecDepth 8000 in
example : ValidFrame exEnc.par exGroup ∧ Clean { par := exEnc.par } := by decide
set_option maxRecDepth 8000 in
example : (pkts exEnc exGroup).map (fun q => (q.seq, q.marker, q.ts, q.payload.length)) =
    [(65535, true, 0, 13), (0, false, 2048, 20), (1, true, 2048, 18), (2, true, 3072, 5)] := by decide
set_option maxRecDepth 8000 in
example : (runDec { par := exEnc.par } (pkts exEnc exGroup)).2 =
    [.ok [[1, 2, 3], [4, 5, 6, 7]], .more, .ok [List.replicate 30 9], .ok [[8]]] := by decide
set_option maxRecDepth 8000 in
example : Fits exEnc.cfg exEnc.par [[1, 2, 3], [4, 5, 6, 7]] := by unfold Fits; decide
/-- a dirty state (mid-AU, wrong expected sequence number) satisfies the invariant and `Synced` -/
example : Inv { par := ⟨13, 3, 3⟩, firstAUParsed := true, fragments := [[1, 2], [3]], size := 3, nextSeq := 77 } ∧
    Synced { par := ⟨13, 3, 3⟩, firstAUParsed := true, fragments := [[1, 2], [3]], size := 3, nextSeq := 77 } :=
  ⟨⟨by decide, by decide, by decide, by decide⟩, by decide⟩

end Rtsp.Codec.Mpeg4Audio
