import Rtsp.Model.Codec.Klv
import Rtsp.Proofs.Codec.Common
import Rtsp.Proofs.Codec.MiscSeries
/-
Property theorems for pkg/format/rtpklv about the model in `Model/Codec/Klv.lean`.

  C06  c06_payload_le, c06_seq_consecutive, c06_seq_many, c06_pt_ssrc, c06_marker_only_last
  C08  c08_inv_init, c08_inv_decode, c08_out_le,
       c08_retained_unbounded   (the NEGATION of the retained-bytes bound: recorded finding klv-unbounded)
       (output stability: `Props/Codec/KlvSlice.lean`, c08_returned_stable)
  C03  c03_roundtrip (under `NoEarlyCut`), c03_single_item (single-item units satisfy it),
       c03_multi_item_truncated (the NEGATION for a two-item unit: recorded finding klv-multi-item-truncated)
  C07  c07_marker_cleans, c07_flush, c07_resync
-/
namespace Rtsp.Codec.Klv
open Rtsp.Rtp

/-! ## validity -/

/-- the first packet must be able to carry the 4-byte label prefix the decoder looks for
(below 4 no unit of more than one packet can be decoded); 0 / negative values: see `encode`. -/
def ValidCfg (c : EncCfg) : Prop := 4 ≤ c.max

instance (c : EncCfg) : Decidable (ValidCfg c) := by unfold ValidCfg; infer_instance

/-- total length of the KLV item at the head of `b`: 16-byte key with the label prefix, BER length,
value — `none` if `b` does not start with a complete item -/
def itemLen (b : Bytes) : Option Nat :=
  if isKLVStart b ∧ 17 ≤ b.length then
    match parseKLVLength (b.drop 16) with
    | some (v, ls) => if 16 + ls + v ≤ b.length then some (16 + ls + v) else none
    | none => none
  else none

/-- `b` is the concatenation of exactly `k` KLV items -/
def isItems : Nat → Bytes → Bool
  | 0, b => b.isEmpty
  | k + 1, b =>
    match itemLen b with
    | some n => isItems k (b.drop n)
    | none => false

/-- a KLV unit with a single item (`len < 2^63`: a Go slice) -/
def SingleItem (f : Bytes) : Prop := itemLen f = some f.length ∧ f.length < 2 ^ 63

/-- RFC 6597 §4.2 KLVunit: one or more items -/
def ValidUnit (f : Bytes) : Prop := ∃ k, isItems (k + 1) f = true

instance (f : Bytes) : Decidable (SingleItem f) := by unfold SingleItem; infer_instance

/-- what the round trip of the code as it stands needs: the size declared by the first item, if the
first packet reveals it, is not reached before the last packet -/
def NoEarlyCut (c : EncCfg) (f : Bytes) : Prop :=
  f.length ≤ c.max ∨
  match declaredSize (f.take c.max) with
  | none => True
  | some s => s ≤ 0 ∨ (((packetCount c.max f.length - 1) * c.max : Nat) : Int) < s

instance (c : EncCfg) (f : Bytes) : Decidable (NoEarlyCut c f) := by
  unfold NoEarlyCut; cases declaredSize (f.take c.max) <;> infer_instance

theorem packetCount_eq (avail le : Nat) : packetCount avail le = ceilDiv le avail := rfl

/-! ## C06 -/

theorem emit_ind {motive : Nat → Prop} (case1 : motive 0) (case2 : motive 1)
    (case3 : ∀ n, motive (n + 1) → motive (n + 2)) : ∀ n, motive n
  | 0 => case1
  | 1 => case2
  | n + 2 => case3 n (emit_ind case1 case2 case3 (n + 1))

theorem emit_payload_le (c : EncCfg) (n : Nat) (sq : UInt16) (rest : Bytes)
    (h : rest.length ≤ n * c.max) : ∀ p ∈ emit c n sq rest, p.payload.length ≤ c.max := by
  induction n using emit_ind generalizing sq rest with
  | case1 => simp [emit]
  | case2 => intro p hp; simp [emit] at hp; subst hp; simpa using h
  | case3 n ih =>
    intro p hp
    simp only [emit, List.mem_cons] at hp
    rcases hp with hp | hp
    · subst hp; simp [List.length_take]; omega
    · apply ih (sq + 1) (rest.drop c.max) _ p hp
      simp only [List.length_drop]
      have : (n + 2) * c.max = (n + 1) * c.max + c.max := Nat.succ_mul (n + 1) c.max
      omega

/-- **C06 size clause**: every payload is at most `PayloadMaxSize`, for every unit. -/
theorem c06_payload_le (e : Enc) (f : Bytes) (hc : 0 < e.cfg.max) :
    ∀ p ∈ (encode e f).2, p.payload.length ≤ e.cfg.max := by
  unfold encode
  split
  · intro p hp; simp at hp; subst hp; simpa
  · exact emit_payload_le e.cfg _ e.seq f (by rw [packetCount_eq]; exact ceilDiv_upper _ _ hc)

theorem emit_length (c : EncCfg) (n : Nat) (sq : UInt16) (rest : Bytes) :
    (emit c n sq rest).length = n := by
  induction n using emit_ind generalizing sq rest with
  | case1 => simp [emit]
  | case2 => simp [emit]
  | case3 n ih => simp [emit, ih]

theorem emit_seq (c : EncCfg) (n : Nat) (sq : UInt16) (rest : Bytes) :
    (emit c n sq rest).map (·.seq) = seqFrom sq n := by
  induction n using emit_ind generalizing sq rest with
  | case1 => simp [emit, seqFrom]
  | case2 => simp [emit, seqFrom]
  | case3 n ih => simp [emit, seqFrom, ih]

/-- **C06 numbering, one call** -/
theorem c06_seq_consecutive (e : Enc) (f : Bytes) :
    (encode e f).2.map (·.seq) = seqFrom e.seq (encode e f).2.length ∧
    (encode e f).1.seq = e.seq + UInt16.ofNat (encode e f).2.length := by
  unfold encode
  split
  · simp [seqFrom]
  · simp [emit_seq, emit_length]

def encodeMany (e : Enc) : List Bytes → Enc × List Pkt
  | [] => (e, [])
  | f :: fs =>
    let (e1, ps) := encode e f
    let (e2, qs) := encodeMany e1 fs
    (e2, ps ++ qs)

/-- **C06 numbering, any series of calls, any initial value (incl. wrap inside the run)** -/
theorem c06_seq_many (e : Enc) (fs : List Bytes) :
    (encodeMany e fs).2.map (·.seq) = seqFrom e.seq (encodeMany e fs).2.length ∧
    (encodeMany e fs).1.seq = e.seq + UInt16.ofNat (encodeMany e fs).2.length := by
  induction fs generalizing e with
  | nil => simp [encodeMany, seqFrom]
  | cons f fs ih =>
    obtain ⟨h1, h2⟩ := c06_seq_consecutive e f
    obtain ⟨h3, h4⟩ := ih (encode e f).1
    simp only [encodeMany, List.map_append, List.length_append]
    refine ⟨?_, ?_⟩
    · rw [seqFrom_append, h1, h3, h2]
    · rw [h4, h2]
      apply UInt16.toNat_inj.mp
      simp [UInt16.toNat_add, UInt16.toNat_ofNat']
      omega

theorem emit_pt_ssrc (c : EncCfg) (n : Nat) (sq : UInt16) (rest : Bytes) :
    ∀ p ∈ emit c n sq rest, p.pt = c.pt ∧ p.ssrc = c.ssrc := by
  induction n using emit_ind generalizing sq rest with
  | case1 => simp [emit]
  | case2 => intro p hp; simp [emit] at hp; subst hp; simp
  | case3 n ih =>
    intro p hp
    simp only [emit, List.mem_cons] at hp
    rcases hp with hp | hp
    · subst hp; simp
    · exact ih _ _ p hp

/-- **C06 payload type and SSRC** -/
theorem c06_pt_ssrc (e : Enc) (f : Bytes) :
    ∀ p ∈ (encode e f).2, p.pt = e.cfg.pt ∧ p.ssrc = e.cfg.ssrc := by
  unfold encode
  split
  · intro p hp; simp at hp; subst hp; simp
  · exact emit_pt_ssrc _ _ _ _

theorem emit_markers (c : EncCfg) (n : Nat) (sq : UInt16) (rest : Bytes) :
    (emit c (n + 1) sq rest).map (·.marker) = List.replicate n false ++ [true] := by
  induction n generalizing sq rest with
  | zero => simp [emit]
  | succ n ih => simp [emit, ih, List.replicate_succ]

/-- **C06 marker**: set on the packet that completes the unit and on no other packet. -/
theorem c06_marker_only_last (e : Enc) (f : Bytes) (hc : 0 < e.cfg.max) :
    (encode e f).2.map (·.marker) = List.replicate ((encode e f).2.length - 1) false ++ [true] := by
  unfold encode
  split
  · simp
  · rename_i hlen
    simp only [emit_length]
    have hp := ceilDiv_pos f.length e.cfg.max hc (by omega)
    rw [← packetCount_eq] at hp
    obtain ⟨k, hk⟩ := Nat.exists_eq_succ_of_ne_zero (Nat.pos_iff_ne_zero.mp hp)
    rw [hk]
    simpa using emit_markers e.cfg k e.seq f

/-! ## C08 -/

/-- state invariant: outside a unit nothing is buffered and no size is expected -/
structure Inv (d : Dec) : Prop where
  idle : d.assembling = false → d.expected = 0 ∧ d.buffer = []

/-- clean with respect to the sequence number `sq` of the next packet: idle, and if the sequence
check is armed it expects `sq` -/
def Clean (d : Dec) (sq : UInt16) : Prop :=
  d.assembling = false ∧ d.expected = 0 ∧ d.buffer = [] ∧ (d.firstRecv = true → d.lastSeq + 1 = sq)

instance (d : Dec) (sq : UInt16) : Decidable (Clean d sq) := by unfold Clean; infer_instance

theorem c08_inv_init : Inv {} := ⟨fun _ => ⟨rfl, rfl⟩⟩

theorem inv_reset (d : Dec) : Inv d.reset := ⟨fun _ => ⟨rfl, rfl⟩⟩

theorem inv_finish (d : Dec) (m : Bool) (ha : d.assembling = true) : Inv (finish d m).1 := by
  unfold finish
  split
  · exact inv_reset d
  split
  · exact inv_reset d
  · exact ⟨fun h => by simp [ha] at h⟩

/-- **C08**: the invariant is preserved by `Decode` on EVERY packet. -/
theorem c08_inv_decode (d : Dec) (p : Pkt) (hi : Inv d) : Inv (decode d p).1 := by
  unfold decode
  split
  · exact inv_reset d
  simp only
  split
  · split
    · rename_i ha _
      simp only [Bool.not_eq_eq_eq_not, Bool.not_true] at ha
      exact ⟨fun _ => hi.idle ha⟩
    · cases declaredSize p.payload <;> exact inv_finish _ _ rfl
  · split
    · exact inv_reset _
    · rename_i ha _
      simp only [Bool.not_eq_eq_eq_not, Bool.not_true, Bool.not_eq_false] at ha
      exact inv_finish _ _ ha

theorem inv_run (d : Dec) (ps : List Pkt) (hi : Inv d) : Inv (runDec d ps).1 := by
  induction ps generalizing d with
  | nil => simpa [runDec]
  | cons p ps ih => simp only [runDec]; exact ih _ (c08_inv_decode d p hi)

theorem finish_out_le (d : Dec) (m : Bool) (f : Bytes) (h : (finish d m).2 = .ok f) :
    f.length ≤ d.buffer.length := by
  unfold finish at h
  split at h
  · simp at h; subst h; exact Nat.le_refl _
  split at h
  · simp at h; subst h; simp [List.length_take]; omega
  · simp at h

/-- **C08 output bound**: a returned unit is never longer than what was buffered plus the packet
(no maximum unit size is documented for KLV). -/
theorem c08_out_le (d : Dec) (p : Pkt) (f : Bytes) (h : (decode d p).2 = .ok f) :
    f.length ≤ d.buffer.length + p.payload.length := by
  unfold decode at h
  split at h
  · simp at h
  simp only at h
  split at h
  · split at h
    · simp at h
    · cases hd : declaredSize p.payload <;> rw [hd] at h <;>
        (have := finish_out_le _ _ _ h; simp at this; omega)
  · split at h
    · simp at h
    · have := finish_out_le _ _ _ h
      simp at this; omega

/-! ### the retained-bytes bound is FALSE for the KLV decoder as it stands

`c08_retained_le : Inv d → retained d ≤ Bound` cannot be proved for any `Bound`: a unit start
followed by same-timestamp, consecutively numbered packets without marker grows the buffer for
ever.  (Finding `klv-unbounded` in known-findings.txt; replayed on the real decoder by the corpus
case `klv-corpus-unbounded`.) -/

/-- (F) the decoder struct has exactly one byte-carrying field, `buffer []byte` — what `retained`
measures (regenerated from /repo on every run; a new slice field stops this from compiling) -/
theorem c08_state_fields : Rtsp.Facts.CodecMisc.klvBufferIsByteSlice = true ∧
    Rtsp.Facts.CodecMisc.klvDecoderSliceFields = 1 := by decide

/-- (F) regenerated from /repo on every run: `rtpklv/decoder.go` mentions no maximum size at all.
If a cap is ever added this stops compiling and the negative theorem below must be replaced by
`c08_retained_le`. -/
theorem c08_no_cap_in_code : Rtsp.Facts.CodecMisc.klvHasSizeCap = false := by decide

def growPkt (sq : UInt16) : Pkt := { seq := sq, ts := 0, marker := false, payload := [0] }

def growFrom (sq : UInt16) : Nat → List Pkt
  | 0 => []
  | n + 1 => growPkt sq :: growFrom (sq + 1) n

def startPkt : Pkt := { seq := 0, ts := 0, marker := false, payload := [0x06, 0x0e, 0x2b, 0x34] }

theorem grow_run (n : Nat) (sq : UInt16) (d : Dec) (ha : d.assembling = true) (hf : d.firstRecv = true)
    (hs : d.lastSeq + 1 = sq) (ht : d.curTs = 0) (he : d.expected = 0) :
    (runDec d (growFrom sq n)).1.buffer.length = d.buffer.length + n := by
  induction n generalizing sq d with
  | zero => simp [growFrom, runDec]
  | succ n ih =>
    have hstep : decode d (growPkt sq)
        = ({ d with lastSeq := sq, firstRecv := true, buffer := d.buffer ++ [0] }, .more) := by
      simp [decode, growPkt, hf, hs, ha, ht, finish, he]
    simp only [growFrom, runDec, hstep]
    have := ih (sq + 1) { d with lastSeq := sq, firstRecv := true, buffer := d.buffer ++ [0] } ha rfl rfl ht he
    rw [this]
    simp; omega

/-- **C08 retained bytes: unbounded** — for every bound `B` there is a packet history (payloads of
at most 4 bytes) after which the decoder retains more than `B` bytes. -/
theorem c08_retained_unbounded (B : Nat) :
    ∃ ps : List Pkt, (∀ p ∈ ps, p.payload.length ≤ 4) ∧ B < retained (runDec {} ps).1 := by
  refine ⟨startPkt :: growFrom 1 B, ?_, ?_⟩
  · intro p hp
    simp only [List.mem_cons] at hp
    rcases hp with hp | hp
    · subst hp; decide
    · have : ∀ n sq, ∀ q ∈ growFrom sq n, q.payload.length ≤ 4 := by
        intro n
        induction n with
        | zero => intro sq q hq; simp [growFrom] at hq
        | succ n ih =>
          intro sq q hq
          simp only [growFrom, List.mem_cons] at hq
          rcases hq with hq | hq
          · subst hq; simp [growPkt]
          · exact ih _ q hq
      exact this _ _ p hp
  · have h0 : decode {} startPkt
        = ({ buffer := [0x06, 0x0e, 0x2b, 0x34], assembling := true, firstRecv := true }, .more) := by
      decide
    simp only [runDec, h0, retained]
    rw [grow_run B 1 _ rfl rfl (by decide) rfl rfl]
    simp

/-! ## C07 — a marker packet cleans from ANY state -/

theorem clean_reset (d : Dec) (sq : UInt16) : Clean d.reset sq := ⟨rfl, rfl, rfl, by simp [Dec.reset]⟩

theorem finish_marker (d : Dec) : finish d true = (d.reset, .ok d.buffer) := by simp [finish]

/-- after any packet that carries the marker the decoder is clean for the next sequence number,
whatever its state was -/
theorem c07_marker_cleans (d : Dec) (p : Pkt) (hi : Inv d) (hm : p.marker = true) :
    Clean (decode d p).1 (p.seq + 1) := by
  unfold decode
  split
  · exact clean_reset _ _
  simp only
  split
  · split
    · rename_i ha _
      simp only [Bool.not_eq_eq_eq_not, Bool.not_true] at ha
      exact ⟨ha, (hi.idle ha).1, (hi.idle ha).2, fun _ => rfl⟩
    · cases declaredSize p.payload <;> (simp only [hm, finish_marker]; exact clean_reset _ _)
  · split
    · exact clean_reset _ _
    · simp only [hm, finish_marker]; exact clean_reset _ _

/-! ## C03 -/

/-- all packets of a unit carry the unit's timestamp (the encoder leaves it to the caller) -/
def stamp (t : UInt32) (ps : List Pkt) : List Pkt := ps.map fun p => { p with ts := t }

theorem isKLVStart_take (f : Bytes) (n : Nat) (h : isKLVStart f = true) (hn : 4 ≤ n) :
    isKLVStart (f.take n) = true := by
  match f, h with
  | a :: b :: c :: d :: t, h =>
    obtain ⟨k, rfl⟩ : ∃ k, n = k + 4 := ⟨n - 4, by omega⟩
    simpa [isKLVStart, List.take] using h

/-- feeding the remaining packets of a unit to a decoder that holds the earlier ones -/
theorem run_mid (c : EncCfg) (t : UInt32) (n : Nat) (sq : UInt16) (rest : Bytes) (d : Dec)
    (ha : d.assembling = true) (hf : d.firstRecv = true) (hs : d.lastSeq + 1 = sq) (ht : d.curTs = t)
    (he : d.expected ≤ 0 ∨ ((d.buffer.length + n * c.max : Nat) : Int) < d.expected)
    (hlo : n * c.max < rest.length) :
    ∃ d', runDec d (stamp t (emit c (n + 1) sq rest))
        = (d', List.replicate n .more ++ [.ok (d.buffer ++ rest)]) ∧ Clean d' (sq + UInt16.ofNat (n + 1)) := by
  induction n generalizing sq rest d with
  | zero =>
    refine ⟨Dec.reset { d with lastSeq := sq, firstRecv := true, buffer := d.buffer ++ rest }, ?_, clean_reset _ _⟩
    simp [stamp, emit, runDec, decode, hf, hs, ha, ht, finish]
  | succ n ih =>
    have hmul : (n + 1) * c.max = n * c.max + c.max := by rw [Nat.add_mul]; omega
    have hlen : c.max < rest.length := by
      have : 0 ≤ n * c.max := Nat.zero_le _
      omega
    have htake : (rest.take c.max).length = c.max := by simp [List.length_take]; omega
    let d1 : Dec := { d with lastSeq := sq, firstRecv := true, assembling := true, curTs := t,
                             buffer := d.buffer ++ rest.take c.max }
    have hne : ¬ (d1.expected > 0 ∧ (d1.buffer.length : Int) ≥ d1.expected) := by
      simp only [d1, List.length_append, htake]
      rintro ⟨h1, h2⟩
      rcases he with he | he
      · omega
      · have : ((d.buffer.length + (n + 1) * c.max : Nat) : Int) = (d.buffer.length : Int) + ((n * c.max : Nat) : Int) + (c.max : Int) := by
          rw [hmul]; push_cast; omega
        push_cast at h2
        omega
    have hstep : decode d { pt := c.pt, seq := sq, ts := t, ssrc := c.ssrc, marker := false, payload := rest.take c.max } = (d1, .more) := by
      have : finish d1 false = (d1, .more) := by simp [finish, hne]
      simp only [decode, hf, hs, ne_eq, not_true_eq_false, and_false, if_false, ha, Bool.not_true,
        Bool.false_eq_true, ht]
      exact this
    obtain ⟨d', hrun, hclean⟩ := ih (sq + 1) (rest.drop c.max) d1 rfl rfl rfl rfl
      (by
        rcases he with he | he
        · exact Or.inl he
        · right
          simp only [d1, List.length_append, htake]
          have : d.buffer.length + c.max + n * c.max = d.buffer.length + (n + 1) * c.max := by omega
          rw [this]; exact he)
      (by simp only [List.length_drop]; omega)
    refine ⟨d', ?_, ?_⟩
    · simp only [stamp, emit, List.map_cons, runDec]
      rw [hstep]
      simp only [stamp] at hrun
      rw [hrun]
      simp [d1, List.replicate_succ, List.append_assoc]
    · have e : sq + 1 + UInt16.ofNat (n + 1) = sq + UInt16.ofNat (n + 1 + 1) := by
        rw [ofNat_succ (n + 1)]; ac_rfl
      rw [← e]; exact hclean

/-- **C03 round trip**: for every valid limit, every unit that begins with the label prefix and whose
declared size is not reached early, every clean decoder and every timestamp: "more packets needed"
on all packets but the last, exactly the unit at the last one, clean for the following unit. -/
theorem c03_roundtrip (e : Enc) (f : Bytes) (d : Dec) (t : UInt32)
    (hc : ValidCfg e.cfg) (hk : isKLVStart f = true) (hcut : NoEarlyCut e.cfg f) (hd : Clean d e.seq) :
    ∃ d', runDec d (stamp t (encode e f).2)
        = (d', List.replicate ((encode e f).2.length - 1) .more ++ [.ok f]) ∧ Clean d' (encode e f).1.seq := by
  obtain ⟨hd1, hd2, hd3, hd4⟩ := hd
  have hgap : ¬ (d.firstRecv = true ∧ e.seq ≠ d.lastSeq + 1) := by
    rintro ⟨h1, h2⟩; exact h2 (hd4 h1).symm
  unfold encode
  split
  · -- single packet
    cases hds : declaredSize f with
    | none =>
      refine ⟨Dec.reset { d with lastSeq := e.seq, firstRecv := true, curTs := t, assembling := true, buffer := f }, ?_, clean_reset _ _⟩
      simp [stamp, runDec, decode, hgap, hd1, hk, hds, finish]
    | some s =>
      refine ⟨Dec.reset { d with lastSeq := e.seq, firstRecv := true, curTs := t, assembling := true, buffer := f, expected := s }, ?_, clean_reset _ _⟩
      simp [stamp, runDec, decode, hgap, hd1, hk, hds, finish]
  · rename_i hlen
    have hlen : e.cfg.max < f.length := by omega
    have hmax : 0 < e.cfg.max := by unfold ValidCfg at hc; omega
    simp only [emit_length]
    have hp := ceilDiv_pos f.length e.cfg.max hmax (by omega)
    have hlow := ceilDiv_lower f.length e.cfg.max hmax (by omega)
    have hcut' : match declaredSize (f.take e.cfg.max) with
        | none => True
        | some s => s ≤ 0 ∨ (((packetCount e.cfg.max f.length - 1) * e.cfg.max : Nat) : Int) < s := by
      rcases hcut with h | h
      · omega
      · exact h
    have hup := ceilDiv_upper f.length e.cfg.max hmax
    rw [← packetCount_eq] at hp hlow hup
    generalize packetCount e.cfg.max f.length = n at hp hlow hcut' hup
    match n, hp with
    | 1, _ => simp at hup; omega
    | n + 2, _ =>
      have hlow : (n + 1) * e.cfg.max < f.length := by simpa using hlow
      have hmul : (n + 1) * e.cfg.max = n * e.cfg.max + e.cfg.max := by rw [Nat.add_mul]; omega
      have htake : (f.take e.cfg.max).length = e.cfg.max := by simp [List.length_take]; omega
      have hks := isKLVStart_take f e.cfg.max hk hc
      -- the state after the first packet
      let ex : Int := match declaredSize (f.take e.cfg.max) with | some s => s | none => 0
      let d1 : Dec := { d with lastSeq := e.seq, firstRecv := true, curTs := t, assembling := true,
                               buffer := f.take e.cfg.max, expected := ex }
      have hex : ex ≤ 0 ∨ ((e.cfg.max + n * e.cfg.max : Nat) : Int) < ex := by
        simp only [ex]
        cases hds : declaredSize (f.take e.cfg.max) with
        | none => simp
        | some s =>
          rw [hds] at hcut'
          simp only at hcut' ⊢
          rcases hcut' with h | h
          · exact Or.inl h
          · right
            have : e.cfg.max + n * e.cfg.max = (n + 2 - 1) * e.cfg.max := by
              simp; omega
            rw [this]; exact h
      have hne : ¬ (d1.expected > 0 ∧ (d1.buffer.length : Int) ≥ d1.expected) := by
        simp only [d1, htake]
        rintro ⟨h1, h2⟩
        rcases hex with h | h
        · omega
        · push_cast at h
          have : (0 : Int) ≤ ((n * e.cfg.max : Nat) : Int) := Int.natCast_nonneg _
          push_cast at this
          omega
      have hstep : decode d { pt := e.cfg.pt, seq := e.seq, ts := t, ssrc := e.cfg.ssrc, marker := false, payload := f.take e.cfg.max } = (d1, .more) := by
        have hfin : finish d1 false = (d1, .more) := by simp [finish, hne]
        simp only [decode, hgap, if_false, hd1, Bool.not_false, if_true, hks, Bool.not_true]
        cases hds : declaredSize (f.take e.cfg.max) with
        | none =>
          have : d1 = { d with lastSeq := e.seq, firstRecv := true, curTs := t, assembling := true,
                               buffer := f.take e.cfg.max } := by
            simp [d1, ex, hds, hd2]
          simp only; rw [← this]; exact hfin
        | some s =>
          have : d1 = { d with lastSeq := e.seq, firstRecv := true, curTs := t, assembling := true,
                               buffer := f.take e.cfg.max, expected := s } := by
            simp [d1, ex, hds]
          simp only; rw [← this]; exact hfin
      obtain ⟨d', hrun, hclean⟩ := run_mid e.cfg t n (e.seq + 1) (f.drop e.cfg.max) d1 rfl rfl rfl rfl
        (by simpa [d1, htake] using hex) (by simp only [List.length_drop]; omega)
      refine ⟨d', ?_, ?_⟩
      · simp only [stamp, emit, List.map_cons, runDec]
        rw [hstep]
        simp only [stamp] at hrun
        rw [hrun]
        simp [d1, List.replicate_succ]
      · have e' : e.seq + 1 + UInt16.ofNat (n + 1) = e.seq + UInt16.ofNat (n + 2) := by
          apply UInt16.toNat_inj.mp
          simp [UInt16.toNat_add, UInt16.toNat_ofNat']
          omega
        rw [e'] at hclean
        exact hclean

/-! ### single-item units satisfy `NoEarlyCut`; multi-item units need not -/

theorem parse_prefix (a b : Bytes) (r : Nat × Nat) (h : parseKLVLength a = some r) :
    parseKLVLength (a ++ b) = some r := by
  cases a with
  | nil => simp [parseKLVLength] at h
  | cons x rest =>
    simp only [parseKLVLength, List.cons_append, List.length_cons, List.length_append] at h ⊢
    split
    · rename_i hx; simpa [hx] using h
    · rename_i hx
      simp only [hx, if_false] at h
      split at h
      · simp at h
      split at h
      · simp at h
      rename_i h1 h2
      simp only [h1, if_false]
      have h3 : ¬ (1 + (x.toNat - 128) > rest.length + b.length + 1) := by omega
      simp only [h3, if_false]
      have : (rest ++ b).take (x.toNat - 128) = rest.take (x.toNat - 128) :=
        List.take_append_of_le_length (by omega)
      rw [this]; exact h

theorem toInt64_small (n : Nat) (h : n < 2 ^ 63) : toInt64 n = (n : Int) := by
  unfold toInt64
  have : n % 2 ^ 64 = n := Nat.mod_eq_of_lt (by omega)
  simp only [this, h, if_true]

/-- **C03, single-item units**: when the unit is one KLV item, the size its first packet declares is
the size of the whole unit, which is reached only with the last packet. -/
theorem c03_single_item (c : EncCfg) (f : Bytes) (hs : SingleItem f) : NoEarlyCut c f := by
  obtain ⟨hi, hlt⟩ := hs
  unfold NoEarlyCut
  by_cases hle : f.length ≤ c.max
  · exact Or.inl hle
  right
  cases hds : declaredSize (f.take c.max) with
  | none => trivial
  | some s =>
    simp only
    right
    unfold declaredSize at hds
    split at hds
    · rename_i h17
      have hmax : 17 ≤ c.max := by
        simp only [List.length_take] at h17; omega
      cases hp : parseKLVLength ((f.take c.max).drop 16) with
      | none => simp [hp] at hds
      | some r =>
        obtain ⟨v, ls⟩ := r
        simp only [hp, Option.some.injEq] at hds
        -- the same length field is read from the whole unit
        have hsplit : f.drop 16 = (f.take c.max).drop 16 ++ f.drop c.max := by
          have : f = f.take c.max ++ f.drop c.max := (List.take_append_drop _ _).symm
          conv => lhs; rw [this]
          exact List.drop_append_of_le_length (by simp only [List.length_take]; omega)
        have hp' : parseKLVLength (f.drop 16) = some (v, ls) := by
          rw [hsplit]; exact parse_prefix _ _ _ hp
        unfold itemLen at hi
        split at hi
        · simp only [hp'] at hi
          split at hi
          · simp only [Option.some.injEq] at hi
            rw [← hds, hi, toInt64_small _ hlt]
            have hlow := ceilDiv_lower f.length c.max (by omega) (by omega)
            rw [← packetCount_eq] at hlow
            exact Int.ofNat_lt.mpr hlow
          · simp at hi
        · simp at hi
    · simp at hds

/-- a unit of two 30-byte items (RFC 6597 §4.2 allows several items per unit) -/
def exItem (b : UInt8) : Bytes :=
  [0x06, 0x0e, 0x2b, 0x34, 1, 1, 1, 1, 2, 2, 2, 2, 3, 3, 3, 3, 13] ++ List.replicate 13 b
def exUnit2 : Bytes := exItem 7 ++ exItem 9
def exEnc20 : Enc := { cfg := { pt := 96, ssrc := 1, max := 20 }, seq := 10 }

/-- **C03 is FALSE for multi-item units that are fragmented** (finding `klv-multi-item-truncated`):
the two-item unit at limit 20 comes back as its first item at the second of three packets, and the
third packet is answered with "non-starting packet".  Replayed on the real decoder by the corpus
case `klv-corpus-multi-item`. -/
theorem c03_multi_item_truncated :
    ValidCfg exEnc20.cfg ∧ isItems 2 exUnit2 = true ∧ ¬ NoEarlyCut exEnc20.cfg exUnit2 ∧
    (runDec {} (encode exEnc20 exUnit2).2).2 = [.more, .ok (exItem 7), .nonStart] := by
  decide

/-! ## C07 — flush and resynchronisation -/

theorem runDec_append (d : Dec) (ps qs : List Pkt) :
    runDec d (ps ++ qs) = ((runDec (runDec d ps).1 qs).1, (runDec d ps).2 ++ (runDec (runDec d ps).1 qs).2) := by
  induction ps generalizing d with
  | nil => simp [runDec]
  | cons p ps ih => simp [runDec, ih]

theorem emit_last (c : EncCfg) (n : Nat) (sq : UInt16) (rest : Bytes) :
    ∃ ini lst, emit c (n + 1) sq rest = ini ++ [lst] ∧ lst.marker = true ∧ lst.seq = sq + UInt16.ofNat n := by
  induction n generalizing sq rest with
  | zero => exact ⟨[], { pt := c.pt, seq := sq, ssrc := c.ssrc, marker := true, payload := rest }, by simp [emit], rfl, by simp⟩
  | succ n ih =>
    obtain ⟨ini, lst, h1, h2, h3⟩ := ih (sq + 1) (rest.drop c.max)
    refine ⟨{ pt := c.pt, seq := sq, ssrc := c.ssrc, marker := false, payload := rest.take c.max } :: ini, lst, by simp [emit, h1], h2, ?_⟩
    rw [h3, ofNat_succ]; ac_rfl

theorem encode_last (e : Enc) (f : Bytes) (hc : 0 < e.cfg.max) :
    ∃ ini lst, (encode e f).2 = ini ++ [lst] ∧ lst.marker = true ∧ lst.seq + 1 = (encode e f).1.seq := by
  unfold encode
  split
  · exact ⟨[], { pt := e.cfg.pt, seq := e.seq, ssrc := e.cfg.ssrc, marker := true, payload := f }, by simp, rfl, rfl⟩
  · rename_i hlen
    have hp := ceilDiv_pos f.length e.cfg.max hc (by omega)
    rw [← packetCount_eq] at hp
    obtain ⟨k, hk⟩ := Nat.exists_eq_succ_of_ne_zero (Nat.pos_iff_ne_zero.mp hp)
    simp only [hk]
    obtain ⟨ini, lst, h1, h2, h3⟩ := emit_last e.cfg k e.seq f
    refine ⟨ini, lst, h1, h2, ?_⟩
    rw [h3, ofNat_succ]; ac_rfl

/-- **C07 flush**: from ANY reachable (invariant) state, the packets of one unit, in order, leave the
decoder clean for the unit that follows — whatever was lost, duplicated or reordered before, and
whatever the decoder answered meanwhile. -/
theorem c07_flush (e : Enc) (f : Bytes) (d : Dec) (t : UInt32) (hi : Inv d) (hc : 0 < e.cfg.max) :
    Clean (runDec d (stamp t (encode e f).2)).1 (encode e f).1.seq := by
  obtain ⟨ini, lst, h1, h2, h3⟩ := encode_last e f hc
  rw [h1]
  simp only [stamp, List.map_append, List.map_cons, List.map_nil]
  rw [runDec_append]
  simp only [runDec]
  have := c07_marker_cleans (runDec d (List.map (fun p => { p with ts := t }) ini)).1
    { lst with ts := t } (inv_run _ _ hi) h2
  rw [← h3]; exact this

/-- **C07 resynchronisation**: after ANY packet history `h`, a unit `f` followed by a unit `g` (that
begins with the label prefix and is not cut early) ends with exactly `g`, returned at `g`'s last
packet and not before. -/
theorem c07_resync (h : List Pkt) (e : Enc) (f g : Bytes) (tf tg : UInt32)
    (hc : ValidCfg e.cfg) (hk : isKLVStart g = true) (hcut : NoEarlyCut e.cfg g) :
    let d0 := (runDec {} h).1
    let e1 := (encode e f).1
    ∃ d', runDec (runDec d0 (stamp tf (encode e f).2)).1 (stamp tg (encode e1 g).2)
        = (d', List.replicate ((encode e1 g).2.length - 1) .more ++ [.ok g]) ∧ Clean d' (encode e1 g).1.seq := by
  intro d0 e1
  have hinv : Inv d0 := inv_run {} h c08_inv_init
  have hmax : 0 < e.cfg.max := by unfold ValidCfg at hc; omega
  have hclean := c07_flush e f d0 tf hinv hmax
  have hcfg : e1.cfg = e.cfg := by simp only [e1, encode]; split <;> rfl
  exact c03_roundtrip e1 g _ tg (by rw [hcfg]; exact hc) hk (by rw [hcfg]; exact hcut) hclean

/-! ## series of units through one encoder / decoder pair -/

/-- a series of `Encode` calls, each unit sent with its own timestamp -/
def encodeManyT (e : Enc) : List (Bytes × UInt32) → Enc × List Pkt
  | [] => (e, [])
  | (f, t) :: fs =>
    let (e1, ps) := encode e f
    let (e2, qs) := encodeManyT e1 fs
    (e2, stamp t ps ++ qs)

theorem encode_cfg (e : Enc) (f : Bytes) : (encode e f).1.cfg = e.cfg := by
  unfold encode; split <;> rfl

open Rtsp.Codec.Misc in
/-- **C03, consecutive units**: any series of units (each beginning with the label prefix and not
cut early, e.g. single-item units), each with its own timestamp, through one encoder / decoder pair
comes back as exactly that series, with only "more packets needed" in between. -/
theorem c03_roundtrip_many (e : Enc) (fs : List (Bytes × UInt32)) (d : Dec)
    (hc : ValidCfg e.cfg) (hf : ∀ x ∈ fs, isKLVStart x.1 = true ∧ NoEarlyCut e.cfg x.1) (hd : Clean d e.seq) :
    okFrames (runDec d (encodeManyT e fs).2).2 = fs.map (·.1) ∧ NoErr (runDec d (encodeManyT e fs).2).2 ∧
    Clean (runDec d (encodeManyT e fs).2).1 (encodeManyT e fs).1.seq := by
  induction fs generalizing e d with
  | nil => exact ⟨rfl, by intro r hr; simp [encodeManyT, runDec] at hr, hd⟩
  | cons x fs ih =>
    obtain ⟨f, t⟩ := x
    obtain ⟨hk, hcut⟩ := hf (f, t) (by simp)
    obtain ⟨d1, hr1, hc1⟩ := c03_roundtrip e f d t hc hk hcut hd
    have hcfg := encode_cfg e f
    obtain ⟨i1, i2, i3⟩ := ih (encode e f).1 d1 (by rw [hcfg]; exact hc)
      (fun y hy => by rw [hcfg]; exact hf y (by simp [hy])) hc1
    simp only [encodeManyT, List.map_cons]
    rw [runDec_append, hr1]
    refine ⟨?_, noErr_append _ _ (noErr_more _ _) i2, i3⟩
    rw [okFrames_append, okFrames_more, i1]; rfl

/-! ## non-vacuity -/

/-- a single 40-byte item at limit 17 (the first packet just reveals the length field): 3 packets
across a sequence-number wrap -/
def exItem40 : Bytes :=
  [0x06, 0x0e, 0x2b, 0x34, 1, 1, 1, 1, 2, 2, 2, 2, 3, 3, 3, 3, 23] ++ List.replicate 23 0x55
def exEnc17 : Enc := { cfg := { pt := 96, ssrc := 7, max := 17 }, seq := 65535 }

example : ValidCfg exEnc17.cfg ∧ SingleItem exItem40 ∧ isKLVStart exItem40 = true ∧ Clean {} exEnc17.seq := by
  decide
example : NoEarlyCut exEnc17.cfg exItem40 := by decide
example : (encode exEnc17 exItem40).2.map (·.seq) = [65535, 0, 1] := by decide
example : (runDec {} (stamp 9000 (encode exEnc17 exItem40).2)).2 = [.more, .more, .ok exItem40] := by decide
/-- a dirty state (mid-unit, armed sequence check) satisfies the invariant -/
example : Inv { buffer := [6, 14, 43, 52, 9], expected := 40, curTs := 5, assembling := true, lastSeq := 77, firstRecv := true } :=
  ⟨by decide⟩

end Rtsp.Codec.Klv
