import Rtsp.Props.Codec.H264Rt
import Rtsp.Proofs.Codec.H264Sticky
/-
Property theorems for pkg/format/rtph264, C07 continued: the sticky `annexBMode` flag cannot switch
on through packets of valid frames, whatever was dropped, duplicated or reordered.

  C07  c07_annexb_off, c07_resync_faulted, c07_no_seq_alias, c07_annexb_off_short

This discharges the hypothesis `annexBMode = false` of `c07_flush_partial` / `c07_resync_partial` for
histories that are made of packets of an encoded stream of valid frames, under `NoSeqAlias`: two
different packets of the stream never carry the same sequence number (a stream of fewer than 65536
packets; beyond that a continuation fragment of another NALU can alias the expected sequence number,
the glued bytes can contain `00 00 00 01`, and Annex-B mode stays on for ever).
-/
namespace Rtsp.Codec.H264
open Rtsp.Rtp Rtsp.Codec.H26x Rtsp.Facts

/-- every packet of an encoded stream of valid frames has a provenance inside that stream -/
theorem prov_stream (e : Enc) (fs : List (UInt32 × List Bytes)) (hc : ValidCfg e.cfg)
    (hf : ∀ f ∈ fs, ValidFrame f.2) : ∀ p ∈ stream e fs, Prov (stream e fs) p := by
  induction fs generalizing e with
  | nil => intro p hp; simp [stream] at hp
  | cons f fs ih =>
    obtain ⟨ts, au⟩ := f
    intro p hp
    simp only [stream, List.mem_append] at hp ⊢
    rcases hp with hp | hp
    · have := prov_batches e.cfg ts hc (splitBatches 1 e.cfg.max [] au) e.seq
        (goodBatches e.cfg au (hf (ts, au) (by simp))) p (by simpa [encode, encodeItems] using hp)
      exact this.mono (fun q hq => by
        simp only [List.mem_append]; exact Or.inl (by simpa [encode, encodeItems] using hq))
    · exact (ih (encode e au).1 (by simpa [encode] using hc) (fun x hx => hf x (by simp [hx])) p hp).mono
        (fun q hq => by simp only [List.mem_append]; exact Or.inr hq)

/-- **C07 (sticky flag)**: after ANY history made of packets of an encoded stream of valid frames —
any subset, any order, any repetition — Annex-B mode is still off. -/
theorem c07_annexb_off (e : Enc) (fs : List (UInt32 × List Bytes)) (hist : List Pkt)
    (hc : ValidCfg e.cfg) (hf : ∀ f ∈ fs, ValidFrame f.2) (hna : NoSeqAlias (stream e fs))
    (hin : ∀ p ∈ hist, p ∈ stream e fs) : (runDec {} hist).1.annexBMode = false :=
  (sticky_run (stream e fs) {} hist ⟨rfl, rfl, fun h => absurd rfl h⟩ hin (prov_stream e fs hc hf) hna).off

/-- **C07 resynchronisation after faults**: take any encoded stream of valid frames, damage it in any
way (drop, duplicate, reorder: `hist` is any list of its packets); then an intact frame `f` that
flushes, followed by an intact frame `g`, ends with exactly `g` at `g`'s last packet.  The frames
`f`, `g` may come from the same encoder or any other. -/
theorem c07_resync_faulted (e0 : Enc) (fs : List (UInt32 × List Bytes)) (hist : List Pkt)
    (e : Enc) (f g : List Bytes) (tf tg : UInt32)
    (hc0 : ValidCfg e0.cfg) (hfs : ∀ x ∈ fs, ValidFrame x.2) (hna : NoSeqAlias (stream e0 fs))
    (hin : ∀ p ∈ hist, p ∈ stream e0 fs)
    (hc : ValidCfg e.cfg) (hf : ValidFrame f) (hg : ValidFrame g)
    (hfl : Flushes tf e f (runDec {} hist).1) :
    ∃ d', runDec (runDec (runDec {} hist).1 (stamp tf (encode e f).2)).1 (stamp tg (encode (encode e f).1 g).2)
        = (d', List.replicate ((encode (encode e f).1 g).2.length - 1) .more ++ [.ok g]) ∧ Clean d' :=
  c07_resync_partial hist e f g tf tg hc hf hg (c07_annexb_off e0 fs hist hc0 hfs hna hin) hfl

/-- the packets of a stream carry `seq, seq+1, …` -/
theorem stream_seq (e : Enc) (fs : List (UInt32 × List Bytes)) :
    (stream e fs).map (·.seq) = seqFrom e.seq (stream e fs).length := by
  induction fs generalizing e with
  | nil => simp [stream, seqFrom]
  | cons f fs ih =>
    obtain ⟨ts, au⟩ := f
    have h1 : (encode e au).2.map (·.seq) = seqFrom e.seq (encode e au).2.length := by
      simp [encode, number_seq]
    have h2 : (encode e au).1.seq = e.seq + UInt16.ofNat (encode e au).2.length := by
      simp [encode]
    simp only [stream, List.map_append, List.length_append, stamp_seq, stamp_length]
    rw [seqFrom_append, h1, ih, h2]

/-- **`NoSeqAlias` holds for every stream of at most 65536 packets** -/
theorem c07_no_seq_alias (e : Enc) (fs : List (UInt32 × List Bytes)) (h : (stream e fs).length ≤ 65536) :
    NoSeqAlias (stream e fs) := by
  unfold NoSeqAlias
  exact inj_of_nodup_map (fun p : Pkt => p.seq) _ (by rw [stream_seq]; exact nodup_seqFrom _ _ h)

/-- `c07_annexb_off` with the aliasing hypothesis replaced by the length of the stream -/
theorem c07_annexb_off_short (e : Enc) (fs : List (UInt32 × List Bytes)) (hist : List Pkt)
    (hc : ValidCfg e.cfg) (hf : ∀ f ∈ fs, ValidFrame f.2) (hlen : (stream e fs).length ≤ 65536)
    (hin : ∀ p ∈ hist, p ∈ stream e fs) : (runDec {} hist).1.annexBMode = false :=
  c07_annexb_off e fs hist hc hf (c07_no_seq_alias e fs hlen) hin

/-! ## non-vacuity -/

/-- the 15 packets of the lag trace carry 15 different sequence numbers -/
example : NoSeqAlias lagTrace := by
  unfold NoSeqAlias
  decide

end Rtsp.Codec.H264
