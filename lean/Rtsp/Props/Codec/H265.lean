import Rtsp.Proofs.Codec.H265Enc
/-
Property theorems for the encoder of pkg/format/rtph265 (model: `Model/Codec/H265.lean`).

  C06  c06_accepts, c06_payload_le, c06_seq_consecutive, c06_seq_many, c06_pt_ssrc,
       c06_marker_only_last

`Encode` of the Go code can fail ("invalid NALU": a NALU shorter than its 2-byte header inside an
aggregation packet); the model returns `none` then.  All statements quantify over every access unit,
payload limit and sequence number; there is no bound on sizes or lengths.
-/
namespace Rtsp.Codec.H265
open Rtsp.Rtp Rtsp.Codec.H26x Rtsp.Facts

/-! ## C06 — packetiser: size limit, numbering, payload type / SSRC, marker -/

/-- every access unit whose NALUs have at least their 2-byte header is accepted -/
theorem c06_accepts (e : Enc) (au : List Bytes) (hc : ValidCfg e.cfg) (hn : ∀ n ∈ au, 2 ≤ n.length) :
    ∃ ps, (encode e au).2 = some ps := by
  have hflat := splitBatches_flatten 2 e.cfg.max [] au
  obtain ⟨hok, _⟩ := writeBatches_markers e.cfg.max (splitBatches 2 e.cfg.max [] au) hc.1
    (splitBatches_ne_nil _ _ _ _)
    (fun b hb n hn' => hn n (by
      have : n ∈ (splitBatches 2 e.cfg.max [] au).flatten := List.mem_flatten.mpr ⟨b, hb, hn'⟩
      rw [hflat] at this; simpa using this))
  unfold encode encodeItems
  simp only [hok, if_true]
  exact ⟨_, rfl⟩

/-- **C06 size clause**: every payload is at most `PayloadMaxSize`, whatever the NALU sizes
(below, at or above the limit). -/
theorem c06_payload_le (e : Enc) (au : List Bytes) (ps : List Pkt) (hc : ValidCfg e.cfg)
    (h : (encode e au).2 = some ps) : ∀ p ∈ ps, p.payload.length ≤ e.cfg.max := by
  intro p hp
  unfold encode at h
  simp only at h
  split at h
  · simp only [Option.some.injEq] at h
    subst h
    have hmem := mem_number_payload _ _ _ p hp
    obtain ⟨it, hit, heq⟩ := List.mem_map.mp hmem
    rw [← heq]
    exact writeBatches_payload_le e.cfg.max _ hc.1
      (splitBatches_ok 2 e.cfg.max [] au (Or.inl (by simp))) it hit
  · simp at h

/-- **C06 numbering, one call**: the packets carry `seq, seq+1, …` (mod 2^16) and the encoder
continues after them. -/
theorem c06_seq_consecutive (e : Enc) (au : List Bytes) (ps : List Pkt)
    (h : (encode e au).2 = some ps) :
    ps.map (·.seq) = seqFrom e.seq ps.length ∧
    (encode e au).1.seq = e.seq + UInt16.ofNat ps.length := by
  unfold encode at h ⊢
  simp only at h ⊢
  split at h
  · simp only [Option.some.injEq] at h
    subst h
    simp [number_seq]
  · simp at h

/-- a series of successful `Encode` calls through the same encoder (`none` if any call fails) -/
def encodeMany (e : Enc) : List (List Bytes) → Enc × Option (List Pkt)
  | [] => (e, some [])
  | f :: fs =>
    match encode e f with
    | (e1, some ps) =>
      match encodeMany e1 fs with
      | (e2, some qs) => (e2, some (ps ++ qs))
      | (e2, none) => (e2, none)
    | (e1, none) => (e1, none)

/-- **C06 numbering, any series of calls, any initial value (incl. wrap inside the run)**. -/
theorem c06_seq_many (e : Enc) (fs : List (List Bytes)) (ps : List Pkt)
    (h : (encodeMany e fs).2 = some ps) :
    ps.map (·.seq) = seqFrom e.seq ps.length ∧
    (encodeMany e fs).1.seq = e.seq + UInt16.ofNat ps.length := by
  induction fs generalizing e ps with
  | nil => simp [encodeMany] at h ⊢; subst h; simp [seqFrom]
  | cons f fs ih =>
    simp only [encodeMany] at h ⊢
    split at h
    · rename_i e1 qs heq
      have h1 := c06_seq_consecutive e f qs (by rw [heq])
      rw [heq] at h1
      split at h
      · rename_i e2 rs heq2
        have h2 := ih e1 rs (by rw [heq2])
        rw [heq2] at h2
        simp only [Option.some.injEq] at h
        subst h
        simp only [List.map_append, List.length_append]
        refine ⟨?_, ?_⟩
        · rw [seqFrom_append, h1.1, h2.1, h1.2]
        · rw [h2.2, h1.2]
          apply UInt16.toNat_inj.mp
          simp [UInt16.toNat_add, UInt16.toNat_ofNat']
          omega
      · simp at h
    · simp at h

/-- **C06 payload type and SSRC** are the configured ones on every packet. -/
theorem c06_pt_ssrc (e : Enc) (au : List Bytes) (ps : List Pkt) (h : (encode e au).2 = some ps) :
    ∀ p ∈ ps, p.pt = e.cfg.pt ∧ p.ssrc = e.cfg.ssrc := by
  unfold encode at h
  simp only at h
  split at h
  · simp only [Option.some.injEq] at h
    subst h
    exact number_pt_ssrc _ _ _
  · simp at h

/-- **C06 marker**: set on the packet that completes the access unit and on no other packet. -/
theorem c06_marker_only_last (e : Enc) (au : List Bytes) (ps : List Pkt) (hc : ValidCfg e.cfg)
    (hn : ∀ n ∈ au, 2 ≤ n.length) (h : (encode e au).2 = some ps) :
    ps.map (·.marker) = List.replicate (ps.length - 1) false ++ [true] := by
  have hflat := splitBatches_flatten 2 e.cfg.max [] au
  obtain ⟨hok, k, hk⟩ := writeBatches_markers e.cfg.max (splitBatches 2 e.cfg.max [] au) hc.1
    (splitBatches_ne_nil _ _ _ _)
    (fun b hb n hn' => hn n (by
      have : n ∈ (splitBatches 2 e.cfg.max [] au).flatten := List.mem_flatten.mpr ⟨b, hb, hn'⟩
      rw [hflat] at this; simpa using this))
  unfold encode encodeItems at h
  simp only [hok, if_true, Option.some.injEq] at h
  subst h
  simp only [number_marker, number_length]
  have hl := congrArg List.length hk
  simp only [List.length_map, List.length_append, List.length_replicate, List.length_cons,
    List.length_nil] at hl
  rw [hk, hl]
  simp

/-! ## non-vacuity -/

/-- [VPS, SPS, 30-byte IDR, 3-byte SEI] at limit 14: AP, 3 FU, single — across a wrap -/
def exEnc : Enc := { cfg := { pt := 96, ssrc := 7, max := 14 }, seq := 65534 }
def exAU : List Bytes :=
  [[0x40, 0x01, 0x0c], [0x42, 0x01, 0x01], 0x26 :: 0x01 :: (List.range 28).map (fun i => UInt8.ofNat (i + 2)),
   [0x4e, 0x01, 0x05]]

example : ValidCfg exEnc.cfg ∧ ValidFrame exAU := by decide
example : ((encode exEnc exAU).2.map fun ps => ps.map (·.seq)) = some [65534, 65535, 0, 1, 2] := by decide
example : ((encode exEnc exAU).2.map fun ps => ps.map (·.marker)) = some [false, false, false, false, true] := by
  decide
example : ((encode exEnc exAU).2.map fun ps => ps.map (·.payload.length)) = some [12, 14, 14, 9, 3] := by decide
/-- a 1-byte NALU inside an aggregation packet is refused -/
example : (encode exEnc [[0x40, 0x01], [0x42]]).2 = none := by decide

end Rtsp.Codec.H265
