import Rtsp.Model.Codec.Mpeg1Video
import Rtsp.Proofs.Codec.Common
/-
Property theorems for pkg/format/rtpmpeg1video about the model in `Model/Codec/Mpeg1Video.lean`
(the decoder as repaired by f36684c / e33085a / 85f0949).

  C06  c06_payload_le, c06_seq_consecutive, c06_pt_ssrc, c06_marker_only_last
  C08  c08_inv_init, c08_inv_decode, c08_retained_le, c08_out_le, c08_split_total
-/
namespace Rtsp.Codec.Mpeg1Video
open Rtsp.Rtp Rtsp.Facts

/-! ## validity -/

/-- four header bytes plus at least one byte of data per fragment (`PayloadMaxSize - 4` is a divisor
in `packetCount`) -/
def ValidCfg (c : EncCfg) : Prop := 5 ≤ c.max

/-- the documented precondition of `Encode`: the frame is a sequence of slices of at least 4 bytes
(as the encoder itself splits it), picture headers (start code value 0) have at least 6; and the
decoder accepts at most `maxFrameSize` bytes -/
def ValidFrame (f : Bytes) : Prop :=
  (match split f with
   | some ss => ∀ s ∈ ss, s.getD 3 0 = 0 → 6 ≤ s.length
   | none => False) ∧ f.length ≤ maxFrameSize

instance (c : EncCfg) : Decidable (ValidCfg c) := by unfold ValidCfg; infer_instance
instance (f : Bytes) : Decidable (ValidFrame f) := by
  unfold ValidFrame; cases split f <;> infer_instance

theorem packetCount_eq (avail le : Nat) : packetCount avail le = ceilDiv le avail := rfl

/-! ## C06 -/

@[simp] theorem hdrBytes_length (h : Hdr) (a b c : Bool) : (hdrBytes h a b c).length = 4 := rfl

theorem emitFrag_ind {motive : Nat → Prop} (case1 : motive 0) (case2 : motive 1)
    (case3 : ∀ n, motive (n + 1) → motive (n + 2)) : ∀ n, motive n
  | 0 => case1
  | 1 => case2
  | n + 2 => case3 n (emitFrag_ind case1 case2 case3 (n + 1))

theorem emitFrag_payload_le (c : EncCfg) (h : Hdr) (hc : ValidCfg c) (n : Nat) (first bos : Bool)
    (sq : UInt16) (rest : Bytes) (hr : rest.length ≤ n * (c.max - 4)) :
    ∀ p ∈ emitFrag c h n first bos sq rest, p.payload.length ≤ c.max := by
  unfold ValidCfg at hc
  induction n using emitFrag_ind generalizing first bos sq rest with
  | case1 => simp [emitFrag]
  | case2 =>
    intro p hp; simp [emitFrag, mkPkt] at hp; subst hp
    simp only [List.length_append, hdrBytes_length]
    omega
  | case3 n ih =>
    intro p hp
    simp only [emitFrag, List.mem_cons] at hp
    rcases hp with hp | hp
    · subst hp
      simp only [mkPkt, List.length_append, hdrBytes_length, List.length_take]
      omega
    · apply ih false false (sq + 1) (rest.drop (c.max - 4)) _ p hp
      simp only [List.length_drop]
      have : (n + 2) * (c.max - 4) = (n + 1) * (c.max - 4) + (c.max - 4) := Nat.succ_mul _ _
      omega

theorem emitFrag_length (c : EncCfg) (h : Hdr) (n : Nat) (first bos : Bool) (sq : UInt16) (rest : Bytes) :
    (emitFrag c h n first bos sq rest).length = n := by
  induction n using emitFrag_ind generalizing first bos sq rest with
  | case1 => simp [emitFrag]
  | case2 => simp [emitFrag]
  | case3 n ih => simp [emitFrag, ih]

theorem emitFrag_seq (c : EncCfg) (h : Hdr) (n : Nat) (first bos : Bool) (sq : UInt16) (rest : Bytes) :
    (emitFrag c h n first bos sq rest).map (·.seq) = seqFrom sq n := by
  induction n using emitFrag_ind generalizing first bos sq rest with
  | case1 => simp [emitFrag, seqFrom]
  | case2 => simp [emitFrag, seqFrom, mkPkt]
  | case3 n ih => simp [emitFrag, seqFrom, ih, mkPkt]

theorem emitFrag_meta (c : EncCfg) (h : Hdr) (n : Nat) (first bos : Bool) (sq : UInt16) (rest : Bytes) :
    ∀ p ∈ emitFrag c h n first bos sq rest, p.pt = payloadType ∧ p.ssrc = c.ssrc ∧ p.marker = false := by
  induction n using emitFrag_ind generalizing first bos sq rest with
  | case1 => simp [emitFrag]
  | case2 => intro p hp; simp [emitFrag, mkPkt] at hp; subst hp; simp
  | case3 n ih =>
    intro p hp
    simp only [emitFrag, List.mem_cons] at hp
    rcases hp with hp | hp
    · subst hp; simp [mkPkt]
    · exact ih _ _ _ _ p hp

/-- a batch as the loop keeps it: one slice of any size, or slices that fit one packet together -/
def BatchOk (c : EncCfg) (b : List Bytes) : Prop := b.length = 1 ∨ lenAgg b [] ≤ c.max

theorem lenAgg_snoc (b : List Bytes) (s : Bytes) : lenAgg (b ++ [s]) [] = lenAgg b s := by
  simp [lenAgg]; omega

theorem writeBatch_payload_le (c : EncCfg) (hc : ValidCfg c) (b : List Bytes) (h : Hdr) (sq : UInt16)
    (hb : BatchOk c b) : ∀ p ∈ writeBatch c b h sq, p.payload.length ≤ c.max := by
  have agg : lenAgg b [] ≤ c.max → ∀ p ∈ writeAggregated c b h sq, p.payload.length ≤ c.max := by
    intro hl p hp
    simp [writeAggregated, mkPkt] at hp; subst hp
    simp only [List.length_append, hdrBytes_length, flatten_length]
    simp [lenAgg] at hl; omega
  unfold writeBatch
  split
  · rename_i s
    split
    · rename_i hlt; exact agg (Nat.le_of_lt hlt)
    · unfold writeFragmented
      apply emitFrag_payload_le c h hc
      rw [packetCount_eq]
      exact ceilDiv_upper _ _ (by unfold ValidCfg at hc; omega)
  · rename_i hns
    rcases hb with hb | hb
    · exfalso
      match b, hb with
      | [s], _ => exact hns s rfl
    · exact agg hb

theorem writeBatch_seq (c : EncCfg) (b : List Bytes) (h : Hdr) (sq : UInt16) :
    (writeBatch c b h sq).map (·.seq) = seqFrom sq (writeBatch c b h sq).length := by
  unfold writeBatch
  split
  · split
    · simp [writeAggregated, mkPkt, seqFrom]
    · simp [writeFragmented, emitFrag_seq, emitFrag_length]
  · simp [writeAggregated, mkPkt, seqFrom]

theorem writeBatch_meta (c : EncCfg) (b : List Bytes) (h : Hdr) (sq : UInt16) :
    ∀ p ∈ writeBatch c b h sq, p.pt = payloadType ∧ p.ssrc = c.ssrc ∧ p.marker = false := by
  unfold writeBatch
  split
  · split
    · intro p hp; simp [writeAggregated, mkPkt] at hp; subst hp; simp
    · exact emitFrag_meta _ _ _ _ _ _ _
  · intro p hp; simp [writeAggregated, mkPkt] at hp; subst hp; simp

theorem writeBatch_ne_nil (c : EncCfg) (hc : ValidCfg c) (b : List Bytes) (h : Hdr) (sq : UInt16) :
    writeBatch c b h sq ≠ [] := by
  unfold writeBatch
  split
  · rename_i s
    split
    · simp [writeAggregated]
    · rename_i hge
      intro hnil
      have hl := congrArg List.length hnil
      simp only [writeFragmented, emitFrag_length, List.length_nil] at hl
      have hs : 0 < s.length := by
        unfold ValidCfg at hc; simp [lenAgg] at hge; omega
      have := ceilDiv_pos s.length (c.max - 4) (by unfold ValidCfg at hc; omega) hs
      rw [← packetCount_eq] at this
      omega
  · simp [writeAggregated]

/-- what one loop iteration does to batch / output / sequence number (the header values do not
matter here) -/
theorem step_cases (c : EncCfg) (st : St) (s : Bytes) (hb : st.bad = false) :
    ((step c st s).batch = st.batch ++ [s] ∧ (step c st s).out = st.out ∧ (step c st s).seq = st.seq
        ∧ lenAgg st.batch s ≤ c.max) ∨
    (∃ h', (step c st s).batch = [s] ∧ (step c st s).out = st.out ++ writeBatch c st.batch h' st.seq
        ∧ (step c st s).seq = st.seq + UInt16.ofNat (writeBatch c st.batch h' st.seq).length) ∨
    ((step c st s).batch = [s] ∧ (step c st s).out = st.out ∧ (step c st s).seq = st.seq) := by
  unfold step
  simp only [hb, Bool.false_eq_true, if_false]
  by_cases h1 : lenAgg st.batch s ≤ c.max
  · left
    refine ⟨?_, ?_, ?_, h1⟩ <;> simp only [h1, if_true] <;> (repeat' split) <;> rfl
  · by_cases h2 : st.batch ≠ []
    · right; left
      refine ⟨st.h, ?_⟩
      simp only [h1, if_false, h2, if_true]
      refine ⟨?_, ?_, ?_⟩ <;> (repeat' split) <;> rfl
    · right; right
      simp only [h1, if_false, h2]
      refine ⟨?_, ?_, ?_⟩ <;> (repeat' split) <;> rfl

theorem step_bad (c : EncCfg) (st : St) (s : Bytes) (hb : st.bad = true) : step c st s = st := by
  simp [step, hb]

/-- fold invariant for the size clause -/
structure SizeInv (c : EncCfg) (st : St) : Prop where
  batch : BatchOk c st.batch ∨ st.batch = []
  out   : ∀ p ∈ st.out, p.payload.length ≤ c.max

theorem step_sizeInv (c : EncCfg) (hc : ValidCfg c) (st : St) (s : Bytes) (hi : SizeInv c st) :
    SizeInv c (step c st s) := by
  cases hb : st.bad with
  | true => rw [step_bad c st s hb]; exact hi
  | false =>
    rcases step_cases c st s hb with ⟨h1, h2, _, h4⟩ | ⟨h', h1, h2, _⟩ | ⟨h1, h2, _⟩
    · refine ⟨Or.inl (Or.inr ?_), by rw [h2]; exact hi.out⟩
      rw [h1, lenAgg_snoc]; exact h4
    · refine ⟨Or.inl (Or.inl (by rw [h1]; rfl)), ?_⟩
      rw [h2]
      intro p hp
      simp only [List.mem_append] at hp
      rcases hp with hp | hp
      · exact hi.out p hp
      · rcases hi.batch with hb' | hb'
        · exact writeBatch_payload_le c hc _ _ _ hb' p hp
        · rw [hb'] at hp
          simp [writeBatch, writeAggregated, mkPkt] at hp; subst hp
          unfold ValidCfg at hc; simp; omega
    · exact ⟨Or.inl (Or.inl (by rw [h1]; rfl)), by rw [h2]; exact hi.out⟩

theorem foldl_sizeInv (c : EncCfg) (hc : ValidCfg c) (ss : List Bytes) (st : St) (hi : SizeInv c st) :
    SizeInv c (ss.foldl (step c) st) := by
  induction ss generalizing st with
  | nil => exact hi
  | cons s ss ih => exact ih _ (step_sizeInv c hc st s hi)

theorem markLast_payload (ps : List Pkt) : (markLast ps).map (·.payload) = ps.map (·.payload) := by
  induction ps with
  | nil => rfl
  | cons p ps ih =>
    cases ps with
    | nil => rfl
    | cons q qs => simp only [markLast, List.map_cons, List.cons.injEq, true_and]; exact ih

theorem mem_markLast_payload (ps : List Pkt) (p : Pkt) (hp : p ∈ markLast ps) :
    ∃ q ∈ ps, q.payload = p.payload := by
  have : p.payload ∈ (markLast ps).map (·.payload) := List.mem_map_of_mem hp
  rw [markLast_payload] at this
  obtain ⟨q, hq, he⟩ := List.mem_map.mp this
  exact ⟨q, hq, he⟩

/-- **C06 size clause**: every payload is at most `PayloadMaxSize`, for every frame the encoder
accepts (slices below, at and above the limit). -/
theorem c06_payload_le (e : Enc) (f : Bytes) (ps : List Pkt) (hc : ValidCfg e.cfg)
    (h : (encode e f).2 = some ps) : ∀ p ∈ ps, p.payload.length ≤ e.cfg.max := by
  unfold encode at h
  split at h
  · simp at h
  · rename_i ss _
    simp only at h
    split at h
    · simp at h
    · simp only [Option.some.injEq] at h
      subst h
      have hi := foldl_sizeInv e.cfg hc ss { seq := e.seq } ⟨Or.inr rfl, by simp⟩
      intro p hp
      obtain ⟨q, hq, he⟩ := mem_markLast_payload _ p hp
      rw [← he]
      simp only [List.mem_append] at hq
      rcases hq with hq | hq
      · exact hi.out q hq
      · rcases hi.batch with hb | hb
        · exact writeBatch_payload_le e.cfg hc _ _ _ hb q hq
        · rw [hb] at hq
          simp [writeBatch, writeAggregated, mkPkt] at hq; subst hq
          unfold ValidCfg at hc; simp; omega

/-- fold invariant for numbering / payload type / SSRC / markers -/
structure SeqInv (c : EncCfg) (sq0 : UInt16) (st : St) : Prop where
  seqs : st.out.map (·.seq) = seqFrom sq0 st.out.length
  next : st.seq = sq0 + UInt16.ofNat st.out.length
  mta  : ∀ p ∈ st.out, p.pt = payloadType ∧ p.ssrc = c.ssrc ∧ p.marker = false

theorem seqInv_append (c : EncCfg) (sq0 : UInt16) (out : List Pkt) (sq : UInt16) (b : List Bytes) (h : Hdr)
    (h1 : out.map (·.seq) = seqFrom sq0 out.length) (h2 : sq = sq0 + UInt16.ofNat out.length) :
    (out ++ writeBatch c b h sq).map (·.seq) = seqFrom sq0 (out ++ writeBatch c b h sq).length ∧
    sq + UInt16.ofNat (writeBatch c b h sq).length = sq0 + UInt16.ofNat (out ++ writeBatch c b h sq).length := by
  refine ⟨?_, ?_⟩
  · rw [List.map_append, List.length_append, seqFrom_append, h1, writeBatch_seq, h2]
  · rw [h2, List.length_append]
    apply UInt16.toNat_inj.mp
    simp [UInt16.toNat_add, UInt16.toNat_ofNat']
    omega

theorem step_seqInv (c : EncCfg) (sq0 : UInt16) (st : St) (s : Bytes) (hi : SeqInv c sq0 st) :
    SeqInv c sq0 (step c st s) := by
  cases hb : st.bad with
  | true => rw [step_bad c st s hb]; exact hi
  | false =>
    rcases step_cases c st s hb with ⟨_, h2, h3, _⟩ | ⟨h', _, h2, h3⟩ | ⟨_, h2, h3⟩
    · exact ⟨by rw [h2]; exact hi.seqs, by rw [h2, h3]; exact hi.next, by rw [h2]; exact hi.mta⟩
    · obtain ⟨a, b⟩ := seqInv_append c sq0 st.out st.seq st.batch h' hi.seqs hi.next
      refine ⟨by rw [h2]; exact a, by rw [h2, h3]; exact b, ?_⟩
      rw [h2]
      intro p hp
      simp only [List.mem_append] at hp
      rcases hp with hp | hp
      · exact hi.mta p hp
      · exact writeBatch_meta _ _ _ _ p hp
    · exact ⟨by rw [h2]; exact hi.seqs, by rw [h2, h3]; exact hi.next, by rw [h2]; exact hi.mta⟩

theorem foldl_seqInv (c : EncCfg) (sq0 : UInt16) (ss : List Bytes) (st : St) (hi : SeqInv c sq0 st) :
    SeqInv c sq0 (ss.foldl (step c) st) := by
  induction ss generalizing st with
  | nil => exact hi
  | cons s ss ih => exact ih _ (step_seqInv c sq0 st s hi)

theorem markLast_length (ps : List Pkt) : (markLast ps).length = ps.length := by
  have := congrArg List.length (markLast_payload ps)
  simpa using this

theorem markLast_seq (ps : List Pkt) : (markLast ps).map (·.seq) = ps.map (·.seq) := by
  induction ps with
  | nil => rfl
  | cons p ps ih =>
    cases ps with
    | nil => rfl
    | cons q qs => simp only [markLast, List.map_cons, List.cons.injEq, true_and]; exact ih

theorem markLast_meta (ps : List Pkt) (pt : UInt8) (ssrc : UInt32)
    (h : ∀ p ∈ ps, p.pt = pt ∧ p.ssrc = ssrc) : ∀ p ∈ markLast ps, p.pt = pt ∧ p.ssrc = ssrc := by
  induction ps with
  | nil => simp [markLast]
  | cons p ps ih =>
    cases ps with
    | nil => intro q hq; simp [markLast] at hq; subst hq; exact h p (by simp)
    | cons q qs =>
      intro r hr
      simp only [markLast, List.mem_cons] at hr
      rcases hr with hr | hr
      · subst hr; exact h _ (by simp)
      · exact ih (fun x hx => h x (by simp [hx])) r (by simpa [markLast] using hr)

theorem markLast_markers (ps : List Pkt) (hne : ps ≠ []) (h : ∀ p ∈ ps, p.marker = false) :
    (markLast ps).map (·.marker) = List.replicate (ps.length - 1) false ++ [true] := by
  induction ps with
  | nil => exact absurd rfl hne
  | cons p ps ih =>
    cases ps with
    | nil => simp [markLast]
    | cons q qs =>
      have := ih (by simp) (fun x hx => h x (by simp [hx]))
      simp only [markLast, List.map_cons, List.length_cons] at this ⊢
      rw [this, h p (by simp)]
      simp [List.replicate_succ]

/-- the final state of the loop and the packets of the last batch, when the frame is accepted -/
theorem encode_some (e : Enc) (f : Bytes) (ps : List Pkt) (h : (encode e f).2 = some ps) :
    ∃ ss st, split f = some ss ∧ st = ss.foldl (step e.cfg) { seq := e.seq } ∧ st.bad = false ∧
      ps = markLast (st.out ++ writeBatch e.cfg st.batch st.h st.seq) ∧
      (encode e f).1.seq = st.seq + UInt16.ofNat (writeBatch e.cfg st.batch st.h st.seq).length := by
  cases hs : split f with
  | none => simp [encode, hs] at h
  | some ss =>
    cases hb : (ss.foldl (step e.cfg) { seq := e.seq }).bad with
    | true => simp [encode, hs, hb] at h
    | false =>
      simp only [encode, hs, hb, Bool.false_eq_true, if_false, Option.some.injEq] at h
      exact ⟨ss, _, rfl, rfl, hb, h.symm, by simp [encode, hs, hb]⟩

/-- **C06 numbering, one call**: the packets of one `Encode` carry `seq, seq+1, …` (mod 2^16) and
the encoder continues after them. -/
theorem c06_seq_consecutive (e : Enc) (f : Bytes) (ps : List Pkt) (h : (encode e f).2 = some ps) :
    ps.map (·.seq) = seqFrom e.seq ps.length ∧ (encode e f).1.seq = e.seq + UInt16.ofNat ps.length := by
  obtain ⟨ss, st, _, hst, _, hps, hseq⟩ := encode_some e f ps h
  have hi := foldl_seqInv e.cfg e.seq ss { seq := e.seq } ⟨by simp [seqFrom], by simp, by simp⟩
  rw [← hst] at hi
  obtain ⟨a, b⟩ := seqInv_append e.cfg e.seq st.out st.seq st.batch st.h hi.seqs hi.next
  rw [hps, markLast_seq, markLast_length]
  exact ⟨a, by rw [hseq]; exact b⟩

/-- **C06 payload type and SSRC**: the format-mandated payload type 32 and the configured SSRC -/
theorem c06_pt_ssrc (e : Enc) (f : Bytes) (ps : List Pkt) (h : (encode e f).2 = some ps) :
    ∀ p ∈ ps, p.pt = payloadType ∧ p.ssrc = e.cfg.ssrc := by
  obtain ⟨ss, st, _, hst, _, hps, _⟩ := encode_some e f ps h
  have hi := foldl_seqInv e.cfg e.seq ss { seq := e.seq } ⟨by simp [seqFrom], by simp, by simp⟩
  rw [← hst] at hi
  rw [hps]
  apply markLast_meta
  intro p hp
  simp only [List.mem_append] at hp
  rcases hp with hp | hp
  · exact ⟨(hi.mta p hp).1, (hi.mta p hp).2.1⟩
  · exact ⟨(writeBatch_meta _ _ _ _ p hp).1, (writeBatch_meta _ _ _ _ p hp).2.1⟩

/-- **C06 marker**: set on the last packet of the frame and on no other packet. -/
theorem c06_marker_only_last (e : Enc) (f : Bytes) (ps : List Pkt) (hc : ValidCfg e.cfg)
    (h : (encode e f).2 = some ps) :
    ps.map (·.marker) = List.replicate (ps.length - 1) false ++ [true] := by
  obtain ⟨ss, st, hsp, hst, _, hps, _⟩ := encode_some e f ps h
  have hi := foldl_seqInv e.cfg e.seq ss { seq := e.seq } ⟨by simp [seqFrom], by simp, by simp⟩
  rw [← hst] at hi
  rw [hps, markLast_length]
  apply markLast_markers
  · intro hnil
    exact writeBatch_ne_nil e.cfg hc _ _ _ (List.append_eq_nil_iff.mp hnil).2
  · intro p hp
    simp only [List.mem_append] at hp
    rcases hp with hp | hp
    · exact (hi.mta p hp).2.2
    · exact (writeBatch_meta _ _ _ _ p hp).2.2

/-! ## C08 -/

/-- state invariant, relative to a bound `P` on the payload size of the packets of the history -/
structure Inv (P : Nat) (d : Dec) : Prop where
  frag_eq  : d.fragSize = totalLen d.fragments
  slice_eq : d.sliceSize = totalLen d.sliceBuf
  slice_le : d.sliceSize ≤ maxFrameSize
  sum_le   : d.sliceSize + d.fragSize ≤ maxFrameSize + P
  frag_n   : d.fragments.length ≤ d.fragSize + 1   -- every fragment but the first carries data
  slice_n  : d.sliceBuf.length ≤ d.sliceSize       -- every buffered slice carries data

/-- nothing of an earlier frame is buffered -/
def Clean (d : Dec) : Prop := d.sliceBuf = [] ∧ d.sliceSize = 0

instance (d : Dec) : Decidable (Clean d) := by unfold Clean; infer_instance

theorem c08_inv_init (P : Nat) : Inv P {} := ⟨rfl, rfl, by simp, by simp, by simp, by simp⟩

theorem inv_resetFragments (P : Nat) (d : Dec) (hi : Inv P d) : Inv P d.resetFragments :=
  ⟨rfl, hi.slice_eq, hi.slice_le, by simp [Dec.resetFragments]; have := hi.slice_le; omega,
   by simp [Dec.resetFragments], hi.slice_n⟩

/-- `decodeSlice` preserves the invariant and a returned slice is either the packet's body or a
joined fragment list within the frame limit -/
theorem decodeSlice_inv (P : Nat) (d : Dec) (p : Pkt) (hi : Inv P d) (hp : p.payload.length ≤ P) :
    ∀ r, r = decodeSlice d p →
    Inv P r.1 ∧ ∀ s, r.2 = .ok s → r.1.fragSize = 0 ∧ s.length ≤ P + maxFrameSize ∧ 0 < s.length := by
  have hr := inv_resetFragments P d hi
  have herr : ∀ (d' : Dec) (e : SliceErr), Inv P d' →
      Inv P (d', (Except.error e : Except SliceErr Bytes)).1 ∧
      ∀ s, (d', (Except.error e : Except SliceErr Bytes)).2 = .ok s →
        (d', (Except.error e : Except SliceErr Bytes)).1.fragSize = 0 ∧ s.length ≤ P + maxFrameSize ∧ 0 < s.length :=
    fun d' e h => ⟨h, fun s hs => by cases hs⟩
  intro r hrd
  rw [decodeSlice] at hrd
  by_cases c0 : p.payload.length < 4
  · rw [if_pos c0] at hrd; subst hrd; exact herr _ _ hr
  rw [if_neg c0] at hrd
  simp only at hrd
  by_cases c1 : p.payload.getD 0 0 >>> 3 ≠ 0
  · rw [if_pos c1] at hrd; subst hrd; exact herr _ _ hr
  rw [if_neg c1] at hrd
  by_cases c2 : (p.payload.getD 0 0 >>> 2) &&& 1 ≠ 0
  · rw [if_pos c2] at hrd; subst hrd; exact herr _ _ hr
  rw [if_neg c2] at hrd
  by_cases c3 : p.payload.getD 2 0 >>> 7 ≠ 0
  · rw [if_pos c3] at hrd; subst hrd; exact herr _ _ hr
  rw [if_neg c3] at hrd
  by_cases c4 : (p.payload.getD 2 0 >>> 6) &&& 1 ≠ 0
  · rw [if_pos c4] at hrd; subst hrd; exact herr _ _ hr
  rw [if_neg c4] at hrd
  have hbody : (p.payload.drop 4).length ≤ P := by simp only [List.length_drop]; omega
  by_cases c5 : (p.payload.getD 2 0 >>> 4) &&& 1 = 1 ∧ (p.payload.getD 2 0 >>> 3) &&& 1 = 1
  · rw [if_pos c5] at hrd
    by_cases c5b : (p.payload.drop 4).length = 0
    · rw [if_pos c5b] at hrd; subst hrd; exact herr _ _ hr
    · rw [if_neg c5b] at hrd; subst hrd
      refine ⟨hr, ?_⟩
      intro s hs
      simp only [Except.ok.injEq] at hs; subst hs
      exact ⟨rfl, by omega, by omega⟩
  rw [if_neg c5] at hrd
  by_cases c6 : (p.payload.getD 2 0 >>> 4) &&& 1 = 1
  · rw [if_pos c6] at hrd; subst hrd
    refine herr _ _ ⟨by simp, hi.slice_eq, hi.slice_le, ?_, by simp, hi.slice_n⟩
    have := hi.slice_le
    simp only; omega
  rw [if_neg c6] at hrd
  by_cases c7 : d.fragSize = 0
  · rw [if_pos c7] at hrd; subst hrd; exact herr _ _ hi
  rw [if_neg c7] at hrd
  by_cases c8 : p.seq ≠ d.nextSeq
  · rw [if_pos c8] at hrd; subst hrd; exact herr _ _ hr
  rw [if_neg c8] at hrd
  by_cases c8b : (p.payload.drop 4).length = 0
  · rw [if_pos c8b] at hrd; subst hrd; exact herr _ _ hr
  rw [if_neg c8b] at hrd
  by_cases c9 : d.sliceSize + (d.fragSize + (p.payload.drop 4).length) > maxFrameSize
  · rw [if_pos c9] at hrd; subst hrd
    exact herr _ _ ⟨rfl, rfl, by simp, by simp [Dec.resetFragments], by simp [Dec.resetFragments], by simp⟩
  rw [if_neg c9] at hrd
  by_cases c10 : (p.payload.getD 2 0 >>> 3) &&& 1 = 1
  · rw [if_pos c10] at hrd; subst hrd
    refine ⟨⟨rfl, hi.slice_eq, hi.slice_le, by simp [Dec.resetFragments]; have := hi.slice_le; omega,
      by simp [Dec.resetFragments], hi.slice_n⟩, ?_⟩
    intro s hs
    simp only [Except.ok.injEq] at hs; subst hs
    refine ⟨rfl, ?_, ?_⟩
    · simp only [joinFragments, List.length_append, List.length_take, List.length_replicate]
      omega
    · simp only [joinFragments, List.length_append, List.length_take, List.length_replicate]
      omega
  · rw [if_neg c10] at hrd; subst hrd
    refine herr _ _ ⟨by simp [hi.frag_eq], hi.slice_eq, hi.slice_le, ?_, ?_, hi.slice_n⟩
    · simp only; omega
    · have := hi.frag_n
      simp only [List.length_append, List.length_cons, List.length_nil]
      omega

/-- **C08**: the invariant is preserved by `Decode` on EVERY packet. -/
theorem c08_inv_decode (P : Nat) (d : Dec) (p : Pkt) (hi : Inv P d) (hp : p.payload.length ≤ P) :
    Inv P (decode d p).1 := by
  obtain ⟨h1, h2⟩ := decodeSlice_inv P d p hi hp _ rfl
  unfold decode
  split
  · rename_i d' e heq
    simp only [heq] at h1; exact h1
  · rename_i d' s heq
    simp only [heq] at h1 h2
    obtain ⟨hz, _, hpos⟩ := h2 s rfl
    have hclear : Inv P { d' with sliceBuf := [], sliceSize := 0 } :=
      ⟨h1.frag_eq, rfl, by simp, by simp only [hz]; simp, h1.frag_n, by simp⟩
    simp only
    split
    · exact hclear
    split
    · rename_i hle _
      refine ⟨h1.frag_eq, by simp [h1.slice_eq], by simp only; omega, by simp only [hz]; omega, h1.frag_n, ?_⟩
      have := h1.slice_n
      simp only [List.length_append, List.length_cons, List.length_nil]
      omega
    split <;> exact hclear

/-- (F) the decoder struct has exactly two byte-carrying fields (`fragments`, `sliceBuffer`, both
`[][]byte`) — what `retained` sums (regenerated from /repo on every run) -/
theorem c08_state_fields : CodecMisc.mpeg1videoDecoderSliceFields = 2 := by decide

/-- **C08 bounded memory**: retained bytes ≤ maximum frame size + one packet. -/
theorem c08_retained_le (P : Nat) (d : Dec) (hi : Inv P d) : retained d ≤ maxFrameSize + P := by
  unfold retained
  rw [← hi.frag_eq, ← hi.slice_eq, Nat.add_comm]
  exact hi.sum_le

/-- **C08 fragment / slice count**: the lists never hold more entries than bytes (plus one for a
header-only start fragment) — header-only slices and following fragments are refused since
07ef6d1 — so the lists themselves, and the packet buffers they pin, obey the same bound. -/
theorem c08_fragment_count_le (P : Nat) (d : Dec) (hi : Inv P d) :
    d.fragments.length + d.sliceBuf.length ≤ maxFrameSize + P + 1 := by
  have := hi.frag_n; have := hi.slice_n; have := hi.sum_le
  omega

/-- **C08 output bound**: no returned frame exceeds `maxFrameSize`. -/
theorem c08_out_le (d : Dec) (p : Pkt) (f : Bytes) (h : (decode d p).2 = .ok f) :
    f.length ≤ maxFrameSize := by
  unfold decode at h
  split at h
  · rename_i e _; cases e <;> simp [SliceErr.toRes] at h
  · simp only at h
    split at h
    · simp at h
    split at h
    · simp at h
    split at h
    · rename_i hle _ _
      simp only [DecRes.ok.injEq] at h; subst h
      simp only [joinFragments, List.length_append, List.length_take, List.length_replicate]
      omega
    · simp at h

/-! totality of the slice splitter: the fuel given by `split` is never exhausted -/

theorem index001_lt (b : Bytes) (e : Nat) (h : index001 b = some e) : e + 3 ≤ b.length := by
  induction b generalizing e with
  | nil => simp [index001] at h
  | cons a t ih =>
    simp only [index001] at h
    split at h
    · rename_i hc
      simp only [Option.some.injEq] at h; subst h
      have : (t.take 2).length = 2 := by rw [hc.2]; rfl
      simp only [List.length_take] at this
      simp only [List.length_cons]; omega
    · cases hi : index001 t with
      | none => simp [hi] at h
      | some e' =>
        simp [hi] at h; subst h
        have := ih e' hi
        simp only [List.length_cons]; omega

/-- more fuel than `frame.length` changes nothing: `splitAux` never runs out from `split` -/
theorem c08_split_total (fuel : Nat) (frame : Bytes) (h : frame.length < fuel) :
    splitAux fuel frame = split frame := by
  unfold split
  suffices ∀ n (fr : Bytes) (f1 f2 : Nat), fr.length ≤ n → fr.length < f1 → fr.length < f2 →
      splitAux f1 fr = splitAux f2 fr from this _ _ _ _ (Nat.le_refl _) h (Nat.lt_succ_self _)
  intro n
  induction n with
  | zero =>
    intro fr f1 f2 hn h1 h2
    match f1, f2, h1, h2 with
    | f1 + 1, f2 + 1, _, _ =>
      have : fr.length < 4 := by omega
      simp [splitAux, this]
  | succ n ih =>
    intro fr f1 f2 hn h1 h2
    match f1, f2, h1, h2 with
    | f1 + 1, f2 + 1, h1, h2 =>
      simp only [splitAux]
      split
      · rfl
      · cases hi : index001 (fr.drop 4) with
        | none => rfl
        | some e =>
          simp only
          have hlt := index001_lt _ _ hi
          simp only [List.length_drop] at hlt
          have hd : (fr.drop (e + 4)).length ≤ n := by simp only [List.length_drop]; omega
          rw [ih (fr.drop (e + 4)) f1 f2 hd (by simp only [List.length_drop]; omega)
            (by simp only [List.length_drop]; omega)]

/-! ## non-vacuity -/

/-- picture header + a 9-byte slice + a 5-byte slice at limit 12: the first two do not aggregate,
the 9-byte slice is fragmented (2 packets), the last is sent alone -/
def exFrame : Bytes :=
  [0, 0, 1, 0, 0x12, 0x08] ++ [0, 0, 1, 1, 9, 9, 9, 9, 9] ++ [0, 0, 1, 2, 7]
def exEnc : Enc := { cfg := { pt := 32, ssrc := 7, max := 12 }, seq := 65534 }

example : ValidCfg exEnc.cfg ∧ ValidFrame exFrame ∧ Clean {} := by decide
example : ((encode exEnc exFrame).2.map fun ps => ps.map fun p => (p.seq, p.marker, p.payload.length))
    = some [(65534, false, 10), (65535, false, 12), (0, false, 5), (1, true, 9)] := by decide
example : (runDec {} ((encode exEnc exFrame).2.getD [])).2 = [.more, .more, .more, .ok exFrame] := by decide
/-- a dirty state satisfies the invariant -/
example : Inv 1500 { fragments := [[1, 2], [3]], fragSize := 3, nextSeq := 9, sliceBuf := [[0, 0, 1, 5]], sliceSize := 4 } :=
  ⟨by decide, by decide, by decide, by decide, by decide, by decide⟩

end Rtsp.Codec.Mpeg1Video
