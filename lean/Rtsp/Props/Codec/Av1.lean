import Rtsp.Proofs.Codec.Av1Enc
import Rtsp.Proofs.Codec.Av1Dec
/-
Property theorems for pkg/format/rtpav1 (encoder.go, decoder.go, as repaired by the two `fix:`
commits) with mediacommon's LEB128, about the model in `Model/Codec/Av1.lean`.

  C06  c06_payload_le, c06_seq_consecutive, c06_seq_many, c06_pt_ssrc, c06_marker_only_last
  C08  c08_inv_init, c08_inv_decode, c08_retained_le, c08_out_le, c08_parse_total (no fuel exhaustion)

All statements quantify over every temporal unit (any number of OBUs of any size, empty ones
included, where validity is not assumed), payload limit, sequence number, packet and history.
-/
namespace Rtsp.Codec.Av1
open Rtsp.Rtp Rtsp.Facts Rtsp.Codec.Av1Vp

/-! ## C06 -/

/-- the packets of one `Encode` before the N bit and the marker are set, and the loop state -/
theorem encode_eq (e : Enc) (obus : List Bytes) :
    ∃ st, st = encObus e.cfg (lebSize e.cfg.max) obus { done := [], cur := { z := false, seq := e.seq }, nextSeq := e.seq + 1 } ∧
      (encode e obus).1.seq = st.nextSeq ∧ (encode e obus).1.cfg = e.cfg ∧
      (encode e obus).2 = setMarkerLast (if isRandomAccess obus then setN (st.done ++ [mkPkt e.cfg st.cur false])
                                          else st.done ++ [mkPkt e.cfg st.cur false]) :=
  ⟨_, rfl, rfl, rfl, rfl⟩

theorem pre_ok (e : Enc) (obus : List Bytes) (hc : ValidCfg e.cfg) (st : St)
    (hst : st = encObus e.cfg (lebSize e.cfg.max) obus { done := [], cur := { z := false, seq := e.seq }, nextSeq := e.seq + 1 }) :
    StInv e.cfg e.seq st ∧
    ∀ p ∈ (if isRandomAccess obus then setN (st.done ++ [mkPkt e.cfg st.cur false]) else st.done ++ [mkPkt e.cfg st.cur false]),
      p.payload.length ≤ e.cfg.max ∧ p.pt = e.cfg.pt ∧ p.ssrc = e.cfg.ssrc ∧ p.marker = false := by
  have hinv : StInv e.cfg e.seq st := by rw [hst]; exact encObus_inv _ hc _ _ _ (st0_inv _ hc _)
  refine ⟨hinv, ?_⟩
  have hall : ∀ p ∈ st.done ++ [mkPkt e.cfg st.cur false],
      p.payload.length ≤ e.cfg.max ∧ p.pt = e.cfg.pt ∧ p.ssrc = e.cfg.ssrc ∧ p.marker = false := by
    intro p hp
    simp only [List.mem_append, List.mem_singleton] at hp
    rcases hp with hp | hp
    · exact hinv.done_ok p hp
    · subst hp; rw [mkPkt_payload_length]; exact ⟨hinv.cur_le, rfl, rfl, rfl⟩
  split
  · exact setN_ok _ _ hall
  · exact hall

/-- **C06 size clause**: every payload (aggregation header and length prefixes included) is at most
`PayloadMaxSize`, for every temporal unit — OBUs below, at and above the limit, any number of them. -/
theorem c06_payload_le (e : Enc) (obus : List Bytes) (hc : ValidCfg e.cfg) :
    ∀ p ∈ (encode e obus).2, p.payload.length ≤ e.cfg.max := by
  obtain ⟨st, hst, _, _, hp⟩ := encode_eq e obus
  obtain ⟨_, hall⟩ := pre_ok e obus hc st hst
  rw [hp]
  intro p hpm
  exact (setMarkerLast_ok e.cfg _ (fun x hx => ⟨(hall x hx).1, (hall x hx).2.1, (hall x hx).2.2.1⟩) p hpm).1

/-- **C06 payload type and SSRC**. -/
theorem c06_pt_ssrc (e : Enc) (obus : List Bytes) (hc : ValidCfg e.cfg) :
    ∀ p ∈ (encode e obus).2, p.pt = e.cfg.pt ∧ p.ssrc = e.cfg.ssrc := by
  obtain ⟨st, hst, _, _, hp⟩ := encode_eq e obus
  obtain ⟨_, hall⟩ := pre_ok e obus hc st hst
  rw [hp]
  intro p hpm
  exact (setMarkerLast_ok e.cfg _ (fun x hx => ⟨(hall x hx).1, (hall x hx).2.1, (hall x hx).2.2.1⟩) p hpm).2

/-- **C06 numbering, one call**: `seq, seq+1, …` (mod 2^16) and the encoder continues after them. -/
theorem c06_seq_consecutive (e : Enc) (obus : List Bytes) (hc : ValidCfg e.cfg) :
    (encode e obus).2.map (·.seq) = seqFrom e.seq (encode e obus).2.length ∧
    (encode e obus).1.seq = e.seq + UInt16.ofNat (encode e obus).2.length ∧ (encode e obus).1.cfg = e.cfg := by
  obtain ⟨st, hst, hs, hcfg, hp⟩ := encode_eq e obus
  obtain ⟨hinv, _⟩ := pre_ok e obus hc st hst
  have hlen : (encode e obus).2.length = st.done.length + 1 := by
    rw [hp, setMarkerLast_length]; split <;> simp [setN_length]
  have hseq : (encode e obus).2.map (·.seq) = st.done.map (·.seq) ++ [st.cur.seq] := by
    rw [hp, setMarkerLast_map_seq]; split <;> simp [setN_map_seq, mkPkt]
  refine ⟨?_, ?_, hcfg⟩
  · rw [hseq, hlen]; exact hinv.seqs
  · rw [hs, hlen]; exact hinv.next

/-- a series of `Encode` calls through the same encoder -/
def encodeMany (e : Enc) : List (List Bytes) → Enc × List Pkt
  | [] => (e, [])
  | f :: fs =>
    let (e1, ps) := encode e f
    let (e2, qs) := encodeMany e1 fs
    (e2, ps ++ qs)

/-- **C06 numbering, any series of calls, any initial value (incl. wrap inside the run)**. -/
theorem c06_seq_many (e : Enc) (fs : List (List Bytes)) (hc : ValidCfg e.cfg) :
    (encodeMany e fs).2.map (·.seq) = seqFrom e.seq (encodeMany e fs).2.length ∧
    (encodeMany e fs).1.seq = e.seq + UInt16.ofNat (encodeMany e fs).2.length := by
  induction fs generalizing e with
  | nil => simp [encodeMany, seqFrom]
  | cons f fs ih =>
    obtain ⟨h1, h2, h5⟩ := c06_seq_consecutive e f hc
    obtain ⟨h3, h4⟩ := ih (encode e f).1 (by rw [h5]; exact hc)
    simp only [encodeMany, List.map_append, List.length_append]
    refine ⟨?_, ?_⟩
    · rw [seqFrom_append, h1, h3, h2]
    · rw [h4, h2]
      apply UInt16.toNat_inj.mp
      simp [UInt16.toNat_add, UInt16.toNat_ofNat']
      omega

theorem setMarkerLast_markers (ps : List Pkt) (hne : ps ≠ []) (h : ∀ p ∈ ps, p.marker = false) :
    (setMarkerLast ps).map (·.marker) = List.replicate (ps.length - 1) false ++ [true] := by
  induction ps with
  | nil => exact absurd rfl hne
  | cons q t ih =>
    cases t with
    | nil => simp [setMarkerLast]
    | cons q2 t2 =>
      have := ih (by simp) (fun x hx => h x (by simp [hx]))
      simp only [setMarkerLast, List.map_cons, List.length_cons] at this ⊢
      rw [this, h q (by simp)]
      simp [List.replicate_succ]

/-- **C06 marker**: on the last packet of the temporal unit and on no other. -/
theorem c06_marker_only_last (e : Enc) (obus : List Bytes) (hc : ValidCfg e.cfg) :
    (encode e obus).2.map (·.marker) = List.replicate ((encode e obus).2.length - 1) false ++ [true] := by
  obtain ⟨st, hst, _, _, hp⟩ := encode_eq e obus
  obtain ⟨_, hall⟩ := pre_ok e obus hc st hst
  rw [hp, setMarkerLast_length]
  apply setMarkerLast_markers
  · split
    · intro h; have := congrArg List.length h; simp [setN_length] at this
    · simp
  · intro p hp; exact (hall p hp).2.2.2

/-! ## C08 -/

def Clean (d : Dec) : Prop :=
  d.fragments = [] ∧ d.fragmentsSize = 0 ∧ d.frameBuffer = [] ∧ d.frameBufferLen = 0 ∧ d.frameBufferSize = 0

instance (d : Dec) : Decidable (Clean d) := by unfold Clean; infer_instance

theorem c08_inv_init (P : Nat) : Inv P {} := ⟨rfl, by simp, rfl, rfl, by simp, by simp⟩

/-- **C08**: the invariant is preserved by `Decode` on EVERY packet (any payload bytes, sequence
number, timestamp, marker) of payload size ≤ `P`. -/
theorem c08_inv_decode (P : Nat) (d : Dec) (p : Pkt) (hi : Inv P d) (hp : p.payload.length ≤ P) :
    Inv P (decode d p).1 := inv_decode P d p hi hp

/-- **C08 bounded memory**: the fragment list holds at most `MaxTemporalUnitSize` + one packet, the
frame buffer at most `MaxTemporalUnitSize` (the code caps the two separately). -/
theorem c08_retained_le (P : Nat) (d : Dec) (hi : Inv P d) :
    retained d ≤ 2 * CodecAv1vp.av1MaxTemporalUnitSize + P := by
  unfold retained
  rw [← hi.frag_eq, ← hi.fb_eq]
  have := hi.frag_le
  have := hi.fb_le
  omega

/-- **C08 output bound**: no returned temporal unit exceeds `MaxOBUsPerTemporalUnit` OBUs or
`MaxTemporalUnitSize` bytes. -/
theorem c08_out_le (P : Nat) (d : Dec) (p : Pkt) (f : List Bytes) (hi : Inv P d) (h : (decode d p).2 = .ok f) :
    f.length ≤ CodecAv1vp.av1MaxOBUsPerTemporalUnit ∧ totalLen f ≤ CodecAv1vp.av1MaxTemporalUnitSize :=
  out_le P d p f hi h

/-- **C08 totality**: the element loop of `decodeOBUs` never runs out of fuel — any larger amount
gives the same answer, for every payload. -/
theorem c08_parse_total (w extra : Nat) (payload : Bytes) (acc : List Bytes) :
    parseObus w (payload.length + extra) payload acc = parseObus w payload.length payload acc := by
  induction extra with
  | zero => rfl
  | succ k ih => rw [← ih, ← Nat.add_assoc]; exact parseObus_fuel w _ payload acc (by omega)

end Rtsp.Codec.Av1
