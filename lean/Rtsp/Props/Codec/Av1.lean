import Rtsp.Proofs.Codec.Av1Resync
/-
Property theorems for pkg/format/rtpav1 (encoder.go, decoder.go, as repaired by the two `fix:`
commits) with mediacommon's LEB128, about the model in `Model/Codec/Av1.lean`.

  C06  c06_payload_le, c06_seq_consecutive, c06_seq_many, c06_pt_ssrc, c06_marker_only_last, c06_encode_total
  C08  c08_inv_init, c08_inv_decode, c08_retained_le, c08_fragment_count_le, c08_out_le, c08_parse_total
  C03  c03_roundtrip, c03_roundtrip_many, c03_roundtrip_list
  C07  c07_flush (from ANY state, no invariant needed), c07_resync

All statements quantify over every temporal unit (any number of OBUs of any size, empty ones
included, where validity is not assumed), payload limit, sequence number, packet and history.
-/
namespace Rtsp.Codec.Av1
open Rtsp.Rtp Rtsp.Facts Rtsp.Codec.Av1Vp

/-! ## C06 -/

/-- the packets of one `Encode` before the N bit and the marker are set, and the loop state -/
theorem encode_eq (e : Enc) (obus : List Bytes) :
    ∃ st, st = encObus e.cfg (lebSize e.cfg.max) obus { done := [], cur := { z := false, seq := e.seq }, nextSeq := e.seq + 1 } ∧
      (encode e obus).1.seq = st.nextSeq ∧ (encode e obus).1.cfg = e.cfg ∧
      (encode e obus).2 = setMarkerLast (if isRandomAccess obus then setN (st.done ++ [mkPkt e.cfg st.cur false])
                                          else st.done ++ [mkPkt e.cfg st.cur false]) :=
  ⟨_, rfl, rfl, rfl, rfl⟩

theorem pre_ok (e : Enc) (obus : List Bytes) (hc : ValidCfg e.cfg) (st : St)
    (hst : st = encObus e.cfg (lebSize e.cfg.max) obus { done := [], cur := { z := false, seq := e.seq }, nextSeq := e.seq + 1 }) :
    StInv e.cfg e.seq st ∧
    ∀ p ∈ (if isRandomAccess obus then setN (st.done ++ [mkPkt e.cfg st.cur false]) else st.done ++ [mkPkt e.cfg st.cur false]),
      p.payload.length ≤ e.cfg.max ∧ p.pt = e.cfg.pt ∧ p.ssrc = e.cfg.ssrc ∧ p.marker = false := by
  have hinv : StInv e.cfg e.seq st := by rw [hst]; exact encObus_inv _ hc _ _ _ (st0_inv _ hc _)
  refine ⟨hinv, ?_⟩
  have hall : ∀ p ∈ st.done ++ [mkPkt e.cfg st.cur false],
      p.payload.length ≤ e.cfg.max ∧ p.pt = e.cfg.pt ∧ p.ssrc = e.cfg.ssrc ∧ p.marker = false := by
    intro p hp
    simp only [List.mem_append, List.mem_singleton] at hp
    rcases hp with hp | hp
    · exact hinv.done_ok p hp
    · subst hp; rw [mkPkt_payload_length]; exact ⟨hinv.cur_le, rfl, rfl, rfl⟩
  split
  · exact setN_ok _ _ hall
  · exact hall

/-- **C06 size clause**: every payload (aggregation header and length prefixes included) is at most
`PayloadMaxSize`, for every temporal unit — OBUs below, at and above the limit, any number of them. -/
theorem c06_payload_le (e : Enc) (obus : List Bytes) (hc : ValidCfg e.cfg) :
    ∀ p ∈ (encode e obus).2, p.payload.length ≤ e.cfg.max := by
  obtain ⟨st, hst, _, _, hp⟩ := encode_eq e obus
  obtain ⟨_, hall⟩ := pre_ok e obus hc st hst
  rw [hp]
  intro p hpm
  exact (setMarkerLast_ok e.cfg _ (fun x hx => ⟨(hall x hx).1, (hall x hx).2.1, (hall x hx).2.2.1⟩) p hpm).1

/-- **C06 payload type and SSRC**. -/
theorem c06_pt_ssrc (e : Enc) (obus : List Bytes) (hc : ValidCfg e.cfg) :
    ∀ p ∈ (encode e obus).2, p.pt = e.cfg.pt ∧ p.ssrc = e.cfg.ssrc := by
  obtain ⟨st, hst, _, _, hp⟩ := encode_eq e obus
  obtain ⟨_, hall⟩ := pre_ok e obus hc st hst
  rw [hp]
  intro p hpm
  exact (setMarkerLast_ok e.cfg _ (fun x hx => ⟨(hall x hx).1, (hall x hx).2.1, (hall x hx).2.2.1⟩) p hpm).2

/-- **C06 numbering, one call**: `seq, seq+1, …` (mod 2^16) and the encoder continues after them. -/
theorem c06_seq_consecutive (e : Enc) (obus : List Bytes) (hc : ValidCfg e.cfg) :
    (encode e obus).2.map (·.seq) = seqFrom e.seq (encode e obus).2.length ∧
    (encode e obus).1.seq = e.seq + UInt16.ofNat (encode e obus).2.length ∧ (encode e obus).1.cfg = e.cfg := by
  obtain ⟨st, hst, hs, hcfg, hp⟩ := encode_eq e obus
  obtain ⟨hinv, _⟩ := pre_ok e obus hc st hst
  have hlen : (encode e obus).2.length = st.done.length + 1 := by
    rw [hp, setMarkerLast_length]; split <;> simp [setN_length]
  have hseq : (encode e obus).2.map (·.seq) = st.done.map (·.seq) ++ [st.cur.seq] := by
    rw [hp, setMarkerLast_map_seq]; split <;> simp [setN_map_seq, mkPkt]
  refine ⟨?_, ?_, hcfg⟩
  · rw [hseq, hlen]; exact hinv.seqs
  · rw [hs, hlen]; exact hinv.next

/-- a series of `Encode` calls through the same encoder -/
def encodeMany (e : Enc) : List (List Bytes) → Enc × List Pkt
  | [] => (e, [])
  | f :: fs =>
    let (e1, ps) := encode e f
    let (e2, qs) := encodeMany e1 fs
    (e2, ps ++ qs)

/-- **C06 numbering, any series of calls, any initial value (incl. wrap inside the run)**. -/
theorem c06_seq_many (e : Enc) (fs : List (List Bytes)) (hc : ValidCfg e.cfg) :
    (encodeMany e fs).2.map (·.seq) = seqFrom e.seq (encodeMany e fs).2.length ∧
    (encodeMany e fs).1.seq = e.seq + UInt16.ofNat (encodeMany e fs).2.length := by
  induction fs generalizing e with
  | nil => simp [encodeMany, seqFrom]
  | cons f fs ih =>
    obtain ⟨h1, h2, h5⟩ := c06_seq_consecutive e f hc
    obtain ⟨h3, h4⟩ := ih (encode e f).1 (by rw [h5]; exact hc)
    simp only [encodeMany, List.map_append, List.length_append]
    refine ⟨?_, ?_⟩
    · rw [seqFrom_append, h1, h3, h2]
    · rw [h4, h2]
      apply UInt16.toNat_inj.mp
      simp [UInt16.toNat_add, UInt16.toNat_ofNat']
      omega

theorem setMarkerLast_markers (ps : List Pkt) (hne : ps ≠ []) (h : ∀ p ∈ ps, p.marker = false) :
    (setMarkerLast ps).map (·.marker) = List.replicate (ps.length - 1) false ++ [true] := by
  induction ps with
  | nil => exact absurd rfl hne
  | cons q t ih =>
    cases t with
    | nil => simp [setMarkerLast]
    | cons q2 t2 =>
      have := ih (by simp) (fun x hx => h x (by simp [hx]))
      simp only [setMarkerLast, List.map_cons, List.length_cons] at this ⊢
      rw [this, h q (by simp)]
      simp [List.replicate_succ]

/-- **C06 marker**: on the last packet of the temporal unit and on no other. -/
theorem c06_marker_only_last (e : Enc) (obus : List Bytes) (hc : ValidCfg e.cfg) :
    (encode e obus).2.map (·.marker) = List.replicate ((encode e obus).2.length - 1) false ++ [true] := by
  obtain ⟨st, hst, _, _, hp⟩ := encode_eq e obus
  obtain ⟨_, hall⟩ := pre_ok e obus hc st hst
  rw [hp, setMarkerLast_length]
  apply setMarkerLast_markers
  · split
    · intro h; have := congrArg List.length h; simp [setN_length] at this
    · simp
  · intro p hp; exact (hall p hp).2.2.2

/-- **C06 / C03 totality of the encoder loop**: for a limit ≥ 3 and a non-empty OBU the inner
`for { … }` of `Encode` terminates — the model's fuel `len(obu) + 2` is never exhausted: any larger
amount gives the same packets. (With a limit of 1 or 2 the Go loop does not terminate.) -/
theorem c06_encode_total (c : EncCfg) (hc : ValidCfg c) (last : Bool) (st : St) (obu : Bytes) (extra : Nat)
    (hroom : 1 + st.cur.body.length ≤ c.max) (hpos : 0 < obu.length) :
    obuLoop c (lebSize c.max) last (obu.length + 2 + extra) st obu
      = obuLoop c (lebSize c.max) last (obu.length + 2) st obu := by
  induction extra with
  | zero => rfl
  | succ k ih =>
    rw [← ih, ← Nat.add_assoc]
    exact obuLoop_fuel c hc last _ st obu hroom hpos (by split <;> omega)

/-! ## C08 -/

theorem c08_inv_init (P : Nat) : Inv P {} := ⟨rfl, by simp, rfl, rfl, by simp, by simp, by simp⟩

/-- **C08**: the invariant is preserved by `Decode` on EVERY packet (any payload bytes, sequence
number, timestamp, marker) of payload size ≤ `P`. -/
theorem c08_inv_decode (P : Nat) (d : Dec) (p : Pkt) (hi : Inv P d) (hp : p.payload.length ≤ P) :
    Inv P (decode d p).1 := inv_decode P d p hi hp

/-- **C08 bounded memory**: the fragment list holds at most `MaxTemporalUnitSize` + one packet, the
frame buffer at most `MaxTemporalUnitSize` (the code caps the two separately). -/
theorem c08_retained_le (P : Nat) (d : Dec) (hi : Inv P d) :
    retained d ≤ 2 * CodecAv1vp.av1MaxTemporalUnitSize + P := by
  unfold retained
  rw [← hi.frag_eq, ← hi.fb_eq]
  have := hi.frag_le
  have := hi.fb_le
  omega

/-- **C08 bounded number of retained slices**: every retained fragment is non-empty (an element of
size 0 is refused by the element loop), so there are never more fragments than fragment bytes, and
the frame buffer never holds more than `MaxOBUsPerTemporalUnit` OBUs. -/
theorem c08_fragment_count_le (P : Nat) (d : Dec) (hi : Inv P d) :
    d.fragments.length ≤ CodecAv1vp.av1MaxTemporalUnitSize + P ∧
    d.frameBuffer.length ≤ CodecAv1vp.av1MaxOBUsPerTemporalUnit := by
  have h1 := length_le_totalLen d.fragments hi.frag_ne
  have h2 := hi.frag_le
  rw [hi.frag_eq] at h2
  exact ⟨by omega, by rw [← hi.fb_len]; exact hi.fb_cnt⟩

/-- **C08 output bound**: no returned temporal unit exceeds `MaxOBUsPerTemporalUnit` OBUs or
`MaxTemporalUnitSize` bytes. -/
theorem c08_out_le (P : Nat) (d : Dec) (p : Pkt) (f : List Bytes) (hi : Inv P d) (h : (decode d p).2 = .ok f) :
    f.length ≤ CodecAv1vp.av1MaxOBUsPerTemporalUnit ∧ totalLen f ≤ CodecAv1vp.av1MaxTemporalUnitSize :=
  out_le P d p f hi h

/-- **C08 totality**: the element loop of `decodeOBUs` never runs out of fuel — any larger amount
gives the same answer, for every payload. -/
theorem c08_parse_total (w extra : Nat) (payload : Bytes) (acc : List Bytes) :
    parseObus w (payload.length + extra) payload acc = parseObus w payload.length payload acc := by
  induction extra with
  | zero => rfl
  | succ k ih => rw [← ih, ← Nat.add_assoc]; exact parseObus_fuel w _ payload acc (by omega)

/-! ## C03 -/

/-- **C03 round trip**: for every valid configuration (limit ≥ 3), every valid temporal unit (1..10
non-empty OBUs, ≤ 3 MiB: every mix of aggregated, fragmented, length-prefixed and W-counted
elements) and every clean decoder, the decoder answers "more packets needed" on all packets but the
last, returns exactly the OBUs — same units, same bytes, same grouping — at the last one, and is
clean again afterwards.  (False for the encoder before the repair: `[1447 B, 100 B]` at limit 1450.) -/
theorem c03_roundtrip (e : Enc) (obus : List Bytes) (d : Dec) (hc : ValidCfg e.cfg) (hf : ValidFrame obus)
    (hd : Clean d) :
    ∃ d', runDec d (encode e obus).2
        = (d', List.replicate ((encode e obus).2.length - 1) .more ++ [.ok obus]) ∧ Clean d' :=
  roundtrip e obus d hc hf hd

/-- **C03, consecutive temporal units** through the same encoder / decoder pair (two units; induction
gives any number). -/
theorem c03_roundtrip_many (e : Enc) (f g : List Bytes) (d : Dec) (hc : ValidCfg e.cfg)
    (hf : ValidFrame f) (hg : ValidFrame g) (hd : Clean d) :
    let e1 := (encode e f).1
    ∃ d', runDec d ((encode e f).2 ++ (encode e1 g).2)
        = (d', (List.replicate ((encode e f).2.length - 1) .more ++ [.ok f]) ++
               (List.replicate ((encode e1 g).2.length - 1) .more ++ [.ok g])) ∧ Clean d' := by
  intro e1
  obtain ⟨d1, hr1, hc1⟩ := roundtrip e f d hc hf hd
  have hcfg : ValidCfg e1.cfg := by rw [(c06_seq_consecutive e f hc).2.2]; exact hc
  obtain ⟨d2, hr2, hc2⟩ := roundtrip e1 g d1 hcfg hg hc1
  refine ⟨d2, ?_, hc2⟩
  rw [runDec_append, hr1]
  simp only [hr2]

/-- **C03, any series of temporal units** through the same encoder / decoder pair: the decoder
returns exactly the units, in order, answers "more packets needed" everywhere else (no error of any
kind) and ends clean — for every number of units and every initial sequence number. -/
theorem c03_roundtrip_list (e : Enc) (fs : List (List Bytes)) (d : Dec) (hc : ValidCfg e.cfg)
    (hf : ∀ f ∈ fs, ValidFrame f) (hd : Clean d) :
    Clean (runDec d (encodeMany e fs).2).1 ∧ okFrames (runDec d (encodeMany e fs).2).2 = fs ∧
    OnlyMoreOk (runDec d (encodeMany e fs).2).2 := by
  induction fs generalizing e d with
  | nil => exact ⟨by simpa [encodeMany, runDec] using hd, rfl, by intro r hr; simp [encodeMany, runDec] at hr⟩
  | cons f fs ih =>
    obtain ⟨d1, hr1, hc1⟩ := roundtrip e f d hc (hf f (by simp)) hd
    have hcfg : ValidCfg (encode e f).1.cfg := by rw [(c06_seq_consecutive e f hc).2.2]; exact hc
    obtain ⟨g1, g2, g3⟩ := ih (encode e f).1 d1 hcfg (fun x hx => hf x (by simp [hx])) hc1
    simp only [encodeMany, runDec_append, hr1]
    refine ⟨g1, ?_, ?_⟩
    · rw [okFrames_append, okFrames_frame, g2]; rfl
    · exact onlyMoreOk_append _ _ (onlyMoreOk_frame _ _) g3

/-! ## C07 -/

/-- **C07 flush**: from ANY decoder state — stale fragments of a lost OBU, a frame buffer left
behind by a lost marker packet, any expected sequence number; no invariant is needed — the packets
of one intact valid temporal unit, in order, leave the decoder clean (whatever it returned
meanwhile).  (False for the decoder before the repair: stale fragments survived a Z = 0 packet.) -/
theorem c07_flush (e : Enc) (obus : List Bytes) (D : Dec) (hc : ValidCfg e.cfg) (hf : ValidFrame obus) :
    Clean (runDec D (encode e obus).2).1 := flush e obus D hc hf

/-- **C07 resynchronisation**: after ANY packet history `h` (arbitrary packets: every loss /
duplication / reordering pattern applied to any stream is such a history), an intact temporal unit
`f` followed by an intact temporal unit `g` ends with exactly `g`, returned at `g`'s last packet and
not before. -/
theorem c07_resync (h : List Pkt) (e : Enc) (f g : List Bytes) (hc : ValidCfg e.cfg)
    (hf : ValidFrame f) (hg : ValidFrame g) :
    let d0 := (runDec {} h).1
    let e1 := (encode e f).1
    ∃ d', runDec (runDec d0 (encode e f).2).1 (encode e1 g).2
        = (d', List.replicate ((encode e1 g).2.length - 1) .more ++ [.ok g]) ∧ Clean d' := by
  intro d0 e1
  have hclean := flush e f d0 hc hf
  have hcfg : ValidCfg e1.cfg := by rw [(c06_seq_consecutive e f hc).2.2]; exact hc
  exact roundtrip e1 g _ hcfg hg hclean

/-! ## non-vacuity -/

/-- limit 8, sequence numbers wrapping: a 5-byte OBU (length-prefixed, aggregated), a 9-byte OBU
(does not fit the one byte left: packet closed without Y — the repaired path —, then fragmented
with length prefix and continued with Z), a 1-byte last OBU (W-counted, no length) -/
def exEnc : Enc := { cfg := { pt := 96, ssrc := 7, max := 8 }, seq := 65535 }
def exTU : List Bytes := [[0x0a, 1, 2, 3, 4], [10, 11, 12, 13, 14, 15, 16, 17, 18], [0x32]]

example : ValidCfg exEnc.cfg ∧ ValidFrame exTU ∧ Clean {} := by decide
example : (encode exEnc exTU).2.map (·.payload) =
    [[0x08, 5, 0x0a, 1, 2, 3, 4], [0x40, 6, 10, 11, 12, 13, 14, 15], [0xa0, 3, 16, 17, 18, 0x32]] := by decide
example : (encode exEnc exTU).2.map (·.seq) = [65535, 0, 1] := by decide
example : (runDec {} (encode exEnc exTU).2).2 = [.more, .more, .ok exTU] := by decide
/-- the shape on which the unrepaired encoder failed: nothing of the second OBU fits the first packet -/
example : (runDec {} (encode { exEnc with cfg := { exEnc.cfg with max := 20 } } [List.replicate 17 1, [2, 3, 4, 5]]).2).2
    = [.more, .ok [List.replicate 17 1, [2, 3, 4, 5]]] := by decide
/-- a dirty state: stale fragments, stale frame buffer, wrong expected sequence number — the unit
still leaves the decoder clean, and the next unit comes back exactly -/
def exDirty : Dec := { fragments := [[1, 2], [3]], fragmentsSize := 3, nextSeq := 77, frameBuffer := [[9]],
                       frameBufferLen := 1, frameBufferSize := 1 }
example : Clean (runDec exDirty (encode exEnc exTU).2).1 := by decide
example : (runDec (runDec exDirty (encode exEnc exTU).2).1 (encode (encode exEnc exTU).1 exTU).2).2
    = [.more, .more, .ok exTU] := by decide
example : Inv 1500 { fragments := [[1, 2], [3]], fragmentsSize := 3, nextSeq := 77, frameBuffer := [[9]],
                     frameBufferLen := 1, frameBufferSize := 1 } := ⟨by decide, by decide, by decide, by decide, by decide, by decide, by decide⟩

end Rtsp.Codec.Av1
