import Rtsp.Proofs.Codec.H265Rt
/-
Property theorems for pkg/format/rtph265: round trip (C03) and resynchronisation (C07).

  C03  c03_encode_eq, c03_roundtrip, c03_roundtrip_many
  C07  c07_flush, c07_resync, c07_ok_only_at_marker

The H265 decoder has no timestamp flush: the marker alone ends an access unit, so the flush theorem
holds from ANY state at full strength.
-/
namespace Rtsp.Codec.H265
open Rtsp.Rtp Rtsp.Codec.H26x Rtsp.Facts

/-- nothing pending: no partial NALU, no buffered access unit -/
def Clean (d : Dec) : Prop :=
  d.fragments = [] ∧ d.fragmentsSize = 0 ∧ d.frameBuffer = [] ∧ d.frameBufferLen = 0 ∧
  d.frameBufferSize = 0

instance (d : Dec) : Decidable (Clean d) := by unfold Clean; infer_instance

/-! ## helpers about the batches of a valid frame -/

theorem totalLen_le_flatten (bs : List (List Bytes)) (b : List Bytes) (h : b ∈ bs) :
    totalLen b ≤ totalLen bs.flatten := by
  induction bs with
  | nil => simp at h
  | cons x xs ih =>
    simp only [List.mem_cons] at h
    simp only [List.flatten_cons, totalLen_append]
    rcases h with h | h
    · subst h; omega
    · have := ih h; omega

theorem goodBatches (c : EncCfg) (au : List Bytes) (hf : ValidFrame au) :
    ∀ b ∈ splitBatches 2 c.max [] au, GoodBatch c.max b := by
  obtain ⟨hne, _, hsz, hv⟩ := hf
  have hflat := splitBatches_flatten 2 c.max [] au
  simp only [List.nil_append] at hflat
  intro b hb
  refine ⟨splitBatches_nonempty 2 c.max [] au (Or.inr hne) b hb, ?_,
    splitBatches_ok 2 c.max [] au (Or.inl (by simp)) b hb, ?_⟩
  · intro n hn
    apply hv
    rw [← hflat]
    exact List.mem_flatten.mpr ⟨b, hb, hn⟩
  · have := totalLen_le_flatten _ b hb
    rw [hflat] at this
    omega

theorem good_two (c : EncCfg) (bs : List (List Bytes)) (hb : ∀ b ∈ bs, GoodBatch c.max b) :
    ∀ b ∈ bs, ∀ n ∈ b, 2 ≤ n.length :=
  fun b hb' n hn => ((hb b hb').valid n hn).1

theorem wb_length_pos (c : EncCfg) (hc : ValidCfg c) (b : List Bytes) (m : Bool)
    (hb : GoodBatch c.max b) : 0 < (wb c.max b m).length := by
  obtain ⟨its, k, h1, h2⟩ := writeBatch_markers c.max b m hc.1 (fun n hn => (hb.valid n hn).1)
  rw [writeBatch_eq c.max b m (fun n hn => (hb.valid n hn).1)] at h1
  simp only [Option.some.injEq] at h1
  subst h1
  have := congrArg List.length h2
  simp at this; omega

theorem wbs_length_pos (c : EncCfg) (hc : ValidCfg c) (bs : List (List Bytes)) (hne : bs ≠ [])
    (hb : ∀ b ∈ bs, GoodBatch c.max b) : 0 < (wbs c.max bs).length := by
  obtain ⟨_, k, hk⟩ := writeBatches_markers c.max bs hc.1 hne (good_two c bs hb)
  rw [writeBatches_eq c.max bs (good_two c bs hb)] at hk
  have := congrArg List.length hk
  simp at this; omega

theorem collect_of_fbPart (acc : List Bytes) (d d1 : Dec) (h : fbPart d1 = fbPart d)
    (hc : Collect acc d) : Collect acc d1 := by
  simp only [fbPart, Prod.mk.injEq] at h
  obtain ⟨h1, h2, h3⟩ := h
  exact ⟨by rw [h1]; exact hc.1, by rw [h2]; exact hc.2, by rw [h3]; exact hc.3⟩

/-! ## C03 — decoding the encoder's packets returns the original access unit -/

/-- for a valid frame the encoder succeeds and its packets are the numbered items of the batches -/
theorem c03_encode_eq (e : Enc) (au : List Bytes) (hf : ValidFrame au) :
    (encode e au).2 = some (number e.cfg e.seq (wbs e.cfg.max (splitBatches 2 e.cfg.max [] au))) ∧
    (encode e au).1 = { e with seq := e.seq + UInt16.ofNat (wbs e.cfg.max (splitBatches 2 e.cfg.max [] au)).length } := by
  have := writeBatches_eq e.cfg.max (splitBatches 2 e.cfg.max [] au)
    (good_two e.cfg _ (goodBatches e.cfg au hf))
  simp only [encode, encodeItems, this, if_true]
  exact ⟨trivial, trivial⟩

/-- the packets of a valid frame (`[]` cannot occur, see `c03_encode_eq`) -/
def pkts (e : Enc) (au : List Bytes) : List Pkt := ((encode e au).2).getD []

theorem pkts_eq (e : Enc) (au : List Bytes) (hf : ValidFrame au) :
    pkts e au = number e.cfg e.seq (wbs e.cfg.max (splitBatches 2 e.cfg.max [] au)) := by
  simp [pkts, (c03_encode_eq e au hf).1]

theorem batches_run (c : EncCfg) (ts : UInt32) (hc : ValidCfg c) (bs : List (List Bytes)) (hne : bs ≠ [])
    (hb : ∀ b ∈ bs, GoodBatch c.max b) (acc : List Bytes) (d : Dec) (sq : UInt16)
    (hcol : Collect acc d)
    (hl : acc.length + bs.flatten.length ≤ maxNALUs) (hs : totalLen acc + totalLen bs.flatten ≤ maxAU) :
    ∃ d', runDec d (stamp ts (number c sq (wbs c.max bs))) =
        (d', List.replicate ((wbs c.max bs).length - 1) .more ++ [.ok (acc ++ bs.flatten)]) ∧
      Clean d' := by
  induction bs generalizing acc d sq with
  | nil => exact absurd rfl hne
  | cons b rest ih =>
    have hgb := hb b (by simp)
    cases rest with
    | nil =>
      obtain ⟨d1, f1, f2, f3, hrun⟩ := batch_run c ts hc b true d sq hgb
      have hcol1 := collect_of_fbPart acc d d1 f3 hcol
      simp only [List.flatten_cons, List.flatten_nil, List.append_nil] at hl hs
      obtain ⟨r1, r2, r3⟩ := addNALUs_collect d1 b acc true hcol1 hl hs
      refine ⟨(addNALUs d1 b true).1, ?_, ?_⟩
      · simp only [wbs, hrun, r1, if_true, List.flatten_cons, List.flatten_nil, List.append_nil]
      · simp only [fragPart, Prod.mk.injEq] at r3
        simp only [if_true] at r2
        exact ⟨by rw [r3.1]; exact f1, by rw [r3.2.1]; exact f2, r2.1, by simpa using r2.2,
          by simpa using r2.3⟩
    | cons b2 rest2 =>
      obtain ⟨d1, f1, f2, f3, hrun⟩ := batch_run c ts hc b false d sq hgb
      have hcol1 := collect_of_fbPart acc d d1 f3 hcol
      simp only [List.flatten_cons, List.length_append, totalLen_append] at hl hs
      obtain ⟨r1, r2, r3⟩ := addNALUs_collect d1 b acc false hcol1 (by omega) (by omega)
      simp only [Bool.false_eq_true, if_false] at r1 r2
      obtain ⟨d', hrun2, hclean⟩ := ih (by simp) (fun x hx => hb x (by simp [hx])) (acc ++ b)
        (addNALUs d1 b false).1 (sq + UInt16.ofNat (wb c.max b false).length) r2
        (by simp only [List.flatten_cons, List.length_append]; omega)
        (by simp only [List.flatten_cons, totalLen_append]; omega)
      refine ⟨d', ?_, hclean⟩
      have hp1 := wb_length_pos c hc b false hgb
      have hp2 := wbs_length_pos c hc (b2 :: rest2) (by simp) (fun x hx => hb x (by simp [hx]))
      simp only [wbs, number_append, stamp_append, runDec_append, hrun, hrun2, r1,
        List.length_append, List.flatten_cons, List.append_assoc]
      congr 1
      rw [← List.append_assoc, ← List.append_assoc]
      congr 1
      rw [show ([DecRes.more] : List (DecRes (List Bytes))) = List.replicate 1 .more from rfl,
        List.replicate_append_replicate, List.replicate_append_replicate]
      congr 1
      omega

/-- **C03 round trip**: for every valid configuration, every valid access unit, every timestamp
and every clean decoder, the decoder answers "more packets needed" on all packets but the last,
returns exactly the access unit at the last one, and is clean again afterwards. -/
theorem c03_roundtrip (e : Enc) (au : List Bytes) (ts : UInt32) (d : Dec)
    (hc : ValidCfg e.cfg) (hf : ValidFrame au) (hd : Clean d) :
    ∃ d', runDec d (stamp ts (pkts e au))
        = (d', List.replicate ((pkts e au).length - 1) .more ++ [.ok au]) ∧ Clean d' := by
  obtain ⟨c1, c2, c3, c4, c5⟩ := hd
  have hflat := splitBatches_flatten 2 e.cfg.max [] au
  simp only [List.nil_append] at hflat
  obtain ⟨d', hrun, hclean⟩ := batches_run e.cfg ts hc (splitBatches 2 e.cfg.max [] au)
    (splitBatches_ne_nil _ _ _ _) (goodBatches e.cfg au hf) [] d e.seq
    ⟨c3, by simpa using c4, by simpa using c5⟩
    (by rw [hflat]; simpa using hf.2.1) (by rw [hflat]; simpa using hf.2.2.1)
  refine ⟨d', ?_, hclean⟩
  rw [pkts_eq e au hf, number_length, hrun, hflat]
  simp

/-- a stream: consecutive access units through the same encoder, each with its own timestamp -/
def stream (e : Enc) : List (UInt32 × List Bytes) → List Pkt
  | [] => []
  | (ts, au) :: fs => stamp ts (pkts e au) ++ stream (encode e au).1 fs

def expected (e : Enc) : List (UInt32 × List Bytes) → List (DecRes (List Bytes))
  | [] => []
  | (_, au) :: fs =>
    List.replicate ((pkts e au).length - 1) .more ++ [.ok au] ++ expected (encode e au).1 fs

/-- **C03, consecutive frames** through the same encoder / decoder pair. -/
theorem c03_roundtrip_many (e : Enc) (fs : List (UInt32 × List Bytes)) (d : Dec)
    (hc : ValidCfg e.cfg) (hf : ∀ f ∈ fs, ValidFrame f.2) (hd : Clean d) :
    ∃ d', runDec d (stream e fs) = (d', expected e fs) ∧ Clean d' := by
  induction fs generalizing e d with
  | nil => exact ⟨d, rfl, hd⟩
  | cons f fs ih =>
    obtain ⟨ts, au⟩ := f
    obtain ⟨d1, h1, hc1⟩ := c03_roundtrip e au ts d hc (hf (ts, au) (by simp)) hd
    obtain ⟨d2, h2, hc2⟩ := ih (encode e au).1 d1
      (by rw [(c03_encode_eq e au (hf (ts, au) (by simp))).2]; exact hc)
      (fun x hx => hf x (by simp [hx])) hc1
    refine ⟨d2, ?_, hc2⟩
    simp only [stream, expected, runDec_append, h1, h2]

/-! ## C07 — resynchronisation: one intact frame from ANY state leaves the decoder clean -/

theorem flush_run (c : EncCfg) (ts : UInt32) (hc : ValidCfg c) (bs : List (List Bytes)) (hne : bs ≠ [])
    (hb : ∀ b ∈ bs, GoodBatch c.max b) (d : Dec) (sq : UInt16) :
    Clean (runDec d (stamp ts (number c sq (wbs c.max bs)))).1 := by
  induction bs generalizing d sq with
  | nil => exact absurd rfl hne
  | cons b rest ih =>
    have hgb := hb b (by simp)
    cases rest with
    | nil =>
      obtain ⟨d1, f1, f2, f3, hrun⟩ := batch_run c ts hc b true d sq hgb
      obtain ⟨m1, m2, m3⟩ := addNALUs_marker_clears d1 b
      have hfp := addNALUs_fragPart d1 b true
      simp only [fragPart, Prod.mk.injEq] at hfp
      simp only [wbs, hrun]
      exact ⟨by rw [hfp.1]; exact f1, by rw [hfp.2.1]; exact f2, m1, m2, m3⟩
    | cons b2 rest2 =>
      simp only [wbs, number_append, stamp_append, runDec_append]
      exact ih (by simp) (fun x hx => hb x (by simp [hx])) _ _

/-- **C07 flush**: from ANY state (no invariant needed — whatever was lost, duplicated or reordered
before), the packets of one intact valid frame, in order, leave the decoder clean. -/
theorem c07_flush (e : Enc) (au : List Bytes) (ts : UInt32) (d : Dec)
    (hc : ValidCfg e.cfg) (hf : ValidFrame au) :
    Clean (runDec d (stamp ts (pkts e au))).1 := by
  rw [pkts_eq e au hf]
  exact flush_run e.cfg ts hc _ (splitBatches_ne_nil _ _ _ _) (goodBatches e.cfg au hf) d e.seq

/-- **C07 resynchronisation**: after ANY packet history `h` (arbitrary packets: this subsumes every
loss / duplication / reordering pattern applied to any stream), an intact frame `f` followed by an
intact frame `g` ends with exactly `g`, returned at `g`'s last packet and not before. -/
theorem c07_resync (h : List Pkt) (e : Enc) (f g : List Bytes) (tf tg : UInt32)
    (hc : ValidCfg e.cfg) (hf : ValidFrame f) (hg : ValidFrame g) :
    let d0 := (runDec {} h).1
    let e1 := (encode e f).1
    ∃ d', runDec (runDec d0 (stamp tf (pkts e f))).1 (stamp tg (pkts e1 g))
        = (d', List.replicate ((pkts e1 g).length - 1) .more ++ [.ok g]) ∧ Clean d' := by
  intro d0 e1
  have hclean := c07_flush e f tf d0 hc hf
  have hc1 : ValidCfg e1.cfg := by
    show ValidCfg (encode e f).1.cfg
    rw [(c03_encode_eq e f hf).2]; exact hc
  exact c03_roundtrip e1 g tg _ hc1 hg hclean

/-- **C07 "exactly once"**: an access unit is returned only at a packet that carries the marker, and
the buffer is empty afterwards (it cannot be returned again). -/
theorem c07_ok_only_at_marker (d : Dec) (p : Pkt) (f : List Bytes) (h : (decode d p).2 = .ok f) :
    p.marker = true ∧ (decode d p).1.frameBuffer = [] := by
  unfold decode at h ⊢
  split at h
  · simp at h
  · simp at h
  · simp at h
  · rename_i d1 ns heq
    unfold addNALUs at h ⊢
    split at h
    · simp at h
    · rename_i h1
      dsimp only at h ⊢
      split at h
      · simp at h
      · rename_i h2
        split at h
        · simp at h
        · rename_i hm
          simp only [h1, h2, hm, if_false]
          exact ⟨by simpa using hm, by simp [Dec.resetFrameBuffer]⟩

/-! ### the validity predicate is what the code needs (each restriction has a failing frame) -/

def vEnc : Enc := { cfg := { pt := 96, ssrc := 7, max := 14 }, seq := 0 }
def body (k : Nat) : Bytes := (List.range k).map (fun i => UInt8.ofNat (i + 2))

/-- unlike H264, the forbidden_zero_bit survives fragmentation (the FU payload header keeps it) -/
example : (runDec {} (stamp 0 (pkts vEnc [0xa6 :: 0x01 :: body 24]))).2.getLast? = some (.ok [0xa6 :: 0x01 :: body 24]) := by
  decide
/-- `00 00 01` inside a fragmented NALU: `splitNALUs` returns two NALUs -/
example : (runDec {} (stamp 0 (pkts vEnc [0x26 :: 0x01 :: (body 8 ++ [0, 0, 1] ++ body 12)]))).2.getLast?
    = some (.ok [0x26 :: 0x01 :: body 8, body 12]) := by decide
/-- … but not inside a NALU that travels in a single-NALU packet -/
example : (runDec {} (stamp 0 (pkts vEnc [[0x26, 1, 0, 0, 1, 7]]))).2 = [.ok [[0x26, 1, 0, 0, 1, 7]]] := by decide
/-- NALU type 49 (FU) as a single NALU is read as a fragment; type 50 (PACI) is refused -/
example : (runDec {} (stamp 0 (pkts vEnc [[0x62, 0x01, 0x05, 1]]))).2 = [.nonStart] := by decide
example : (runDec {} (stamp 0 (pkts vEnc [[0x64, 0x01, 0x05, 1]]))).2 = [.err] := by decide
/-- a 1-byte NALU next to another one: the encoder refuses the access unit -/
example : (encode vEnc [[0x40, 0x01], [0x42]]).2 = none := by decide

/-! ## non-vacuity -/

def rtEnc : Enc := { cfg := { pt := 96, ssrc := 7, max := 14 }, seq := 65534 }
def rtAU : List Bytes :=
  [[0x40, 0x01, 0x0c], [0x42, 0x01, 0x01], 0x26 :: 0x01 :: (List.range 28).map (fun i => UInt8.ofNat (i + 2)),
   [0x4e, 0x01, 0x05]]

example : ValidCfg rtEnc.cfg ∧ ValidFrame rtAU ∧ Clean {} := by decide
/-- AP, three FU, one single-NALU packet: aggregated and fragmented paths in one frame -/
example : (runDec {} (stamp 5 (pkts rtEnc rtAU))).2 = [.more, .more, .more, .more, .ok rtAU] := by decide
/-- a dirty state (half a NALU, two stale NALUs) is flushed by the frame -/
example : Clean (runDec { fragments := [[0x26, 1], [1, 2, 3]], fragmentsSize := 5, fragmentNextSeqNum := 77,
                          frameBuffer := [[0x40, 1], [0x42, 1, 2]], frameBufferLen := 2, frameBufferSize := 5 }
                  (stamp 5 (pkts rtEnc rtAU))).1 := by decide

end Rtsp.Codec.H265
