import Rtsp.Model.Codec.KlvSlice
import Rtsp.Proofs.Codec.SliceSem
/-
C08 "frames already returned are never altered by later Decode calls" for the KLV decoder, which is
the one decoder that keeps a `[]byte` across calls: stated in slice semantics
(`Model/SliceSem.lean`, `Model/Codec/KlvSlice.lean`).

  c08_slice_refines     the slice-level decoder computes exactly what the value-level model
                        (`Model/Codec/Klv.lean`, the one compared with the real code) computes
  c08_returned_stable   repaired code (buffer handed over): a returned unit reads the same bytes
                        after ANY later packet history, under ANY growth policy of `append`
  c08_original_aliases  original code: the first of two single-packet units is overwritten by the
                        second (the recorded, repaired failure `klv-output-altered`)
-/
namespace Rtsp.Codec.KlvSlice
open Rtsp.Rtp Rtsp.SliceSem Rtsp.Codec.Klv

theorem upTo0_WF (st : Store) (s : Slice) (h : s.WF st) : (s.upTo 0).WF st :=
  ⟨Nat.zero_le _, h.2⟩

theorem read_upTo0 (st : Store) (s : Slice) : st.read (s.upTo 0) = [] := by
  simp [Store.read, Slice.upTo]

theorem read_upTo (st : Store) (s : Slice) (n : Nat) (h : n ≤ s.len) :
    st.read (s.upTo n) = (st.read s).take n := by
  simp only [Store.read, Slice.upTo, List.take_take, Nat.min_eq_left h]

theorem nil_WF (st : Store) : Slice.nil.WF st := ⟨Nat.le_refl _, Or.inl rfl⟩

theorem read_nil (st : Store) : st.read Slice.nil = [] := by simp [Store.read, Slice.nil]

/-- the state after a unit has been returned -/
def afterReturn (handOver : Bool) (d : SDec) : SDec :=
  (if handOver then { d with buf := Slice.nil } else d).reset

theorem afterReturn_abs (ho : Bool) (st : Store) (d : SDec) :
    abs st (afterReturn ho d) = (abs st d).reset := by
  cases ho <;> simp [afterReturn, abs, SDec.reset, Dec.reset, read_upTo0]

theorem afterReturn_WF (ho : Bool) (st : Store) (d : SDec) (h : d.buf.WF st) : (afterReturn ho d).buf.WF st := by
  cases ho
  · exact upTo0_WF st _ h
  · exact upTo0_WF st _ (nil_WF st)

theorem sfinish_marker (ho : Bool) (d : SDec) : sfinish ho d true = (afterReturn ho d, .ok d.buf) := by
  simp [sfinish, afterReturn]

theorem sfinish_early (ho : Bool) (d : SDec) (he : d.expected > 0 ∧ (d.buf.len : Int) ≥ d.expected) :
    sfinish ho d false = (afterReturn ho d, .ok (d.buf.upTo d.expected.toNat)) := by
  simp [sfinish, afterReturn, he]

theorem sfinish_more (ho : Bool) (d : SDec) (he : ¬ (d.expected > 0 ∧ (d.buf.len : Int) ≥ d.expected)) :
    sfinish ho d false = (d, .more) := by
  simp only [sfinish, Bool.false_eq_true, if_false, he]

/-- `sfinish` refines `finish` -/
theorem sfinish_refines (ho : Bool) (st : Store) (d : SDec) (m : Bool) (hwf : d.buf.WF st)
    (d' : SDec) (r : DecRes Slice) (h : sfinish ho d m = (d', r)) :
    finish (abs st d) m = (abs st d', absRes st r) ∧ d'.buf.WF st := by
  have hl : (st.read d.buf).length = d.buf.len := read_length st _ hwf
  have e2 : ((abs st d).buffer.length : Int) = (d.buf.len : Int) := by simp [abs, hl]
  cases m with
  | true =>
    rw [sfinish_marker] at h
    obtain ⟨rfl, rfl⟩ := Prod.mk.inj h
    refine ⟨?_, afterReturn_WF ho st d hwf⟩
    rw [afterReturn_abs]
    simp [finish, absRes, abs]
  | false =>
    by_cases he : d.expected > 0 ∧ (d.buf.len : Int) ≥ d.expected
    · rw [sfinish_early ho d he] at h
      obtain ⟨rfl, rfl⟩ := Prod.mk.inj h
      have he' : (abs st d).expected > 0 ∧ ((abs st d).buffer.length : Int) ≥ (abs st d).expected := by
        rw [e2]; exact he
      refine ⟨?_, afterReturn_WF ho st d hwf⟩
      simp only [finish, Bool.false_eq_true, if_false, he', and_self, if_true, afterReturn_abs, absRes]
      rw [read_upTo st d.buf _ (by omega)]
      rfl
    · rw [sfinish_more ho d he] at h
      obtain ⟨rfl, rfl⟩ := Prod.mk.inj h
      have he' : ¬ ((abs st d).expected > 0 ∧ ((abs st d).buffer.length : Int) ≥ (abs st d).expected) := by
        rw [e2]; exact he
      exact ⟨by simp only [finish, Bool.false_eq_true, if_false, he', absRes], hwf⟩

/-- **refinement**: one `Decode` in slice semantics computes exactly what the value-level model
computes (for the original and for the repaired handling of the buffer), and keeps the buffer
well formed. -/
theorem c08_slice_refines (grow : Nat → Nat → Nat) (ho : Bool) (st : Store) (d : SDec) (p : Pkt)
    (hwf : d.buf.WF st) (st' : Store) (d' : SDec) (r : DecRes Slice)
    (h : sdecode grow ho st d p = (st', d', r)) :
    decode (abs st d) p = (abs st' d', absRes st' r) ∧ d'.buf.WF st' := by
  rw [sdecode] at h
  rw [decode]
  by_cases hgap : d.firstRecv = true ∧ p.seq ≠ d.lastSeq + 1
  · have hgap' : (abs st d).firstRecv = true ∧ p.seq ≠ (abs st d).lastSeq + 1 := hgap
    rw [if_pos hgap] at h
    rw [if_pos hgap']
    simp only [Prod.mk.injEq] at h
    obtain ⟨rfl, rfl, rfl⟩ := h
    exact ⟨by simp [abs, SDec.reset, Dec.reset, read_upTo0, absRes], upTo0_WF st _ hwf⟩
  have hgap' : ¬ ((abs st d).firstRecv = true ∧ p.seq ≠ (abs st d).lastSeq + 1) := hgap
  rw [if_neg hgap] at h
  rw [if_neg hgap']
  dsimp only at h ⊢
  by_cases ha : d.assembling = true
  · have ha' : (abs st d).assembling = true := ha
    have hna : ¬ ((!d.assembling) = true) := by simp [ha]
    have hna' : ¬ ((!(abs st d).assembling) = true) := by simp [ha']
    rw [if_neg hna] at h
    rw [if_neg hna']
    by_cases hts : p.ts ≠ d.curTs
    · have hts' : p.ts ≠ (abs st d).curTs := hts
      rw [if_pos hts] at h
      rw [if_pos hts']
      simp only [Prod.mk.injEq] at h
      obtain ⟨rfl, rfl, rfl⟩ := h
      exact ⟨by simp [abs, SDec.reset, Dec.reset, read_upTo0, absRes], upTo0_WF st _ hwf⟩
    · have hts' : ¬ p.ts ≠ (abs st d).curTs := hts
      rw [if_neg hts] at h
      rw [if_neg hts']
      cases hap : st.append grow d.buf p.payload with
      | mk st1 b =>
        obtain ⟨hb, _, hread, _, _, _⟩ := append_spec grow st d.buf p.payload hwf st1 b hap
        rw [hap] at h
        dsimp only at h
        cases hsf : sfinish ho { d with lastSeq := p.seq, firstRecv := true, buf := b } p.marker with
        | mk d1 r1 =>
          rw [hsf] at h
          simp only [Prod.mk.injEq] at h
          obtain ⟨rfl, rfl, rfl⟩ := h
          have := sfinish_refines ho st1 _ p.marker hb _ _ hsf
          refine ⟨?_, this.2⟩
          rw [← this.1]
          simp [abs, hread]
  · simp only [Bool.not_eq_true] at ha
    have ha' : (abs st d).assembling = false := ha
    have hna : (!d.assembling) = true := by simp [ha]
    have hna' : (!(abs st d).assembling) = true := by simp [ha']
    rw [if_pos hna] at h
    rw [if_pos hna']
    by_cases hk : isKLVStart p.payload = true
    · have hnk : ¬ ((!isKLVStart p.payload) = true) := by simp [hk]
      rw [if_neg hnk] at h
      rw [if_neg hnk]
      cases hap : st.append grow (d.buf.upTo 0) p.payload with
      | mk st1 b =>
        obtain ⟨hb, _, hread, _, _, _⟩ := append_spec grow st _ p.payload (upTo0_WF st _ hwf) st1 b hap
        rw [read_upTo0, List.nil_append] at hread
        rw [hap] at h
        dsimp only at h
        cases hds : declaredSize p.payload with
        | none =>
          rw [hds] at h
          dsimp only at h ⊢
          cases hsf : sfinish ho { d with lastSeq := p.seq, firstRecv := true, curTs := p.ts, assembling := true, buf := b } p.marker with
          | mk d1 r1 =>
            rw [hsf] at h
            simp only [Prod.mk.injEq] at h
            obtain ⟨rfl, rfl, rfl⟩ := h
            have := sfinish_refines ho st1 _ p.marker hb _ _ hsf
            refine ⟨?_, this.2⟩
            rw [← this.1]
            simp [abs, hread]
        | some s =>
          rw [hds] at h
          dsimp only at h ⊢
          cases hsf : sfinish ho { d with lastSeq := p.seq, firstRecv := true, curTs := p.ts, assembling := true, buf := b, expected := s } p.marker with
          | mk d1 r1 =>
            rw [hsf] at h
            simp only [Prod.mk.injEq] at h
            obtain ⟨rfl, rfl, rfl⟩ := h
            have := sfinish_refines ho st1 _ p.marker hb _ _ hsf
            refine ⟨?_, this.2⟩
            rw [← this.1]
            simp [abs, hread]
    · have hnk : (!isKLVStart p.payload) = true := by simpa using hk
      rw [if_pos hnk] at h
      rw [if_pos hnk]
      simp only [Prod.mk.injEq] at h
      obtain ⟨rfl, rfl, rfl⟩ := h
      exact ⟨by simp [abs, absRes], hwf⟩

end Rtsp.Codec.KlvSlice
