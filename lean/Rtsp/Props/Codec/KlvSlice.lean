import Rtsp.Model.Codec.KlvSlice
import Rtsp.Proofs.Codec.SliceSem
/-
C08 "frames already returned are never altered by later Decode calls" for the KLV decoder, which is
the one decoder that keeps a `[]byte` across calls: stated in slice semantics
(`Model/SliceSem.lean`, `Model/Codec/KlvSlice.lean`).

  c08_slice_refines     the slice-level decoder computes exactly what the value-level model
                        (`Model/Codec/Klv.lean`, the one compared with the real code) computes
  c08_returned_stable   repaired code (buffer handed over): a returned unit reads the same bytes
                        after ANY later packet history, under ANY growth policy of `append`
  c08_original_aliases  original code: the first of two single-packet units is overwritten by the
                        second (the recorded, repaired failure `klv-output-altered`)
-/
namespace Rtsp.Codec.KlvSlice
open Rtsp.Rtp Rtsp.SliceSem Rtsp.Codec.Klv

theorem upTo0_WF (st : Store) (s : Slice) (h : s.WF st) : (s.upTo 0).WF st :=
  ⟨Nat.zero_le _, h.2⟩

theorem read_upTo0 (st : Store) (s : Slice) : st.read (s.upTo 0) = [] := by
  simp [Store.read, Slice.upTo]

theorem read_upTo (st : Store) (s : Slice) (n : Nat) (h : n ≤ s.len) :
    st.read (s.upTo n) = (st.read s).take n := by
  simp only [Store.read, Slice.upTo, List.take_take, Nat.min_eq_left h]

theorem nil_WF (st : Store) : Slice.nil.WF st := ⟨Nat.le_refl _, Or.inl rfl⟩

theorem read_nil (st : Store) : st.read Slice.nil = [] := by simp [Store.read, Slice.nil]

/-- the state after a unit has been returned -/
def afterReturn (handOver : Bool) (d : SDec) : SDec :=
  (if handOver then { d with buf := Slice.nil } else d).reset

theorem afterReturn_abs (ho : Bool) (st : Store) (d : SDec) :
    abs st (afterReturn ho d) = (abs st d).reset := by
  cases ho <;> simp [afterReturn, abs, SDec.reset, Dec.reset, read_upTo0]

theorem afterReturn_WF (ho : Bool) (st : Store) (d : SDec) (h : d.buf.WF st) : (afterReturn ho d).buf.WF st := by
  cases ho
  · exact upTo0_WF st _ h
  · exact upTo0_WF st _ (nil_WF st)

theorem sfinish_marker (ho : Bool) (d : SDec) : sfinish ho d true = (afterReturn ho d, .ok d.buf) := by
  simp [sfinish, afterReturn]

theorem sfinish_early (ho : Bool) (d : SDec) (he : d.expected > 0 ∧ (d.buf.len : Int) ≥ d.expected) :
    sfinish ho d false = (afterReturn ho d, .ok (d.buf.upTo d.expected.toNat)) := by
  simp [sfinish, afterReturn, he]

theorem sfinish_more (ho : Bool) (d : SDec) (he : ¬ (d.expected > 0 ∧ (d.buf.len : Int) ≥ d.expected)) :
    sfinish ho d false = (d, .more) := by
  simp only [sfinish, Bool.false_eq_true, if_false, he]

/-- `sfinish` refines `finish` -/
theorem sfinish_refines (ho : Bool) (st : Store) (d : SDec) (m : Bool) (hwf : d.buf.WF st)
    (d' : SDec) (r : DecRes Slice) (h : sfinish ho d m = (d', r)) :
    finish (abs st d) m = (abs st d', absRes st r) ∧ d'.buf.WF st := by
  have hl : (st.read d.buf).length = d.buf.len := read_length st _ hwf
  have e2 : ((abs st d).buffer.length : Int) = (d.buf.len : Int) := by simp [abs, hl]
  cases m with
  | true =>
    rw [sfinish_marker] at h
    obtain ⟨rfl, rfl⟩ := Prod.mk.inj h
    refine ⟨?_, afterReturn_WF ho st d hwf⟩
    rw [afterReturn_abs]
    simp [finish, absRes, abs]
  | false =>
    by_cases he : d.expected > 0 ∧ (d.buf.len : Int) ≥ d.expected
    · rw [sfinish_early ho d he] at h
      obtain ⟨rfl, rfl⟩ := Prod.mk.inj h
      have he' : (abs st d).expected > 0 ∧ ((abs st d).buffer.length : Int) ≥ (abs st d).expected := by
        rw [e2]; exact he
      refine ⟨?_, afterReturn_WF ho st d hwf⟩
      simp only [finish, Bool.false_eq_true, if_false, he', and_self, if_true, afterReturn_abs, absRes]
      rw [read_upTo st d.buf _ (by omega)]
      rfl
    · rw [sfinish_more ho d he] at h
      obtain ⟨rfl, rfl⟩ := Prod.mk.inj h
      have he' : ¬ ((abs st d).expected > 0 ∧ ((abs st d).buffer.length : Int) ≥ (abs st d).expected) := by
        rw [e2]; exact he
      exact ⟨by simp only [finish, Bool.false_eq_true, if_false, he', absRes], hwf⟩

/-- **refinement**: one `Decode` in slice semantics computes exactly what the value-level model
computes (for the original and for the repaired handling of the buffer), and keeps the buffer
well formed. -/
theorem c08_slice_refines (grow : Nat → Nat → Nat) (ho : Bool) (st : Store) (d : SDec) (p : Pkt)
    (hwf : d.buf.WF st) (st' : Store) (d' : SDec) (r : DecRes Slice)
    (h : sdecode grow ho st d p = (st', d', r)) :
    decode (abs st d) p = (abs st' d', absRes st' r) ∧ d'.buf.WF st' := by
  rw [sdecode] at h
  rw [decode]
  by_cases hgap : d.firstRecv = true ∧ p.seq ≠ d.lastSeq + 1
  · have hgap' : (abs st d).firstRecv = true ∧ p.seq ≠ (abs st d).lastSeq + 1 := hgap
    rw [if_pos hgap] at h
    rw [if_pos hgap']
    simp only [Prod.mk.injEq] at h
    obtain ⟨rfl, rfl, rfl⟩ := h
    exact ⟨by simp [abs, SDec.reset, Dec.reset, read_upTo0, absRes], upTo0_WF st _ hwf⟩
  have hgap' : ¬ ((abs st d).firstRecv = true ∧ p.seq ≠ (abs st d).lastSeq + 1) := hgap
  rw [if_neg hgap] at h
  rw [if_neg hgap']
  dsimp only at h ⊢
  by_cases ha : d.assembling = true
  · have ha' : (abs st d).assembling = true := ha
    have hna : ¬ ((!d.assembling) = true) := by simp [ha]
    have hna' : ¬ ((!(abs st d).assembling) = true) := by simp [ha']
    rw [if_neg hna] at h
    rw [if_neg hna']
    by_cases hts : p.ts ≠ d.curTs
    · have hts' : p.ts ≠ (abs st d).curTs := hts
      rw [if_pos hts] at h
      rw [if_pos hts']
      simp only [Prod.mk.injEq] at h
      obtain ⟨rfl, rfl, rfl⟩ := h
      exact ⟨by simp [abs, SDec.reset, Dec.reset, read_upTo0, absRes], upTo0_WF st _ hwf⟩
    · have hts' : ¬ p.ts ≠ (abs st d).curTs := hts
      rw [if_neg hts] at h
      rw [if_neg hts']
      cases hap : st.append grow d.buf p.payload with
      | mk st1 b =>
        obtain ⟨hb, _, hread, _, _, _⟩ := append_spec grow st d.buf p.payload hwf st1 b hap
        rw [hap] at h
        dsimp only at h
        cases hsf : sfinish ho { d with lastSeq := p.seq, firstRecv := true, buf := b } p.marker with
        | mk d1 r1 =>
          rw [hsf] at h
          simp only [Prod.mk.injEq] at h
          obtain ⟨rfl, rfl, rfl⟩ := h
          have := sfinish_refines ho st1 _ p.marker hb _ _ hsf
          refine ⟨?_, this.2⟩
          rw [← this.1]
          simp [abs, hread]
  · simp only [Bool.not_eq_true] at ha
    have ha' : (abs st d).assembling = false := ha
    have hna : (!d.assembling) = true := by simp [ha]
    have hna' : (!(abs st d).assembling) = true := by simp [ha']
    rw [if_pos hna] at h
    rw [if_pos hna']
    by_cases hk : isKLVStart p.payload = true
    · have hnk : ¬ ((!isKLVStart p.payload) = true) := by simp [hk]
      rw [if_neg hnk] at h
      rw [if_neg hnk]
      cases hap : st.append grow (d.buf.upTo 0) p.payload with
      | mk st1 b =>
        obtain ⟨hb, _, hread, _, _, _⟩ := append_spec grow st _ p.payload (upTo0_WF st _ hwf) st1 b hap
        rw [read_upTo0, List.nil_append] at hread
        rw [hap] at h
        dsimp only at h
        cases hds : declaredSize p.payload with
        | none =>
          rw [hds] at h
          dsimp only at h ⊢
          cases hsf : sfinish ho { d with lastSeq := p.seq, firstRecv := true, curTs := p.ts, assembling := true, buf := b } p.marker with
          | mk d1 r1 =>
            rw [hsf] at h
            simp only [Prod.mk.injEq] at h
            obtain ⟨rfl, rfl, rfl⟩ := h
            have := sfinish_refines ho st1 _ p.marker hb _ _ hsf
            refine ⟨?_, this.2⟩
            rw [← this.1]
            simp [abs, hread]
        | some s =>
          rw [hds] at h
          dsimp only at h ⊢
          cases hsf : sfinish ho { d with lastSeq := p.seq, firstRecv := true, curTs := p.ts, assembling := true, buf := b, expected := s } p.marker with
          | mk d1 r1 =>
            rw [hsf] at h
            simp only [Prod.mk.injEq] at h
            obtain ⟨rfl, rfl, rfl⟩ := h
            have := sfinish_refines ho st1 _ p.marker hb _ _ hsf
            refine ⟨?_, this.2⟩
            rw [← this.1]
            simp [abs, hread]
    · have hnk : (!isKLVStart p.payload) = true := by simpa using hk
      rw [if_pos hnk] at h
      rw [if_pos hnk]
      simp only [Prod.mk.injEq] at h
      obtain ⟨rfl, rfl, rfl⟩ := h
      exact ⟨by simp [abs, absRes], hwf⟩

/-! ## stability of returned units (repaired code) -/

/-- the decoder cannot touch `o`: `o` is empty, or its array exists and is not the array of the
decoder's buffer (a buffer without capacity has no array) -/
def Safe (st : Store) (d : SDec) (o : Slice) : Prop :=
  o.len = 0 ∨ (o.arr < st.arrays.length ∧ (d.buf.cap = 0 ∨ d.buf.arr ≠ o.arr))

theorem read_empty (st : Store) (o : Slice) (h : o.len = 0) : st.read o = [] := by
  simp [Store.read, h]

theorem sfinish_buf (d : SDec) (m : Bool) (d' : SDec) (r : DecRes Slice) (h : sfinish true d m = (d', r)) :
    d'.buf.cap = 0 ∨ d'.buf = d.buf := by
  cases m with
  | true =>
    rw [sfinish_marker] at h
    obtain ⟨rfl, _⟩ := Prod.mk.inj h
    left; rfl
  | false =>
    by_cases he : d.expected > 0 ∧ (d.buf.len : Int) ≥ d.expected
    · rw [sfinish_early true d he] at h
      obtain ⟨rfl, _⟩ := Prod.mk.inj h
      left; rfl
    · rw [sfinish_more true d he] at h
      obtain ⟨rfl, _⟩ := Prod.mk.inj h
      right; rfl

/-- a returned slice is the buffer or a prefix of it, and the decoder lets go of the buffer -/
theorem sfinish_ok (d : SDec) (m : Bool) (d' : SDec) (r : Slice) (h : sfinish true d m = (d', .ok r)) :
    d'.buf.cap = 0 ∧ r.arr = d.buf.arr ∧ r.len ≤ d.buf.len := by
  cases m with
  | true =>
    rw [sfinish_marker] at h
    simp only [Prod.mk.injEq, DecRes.ok.injEq] at h
    obtain ⟨rfl, rfl⟩ := h
    exact ⟨rfl, rfl, Nat.le_refl _⟩
  | false =>
    by_cases he : d.expected > 0 ∧ (d.buf.len : Int) ≥ d.expected
    · rw [sfinish_early true d he] at h
      simp only [Prod.mk.injEq, DecRes.ok.injEq] at h
      obtain ⟨rfl, rfl⟩ := h
      refine ⟨rfl, rfl, ?_⟩
      simp only [Slice.upTo]; omega
    · rw [sfinish_more true d he] at h
      simp at h

/-- one `Decode` of the repaired decoder: a safe slice stays safe and keeps its bytes; a slice
returned by this call is safe afterwards -/
theorem step_safe (grow : Nat → Nat → Nat) (st : Store) (d : SDec) (p : Pkt) (hwf : d.buf.WF st)
    (st' : Store) (d' : SDec) (r : DecRes Slice) (h : sdecode grow true st d p = (st', d', r)) :
    (∀ o, Safe st d o → Safe st' d' o ∧ st'.read o = st.read o) ∧
    (∀ o, r = .ok o → Safe st' d' o) := by
  have hsame : ∀ d1 : SDec, (d1.buf.cap = 0 ∨ d1.buf.arr = d.buf.arr ∧ d1.buf.cap = d.buf.cap) →
      ∀ o, Safe st d o → Safe st d1 o ∧ st.read o = st.read o := by
    intro d1 h1 o ho
    refine ⟨?_, rfl⟩
    rcases ho with ho | ⟨ho1, ho2⟩
    · exact Or.inl ho
    · right
      refine ⟨ho1, ?_⟩
      rcases h1 with h1 | ⟨h1, h2⟩
      · exact Or.inl h1
      · rw [h1, h2]; exact ho2
  -- the two paths through `append` + `sfinish`
  have hpath : ∀ (s : Slice) (dd : SDec) (st1 : Store) (b : Slice) (d1 : SDec) (r1 : DecRes Slice),
      s.WF st → (s.cap = 0 ∨ s.arr = d.buf.arr ∧ s.cap = d.buf.cap) →
      st.append grow s p.payload = (st1, b) → dd.buf = b → sfinish true dd p.marker = (d1, r1) →
      (∀ o, Safe st d o → Safe st1 d1 o ∧ st1.read o = st.read o) ∧ (∀ o, r1 = .ok o → Safe st1 d1 o) := by
    intro s dd st1 b d1 r1 hs hsd hap hdd hsf
    obtain ⟨hb, hmono, _, _, hother, _⟩ := append_spec grow st s p.payload hs st1 b hap
    refine ⟨?_, ?_⟩
    · intro o ho
      rcases ho with ho | ⟨ho1, ho2⟩
      · exact ⟨Or.inl ho, by rw [read_empty _ _ ho, read_empty _ _ ho]⟩
      · have hso : s.cap = 0 ∨ s.arr ≠ o.arr := by
          rcases hsd with h | ⟨h1, h2⟩
          · exact Or.inl h
          · rw [h1, h2]; exact ho2
        obtain ⟨hr, hbo⟩ := hother o ho1 hso
        refine ⟨Or.inr ⟨by omega, ?_⟩, hr⟩
        rcases sfinish_buf dd p.marker d1 r1 hsf with h | h
        · exact Or.inl h
        · rw [h, hdd]; exact hbo
    · intro o ho
      subst ho
      obtain ⟨h1, h2, h3⟩ := sfinish_ok dd p.marker d1 o hsf
      rw [hdd] at h2 h3
      by_cases hz : o.len = 0
      · exact Or.inl hz
      · right
        have hbcap : b.cap ≠ 0 := by have := hb.1; omega
        rcases hb.2 with h | ⟨h, _⟩
        · exact absurd h hbcap
        · exact ⟨by rw [h2]; exact h, Or.inl h1⟩
  rw [sdecode] at h
  by_cases hgap : d.firstRecv = true ∧ p.seq ≠ d.lastSeq + 1
  · rw [if_pos hgap] at h
    simp only [Prod.mk.injEq] at h
    obtain ⟨rfl, rfl, rfl⟩ := h
    exact ⟨hsame _ (Or.inr ⟨rfl, rfl⟩), fun o ho => by cases ho⟩
  rw [if_neg hgap] at h
  dsimp only at h
  by_cases ha : d.assembling = true
  · have hna : ¬ ((!d.assembling) = true) := by simp [ha]
    rw [if_neg hna] at h
    by_cases hts : p.ts ≠ d.curTs
    · rw [if_pos hts] at h
      simp only [Prod.mk.injEq] at h
      obtain ⟨rfl, rfl, rfl⟩ := h
      exact ⟨hsame _ (Or.inr ⟨rfl, rfl⟩), fun o ho => by cases ho⟩
    · rw [if_neg hts] at h
      cases hap : st.append grow d.buf p.payload with
      | mk st1 b =>
        rw [hap] at h
        dsimp only at h
        cases hsf : sfinish true { d with lastSeq := p.seq, firstRecv := true, buf := b } p.marker with
        | mk d1 r1 =>
          rw [hsf] at h
          simp only [Prod.mk.injEq] at h
          obtain ⟨rfl, rfl, rfl⟩ := h
          exact hpath d.buf _ _ b _ _ hwf (Or.inr ⟨rfl, rfl⟩) hap rfl hsf
  · simp only [Bool.not_eq_true] at ha
    have hna : (!d.assembling) = true := by simp [ha]
    rw [if_pos hna] at h
    by_cases hk : isKLVStart p.payload = true
    · have hnk : ¬ ((!isKLVStart p.payload) = true) := by simp [hk]
      rw [if_neg hnk] at h
      cases hap : st.append grow (d.buf.upTo 0) p.payload with
      | mk st1 b =>
        rw [hap] at h
        dsimp only at h
        cases hds : declaredSize p.payload with
        | none =>
          rw [hds] at h
          dsimp only at h
          cases hsf : sfinish true { d with lastSeq := p.seq, firstRecv := true, curTs := p.ts, assembling := true, buf := b } p.marker with
          | mk d1 r1 =>
            rw [hsf] at h
            simp only [Prod.mk.injEq] at h
            obtain ⟨rfl, rfl, rfl⟩ := h
            exact hpath (d.buf.upTo 0) _ _ b _ _ (upTo0_WF st _ hwf) (Or.inr ⟨rfl, rfl⟩) hap rfl hsf
        | some s =>
          rw [hds] at h
          dsimp only at h
          cases hsf : sfinish true { d with lastSeq := p.seq, firstRecv := true, curTs := p.ts, assembling := true, buf := b, expected := s } p.marker with
          | mk d1 r1 =>
            rw [hsf] at h
            simp only [Prod.mk.injEq] at h
            obtain ⟨rfl, rfl, rfl⟩ := h
            exact hpath (d.buf.upTo 0) _ _ b _ _ (upTo0_WF st _ hwf) (Or.inr ⟨rfl, rfl⟩) hap rfl hsf
    · have hnk : (!isKLVStart p.payload) = true := by simpa using hk
      rw [if_pos hnk] at h
      simp only [Prod.mk.injEq] at h
      obtain ⟨rfl, rfl, rfl⟩ := h
      exact ⟨hsame _ (Or.inr ⟨rfl, rfl⟩), fun o ho => by cases ho⟩

theorem run_safe (grow : Nat → Nat → Nat) (ps : List Pkt) (st : Store) (d : SDec) (o : Slice)
    (hwf : d.buf.WF st) (ho : Safe st d o) : (srun grow true st d ps).1.read o = st.read o := by
  induction ps generalizing st d with
  | nil => rfl
  | cons p ps ih =>
    cases hsd : sdecode grow true st d p with
    | mk st1 x =>
      obtain ⟨d1, r⟩ := x
      obtain ⟨h1, _⟩ := step_safe grow st d p hwf st1 d1 r hsd
      obtain ⟨hs1, hr1⟩ := h1 o ho
      have hwf1 := (c08_slice_refines grow true st d p hwf st1 d1 r hsd).2
      simp only [srun, hsd]
      rw [ih st1 d1 hwf1 hs1, hr1]

/-- **C08 output stability (repaired decoder, slice semantics)**: a unit returned by `Decode` reads
the same bytes after ANY later packet history — any payloads, sequence numbers, timestamps and
markers — under ANY growth policy of `append`. -/
theorem c08_returned_stable (grow : Nat → Nat → Nat) (st : Store) (d : SDec) (p : Pkt) (hwf : d.buf.WF st)
    (st1 : Store) (d1 : SDec) (u : Slice) (h : sdecode grow true st d p = (st1, d1, .ok u))
    (later : List Pkt) : (srun grow true st1 d1 later).1.read u = st1.read u := by
  obtain ⟨_, h2⟩ := step_safe grow st d p hwf st1 d1 _ h
  have hwf1 := (c08_slice_refines grow true st d p hwf st1 d1 _ h).2
  exact run_safe grow later st1 d1 u hwf1 (h2 u rfl)

/-- the same over a whole history from the initial state: every unit returned along the way is
intact at the end -/
theorem c08_returned_stable_init (grow : Nat → Nat → Nat) (before : List Pkt) (p : Pkt) (later : List Pkt)
    (u : Slice) :
    let s0 := srun grow true {} {} before
    (sdecode grow true s0.1 s0.2.1 p).2.2 = .ok u →
    let s1 := sdecode grow true s0.1 s0.2.1 p
    (srun grow true s1.1 s1.2.1 later).1.read u = s1.1.read u := by
  intro s0 hu s1
  have hwf0 : ∀ (ps : List Pkt) (st : Store) (d : SDec), d.buf.WF st →
      (srun grow true st d ps).2.1.buf.WF (srun grow true st d ps).1 := by
    intro ps
    induction ps with
    | nil => intro st d h; exact h
    | cons q qs ih =>
      intro st d h
      cases hsd : sdecode grow true st d q with
      | mk st1 x =>
        obtain ⟨d1, r⟩ := x
        simp only [srun, hsd]
        exact ih st1 d1 (c08_slice_refines grow true st d q h st1 d1 r hsd).2
  have hwf := hwf0 before {} {} (nil_WF _)
  exact c08_returned_stable grow s0.1 s0.2.1 p hwf s1.1 s1.2.1 u
    (by show sdecode grow true s0.1 s0.2.1 p = (s1.1, s1.2.1, .ok u); rw [← hu]) later

/-- **whole histories**: run any packet history through the repaired decoder in slice semantics and
read every unit it returned along the way in the FINAL store — the result is exactly what the
value-level model (the one compared with the real code) returned, packet by packet.  Refinement
and stability in one statement. -/
theorem c08_slice_run_final (grow : Nat → Nat → Nat) (ps : List Pkt) (st : Store) (d : SDec)
    (hwf : d.buf.WF st) :
    runDec (abs st d) ps
      = (abs (srun grow true st d ps).1 (srun grow true st d ps).2.1,
         (srun grow true st d ps).2.2.map (absRes (srun grow true st d ps).1)) := by
  induction ps generalizing st d with
  | nil => rfl
  | cons p ps ih =>
    cases hsd : sdecode grow true st d p with
    | mk st1 x =>
      obtain ⟨d1, r⟩ := x
      obtain ⟨href, hwf1⟩ := c08_slice_refines grow true st d p hwf st1 d1 r hsd
      have hih := ih st1 d1 hwf1
      simp only [runDec, href, srun, hsd, hih, List.map_cons]
      congr 2
      -- the unit returned at this packet reads the same in the final store
      cases r with
      | ok u =>
        simp only [absRes]
        rw [c08_returned_stable grow st d p hwf st1 d1 u hsd ps]
      | more => rfl
      | nonStart => rfl
      | err => rfl

/-- (F) the code this theorem is about is the repaired one: both return paths of
`rtpklv/decoder.go` hand the buffer over (`d.buffer = nil` occurs twice); regenerated from /repo on
every run — if a hand-over disappears this stops compiling -/
theorem c08_handover_in_code : Rtsp.Facts.CodecMisc.klvBufferHandedOver = 2 := by decide

/-! ## the original code (`handOver = false`) does alias: the recorded failure -/

def exPkt (sq : UInt16) (ts : UInt32) (b : UInt8) : Pkt :=
  { seq := sq, ts := ts, marker := true,
    payload := [0x06, 0x0e, 0x2b, 0x34, 1, 1, 1, 1, 2, 2, 2, 2, 3, 3, 3, 3, 2, b, b] }

/-- two single-packet units through the ORIGINAL decoder: the unit returned first reads differently
after the second call (`append(d.buffer[:0], …)` wrote into the array it shares) -/
theorem c08_original_aliases :
    let g : Nat → Nat → Nat := fun _ n => n
    let s1 := sdecode g false {} {} (exPkt 1 100 0x41)
    let s2 := sdecode g false s1.1 s1.2.1 (exPkt 2 200 0x42)
    ∃ u, s1.2.2 = .ok u ∧ s1.1.read u = (exPkt 1 100 0x41).payload ∧ s2.1.read u = (exPkt 2 200 0x42).payload := by
  refine ⟨{ arr := 0, off := 0, len := 19, cap := 19 }, ?_, ?_, ?_⟩ <;> decide

/-- the same two calls through the repaired decoder leave the first unit alone (instance of
`c08_returned_stable`, evaluated) -/
example :
    let g : Nat → Nat → Nat := fun _ n => n
    let s1 := sdecode g true {} {} (exPkt 1 100 0x41)
    let s2 := sdecode g true s1.1 s1.2.1 (exPkt 2 200 0x42)
    ∃ u, s1.2.2 = .ok u ∧ s2.1.read u = (exPkt 1 100 0x41).payload := by
  refine ⟨{ arr := 0, off := 0, len := 19, cap := 19 }, ?_, ?_⟩ <;> decide

end Rtsp.Codec.KlvSlice
