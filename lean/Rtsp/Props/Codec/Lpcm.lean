import Rtsp.Model.Codec.Lpcm
import Rtsp.Proofs.Codec.Common
/-
Property theorems for pkg/format/rtplpcm (LPCM, also used for G711), about the model in
`Model/Codec/Lpcm.lean`.  A frame is a block of samples that the encoder cuts into packets of whole
samples; every packet is self-contained and the decoder is stateless.

  C06  c06_payload_le, c06_seq_consecutive, c06_seq_many, c06_pt_ssrc, c06_no_marker,
       c06_sample_aligned
  C08  c08_inv_init, c08_inv_decode, c08_retained_le, c08_out_le, c08_stateless
  C03  c03_roundtrip_grouping (every packet returns its piece, the pieces concatenate to the block),
       c03_fits_single, c03_timestamps, c03_roundtrip_many
  C07  not applicable (no inter-packet state: `c08_stateless`)
-/
namespace Rtsp.Codec.Lpcm
open Rtsp.Rtp

/-! ## validity -/

/-- a usable encoder: at least one whole sample fits the payload limit (`sampleSize = 0` or a
limit below one sample make Go divide by zero) -/
structure ValidEnc (e : Enc) : Prop where
  ss_pos : 0 < e.sampleSize
  mp_pos : 0 < e.maxPayload
  mp_le  : e.maxPayload ≤ e.cfg.max
  mp_mul : e.maxPayload % e.sampleSize = 0

/-- `Init` yields a usable encoder whenever one sample fits the limit -/
theorem init_valid (cfg : EncCfg) (bd cc : Nat) (sq : UInt16) (h1 : 0 < bd * cc / 8)
    (h2 : bd * cc / 8 ≤ cfg.max) : ValidEnc (Enc.init cfg bd cc sq) := by
  refine ⟨h1, ?_, ?_, ?_⟩
  · show 0 < cfg.max / (bd * cc / 8) * (bd * cc / 8)
    exact Nat.mul_pos (Nat.div_pos h2 h1) h1
  · exact Nat.div_mul_le_self _ _
  · show cfg.max / (bd * cc / 8) * (bd * cc / 8) % (bd * cc / 8) = 0
    exact Nat.mul_mod_left _ _

/-- "Samples must contain at least 1 byte." -/
def ValidFrame (f : Bytes) : Prop := 0 < f.length
instance (f : Bytes) : Decidable (ValidFrame f) := by unfold ValidFrame; infer_instance

theorem packetCount_eq (mp le : Nat) : packetCount mp le = ceilDiv le mp := rfl

/-! ## the emit loop -/

theorem emit_length (c : EncCfg) (ss n : Nat) (sq : UInt16) (ts : UInt32) (ps : Nat) (rest : Bytes) :
    (emit c ss n sq ts ps rest).length = n := by
  induction n generalizing sq ts ps rest with
  | zero => rfl
  | succ n ih => simp [emit, ih]

theorem emit_seq (c : EncCfg) (ss n : Nat) (sq : UInt16) (ts : UInt32) (ps : Nat) (rest : Bytes) :
    (emit c ss n sq ts ps rest).map (·.seq) = seqFrom sq n := by
  induction n generalizing sq ts ps rest with
  | zero => rfl
  | succ n ih => simp [emit, seqFrom, ih]

theorem emit_hdr (c : EncCfg) (ss n : Nat) (sq : UInt16) (ts : UInt32) (ps : Nat) (rest : Bytes) :
    ∀ p ∈ emit c ss n sq ts ps rest, p.pt = c.pt ∧ p.ssrc = c.ssrc ∧ p.marker = false := by
  induction n generalizing sq ts ps rest with
  | zero => simp [emit]
  | succ n ih =>
    intro p hp
    simp only [emit, List.mem_cons] at hp
    rcases hp with hp | hp
    · subst hp; simp
    · exact ih _ _ _ _ p hp

theorem emit_payload_le (c : EncCfg) (ss n : Nat) (sq : UInt16) (ts : UInt32) (ps : Nat) (rest : Bytes) :
    ∀ p ∈ emit c ss n sq ts ps rest, p.payload.length ≤ ps := by
  induction n generalizing sq ts ps rest with
  | zero => simp [emit]
  | succ n ih =>
    intro p hp
    simp only [emit, List.mem_cons] at hp
    rcases hp with hp | hp
    · subst hp; simp only [List.length_take]; split <;> omega
    · have := ih _ _ _ _ p hp
      split at this <;> omega

/-- the payloads, in order, are the block of samples -/
theorem emit_flatten (c : EncCfg) (ss n : Nat) (sq : UInt16) (ts : UInt32) (ps : Nat) (rest : Bytes)
    (h : rest.length ≤ n * ps) : ((emit c ss n sq ts ps rest).map (·.payload)).flatten = rest := by
  induction n generalizing sq ts ps rest with
  | zero => simp at h; simp [emit, h]
  | succ n ih =>
    simp only [emit, List.map_cons, List.flatten_cons]
    rw [ih]
    · exact List.take_append_drop _ _
    · simp only [List.length_drop]
      rw [Nat.add_mul] at h
      split
      · rename_i hlt; simp
      · omega

/-- every payload is non-empty and all but the last are exactly `ps` long -/
theorem emit_sizes (c : EncCfg) (ss n : Nat) (sq : UInt16) (ts : UInt32) (ps : Nat) (rest : Bytes)
    (hps : 0 < ps) (hlo : n * ps < rest.length) (hhi : rest.length ≤ (n + 1) * ps) :
    (emit c ss (n + 1) sq ts ps rest).map (·.payload.length) = List.replicate n ps ++ [rest.length - n * ps] := by
  induction n generalizing sq ts rest with
  | zero =>
    simp only [Nat.zero_mul, Nat.zero_add, Nat.one_mul] at hlo hhi
    simp only [emit, List.map_cons, List.map_nil, List.replicate_zero, List.nil_append, List.length_take]
    split <;> simp <;> omega
  | succ n ih =>
    have hmul : (n + 1) * ps = n * ps + ps := by rw [Nat.add_mul]; omega
    have hmul2 : (n + 1 + 1) * ps = n * ps + ps + ps := by rw [Nat.add_mul]; omega
    have hlen : ps < rest.length := by
      have : 0 ≤ n * ps := Nat.zero_le _
      omega
    have hnot : ¬ ps > rest.length := by omega
    rw [emit]
    simp only [hnot, ↓reduceIte, List.map_cons, List.length_take]
    rw [ih]
    · simp only [List.replicate_succ, List.cons_append, List.length_drop]
      congr 1
      · omega
      · congr 2; omega
    · simp only [List.length_drop]; omega
    · simp only [List.length_drop]; omega

/-- timestamps advance by the number of samples of the preceding (full) packets -/
def tsFrom (t step : UInt32) : Nat → List UInt32
  | 0 => []
  | n + 1 => t :: tsFrom (t + step) step n

theorem emit_ts (c : EncCfg) (ss n : Nat) (sq : UInt16) (ts : UInt32) (ps : Nat) (rest : Bytes)
    (hlo : n * ps < rest.length) :
    (emit c ss (n + 1) sq ts ps rest).map (·.ts) = tsFrom ts (UInt32.ofNat (ps / ss)) (n + 1) := by
  induction n generalizing sq ts rest with
  | zero => simp [emit, tsFrom]
  | succ n ih =>
    have hmul : (n + 1) * ps = n * ps + ps := by rw [Nat.add_mul]; omega
    have hnot : ¬ ps > rest.length := by
      have : 0 ≤ n * ps := Nat.zero_le _
      omega
    rw [emit]
    simp only [hnot, ↓reduceIte, List.map_cons]
    rw [ih]
    · rfl
    · simp only [List.length_drop]; omega

/-! ## C06 -/

/-- **C06 size clause**: every payload is at most `PayloadMaxSize` (in fact at most the largest
whole number of samples below it), for every block of samples. -/
theorem c06_payload_le (e : Enc) (f : Bytes) (hv : ValidEnc e) :
    ∀ p ∈ (encode e f).2, p.payload.length ≤ e.cfg.max := by
  intro p hp
  exact Nat.le_trans (emit_payload_le _ _ _ _ _ _ _ p hp) hv.mp_le

/-- **C06 numbering, one call** -/
theorem c06_seq_consecutive (e : Enc) (f : Bytes) :
    (encode e f).2.map (·.seq) = seqFrom e.seq (encode e f).2.length ∧
    (encode e f).1.seq = e.seq + UInt16.ofNat (encode e f).2.length := by
  simp [encode, emit_seq, emit_length]

def encodeMany (e : Enc) : List Bytes → Enc × List Pkt
  | [] => (e, [])
  | f :: fs =>
    let (e1, ps) := encode e f
    let (e2, qs) := encodeMany e1 fs
    (e2, ps ++ qs)

/-- **C06 numbering, any series of calls, any initial value (incl. wrap inside the run)**. -/
theorem c06_seq_many (e : Enc) (fs : List Bytes) :
    (encodeMany e fs).2.map (·.seq) = seqFrom e.seq (encodeMany e fs).2.length ∧
    (encodeMany e fs).1.seq = e.seq + UInt16.ofNat (encodeMany e fs).2.length := by
  induction fs generalizing e with
  | nil => simp [encodeMany, seqFrom]
  | cons f fs ih =>
    obtain ⟨h1, h2⟩ := c06_seq_consecutive e f
    obtain ⟨h3, h4⟩ := ih (encode e f).1
    simp only [encodeMany, List.map_append, List.length_append]
    refine ⟨?_, ?_⟩
    · rw [seqFrom_append, h1, h3, h2]
    · rw [h4, h2]
      apply UInt16.toNat_inj.mp
      simp [UInt16.toNat_add, UInt16.toNat_ofNat']
      omega

/-- **C06 payload type and SSRC** -/
theorem c06_pt_ssrc (e : Enc) (f : Bytes) :
    ∀ p ∈ (encode e f).2, p.pt = e.cfg.pt ∧ p.ssrc = e.cfg.ssrc := by
  intro p hp
  have := emit_hdr _ _ _ _ _ _ _ p hp
  exact ⟨this.1, this.2.1⟩

/-- the format never sets the marker (every packet is a complete unit) -/
theorem c06_no_marker (e : Enc) (f : Bytes) : ∀ p ∈ (encode e f).2, p.marker = false := by
  intro p hp
  exact (emit_hdr _ _ _ _ _ _ _ p hp).2.2

/-- the shape of the packets of a non-empty block: `n` full packets and a last one with the rest -/
theorem encode_sizes (e : Enc) (f : Bytes) (hv : ValidEnc e) (hf : ValidFrame f) :
    ∃ n, (encode e f).2.length = n + 1 ∧ n * e.maxPayload < f.length ∧ f.length ≤ (n + 1) * e.maxPayload ∧
      (encode e f).2.map (·.payload.length) = List.replicate n e.maxPayload ++ [f.length - n * e.maxPayload] := by
  have hp := ceilDiv_pos f.length e.maxPayload hv.mp_pos hf
  have hlow := ceilDiv_lower f.length e.maxPayload hv.mp_pos hf
  have hup := ceilDiv_upper f.length e.maxPayload hv.mp_pos
  rw [← packetCount_eq] at hp hlow hup
  obtain ⟨n, hn⟩ := Nat.exists_eq_succ_of_ne_zero (Nat.pos_iff_ne_zero.mp hp)
  refine ⟨n, ?_, ?_, ?_, ?_⟩
  · simp [encode, emit_length, hn]
  · rw [hn] at hlow; simpa using hlow
  · rw [hn] at hup; exact hup
  · unfold encode
    simp only [hn]
    apply emit_sizes _ _ _ _ _ _ _ hv.mp_pos
    · rw [hn] at hlow; simpa using hlow
    · rw [hn] at hup; exact hup

/-- **sample-aligned splitting**: every packet but the last carries exactly `maxPayload` bytes, a
whole number of samples; when the block itself is a whole number of samples, so is every packet. -/
theorem c06_sample_aligned (e : Enc) (f : Bytes) (hv : ValidEnc e) (hf : ValidFrame f)
    (hal : f.length % e.sampleSize = 0) :
    ∀ p ∈ (encode e f).2, p.payload.length % e.sampleSize = 0 ∧ 0 < p.payload.length := by
  obtain ⟨n, _, hlo, hhi, hs⟩ := encode_sizes e f hv hf
  intro p hp
  have : p.payload.length ∈ (encode e f).2.map (·.payload.length) := List.mem_map_of_mem hp
  rw [hs] at this
  simp only [List.mem_append, List.mem_replicate, List.mem_singleton] at this
  rcases this with ⟨_, h⟩ | h
  · rw [h]; exact ⟨hv.mp_mul, hv.mp_pos⟩
  · rw [h]
    refine ⟨?_, by omega⟩
    have h1 : (n * e.maxPayload) % e.sampleSize = 0 := by
      rw [Nat.mul_mod, hv.mp_mul]; simp
    have hle : n * e.maxPayload ≤ f.length := by omega
    exact (Nat.sub_mod_eq_zero_of_mod_eq (by rw [hal, h1]))

/-! ## C08 -/

def Inv (_ : Dec) : Prop := True

theorem c08_inv_init : Inv {} := trivial
theorem c08_inv_decode (d : Dec) (p : Pkt) (_ : Inv d) : Inv (decode d p).1 := trivial
/-- nothing is retained between calls -/
theorem c08_retained_le (d : Dec) (_ : Inv d) : retained d ≤ 0 := Nat.le_refl 0
/-- a returned block is the payload of the packet itself -/
theorem c08_out_le (d : Dec) (p : Pkt) (f : Bytes) (h : (decode d p).2 = .ok f) : f = p.payload := by
  unfold decode at h; split at h <;> simp_all
/-- the answer to a packet does not depend on the history -/
theorem c08_stateless (h : List Pkt) (p : Pkt) : decode (runDec {} h).1 p = decode {} p := rfl

/-! ## C03 (grouping form: the encoder cuts the block into self-contained packets) -/

theorem runDec_all_ok (d : Dec) (ps : List Pkt) (h : ∀ p ∈ ps, 0 < p.payload.length) :
    runDec d ps = (d, ps.map (fun p => .ok p.payload)) := by
  induction ps with
  | nil => rfl
  | cons p ps ih =>
    have hp : ¬ p.payload.length = 0 := by have := h p (by simp); omega
    simp only [runDec, decode, hp, ↓reduceIte, List.map_cons]
    rw [ih (fun q hq => h q (by simp [hq]))]

/-- **C03 round trip, grouping form**: every packet of a valid block returns a non-empty piece
(there is no 'more packets needed': each packet is complete) and the pieces, concatenated in
order, are exactly the block. -/
theorem c03_roundtrip_grouping (e : Enc) (f : Bytes) (d : Dec) (hv : ValidEnc e) (hf : ValidFrame f) :
    runDec d (encode e f).2 = (d, (encode e f).2.map (fun p => .ok p.payload)) ∧
    ((encode e f).2.map (·.payload)).flatten = f ∧
    ∀ p ∈ (encode e f).2, 0 < p.payload.length := by
  obtain ⟨n, hn, hlo, hhi, hs⟩ := encode_sizes e f hv hf
  have hpos : ∀ p ∈ (encode e f).2, 0 < p.payload.length := by
    intro p hp
    have : p.payload.length ∈ (encode e f).2.map (·.payload.length) := List.mem_map_of_mem hp
    rw [hs] at this
    simp only [List.mem_append, List.mem_replicate, List.mem_singleton] at this
    rcases this with ⟨_, h⟩ | h
    · rw [h]; exact hv.mp_pos
    · omega
  refine ⟨runDec_all_ok d _ hpos, ?_, hpos⟩
  unfold encode
  apply emit_flatten
  exact ceilDiv_upper f.length e.maxPayload hv.mp_pos

/-- a block that fits one packet is sent as one packet carrying the block -/
theorem c03_fits_single (e : Enc) (f : Bytes) (hv : ValidEnc e) (hf : ValidFrame f)
    (hfit : f.length ≤ e.maxPayload) : ∃ p, (encode e f).2 = [p] ∧ p.payload = f ∧ p.ts = 0 := by
  obtain ⟨n, hn, hlo, _, _⟩ := encode_sizes e f hv hf
  have hn0 : n = 0 := by
    rcases Nat.eq_zero_or_pos n with h | h
    · exact h
    · have : e.maxPayload ≤ n * e.maxPayload := Nat.le_mul_of_pos_left _ h
      omega
  subst hn0
  have hflat := (c03_roundtrip_grouping e f {} hv hf).2.1
  match hps : (encode e f).2, hn with
  | [p], _ =>
    refine ⟨p, rfl, ?_, ?_⟩
    · rw [hps] at hflat; simpa using hflat
    · have : p ∈ (encode e f).2 := by rw [hps]; simp
      unfold encode at hps
      simp only at hps
      have h1 : packetCount e.maxPayload f.length = 1 := by
        have := emit_length e.cfg e.sampleSize (packetCount e.maxPayload f.length) e.seq 0 e.maxPayload f
        rw [hps] at this; simpa using this.symm
      rw [h1] at hps
      simp only [emit, List.cons.injEq, and_true] at hps
      rw [← hps]

/-- **timestamps**: packet `i` carries the relative timestamp `i · (maxPayload / sampleSize)`, the
number of samples in the `i` full packets before it (`maxPayload` is a whole number of samples). -/
theorem c03_timestamps (e : Enc) (f : Bytes) (hv : ValidEnc e) (hf : ValidFrame f) :
    (encode e f).2.map (·.ts) = tsFrom 0 (UInt32.ofNat (e.maxPayload / e.sampleSize)) (encode e f).2.length ∧
    e.maxPayload / e.sampleSize * e.sampleSize = e.maxPayload := by
  obtain ⟨n, hn, hlo, _, _⟩ := encode_sizes e f hv hf
  refine ⟨?_, Nat.div_mul_cancel (Nat.dvd_of_mod_eq_zero hv.mp_mul)⟩
  rw [hn]
  have hc : packetCount e.maxPayload f.length = n + 1 := by
    have := emit_length e.cfg e.sampleSize (packetCount e.maxPayload f.length) e.seq 0 e.maxPayload f
    unfold encode at hn; simp only at hn; omega
  unfold encode
  simp only [hc]
  exact emit_ts _ _ _ _ _ _ _ hlo

def runFrames (d : Dec) : List (List Pkt) → List (List (DecRes Bytes))
  | [] => []
  | ps :: rest => (runDec d ps).2 :: runFrames (runDec d ps).1 rest

def encodeEach (e : Enc) : List Bytes → List (List Pkt)
  | [] => []
  | f :: fs => (encode e f).2 :: encodeEach (encode e f).1 fs

/-- the pieces returned for one call -/
def okPieces : List (DecRes Bytes) → List Bytes
  | [] => []
  | .ok f :: rest => f :: okPieces rest
  | _ :: rest => okPieces rest

theorem okPieces_map (ps : List Pkt) : okPieces (ps.map (fun p => DecRes.ok p.payload)) = ps.map (·.payload) := by
  induction ps with
  | nil => rfl
  | cons p ps ih => simp [okPieces, ih]

theorem encode_valid (e : Enc) (f : Bytes) (hv : ValidEnc e) : ValidEnc (encode e f).1 :=
  ⟨hv.ss_pos, hv.mp_pos, hv.mp_le, hv.mp_mul⟩

/-- **C03, consecutive blocks** through the same encoder / decoder pair: for every call the
returned pieces concatenate to the block of that call. -/
theorem c03_roundtrip_many (e : Enc) (fs : List Bytes) (d : Dec) (hv : ValidEnc e)
    (hf : ∀ f ∈ fs, ValidFrame f) :
    (runFrames d (encodeEach e fs)).map (fun outs => (okPieces outs).flatten) = fs := by
  induction fs generalizing e d with
  | nil => rfl
  | cons f fs ih =>
    obtain ⟨h1, h2, _⟩ := c03_roundtrip_grouping e f d hv (hf f (by simp))
    simp only [encodeEach, runFrames, List.map_cons, h1, okPieces_map, h2]
    rw [ih _ _ (encode_valid e f hv) (fun g hg => hf g (by simp [hg]))]

/-! ## non-vacuity -/

/-- 16-bit stereo (4-byte samples) at limit 10: 8-byte packets; 20 bytes → 8 + 8 + 4 across a wrap -/
def exEnc : Enc := Enc.init { pt := 96, ssrc := 7, max := 10 } 16 2 65535
def exBlock : Bytes := [1, 2, 3, 4, 5, 6, 7, 8, 9, 10, 11, 12, 13, 14, 15, 16, 17, 18, 19, 20]

example : ValidEnc exEnc := init_valid _ 16 2 _ (by decide) (by decide)
example : ValidFrame exBlock ∧ exBlock.length % exEnc.sampleSize = 0 := by decide
example : (encode exEnc exBlock).2.map (fun p => (p.seq, p.ts, p.payload.length)) = [(65535, 0, 8), (0, 2, 8), (1, 4, 4)] := by decide

end Rtsp.Codec.Lpcm
