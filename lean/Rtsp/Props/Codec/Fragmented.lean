import Rtsp.Model.Codec.Fragmented
import Rtsp.Proofs.Codec.Common
/-
Property theorems for pkg/format/rtpfragmented (MPEG-4 video, MPEG-4 audio LATM), about the model in
`Model/Codec/Fragmented.lean`.  This file is the pattern for the other codecs.

  C06  c06_payload_le, c06_seq_consecutive, c06_seq_many, c06_pt_ssrc, c06_marker_only_last
  C08  c08_inv_init, c08_inv_decode, c08_retained_le, c08_out_le
  C03  c03_roundtrip, c03_roundtrip_many
  C07  c07_marker_cleans, c07_flush, c07_resync

All statements quantify over every frame, payload limit, sequence number, packet and history;
there is no bound on sizes or lengths.
-/
namespace Rtsp.Codec.Fragmented
open Rtsp.Rtp Rtsp.Facts

/-! ## validity predicates (what the Go code documents as its precondition) -/

/-- `PayloadMaxSize` must be positive (`0` divides by zero in Go). -/
def ValidCfg (c : EncCfg) : Prop := 0 < c.max

/-- "Frame must contain at least 1 byte"; frames above `MaxFrameSize` are refused by the decoder. -/
def ValidFrame (f : Bytes) : Prop := 0 < f.length ∧ f.length ≤ Codec.mpeg4videoMaxFrameSize

instance (c : EncCfg) : Decidable (ValidCfg c) := by unfold ValidCfg; infer_instance
instance (f : Bytes) : Decidable (ValidFrame f) := by unfold ValidFrame; infer_instance

theorem packetCount_eq (avail le : Nat) : packetCount avail le = ceilDiv le avail := rfl

/-! ## C06 — packetiser: size limit, numbering, payload type / SSRC, marker -/

theorem emit_payload_le (c : EncCfg) (n : Nat) (sq : UInt16) (rest : Bytes)
    (h : rest.length ≤ n * c.max) : ∀ p ∈ emit c n sq rest, p.payload.length ≤ c.max := by
  induction n using emit.induct c generalizing sq rest with
  | case1 => simp [emit]
  | case2 => intro p hp; simp [emit] at hp; subst hp; simpa using h
  | case3 n ih =>
    intro p hp
    simp only [emit, List.mem_cons] at hp
    rcases hp with hp | hp
    · subst hp; simp [List.length_take]; omega
    · apply ih (sq + 1) (rest.drop c.max) _ p hp
      simp only [List.length_drop]
      have : (n + 2) * c.max = (n + 1) * c.max + c.max := Nat.succ_mul (n + 1) c.max
      omega
where
  emit.induct (c : EncCfg) {motive : Nat → Prop} (case1 : motive 0) (case2 : motive 1)
      (case3 : ∀ n, motive (n + 1) → motive (n + 2)) : ∀ n, motive n
    | 0 => case1
    | 1 => case2
    | n + 2 => case3 n (emit.induct c case1 case2 case3 (n + 1))

/-- **C06 size clause**: every payload is at most `PayloadMaxSize`, for every frame (empty or not,
below, at or above the limit). -/
theorem c06_payload_le (e : Enc) (f : Bytes) (hc : ValidCfg e.cfg) :
    ∀ p ∈ (encode e f).2, p.payload.length ≤ e.cfg.max := by
  unfold encode
  simp only
  exact emit_payload_le e.cfg _ e.seq f (by rw [packetCount_eq]; exact ceilDiv_upper _ _ hc)

theorem emit_length (c : EncCfg) (n : Nat) (sq : UInt16) (rest : Bytes) :
    (emit c n sq rest).length = n := by
  induction n using emit_payload_le.emit.induct c generalizing sq rest with
  | case1 => simp [emit]
  | case2 => simp [emit]
  | case3 n ih => simp [emit, ih]

theorem emit_seq (c : EncCfg) (n : Nat) (sq : UInt16) (rest : Bytes) :
    (emit c n sq rest).map (·.seq) = seqFrom sq n := by
  induction n using emit_payload_le.emit.induct c generalizing sq rest with
  | case1 => simp [emit, seqFrom]
  | case2 => simp [emit, seqFrom]
  | case3 n ih => simp [emit, seqFrom, ih]

/-- **C06 numbering, one call**: the packets of one `Encode` carry `seq, seq+1, …` (mod 2^16) and
the encoder continues after them. -/
theorem c06_seq_consecutive (e : Enc) (f : Bytes) :
    (encode e f).2.map (·.seq) = seqFrom e.seq (encode e f).2.length ∧
    (encode e f).1.seq = e.seq + UInt16.ofNat (encode e f).2.length := by
  unfold encode
  simp [emit_seq, emit_length]

/-- a series of `Encode` calls through the same encoder -/
def encodeMany (e : Enc) : List Bytes → Enc × List Pkt
  | [] => (e, [])
  | f :: fs =>
    let (e1, ps) := encode e f
    let (e2, qs) := encodeMany e1 fs
    (e2, ps ++ qs)

/-- **C06 numbering, any series of calls, any initial value (incl. wrap inside the run)**. -/
theorem c06_seq_many (e : Enc) (fs : List Bytes) :
    (encodeMany e fs).2.map (·.seq) = seqFrom e.seq (encodeMany e fs).2.length ∧
    (encodeMany e fs).1.seq = e.seq + UInt16.ofNat (encodeMany e fs).2.length := by
  induction fs generalizing e with
  | nil => simp [encodeMany, seqFrom]
  | cons f fs ih =>
    obtain ⟨h1, h2⟩ := c06_seq_consecutive e f
    obtain ⟨h3, h4⟩ := ih (encode e f).1
    simp only [encodeMany, List.map_append, List.length_append]
    refine ⟨?_, ?_⟩
    · rw [seqFrom_append, h1, h3, h2]
    · rw [h4, h2]
      apply UInt16.toNat_inj.mp
      simp [UInt16.toNat_add, UInt16.toNat_ofNat']
      omega

theorem emit_pt_ssrc (c : EncCfg) (n : Nat) (sq : UInt16) (rest : Bytes) :
    ∀ p ∈ emit c n sq rest, p.pt = c.pt ∧ p.ssrc = c.ssrc := by
  induction n using emit_payload_le.emit.induct c generalizing sq rest with
  | case1 => simp [emit]
  | case2 => intro p hp; simp [emit] at hp; subst hp; simp
  | case3 n ih =>
    intro p hp
    simp only [emit, List.mem_cons] at hp
    rcases hp with hp | hp
    · subst hp; simp
    · exact ih _ _ p hp

/-- **C06 payload type and SSRC** are the configured ones on every packet. -/
theorem c06_pt_ssrc (e : Enc) (f : Bytes) :
    ∀ p ∈ (encode e f).2, p.pt = e.cfg.pt ∧ p.ssrc = e.cfg.ssrc := by
  unfold encode; exact emit_pt_ssrc _ _ _ _

theorem emit_markers (c : EncCfg) (n : Nat) (sq : UInt16) (rest : Bytes) :
    (emit c (n + 1) sq rest).map (·.marker) = List.replicate n false ++ [true] := by
  induction n generalizing sq rest with
  | zero => simp [emit]
  | succ n ih => simp [emit, ih, List.replicate_succ]

/-- **C06 marker**: set on the packet that completes the frame and on no other packet. -/
theorem c06_marker_only_last (e : Enc) (f : Bytes) (hc : ValidCfg e.cfg) (hf : 0 < f.length) :
    (encode e f).2.map (·.marker) = List.replicate ((encode e f).2.length - 1) false ++ [true] := by
  unfold encode
  simp only [emit_length]
  have hp := ceilDiv_pos f.length e.cfg.max hc hf
  rw [← packetCount_eq] at hp
  obtain ⟨k, hk⟩ := Nat.exists_eq_succ_of_ne_zero (Nat.pos_iff_ne_zero.mp hp)
  rw [hk]
  simpa using emit_markers e.cfg k e.seq f

/-! ## C08 — hostile packets: invariant, bounded retention, bounded output -/

/-- state invariant, relative to a bound `P` on the payload size of the packets of the history
(65535 for anything that arrived in a UDP datagram or an interleaved frame) -/
structure Inv (P : Nat) (d : Dec) : Prop where
  size_eq : d.size = totalLen d.fragments
  size_le : d.size ≤ Codec.mpeg4videoMaxFrameSize + P
  empty   : d.size = 0 → d.fragments = []

def Clean (d : Dec) : Prop := d.size = 0 ∧ d.fragments = []

instance (d : Dec) : Decidable (Clean d) := by unfold Clean; infer_instance

theorem c08_inv_init (P : Nat) : Inv P {} := ⟨rfl, by simp, fun _ => rfl⟩

/-! `Decode`, branch by branch (each lemma is one path through the Go function) -/

theorem decode_empty (d : Dec) (p : Pkt) (h0 : p.payload.length = 0) : decode d p = (d, .err) := by
  simp [decode, h0]

theorem decode_single (d : Dec) (p : Pkt) (h0 : p.payload.length ≠ 0) (hz : d.size = 0)
    (hm : p.marker = true) : decode d p = (d, .ok p.payload) := by
  simp [decode, h0, hz, hm]

theorem decode_first (d : Dec) (p : Pkt) (h0 : p.payload.length ≠ 0) (hz : d.size = 0)
    (hm : p.marker = false) :
    decode d p = ({ d with size := p.payload.length, fragments := d.fragments ++ [p.payload],
                           nextSeq := p.seq + 1 }, .more) := by
  simp [decode, h0, hz, hm]

theorem decode_gap (d : Dec) (p : Pkt) (h0 : p.payload.length ≠ 0) (hz : d.size ≠ 0)
    (hs : p.seq ≠ d.nextSeq) : decode d p = (d.reset, .err) := by
  simp [decode, h0, hz, hs]

theorem decode_big (d : Dec) (p : Pkt) (h0 : p.payload.length ≠ 0) (hz : d.size ≠ 0)
    (hs : p.seq = d.nextSeq) (hb : d.size + p.payload.length > Codec.mpeg4videoMaxFrameSize) :
    decode d p = (d.reset, .err) := by
  simp [decode, h0, hz, hs, hb]

theorem decode_mid (d : Dec) (p : Pkt) (h0 : p.payload.length ≠ 0) (hz : d.size ≠ 0)
    (hs : p.seq = d.nextSeq) (hb : ¬ d.size + p.payload.length > Codec.mpeg4videoMaxFrameSize)
    (hm : p.marker = false) :
    decode d p = ({ d with size := d.size + p.payload.length, fragments := d.fragments ++ [p.payload],
                           nextSeq := d.nextSeq + 1 }, .more) := by
  simp [decode, h0, hz, hs, hb, hm]

theorem decode_last (d : Dec) (p : Pkt) (h0 : p.payload.length ≠ 0) (hz : d.size ≠ 0)
    (hs : p.seq = d.nextSeq) (hb : ¬ d.size + p.payload.length > Codec.mpeg4videoMaxFrameSize)
    (hm : p.marker = true) :
    decode d p = ({ d with size := 0, fragments := [], nextSeq := d.nextSeq + 1 },
                  .ok (joinFragments (d.fragments ++ [p.payload]) (d.size + p.payload.length))) := by
  simp [decode, h0, hz, hs, hb, hm, Dec.reset]

/-- **C08**: the invariant is preserved by `Decode` on EVERY packet (any payload bytes, sequence
number, timestamp, marker). -/
theorem c08_inv_decode (P : Nat) (d : Dec) (p : Pkt) (hi : Inv P d) (hp : p.payload.length ≤ P) :
    Inv P (decode d p).1 := by
  obtain ⟨h1, h2, h3⟩ := hi
  have hreset : Inv P d.reset := ⟨rfl, by simp [Dec.reset], fun _ => rfl⟩
  by_cases h0 : p.payload.length = 0
  · rw [decode_empty d p h0]; exact ⟨h1, h2, h3⟩
  by_cases hz : d.size = 0
  · cases hm : p.marker
    · rw [decode_first d p h0 hz hm]
      exact ⟨by simp [h3 hz], by simp; omega, fun h => absurd h h0⟩
    · rw [decode_single d p h0 hz hm]; exact ⟨h1, h2, h3⟩
  by_cases hs : p.seq = d.nextSeq
  · by_cases hb : d.size + p.payload.length > Codec.mpeg4videoMaxFrameSize
    · rw [decode_big d p h0 hz hs hb]; exact hreset
    · cases hm : p.marker
      · rw [decode_mid d p h0 hz hs hb hm]
        exact ⟨by simp [h1], by simp; omega,
          fun h => by have : d.size + p.payload.length = 0 := h; omega⟩
      · rw [decode_last d p h0 hz hs hb hm]
        exact ⟨rfl, by simp, fun _ => rfl⟩
  · rw [decode_gap d p h0 hz hs]; exact hreset

/-- **C08 bounded memory**: retained bytes ≤ documented maximum frame size + one packet. -/
theorem c08_retained_le (P : Nat) (d : Dec) (hi : Inv P d) :
    retained d ≤ Codec.mpeg4videoMaxFrameSize + P := by
  unfold retained; rw [← hi.size_eq]; exact hi.size_le

theorem joinFragments_exact (fs : List Bytes) : joinFragments fs (totalLen fs) = fs.flatten := by
  have h := flatten_length fs
  simp only [joinFragments]
  rw [← h, List.take_length, Nat.sub_self]
  simp

/-- **C08 output bound**: a returned frame is either a single packet's payload or at most
`MaxFrameSize` long. -/
theorem c08_out_le (P : Nat) (d : Dec) (p : Pkt) (f : Bytes) (hi : Inv P d)
    (h : (decode d p).2 = .ok f) : f = p.payload ∨ f.length ≤ Codec.mpeg4videoMaxFrameSize := by
  obtain ⟨h1, _, _⟩ := hi
  by_cases h0 : p.payload.length = 0
  · rw [decode_empty d p h0] at h; simp at h
  by_cases hz : d.size = 0
  · cases hm : p.marker
    · rw [decode_first d p h0 hz hm] at h; simp at h
    · rw [decode_single d p h0 hz hm] at h; simp at h; exact Or.inl h.symm
  by_cases hs : p.seq = d.nextSeq
  · by_cases hb : d.size + p.payload.length > Codec.mpeg4videoMaxFrameSize
    · rw [decode_big d p h0 hz hs hb] at h; simp at h
    · cases hm : p.marker
      · rw [decode_mid d p h0 hz hs hb hm] at h; simp at h
      · rw [decode_last d p h0 hz hs hb hm] at h
        simp only [DecRes.ok.injEq] at h
        right
        have e : d.size + p.payload.length = totalLen (d.fragments ++ [p.payload]) := by simp [h1]
        rw [← h, e, joinFragments_exact, flatten_length, ← e]
        omega
  · rw [decode_gap d p h0 hz hs] at h; simp at h

/-! ## C03 — decoding the encoder's packets returns the original frame -/

/-- feeding the remaining packets of a frame to a decoder that holds the earlier ones -/
theorem run_mid (c : EncCfg) (hc : 0 < c.max) (n : Nat) (sq : UInt16) (rest : Bytes) (d : Dec)
    (hsz : d.size = totalLen d.fragments) (hpos : 0 < d.size) (hseq : d.nextSeq = sq)
    (hlo : n * c.max < rest.length) (hcap : d.size + rest.length ≤ Codec.mpeg4videoMaxFrameSize) :
    ∃ d', runDec d (emit c (n + 1) sq rest)
        = (d', List.replicate n .more ++ [.ok (d.fragments.flatten ++ rest)]) ∧ Clean d' := by
  induction n generalizing sq rest d with
  | zero =>
    have hr : 0 < rest.length := by omega
    refine ⟨{ d with size := 0, fragments := [], nextSeq := d.nextSeq + 1 }, ?_, ?_⟩
    · have hdl := decode_last d { pt := c.pt, seq := sq, ssrc := c.ssrc, marker := true, payload := rest }
        (by simp only; omega) (by omega) (by simp [hseq]) (by simp only; omega) rfl
      simp only [emit, runDec, hdl, List.replicate_zero, List.nil_append]
      have e : d.size + rest.length = totalLen (d.fragments ++ [rest]) := by simp [hsz]
      rw [e, joinFragments_exact]
      simp
    · simp [Clean]
  | succ n ih =>
    have hmul : (n + 1) * c.max = n * c.max + c.max := by rw [Nat.add_mul]; omega
    have hlen : c.max < rest.length := by
      have : 0 ≤ n * c.max := Nat.zero_le _
      omega
    have htake : (rest.take c.max).length = c.max := by simp [List.length_take]; omega
    let d1 : Dec := { d with size := d.size + c.max, fragments := d.fragments ++ [rest.take c.max],
                             nextSeq := d.nextSeq + 1 }
    have hstep : decode d { pt := c.pt, seq := sq, ssrc := c.ssrc, marker := false, payload := rest.take c.max }
        = (d1, .more) := by
      have := decode_mid d { pt := c.pt, seq := sq, ssrc := c.ssrc, marker := false, payload := rest.take c.max }
        (by simp only; omega) (by omega) (by simp [hseq]) (by simp only; omega) rfl
      rw [this]; simp [d1, htake]
    obtain ⟨d', hrun, hclean⟩ := ih (sq + 1) (rest.drop c.max) d1
      (by simp [d1, hsz, htake]) (by simp [d1]; omega) (by simp [d1, hseq])
      (by simp only [List.length_drop]; omega) (by simp [d1, List.length_drop]; omega)
    refine ⟨d', ?_, hclean⟩
    simp only [emit, runDec, hstep, hrun, List.replicate_succ, List.cons_append]
    simp [d1, List.append_assoc]

/-- **C03 round trip**: for every valid configuration, every valid frame and every clean decoder,
the decoder answers "more packets needed" on all packets but the last and returns exactly the
frame at the last one, and is clean again afterwards. -/
theorem c03_roundtrip (e : Enc) (f : Bytes) (d : Dec)
    (hc : ValidCfg e.cfg) (hf : ValidFrame f) (hd : Clean d) :
    ∃ d', runDec d (encode e f).2
        = (d', List.replicate ((encode e f).2.length - 1) .more ++ [.ok f]) ∧ Clean d' := by
  obtain ⟨hf1, hf2⟩ := hf
  obtain ⟨hd1, hd2⟩ := hd
  unfold encode
  simp only [emit_length]
  have hp := ceilDiv_pos f.length e.cfg.max hc hf1
  have hlow := ceilDiv_lower f.length e.cfg.max hc hf1
  rw [← packetCount_eq] at hp hlow
  generalize packetCount e.cfg.max f.length = n at hp hlow
  match n, hp with
  | 1, _ =>
    refine ⟨d, ?_, ⟨hd1, hd2⟩⟩
    have := decode_single d { pt := e.cfg.pt, seq := e.seq, ssrc := e.cfg.ssrc, marker := true, payload := f }
      (by simp only; omega) hd1 rfl
    simp [emit, runDec, this]
  | n + 2, _ =>
    have hlow : (n + 1) * e.cfg.max < f.length := by simpa using hlow
    have hmul : (n + 1) * e.cfg.max = n * e.cfg.max + e.cfg.max := by rw [Nat.add_mul]; omega
    have hlen : e.cfg.max < f.length := by
      have : 0 ≤ n * e.cfg.max := Nat.zero_le _
      omega
    have htake : (f.take e.cfg.max).length = e.cfg.max := by simp [List.length_take]; omega
    let d1 : Dec := { d with size := e.cfg.max, fragments := d.fragments ++ [f.take e.cfg.max],
                             nextSeq := e.seq + 1 }
    let p0 : Pkt := { pt := e.cfg.pt, seq := e.seq, ssrc := e.cfg.ssrc, marker := false,
                      payload := f.take e.cfg.max }
    have hstep : decode d p0 = (d1, .more) := by
      have hc' : 0 < e.cfg.max := hc
      have := decode_first d p0 (by simp only [p0]; omega) hd1 rfl
      rw [this]; simp [d1, p0, htake]
    obtain ⟨d', hrun, hclean⟩ := run_mid e.cfg hc n (e.seq + 1) (f.drop e.cfg.max) d1
      (by simp [d1, hd2, htake]) (by simp [d1]; exact hc) (by simp [d1])
      (by simp only [List.length_drop]; omega) (by simp only [d1, List.length_drop]; omega)
    refine ⟨d', ?_, hclean⟩
    simp only [emit, runDec]
    rw [show ({ pt := e.cfg.pt, seq := e.seq, ssrc := e.cfg.ssrc, marker := false,
                payload := f.take e.cfg.max } : Pkt) = p0 from rfl, hstep, hrun]
    simp [d1, hd2, List.replicate_succ]

/-! ## C07 — resynchronisation: one intact frame from ANY state leaves the decoder clean -/

/-- after any packet that carries the marker and a non-empty payload the decoder is clean, whatever
its state was (mid-frame garbage, wrong expected sequence number, …) -/
theorem c07_marker_cleans (P : Nat) (d : Dec) (p : Pkt) (hi : Inv P d) (hm : p.marker = true)
    (hp : 0 < p.payload.length) : Clean (decode d p).1 := by
  have h0 : p.payload.length ≠ 0 := by omega
  by_cases hz : d.size = 0
  · rw [decode_single d p h0 hz hm]; exact ⟨hz, hi.empty hz⟩
  by_cases hs : p.seq = d.nextSeq
  · by_cases hb : d.size + p.payload.length > Codec.mpeg4videoMaxFrameSize
    · rw [decode_big d p h0 hz hs hb]; simp [Clean, Dec.reset]
    · rw [decode_last d p h0 hz hs hb hm]; simp [Clean]
  · rw [decode_gap d p h0 hz hs]; simp [Clean, Dec.reset]

theorem inv_run (P : Nat) (d : Dec) (ps : List Pkt) (hi : Inv P d)
    (hp : ∀ p ∈ ps, p.payload.length ≤ P) : Inv P (runDec d ps).1 := by
  induction ps generalizing d with
  | nil => simpa [runDec]
  | cons p ps ih =>
    simp only [runDec]
    exact ih _ (c08_inv_decode P d p hi (hp p (by simp))) (fun q hq => hp q (by simp [hq]))

theorem runDec_append (d : Dec) (ps qs : List Pkt) :
    runDec d (ps ++ qs) = ((runDec (runDec d ps).1 qs).1, (runDec d ps).2 ++ (runDec (runDec d ps).1 qs).2) := by
  induction ps generalizing d with
  | nil => simp [runDec]
  | cons p ps ih => simp [runDec, ih]

/-- **C07 flush**: from ANY reachable (invariant) state, the packets of one intact valid frame, in
order, leave the decoder clean — whatever was lost, duplicated or reordered before. -/
theorem c07_flush (P : Nat) (e : Enc) (f : Bytes) (d : Dec) (hi : Inv P d)
    (hc : ValidCfg e.cfg) (hf : ValidFrame f) (hP : e.cfg.max ≤ P) :
    Clean (runDec d (encode e f).2).1 := by
  obtain ⟨hf1, hf2⟩ := hf
  have hlen := emit_length e.cfg (packetCount e.cfg.max f.length) e.seq f
  have hp := ceilDiv_pos f.length e.cfg.max hc hf1
  rw [← packetCount_eq] at hp
  have hmark := c06_marker_only_last e f hc hf1
  have hsz := c06_payload_le e f hc
  have hlow := ceilDiv_lower f.length e.cfg.max hc hf1
  rw [← packetCount_eq] at hlow
  -- split the packet list into init ++ [last]
  have hne : (encode e f).2 ≠ [] := by
    intro h; unfold encode at h; simp only at h; rw [h] at hlen; simp at hlen; omega
  obtain ⟨ini, lst, hsplit⟩ : ∃ ini lst, (encode e f).2 = ini ++ [lst] :=
    ⟨_, _, (List.dropLast_concat_getLast hne).symm⟩
  rw [hsplit, runDec_append]
  simp only [runDec]
  have hinv := inv_run P d ini hi (fun p hp' => Nat.le_trans (hsz p (by rw [hsplit]; simp [hp'])) hP)
  -- the last packet carries the marker …
  have hm : lst.marker = true := by
    rw [hsplit] at hmark
    simp only [List.map_append, List.map_cons, List.map_nil, List.length_append, List.length_cons,
      List.length_nil, Nat.add_sub_cancel] at hmark
    have := congrArg List.getLast? hmark
    simpa using this
  -- … and a non-empty payload
  have hpl : 0 < lst.payload.length := by
    have : lst ∈ (encode e f).2 := by rw [hsplit]; simp
    exact last_payload_pos e f hc hf1 ini lst hsplit
  exact c07_marker_cleans P _ lst hinv hm hpl
where
  last_payload_pos (e : Enc) (f : Bytes) (hc : ValidCfg e.cfg) (hf1 : 0 < f.length) (ini : List Pkt)
      (lst : Pkt) (h : (encode e f).2 = ini ++ [lst]) : 0 < lst.payload.length := by
    have key : ∀ (n : Nat) (sq : UInt16) (rest : Bytes), n * e.cfg.max < rest.length →
        ∀ ini lst, emit e.cfg (n + 1) sq rest = ini ++ [lst] → 0 < lst.payload.length := by
      intro n
      induction n with
      | zero =>
        intro sq rest hlt ini lst h
        simp only [emit] at h
        have : ini = [] := by
          cases ini with
          | nil => rfl
          | cons a t => simp at h
        subst this; simp at h; subst h; simpa using hlt
      | succ n ih =>
        intro sq rest hlt ini lst h
        simp only [emit] at h
        cases ini with
        | nil => simp at h; have := congrArg List.length h.2; simp [emit_length] at this
        | cons a t =>
          simp only [List.cons_append, List.cons.injEq] at h
          apply ih (sq + 1) (rest.drop e.cfg.max) _ t lst h.2
          simp only [List.length_drop]
          have : (n + 1) * e.cfg.max = n * e.cfg.max + e.cfg.max := by rw [Nat.add_mul]; omega
          omega
    have hp := ceilDiv_pos f.length e.cfg.max hc hf1
    have hlow := ceilDiv_lower f.length e.cfg.max hc hf1
    rw [← packetCount_eq] at hp hlow
    unfold encode at h
    simp only at h
    obtain ⟨k, hk⟩ := Nat.exists_eq_succ_of_ne_zero (Nat.pos_iff_ne_zero.mp hp)
    rw [hk] at h hlow
    exact key k e.seq f (by simpa using hlow) ini lst h

/-- **C07 resynchronisation**: after ANY packet history `h` (arbitrary packets: this subsumes every
loss / duplication / reordering pattern applied to any stream), an intact frame `f` followed by an
intact frame `g` ends with exactly `g`, returned at `g`'s last packet and not before. -/
theorem c07_resync (P : Nat) (h : List Pkt) (e : Enc) (f g : Bytes)
    (hh : ∀ p ∈ h, p.payload.length ≤ P) (hc : ValidCfg e.cfg) (hP : e.cfg.max ≤ P)
    (hf : ValidFrame f) (hg : ValidFrame g) :
    let d0 := (runDec {} h).1
    let e1 := (encode e f).1
    ∃ d', runDec (runDec d0 (encode e f).2).1 (encode e1 g).2
        = (d', List.replicate ((encode e1 g).2.length - 1) .more ++ [.ok g]) ∧ Clean d' := by
  intro d0 e1
  have hinv : Inv P d0 := inv_run P {} h (c08_inv_init P) hh
  have hclean := c07_flush P e f d0 hinv hc hf hP
  have hc1 : ValidCfg e1.cfg := by simpa [e1, encode] using hc
  exact c03_roundtrip e1 g _ hc1 hg hclean

/-- expected decoder answers for a series of frames -/
def expected (e : Enc) : List Bytes → List (DecRes Bytes)
  | [] => []
  | f :: fs => List.replicate ((encode e f).2.length - 1) .more ++ [.ok f] ++ expected (encode e f).1 fs

/-- **C03, consecutive frames through the same encoder / decoder pair**: every frame of the series
comes back exactly, each at its own last packet, and the decoder ends clean. -/
theorem c03_roundtrip_many (e : Enc) (fs : List Bytes) (d : Dec)
    (hc : ValidCfg e.cfg) (hf : ∀ f ∈ fs, ValidFrame f) (hd : Clean d) :
    ∃ d', runDec d (encodeMany e fs).2 = (d', expected e fs) ∧ Clean d' := by
  induction fs generalizing e d with
  | nil => exact ⟨d, by simp [encodeMany, runDec, expected], hd⟩
  | cons f fs ih =>
    obtain ⟨d1, h1, hc1⟩ := c03_roundtrip e f d hc (hf f (by simp)) hd
    have hcfg : ValidCfg (encode e f).1.cfg := by simpa [encode] using hc
    obtain ⟨d2, h2, hc2⟩ := ih (encode e f).1 d1 hcfg (fun g hg => hf g (by simp [hg])) hc1
    refine ⟨d2, ?_, hc2⟩
    simp only [encodeMany, expected]
    rw [runDec_append, h1]
    simp only [h2]

/-! ## non-vacuity: the hypotheses are satisfiable by non-trivial values -/

/-- a 9-byte frame at limit 4 takes the fragmented path (3 packets) across a sequence-number wrap -/
def exEnc : Enc := { cfg := { pt := 96, ssrc := 7, max := 4 }, seq := 65535 }
def exFrame : Bytes := [1, 2, 3, 4, 5, 6, 7, 8, 9]

example : ValidCfg exEnc.cfg ∧ ValidFrame exFrame ∧ Clean {} := by decide
example : (encode exEnc exFrame).2.map (·.seq) = [65535, 0, 1] := by decide
example : (runDec {} (encode exEnc exFrame).2).2 = [.more, .more, .ok exFrame] := by decide

/-- a dirty state (mid-frame, wrong expected sequence number) satisfies the invariant -/
example : Inv 1500 { fragments := [[1,2],[3]], size := 3, nextSeq := 77 } :=
  ⟨by decide, by decide, by decide⟩

end Rtsp.Codec.Fragmented
