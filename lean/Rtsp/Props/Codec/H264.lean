import Rtsp.Proofs.Codec.H264Enc
/-
Property theorems for pkg/format/rtph264 (model: `Model/Codec/H264.lean`).

  C06  c06_payload_le, c06_seq_consecutive, c06_seq_many, c06_pt_ssrc, c06_marker_only_last

All statements quantify over every access unit, payload limit, sequence number, packet and
history; there is no bound on sizes or lengths.
-/
namespace Rtsp.Codec.H264
open Rtsp.Rtp Rtsp.Codec.H26x Rtsp.Facts

/-! ## C06 — packetiser: size limit, numbering, payload type / SSRC, marker -/

/-- **C06 size clause**: every payload is at most `PayloadMaxSize`, for every access unit whatever
its NALU sizes (below, at or above the limit; no hypothesis on the NALUs at all). -/
theorem c06_payload_le (e : Enc) (au : List Bytes) (hc : ValidCfg e.cfg) :
    ∀ p ∈ (encode e au).2, p.payload.length ≤ e.cfg.max := by
  intro p hp
  unfold encode at hp
  have hmem := mem_number_payload _ _ _ p hp
  obtain ⟨it, hit, heq⟩ := List.mem_map.mp hmem
  rw [← heq]
  exact writeBatches_payload_le e.cfg.max _ hc.1
    (splitBatches_ok 1 e.cfg.max [] au (Or.inl (by simp))) it hit

/-- **C06 numbering, one call**: the packets of one `Encode` carry `seq, seq+1, …` (mod 2^16) and
the encoder continues after them. -/
theorem c06_seq_consecutive (e : Enc) (au : List Bytes) :
    (encode e au).2.map (·.seq) = seqFrom e.seq (encode e au).2.length ∧
    (encode e au).1.seq = e.seq + UInt16.ofNat (encode e au).2.length := by
  unfold encode
  simp [number_seq]

/-- a series of `Encode` calls through the same encoder -/
def encodeMany (e : Enc) : List (List Bytes) → Enc × List Pkt
  | [] => (e, [])
  | f :: fs =>
    let (e1, ps) := encode e f
    let (e2, qs) := encodeMany e1 fs
    (e2, ps ++ qs)

/-- **C06 numbering, any series of calls, any initial value (incl. wrap inside the run)**. -/
theorem c06_seq_many (e : Enc) (fs : List (List Bytes)) :
    (encodeMany e fs).2.map (·.seq) = seqFrom e.seq (encodeMany e fs).2.length ∧
    (encodeMany e fs).1.seq = e.seq + UInt16.ofNat (encodeMany e fs).2.length := by
  induction fs generalizing e with
  | nil => simp [encodeMany, seqFrom]
  | cons f fs ih =>
    obtain ⟨h1, h2⟩ := c06_seq_consecutive e f
    obtain ⟨h3, h4⟩ := ih (encode e f).1
    simp only [encodeMany, List.map_append, List.length_append]
    refine ⟨?_, ?_⟩
    · rw [seqFrom_append, h1, h3, h2]
    · rw [h4, h2]
      apply UInt16.toNat_inj.mp
      simp [UInt16.toNat_add, UInt16.toNat_ofNat']
      omega

/-- **C06 payload type and SSRC** are the configured ones on every packet. -/
theorem c06_pt_ssrc (e : Enc) (au : List Bytes) :
    ∀ p ∈ (encode e au).2, p.pt = e.cfg.pt ∧ p.ssrc = e.cfg.ssrc := by
  unfold encode; exact number_pt_ssrc _ _ _

/-- **C06 marker**: set on the packet that completes the access unit and on no other packet. -/
theorem c06_marker_only_last (e : Enc) (au : List Bytes) (hc : ValidCfg e.cfg)
    (hn : ∀ n ∈ au, n ≠ []) :
    (encode e au).2.map (·.marker) = List.replicate ((encode e au).2.length - 1) false ++ [true] := by
  unfold encode
  simp only [number_marker, number_length]
  have hflat := splitBatches_flatten 1 e.cfg.max [] au
  obtain ⟨k, hk⟩ := writeBatches_markers e.cfg.max (splitBatches 1 e.cfg.max [] au) hc.1
    (splitBatches_ne_nil _ _ _ _)
    (fun b hb n hn' => hn n (by
      have : n ∈ (splitBatches 1 e.cfg.max [] au).flatten := List.mem_flatten.mpr ⟨b, hb, hn'⟩
      rw [hflat] at this; simpa using this))
  unfold encodeItems
  have hl := congrArg List.length hk
  simp only [List.length_map, List.length_append, List.length_replicate, List.length_cons,
    List.length_nil] at hl
  rw [hk, hl]
  simp

/-! ## non-vacuity -/

/-- [SPS, PPS, 30-byte IDR, 2-byte SEI] at limit 12: STAP-A, 3 FU-A, single — across a wrap -/
def exEnc : Enc := { cfg := { pt := 96, ssrc := 7, max := 12 }, seq := 65534 }
def exAU : List Bytes :=
  [[0x67, 0x42, 0x00], [0x68, 0xce], 0x65 :: (List.range 29).map (fun i => UInt8.ofNat (i + 2)), [0x06, 0x05]]

example : ValidCfg exEnc.cfg ∧ ValidFrame exAU := by decide
example : (encode exEnc exAU).2.map (·.seq) = [65534, 65535, 0, 1, 2] := by decide
example : (encode exEnc exAU).2.map (·.marker) = [false, false, false, false, true] := by decide
example : (encode exEnc exAU).2.map (·.payload.length) = [10, 12, 12, 11, 2] := by decide

end Rtsp.Codec.H264
