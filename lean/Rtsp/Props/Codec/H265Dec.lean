import Rtsp.Proofs.Codec.H265Dec
/-
Property theorems for the decoder of pkg/format/rtph265 and for `format.H265.PTSEqualsDTS`
(model: `Model/Codec/H265.lean`).

  C08  c08_inv_init, c08_inv_decode, c08_inv_run, c08_retained_le, c08_fragment_count_le, c08_out_le,
       c08_out_nonempty,
       c08_split_total, c08_ap_total (no fuel exhaustion = the loops stop),
       c08_pts_total (PTSEqualsDTS: no out-of-range access, terminates)

All statements quantify over every packet (any payload bytes, sequence number, timestamp, marker)
and every history.  `P` is a bound on the payload size of the packets of the history.
-/
namespace Rtsp.Codec.H265
open Rtsp.Rtp Rtsp.Codec.H26x Rtsp.Facts

/-! ## C08 — hostile packets: invariant, bounded retention, bounded output -/

theorem c08_inv_init (P : Nat) : Inv P {} :=
  ⟨⟨rfl, by simp, fun _ => rfl, by simp⟩, ⟨rfl, rfl, by simp, by simp, by simp⟩⟩

/-- **C08**: the invariant is preserved by `Decode` on EVERY packet. -/
theorem c08_inv_decode (P : Nat) (d : Dec) (p : Pkt) (hi : Inv P d) (hp : p.payload.length ≤ P) :
    Inv P (decode d p).1 := (decode_spec P d p hi hp).1

/-- … hence by every history. -/
theorem c08_inv_run (P : Nat) (d : Dec) (ps : List Pkt) (hi : Inv P d)
    (hp : ∀ p ∈ ps, p.payload.length ≤ P) : Inv P (runDec d ps).1 := by
  induction ps generalizing d with
  | nil => simpa [runDec, runDecG]
  | cons p ps ih =>
    simp only [runDec, runDecG]
    exact ih _ (c08_inv_decode P d p hi (hp p (by simp))) (fun q hq => hp q (by simp [hq]))

/-- **C08 bounded memory**: the NALU under reassembly and the access unit being collected are capped
separately (each ≤ MaxAccessUnitSize, the first fragment alone ≤ one packet). -/
theorem c08_retained_le (P : Nat) (d : Dec) (hi : Inv P d) : retained d ≤ 2 * maxAU + P := by
  unfold retained
  rw [← hi.1.1, ← hi.2.2]
  have := hi.1.2
  have := hi.2.4
  omega

/-- **C08 bounded memory, number of slices**: the decoder never holds more byte slices than bytes
plus one (every stored fragment but the first data fragment, and every buffered NALU, is
non-empty), so the slice headers and the packet buffers they pin are bounded as well.  False before
/repo commit f1b05d6 (continuation fragments without data were stored without limit). -/
theorem c08_fragment_count_le (P : Nat) (d : Dec) (hi : Inv P d) :
    d.fragments.length + d.frameBuffer.length ≤ retained d + 1 ∧
    d.fragments.length ≤ maxAU + P + 1 ∧ d.frameBuffer.length ≤ maxNALUs := by
  have h1 := hi.1.1
  have h2 := hi.1.2
  have h4 := hi.1.4
  have hb : d.frameBuffer.length ≤ totalLen d.frameBuffer := by
    have := hi.2.5
    generalize d.frameBuffer = fb at this
    induction fb with
    | nil => simp
    | cons x xs ih =>
      have hx : x ≠ [] := this x (by simp)
      have hpos : 0 < x.length := by
        cases x with
        | nil => exact absurd rfl hx
        | cons a t => simp
      have := ih (fun n hn => this n (by simp [hn]))
      simp only [List.length_cons, totalLen, List.map_cons, List.sum_cons] at this ⊢
      omega
  refine ⟨?_, by omega, by rw [← hi.2.1]; exact hi.2.3⟩
  unfold retained
  omega

/-- **C08 output bound**: at most MaxNALUsPerAccessUnit NALUs and MaxAccessUnitSize bytes. -/
theorem c08_out_le (P : Nat) (d : Dec) (p : Pkt) (f : List Bytes) (hi : Inv P d)
    (hp : p.payload.length ≤ P) (h : (decode d p).2 = .ok f) :
    f.length ≤ maxNALUs ∧ totalLen f ≤ maxAU :=
  ((decode_spec P d p hi hp).2 f h).2.2

/-- **C08 "a frame or an error"**: a returned access unit has at least one NALU and no empty NALU
(false before /repo commit a0e65b7). -/
theorem c08_out_nonempty (P : Nat) (d : Dec) (p : Pkt) (f : List Bytes) (hi : Inv P d)
    (hp : p.payload.length ≤ P) (h : (decode d p).2 = .ok f) : f ≠ [] ∧ ∀ n ∈ f, n ≠ [] :=
  ⟨((decode_spec P d p hi hp).2 f h).1, ((decode_spec P d p hi hp).2 f h).2.1⟩

/-! ### totality -/

theorem c08_split_total (b : Bytes) (k : Nat) : splitNALUsF (b.length + 1 + k) b = splitNALUs b :=
  splitNALUsF_fuel _ _ b (by omega) (by omega)

theorem c08_ap_total (payload : Bytes) (acc : List Bytes) (k : Nat) :
    aggLoop false (payload.length + 1 + k) payload acc = aggLoop false (payload.length + 1) payload acc :=
  aggLoop_fuel false _ _ payload acc (by omega) (by omega)

/-! ### `format.H265.PTSEqualsDTS` -/

theorem ptsLoopC_eq (fuel : Nat) (payload : Bytes) (h : payload.length < fuel) (h2 : 2 ≤ payload.length) :
    ptsLoopC fuel payload = some (ptsLoop fuel payload) := by
  induction fuel generalizing payload with
  | zero => omega
  | succ fuel ih =>
    match payload, h2 with
    | hi :: lo :: rest, _ =>
      simp only [ptsLoopC, ptsLoop, List.length_cons, idx?, sliceFrom?, sliceTo?]
      simp only [List.getElem?_cons_zero, List.getElem?_cons_succ, Option.bind_eq_bind,
        Option.bind_some, Nat.le_add_left, if_true, List.drop_succ_cons, List.drop_zero]
      split
      · rfl
      · rename_i hsz
        have hle : hi.toNat * 256 + lo.toNat ≤ rest.length := by omega
        have hpos : 0 < hi.toNat * 256 + lo.toNat := by omega
        simp only [hle, if_true, Option.bind_some]
        have hhead : (rest.take (hi.toNat * 256 + lo.toNat))[0]? = some ((rest.take (hi.toNat * 256 + lo.toNat)).headD 0) := by
          cases rest with
          | nil => simp at hle; omega
          | cons r rs =>
            obtain ⟨k, hk⟩ := Nat.exists_eq_succ_of_ne_zero (Nat.pos_iff_ne_zero.mp hpos)
            rw [hk]; simp
        rw [hhead]
        simp only [Option.bind_some]
        split
        · rfl
        · split
          · rfl
          · split
            · rfl
            · exact ih _ (by simp only [List.length_drop, List.length_cons] at h ⊢; omega) (by omega)

/-- **C08 (PTSEqualsDTS)**: on EVERY payload the statement-by-statement rendering with checked
indices never hits an out-of-range access, stops within its fuel, and computes `ptsEqualsDts`. -/
theorem c08_pts_total (payload : Bytes) : ptsEqualsDtsC payload = some (ptsEqualsDts payload) := by
  match payload with
  | [] => simp [ptsEqualsDtsC, ptsEqualsDts]
  | b0 :: tl =>
    simp only [ptsEqualsDtsC, ptsEqualsDts, List.length_cons, idx?, sliceFrom?]
    simp only [Nat.add_one_ne_zero, if_false, List.getElem?_cons_zero, Option.bind_eq_bind,
      Option.bind_some]
    split
    · rfl
    · split
      · split
        · rfl
        · rename_i hlen
          have h2 : 2 ≤ tl.length + 1 := by omega
          simp only [h2, if_true, Option.bind_some]
          exact ptsLoopC_eq _ _ (by simp only [List.length_drop, List.length_cons]; omega)
            (by simp only [List.length_drop, List.length_cons]; omega)
      · split
        · split
          · rfl
          · rename_i hlen
            match tl, hlen with
            | [], h => simp at h
            | [_], h => simp at h
            | _ :: b2 :: tl2, _ =>
              simp only [List.getElem?_cons_succ, List.getElem?_cons_zero, Option.bind_some,
                List.getD_cons_succ, List.getD_cons_zero]
              split <;> rfl
        · rfl

/-! ## non-vacuity -/

example : Inv 1500 { fragments := [[0x26, 1], [1, 2, 3]], fragmentsSize := 5, fragmentNextSeqNum := 77,
                     frameBuffer := [[0x40, 1], [0x42, 1, 2]], frameBufferLen := 2, frameBufferSize := 5,
                     firstPacketReceived := true } :=
  ⟨⟨by decide, by decide, by decide, by decide⟩, ⟨by decide, by decide, by decide, by decide, by decide⟩⟩

example : ptsEqualsDts [0x60, 0x01, 0x00, 0x02, 0x02, 0x01, 0x00, 0x02, 0x42, 0x01] = true := by decide
example : ptsEqualsDtsC [0x60, 0x01, 0x00, 0x05, 0x02] = some false := by decide

end Rtsp.Codec.H265
