import Rtsp.Props.Codec.Mjpeg
/-
C03 for M-JPEG says "the reconstructed image has the same dimensions, quantisation tables and
entropy-coded data".  `c03_roundtrip` returns `rebuild j`; here the components are read back from
those bytes (fixed segment order of the decoder: SOI, DQT, SOF, 4 × DHT, SOS, data).
-/
namespace Rtsp.Codec.Mjpeg
open Rtsp.Rtp Rtsp.Facts

/-- the components of an image laid out as the decoder writes it -/
structure Parts where
  type0  : Bool          -- sampling 4:2:2 (type 0) rather than 4:2:0
  width  : Nat
  height : Nat
  tables : List Bytes
  data   : Bytes         -- everything after the SOS segment
deriving DecidableEq, Repr

/-- read the components back: SOI (2 bytes); DQT with its length field, tables at 65-byte strides;
SOF (19 bytes: height and width at offsets 5..8, sampling factor of component 0 at 11); the four
DHT segments (432 bytes) and SOS (14 bytes) are skipped -/
def readBack (img : Bytes) : Parts :=
  let b := img.drop 2
  let l := (b.getD 2 0).toNat * 256 + (b.getD 3 0).toNat
  let n := (l - 2) / 65
  let body := (b.drop 4).take (l - 2)
  let tables := (List.range n).map fun i => (body.drop (65 * i + 1)).take 64
  let b := b.drop (2 + l)
  { type0 := b.getD 11 0 == 0x21,
    height := (b.getD 5 0).toNat * 256 + (b.getD 6 0).toNat,
    width := (b.getD 7 0).toNat * 256 + (b.getD 8 0).toNat,
    tables := tables,
    data := b.drop (19 + 432 + 14) }

/-- the entropy-coded data as the decoder leaves it: with an end-of-image marker -/
def withEOI (data : Bytes) : Bytes := data ++ (if endsWithEOI data then [] else eoi)

theorem sof_shape (h : JHdr) (n : Nat) (hw : h.width < 65536) (hh : h.height < 65536) :
    ∃ q : UInt8, sof h n = [0xFF, 0xC0, 0, 17, 8, UInt8.ofNat (h.height / 256), UInt8.ofNat h.height,
      UInt8.ofNat (h.width / 256), UInt8.ofNat h.width, 3, 0,
      (if h.typ &&& 0x3f = 0 then 0x21 else 0x22), 0, 1, 0x11, q, 2, 0x11, q] := by
  refine ⟨if n % 256 = 2 then 1 else 0, ?_⟩
  simp only [sof, be16]
  split <;> rfl

theorem be16_back (n : Nat) (h : n < 65536) :
    (UInt8.ofNat (n / 256)).toNat * 256 + (UInt8.ofNat n).toNat = n := by
  simp only [UInt8.toNat_ofNat']; omega

theorem getD_append_lt (a b : Bytes) (k : Nat) (h : k < a.length) : (a ++ b).getD k 0 = a.getD k 0 := by
  simp [List.getD_eq_getElem?_getD, List.getElem?_append_left h]

/-- reading back an image of the decoder's shape: SOI, one DQT segment of declared length `l` with
body `Q`, 19 bytes of SOF `S`, 446 bytes of Huffman tables and SOS `R`, then the data `D` -/
theorem readBack_shape (s0 s1 : UInt8) (l : Nat) (Q S R D : Bytes) (hl : l < 65536) (hl2 : 2 ≤ l)
    (hQ : Q.length = l - 2) (hS : S.length = 19) (hR : R.length = 446) :
    readBack ([s0, s1] ++ ([0xFF, 0xDB] ++ be16 l ++ Q) ++ S ++ R ++ D) =
      { type0 := S.getD 11 0 == 0x21,
        height := (S.getD 5 0).toNat * 256 + (S.getD 6 0).toNat,
        width := (S.getD 7 0).toNat * 256 + (S.getD 8 0).toNat,
        tables := (List.range ((l - 2) / 65)).map fun i => (Q.drop (65 * i + 1)).take 64,
        data := D } := by
  have hb : ([s0, s1] ++ ([0xFF, 0xDB] ++ be16 l ++ Q) ++ S ++ R ++ D).drop 2
      = [0xFF, 0xDB, UInt8.ofNat (l / 256), UInt8.ofNat l] ++ (Q ++ (S ++ (R ++ D))) := by
    simp [be16]
  have hl' : (UInt8.ofNat (l / 256)).toNat * 256 + (UInt8.ofNat l).toNat = l := be16_back l hl
  have hbody : (([0xFF, 0xDB, UInt8.ofNat (l / 256), UInt8.ofNat l] ++ (Q ++ (S ++ (R ++ D)))).drop 4).take (l - 2) = Q := by
    show (Q ++ (S ++ (R ++ D))).take (l - 2) = Q
    exact List.take_left' hQ
  have hrest : ([0xFF, 0xDB, UInt8.ofNat (l / 256), UInt8.ofNat l] ++ (Q ++ (S ++ (R ++ D)))).drop (2 + l)
      = S ++ (R ++ D) := by
    have : 2 + l = 4 + (l - 2) := by omega
    rw [this, ← List.drop_drop]
    show (Q ++ (S ++ (R ++ D))).drop (l - 2) = S ++ (R ++ D)
    exact List.drop_left' hQ
  have hdata : (S ++ (R ++ D)).drop (19 + 432 + 14) = D := by
    have : 19 + 432 + 14 = 19 + 446 := rfl
    rw [this, ← List.drop_drop, List.drop_left' hS, List.drop_left' hR]
  unfold readBack
  simp only [hb]
  have g2 : ([0xFF, 0xDB, UInt8.ofNat (l / 256), UInt8.ofNat l] ++ (Q ++ (S ++ (R ++ D)))).getD 2 0 = UInt8.ofNat (l / 256) := rfl
  have g3 : ([0xFF, 0xDB, UInt8.ofNat (l / 256), UInt8.ofNat l] ++ (Q ++ (S ++ (R ++ D)))).getD 3 0 = UInt8.ofNat l := rfl
  simp only [g2, g3, hl', hbody, hrest, hdata]
  rw [getD_append_lt S _ 11 (by omega), getD_append_lt S _ 5 (by omega), getD_append_lt S _ 6 (by omega),
    getD_append_lt S _ 7 (by omega), getD_append_lt S _ 8 (by omega)]

theorem sos_length : sos.length = 14 := rfl

/-- **C03 (M-JPEG), components**: the image the decoder rebuilds carries exactly the input's
sampling type, dimensions, quantisation tables and entropy-coded data (closed by the end-of-image
marker). -/
theorem readBack_buildJpeg (h : JHdr) (ts : List Bytes) (data : Bytes)
    (hn : ts.length = 1 ∨ ts.length = 2) (ht : ∀ t ∈ ts, t.length = 64)
    (hw : h.width < 65536) (hh : h.height < 65536) :
    readBack (buildJpeg h ts data) =
      { type0 := (h.typ &&& 0x3f == 0), width := h.width, height := h.height, tables := ts,
        data := withEOI data } := by
  obtain ⟨q, hsof⟩ := sof_shape h ts.length hw hh
  have hbw := be16_back h.width hw
  have hbh := be16_back h.height hh
  have hsl : (sof h ts.length).length = 19 := by rw [hsof]; rfl
  have hR : (dhts ++ sos).length = 446 := by simp [dhts_length, sos_length]
  have hQl : (dqtBody 0 ts).length = 2 + 65 * ts.length - 2 := by
    rw [dqtBody_length, totalLen_tables ts ht]; omega
  have hsum : (ts.map fun t => 1 + t.length).sum = 65 * ts.length := by
    rcases hn with hn | hn
    · match ts, hn with
      | [t], _ => simp [ht t (by simp)]
    · match ts, hn with
      | [t, u], _ => simp [ht t (by simp), ht u (by simp)]
  have himg : buildJpeg h ts data
      = [0xFF, UInt8.ofNat CodecMisc.markerJpegSOI] ++ ([0xFF, 0xDB] ++ be16 (2 + 65 * ts.length) ++ dqtBody 0 ts)
          ++ sof h ts.length ++ (dhts ++ sos) ++ withEOI data := by
    simp only [buildJpeg, soi, dqt, hsum, withEOI, CodecMisc.markerJpegDQT, List.append_assoc]
    rfl
  rw [himg, readBack_shape _ _ (2 + 65 * ts.length) _ _ _ _ (by omega) (by omega) hQl hsl hR]
  have htyp : ((sof h ts.length).getD 11 0 == 0x21) = (h.typ &&& 0x3f == 0) := by
    rw [hsof]
    show ((if h.typ &&& 0x3f = 0 then (0x21 : UInt8) else 0x22) == 0x21) = _
    by_cases hc : h.typ &&& 0x3f = 0 <;> simp [hc]
  have hhe : ((sof h ts.length).getD 5 0).toNat * 256 + ((sof h ts.length).getD 6 0).toNat = h.height := by
    rw [hsof]; exact hbh
  have hwi : ((sof h ts.length).getD 7 0).toNat * 256 + ((sof h ts.length).getD 8 0).toNat = h.width := by
    rw [hsof]; exact hbw
  rw [htyp, hhe, hwi]
  congr 1
  -- the tables
  rcases hn with hn | hn
  · obtain ⟨t, rfl⟩ : ∃ t, ts = [t] := by
      match ts, hn with
      | [t], _ => exact ⟨t, rfl⟩
    have h1 : t.length = 64 := ht t (by simp)
    have e1 : List.take 64 t = t := List.take_of_length_le (by omega)
    simp [dqtBody, List.range_succ, e1]
  · obtain ⟨t, u, rfl⟩ : ∃ t u, ts = [t, u] := by
      match ts, hn with
      | [t, u], _ => exact ⟨t, u, rfl⟩
    have h1 : t.length = 64 := ht t (by simp)
    have h2 : u.length = 64 := ht u (by simp)
    have e1 : List.take 64 (t ++ UInt8.ofNat 1 :: (u ++ [])) = t := List.take_left' h1
    have e2 : List.take 64 (u ++ []) = u := by
      rw [List.append_nil]; exact List.take_of_length_le (by omega)
    have e3 : List.drop 65 (t ++ UInt8.ofNat 1 :: (u ++ [])) = u ++ [] := by
      rw [show 65 = 64 + 1 from rfl, ← List.drop_drop, List.drop_left' h1]; rfl
    have hr : (2 + 65 * [t, u].length - 2) / 65 = 2 := by simp
    simp only [dqtBody, hr, List.range_succ, List.range_zero, List.nil_append, List.cons_append,
      List.map_cons, List.map_nil, Nat.mul_zero, Nat.zero_add, Nat.mul_one, List.drop_succ_cons,
      List.drop_zero, e1, e3, e2]

/-- the statement of the M-JPEG round trip in terms of components: what the decoder returns for the
packets of a valid image reads back as that image -/
theorem c03_components (j : Jpeg) (c : EncCfg) (hf : ValidFrame c j) :
    readBack (rebuild j) =
      { type0 := (j.typ &&& 0x3f == 0), width := j.width, height := j.height, tables := j.tables,
        data := withEOI j.data } := by
  obtain ⟨_, hw1, hw2, hh1, hh2, htn, htl, _, _, _⟩ := hf
  exact readBack_buildJpeg _ _ _ htn htl (by show j.width < 65536; omega) (by show j.height < 65536; omega)

end Rtsp.Codec.Mjpeg
