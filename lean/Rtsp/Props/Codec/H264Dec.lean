import Rtsp.Proofs.Codec.H264Dec
/-
Property theorems for the decoder of pkg/format/rtph264 and for `format.H264.PTSEqualsDTS`
(model: `Model/Codec/H264.lean`).

  C08  c08_inv_init, c08_inv_decode, c08_inv_run, c08_retained_le, c08_fragment_count_le, c08_out_le,
       c08_out_nonempty,
       c08_split_total, c08_stap_total, c08_annexb_total (no fuel exhaustion = the loops stop),
       c08_pts_total (PTSEqualsDTS: no out-of-range access, terminates)

All statements quantify over every packet (any payload bytes, sequence number, timestamp, marker)
and every history.  `P` is a bound on the payload size of the packets of the history (65535 for
anything that arrived in a UDP datagram or an interleaved frame).
-/
namespace Rtsp.Codec.H264
open Rtsp.Rtp Rtsp.Codec.H26x Rtsp.Facts

/-! ## C08 — hostile packets: invariant, bounded retention, bounded output -/

theorem c08_inv_init (P : Nat) : Inv P {} :=
  ⟨⟨rfl, by simp, fun _ => rfl, by simp⟩, ⟨rfl, rfl, by simp, by simp, by simp⟩⟩

/-- **C08**: the invariant is preserved by `Decode` on EVERY packet. -/
theorem c08_inv_decode (P : Nat) (d : Dec) (p : Pkt) (hi : Inv P d) (hp : p.payload.length ≤ P) :
    Inv P (decode d p).1 := (decode_spec P d p hi hp).1

/-- … hence by every history. -/
theorem c08_inv_run (P : Nat) (d : Dec) (ps : List Pkt) (hi : Inv P d)
    (hp : ∀ p ∈ ps, p.payload.length ≤ P) : Inv P (runDec d ps).1 := by
  induction ps generalizing d with
  | nil => simpa [runDec, runDecG]
  | cons p ps ih =>
    simp only [runDec, runDecG]
    exact ih _ (c08_inv_decode P d p hi (hp p (by simp))) (fun q hq => hp q (by simp [hq]))

/-- **C08 bounded memory**: the NALU under reassembly (≤ MaxAccessUnitSize, or the first fragment
alone) and the access unit being collected (≤ MaxAccessUnitSize) are capped separately, so the
decoder never references more than twice the documented maximum plus one packet. -/
theorem c08_retained_le (P : Nat) (d : Dec) (hi : Inv P d) : retained d ≤ 2 * maxAU + P := by
  unfold retained
  rw [← hi.1.1, ← hi.2.2]
  have := hi.1.2
  have := hi.2.4
  omega

/-- **C08 bounded memory, number of slices**: the decoder never holds more byte slices than bytes
plus one (every stored fragment but the first data fragment, and every buffered NALU, is
non-empty), so the slice headers and the packet buffers they pin are bounded as well.  False before
/repo commit f1b05d6 (continuation fragments without data were stored without limit). -/
theorem c08_fragment_count_le (P : Nat) (d : Dec) (hi : Inv P d) :
    d.fragments.length + d.frameBuffer.length ≤ retained d + 1 ∧
    d.fragments.length ≤ maxAU + P + 1 ∧ d.frameBuffer.length ≤ maxNALUs := by
  have h1 := hi.1.1
  have h2 := hi.1.2
  have h4 := hi.1.4
  have hb : d.frameBuffer.length ≤ totalLen d.frameBuffer := by
    have := hi.2.5
    generalize d.frameBuffer = fb at this
    induction fb with
    | nil => simp
    | cons x xs ih =>
      have hx : x ≠ [] := this x (by simp)
      have hpos : 0 < x.length := by
        cases x with
        | nil => exact absurd rfl hx
        | cons a t => simp
      have := ih (fun n hn => this n (by simp [hn]))
      simp only [List.length_cons, totalLen, List.map_cons, List.sum_cons] at this ⊢
      omega
  refine ⟨?_, by omega, by rw [← hi.2.1]; exact hi.2.3⟩
  unfold retained
  omega

/-- **C08 output bound**: a returned access unit has at most MaxNALUsPerAccessUnit NALUs and at
most MaxAccessUnitSize bytes. -/
theorem c08_out_le (P : Nat) (d : Dec) (p : Pkt) (f : List Bytes) (hi : Inv P d)
    (hp : p.payload.length ≤ P) (h : (decode d p).2 = .ok f) :
    f.length ≤ maxNALUs ∧ totalLen f ≤ maxAU :=
  ((decode_spec P d p hi hp).2 f h).2.2

/-- **C08 "a frame or an error"**: a returned access unit has at least one NALU and no empty NALU
(what upstream's fuzz target asserts; false before /repo commit a0e65b7). -/
theorem c08_out_nonempty (P : Nat) (d : Dec) (p : Pkt) (f : List Bytes) (hi : Inv P d)
    (hp : p.payload.length ≤ P) (h : (decode d p).2 = .ok f) : f ≠ [] ∧ ∀ n ∈ f, n ≠ [] :=
  ⟨((decode_spec P d p hi hp).2 f h).1, ((decode_spec P d p hi hp).2 f h).2.1⟩

/-! ### totality: the fuel the model passes to its loops is never exhausted -/

/-- `splitNALUs`: more fuel changes nothing (every iteration removes ≥ 3 bytes) -/
theorem c08_split_total (b : Bytes) (k : Nat) : splitNALUsF (b.length + 1 + k) b = splitNALUs b :=
  splitNALUsF_fuel _ _ b (by omega) (by omega)

/-- the STAP-A walk -/
theorem c08_stap_total (payload : Bytes) (acc : List Bytes) (k : Nat) :
    aggLoop true (payload.length + 1 + k) payload acc = aggLoop true (payload.length + 1) payload acc :=
  aggLoop_fuel true _ _ payload acc (by omega) (by omega)

/-- the Annex-B walk (in `annexBBody` the fuel is `len(buf)+1`, the walk starts after the delimiter) -/
theorem c08_annexb_total (rest : Bytes) (acc : List Bytes) (sz k : Nat) :
    annexBLoop (rest.length + 1 + k) rest acc sz = annexBLoop (rest.length + 1) rest acc sz :=
  annexBLoop_fuel _ _ rest acc sz (by omega) (by omega)

/-! ### `format.H264.PTSEqualsDTS`: every index / slice expression is in range, the walk stops -/

theorem ptsLoopC_eq (fuel : Nat) (payload : Bytes) (h : payload.length < fuel) :
    ptsLoopC fuel payload = some (ptsLoop fuel payload) := by
  induction fuel generalizing payload with
  | zero => omega
  | succ fuel ih =>
    match payload with
    | [] => simp [ptsLoopC, ptsLoop]
    | [_] => simp [ptsLoopC, ptsLoop]
    | hi :: lo :: rest =>
      simp only [ptsLoopC, ptsLoop, List.length_cons, idx?, sliceFrom?, sliceTo?]
      have h2 : ¬ (rest.length + 1 + 1 < 2) := by omega
      simp only [h2, if_false, List.getElem?_cons_zero, List.getElem?_cons_succ, Option.bind_eq_bind,
        Option.bind_some, Nat.le_add_left, if_true, List.drop_succ_cons, List.drop_zero]
      split
      · rfl
      · rename_i hsz
        have hle : hi.toNat * 256 + lo.toNat ≤ rest.length := by omega
        have hpos : 0 < hi.toNat * 256 + lo.toNat := by omega
        simp only [hle, if_true, Option.bind_some]
        have hhead : (rest.take (hi.toNat * 256 + lo.toNat))[0]? = some ((rest.take (hi.toNat * 256 + lo.toNat)).headD 0) := by
          cases rest with
          | nil => simp at hle; omega
          | cons r rs =>
            obtain ⟨k, hk⟩ := Nat.exists_eq_succ_of_ne_zero (Nat.pos_iff_ne_zero.mp hpos)
            rw [hk]; simp
        rw [hhead]
        simp only [Option.bind_some]
        split
        · rfl
        · split
          · rfl
          · exact ih _ (by simp only [List.length_drop, List.length_cons] at h ⊢; omega)

/-- **C08 (PTSEqualsDTS)**: on EVERY payload the statement-by-statement rendering with checked
indices never hits an out-of-range access, stops within its fuel, and computes `ptsEqualsDts`. -/
theorem c08_pts_total (payload : Bytes) : ptsEqualsDtsC payload = some (ptsEqualsDts payload) := by
  match payload with
  | [] => simp [ptsEqualsDtsC, ptsEqualsDts]
  | b0 :: tl =>
    simp only [ptsEqualsDtsC, ptsEqualsDts, List.length_cons, idx?, sliceFrom?]
    simp only [Nat.add_one_ne_zero, if_false, List.getElem?_cons_zero, Option.bind_eq_bind,
      Option.bind_some, Nat.le_add_left, if_true, List.drop_succ_cons, List.drop_zero]
    split
    · rfl
    · split
      · exact ptsLoopC_eq _ _ (by omega)
      · split
        · match tl with
          | [] => simp
          | b1 :: tl2 =>
            simp only [List.length_cons, List.getElem?_cons_succ, List.getElem?_cons_zero, Option.bind_some]
            have : ¬ (tl2.length + 1 + 1 < 2) := by omega
            simp only [this, if_false]
            split <;> rfl
        · rfl

/-! ## non-vacuity -/

/-- a dirty state: a half-reassembled NALU, a stale access unit, wrong expected sequence number -/
example : Inv 1500 { fragments := [[0x65], [1, 2, 3]], fragmentsSize := 4, fragmentNextSeqNum := 77,
                     frameBuffer := [[0x67, 1], [0x68]], frameBufferLen := 2, frameBufferSize := 3,
                     frameBufferTimestamp := 9000, firstPacketReceived := true } :=
  ⟨⟨by decide, by decide, by decide, by decide⟩, ⟨by decide, by decide, by decide, by decide, by decide⟩⟩

example : ptsEqualsDts [0x18, 0x00, 0x01, 0x09, 0x00, 0x02, 0x67, 0x42] = true := by decide
example : ptsEqualsDtsC [0x18, 0x00, 0x05, 0x09] = some false := by decide

end Rtsp.Codec.H264
