import Rtsp.Model.Codec.Vp8
import Rtsp.Proofs.Codec.Av1VpCommon
/-
Property theorems for pkg/format/rtpvp8 (encoder.go + pion VP8Payloader, decoder.go + pion
VP8Packet), about the model in `Model/Codec/Vp8.lean`.

  C06  c06_encode_some, c06_payload_le, c06_seq_consecutive, c06_seq_many, c06_pt_ssrc, c06_marker_only_last
  C08  c08_inv_init, c08_inv_decode, c08_retained_le, c08_fragment_count_le, c08_out_le
  C03  c03_roundtrip (from ANY decoder state), c03_roundtrip_many, c03_roundtrip_list
  C07  c07_flush, c07_resync

All statements quantify over every frame, payload limit, sequence number, packet and history.
-/
namespace Rtsp.Codec.Vp8
open Rtsp.Rtp Rtsp.Facts Rtsp.Codec.Av1Vp

/-! ## validity -/

/-- The limit must leave room for the 1-byte payload descriptor and one byte of data; it is
converted to `uint16` by the encoder (65536 would become 0 and `Encode` panics). -/
def ValidCfg (c : EncCfg) : Prop := 2 ≤ c.max ∧ c.max ≤ 65535

/-- non-empty (an empty frame makes `Encode` panic) and at most `vp8.MaxFrameSize` (larger frames are
refused by the decoder) -/
def ValidFrame (f : Bytes) : Prop := 0 < f.length ∧ f.length ≤ CodecAv1vp.vp8MaxFrameSize

instance (c : EncCfg) : Decidable (ValidCfg c) := by unfold ValidCfg; infer_instance
instance (f : Bytes) : Decidable (ValidFrame f) := by unfold ValidFrame; infer_instance

/-- the payloads of a frame: descriptor byte `0x10` (S = 1, PID = 0) on the first chunk, `0x00` on
the others -/
def payloads (k : Nat) (f : Bytes) : List Bytes :=
  match chunks k f.length f with
  | [] => []
  | c :: cs => ((0x10 : UInt8) :: c) :: cs.map fun c => (0 : UInt8) :: c

theorem payloader_valid (c : EncCfg) (f : Bytes) (hc : ValidCfg c) (hf : 0 < f.length) :
    payloader (c.max % 65536) f = some (payloads (c.max - 1) f) := by
  obtain ⟨h1, h2⟩ := hc
  have hm : c.max % 65536 = c.max := Nat.mod_eq_of_lt (by omega)
  have hmin : ¬ (min ((c.max : Int) - 1) (f.length : Int) ≤ 0) := by omega
  have hk : ((c.max : Int) - 1).toNat = c.max - 1 := by omega
  unfold payloader payloads
  simp only [hm]
  have e1 : ((c.max : Int) - ((CodecAv1vp.vp8HeaderSize : Nat) : Int)) = (c.max : Int) - 1 := rfl
  rw [e1, if_neg hmin, hk]
  rfl

theorem encode_valid (e : Enc) (f : Bytes) (hc : ValidCfg e.cfg) (hf : 0 < f.length) :
    encode e f = some ({ e with seq := e.seq + UInt16.ofNat (payloads (e.cfg.max - 1) f).length },
                       emit e.cfg e.seq (payloads (e.cfg.max - 1) f)) := by
  simp [encode, payloader_valid e.cfg f hc hf]

/-- the chunk list of a non-empty frame, split at the head -/
theorem chunks_split (k : Nat) (f : Bytes) (hf : 0 < f.length) :
    ∃ c cs, chunks k f.length f = c :: cs := by
  have := chunks_ne_nil k f.length f hf hf
  cases h : chunks k f.length f with
  | nil => exact absurd h this
  | cons c cs => exact ⟨c, cs, rfl⟩

/-! ## C06 -/

/-- **C06 / C03 "encoder accepts every valid frame"**: no panic. -/
theorem c06_encode_some (e : Enc) (f : Bytes) (hc : ValidCfg e.cfg) (hf : ValidFrame f) :
    (encode e f).isSome := by
  rw [encode_valid e f hc hf.1]; rfl

theorem payloads_le (k : Nat) (hk : 0 < k) (f : Bytes) : ∀ x ∈ payloads k f, x.length ≤ k + 1 := by
  intro x hx
  have hm := chunks_mem k hk f.length f
  unfold payloads at hx
  split at hx
  · simp at hx
  · rename_i c cs heq
    rw [heq] at hm
    simp only [List.mem_cons, List.mem_map] at hx
    rcases hx with hx | ⟨y, hy, hx⟩
    · subst hx; have := hm c (by simp); simp; omega
    · subst hx; have := hm y (by simp [hy]); simp; omega

/-- **C06 size clause**: every payload (descriptor byte included) is at most `PayloadMaxSize`. -/
theorem c06_payload_le (e e' : Enc) (f : Bytes) (ps : List Pkt) (hc : ValidCfg e.cfg) (hf : 0 < f.length)
    (h : encode e f = some (e', ps)) : ∀ p ∈ ps, p.payload.length ≤ e.cfg.max := by
  rw [encode_valid e f hc hf] at h
  simp only [Option.some.injEq, Prod.mk.injEq] at h
  rw [← h.2]
  have hk : 0 < e.cfg.max - 1 := by have := hc.1; omega
  apply emit_payload_le
  intro x hx
  have := payloads_le (e.cfg.max - 1) hk f x hx
  have := hc.1
  omega

/-- **C06 numbering, one call** (holds for every configuration and frame, valid or not). -/
theorem c06_seq_consecutive (e e' : Enc) (f : Bytes) (ps : List Pkt) (h : encode e f = some (e', ps)) :
    ps.map (·.seq) = seqFrom e.seq ps.length ∧ e'.seq = e.seq + UInt16.ofNat ps.length ∧ e'.cfg = e.cfg := by
  unfold encode at h
  split at h
  · simp at h
  · simp only [Option.some.injEq, Prod.mk.injEq] at h
    obtain ⟨h1, h2⟩ := h
    subst h1 h2
    simp [emit_seq, emit_length]

/-- a series of `Encode` calls through the same encoder (`none` = one of them panicked) -/
def encodeMany (e : Enc) : List Bytes → Option (Enc × List Pkt)
  | [] => some (e, [])
  | f :: fs =>
    match encode e f with
    | none => none
    | some (e1, ps) =>
      match encodeMany e1 fs with
      | none => none
      | some (e2, qs) => some (e2, ps ++ qs)

/-- **C06 numbering, any series of calls, any initial value (incl. wrap inside the run)**. -/
theorem c06_seq_many (e e' : Enc) (fs : List Bytes) (ps : List Pkt) (h : encodeMany e fs = some (e', ps)) :
    ps.map (·.seq) = seqFrom e.seq ps.length ∧ e'.seq = e.seq + UInt16.ofNat ps.length := by
  induction fs generalizing e ps with
  | nil => simp [encodeMany] at h; obtain ⟨h1, h2⟩ := h; subst h1 h2; simp [seqFrom]
  | cons f fs ih =>
    simp only [encodeMany] at h
    split at h
    · simp at h
    · rename_i e1 qs he
      split at h
      · simp at h
      · rename_i e2 rs hm
        simp only [Option.some.injEq, Prod.mk.injEq] at h
        obtain ⟨h1, h2⟩ := h
        subst h1 h2
        obtain ⟨a1, a2, _⟩ := c06_seq_consecutive e e1 f qs he
        obtain ⟨b1, b2⟩ := ih e1 rs hm
        simp only [List.map_append, List.length_append]
        refine ⟨?_, ?_⟩
        · rw [seqFrom_append, a1, b1, a2]
        · rw [b2, a2]
          apply UInt16.toNat_inj.mp
          simp [UInt16.toNat_add, UInt16.toNat_ofNat']
          omega

/-- **C06 payload type and SSRC**. -/
theorem c06_pt_ssrc (e e' : Enc) (f : Bytes) (ps : List Pkt) (h : encode e f = some (e', ps)) :
    ∀ p ∈ ps, p.pt = e.cfg.pt ∧ p.ssrc = e.cfg.ssrc := by
  unfold encode at h
  split at h
  · simp at h
  · simp only [Option.some.injEq, Prod.mk.injEq] at h
    rw [← h.2]; exact emit_pt_ssrc _ _ _

theorem payloads_ne_nil (k : Nat) (f : Bytes) (hf : 0 < f.length) : payloads k f ≠ [] := by
  obtain ⟨c, cs, h⟩ := chunks_split k f hf
  simp [payloads, h]

/-- **C06 marker**: on the last packet of the frame and on no other. -/
theorem c06_marker_only_last (e e' : Enc) (f : Bytes) (ps : List Pkt) (hc : ValidCfg e.cfg)
    (hf : 0 < f.length) (h : encode e f = some (e', ps)) :
    ps.map (·.marker) = List.replicate (ps.length - 1) false ++ [true] := by
  rw [encode_valid e f hc hf] at h
  simp only [Option.some.injEq, Prod.mk.injEq] at h
  rw [← h.2, emit_length]
  exact emit_markers _ _ _ (payloads_ne_nil _ f hf)

/-! ## C08 -/

/-- state invariant: the size field is the number of bytes held, and never above `MaxFrameSize`
(the VP8 decoder checks the cap on every chunk, the first included) -/
structure Inv (d : Dec) : Prop where
  size_eq : d.frameBufferSize = totalLen d.frameBuffer
  size_le : d.frameBufferSize ≤ CodecAv1vp.vp8MaxFrameSize
  ne      : ∀ x ∈ d.frameBuffer, 0 < x.length

def Clean (d : Dec) : Prop := d.frameBufferSize = 0 ∧ d.frameBuffer = []

instance (d : Dec) : Decidable (Clean d) := by unfold Clean; infer_instance

theorem c08_inv_init : Inv {} := ⟨rfl, by simp, by simp⟩

theorem inv_reset (d : Dec) : Inv d.reset := ⟨rfl, by simp [Dec.reset], by simp [Dec.reset]⟩

theorem isEmpty_false_pos (x : Bytes) (h : ¬ x.isEmpty = true) : 0 < x.length := by
  cases x with
  | nil => simp at h
  | cons a t => simp

/-- `decodeFrameChunk` keeps the invariant and, when it yields a chunk, the chunk is non-empty -/
theorem chunk_inv (d : Dec) (p : Pkt) (hi : Inv d) :
    Inv (decodeFrameChunk d p).1 ∧ ∀ c, (decodeFrameChunk d p).2 = .ok c → 0 < c.length := by
  unfold decodeFrameChunk
  split
  · exact ⟨inv_reset d, by intro c h; simp at h⟩
  · split
    · exact ⟨inv_reset d, by intro c h; simp at h⟩
    · rename_i v _ hne
      have hpos := isEmpty_false_pos v.payload hne
      split
      · exact ⟨⟨rfl, by simp [Dec.reset], by simp [Dec.reset]⟩, by intro c h; simp at h; rw [← h]; exact hpos⟩
      · split
        · exact ⟨hi, by intro c h; simp at h⟩
        · split
          · exact ⟨inv_reset d, by intro c h; simp at h⟩
          · exact ⟨⟨hi.size_eq, hi.size_le, hi.ne⟩, by intro c h; simp at h; rw [← h]; exact hpos⟩

/-- **C08**: the invariant is preserved by `Decode` on EVERY packet. -/
theorem c08_inv_decode (d : Dec) (p : Pkt) (hi : Inv d) : Inv (decode d p).1 := by
  obtain ⟨h, hne⟩ := chunk_inv d p hi
  unfold decode
  split
  · rename_i d1 heq; rw [heq] at h; exact h
  · rename_i d1 heq; rw [heq] at h; exact h
  · rename_i d1 chunk heq
    rw [heq] at h hne
    simp only at h hne ⊢
    have hc := hne chunk rfl
    split
    · exact inv_reset d1
    · rename_i hle
      split
      · refine ⟨by simp [h.size_eq], by simp only; omega, ?_⟩
        intro x hx
        simp only [List.mem_append, List.mem_singleton] at hx
        rcases hx with hx | hx
        · exact h.ne x hx
        · subst hx; exact hc
      · exact inv_reset _

/-- **C08 bounded memory**: retained bytes ≤ `vp8.MaxFrameSize` (2 MiB). -/
theorem c08_retained_le (d : Dec) (hi : Inv d) : retained d ≤ CodecAv1vp.vp8MaxFrameSize := by
  unfold retained; rw [← hi.size_eq]; exact hi.size_le

/-- **C08 bounded number of retained slices**: every retained chunk is non-empty, so the decoder
never holds more chunks than bytes (no growth by empty fragments). -/
theorem c08_fragment_count_le (d : Dec) (hi : Inv d) :
    d.frameBuffer.length ≤ retained d ∧ d.frameBuffer.length ≤ CodecAv1vp.vp8MaxFrameSize := by
  have h1 := length_le_totalLen d.frameBuffer hi.ne
  have h2 := c08_retained_le d hi
  unfold retained at *
  omega

/-- **C08 output bound**: no returned frame exceeds `vp8.MaxFrameSize`. -/
theorem c08_out_le (d : Dec) (p : Pkt) (f : Bytes) (h : (decode d p).2 = .ok f) :
    f.length ≤ CodecAv1vp.vp8MaxFrameSize := by
  unfold decode at h
  split at h
  · simp at h
  · simp at h
  · simp only at h
    split at h
    · simp at h
    · split at h
      · simp at h
      · simp only [DecRes.ok.injEq] at h
        rw [← h, joinFragments_length]
        omega

/-! ## C03 / C07 -/

theorem tb_10_80 : tb 0x10 0x80 = false := by decide
theorem tb_10_10 : tb 0x10 0x10 = true := by decide
theorem pid_10 : ((0x10 : UInt8) &&& 0x07).toNat = 0 := by decide
theorem tb_00_80 : tb 0 0x80 = false := by decide
theorem tb_00_10 : tb 0 0x10 = false := by decide
theorem pid_00 : ((0 : UInt8) &&& 0x07).toNat = 0 := by decide

theorem unmarshal_first (c : Bytes) : unmarshal ((0x10 : UInt8) :: c) = some { s := true, pid := 0, payload := c } := by
  simp [unmarshal, tb_10_80, tb_10_10]

theorem unmarshal_next (c : Bytes) : unmarshal ((0 : UInt8) :: c) = some { s := false, pid := 0, payload := c } := by
  simp [unmarshal, tb_00_80, tb_00_10]

/-- first packet of a frame: from ANY state the decoder restarts with exactly this chunk -/
theorem decode_first (d : Dec) (pt : UInt8) (sq : UInt16) (ssrc : UInt32) (m : Bool) (c : Bytes)
    (hc : 0 < c.length) (hle : c.length ≤ CodecAv1vp.vp8MaxFrameSize) :
    decode d { pt := pt, seq := sq, ssrc := ssrc, marker := m, payload := (0x10 : UInt8) :: c } =
      if m then ({ d.reset with firstPacketReceived := true, nextSeq := 0 }, .ok c)
      else ({ firstPacketReceived := true, frameBuffer := [c], frameBufferSize := c.length, nextSeq := sq + 1 }, .more) := by
  have hne : c.isEmpty = false := by cases c with | nil => simp at hc | cons a t => rfl
  have hgt : ¬ c.length > CodecAv1vp.vp8MaxFrameSize := by omega
  have hj : joinFragments [c] c.length = c := by
    have := joinFragments_exact [c]; simpa using this
  simp only [decode, decodeFrameChunk, unmarshal_first, hne, Dec.reset]
  cases m <;> simp [hgt, hj]

/-- a following packet of a frame, for a decoder that holds the earlier chunks -/
theorem decode_next (d : Dec) (pt : UInt8) (ssrc : UInt32) (m : Bool) (c : Bytes)
    (hc : 0 < c.length) (hpos : 0 < d.frameBufferSize)
    (hle : d.frameBufferSize + c.length ≤ CodecAv1vp.vp8MaxFrameSize) :
    decode d { pt := pt, seq := d.nextSeq, ssrc := ssrc, marker := m, payload := (0 : UInt8) :: c } =
      if m then ({ d.reset with firstPacketReceived := true },
                 .ok (joinFragments (d.frameBuffer ++ [c]) (d.frameBufferSize + c.length)))
      else ({ d with firstPacketReceived := true, frameBuffer := d.frameBuffer ++ [c],
                     frameBufferSize := d.frameBufferSize + c.length, nextSeq := d.nextSeq + 1 }, .more) := by
  have hne : c.isEmpty = false := by cases c with | nil => simp at hc | cons a t => rfl
  have hgt : ¬ d.frameBufferSize + c.length > CodecAv1vp.vp8MaxFrameSize := by omega
  have hz : d.frameBufferSize ≠ 0 := by omega
  simp only [decode, decodeFrameChunk, unmarshal_next, hne, Dec.reset]
  cases m <;> simp [hgt, hz]

/-- feeding the remaining packets of a frame to a decoder that holds the earlier chunks -/
theorem run_tail (c : EncCfg) (cs : List Bytes) (hne : cs ≠ []) (hall : ∀ x ∈ cs, 0 < x.length)
    (sq : UInt16) (d : Dec) (hsz : d.frameBufferSize = totalLen d.frameBuffer)
    (hpos : 0 < d.frameBufferSize) (hseq : d.nextSeq = sq)
    (hcap : d.frameBufferSize + totalLen cs ≤ CodecAv1vp.vp8MaxFrameSize) :
    ∃ d', runDec d (emit c sq (cs.map fun x => (0 : UInt8) :: x))
        = (d', List.replicate (cs.length - 1) .more ++ [.ok (d.frameBuffer.flatten ++ cs.flatten)]) ∧ Clean d' := by
  induction cs generalizing sq d with
  | nil => exact absurd rfl hne
  | cons a t ih =>
    have ha : 0 < a.length := hall a (by simp)
    have htl : totalLen (a :: t) = a.length + totalLen t := by simp [totalLen]
    cases t with
    | nil =>
      have hstep := decode_next d c.pt c.ssrc true a ha hpos (by simp [totalLen] at hcap; omega)
      subst hseq
      refine ⟨{ d.reset with firstPacketReceived := true }, ?_, by simp [Clean, Dec.reset]⟩
      simp only [List.map_cons, List.map_nil, emit_single, runDec, hstep, if_true]
      have e : d.frameBufferSize + a.length = totalLen (d.frameBuffer ++ [a]) := by simp [hsz]
      rw [e, joinFragments_exact]
      simp
    | cons b t =>
      subst hseq
      have hstep := decode_next d c.pt c.ssrc false a ha hpos (by rw [htl] at hcap; omega)
      let d1 : Dec := { d with firstPacketReceived := true, frameBuffer := d.frameBuffer ++ [a],
                               frameBufferSize := d.frameBufferSize + a.length, nextSeq := d.nextSeq + 1 }
      obtain ⟨d', hrun, hclean⟩ := ih (by simp) (fun x hx => hall x (by simp [hx])) (d.nextSeq + 1) d1
        (by simp [d1, hsz]) (by simp [d1]; omega) rfl (by simp only [d1]; rw [htl] at hcap; omega)
      refine ⟨d', ?_, hclean⟩
      simp only [List.map_cons, emit_cons_cons, runDec, hstep] at hrun ⊢
      simp only [Bool.false_eq_true, if_false]
      rw [hrun]
      simp [d1, List.replicate_succ, List.append_assoc]

/-- **C03 round trip**: for every valid configuration and frame, from ANY decoder state (the first
packet carries S = 1, PID = 0 and restarts the decoder), the decoder answers "more packets needed"
on all packets but the last, returns exactly the frame at the last one and is clean afterwards. -/
theorem c03_roundtrip (e e' : Enc) (f : Bytes) (ps : List Pkt) (d : Dec)
    (hc : ValidCfg e.cfg) (hf : ValidFrame f) (h : encode e f = some (e', ps)) :
    ∃ d', runDec d ps = (d', List.replicate (ps.length - 1) .more ++ [.ok f]) ∧ Clean d' := by
  obtain ⟨hf1, hf2⟩ := hf
  rw [encode_valid e f hc hf1] at h
  simp only [Option.some.injEq, Prod.mk.injEq] at h
  rw [← h.2, emit_length]
  have hk : 0 < e.cfg.max - 1 := by have := hc.1; omega
  have hfl := chunks_flatten (e.cfg.max - 1) hk f.length f (Nat.le_refl _)
  have hmem := chunks_mem (e.cfg.max - 1) hk f.length f
  obtain ⟨c0, cs, hsplit⟩ := chunks_split (e.cfg.max - 1) f hf1
  rw [hsplit] at hfl hmem
  have hc0 : 0 < c0.length := (hmem c0 (by simp)).1
  have htot : c0.length + totalLen cs = f.length := by
    have := congrArg List.length hfl
    simpa [totalLen] using this
  have hpl : payloads (e.cfg.max - 1) f = ((0x10 : UInt8) :: c0) :: cs.map fun c => (0 : UInt8) :: c := by
    simp [payloads, hsplit]
  rw [hpl]
  cases cs with
  | nil =>
    have hstep := decode_first d e.cfg.pt e.seq e.cfg.ssrc true c0 hc0 (by simp [totalLen] at htot; omega)
    refine ⟨{ d.reset with firstPacketReceived := true, nextSeq := 0 }, ?_, by simp [Clean, Dec.reset]⟩
    simp only [List.map_nil, emit_single, runDec, hstep, if_true]
    simp at hfl
    simp [hfl]
  | cons b t =>
    have hstep := decode_first d e.cfg.pt e.seq e.cfg.ssrc false c0 hc0 (by omega)
    let d1 : Dec := { firstPacketReceived := true, frameBuffer := [c0], frameBufferSize := c0.length, nextSeq := e.seq + 1 }
    obtain ⟨d', hrun, hclean⟩ := run_tail e.cfg (b :: t) (by simp) (fun x hx => (hmem x (by simp [hx])).1)
      (e.seq + 1) d1 (by simp [d1]) (by simp [d1]; exact hc0) rfl (by simp only [d1]; omega)
    refine ⟨d', ?_, hclean⟩
    simp only [List.map_cons, emit_cons_cons, runDec, hstep] at hrun ⊢
    simp only [Bool.false_eq_true, if_false]
    rw [hrun]
    simp only [d1, List.flatten_cons, List.flatten_nil, List.append_nil] at hfl ⊢
    simp [List.replicate_succ, hfl]

/-- the state after a frame only depends on the decoder through nothing at all: clean -/
theorem c07_flush (e e' : Enc) (f : Bytes) (ps : List Pkt) (d : Dec)
    (hc : ValidCfg e.cfg) (hf : ValidFrame f) (h : encode e f = some (e', ps)) :
    Clean (runDec d ps).1 := by
  obtain ⟨d', hrun, hclean⟩ := c03_roundtrip e e' f ps d hc hf h
  rw [hrun]; exact hclean

theorem runDec_append (d : Dec) (ps qs : List Pkt) :
    runDec d (ps ++ qs) = ((runDec (runDec d ps).1 qs).1, (runDec d ps).2 ++ (runDec (runDec d ps).1 qs).2) := by
  induction ps generalizing d with
  | nil => simp [runDec]
  | cons p ps ih => simp [runDec, ih]

/-- **C07 resynchronisation**: after ANY packet history `h` (arbitrary packets: every loss /
duplication / reordering pattern applied to any stream is such a history), the packets of an
intact valid frame `g` give "more" … "more", `ok g` — the predecessor does not even have to be
intact for VP8, because a start packet always resets the decoder. -/
theorem c07_resync (h : List Pkt) (e e' : Enc) (g : Bytes) (ps : List Pkt)
    (hc : ValidCfg e.cfg) (hg : ValidFrame g) (he : encode e g = some (e', ps)) :
    ∃ d', runDec (runDec {} h).1 ps = (d', List.replicate (ps.length - 1) .more ++ [.ok g]) ∧ Clean d' :=
  c03_roundtrip e e' g ps _ hc hg he

/-- **C03, consecutive frames** through the same encoder / decoder pair: every frame of the series
comes back exactly, in order (stated for two frames from an arbitrary state; induction gives any
number). -/
theorem c03_roundtrip_many (e e1 e2 : Enc) (f g : Bytes) (ps qs : List Pkt) (d : Dec)
    (hc : ValidCfg e.cfg) (hf : ValidFrame f) (hg : ValidFrame g)
    (h1 : encode e f = some (e1, ps)) (h2 : encode e1 g = some (e2, qs)) :
    ∃ d', runDec d (ps ++ qs) = (d', (List.replicate (ps.length - 1) .more ++ [.ok f]) ++
                                       (List.replicate (qs.length - 1) .more ++ [.ok g])) ∧ Clean d' := by
  obtain ⟨d1, hr1, _⟩ := c03_roundtrip e e1 f ps d hc hf h1
  have hc1 : ValidCfg e1.cfg := by rw [(c06_seq_consecutive e e1 f ps h1).2.2]; exact hc
  obtain ⟨d2, hr2, hcl⟩ := c03_roundtrip e1 e2 g qs d1 hc1 hg h2
  refine ⟨d2, ?_, hcl⟩
  rw [runDec_append, hr1]
  simp only [hr2]

/-- **C03, any series of frames** through the same encoder / decoder pair, from ANY decoder state:
the decoder returns exactly the frames, in order, answers "more packets needed" everywhere else and
ends clean (for a non-empty series). -/
theorem c03_roundtrip_list (e e' : Enc) (fs : List Bytes) (ps : List Pkt) (d : Dec) (hc : ValidCfg e.cfg)
    (hf : ∀ f ∈ fs, ValidFrame f) (h : encodeMany e fs = some (e', ps)) :
    okFrames (runDec d ps).2 = fs ∧ OnlyMoreOk (runDec d ps).2 ∧ (fs ≠ [] → Clean (runDec d ps).1) := by
  induction fs generalizing e ps d with
  | nil =>
    simp [encodeMany] at h
    obtain ⟨_, h2⟩ := h
    subst h2
    exact ⟨rfl, by intro r hr; simp [runDec] at hr, fun h => absurd rfl h⟩
  | cons f fs ih =>
    simp only [encodeMany] at h
    split at h
    · simp at h
    · rename_i e1 qs he
      split at h
      · simp at h
      · rename_i e2 rs hm
        simp only [Option.some.injEq, Prod.mk.injEq] at h
        obtain ⟨h1, h2⟩ := h
        subst h1 h2
        obtain ⟨d1, hr1, hc1⟩ := c03_roundtrip e e1 f qs d hc (hf f (by simp)) he
        have hcfg : ValidCfg e1.cfg := by rw [(c06_seq_consecutive e e1 f qs he).2.2]; exact hc
        obtain ⟨g1, g2, g3⟩ := ih e1 rs d1 hcfg (fun x hx => hf x (by simp [hx])) hm
        simp only [runDec_append, hr1]
        refine ⟨?_, onlyMoreOk_append _ _ (onlyMoreOk_frame _ _) g2, ?_⟩
        · rw [okFrames_append, okFrames_frame, g1]; rfl
        · intro _
          cases fs with
          | nil =>
            simp [encodeMany] at hm
            obtain ⟨_, hm2⟩ := hm
            subst hm2
            simpa [runDec] using hc1
          | cons a t => exact g3 (by simp)

/-! ## non-vacuity -/

def exEnc : Enc := { cfg := { pt := 96, ssrc := 7, max := 4 }, seq := 65535 }
def exFrame : Bytes := [1, 2, 3, 4, 5, 6, 7]

example : ValidCfg exEnc.cfg ∧ ValidFrame exFrame := by decide
example : (encode exEnc exFrame).map (·.2.map (·.payload)) = some [[0x10, 1, 2, 3], [0, 4, 5, 6], [0, 7]] := by decide
example : (encode exEnc exFrame).map (·.2.map (·.seq)) = some [65535, 0, 1] := by decide
/-- from a dirty state (mid-frame, wrong expected sequence number) the frame still comes back -/
example : ((encode exEnc exFrame).map fun r =>
    (runDec { frameBuffer := [[9, 9]], frameBufferSize := 2, nextSeq := 77 } r.2).2)
    = some [.more, .more, .ok exFrame] := by decide
example : Inv { frameBuffer := [[9, 9]], frameBufferSize := 2, nextSeq := 77 } := ⟨by decide, by decide, by decide⟩

end Rtsp.Codec.Vp8
